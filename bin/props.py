"""Per-property configuration of bin/check."""

TB_COMMON = [
    "Lean 4.33 kernel; axioms limited to propext, Classical.choice, Quot.sound (audited by #print axioms on every run)",
    "model<->code tie is checked, not proved: differential correspondence (Go harness vs compiled Lean driver) on generated inputs + regenerated fact tables (Generated/*.lean, Tie/*.lean)",
    "harness/extract.go (translator for Generated facts), harness canonicaliser, bin/check",
    "Go compiler/runtime; the S-expression wire format",
]

PROPS = {
    "C01": dict(
        modules=["GeomVerif.Properties.C01"],
        n_quick=20000, n_thorough=300000, thorough_seeds=4, min_theorems=10,
        rule="random nested coordinate arrays per type (Point, LineString, LinearRing, Polygon, MultiLineString, "
             "MultiPoint with nil members, MultiPolygon) x layouts {NoLayout, XY, XYZ, XYM, XYZM, Layout(5,6,7,9)}; "
             "sizes 0..4 per level with P(empty)=1/4; ordinates from a special-bit-pattern pool (NaN payloads, +-Inf, -0, "
             "denormals) or random bits; 1/8 of cases get one wrong-length leaf. non-trivial = input S-expression longer "
             "than 24 characters (at least one coordinate); distinct = distinct (op,input) hashes",
        trusted_base=TB_COMMON + ["modelled: flat.go deflate0-3/inflate0-3, per-type SetCoords/Coords, Layout.Stride"],
        assumptions=["slices have cap == len (spare capacity not modelled)", "stride-0 inputs with zero-length leaf coordinates are only required not to panic"],
    ),
}
