"""Per-property configuration of bin/check."""

TB_COMMON = [
    "Lean 4.33 kernel; axioms limited to propext, Classical.choice, Quot.sound (audited by #print axioms on every run)",
    "model<->code tie is checked, not proved: differential correspondence (Go harness vs compiled Lean driver) on generated inputs + regenerated fact tables (Generated/*.lean, Tie/*.lean)",
    "harness/extract.go (translator for Generated facts), harness canonicaliser, bin/check",
    "Go compiler/runtime; the S-expression wire format",
]

PROPS = {
    "C01": dict(
        modules=["GeomVerif.Properties.C01"],
        n_quick=20000, n_thorough=300000, thorough_seeds=4, min_theorems=10,
        rule="random nested coordinate arrays per type (Point, LineString, LinearRing, Polygon, MultiLineString, "
             "MultiPoint with nil members, MultiPolygon) x layouts {NoLayout, XY, XYZ, XYM, XYZM, Layout(5,6,7,9)}; "
             "sizes 0..4 per level with P(empty)=1/4; ordinates from a special-bit-pattern pool (NaN payloads, +-Inf, -0, "
             "denormals) or random bits; 1/8 of cases get one wrong-length leaf. non-trivial = input S-expression longer "
             "than 24 characters (at least one coordinate); distinct = distinct (op,input) hashes",
        trusted_base=TB_COMMON + ["modelled: flat.go deflate0-3/inflate0-3, per-type SetCoords/Coords, Layout.Stride"],
        assumptions=["slices have cap == len (spare capacity not modelled)", "stride-0 inputs with zero-length leaf coordinates are only required not to panic"],
    ),
    "C02": dict(
        modules=["GeomVerif.Properties.C02", "GeomVerif.Properties.C02Coll", "GeomVerif.Properties.C02MPoint", "GeomVerif.Properties.C02MPoly"],
        n_quick=4000, n_thorough=60000, thorough_seeds=4, min_theorems=7,
        rule="random operation histories (length 1..40, 2% up to 400) over {Push(part) 40%, of which 1/6 wrong layout; Reverse; "
             "Clone; Swap; Num; Coords; part accessor incl. out-of-range index} on Polygon, MultiLineString, MultiPoint, MultiPolygon; 1/5 of the histories on a "
             "GeometryCollection: variadic Push of 0..3 point/linestring members (1/5 with another layout), SetLayout (incl. NoLayout), Layout, NumGeoms, Geoms, Geom(i); "
             "parts empty with P=1/3; layouts XY/XYZ/XYM/XYZM/Layout(5)/Layout(6), 1/40 NoLayout; arbitrary ordinate bit patterns. "
             "Go observations are compared with the Lean model of the code and with the list-of-parts specification (the oracle). "
             "non-trivial = history text longer than 24 characters; distinct = distinct history hashes",
        trusted_base=TB_COMMON + ["modelled: Push/part accessors/Num/Reverse/Swap of polygon.go, multilinestring.go, multipoint.go, multipolygon.go; "
                                  "reverse1's in-place swap loop is summarised by its effect on whole coordinates (validated by the correspondence)",
                                  "refinement theorems proved for all five types (Polygon/MultiLineString, MultiPoint, MultiPolygon, GeometryCollection)"],
        assumptions=["Clone is the identity in the value model (storage separation is C16)", "pushed parts are valid geometries of their own layout"],
    ),
    "C05": dict(
        modules=["GeomVerif.Properties.C05"],
        n_quick=6000, n_thorough=120000, thorough_seeds=4, min_theorems=6,
        rule="geometries of the WKT domain: 7 types x XY/XYZ/XYM/XYZM, finite ordinates (small integers 1/3 of the time, else the decimal stress pool of C18: "
             "+-0, dyadic ties, tiny to 1e-25, huge to 1e300, random finite bit patterns), linestrings of 0 or 2..4 points, closed rings of 4..6 points, EMPTY "
             "points / lines / polygons as members at any position (P about 1/5), collections nested to depth 2 (1/40: 3..22 extra levels), empty collections with "
             "a fixed layout. Half the cases: Marshal -> text -> Unmarshal (op enc); half: a random standard spelling of the geometry (op spell): letter case "
             "(upper/lower/title/random), white space runs from {space, tab, LF, CRLF, VT, FF} or none where optional, bare or parenthesised multipoint members, "
             "Z/M/ZM attached or detached (1/6: omitted for non-empty XYZ/XYZM), numbers as shortest 'f', 'e'/'E' with or without '+' and leading exponent zeros, "
             "trailing zeros, '.5', '5.', leading zeros, %.17g. Go's parse result is compared at the flat level (layout, stride, flat coords, ends/endss) with "
             "the regenerated LALR model, with the independent reference reader and with SetCoords of the original. non-trivial = all",
        nontrivial=lambda op, inp: True,
        trusted_base=TB_COMMON + ["harness/extract_wkt.go translates wkt.gen.go's tables verbatim and each `case N:` body of its action switch to a constructor of WktAct.Act by template "
                                  "(unrecognised body -> Tie failure); the meaning given to each constructor in Model/WktParse.lean and the hand port of the goyacc driver loop / "
                                  "lexer are validated by the correspondence only",
                                  "strconv.ParseFloat / FormatFloat are trusted stdlib; Spec/ParseFloat.lean (exact decimal -> nearest binary64, ties to even) is compared with them on every number",
                                  "the reference reader Spec/WktRef.lean is hand-written from the OGC BNF; it treats NEL/NBSP as white space and NUL as end of text like the library's byte lexer"],
        assumptions=["finite ordinates", "texts shorter than 800 significant digits per number"],
    ),
    "C06": dict(
        modules=["GeomVerif.Properties.C06"],
        n_quick=6000, n_thorough=150000, thorough_seeds=4, min_theorems=8,
        rule="strings: a fixed corpus (NUL, NBSP/NEL, nested base/M/Z collections, 40-deep nesting, long lines around the error position), every byte value 0..255 alone "
             "and inside two token contexts, every token sequence up to length 3 (quick) / 5 (thorough) over a 13-symbol alphabet {POINT, POINT M, POINT Z, "
             "GEOMETRYCOLLECTION, ~ M, ~ Z, EMPTY, (, ), ',', 1, LINESTRING, MULTIPOINT ZM}, then random: token soup over all tags x suffix spellings, 'layout soup' "
             "(syntactically plausible nested texts whose tags, suffixes, EMPTYs, arities 1..5 and ring closure are drawn independently; 1/4 of the stream), valid "
             "spelled geometries, byte- and token-level mutations and splices of valid texts, random bytes. Go's result (flat representation, or the rendered "
             "Error() text byte for byte) must equal the model's; accepted geometries are checked for consistency, against the reference reader, and re-encoded "
             "and re-parsed. non-trivial = accepted, or rejected after at least one token (input longer than 2 bytes)",
        nontrivial=lambda op, inp: len(inp) > 4,
        trusted_base=TB_COMMON + ["harness/extract_wkt.go (tables verbatim, actions by template, skeleton fingerprints) and the hand port of the goyacc driver loop, lexer and Error() in "
                                  "Model/WktParse.lean; that the tables only produce protocol-following call sequences, index in range and terminate is checked on every explored "
                                  "input (ghost trace), not proved",
                                  "unicode.IsLetter/IsSpace/IsDigit/ToUpper on Latin-1 are hard-coded in the model and exercised for all 256 byte values on every run",
                                  "strconv.ParseFloat trusted (reference in Spec/ParseFloat.lean compared on every number)"],
        assumptions=["inputs are Go strings (arbitrary bytes)"],
    ),
    "C07": dict(
        modules=["GeomVerif.Properties.C07"],
        n_quick=8000, n_thorough=150000, thorough_seeds=4, min_theorems=15,
        rule="ops geom / feat / fc: geometries of all 7 types (nesting <= 2, parts empty with P about 1/5, empty collections with or without a fixed layout) in XY, XYZ, "
             "XYM, XYZM, Layout(5), Layout(6) with finite ordinates from the decimal stress pool; Features with ids {'', digits, float text, escapes/unicode, long}, bbox "
             "{none, 4 numbers, 6 numbers}, geometry or null, properties {null, {}, nested maps with strings needing escapes, floats, bools, nulls, arrays}; "
             "FeatureCollections of 0..3 features incl. nil entries: Marshal -> text -> Unmarshal, plus Encode -> Decode. op dec (40% of the stream): a fixed corpus "
             "(null / missing / ragged / null coordinates, case-folded and duplicate keys, ids of every JSON kind, bbox lengths, crs, trailing text, invalid UTF-8) and "
             "valid documents of each kind damaged at the byte level or mutated as JSON trees (replace / delete / duplicate / insert nodes, rename or duplicate keys, add or "
             "drop an ordinate, null elements, crs and bbox members, id variants, out-of-range numbers), decoded as a geometry, a Feature or a FeatureCollection. "
             "Go's result must equal the model's (typed decoding semantics incl.) at the flat-representation level. non-trivial = all",
        nontrivial=lambda op, inp: True,
        trusted_base=TB_COMMON + ["encoding/json's scanner and encoder are trusted stdlib: the model receives the JSON value Go's tokenizer produced (harness jvParse) for decoder "
                                  "inputs, and reads encoder output with its own RFC 8259 reader (Spec/JsonText.lean); the typed-decoding rules the library depends on (null handling, "
                                  "case folding, duplicate keys, numbers out of range) are modelled in Model/GeoJson.lean and validated by the correspondence",
                                  "strconv.ParseFloat / FormatFloat trusted (references in Spec/ParseFloat.lean compared on every number / numeric id)",
                                  "duplicate `bbox` / `features` keys (slice reuse in encoding/json) are not generated"],
        assumptions=["finite ordinates", "geojson.DefaultLayout is XY, or set by the caller to XYZ or XYZM for the length of one call (ops geomdl / decdl: the model takes the value as its parameter dl)"],
    ),
    "C08": dict(
        modules=["GeomVerif.Properties.C08", "GeomVerif.Properties.C08Order"],
        n_quick=20000, n_thorough=300000, thorough_seeds=4, min_theorems=4,
        rule="ops: Bounds() of one flat geometry (7 types, layouts XY..XYZM, Layout(5,6,8)); Bounds() of nested collections (depth<=3, "
             "members XY/XYZ/XYM/XYZM, some with a fixed layout); Extend sequences of 1..6 geometries/collections of mixed layouts on "
             "NewBounds(NoLayout|XY..XYZM); Overlaps / OverlapsPoint on boxes of a 7x7 grid (edges touch often), the empty box, and random "
             "values. Ordinates: grid, dyadic, large finite, +-Inf; never NaN or -0. Oracle: per semantic dimension X,Y,Z,M the box must hold "
             "exactly the min/max over the coordinates having that dimension; interval arithmetic for overlaps. non-trivial = input longer "
             "than 24 characters; distinct = distinct (op,input) hashes",
        trusted_base=TB_COMMON + ["modelled: bounds.go (all of it except Polygon/Set/SetCoords), GeometryCollection.Layout/Bounds, geom0.Bounds",
                                  "Lean Float comparison mirrors Go's math.Min/Max on inputs without NaN and -0 (IEEE-754 hardware)",
                                  "order-independence of Extend is decided by the semantic oracle on explored inputs, not yet by a theorem"],
        assumptions=["no NaN, no -0 ordinates (property excludes NaN; math.Min(+0,-0) is not modelled)"],
    ),
    "C09": dict(
        modules=["GeomVerif.Properties.C09"],
        n_quick=15000, n_thorough=200000, thorough_seeds=4, min_theorems=7,
        rule="well-formed geometries of all 7 types x layouts XY/XYZ/XYM/XYZM/Layout(5)/Layout(7); rings closed; parts empty with P=1/4, "
             "5% long runs (50..200 vertices); empty rings / polygons at any position; ordinate scales: small integers, dyadic 1e4, 1e9, "
             "2^200, and a far-offset tiny-extent cluster; plus the repaired D1 inputs. Go's Area/Length bits are compared with the Lean Float "
             "mirror (bit-exact) and with exact rational arithmetic within (n+c)*2^-52*sum|terms|. non-trivial = input longer than 24 characters",
        trusted_base=TB_COMMON + ["modelled: flat.go doubleArea1-3/length1-3 and the per-type Area/Length wrappers",
                                  "Lean Float (+,-,*,/,sqrt) = IEEE-754 binary64 correctly rounded, same as Go on amd64 (no FMA); the float rounding bound itself "
                                  "is NOT a theorem: it is evaluated per explored input in exact rational arithmetic (Spec/C09.lean)"],
        assumptions=["finite ordinates of magnitude <= 2^200", "rings are closed (first vertex = last vertex) for the area oracle"],
    ),
    "C16": dict(
        modules=["GeomVerif.Properties.C16", "GeomVerif.Tie.CloneFresh"],
        effects=True,
        n_quick=8000, n_thorough=120000, thorough_seeds=4, min_theorems=6,
        rule="histories: build a value (Point, LineString, LinearRing, Polygon, MultiLineString, MultiPoint, MultiPolygon, Bounds incl. inverted "
             "dimensions, Coord; nil, empty-with-capacity and non-empty slices, half of them inside arrays with spare capacity, incl. the outer "
             "slice of MultiPolygon rows), Clone it, then 0..8 public mutations of the original or the clone (write an ordinate through "
             "FlatCoords(), Reverse, TransformInPlace, Push incl. empty parts, SetCoords, Bounds.Set, and as a last step writing an end offset); "
             "after the clone and after every mutation both values are snapshotted bit for bit (nil-ness included). Oracle: the snapshots must "
             "equal those of two independent values. non-trivial = history text longer than 24 characters",
        trusted_base=TB_COMMON + ["modelled: derived.gen.go deep copy (make+copy per non-nil slice, nil preserved, scalars by value); Go slice/append semantics "
                                  "(in place iff capacity allows) as Model/Heap.lean; the outer [][]int header array of MultiPolygon is held by value in the model",
                                  "geometry-level mutators are compiled to slice operations in Model/HeapGeom.lean (validated by the correspondence)",
                                  "regenerated tie: /verif/effects (SSA alias summary over /repo's current source) lists what each exported Clone's result may be or reach; "
                                  "Tie.C16_clone_results_fresh (decide) requires the empty set for all nine Clone roots"],
        assumptions=["each slice of an object starts in its own array (sub-slices of one caller array are not generated)"],
    ),
    "C03": dict(
        modules=["GeomVerif.Properties.C03"],
        n_quick=12000, n_thorough=200000, thorough_seeds=4, min_theorems=10,
        rule="random abstract geometries (7 types, nested collections to depth 3 mixing layouts, fixed-layout and empty collections, empty members at "
             "every level, empty points, the canonical-NaN point, SRID in {0,1,4326,2^31,2^32-1,random}, 4% unencodable layouts) x {WKB, WKB NaN mode, "
             "EWKB} x {XDR, NDR}. ops: Marshal + two Reads from two concatenated copies through a reader that splits the bytes (1-byte, zero-length "
             "reads, random sizes, one read; EOF alone or with data); Write to a writer that starts failing at a chosen byte; hex variants; "
             "database/sql Valuer/Scanner incl. a wrapper of the wrong type. Oracle: bytes equal the independent reference encoder (ISO type codes / "
             "PostGIS flags); both reads give back the geometry (with the documented carve-outs); exactly the bytes are consumed; a fault is "
             "reported and what was written is a prefix. non-trivial = input longer than 40 characters",
        nontrivial=lambda op, inp: len(inp) > 40,
        trusted_base=TB_COMMON + ["modelled: wkbcommon binary.go/wkbcommon.go, wkb.Read/Write, ewkb.Read/Write; hex and sql wrappers as compositions",
                                  "reference encoder Spec/WkbSpec.lean written from ISO 13249-3 / OGC 06-103r4 and PostGIS ZMSgeoms.txt over nested coordinates",
                                  "encoding/hex, bytes.Buffer, io.ReadFull, encoding/binary (Go stdlib) modelled; io.ReadFull's loop as readFullChunks"],
        assumptions=["SRID within [0, 2^32)", "int is 64 bits (count*stride cannot overflow)"],
    ),
    "C04": dict(
        modules=["GeomVerif.Properties.C04", "GeomVerif.Properties.C04WF"],
        n_quick=20000, n_thorough=300000, thorough_seeds=4, min_theorems=6,
        rule="byte strings: valid WKB / WKB-NaN / EWKB encodings of random geometries (both byte orders) mutated by truncation, bit flips, splices, "
             "forged 32-bit fields at count/type offsets (0..2^32-1), forged type words, trailing garbage, and short random bytes; per-level limits "
             "drawn from {disabled, 0, 1, 3, 100} (count forgery only when all three limits are configured, as the property says). Go decodes with "
             "the limits set, re-encodes and decodes again, and measures runtime.MemStats.TotalAlloc around the decode. Oracle: no panic; decoded "
             "value structurally well formed; every count within its limit; decode(encode(decode x)) = decode x; allocation <= 16 KiB + len*(512 + "
             "64*max limit). non-trivial = byte string longer than 9 bytes",
        nontrivial=lambda op, inp: len(inp) > 40,
        trusted_base=TB_COMMON + ["modelled: the readers of wkbcommon/wkb/ewkb with a counter of elements passed to make()",
                                  "Go's measured TotalAlloc is a measurement, labelled as a test of the allocation bound, not a proof about the Go runtime"],
        assumptions=["global wkbcommon.MaxGeometryElements is set and restored by the harness around each decode (single goroutine)"],
    ),
    "C20": dict(
        modules=["GeomVerif.Properties.C20", "GeomVerif.Properties.C20Threshold", "GeomVerif.Properties.C20Idem", "GeomVerif.Properties.C20Dist"],
        n_quick=8000, n_thorough=150000, thorough_seeds=4, min_theorems=10,
        rule="coordinate sequences of 0..11 points (10%: 0..2, 10%: 50..200) with stride 2..5 (extra ordinates arbitrary bit patterns incl. NaN), on "
             "integer grids 3/6/20/1000; shapes: random, random walk with repeated points, diagonal collinear runs with outliers, horizontal with "
             "noise, closed loops (zero-length chord), x thresholds {0, 0.5, 1, 1.5, 2, sqrt2, 3, 4, 10, grid, random}. Go's indexes and the indexes of "
             "re-simplifying the result are compared with the bit-exact float mirror and judged in exact rational arithmetic. non-trivial = input "
             "longer than 60 characters",
        nontrivial=lambda op, inp: len(inp) > 60,
        trusted_base=TB_COMMON + ["modelled: SimplifyFlatCoords, dpWorker (explicit stack), distanceFromSegmentSquared",
                                  "Lean Float = IEEE-754 binary64 (bit-exact with Go on amd64); exact distances in Rat with a 1e-9 relative slack for the float decision",
                                  "idempotence over whole runs is decided by the oracle on explored inputs, not yet by a theorem; the threshold theorem assumes the distance comparison is a strict weak order (no NaN distances)"],
        assumptions=["threshold >= 0 and not NaN; X,Y finite"],
    ),
    "C10": dict(
        modules=["GeomVerif.Properties.C10"],
        n_quick=30000, n_thorough=500000, thorough_seeds=4, min_theorems=6,
        rule="every triple of the 5x5 integer grid (15625, exhaustive, each run) + random triples at five scales (small integers, 2^20 grid, +-100 "
             "reals, 1e-90..1e90, UTM-like with two decimals), three quarters of them nearly collinear (c = a + t(b-a) rounded, moved by -3..3 ulps "
             "in each ordinate), in a random one of the six argument orders, with 0..2 arbitrary extra ordinates; plus the repaired D3 triple. "
             "Observed: the filter stage (through the verif hook), bigxy.OrientationIndex and xy.OrientationIndex. Oracle: sign of the exact "
             "rational cross product. non-trivial = every line (distinct inputs counted)",
        nontrivial=lambda op, inp: True,
        trusted_base=TB_COMMON + ["modelled: bigxy.orientationIndexFilter (bit-exact Float mirror, compared through the verif hook), fallback = exact rational sign "
                                  "(math/big at 4200 bits is exact for float64 inputs: trusted)",
                                  "the float rounding analysis of the filter's error bound is not a theorem; the exact oracle decides it per explored triple"],
        assumptions=["ordinates zero or of magnitude within [1e-100, 1e100]"],
    ),
    "C11": dict(
        modules=["GeomVerif.Properties.C11", "GeomVerif.Properties.C11Fold", "GeomVerif.Properties.C11Det"],
        n_quick=12000, n_thorough=150000, thorough_seeds=3, min_theorems=9,
        rule="every closed triangle on the 4x4 integer grid x every grid point (65536 cases, exhaustive, each run; the thorough tier adds every "
             "closed quadrilateral x every grid point, 1048576 cases) + sampled quadrilaterals + random closed rings of 3..11 vertices (self-"
             "intersecting, horizontal edges, repeated vertices, extra ordinates with arbitrary bits, stride 2..4) on grids 4/6/8/16/2^26 with query "
             "points biased to vertices, points level with a vertex and edge midpoints; a quarter of the cases are IsOnLine on open polylines, half "
             "of those mapped exactly to moderate-magnitude floats. Oracle: exact rational even-odd rule / point-on-segment. non-trivial = all",
        nontrivial=lambda op, inp: True,
        trusted_base=TB_COMMON + ["modelled: robustdeterminate.SignOfDet2x2 (bit-exact Float mirror), raycrossing counter, robust PointIntersectsLine "
                                  "(bounding box + exact orientation from C10)",
                                  "proved for exact arithmetic (any ordered field with a floor; ℚ without side conditions): the whole of SignOfDet2x2 including "
                                  "its Euclidean loop and termination, and the fold over the ring's edges; the float64 run (rounding inside the loop) is tied "
                                  "to it by the bit-exact mirror and the exact oracle, not by a theorem"],
        assumptions=["ordinates on integer grids up to 2^26 (differences exact) or exactly representable dyadic maps of them; no NaN"],
    ),
    "C12": dict(
        modules=["GeomVerif.Properties.C12", "GeomVerif.Properties.C12Sound", "GeomVerif.Properties.C12Collinear"],
        n_quick=20000, n_thorough=200000, thorough_seeds=3, min_theorems=9,
        rule="every ordered pair of non-degenerate segments on the 3x3 integer grid (5184 pairs, exhaustive, each run; thorough adds the 4x4 grid, "
             "57600 pairs) + random pairs on grids 4/8/64/2^20 in eight configurations (random, touching at an endpoint, T-junction, collinear "
             "overlapping, collinear touching, parallel, collinear disjoint, an axis-parallel segment crossed by a far-reaching one) and long segments "
             "with a second one starting at a lattice point adjacent to the carrier (determinant +-1, +-2), in either order and direction, half with an arbitrary extra ordinate; a "
             "quarter mapped to moderate floats within +-2 ulps (classification only). Observed: robust type + reported points (bit patterns) and the "
             "non-robust HasIntersection. Oracle: exact rational intersection of the two point sets. non-trivial = all",
        nontrivial=lambda op, inp: True,
        trusted_base=TB_COMMON + ["modelled: RobustLineIntersector (orientation from C10 taken as exact), hcoords, centralendpoint, normalisation, envelope fallback "
                                  "(bit-exact Float mirror), NonRobustLineIntersector's type decision",
                                  "proved for exact arithmetic: NoIntersection <=> disjoint, every reported end point / overlap end lies on both segments, a proper "
                                  "crossing is answered with the carriers' common point (normalisation cancels, fallback not taken); the rounding distance of the "
                                  "float computation is measured against the exact point with the bound 16 eps M kappa (not proved)"],
        assumptions=["segments of non-zero length; no NaN"],
    ),
    "C15": dict(
        modules=["GeomVerif.Properties.C15", "GeomVerif.Properties.C15Seg"],
        n_quick=30000, n_thorough=400000, thorough_seeds=4, min_theorems=10,
        rule="points and segments on integer grids 3/5/12/1000/2^20 in 2D and 3D: random, parallel, collinear, touching at an endpoint, zero-length "
             "first or second segment, segment parallel to the last axis; ops DistanceFromPointToLine, PerpendicularDistanceFromPointToLine (distinct "
             "points), DistanceFromPointToLineString (stride 2..4, 1..6 vertices, arbitrary extra ordinates), DistanceFromLineToLine, "
             "xyz.DistancePointToLine, xyz.DistanceLineToLine; plus the repaired D8/D9 inputs. Go's float64 result is compared bit for bit with the "
             "Lean Float mirror and with the exact rational squared distance within 1e-9 x coordinate scale. non-trivial = all",
        nontrivial=lambda op, inp: True,
        trusted_base=TB_COMMON + ["modelled: xy.DistanceFromPointToLine/LineString/LineToLine/Perpendicular, xyz.Distance/DistancePointToLine/DistanceLineToLine (bit-exact Float mirror)",
                                  "segment-segment minimality is decided by the exact oracle (critical point of the quadratic + four endpoint distances), not by a theorem"],
        assumptions=["finite ordinates on integer grids up to 2^20; perpendicular distance only for lines through two distinct points"],
    ),
    "C14": dict(
        modules=["GeomVerif.Properties.C14"],
        n_quick=10000, n_thorough=150000, thorough_seeds=4, min_theorems=4,
        rule="point sets (1..10 points), polylines (1..3 lines of 2..6 vertices), valid polygons (star-shaped simple shells of 8..15 vertices with 0..2 "
             "star-shaped holes strictly inside, 1..3 disjoint members, either direction, random start vertex, 8% zero-area members) and simple rings "
             "(incl. rectangles whose start vertex lies inside the top edge), integer vertices on grids up to 1e5 around offsets up to 1e6, stride 2..4 "
             "with arbitrary extra ordinates. APIs: MultiPointCentroid/PointsCentroidFlat, LinesCentroid/MultiLineCentroid, PolygonsCentroid/"
             "MultiPolygonCentroid/Centroid, IsRingCounterClockwise, SignedArea. Bit-exact Float mirror + exact rational reference within 1e-9 x scale. "
             "non-trivial = all",
        nontrivial=lambda op, inp: True,
        trusted_base=TB_COMMON + ["modelled: point/line/area centroid calculators, IsRingCounterClockwise (orientation from C10 taken as exact), SignedArea",
                                  "'simple ring is CCW iff exact area > 0' is discharged per explored ring by the exact area sign, not proved",
                                  "segment lengths in the exact reference are rational sqrt brackets of relative width 2^-128"],
        assumptions=["valid polygons; finite ordinates; at least one segment of positive length in line inputs"],
    ),
    "C13": dict(
        modules=["GeomVerif.Properties.C13", "GeomVerif.Properties.C13Sub"],
        n_quick=2500, n_thorough=60000, thorough_seeds=3, min_theorems=5,
        rule="every sequence of 1..4 points on the 3x3 integer grid (7380 inputs, exhaustive, each run; thorough: up to 5 points, 66429) + random "
             "multisets of 1..12, 45..56 and 51..200 points on grids 3/5/15/200/2^20 (collinear sets, many hull vertices with interior "
             "duplicates, random), stride 2..4 with identifying extra ordinates, through ConvexHullFlat or ConvexHull; plus the repaired D4 inputs. "
             "Go's hull (type + coordinates) is compared with the Lean mirror and judged against the exact monotone-chain hull; the input slice is "
             "snapshotted before and after. non-trivial = all",
        nontrivial=lambda op, inp: True,
        trusted_base=TB_COMMON + ["modelled: getConvexHull, UniqueCoords/TreeSet (as sorted insertion), reduce/computeOctRing/computeOctPts, preSort, radial comparator, "
                                  "grahamScan/CoordStack, cleanRing, lineOrPolygon; orientation exact (C10), point-in-ring = C11 model",
                                  "sort.Sort modelled by its contract (the radial comparator is a strict total order on distinct points above the focal point, so the sorted permutation is unique)",
                                  "Graham-scan optimality is decided by the exact oracle per input, not proved"],
        assumptions=["integer-grid coordinates up to 2^20 (squared distances exact)"],
    ),
    "C19": dict(
        modules=["GeomVerif.Properties.C19", "GeomVerif.Properties.C19Res", "GeomVerif.Model.Calendar"],
        n_quick=10000, n_thorough=200000, thorough_seeds=4, min_theorems=12,
        rule="decode: synthetic IGC documents (A record present/absent, BOM/XOFF/other noise before it, CR LF or LF, HFDTE and other H records, "
             "valid and forged I extension tables (wrong start, stop before start, descending/overlapping, truncated), B records valid, truncated, "
             "over-long, shorter than the extensions require, one character corrupted), 1/6 with random byte mutations, 5% pure random bytes. "
             "round trip: tracks of 1..8 fixes with lon in [-180,180], lat in [-90,90] incl. the poles/antimeridian, alt 0..10000 (integer and "
             "fractional), non-decreasing timestamps 1970..2069 with steps of 0 s, seconds, up to a day, and 1..400 days, starting also at "
             "1999-12-31T23:59:50, on 1 January and on 31 December. Go's coordinates (bit patterns), header and error counts are compared with the "
             "Lean model; the oracle checks no panic, whole 5-tuples, and the fix round trip to format resolution. non-trivial = all",
        nontrivial=lambda op, inp: True,
        trusted_base=TB_COMMON + ["modelled: igc decode.go / encode.go incl. bufio line splitting, time.Date normalisation and Unix conversion, int64 wrap of UnixNano, fmt %0Nd",
                                  "the H-record regular expression is evaluated by Go's regexp on the literal read from /repo's source at run time and passed to the model as data",
                                  "Lean Float mirrors Go's float arithmetic (int->float64 conversion, division) bit for bit"],
        assumptions=["lines shorter than bufio.Scanner's 64 KiB token limit"],
    ),
    "C18": dict(
        modules=["GeomVerif.Properties.C18"],
        n_quick=10000, n_thorough=200000, thorough_seeds=4, min_theorems=3,
        rule="geometries of all types (nesting depth <= 2, EMPTY members in WKT) whose ordinates stress decimal rounding: +-0, exact binary ties (k/2^j), "
             "x.5, x.xx5, values rounding across a power of ten, tiny (down to 1e-25), huge (up to 1e300), negatives rounding to zero, integers ending in "
             "zero, random bit patterns; d uniform in 0..15; WKT in XY/XYZ/XYM/XYZM, GeoJSON in XY/XYZ/XYZM with and without the bbox option in either "
             "option order. Go's text must equal the model's (exact FormatFloat contract) and every emitted numeral is checked in exact rational "
             "arithmetic (<= d fractional digits, no trailing zero, |error| <= half a unit in the d-th place) with unchanged structure. non-trivial = all",
        nontrivial=lambda op, inp: True,
        trusted_base=TB_COMMON + ["strconv.FormatFloat(x,'f',d,64) is modelled by exact round-half-even on the binary value (Spec/Decimal.lean) and compared with Go on every number of every run",
                                  "encoding/json's handling of json.RawMessage / Marshaler output (compaction, field order of the Geometry struct) is modelled as text assembly",
                                  "modelled: wkt Encoder.write and writeFlatCoords*, geojson encode + nestedFloat64WithMaxDecimalDigits + EncodeGeometryWithBBox/encodeBBox"],
        assumptions=["finite ordinates", "bounding box requested only for non-collection geometries with coordinates"],
    ),
    "C17": dict(
        modules=["GeomVerif.Properties.C17", "GeomVerif.Tie.Effects"],
        effects=True, race=True,
        n_quick=4000, n_thorough=60000, thorough_seeds=4, min_theorems=4,
        n_race_quick=2500, n_race_thorough=30000,
        rule="static: /verif/effects builds SSA for the whole module from /repo's current source and computes a may-write summary of every exported function "
             "and method (351 roots); Tie.effects_clean (decide) requires every write to be a stream parameter, the receiver of a documented mutator or a listed "
             "output parameter. dynamic: batches of calls on shared arguments - 1/6 a random mix of 8..19 different functions (measures, bounds, accessors, Clone, "
             "WKB/EWKB/hex/WKT/GeoJSON/KML encoders, centroids, hull, ...) on one generated geometry (7 types x XY/XYZ/XYM/XYZM, EMPTY members, collections), 5/6 one "
             "function on its own argument kind (flat coordinate arrays up to 120 points on grids for hull / unique / simplify / ring predicates / *Flat constructors; "
             "2-D and 3-D coordinate tuples incl. touching and degenerate segments for intersection, distances, orientation, angles; WKB, EWKB, GeoJSON, WKT, IGC inputs "
             "incl. truncated ones for every decoder; one mutator as positive control). Each batch: bitwise snapshot of every argument, solo call, snapshot, then every "
             "call of the batch x 6 goroutines released together on the same arguments, snapshot, every concurrent result compared with the solo result. The same "
             "batches run a second time in a binary built with -race (GORACE=halt_on_error=1; 3 repetitions). non-trivial = all; distinct = distinct (function, arguments)",
        nontrivial=lambda op, inp: True,
        trusted_base=TB_COMMON + ["the effect analysis (/verif/effects: go/ssa from the cached x/tools v0.29.0, summary-based may-point-to with one abstract object per parameter, "
                                  "per package variable and per allocation site; interface calls resolved to every module implementation, function values by signature; "
                                  "callees outside the module by the table effects/externals.go) is a translator: its soundness is assumed, and tested each run by the "
                                  "correspondence (an observed write it did not predict is a disagreement)",
                                  "the abstraction from Go executions to Model/Sched.lean (a call = a deterministic sequence of reads and writes of locations; no synchronisation "
                                  "operations; allocation yields locations no other call can name) and the Go memory model / compiler / runtime / race detector are not verified",
                                  "standard-library callees are trusted to have the effects listed in effects/externals.go"],
        assumptions=["callbacks supplied by the caller (transform.Compare, sorting.IsLess, func(Coord)) are the caller's responsibility",
                     "unsafe and reflection-based writes are not tracked (the module uses neither to write)"],
    ),
}
