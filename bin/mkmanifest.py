#!/usr/bin/env python3
"""Regenerate MANIFEST.json from bin/manifest_src.py (keeps it valid and in one place)."""
import json, os, sys
sys.path.insert(0, os.path.dirname(os.path.abspath(__file__)))
from manifest_src import CHECKS, NOT_APPLICABLE, SOURCE_COMMITS

checks = []
for pid, c in sorted(CHECKS.items()):
    checks.append({
        "property_id": pid,
        "quick_cmd": "bin/check %s --tier quick" % pid,
        "thorough_cmd": "bin/check %s --tier thorough" % pid,
        "evidence_file": "/verif/evidence/%s.json" % pid,
        "replay_cmd_template": "bin/check %s --replay {path}" % pid,
        "engine": "lean4-proof+correspondence",
        "level_claimed": {"category": "proof", "text": c["text"], "design_ref": c.get("design_ref", "DESIGN.md §5 " + pid)},
        "level_note": c["note"],
        "technique": c["technique"],
    })
m = {
    "version": 1,
    "setup_cmd": "bin/setup",
    "hooks": {
        "guard": "verif",
        "enable": "go build -tags verif (harness module with replace github.com/twpayne/go-geom => /repo)",
        "baseline_off_cmd": "cd /repo && go test -mod=mod -json -vet=off -count=1 -timeout 25m ./...",
        "source_commits": SOURCE_COMMITS,
        "add_only": True,
    },
    "engines": [{
        "name": "lean4-proof+correspondence",
        "path": "/verif/lean (lake lib GeomVerif + lean_exe driver), /verif/harness (Go), /verif/bin/check",
        "serves_properties": sorted(CHECKS),
        "kind_free_text": "Lean 4 theorems about an executable model of the Go code; model tied to /repo on every run by regenerated fact tables (Tie theorems) and a differential correspondence run (Go harness vs compiled Lean driver) that also evaluates the property oracle on Go's own outputs",
    }],
    "checks": checks,
    "not_applicable": [{"property_id": p, "reason": r} for p, r in sorted(NOT_APPLICABLE.items())],
    "notes": "See DESIGN.md. known_findings.jsonl lists repaired defects (fix: commits in /repo) and recorded findings.",
}
json.dump(m, open(os.path.join(os.path.dirname(os.path.dirname(os.path.abspath(__file__))), "MANIFEST.json"), "w"), indent=1)
print("wrote MANIFEST.json with", len(checks), "checks,", len(m["not_applicable"]), "not_applicable")
