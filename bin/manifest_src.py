SOURCE_COMMITS = []

NOTE_COMMON = ("Trusted: Lean kernel + axioms {propext, Classical.choice, Quot.sound}; the model<->code tie is "
               "checked per run (differential correspondence + regenerated facts), not proved; Go runtime. ")

CHECKS = {
    "C01": dict(
        technique="Lean 4 theorems (induction over nested coordinate lists) + differential correspondence",
        text="For every ordinate type and every nested coordinate array, Lean theorems prove of the model of deflate/inflate/SetCoords/Coords "
             "that the stored geometry is well formed, that Coords(SetCoords(cs)) = cs exactly (empty members in position), and that a "
             "wrong-length coordinate is rejected with a stride-mismatch error iff one exists. The model is tied to /repo by running both on "
             "generated inputs each run, and the property oracle is evaluated on Go's own outputs.",
        note=NOTE_COMMON + "Slices are modelled with cap == len.",
    ),
}

_PENDING = "check not built yet in this session (work in progress; see DESIGN.md §9 build order)"
NOT_APPLICABLE = {("C%02d" % i): _PENDING for i in range(1, 21) if ("C%02d" % i) not in CHECKS}
