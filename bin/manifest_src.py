SOURCE_COMMITS = ["07ddec9"]

NOTE_COMMON = ("Trusted: Lean kernel + axioms {propext, Classical.choice, Quot.sound}; the model<->code tie is "
               "checked per run (differential correspondence + regenerated facts), not proved; Go runtime. ")

CHECKS = {
    "C01": dict(
        technique="Lean 4 theorems (induction over nested coordinate lists) + differential correspondence",
        text="For every ordinate type and every nested coordinate array, Lean theorems prove of the model of deflate/inflate/SetCoords/Coords "
             "that the stored geometry is well formed, that Coords(SetCoords(cs)) = cs exactly (empty members in position), and that a "
             "wrong-length coordinate is rejected with a stride-mismatch error iff one exists. The model is tied to /repo by running both on "
             "generated inputs each run, and the property oracle is evaluated on Go's own outputs.",
        note=NOTE_COMMON + "Slices are modelled with cap == len.",
    ),
    "C02": dict(
        technique="Lean 4 refinement proof (simulation relation, induction over histories) + differential correspondence against model and list-of-parts spec",
        text="A generic simulation theorem (run_refines) shows that for every finite history the observations of the Go-code model equal those of the "
             "abstract list-of-parts specification; instantiated and proved for Polygon/MultiLineString (C02_poly_refines: Num, i-th part incl. empty parts, "
             "Coords concatenation, wrong-layout Push error and unchanged receiver, Reverse, Swap). GeometryCollection histories (variadic Push, SetLayout, Layout, Geom, Geoms) are proved to refine the list-of-parts spec with all-or-nothing Push "
             "(C02_coll_refines, C02_coll_push_all_or_nothing, C02_coll_parts, C02_coll_parts_payloads; the histories include the caller pushing into a nested member it still holds, after which the collection sees that member's new covering layout). MultiPoint histories with EMPTY points in position (C02_mpoint_refines) and MultiPolygon histories incl. the scan-back re-basing of Polygon(i) over empty polygons "
             "(scanBack_prefix, C02_mpoly_refines) are proved too. Go is run on the same histories and compared with both.",
        note=NOTE_COMMON + "Refinement is proved for all five multi-part types; pushed parts are assumed valid geometries of their own layout, layouts of positive stride.",
    ),
    "C05": dict(
        technique="Lean 4 theorems about the grammar actions' offset arithmetic (parts incl. EMPTY members rebuild exactly SetCoords' flat coordinates, ends and endss) + "
                  "LALR parser model regenerated from wkt.gen.go (tables verbatim, actions translated) + correspondence with Go on encoder output and spelling variants, "
                  "judged by an independent reference WKT reader",
        text="C05_parts_rebuild, C05_multilinestring_rebuild, C05_multipoint_rebuild, C05_multipolygon_rebuild and the *_matches_setCoords corollaries: folding the list rules "
             "(makeGeomFlatCoordsRepr / appendGeomFlatCoordsReprs / makeMultiPolygonFlatCoordsRepr / appendMultiPolygonFlatCoordsRepr) over the parts of a text in order gives the "
             "concatenated coordinates and exactly the end offsets SetCoords computes, with EMPTY members at any position, for lists of any length. The run executes the "
             "regenerated parser model on Go's encoder output and on random standard spellings and requires Go = model = reference reader = original geometry at the "
             "flat-representation level, every emitted number re-read exactly.",
        note=NOTE_COMMON + "That the LALR tables apply the actions in list order, the lexer's handling of spellings and strconv are validated by the correspondence, not proved.",
    ),
    "C06": dict(
        technique="Lean 4 invariant proof (layout-stack invariant by induction over protocol-following call sequences: no panic site reachable; lexer position invariant => "
                  "Error() slicing total; soundness of the point/line/ring checks) + LALR parser model regenerated from wkt.gen.go with a ghost call trace checked against "
                  "the protocol + byte-exact correspondence with Go incl. rendered error messages + reference reader / consistency oracle",
        text="C06_assertions_unreachable: from a fresh lexer no call sequence following the protocol automaton reaches any panic() of lex.go / lex_stack.go or an out-of-range "
             "ring index (C06_step_invariant is the one-step lemma); C06_lexer_positions + C06_error_renderable: every recorded syntax error points inside the text on a "
             "newline-free line prefix, so (*SyntaxError).Error never slices out of range; C06_point/line/ring_check_sound. Each run checks that the regenerated tables "
             "only emit protocol-following traces, compares Go's result or rendered message with the model on every input, and judges accepted geometries by the "
             "consistency predicate, the reference reader and an encode/parse round trip.",
        note=NOTE_COMMON + "Termination and in-range table/stack indexing of the goyacc loop are observed (fuel / explicit index errors in the model), not proved.",
    ),
    "C07": dict(
        technique="Lean 4 theorems (decoders total: never a panic for any JSON value; per-type round trip of the emitted coordinate arrays through layout guessing + SetCoords) + "
                  "model of Geometry.Decode / Feature / FeatureCollection unmarshalling incl. encoding/json's typed-decoding rules + correspondence with Go on round trips and "
                  "on mutated / arbitrary documents, judged by an independent RFC 7946 reader and an explicit carve-out table",
        text="C07_decode_total, C07_unmarshal_total, C07_feature_total, C07_feature_collection_total: for every JSON value the modelled decoders return a value or an error; "
             "C07_point/linestring/polygon/multilinestring/multipoint/multipolygon_roundtrip: for every layout but XYM and any number of positions, decoding the arrays the encoder writes "
             "yields exactly SetCoords of the original coordinates in the original layout (given each number reads back, checked per number by the run); "
             "C07_xym_comes_back_xyz, C07_empty_default_layout(_polygon/_multipoint/_multilinestring/_multipolygon), C07_empty_first_ring_default_layout state the format's carve-outs; "
             "every theorem holds for every value dl of geojson.DefaultLayout, which the model takes as a parameter. The run compares Go with the model on geometry / Feature / FeatureCollection "
             "round trips and on damaged documents, requires an independent reader to see the same type, nesting and numbers in the emitted JSON, and requires id, bbox, "
             "properties and (null) geometry to survive.",
        note=NOTE_COMMON + "encoding/json's scanner/encoder are trusted; the struct-field matching of encoding/json is validated by the correspondence only.",
    ),
    "C08": dict(
        technique="Lean 4 theorems over any linear order (fold of min/max is the glb/lub; one Extend in canonical X/Y/Z/M form for all 16 layout pairs; permutation invariance of Extend sequences; recursion into collections = leaves; Overlaps = interval arithmetic) + differential correspondence with a semantic X/Y/Z/M oracle",
        text="Theorems: Bounds() of every flat geometry is the fold of coordinate-wise min/max (C08_bounds_flat_fold), that fold is exactly the greatest "
             "lower / least upper bound per slot over any linear order (C08_fold_min_is_glb, C08_fold_max_is_lub), and the Overlaps loop returns true iff "
             "every dimension's closed intervals share a point (C08_overlaps_iff). extendFlat_sem: for each of the 16 (box layout, geometry layout) pairs among "
             "XY/XYZ/XYM/XYZM one Extend (extendLayout's slot moves, the plain loop, the XYM-into-XYZM loop) keeps a well-formed box of the promoted layout "
             "whose canonical X/Y/Z/M slots are the point-wise min/max with the geometry's coordinates - Z with Z, M with M (C08_z_with_z_m_with_m). "
             "C08_extend_order_independent: for every box, every list of such geometries and every permutation, both orders succeed and give the same box. "
             "C08_collection_recursive: extending by a nested collection is extending by its leaves in order. The model is compared with Go on every run; "
             "the oracle places each ordinate in its semantic dimension and demands the exact min/max there.",
        note=NOTE_COMMON + "Boxes and geometries of the four named layouts; Layout(n>4) and NoLayout boxes are covered by the correspondence run only. +-Inf are modelled as greatest/least elements of a linear order (floats without NaN).",
    ),
    "C09": dict(
        technique="Lean 4 theorems over any commutative ring (loop = sum over vertex pairs; telescoping trapezoid = shoelace; additivity; totality) + bit-exact float correspondence + exact rational oracle",
        text="Theorems (exact arithmetic, every stride >= 2, every nesting shape incl. empty rings/polygons anywhere): the area loops equal the sum of trapezoid "
             "terms over consecutive XY pairs, which for a closed ring is the shoelace sum (C09_trapezoid_is_shoelace, C09_ring_area); Polygon and MultiPolygon "
             "measures are sums over parts and never panic (C09_*_additive); points/lines have zero area. The float behaviour is tied by running the same "
             "definitions on IEEE doubles (bit-for-bit equal to Go each run) and the rounding bound is checked per input in rational arithmetic.",
        note=NOTE_COMMON + "Partial: the (n+c)*2^-52 forward error bound is checked on explored inputs, not proved; StdModel rounding analysis not formalised.",
    ),
    "C16": dict(
        technique="Lean 4 separation/frame proof over a heap model of Go slices (induction over mutation histories, any capacity-growth policy) + regenerated tie (SSA alias summary of every exported Clone, required empty by a decide theorem) + differential correspondence on clone-then-mutate histories",
        text="C16_clone: the deep copy is equal as a value (scalars, nil-ness, every cell), well formed and lives only in arrays that did not exist before. "
             "C16_frame / C16_geometry_histories: for two objects sharing no array, every finite history of writes, in-place permutations, appends with Go's "
             "in-place-if-capacity semantics, re-allocations and new rows on either object is observed exactly as on two independent values "
             "(invariant: separation; proved for every growth policy). Go is driven through the same histories with real Clone()/Push/Reverse/"
             "TransformInPlace/SetCoords/Set and compared bit for bit. Tie (regenerated each run from /repo's source by /verif/effects): "
             "C16_clone_results_fresh - the result of each of the nine exported Clone methods is a fresh object from which neither the receiver nor any package "
             "variable is reachable (may-alias summary over SSA, interface calls resolved to every implementation); C16_clone_roots_present.",
        note=NOTE_COMMON + "Heap model: arrays of cells with (array, offset, len, cap) slices; Go's runtime growth policy is a universally quantified parameter.",
    ),
    "C03": dict(
        technique="Lean 4 theorems (model writers = independent reference encoder for LineString/Polygon in every byte order; reader inverts writer: Point/LineString/Polygon WKB and LineString EWKB with SRID round trips incl. trailing bytes; ReadFull chunk-invariance; writer-fault prefix) + Tie theorems over type words emitted by the real encoders + differential correspondence against model and reference encoder",
        text="An independent reference encoder for ISO WKB and PostGIS EWKB over nested coordinates is the oracle for Go's bytes on every run; the Lean model "
             "of the writers is proved equal to it for LineString and Polygon (all layouts, byte orders, sizes, empty rings) and count/type words are proved "
             "to read back. C03_wkb_point/lineString/polygon_roundtrip, C03_ewkb_lineString_roundtrip and C03_wkb_lineString/polygon_read_write prove that the reader "
             "model applied to the encoding (followed by any trailing bytes) returns exactly the geometry - layout, ring structure, every ordinate bit pattern, SRID for EWKB - "
             "and leaves exactly the trailing bytes, for every size below 2^32, layout and byte order. io.ReadFull over any split of the input is proved to depend only on the concatenation, and write sequencing is proved never to "
             "report success after a failed write while emitting a prefix. Type words emitted by the real encoders for all 28 type x layout pairs (and with "
             "SRID) are regenerated each run and tied to the model by decide. Multi types, nested collections, hex and SQL wrappers are covered by the "
             "executable model + reference encoder on generated inputs.",
        note=NOTE_COMMON + "Partial: write=spec and decode(encode g)=g are theorems for the non-recursive types (Point, LineString, Polygon); multi types and collections (recursion through Push) are decided per explored input.",
    ),
    "C04": dict(
        technique="Lean 4 theorems about the reader model (totality by induction on fuel with a no-panic predicate; limit check before allocation; allocation bound; well-formedness of every decoded value by a postcondition induction through the reader) + differential correspondence on mutated encodings with measured allocation",
        text="C04_total: for every byte string, format, mode, limit setting the decoder model never panics. C04_limit1/2_rejects: a count above its limit yields "
             "ErrGeometryTooLarge{level,n,limit} with the allocation counter untouched; C04_alloc_bound_coords1: with limit L a coordinate array reserves at "
             "most 2*L*stride elements whatever the input claims; C04_read_wellFormed / C04_unmarshal_wellFormed: every geometry the decoders return - all seven types, members of nested collections "
             "included - is structurally well formed (Push keeps the accumulated end-offset chains valid: mpointPush_wf, g2Push_wf, g3Push_wf). The real decoders are run on mutated encodings each run: outcome class and decoded structure are compared with the model, and the "
             "oracle checks no panic, well-formedness, limits, canonical re-encoding and the measured allocation bound.",
        note=NOTE_COMMON + "Partial: canonical re-encoding of decoded multi types and collections, and the real allocator's behaviour, are decided per explored input.",
    ),
    "C20": dict(
        technique="Lean 4 theorems parametric in the distance function (index-list shape; the explicit-stack worker with fuel 2*size is proved to terminate having marked exactly the recursive split tree; threshold guarantee between consecutive retained points by induction over that tree; idempotence: the scan keeps the first maximum, so the split tree of the retained points is the original tree restricted) + bit-exact float correspondence + exact rational oracle",
        text="For every distance function, comparison, threshold and size: the result is strictly increasing and in range, all points are returned below three, "
             "first and last are always kept (mask monotonicity by induction over the worker's fuel), and every split index is strictly inside its segment "
             "and carries the maximal distance found. C20_loop_is_recursion: with the fuel 2*size the stack loop works the whole line off (cost <= 2(e-s)-1) and "
             "marks exactly the recursive split tree; C20_retained_members; C20_threshold: for consecutive returned indexes i<j every omitted k between them has "
             "not dist(i,j,k) > threshold^2, for every size, threshold^2 >= 0 and distance function whose comparison is a strict weak order. C20_idempotent (same generality): simplifying the retained points again "
             "(same distances, renumbered) returns all of them - scan_spec (the scan returns the first index attaining the maximum), scan_restrict, dp_restrict. "
             "C20_distSegSq_is_min: distanceFromSegmentSquared, in exact arithmetic, is the minimum over t in [0,1] of the squared distance to a + t(b-a), degenerate segments included - so the "
             "distance the threshold theorem speaks of is the distance to the segment. The "
             "exact-distance reading of the float run are evaluated per run in exact rational arithmetic against Go's output, with the Lean Float mirror "
             "reproducing Go's indexes bit for bit.",
        note=NOTE_COMMON + "Partial: the threshold and idempotence theorems are about the distance values the code computes; in exact arithmetic those are the distances to the segment (C20_distSegSq_is_min); "
             "for the float run their agreement with exact distances is judged by the rational oracle with a slack of min(1e-9*thr^2, 64*2^-53*M^2) on the squared distance (M = largest ordinate of the three points: a rounding bound).",
    ),
    "C10": dict(
        technique="Lean 4 theorems over ordered commutative rings (determinant identities, antisymmetry, cyclic invariance, filter exits, integer-grid exactness) + bit-exact correspondence of the filter stage (verif hook) + exact rational sign oracle",
        text="Theorems: filter and fallback evaluate the same polynomial (C10_det_forms_agree); the sign is antisymmetric and cyclically invariant and zero iff the "
             "points are exactly collinear (C10_antisymmetric, C10_cyclic, C10_collinear_iff); every deciding exit of the filter returns the sign of the "
             "determinant it computed, for any arithmetic (C10_filter_decides_sign); on integer grids up to 2^25 all intermediates are exact (C10_grid_exact). "
             "Each run compares the filter stage bit for bit with the Lean Float mirror, and bigxy/xy OrientationIndex with the exact rational sign on the "
             "whole 5x5 grid and on nearly collinear float triples.",
        note=NOTE_COMMON + "Partial: 'an accepting filter verdict on arbitrary floats is the exact sign' (Shewchuk bound) is oracle-checked, not proved.",
    ),
    "C11": dict(
        technique="Lean 4 theorems over linearly ordered fields (SignOfDet2x2 exact including its Euclidean loop and termination: loop invariant + descent on a lattice index; LocatePointInRing = even-odd rule for every closed ring: per-edge case analysis + induction over the ring; unconditional over the rationals) + bit-exact correspondence + exact rational even-odd oracle with exhaustive small grids",
        text="Theorems: the counter's sign-adjusted determinant test is exactly 'the edge meets the ray strictly right of the point' (C11_crossing_sign), a zero "
             "determinant on a straddling edge is exactly 'the point is on the edge' (C11_zero_det_on_edge), edges strictly left never count "
             "(C11_left_edge_never_counts), and the permutation and reduction steps of Devillers' routine preserve sign*determinant. C11_locate_eq_spec: for every "
             "linearly ordered field, every closed ring and every point, given that the determinant-sign routine returns the exact sign, LocatePointInRing returns "
             "boundary iff the point lies on some edge, and otherwise interior iff an odd number of edges cross the ray to its right - through every early exit of "
             "countSegment (edges left of the point, horizontal edges, vertices level with the point, the early return at the first boundary hit; detE_sound, "
             "detE_complete, incE_spec, locateLoop_eq). C11_signOfDet2x2_exact: in every ordered field with a floor, for entries whose first column lies on a "
             "lattice g*Z and fuel at least the larger lattice index, the routine (zero tests, the eight-way permutation, the x-sign stage and the Euclidean loop with "
             "each of its early returns) returns the sign of x1*y2-x2*y1; the loop invariant is 'entries positive, determinant = carried sign * original', the "
             "lattice index of x1 strictly decreases, so the Go loop terminates. C11_locate_exact combines the two; C11_locate_exact_rat: for every closed ring of "
             "rational points and every rational point there is a fuel from which on the model's answer is the even-odd rule - no hypothesis left. The whole routine "
             "(SignOfDet2x2 + counter) is mirrored in Lean Float and compared with Go and with the exact even-odd rule on every triangle of the 4x4 grid "
             "against every grid point each run, plus random rings up to 2^26.",
        note=NOTE_COMMON + "Partial: the theorems are about exact arithmetic (every float64 input is a rational, so they state what the answer must be); that the float64 run of the loop (x2 - k*x1 in floating point) makes the same decisions is the bit-exact mirror plus the exact oracle, not a theorem.",
    ),
    "C12": dict(
        technique="Lean 4 theorems over linearly ordered fields about the modelled RobustLineIntersector (NoIntersection <=> disjoint; reported end points and overlap ends lie on both segments; a proper crossing is answered with the carriers' common point: case analysis over every branch, parametrisation of collinear segments) + bit-exact correspondence + exact rational point-set oracle with exhaustive small grids",
        text="Theorems: both ends strictly on one side of the other carrier implies disjoint (C12_same_side_disjoint), the homogeneous-coordinate quotient is on "
             "both carrier lines whenever the weight is non-zero (C12_hcoords_on_both_lines) and the envelope-centre normalisation cancels exactly "
             "(C12_hcoords_translation). About the model function itself, with the orientation index the exact sign: C12_robust_none_sound (envelope test, both "
             "same-side exits and the six-way collinear analysis never say NoIntersection for segments with a common point), C12_robust_points_sound (the touching "
             "end point chosen in each of the six selection branches, and both ends of a collinear overlap, lie on both closed segments), C12_robust_proper_sound "
             "(all arithmetic exact: the answer is 'point' with exactly the carriers' common point, which passes both envelope tests so the central-endpoint "
             "fallback is not taken, and lies on both segments), C12_robust_none_iff_disjoint; C12_robust_collinear_exact / C12_collinear_kind_exact: for two segments of non-zero length on one line the answer is "
             "NoIntersection, PointIntersection or CollinearIntersection exactly when the closed segments have no common point, exactly one, or two distinct ones "
             "(the decision chain read on the parameters of c and d along a->b: kindP_point, kindP_collinear, kindP_none). The whole robust routine (classification, endpoint copying order, collinear case analysis, computed point with "
             "fallbacks) is mirrored and compared bit for bit; the oracle intersects the two point sets in exact arithmetic: type, exact shared endpoint, "
             "exact overlap endpoints, point accuracy on integer grids, and agreement of the non-robust strategy on representable inputs.",
        note=NOTE_COMMON + "Partial: the rounding distance of the float computation (bound 16 eps M kappa) are oracle-checked, not proved; the theorems are about exact arithmetic.",
    ),
    "C15": dict(
        technique="Lean 4 theorems over linearly ordered fields (clamped-projection rule attains the minimum over the segment in 2D and 3D; segment-to-segment: the code's closest-approach parameters are the critical point of a convex quadratic, which is its global minimum, and when it leaves the unit square the minimum is on the border = the four point-to-segment problems; Lagrange identity; direction symmetry) + bit-exact Float correspondence + exact rational minimum-distance oracle",
        text="C15_point_segment_2d/3d: for every point and non-degenerate segment the code's three-way rule (start if r<=0, end if r>=1, foot otherwise) yields "
             "the minimum of the squared distance over all t in [0,1]; C15_perpendicular_formula: the 2D shortcut |s|*sqrt(L) squared equals the squared "
             "distance to the foot; C15_direction_symmetric. C15_segment_segment_3d with C15_cross_params_critical / C15_parallel_params_critical / "
             "C15_critical_is_min / C15_optimum_on_border / gq_border: the parameters xyz.DistanceLineToLine computes (cross products, since the repair of defect 15) "
             "are the critical point of the squared distance, that point is the global minimum, and when it lies outside the unit square every point of the square is "
             "beaten by a border point, i.e. by one of the four end-point-to-segment distances the code then takes the least of - so the code's rule is the minimum "
             "(3-D, and 2-D non-parallel); C15_parallel_on_border: for parallel segments (u = k*v, the optimum a whole line of parameters) every point of the "
             "unit square is matched or beaten by a border point, so the least end-point-to-segment distance both functions fall back to is the minimum. Segment-to-segment (2D: 0 iff crossing else least endpoint distance; 3D: interior critical "
             "point or least endpoint distance), zero-length segments, NaN-freedom and argument symmetry are checked on every explored input against exact "
             "rational arithmetic, with the Lean Float mirror reproducing Go bit for bit.",
        note=NOTE_COMMON + "Partial: float rounding is bounded by tolerance 1e-9*scale, not proved.",
    ),
    "C14": dict(
        technique="Lean 4 theorems over commutative rings (telescoping fan identities: area and first moments are independent of the base point and equal the shoelace sums) + bit-exact Float correspondence + exact rational centroid/area oracle",
        text="C14_fan_area and C14_fan_moment_x/y: for every closed ring and every base point, the sums the area-centroid calculator accumulates equal the "
             "base-free shoelace area and first-moment sums (proved by exhibiting the telescoping potential), so the result is the area-weighted centroid "
             "with holes subtracted whichever polygon supplied the base point; C14_triangle_centroid checks the /3/areasum2 normalisation. Ring direction, "
             "the zero-area fallback, SignedArea's sign convention, start-vertex and direction independence are checked on every explored input against "
             "exact rational arithmetic, with the Lean Float mirror reproducing Go bit for bit.",
        note=NOTE_COMMON + "Partial: IsRingCounterClockwise's correctness on arbitrary simple rings and the float rounding of the accumulations are oracle-checked, not proved.",
    ),
    "C13": dict(
        technique="Lean 4 structural theorems about the hull pipeline (selection-only stages, de-duplication invariant, dispatch on distinct count) + bit-exact correspondence of the whole pipeline + exact monotone-chain oracle with exhaustive small inputs",
        text="Theorems: de-duplication returns input coordinates with all their ordinates, one per distinct (x,y) (C13_unique_are_inputs); radial sorting and "
             "ring cleaning only reorder/drop whole coordinates (C13_sort_clean_select); one distinct point gives that Point and two give exactly that "
             "two-point line for any multiplicity (C13_dispatch); every vertex of the result of the whole pipeline - de-duplication, octagon reduction with padding, swap loop, "
             "radial sort, Graham scan, ring cleaning, line-or-polygon - is an input coordinate with all its ordinates, for every input, arithmetic, orientation predicate "
             "and point-in-ring test (C13_vertices_are_inputs); the Graham scan returns a ring that starts and ends at the focal point whatever the orientation predicate answers "
             "(C13_scan_closed). The complete pipeline incl. the >50-point octagon reduction is mirrored and compared "
             "with Go on every run; the oracle computes the exact hull by monotone chain in rational arithmetic and demands: vertices = extreme points, "
             "closed strictly convex ring or two-point line or point, vertices are input coordinates incl. extra ordinates, input unmodified.",
        note=NOTE_COMMON + "Partial: Graham-scan optimality (no input outside, every vertex extreme) is certified per explored input (exhaustive on 3x3 sequences), not proved for all inputs.",
    ),
    "C19": dict(
        technique="Lean 4 theorems (no-panic proof of record parsing under a parser-state invariant preserved by every record; two-digit-year window; calendar bijection on all 36525 days by kernel evaluation) + bit-exact correspondence + round-trip oracle",
        text="C19_parseB/H/I/parseLine_total: under the invariant (35 <= bRecordLen, every extension window non-empty and inside the B-record length) no index "
             "expression of the record parsers is out of range, for every line; C19_parseLine_preserves: every record (incl. every forged I record) leaves a state "
             "satisfying the invariant; C19_document_total / C19_doParse_total: hence for every byte string the decoder returns without a panic; C19_year_window: yy<70 -> 20yy else 19yy inverts year%100 on 1970..2069; "
             "C19_calendar_window: for each of the 36525 days of the window the model's day-number -> civil date -> day-number is the identity with a valid "
             "date; C19_position_fields_recombine / C19_position_resolution / C19_position_clamped: the degree and thousandth-of-minute fields of m = floor(60000|x|) (clamped) "
             "recombine to m exactly, and in exact arithmetic the value read back is within 1/60000 of a degree of x (towards zero), or the range limit beyond the range. "
             "The whole decoder/encoder (incl. garbage dates and int64 wrap) is mirrored and compared bit for bit with Go on generated and mutated "
             "documents; the oracle checks totality, whole fixes, and encode-then-decode to 1/60000 degree, whole seconds and clamped altitude.",
        note=NOTE_COMMON + "Partial: the float64 evaluation of 60000*x and of the quotient read back (the position arithmetic itself is proved over the rationals) is mirrored and oracle-checked, not proved.",
    ),
    "C18": dict(
        technique="Lean 4 theorems about the exact formatting contract (half-unit rounding error, trimming removes only a trailing run) + text-exact correspondence of the WKT/GeoJSON encoders + per-number oracle in exact rational arithmetic",
        text="C18_round_error / C18_formatFixed_error: rounding to d decimals (ties to even) is within half a unit of the last place for every ordinate and d; "
             "C18_trim: trimming keeps a prefix, removes only a run of the trimmed character and leaves no trailing zero / dangling point (value unchanged); "
             "C18_zero_digits_no_point. The encoders (WKT offset walkers incl. EMPTY members; GeoJSON nested arrays, bbox through the same handler in either "
             "option order) are modelled as text and must equal Go's output byte for byte; every emitted numeral is re-read and checked against the exact "
             "ordinate, and the skeleton (type, nesting, ordinate count, bbox) must be unchanged.",
        note=NOTE_COMMON + "strconv.FormatFloat itself is trusted stdlib; the run tests it against the exact contract on every emitted number.",
    ),
    "C17": dict(
        technique="Lean 4 theorems over an interleaving semantics (every schedule of threads that write only their own locations leaves shared memory unchanged, "
                  "is step-for-step equivalent to the solo runs, returns the solo results and has no conflicting access pair) + effect analysis regenerated from /repo's "
                  "SSA on every run (Tie.effects_clean by decide) + snapshot / solo-vs-concurrent correspondence, also under the Go race detector",
        text="C17_shared_unchanged, C17_solo_equivalent, C17_result_deterministic, C17_race_free: for every number of threads, every program following the discipline "
             "'read shared or own locations, write own locations only' and every schedule, arguments and package variables keep their values, each call is exactly where "
             "its solo run is after as many steps (so it returns what it returns alone) and no two accesses of different calls conflict. The discipline is tied to the code "
             "by the may-write summary of all 351 exported functions recomputed from /repo's current SSA each run and required (Tie.effects_clean, decide) to stay inside "
             "an explicit allow-list (streams, receivers of documented mutators, output parameters; never a package variable). Each run also calls the non-mutating API on "
             "generated inputs with bitwise argument snapshots, compares 6-fold concurrent results with solo results, and repeats the batches under -race.",
        note=NOTE_COMMON + "Level is partial in the sense of DESIGN §5 C17: the theorems are about the abstract semantics; the effect analysis that discharges their hypothesis "
             "for the Go code is a trusted translator (tested by the correspondence), and the Go memory model, compiler and standard library are outside the model. "
             "The race-detector runs are exploration, used as the failing-input search and as a test of the analysis.",
    ),
}

_PENDING = "check not built yet in this session (work in progress; see DESIGN.md §9 build order)"
NOT_APPLICABLE = {("C%02d" % i): _PENDING for i in range(1, 21) if ("C%02d" % i) not in CHECKS}
