SOURCE_COMMITS = []

NOTE_COMMON = ("Trusted: Lean kernel + axioms {propext, Classical.choice, Quot.sound}; the model<->code tie is "
               "checked per run (differential correspondence + regenerated facts), not proved; Go runtime. ")

CHECKS = {
    "C01": dict(
        technique="Lean 4 theorems (induction over nested coordinate lists) + differential correspondence",
        text="For every ordinate type and every nested coordinate array, Lean theorems prove of the model of deflate/inflate/SetCoords/Coords "
             "that the stored geometry is well formed, that Coords(SetCoords(cs)) = cs exactly (empty members in position), and that a "
             "wrong-length coordinate is rejected with a stride-mismatch error iff one exists. The model is tied to /repo by running both on "
             "generated inputs each run, and the property oracle is evaluated on Go's own outputs.",
        note=NOTE_COMMON + "Slices are modelled with cap == len.",
    ),
    "C02": dict(
        technique="Lean 4 refinement proof (simulation relation, induction over histories) + differential correspondence against model and list-of-parts spec",
        text="A generic simulation theorem (run_refines) shows that for every finite history the observations of the Go-code model equal those of the "
             "abstract list-of-parts specification; instantiated and proved for Polygon/MultiLineString (C02_poly_refines: Num, i-th part incl. empty parts, "
             "Coords concatenation, wrong-layout Push error and unchanged receiver, Reverse, Swap). MultiPoint/MultiPolygon share the executable machines "
             "and are compared with their specs on generated histories each run. Go is run on the same histories and compared with both.",
        note=NOTE_COMMON + "Refinement is proved for the geom2 types; for MultiPoint and MultiPolygon only the per-run comparison with the spec machine is available (partial).",
    ),
}

_PENDING = "check not built yet in this session (work in progress; see DESIGN.md §9 build order)"
NOT_APPLICABLE = {("C%02d" % i): _PENDING for i in range(1, 21) if ("C%02d" % i) not in CHECKS}
