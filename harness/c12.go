package main

import (
	"math"
	"fmt"
	"strings"

	geom "github.com/twpayne/go-geom"
	"github.com/twpayne/go-geom/xy/lineintersection"
	"github.com/twpayne/go-geom/xy/lineintersector"
)

func init() { generators["C12"] = genC12 }

func itName(t lineintersection.Type) string {
	switch t {
	case lineintersection.NoIntersection:
		return "none"
	case lineintersection.PointIntersection:
		return "point"
	case lineintersection.CollinearIntersection:
		return "collinear"
	}
	return "?"
}

var c12ZeroCounter uint64

func emitSeg(e *Emitter, a, b, c, d geom.Coord) {
	// in a quarter of the cases some zero ordinates are written as -0 (the same number)
	c12ZeroCounter = c12ZeroCounter*6364136223846793005 + 1442695040888963407
	if c12ZeroCounter>>62 == 0 {
		bits := c12ZeroCounter
		cp := func(p geom.Coord) geom.Coord {
			q := append(geom.Coord{}, p...)
			for k := 0; k < 2 && k < len(q); k++ {
				if q[k] == 0 {
					bits = bits*2862933555777941757 + 3037000493
					if bits>>63 == 1 {
						q[k] = math.Copysign(0, -1)
					}
				}
			}
			return q
		}
		a, b, c, d = cp(a), cp(b), cp(c), cp(d)
	}
	in := fmt.Sprintf("(%s %s %s %s)", sxCoord(a), sxCoord(b), sxCoord(c), sxCoord(d))
	done := false
	var res, nr lineintersection.Result
	// private copies of the arguments (the result may legitimately share storage with them, and
	// purity is C17); the returned result is kept and rendered again after later calls
	e.pending("C12.seg", in)
	e.emitR("C12.seg", in, func() string {
		if !done {
			cp := func(x geom.Coord) geom.Coord { return append(geom.Coord{}, x...) }
			a1, b1, c1, d1 := cp(a), cp(b), cp(c), cp(d)
			// consecutive segments of one line share a vertex: the very same storage is then passed for
			// the end of one and the start of the other (ls.Coord(i) twice), not two equal copies
			same := func(x, y geom.Coord) bool {
				return len(x) == len(y) && math.Float64bits(x[0]) == math.Float64bits(y[0]) && math.Float64bits(x[1]) == math.Float64bits(y[1])
			}
			if strategyForm%2 == 0 {
				switch {
				case same(b, c):
					c1 = b1
				case same(a, d):
					d1 = a1
				case same(a, c):
					c1 = a1
				case same(b, d):
					d1 = b1
				}
			}
			res = lineintersector.LineIntersectsLine(robustStrategy(), a1, b1, c1, d1)
			nr = lineintersector.LineIntersectsLine(nonRobustStrategy(), cp(a), cp(b), cp(c), cp(d))
			done = true
		}
		pts := res.Intersection()
		ps := make([]string, len(pts))
		for i, p := range pts {
			ps[i] = sxCoord(p[:2])
		}
		return fmt.Sprintf("(%s (%s) %v)", itName(res.Type()), strings.Join(ps, " "), nr.HasIntersection())
	})
}

func genC12(r *Rng, e *Emitter, n int) {
	// exhaustive: every pair of non-degenerate segments on the 3x3 grid (5184 pairs... 72*72)
	var segs [][2]geom.Coord
	for i := 0; i < 9; i++ {
		for j := 0; j < 9; j++ {
			if i != j {
				segs = append(segs, [2]geom.Coord{{float64(i % 3), float64(i / 3)}, {float64(j % 3), float64(j / 3)}})
			}
		}
	}
	for _, s1 := range segs {
		for _, s2 := range segs {
			emitSeg(e, s1[0], s1[1], s2[0], s2[1])
		}
	}
	e.tally("exhaustive-3x3")
	if n >= 100000 { // thorough: every pair on the 4x4 grid (240*240)
		var s4 [][2]geom.Coord
		for i := 0; i < 16; i++ {
			for j := 0; j < 16; j++ {
				if i != j {
					s4 = append(s4, [2]geom.Coord{{float64(i % 4), float64(i / 4)}, {float64(j % 4), float64(j / 4)}})
				}
			}
		}
		for _, s1 := range s4 {
			for _, s2 := range s4 {
				emitSeg(e, s1[0], s1[1], s2[0], s2[1])
			}
		}
		e.tally("exhaustive-4x4")
	}
	// the widest spread of exponents one call can carry: a long segment through the origin with ends
	// near 2^±1000 and slope 1 + j·2^-52, and a short one that starts a few units of 2^-1074 off that line
	// (or on it) near the origin — the exact classification needs some four thousand bits
	for i := 0; i < n/40+6; i++ {
		big := math.Ldexp(1, 900+r.Intn(101))
		slope := 1 + float64(1+r.Intn(3))*math.Ldexp(1, -52)
		tiny := math.Ldexp(1, -1074+r.Intn(20))
		o := geom.Coord{-big, -big * slope}
		p := geom.Coord{big, big * slope}
		ex := math.Ldexp(1, 52) + float64(r.Intn(4))
		f0 := geom.Coord{ex * tiny, (ex + float64(r.Intn(7)-2)) * tiny}
		f1 := geom.Coord{float64(r.Intn(5) - 2), float64(r.Intn(5)-2) + 0.5}
		if r.chance(1, 4) {
			f1 = geom.Coord{-f0[0], -f0[1] * slope}
		}
		if r.chance(1, 2) {
			o, p = p, o
		}
		if r.chance(1, 2) {
			f0, f1 = f1, f0
		}
		e.tally("widest-exponent-range")
		if r.chance(1, 2) {
			emitSeg(e, o, p, f0, f1)
		} else {
			emitSeg(e, f0, f1, o, p)
		}
	}
	// a long segment and a second one that starts (or ends) at a lattice point adjacent to it —
	// orientation determinant +-1, +-2 — and properly crosses it or just misses it
	for i := 0; i < n/6; i++ {
		bits := 3 + r.Intn(18)
		ux, uy, vx, vy := r.unimodular(bits)
		if r.chance(1, 2) {
			ux = -ux
			vx = -vx
		}
		if r.chance(1, 2) {
			uy = -uy
			vy = -vy
		}
		ox, oy := int64(r.Intn(1<<19)), int64(r.Intn(1<<19))
		m := int64(1 + r.Intn(2))
		ax, ay := ox, oy
		bx, by := ox+ux, oy+uy
		cx, cy := ox+m*vx, oy+m*vy // next to the carrier, somewhere along the segment
		if r.chance(1, 3) {
			cx, cy = cx+ux/2, cy+uy/2
		}
		// the far end: on the other side (crossing), on the same side (miss), or on the carrier
		var dx, dy int64
		switch r.Intn(4) {
		case 3: // a generic direction across the long segment: a well-conditioned crossing next to c
			wx, wy := int64(r.Intn(1<<19))-(1<<18), int64(r.Intn(1<<19))-(1<<18)
			side := ux*(cy-ay) - uy*(cx-ax)
			dw := ux*wy - uy*wx
			if (side > 0) == (dw > 0) {
				wx, wy = -wx, -wy
			}
			dx, dy = cx+wx, cy+wy
		case 0:
			dx, dy = cx-int64(2+r.Intn(6))*m*vx+int64(r.Intn(9)-4), cy-int64(2+r.Intn(6))*m*vy+int64(r.Intn(9)-4)
		case 1:
			dx, dy = cx+m*vx+int64(r.Intn(9)-4), cy+m*vy+int64(r.Intn(9)-4)
		default:
			dx, dy = cx-m*vx, cy-m*vy
		}
		a := geom.Coord{float64(ax), float64(ay)}
		b := geom.Coord{float64(bx), float64(by)}
		c := geom.Coord{float64(cx), float64(cy)}
		d := geom.Coord{float64(dx), float64(dy)}
		if (ax == bx && ay == by) || (cx == dx && cy == dy) {
			continue
		}
		if r.chance(1, 2) {
			a, b = b, a
		}
		if r.chance(1, 2) {
			c, d = d, c
		}
		if r.chance(1, 2) {
			a, b, c, d = c, d, a, b
		}
		e.tally("config=unimodular")
		emitSeg(e, a, b, c, d)
	}
	grids := []int{4, 8, 64, 1 << 20}
	for i := 0; i < n; i++ {
		g := grids[r.Intn(len(grids))]
		pt := func() (int, int) { return r.Intn(g), r.Intn(g) }
		ax, ay := pt()
		bx, by := pt()
		for bx == ax && by == ay {
			bx, by = pt()
		}
		var cx, cy, dx, dy int
		cfg := r.Intn(8)
		lerp := func(k, m int) (int, int) { return ax + (bx-ax)*k/m, ay + (by-ay)*k/m }
		switch cfg {
		case 0: // random
			cx, cy = pt()
			dx, dy = pt()
		case 1: // touching at an endpoint
			cx, cy = bx, by
			dx, dy = pt()
		case 2: // T-junction: c on the interior of ab when divisible
			cx, cy = lerp(1, 2)
			dx, dy = pt()
		case 3: // collinear overlapping
			cx, cy = ax+(bx-ax)*1, ay+(by-ay)*1
			k := 1 + r.Intn(3)
			cx, cy = ax-(bx-ax)*(k-2), ay-(by-ay)*(k-2)
			dx, dy = ax+(bx-ax)*k, ay+(by-ay)*k
		case 4: // collinear touching at one point
			cx, cy = bx, by
			dx, dy = bx+(bx-ax), by+(by-ay)
		case 5: // parallel
			ox, oy := r.Intn(5)-2, r.Intn(5)-2
			cx, cy, dx, dy = ax+ox, ay+oy, bx+ox, by+oy
		case 7: // ab parallel to an axis (its envelope has no height, or no width), cd reaching far across it
			h := 1 + r.Intn(g)
			k := 1 + r.Intn(4*g)
			if r.chance(1, 2) {
				by = ay
				for bx == ax {
					bx, _ = pt()
				}
				cx, _ = pt()
				dx, _ = pt()
				cy, dy = ay-h, ay+k
			} else {
				bx = ax
				for by == ay {
					_, by = pt()
				}
				_, cy = pt()
				_, dy = pt()
				cx, dx = ax-h, ax+k
			}
		default: // collinear disjoint
			cx, cy = bx+(bx-ax), by+(by-ay)
			dx, dy = bx+2*(bx-ax), by+2*(by-ay)
		}
		if cx == dx && cy == dy {
			dx++
		}
		a := geom.Coord{float64(ax), float64(ay)}
		b := geom.Coord{float64(bx), float64(by)}
		c := geom.Coord{float64(cx), float64(cy)}
		d := geom.Coord{float64(dx), float64(dy)}
		if r.chance(1, 4) { // moderate floats within a few ulps of the configuration (classification)
			sc := 0.1
			for _, p := range []geom.Coord{a, b, c, d} {
				p[0] = ulps(p[0]*sc+17.3, r.Intn(5)-2)
				p[1] = ulps(p[1]*sc-4.7, r.Intn(5)-2)
				// the property's window: ordinates are zero or of magnitude within [1e-100, 1e100]
				// (a few ulps from an exact zero would be a denormal, whose products underflow)
				for k := 0; k < 2; k++ {
					if p[k] != 0 && math.Abs(p[k]) < 1e-100 {
						p[k] = 0
					}
				}
			}
			if a[0] == b[0] && a[1] == b[1] || c[0] == d[0] && c[1] == d[1] {
				continue
			}
			e.tally("floats-near-config")
		}
		if !r.chance(3, 4) && true {
			// the same figure at another scale (a power of two: exactly representable, every decision
			// the same), down to the small end and up to the large end of the magnitude window
			k := []int{-300, -270, -200, -60, 60, 200, 290}[r.Intn(7)]
			sc := math.Ldexp(1, k)
			for _, p := range []geom.Coord{a, b, c, d} {
				p[0], p[1] = p[0]*sc, p[1]*sc
			}
			e.tally("scaled-by-power-of-two")
		}
		if r.chance(1, 2) { // extra ordinates are ignored
			for _, p := range []*geom.Coord{&a, &b, &c, &d} {
				*p = append(*p, r.anyBits())
			}
		}
		e.tally(fmt.Sprintf("config=%d", cfg))
		// any order of the segments and any direction of each
		if r.chance(1, 2) {
			a, b = b, a
		}
		if r.chance(1, 2) {
			c, d = d, c
		}
		if r.chance(1, 2) {
			a, b, c, d = c, d, a, b
		}
		emitSeg(e, a, b, c, d)
	}
}

// The strategy in every form a caller may hold it in: the value, a pointer to it, a struct of the
// caller's own that embeds it (or a pointer to that).
type ownRobust struct {
	lineintersector.RobustLineIntersector
	name string
}

type ownNonRobust struct {
	lineintersector.NonRobustLineIntersector
	name string
}

var strategyForm int

func robustStrategy() lineintersector.Strategy {
	strategyForm++
	switch strategyForm % 8 {
	case 1:
		return &lineintersector.RobustLineIntersector{}
	case 3:
		return ownRobust{name: "mine"}
	case 5:
		return &ownRobust{name: "mine"}
	}
	return lineintersector.RobustLineIntersector{}
}

func nonRobustStrategy() lineintersector.Strategy {
	switch strategyForm % 8 {
	case 2:
		return &lineintersector.NonRobustLineIntersector{}
	case 4:
		return ownNonRobust{name: "mine"}
	case 6:
		return &ownNonRobust{name: "mine"}
	}
	return lineintersector.NonRobustLineIntersector{}
}
