package main

import (
	"encoding/binary"

	geom "github.com/twpayne/go-geom"
	"github.com/twpayne/go-geom/encoding/ewkb"
	"github.com/twpayne/go-geom/encoding/wkb"
	"github.com/twpayne/go-geom/encoding/wkbcommon"
)

func init() { extractors = append(extractors, extractWkb) }

// extractWkb obtains the type words the encoders actually emit for every type x layout
// (the unexported dimension offsets / flag bits become observable this way).
func extractWkb() {
	g := newGen("WkbConsts")
	mk := func(kind int, l geom.Layout, srid int) geom.T {
		switch kind {
		case 1:
			return geom.NewPoint(l).SetSRID(srid)
		case 2:
			return geom.NewLineString(l).SetSRID(srid)
		case 3:
			return geom.NewPolygon(l).SetSRID(srid)
		case 4:
			return geom.NewMultiPoint(l).SetSRID(srid)
		case 5:
			return geom.NewMultiLineString(l).SetSRID(srid)
		case 6:
			return geom.NewMultiPolygon(l).SetSRID(srid)
		default:
			return geom.NewGeometryCollection().MustSetLayout(l).SetSRID(srid)
		}
	}
	var wkbCodes, ewkbCodes, ewkbSridCodes []int
	for kind := 1; kind <= 7; kind++ {
		for _, l := range []geom.Layout{geom.XY, geom.XYZ, geom.XYM, geom.XYZM} {
			b, err := wkb.Marshal(mk(kind, l, 0), wkb.NDR)
			if err != nil {
				panic(err)
			}
			wkbCodes = append(wkbCodes, int(binary.LittleEndian.Uint32(b[1:5])))
			b, err = ewkb.Marshal(mk(kind, l, 0), ewkb.NDR)
			if err != nil {
				panic(err)
			}
			ewkbCodes = append(ewkbCodes, int(binary.LittleEndian.Uint32(b[1:5])))
			b, err = ewkb.Marshal(mk(kind, l, 4326), ewkb.NDR)
			if err != nil {
				panic(err)
			}
			ewkbSridCodes = append(ewkbSridCodes, int(binary.LittleEndian.Uint32(b[1:5])))
		}
	}
	g.natList("wkbTypeWords", wkbCodes)
	g.natList("ewkbTypeWords", ewkbCodes)
	g.natList("ewkbSridTypeWords", ewkbSridCodes)
	g.natList("byteOrderIDs", []int{wkbcommon.XDRID, wkbcommon.NDRID})
	g.natList("typeIDs", []int{wkbcommon.PointID, wkbcommon.LineStringID, wkbcommon.PolygonID, wkbcommon.MultiPointID,
		wkbcommon.MultiLineStringID, wkbcommon.MultiPolygonID, wkbcommon.GeometryCollectionID})
	lim := wkbcommon.MaxGeometryElements
	g.intList("defaultLimits", []int{lim[0], lim[1], lim[2], lim[3]})
}
