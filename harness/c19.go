package main

import (
	"bytes"
	"encoding/hex"
	"fmt"
	"io"
	"math"
	"os"
	"regexp"
	"strings"
	"time"

	geom "github.com/twpayne/go-geom"
	"github.com/twpayne/go-geom/encoding/igc"
)

func init() { generators["C19"] = genC19 }

// hRegexpFromSource reads the H-record regular expression literal from /repo's current source:
// the model receives the match result as data, so it must be the expression the code uses.
func hRegexpFromSource() (*regexp.Regexp, bool) {
	src, err := os.ReadFile(repoRoot() + "/encoding/igc/decode.go")
	if err == nil {
		if m := regexp.MustCompile("hRegexp\\s*=\\s*regexp\\.MustCompile\\(`([^`]*)`\\)").FindSubmatch(src); m != nil {
			if re, err := regexp.Compile(string(m[1])); err == nil {
				return re, true
			}
		}
	}
	return regexp.MustCompile(`H(.)([A-Z0-9]{3})(.*?:)?(.*?)\s*\z`), false
}

func hexS(b []byte) string {
	if len(b) == 0 {
		return "-"
	}
	return hex.EncodeToString(b)
}

// scannerLines mirrors bufio.ScanLines + TrimSuffix("\r") only to key the regex matches by line
// content (the model splits the data itself).
func scannerLines(data []byte) [][]byte {
	var out [][]byte
	for len(data) > 0 {
		i := bytes.IndexByte(data, '\n')
		var line []byte
		if i < 0 {
			line, data = data, nil
		} else {
			line, data = data[:i], data[i+1:]
		}
		line = bytes.TrimSuffix(line, []byte("\r"))
		line = bytes.TrimSuffix(line, []byte("\r"))
		out = append(out, line)
	}
	return out
}

func (r *Rng) igcBRecord(extLen int) string {
	lat := r.Intn(91)
	latm := r.Intn(60001)
	lng := r.Intn(181)
	lngm := r.Intn(60001)
	b := fmt.Sprintf("B%02d%02d%02d%02d%05d%c%03d%05d%cA%05d%05d", r.Intn(24), r.Intn(60), r.Intn(60), lat, latm, "NS"[r.Intn(2)], lng, lngm, "EW"[r.Intn(2)], r.Intn(10000), r.Intn(10000))
	for i := 0; i < extLen; i++ {
		b += string(rune('0' + r.Intn(10)))
	}
	return b
}

func (r *Rng) igcDoc() []byte {
	var sb strings.Builder
	eol := "\r\n"
	if r.chance(1, 3) {
		eol = "\n"
	}
	switch r.Intn(8) {
	case 0:
		sb.WriteString("\ufeff")
	case 1:
		sb.WriteString("\x13")
	case 2:
		sb.WriteString("junk ")
	case 3:
		sb.WriteString("NOISE" + eol)
	}
	if !r.chance(1, 15) {
		a := "AXTR20C38FF2C110"
		if r.chance(1, 25) { // long free text in the A record, with record look-alikes inside
			pad := []int{4096, 4097, 8192, 5000}[r.Intn(4)] - len(a)
			a += strings.Repeat("x", pad) + r.igcBRecord(0) + " HFDTE010101"
		}
		sb.WriteString(a + eol)
	}
	if !r.chance(1, 8) { // (one file in eight has no date header before its first fixes)
		sb.WriteString(fmt.Sprintf("HFDTE%02d%02d%02d%s", 1+r.Intn(31), 1+r.Intn(12), r.Intn(100), eol))
	}
	if r.chance(1, 3) {
		sb.WriteString("HFPLTPILOT:Tom Payne" + eol + "HFDTEDATE:220418,01" + eol)
	}
	ext := 0
	if r.chance(1, 2) { // I record: extensions contiguous from column 36, or forged
		names := []string{"LAD", "LOD", "TDS", "FXA", "SIU"}
		n := 1 + r.Intn(3)
		start := 36
		rec := fmt.Sprintf("I%02d", n)
		forged := r.chance(1, 4)
		for i := 0; i < n; i++ {
			w := 1 + r.Intn(3)
			s, e := start, start+w-1
			if forged {
				switch r.Intn(4) {
				case 0:
					s = 30 + r.Intn(20)
				case 1:
					e = s - 1 - r.Intn(2)
				case 2:
					s, e = 36+r.Intn(6), 36+r.Intn(6) // descending / overlapping
				}
			}
			rec += fmt.Sprintf("%02d%02d%s", s%100, (e+100)%100, names[r.Intn(len(names))])
			start = e + 1
			if e+1-36 > ext && e < 99 {
				ext = e + 1 - 36
			}
		}
		if forged && r.chance(1, 2) {
			rec = rec[:len(rec)-r.Intn(5)]
		}
		if forged && r.chance(1, 3) {
			// a sign where a digit belongs (the number reader takes "-1" for a number)
			rec = "I" + []string{"-1", "-2", "-9", "+1", "-0", " 1"}[r.Intn(6)] + rec[3:]
			if r.chance(1, 3) {
				rec = rec[:3]
			}
		}
		sb.WriteString(rec + eol)
	}
	nb := r.Intn(8)
	for i := 0; i < nb; i++ {
		b := r.igcBRecord(ext)
		switch r.Intn(10) {
		case 0: // truncated
			b = b[:r.Intn(len(b)+1)]
		case 1: // over-long
			b += "123456789"
		case 2: // one character corrupted
			p := r.Intn(len(b))
			b = b[:p] + string(rune(32+r.Intn(95))) + b[p+1:]
		case 3: // shorter than the extensions require
			if ext > 0 {
				b = b[:35+r.Intn(ext)]
			}
		case 4:
			if r.chance(1, 4) {
				// a very long record (lines beyond the usual reader buffer sizes 4096 / 8192 / 16384): what
				// follows the padding looks like a record of its own but belongs to this line
				pad := []int{4096, 4097, 8192, 16384, 5000}[r.Intn(5)] - len(b)
				b += strings.Repeat(string(rune('0'+r.Intn(10))), pad) + r.igcBRecord(ext)
			}
		}
		sb.WriteString(b + eol)
		if r.chance(1, 10) {
			sb.WriteString(fmt.Sprintf("HFDTE%02d%02d%02d%s", 1+r.Intn(31), 1+r.Intn(12), r.Intn(100), eol))
		}
	}
	out := []byte(sb.String())
	if r.chance(1, 6) { // arbitrary byte mutations
		for k := 1 + r.Intn(4); k > 0 && len(out) > 0; k-- {
			out[r.Intn(len(out))] = byte(r.Intn(256))
		}
	}
	if r.chance(1, 20) {
		out = make([]byte, r.Intn(60))
		for i := range out {
			out[i] = byte(r.Intn(256))
		}
	}
	return out
}

func genC19(r *Rng, e *Emitter, n int) {
	// the process is not in UTC: timestamps are instants, whatever zone the machine is in
	time.Local = time.FixedZone("verif", 5*3600+1800)
	re, fromSrc := hRegexpFromSource()
	if !fromSrc {
		e.tally("WARNING-hregexp-literal-not-found-in-source")
	}
	for i := 0; i < n; i++ {
		if r.chance(1, 2) {
			c19EmitDec(e, re, r.igcDoc())
			continue
		}
		// round trip of a generated track: non-decreasing timestamps in 1970..2069
		start := time.Date(1970+r.Intn(100), time.Month(1+r.Intn(12)), 1+r.Intn(28), r.Intn(24), r.Intn(60), r.Intn(60), 0, time.UTC).Unix()
		switch r.Intn(6) {
		case 0:
			start = time.Date(1999, 12, 31, 23, 59, 50, 0, time.UTC).Unix()
		case 1:
			start = time.Date(1970+r.Intn(100), 1, 1, 0, 0, r.Intn(5), 0, time.UTC).Unix()
		case 2:
			start = time.Date(1970+r.Intn(99), 12, 31, 23, 59, 55, 0, time.UTC).Unix()
		}
		nf := 1 + r.Intn(8)
		flat := make([]float64, 0, 5*nf)
		var fx []string
		t := start
		for k := 0; k < nf; k++ {
			lng := (r.Float64()*2 - 1) * 180
			lat := (r.Float64()*2 - 1) * 90
			switch r.Intn(12) {
			case 0:
				lng, lat = 180, 90
			case 1:
				lng, lat = -180, -90
			case 2:
				lng, lat = 0, 0
			case 3:
				lng, lat = float64(r.Intn(361)-180), float64(r.Intn(181)-90)
			}
			alt := float64(r.Intn(10001))
			if r.chance(1, 4) {
				alt = r.Float64() * 10000
			}
			tf := float64(t)
			flat = append(flat, lng, lat, alt, tf, 0)
			fx = append(fx, fmt.Sprintf("(%s %s %s %s)", hexF(lng), hexF(lat), hexF(alt), hexF(tf)))
			switch r.Intn(6) {
			case 0:
				t += 0
			case 1:
				t += 86400 * int64(1+r.Intn(400)) // days / more than a year later
			case 2:
				t += int64(r.Intn(86400))
			default:
				t += int64(1 + r.Intn(30))
			}
			if t > time.Date(2069, 12, 31, 23, 59, 59, 0, time.UTC).Unix() {
				t = time.Date(2069, 12, 31, 23, 59, 59, 0, time.UTC).Unix()
			}
		}
		e.tally("op=roundtrip")
		// the A record's text is the caller's: any printable text (it is data, not a format)
		aText := "XXXverif"
		op, in := "C19.rt", "("+strings.Join(fx, " ")+")"
		if len(flat)%2 == 1 && r.chance(1, 3) {
			pc := "%"
			aText += []string{" battery 100" + pc, pc, pc + "d", pc + "s" + pc + "s", " " + pc + "!", " 50" + pc + pc + " ", pc + "-5", pc + "+.3", "{}", "$1", pc + "v" + pc, " {0}", pc + "[1]d", "\\n", "\t"}[r.Intn(15)]
			op, in = "C19.rta", "("+hex.EncodeToString([]byte(aText))+" "+in+")"
			e.tally("a-record-text-varied")
		}
		e.emit(op, in, guard(func() string {
			// half of the tracks are written by one long-lived Encoder whose buffer the caller empties
			// between tracks: every file it writes stands on its own
			if len(flat)%2 == 0 {
				c19Buf.Reset()
				if c19Enc == nil {
					c19Enc = igc.NewEncoder(&c19Buf, igc.A("XXXverif"))
				}
				if err := c19Enc.Encode(geom.NewLineStringFlat(geom.Layout(5), flat)); err != nil {
					return "(err other)"
				}
				b := append([]byte{}, c19Buf.Bytes()...)
				rd, done := c19Reader(b)
				tr, _ := igc.Read(rd)
				done()
				return fmt.Sprintf("(ok %s %s)", hexS(b), sxCoord(tr.LineString.FlatCoords()))
			}
			var buf bytes.Buffer
			// the destination is a buffer, or something that only has Write (a file, a wrapper of the
			// caller's): the records arrive in the order they were written
			var dst io.Writer = &buf
			var tmp *os.File
			switch c19ReaderCount % 5 {
			case 1:
				dst = writeOnly{&buf}
			case 3:
				if f, err := os.CreateTemp("", "verif-igc-w-*"); err == nil {
					tmp, dst = f, f
				}
			}
			err := igc.NewEncoder(dst, igc.A(aText)).Encode(geom.NewLineStringFlat(geom.Layout(5), flat))
			if tmp != nil {
				if err == nil {
					var data []byte
					data, err = os.ReadFile(tmp.Name())
					buf.Write(data)
				}
				tmp.Close()
				os.Remove(tmp.Name())
			}
			if err != nil {
				return "(err other)"
			}
			rd, done := c19Reader(buf.Bytes())
			tr, _ := igc.Read(rd)
			done()
			return fmt.Sprintf("(ok %s %s)", hexS(buf.Bytes()), sxCoord(tr.LineString.FlatCoords()))
		}))
	}
}

// c19Reader: the same bytes behind the kinds of reader a caller has: in memory, a pipe from another
// process (an *os.File that is not a regular file), a regular file, a stream that arrives in pieces.
var c19ReaderCount int

type c19Chunks struct {
	data        []byte
	n           int
	eofWithData bool
}

func (c *c19Chunks) Read(p []byte) (int, error) {
	if len(c.data) == 0 {
		return 0, io.EOF
	}
	k := c.n
	if k > len(c.data) {
		k = len(c.data)
	}
	k = copy(p, c.data[:k])
	c.data = c.data[k:]
	if c.eofWithData && len(c.data) == 0 {
		return k, io.EOF
	}
	return k, nil
}

func c19Reader(data []byte) (io.Reader, func()) {
	c19ReaderCount++
	switch c19ReaderCount % 16 {
	case 1:
		return strings.NewReader(string(data)), func() {}
	case 3:
		return bytes.NewBuffer(append([]byte{}, data...)), func() {}
	case 5, 11:
		pr, pw, err := os.Pipe()
		if err != nil {
			break
		}
		go func() {
			pw.Write(data)
			pw.Close()
		}()
		return pr, func() { io.Copy(io.Discard, pr); pr.Close() }
	case 7:
		return &c19Chunks{data: data, n: 1 + c19ReaderCount%13}, func() {}
	case 13, 15:
		// the last bytes arrive together with io.EOF (as from a decompressor or a body of known length)
		return &c19Chunks{data: data, n: []int{1 << 20, 700, 5}[c19ReaderCount%3], eofWithData: true}, func() {}
	case 9:
		f, err := os.CreateTemp("", "verif-igc-*")
		if err != nil {
			break
		}
		f.Write(data)
		f.Seek(0, io.SeekStart)
		return f, func() { f.Close(); os.Remove(f.Name()) }
	}
	return bytes.NewReader(data), func() {}
}

// writeOnly hides every method of the buffer but Write.
type writeOnly struct{ b *bytes.Buffer }

func (w writeOnly) Write(p []byte) (int, error) { return w.b.Write(p) }

var c19Buf bytes.Buffer
var c19Enc *igc.Encoder

var _ = math.Abs

// c19EmitDec decodes one IGC document and emits the record (fixes, header count, error count).
func c19EmitDec(e *Emitter, re *regexp.Regexp, data []byte) {
	var hs []string
	seen := map[string]bool{}
	for _, line := range scannerLines(data) {
		if len(line) == 0 || line[0] != 'H' || seen[string(line)] {
			continue
		}
		seen[string(line)] = true
		if m := re.FindSubmatch(line); m != nil {
			hs = append(hs, fmt.Sprintf("(%s %s %s)", hexS(line), hexS(m[2]), hexS(m[4])))
		} else {
			hs = append(hs, fmt.Sprintf("(%s nil)", hexS(line)))
		}
	}
	input := fmt.Sprintf("(%s (%s))", hexS(data), strings.Join(hs, " "))
	e.tally("op=decode")
	e.pending("C19.dec", input)
	e.emit("C19.dec", input, guard(func() string {
		rd, done := c19Reader(data)
		t, err := igc.Read(rd)
		done()
		nerr := 0
		if errs, ok := err.(igc.Errors); ok {
			nerr = len(errs)
		} else if err != nil {
			nerr = 1
		}
		return fmt.Sprintf("(ok %s %d %d)", sxCoord(t.LineString.FlatCoords()), len(t.Headers), nerr)
	}))
}
