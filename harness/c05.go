package main

// C05 (WKT round trip, spellings) and C06 (WKT parser total / consistent) generators.

import (
	"encoding/hex"
	"fmt"
	"math"
	"strconv"
	"strings"

	geom "github.com/twpayne/go-geom"
	"github.com/twpayne/go-geom/encoding/wkt"
)

func init() {
	generators["C05"] = genC05
	generators["C06"] = genC06
}

// sxRaw prints the flat representation of a parsed geometry.
func sxRaw(g geom.T) string {
	switch g := g.(type) {
	case nil:
		return "nil"
	case *geom.Point:
		return fmt.Sprintf("(pt %d %d %s)", int(g.Layout()), g.Stride(), sxCoord(g.FlatCoords()))
	case *geom.LineString:
		return fmt.Sprintf("(ls %d %d %s)", int(g.Layout()), g.Stride(), sxCoord(g.FlatCoords()))
	case *geom.Polygon:
		return fmt.Sprintf("(pg %d %d %s %s)", int(g.Layout()), g.Stride(), sxCoord(g.FlatCoords()), sxInts(g.Ends()))
	case *geom.MultiPoint:
		return fmt.Sprintf("(mp %d %d %s %s)", int(g.Layout()), g.Stride(), sxCoord(g.FlatCoords()), sxInts(g.Ends()))
	case *geom.MultiLineString:
		return fmt.Sprintf("(mls %d %d %s %s)", int(g.Layout()), g.Stride(), sxCoord(g.FlatCoords()), sxInts(g.Ends()))
	case *geom.MultiPolygon:
		return fmt.Sprintf("(mpg %d %d %s %s)", int(g.Layout()), g.Stride(), sxCoord(g.FlatCoords()), sxIntss(g.Endss()))
	case *geom.GeometryCollection:
		parts := make([]string, g.NumGeoms())
		for i := range parts {
			parts[i] = sxRaw(g.Geom(i))
		}
		return fmt.Sprintf("(gc %d (%s))", int(g.Layout()), strings.Join(parts, " "))
	}
	return "(unknown)"
}

func hexStr(s string) string {
	if s == "" {
		return "-"
	}
	return hex.EncodeToString([]byte(s))
}

// obsWktParse: wkt.Unmarshal and, on a syntax error, its rendered message.
// scribble changes a geometry the caller has been handed (every point gets coordinates, every
// ordinate array is written to): what was returned once belongs to the caller.
func scribble(g geom.T) {
	defer func() { _ = recover() }()
	switch g := g.(type) {
	case *geom.Point:
		c := make(geom.Coord, g.Layout().Stride())
		for i := range c {
			c[i] = float64(1000 + i)
		}
		g.MustSetCoords(c)
	case *geom.GeometryCollection:
		for _, m := range g.Geoms() {
			scribble(m)
		}
	default:
		f := g.FlatCoords()
		for i := range f {
			f[i] = -f[i] - 1
		}
	}
}

func obsWktParse(text string) (out string, g geom.T) {
	// every other time the text is parsed twice, the first result being scribbled on in between:
	// the parser hands out fresh geometries
	if len(text)%2 == 1 {
		func() {
			defer func() { _ = recover() }()
			if v, err := wkt.Unmarshal(text); err == nil {
				scribble(v)
			}
		}()
	}
	out = guard(func() string {
		v, err := wkt.Unmarshal(text)
		if err != nil {
			if se, ok := err.(*wkt.SyntaxError); ok {
				return guardWith("(err syntax panic)", func() string { return "(err syntax " + hexStr(se.Error()) + ")" })
			}
			return sxErr(err)
		}
		g = v
		return "(ok " + sxRaw(v) + ")"
	})
	return out, g
}

func guardWith(onPanic string, f func() string) (out string) {
	defer func() {
		if r := recover(); r != nil {
			out = onPanic
		}
	}()
	return f()
}

// ---- geometries of the WKT domain ----

func (r *Rng) wktOrd() float64 {
	if r.chance(1, 3) {
		return float64(r.Intn(21) - 10)
	}
	return r.decimalOrd()
}

func (r *Rng) wktCoord(s int) geom.Coord {
	c := make(geom.Coord, s)
	for i := range c {
		c[i] = r.wktOrd()
	}
	return c
}

func (r *Rng) wktLine(s int, allowEmpty bool) []geom.Coord {
	if allowEmpty && r.chance(1, 5) {
		return []geom.Coord{}
	}
	cs := make([]geom.Coord, 2+r.Intn(3))
	for i := range cs {
		cs[i] = r.wktCoord(s)
	}
	return cs
}

func (r *Rng) wktRing(s int) []geom.Coord {
	cs := make([]geom.Coord, 4+r.Intn(3))
	for i := range cs {
		cs[i] = r.wktCoord(s)
	}
	last := make(geom.Coord, s)
	copy(last, cs[0])
	cs[len(cs)-1] = last
	return cs
}

func (r *Rng) wktRings(s int, allowEmpty bool) [][]geom.Coord {
	if allowEmpty && r.chance(1, 5) {
		return [][]geom.Coord{}
	}
	rs := make([][]geom.Coord, 1+r.Intn(3))
	for i := range rs {
		rs[i] = r.wktRing(s)
	}
	return rs
}

func (r *Rng) wktTree(depth int, l geom.Layout) *gtree {
	s := l.Stride()
	t := &gtree{layout: l}
	k := r.Intn(8)
	if depth == 0 && k == 7 {
		k = r.Intn(7)
	}
	switch k {
	case 0:
		t.kind = "pt"
		if !r.chance(1, 6) {
			t.pt = r.wktCoord(s)
		}
	case 1:
		t.kind, t.c1 = "ls", r.wktLine(s, true)
	case 2:
		t.kind, t.c2 = "pg", r.wktRings(s, true)
	case 3:
		t.kind = "mls"
		t.c2 = make([][]geom.Coord, r.Intn(4))
		for i := range t.c2 {
			t.c2[i] = r.wktLine(s, true)
		}
	case 4:
		t.kind = "mp"
		t.c1 = make([]geom.Coord, r.Intn(5))
		for i := range t.c1 {
			if !r.chance(1, 4) {
				t.c1[i] = r.wktCoord(s)
			}
		}
	case 5, 6:
		t.kind = "mpg"
		t.c3 = make([][][]geom.Coord, r.Intn(4))
		for i := range t.c3 {
			t.c3[i] = r.wktRings(s, true)
		}
	default:
		t.kind = "gc"
		for i := r.Intn(4); i > 0; i-- {
			t.members = append(t.members, r.wktTree(depth-1, l))
		}
		if len(t.members) > 0 && r.chance(1, 2) {
			t.layout = geom.NoLayout
		}
	}
	return t
}

func (t *gtree) hasEmpty() bool {
	switch t.kind {
	case "pt":
		return t.pt == nil
	case "ls":
		return len(t.c1) == 0
	case "mp":
		for _, c := range t.c1 {
			if c == nil {
				return true
			}
		}
		return len(t.c1) == 0
	case "pg":
		return len(t.c2) == 0
	case "mls":
		for _, c := range t.c2 {
			if len(c) == 0 {
				return true
			}
		}
		return len(t.c2) == 0
	case "mpg":
		for _, p := range t.c3 {
			if len(p) == 0 {
				return true
			}
		}
		return len(t.c3) == 0
	}
	return true // collections: keep the suffix
}

// ---- spelling variants ----

type speller struct {
	r  *Rng
	sb strings.Builder
	// style knobs fixed per text
	caseMode int // 0 upper 1 lower 2 title 3 random per letter
	wsMode   int // 0 canonical single spaces 1 random
}

var wsChoices = []string{" ", "  ", "\t", "\n", "\r\n", " \n ", "\v", "\f"}

func (sp *speller) optWS() {
	if sp.wsMode == 1 && sp.r.chance(1, 3) {
		sp.sb.WriteString(wsChoices[sp.r.Intn(len(wsChoices))])
	}
}

func (sp *speller) ws() {
	if sp.wsMode == 0 {
		sp.sb.WriteByte(' ')
		return
	}
	sp.sb.WriteString(wsChoices[sp.r.Intn(len(wsChoices))])
	sp.optWS()
}

func (sp *speller) word(w string) {
	for i, c := range []byte(w) {
		lower := false
		switch sp.caseMode {
		case 1:
			lower = true
		case 2:
			lower = i > 0
		case 3:
			lower = sp.r.chance(1, 2)
		}
		if lower && c >= 'A' && c <= 'Z' {
			c += 32
		}
		sp.sb.WriteByte(c)
	}
}

func (sp *speller) num(x float64) {
	r := sp.r
	cands := []string{strconv.FormatFloat(x, 'f', -1, 64)}
	e := strconv.FormatFloat(x, 'e', -1, 64) // d.ddde+XX
	if i := strings.IndexByte(e, 'e'); i >= 0 {
		mant, exp := e[:i], e[i+1:]
		sign := exp[:1]
		digits := strings.TrimLeft(exp[1:], "0")
		if digits == "" {
			digits = "0"
		}
		cands = append(cands, e, mant+"E"+exp, mant+"e"+sign+digits, mant+"E"+sign+digits)
		if sign == "+" {
			cands = append(cands, mant+"e"+digits, mant+"E"+digits)
		}
	}
	f := cands[0]
	if math.Abs(x) < 1e21 {
		if !strings.Contains(f, ".") {
			cands = append(cands, f+".0", f+".", f+".000")
		} else {
			cands = append(cands, f+"0", f+"00")
		}
		if strings.HasPrefix(f, "0.") {
			cands = append(cands, f[1:])
		}
		if strings.HasPrefix(f, "-0.") {
			cands = append(cands, "-"+f[2:])
		}
		if strings.HasPrefix(f, "-") {
			cands = append(cands, "-0"+f[1:])
		} else {
			cands = append(cands, "0"+f, "00"+f)
		}
	}
	cands = append(cands, strconv.FormatFloat(x, 'g', 17, 64), strconv.FormatFloat(x, 'E', 20, 64))
	s := cands[0]
	if !r.chance(2, 5) {
		s = cands[r.Intn(len(cands))]
	}
	if v, err := strconv.ParseFloat(s, 64); err != nil || math.Float64bits(v) != math.Float64bits(x) || s[0] == '+' {
		s = cands[0]
	}
	sp.sb.WriteString(s)
}

func (sp *speller) coord(c geom.Coord) {
	for i, x := range c {
		if i > 0 {
			sp.ws()
		}
		sp.num(x)
	}
}

func (sp *speller) open()  { sp.optWS(); sp.sb.WriteByte('('); sp.optWS() }
func (sp *speller) close() { sp.optWS(); sp.sb.WriteByte(')') }
func (sp *speller) comma() {
	sp.optWS()
	sp.sb.WriteByte(',')
	if sp.wsMode == 0 || sp.r.chance(1, 2) {
		sp.ws()
	}
}

func (sp *speller) coords1(cs []geom.Coord) {
	sp.open()
	for i, c := range cs {
		if i > 0 {
			sp.comma()
		}
		sp.coord(c)
	}
	sp.close()
}

func (sp *speller) coords2(css [][]geom.Coord, emptyOK bool) {
	sp.open()
	for i, cs := range css {
		if i > 0 {
			sp.comma()
		}
		if emptyOK && len(cs) == 0 {
			sp.word("EMPTY")
		} else {
			sp.coords1(cs)
		}
	}
	sp.close()
}

var tagOf = map[string]string{"pt": "POINT", "ls": "LINESTRING", "pg": "POLYGON", "mp": "MULTIPOINT",
	"mls": "MULTILINESTRING", "mpg": "MULTIPOLYGON", "gc": "GEOMETRYCOLLECTION"}

func suffixOf(l geom.Layout) string {
	switch l {
	case geom.XYZ:
		return "Z"
	case geom.XYM:
		return "M"
	case geom.XYZM:
		return "ZM"
	}
	return ""
}

// geom writes t, which lives in a geometry of layout l. omitSuffix: leave out Z / ZM (the
// dimension then follows from the number of ordinates), only used where that is unambiguous.
func (sp *speller) geom(t *gtree, l geom.Layout, omitSuffix bool) {
	sp.word(tagOf[t.kind])
	sfx := suffixOf(l)
	if omitSuffix {
		sfx = ""
	}
	sepNeeded := true // between the tag (+suffix) and a following word (EMPTY)
	if sfx != "" {
		switch sp.r.Intn(3) {
		case 0: // attached
			sp.word(sfx)
		default: // detached
			sp.ws()
			sp.word(sfx)
		}
	}
	empty := false
	switch t.kind {
	case "pt":
		empty = t.pt == nil
	case "ls", "mp":
		empty = len(t.c1) == 0
	case "pg", "mls":
		empty = len(t.c2) == 0
	case "mpg":
		empty = len(t.c3) == 0
	case "gc":
		empty = len(t.members) == 0
	}
	if empty {
		if sepNeeded {
			sp.ws()
		}
		sp.word("EMPTY")
		return
	}
	switch t.kind {
	case "pt":
		sp.open()
		sp.coord(t.pt)
		sp.close()
	case "ls":
		sp.coords1(t.c1)
	case "pg":
		sp.coords2(t.c2, false)
	case "mls":
		sp.coords2(t.c2, true)
	case "mp":
		sp.open()
		for i, c := range t.c1 {
			if i > 0 {
				sp.comma()
			}
			switch {
			case c == nil:
				sp.word("EMPTY")
			case sp.r.chance(1, 2):
				sp.coord(c)
			default:
				sp.open()
				sp.coord(c)
				sp.close()
			}
		}
		sp.close()
	case "mpg":
		sp.open()
		for i, p := range t.c3 {
			if i > 0 {
				sp.comma()
			}
			if len(p) == 0 {
				sp.word("EMPTY")
			} else {
				sp.coords2(p, false)
			}
		}
		sp.close()
	case "gc":
		sp.open()
		for i, m := range t.members {
			if i > 0 {
				sp.comma()
			}
			sp.geom(m, l, false)
		}
		sp.close()
	}
}

func (r *Rng) spell(t *gtree, l geom.Layout) string {
	sp := &speller{r: r, caseMode: r.Intn(4), wsMode: r.Intn(2)}
	sp.optWS()
	omit := (l == geom.XYZ || l == geom.XYZM) && t.kind != "gc" && !t.hasEmpty() && r.chance(1, 6)
	sp.geom(t, l, omit)
	sp.optWS()
	return sp.sb.String()
}

var wktLayouts = []geom.Layout{geom.XY, geom.XYZ, geom.XYM, geom.XYZM}

var c05Encoder = wkt.NewEncoder()

func genC05(r *Rng, e *Emitter, n int) {
	for i := 0; i < n; i++ {
		l := wktLayouts[r.Intn(4)]
		t := r.wktTree(2, l)
		if r.chance(1, 40) { // deep nesting
			d := 3 + r.Intn(20)
			if r.chance(1, 2) { // far deeper than anything hand-written
				d = []int{64, 99, 100, 101, 102, 128, 200, 201, 256, 300, 513}[r.Intn(11)] + r.Intn(3)
				e.tally("deep-chain")
			}
			for ; d > 0; d-- {
				t = &gtree{kind: "gc", layout: geom.NoLayout, members: []*gtree{t}}
			}
		}
		if r.chance(1, 10) && t.zeroSignClosure(r) {
			e.tally("closed-up-to-zero-sign")
		}
		shared := false
		if t.kind == "gc" && r.chance(1, 3) {
			t.repeatMembers(r) // the same geometry object in several places of one collection
			shared = true
		}
		// sometimes every ordinate is a whole number (of any magnitude): then a limit on the decimal
		// digits written changes no value and the text must be the same
		whole := r.chance(1, 6)
		digits := r.Intn(17) - 1 // (-1: "as many as needed", the default spelled out)
		if whole {
			scale := math.Ldexp(1, []int{0, 0, 10, 60, 200, 700, 990}[r.Intn(7)])
			t.eachCoord(func(c geom.Coord) {
				for k := range c {
					if v := math.Trunc(c[k]) * scale; !math.IsInf(v, 0) {
						c[k] = v
					} else {
						c[k] = math.Trunc(c[k])
					}
				}
			})
		}
		if r.chance(1, 2) {
			in := t.sx()
			e.pending("C05.enc", in)
			var text string
			usePersist := r.chance(1, 2) && !whole
			mk := t.build
			if shared {
				mk = func() geom.T { return t.buildShared(map[string]geom.T{}) }
				e.tally("enc/shared-members")
			}
			if r.chance(1, 10) {
				// an Encode that fails part-way on the long-lived encoder (a collection whose later member
				// cannot be written): the next Encode on the same Encoder must not be affected
				bad := geom.NewGeometryCollection().MustPush(geom.NewPointFlat(geom.XY, []float64{7, 8}), geom.NewLineString(geom.NoLayout))
				guard(func() string { _, _ = c05Encoder.Encode(bad); return "" })
			}
			out := guard(func() string {
				var s string
				var err error
				if usePersist {
					s, err = c05Encoder.Encode(mk()) // one Encoder value reused for the whole run
				} else if whole {
					s, err = wkt.Marshal(mk(), wkt.EncodeOptionWithMaxDecimalDigits(digits))
				} else {
					s, err = wkt.Marshal(mk())
				}
				if err != nil {
					return sxErr(err)
				}
				text = s
				p, _ := obsWktParse(s)
				return p
			})
			e.tally("enc/" + t.kind + "/" + suffixOf(l))
			e.emit("C05.enc", in, "(m "+hexStr(text)+" "+out+")")
		} else {
			text := r.spell(t, l)
			in := "(" + t.sx() + " " + hexStr(text) + ")"
			e.pending("C05.spell", in)
			out, _ := obsWktParse(text)
			e.tally("spell/" + t.kind + "/" + suffixOf(l))
			e.emit("C05.spell", in, out)
		}
	}
	// the same encoder entry point called from several goroutines at once on unrelated geometries:
	// each text must still be its own geometry's
	for round := 0; round < n/100+1; round++ {
		k := 4 + r.Intn(5)
		trees := make([]*gtree, k)
		texts := make([]string, k)
		fs := make([]func() string, k)
		for j := range trees {
			l := wktLayouts[r.Intn(4)]
			trees[j] = r.wktTree(2, l)
			g := trees[j].build()
			j := j
			fs[j] = func() string {
				var last string
				for rep := 0; rep < 20; rep++ { // long enough to overlap
					s, err := wkt.Marshal(g)
					if err != nil {
						return sxErr(err)
					}
					if rep > 0 && s != last {
						texts[j] = s
						p, _ := obsWktParse(s)
						return p
					}
					last = s
				}
				texts[j] = last
				p, _ := obsWktParse(last)
				return p
			}
		}
		outs := concurrently(fs)
		for j := range trees {
			e.tally("enc-concurrent/" + trees[j].kind)
			e.emit("C05.enc", trees[j].sx(), "(m "+hexStr(texts[j])+" "+outs[j]+")")
		}
	}
}

// ---- C06: strings ----

var wktTags = []string{"POINT", "LINESTRING", "POLYGON", "MULTIPOINT", "MULTILINESTRING", "MULTIPOLYGON", "GEOMETRYCOLLECTION"}
var wktSfx = []string{"", "", "Z", "M", "ZM", " Z", " M", " ZM", " Z M", "Z M", "MZ"}

func (r *Rng) tokenSoup() string {
	var parts []string
	for k := r.Intn(14); k > 0; k-- {
		switch r.Intn(10) {
		case 0, 1:
			parts = append(parts, wktTags[r.Intn(len(wktTags))]+wktSfx[r.Intn(len(wktSfx))])
		case 2:
			parts = append(parts, "EMPTY")
		case 3, 4:
			parts = append(parts, "(")
		case 5, 6:
			parts = append(parts, ")")
		case 7:
			parts = append(parts, ",")
		case 8:
			parts = append(parts, []string{"Z", "M", "ZM", "e", "E5", "+1", "1e", "--1", "1.2.3", ".", "1e999", "nan", "inf", "0x10", "1_0"}[r.Intn(15)])
		default:
			parts = append(parts, r.numsText(1+r.Intn(5)))
		}
	}
	sep := " "
	if r.chance(1, 4) {
		sep = ""
	}
	return strings.Join(parts, sep)
}

func (r *Rng) numsText(k int) string {
	xs := make([]string, k)
	for i := range xs {
		xs[i] = strconv.FormatFloat(float64(r.Intn(7)-3), 'f', -1, 64)
		if r.chance(1, 8) {
			xs[i] = strconv.FormatFloat(r.wktOrd(), 'g', -1, 64)
		}
		if r.chance(1, 60) {
			// one number, however many characters it takes to write it
			pad := strings.Repeat("0", []int{200, 509, 510, 511, 512, 600, 1023, 1100, 4100}[r.Intn(9)])
			xs[i] = []string{"0." + pad + "1", "1" + pad[:len(pad)%300] + "." + pad + "5", "-0." + pad + "25", pad + "7"}[r.Intn(4)]
		}
	}
	return strings.Join(xs, " ")
}

// layoutSoup: syntactically plausible text whose tags, suffixes, EMPTYs and arities are drawn
// independently, to drive the layout stack through every combination of frames.
func (r *Rng) layoutSoup(depth int) string {
	sfx := []string{"", "", "", " Z", " M", " ZM", "Z", "M", "ZM"}[r.Intn(9)]
	arity := func() int { return []int{2, 2, 3, 3, 4, 1, 5, 2, 3}[r.Intn(9)] }
	pt := func() string { return r.numsText(arity()) }
	pts := func(n int) string {
		ps := make([]string, n)
		for i := range ps {
			ps[i] = pt()
		}
		return strings.Join(ps, ", ")
	}
	ring := func() string {
		a := arity()
		first := r.numsText(a)
		n := 2 + r.Intn(3)
		ps := []string{first}
		for i := 0; i < n; i++ {
			ps = append(ps, r.numsText(a))
		}
		if !r.chance(1, 6) {
			ps = append(ps, first)
		}
		return "(" + strings.Join(ps, ", ") + ")"
	}
	k := r.Intn(9)
	if depth <= 0 && k >= 6 {
		k = r.Intn(6)
	}
	if r.chance(1, 4) && k < 6 {
		return wktTags[k%6] + sfx + " EMPTY"
	}
	switch k {
	case 0:
		return "POINT" + sfx + " (" + pt() + ")"
	case 1:
		return "LINESTRING" + sfx + " (" + pts(1+r.Intn(3)) + ")"
	case 2:
		return "POLYGON" + sfx + " (" + ring() + ")"
	case 3:
		items := make([]string, 1+r.Intn(3))
		for i := range items {
			switch r.Intn(3) {
			case 0:
				items[i] = "EMPTY"
			case 1:
				items[i] = pt()
			default:
				items[i] = "(" + pt() + ")"
			}
		}
		return "MULTIPOINT" + sfx + " (" + strings.Join(items, ", ") + ")"
	case 4:
		items := make([]string, 1+r.Intn(3))
		for i := range items {
			if r.chance(1, 3) {
				items[i] = "EMPTY"
			} else {
				items[i] = "(" + pts(1+r.Intn(3)) + ")"
			}
		}
		return "MULTILINESTRING" + sfx + " (" + strings.Join(items, ", ") + ")"
	case 5:
		items := make([]string, 1+r.Intn(3))
		for i := range items {
			if r.chance(1, 3) {
				items[i] = "EMPTY"
			} else {
				items[i] = "(" + ring() + ")"
			}
		}
		return "MULTIPOLYGON" + sfx + " (" + strings.Join(items, ", ") + ")"
	default:
		if r.chance(1, 6) {
			return "GEOMETRYCOLLECTION" + sfx + " EMPTY"
		}
		items := make([]string, 1+r.Intn(4))
		for i := range items {
			items[i] = r.layoutSoup(depth - 1)
		}
		return "GEOMETRYCOLLECTION" + sfx + " (" + strings.Join(items, ", ") + ")"
	}
}

func (r *Rng) mutateWktBytes(s string) string {
	b := []byte(s)
	for k := 1 + r.Intn(3); k > 0; k-- {
		if len(b) == 0 {
			b = append(b, byte(r.Intn(256)))
			continue
		}
		i := r.Intn(len(b))
		switch r.Intn(7) {
		case 0:
			b = append(b[:i], b[i+1:]...)
		case 1:
			b[i] = byte(r.Intn(256))
		case 2:
			cs := "(), \n\tZMzmeE+-.0123456789"
			b[i] = cs[r.Intn(len(cs))]
		case 3:
			cs := "(), \n\tZMEeP05-.\x00\xa0\x85\xb5\xff"
			c := cs[r.Intn(len(cs))]
			b = append(b[:i], append([]byte{c}, b[i:]...)...)
		case 4:
			b = b[:i]
		case 5:
			j := r.Intn(len(b))
			b[i], b[j] = b[j], b[i]
		default:
			j := i + r.Intn(len(b)-i)
			b = append(b[:j], append(append([]byte{}, b[i:j]...), b[j:]...)...)
		}
	}
	return string(b)
}

func (r *Rng) mutateTokens(s string) string {
	toks := strings.Fields(strings.NewReplacer("(", " ( ", ")", " ) ", ",", " , ").Replace(s))
	if len(toks) == 0 {
		return s
	}
	for k := 1 + r.Intn(2); k > 0; k-- {
		i := r.Intn(len(toks))
		switch r.Intn(6) {
		case 0:
			toks = append(toks[:i], toks[i+1:]...)
		case 1:
			toks = append(toks[:i], append([]string{toks[i]}, toks[i:]...)...)
		case 2:
			toks[i] = []string{"EMPTY", "(", ")", ",", "1", "Z", "M", "ZM", "POINT", "GEOMETRYCOLLECTION", "POINTM", "MULTIPOINT"}[r.Intn(12)]
		case 3:
			toks = append(toks[:i], append([]string{"7"}, toks[i:]...)...)
		case 4:
			j := r.Intn(len(toks))
			toks[i], toks[j] = toks[j], toks[i]
		default:
			toks[i] = toks[i] + []string{"Z", "M", "ZM", "e", ".", "-"}[r.Intn(6)]
		}
		if len(toks) == 0 {
			break
		}
	}
	return strings.Join(toks, " ")
}

func (r *Rng) randomBytes() string {
	b := make([]byte, r.Intn(40))
	for i := range b {
		if r.chance(1, 2) {
			b[i] = byte(r.Intn(256))
		} else {
			cs := "POINTZMEMPTY(), 123-.e\n"
			b[i] = cs[r.Intn(len(cs))]
		}
	}
	return string(b)
}

func emitC06(e *Emitter, kind, text string) {
	in := hexStr(text)
	e.pending("C06.parse", in)
	out, g := obsWktParse(text)
	re := "-"
	if g != nil {
		re = guard(func() string {
			s, err := wkt.Marshal(g)
			if err != nil {
				return sxErr(err)
			}
			p, _ := obsWktParse(s)
			return p
		})
	}
	cls := "reject"
	if strings.HasPrefix(out, "(ok") {
		cls = "accept"
	} else if out == "(panic)" {
		cls = "panic"
	}
	e.tally(kind + "/" + cls)
	e.emit("C06.parse", in, "(m (re "+re+") "+out+")")
}

// exhaustive token sequences over a reduced alphabet, in a fixed order
var c06Alphabet = []string{"POINT", "POINT M", "POINT Z", "GEOMETRYCOLLECTION", "GEOMETRYCOLLECTION M",
	"GEOMETRYCOLLECTION Z", "EMPTY", "(", ")", ",", "1", "LINESTRING", "MULTIPOINT ZM"}

func c06Exhaustive(e *Emitter, maxLen int, budget int) int {
	count := 0
	var rec func(prefix []string, left int)
	rec = func(prefix []string, left int) {
		if count >= budget {
			return
		}
		emitC06(e, "exhaustive", strings.Join(prefix, " "))
		count++
		if left == 0 {
			return
		}
		for _, a := range c06Alphabet {
			rec(append(prefix, a), left-1)
		}
	}
	rec(nil, maxLen)
	return count
}

func genC06(r *Rng, e *Emitter, n int) {
	// fixed corpus first: every byte value alone and inside a token, edge texts
	corpus := []string{"", " ", "\x00", "POINT(1 2)\x00junk", "POINT\xa0(1 2)", "POINT\x85Z(1 2 3)",
		"GEOMETRYCOLLECTION M (POINT EMPTY)", "GEOMETRYCOLLECTION M (POINT (1 2 3))",
		"GEOMETRYCOLLECTION (POINT M (1 2 3), POINT EMPTY)", "GEOMETRYCOLLECTION (POINT (1 2), GEOMETRYCOLLECTION (POINT (1 2 3)))",
		"GEOMETRYCOLLECTION Z (GEOMETRYCOLLECTION (POINT EMPTY))", "GEOMETRYCOLLECTION (GEOMETRYCOLLECTION M (POINT EMPTY), POINT(1 2))",
		"POINTZ M (1 2 3 4)", "POINT Z M (1 2 3 4)", "POINT ZM(1 2 3 4)", "POLYGON((0 0,1 0,1 1,-0 0))",
		"POLYGON ZM((0 0 0 0,1 0 0 0,1 1 0 0,0 0 1 0))", "POLYGON M((0 0 0,1 0 0,1 1 0,0 0 1))",
		"LINESTRING(1 2)", "POINT(1)", "POINT(1 2 3 4 5)", "MULTIPOINT(1 2, EMPTY, (3 4))", "MULTIPOINT(1 2 3, EMPTY)",
		strings.Repeat("GEOMETRYCOLLECTION(", 40) + "POINT(1 2)" + strings.Repeat(")", 40),
		strings.Repeat("\n", 5) + strings.Repeat(" ", 70) + "POINT(1 2" + strings.Repeat(" ", 70) + "x)\n\n",
		"POINT(1 2)\n\n\n)", "\tPOINT\t(\t1\t2\t3\t4\t5\t)\t", "point(1e400 2)", "POINT(1e-400 2)", "POINT(-0 -0.0)",
	}
	for _, c := range corpus {
		emitC06(e, "corpus", c)
	}
	// texts that are valid but for one ordinate, which is something a general-purpose number reader
	// would take (and WKT's number grammar may or may not): in the compact and the spaced spellings
	lookalikes := []string{"inf", "-inf", "+inf", "Inf", "-Inf", "INF", "Infinity", "-Infinity", "infinity", "nan", "NaN", "-nan",
		"0x10", "0x1p-2", "0X1P4", "-0x1.8p1", "1_000", "1_0.5", "1e", "1e+", "1e-", ".5", "5.", "-.5", "+1", "+.5", "1E5", "1e+5", "0e0",
		"00012", "1e999", "-1e999", "1e-999", "1d5", "1f", "0b101", "0o17", "1,5", "1e5.5", "٣", "１"}
	for _, la := range lookalikes {
		for _, tmpl := range []string{"POINT(%s 0)", "POINT(1 %s)", "POINT (%s 2)", "POINT( 1 %s )", "POINT(%s 1 2)", "POINT(1 2 %s)",
			"POINT(1 2 3 %s)", "POINT Z(1 %s 3)", "POINT Z (%s 2 3)", "POINTM(1 2 %s)", "POINT ZM(1 2 3 %s)", "point(%s 0)", "Point(1 %s)",
			"LINESTRING(%s 1, 2 3)", "LINESTRING(0 1, 2 %s)", "MULTIPOINT(%s 2)", "MULTIPOINT((1 %s))", "POLYGON((0 0, 1 0, 1 %s, 0 0))",
			"GEOMETRYCOLLECTION(POINT(%s 0))"} {
			emitC06(e, "lookalike", fmt.Sprintf(tmpl, la))
		}
	}
	// error positions far from anything: incomplete and complete-but-wrong texts followed / preceded
	// by long runs of one white-space byte (the error message trims its snippet around the column)
	for _, ws := range []string{"\r", " ", "\t", "\v", "\f", "\xa0", "\x85", "\r\n", "\n"} {
		for _, k := range []int{29, 30, 31, 32, 59, 60, 61, 64, 100} {
			run := strings.Repeat(ws, k)
			for _, body := range []string{"POINT(1 2", "LINESTRING(1 2, 3 4", "POINT(1 2) x", "POINT(", "POLYGON((0 0,1 0,1 1,0 0)", "x"} {
				emitC06(e, "runs", body+run)
				emitC06(e, "runs", run+body)
				emitC06(e, "runs", "POINT (1 2)\n"+run+body+run)
			}
		}
	}
	// an error far down a long, pretty-printed text (line numbers of four, five, six digits) and far
	// along its line: the message still renders
	for _, nl := range []int{999, 1000, 9999, 10000} {
		for _, col := range []int{0, 30, 31, 45} {
			emitC06(e, "far-down", "POINT(1 2)"+strings.Repeat("\n", nl)+strings.Repeat(" ", col)+"x")
		}
	}
	for b := 0; b < 256; b++ {
		emitC06(e, "byte", string([]byte{byte(b)}))
		emitC06(e, "byte", "POINT"+string([]byte{byte(b)})+"(1 2)")
		emitC06(e, "byte", "POINT(1"+string([]byte{byte(b)})+"2)")
	}
	ex := 2400
	if n >= 20000 {
		ex = 410000
	}
	maxLen := 3
	if n >= 20000 {
		maxLen = 5
	}
	c06Exhaustive(e, maxLen, ex)
	for i := 0; i < n; i++ {
		l := wktLayouts[r.Intn(4)]
		switch r.Intn(8) {
		case 0:
			emitC06(e, "tokens", r.tokenSoup())
		case 1, 2:
			emitC06(e, "layouts", r.layoutSoup(2+r.Intn(2)))
		case 3:
			emitC06(e, "valid", r.spell(r.wktTree(2, l), l))
		case 4:
			emitC06(e, "mutbytes", r.mutateWktBytes(r.spell(r.wktTree(1, l), l)))
		case 5:
			emitC06(e, "muttokens", r.mutateTokens(r.spell(r.wktTree(1, l), l)))
		case 6:
			a, b := r.spell(r.wktTree(1, l), l), r.layoutSoup(1)
			emitC06(e, "splice", a[:r.Intn(len(a)+1)]+b[r.Intn(len(b)+1):])
		default:
			emitC06(e, "bytes", r.randomBytes())
		}
	}
}
