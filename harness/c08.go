package main

import (
	"fmt"
	"math"
	"strings"

	geom "github.com/twpayne/go-geom"
)

func init() { generators["C08"] = genC08 }

// ordinate for bounds: finite (small grid / dyadic / large) or +-Inf; never NaN, never -0.
func (r *Rng) boundsOrd() float64 {
	switch r.Intn(12) {
	case 0:
		return math.Inf(1)
	case 1:
		return math.Inf(-1)
	case 2, 3, 4, 5:
		return float64(r.Intn(9) - 4)
	case 6, 7:
		return float64(r.Intn(2001)-1000) / 8
	case 8:
		return math.Float64frombits(r.Uint64()&0x7FEFFFFFFFFFFFFF | 1) * float64(1-2*r.Intn(2))
	default:
		return (r.Float64() - 0.5) * 1e6
	}
}

func (r *Rng) boundsFlat(stride, n int) []float64 {
	f := make([]float64, stride*n)
	for i := range f {
		f[i] = r.boundsOrd()
		if f[i] == 0 {
			f[i] = 0 // drop a possible -0
		}
	}
	return f
}

// flat geometry of a random type over `flat`
func (r *Rng) flatGeom(l geom.Layout) geom.T {
	stride := l.Stride()
	n := 0
	if !r.chance(1, 5) {
		n = 1 + r.Intn(5)
	}
	switch r.Intn(7) {
	case 0:
		if n == 0 {
			return geom.NewPointEmpty(l)
		}
		return geom.NewPointFlat(l, r.boundsFlat(stride, 1))
	case 1:
		return geom.NewLineStringFlat(l, r.boundsFlat(stride, n))
	case 2:
		return geom.NewLinearRingFlat(l, r.boundsFlat(stride, n))
	case 3:
		f := r.boundsFlat(stride, n)
		if n == 0 {
			return geom.NewPolygon(l)
		}
		k := stride * (1 + r.Intn(n))
		if k == len(f) {
			return geom.NewPolygonFlat(l, f, []int{len(f)})
		}
		return geom.NewPolygonFlat(l, f, []int{k, len(f)})
	case 4:
		return geom.NewMultiPointFlat(l, r.boundsFlat(stride, n))
	case 5:
		f := r.boundsFlat(stride, n)
		if n == 0 {
			return geom.NewMultiLineString(l)
		}
		return geom.NewMultiLineStringFlat(l, f, []int{len(f)})
	default:
		f := r.boundsFlat(stride, n)
		if n == 0 {
			return geom.NewMultiPolygon(l)
		}
		return geom.NewMultiPolygonFlat(l, f, [][]int{{len(f)}})
	}
}

var xyzmLayouts = []geom.Layout{geom.XY, geom.XYZ, geom.XYM, geom.XYZM}

// tree: flat geometry or (nested) collection; returns the geometry and its wire form
func (r *Rng) boundsTree(depth int, layouts []geom.Layout) (geom.T, string) {
	if depth == 0 || !r.chance(1, 3) {
		g := r.flatGeom(layouts[r.Intn(len(layouts))])
		return g, fmt.Sprintf("(f %d %d %s)", int(g.Layout()), g.Stride(), sxCoord(g.FlatCoords()))
	}
	if depth >= 1 && r.chance(1, 6) {
		// a collection whose own layout is fixed while a nested layout-less collection holds members
		// of other layouts (narrower, or the other three-ordinate kind)
		cand := xyzmLayouts[r.Intn(4)]
		outer := geom.NewGeometryCollection()
		var ps []string
		for i := r.Intn(3); i > 0; i-- {
			g := r.flatGeom(cand)
			outer.MustPush(g)
			ps = append(ps, fmt.Sprintf("(f %d %d %s)", int(g.Layout()), g.Stride(), sxCoord(g.FlatCoords())))
		}
		inner := geom.NewGeometryCollection()
		var ips []string
		for i := 1 + r.Intn(3); i > 0; i-- {
			g := r.flatGeom(xyzmLayouts[r.Intn(4)])
			inner.MustPush(g)
			ips = append(ips, fmt.Sprintf("(f %d %d %s)", int(g.Layout()), g.Stride(), sxCoord(g.FlatCoords())))
		}
		outer.MustPush(inner)
		ps = append(ps, fmt.Sprintf("(c 0 (%s))", strings.Join(ips, " ")))
		fixed := geom.NoLayout
		if err := outer.SetLayout(cand); err == nil {
			fixed = cand
		}
		return outer, fmt.Sprintf("(c %d (%s))", int(fixed), strings.Join(ps, " "))
	}
	gc := geom.NewGeometryCollection()
	k := r.Intn(4)
	var parts []string
	same := layouts
	if r.chance(1, 3) {
		same = []geom.Layout{layouts[r.Intn(len(layouts))]}
	}
	for i := 0; i < k; i++ {
		g, s := r.boundsTree(depth-1, same)
		gc.MustPush(g)
		parts = append(parts, s)
	}
	fixed := geom.NoLayout
	if len(same) == 1 && r.chance(1, 2) {
		if err := gc.SetLayout(same[0]); err == nil {
			fixed = same[0]
		}
	} else if r.chance(1, 3) {
		// any layout the collection accepts (nested layout-less collections are not looked into, so
		// what is inside may be narrower, wider or of the other three-ordinate kind)
		cand := xyzmLayouts[r.Intn(4)]
		if err := gc.SetLayout(cand); err == nil {
			fixed = cand
		}
	}
	return gc, fmt.Sprintf("(c %d (%s))", int(fixed), strings.Join(parts, " "))
}

func sxBounds(b *geom.Bounds) string {
	s := b.Layout().Stride()
	mn, mx := make([]float64, s), make([]float64, s)
	for i := 0; i < s; i++ {
		mn[i], mx[i] = b.Min(i), b.Max(i)
	}
	return fmt.Sprintf("((%d %s %s) %v)", int(b.Layout()), sxCoord(mn), sxCoord(mx), b.IsEmpty())
}

func genC08(r *Rng, e *Emitter, n int) {
	allLayouts := []geom.Layout{geom.XY, geom.XYZ, geom.XYM, geom.XYZM, 5, 6, 8}
	// deep nesting and long geometries: recursion into collections has no depth at which it may stop,
	// and loops over coordinates no block size at which they may slip
	for _, depth := range []int{200, 10500} {
		inner := geom.NewLineStringFlat(geom.XYZ, []float64{5, 6, 7, -1, 9, 2})
		var g geom.T = inner
		sx := fmt.Sprintf("(f %d %d %s)", int(inner.Layout()), inner.Stride(), sxCoord(inner.FlatCoords()))
		for d := 0; d < depth; d++ {
			g = geom.NewGeometryCollection().MustPush(g)
			sx = "(c 0 (" + sx + "))"
		}
		shallow := geom.NewPointFlat(geom.XY, []float64{1, 1})
		top := geom.NewGeometryCollection().MustPush(shallow, g)
		tsx := fmt.Sprintf("(c 0 ((f 1 2 %s) %s))", sxCoord(shallow.FlatCoords()), sx)
		e.tally("deep-nesting")
		e.emit("C08.bounds", tsx, guard(func() string { return "(ok " + sxBounds(top.Bounds()) + ")" }))
		e.emit("C08.ext", fmt.Sprintf("(1 (%s))", tsx), guard(func() string {
			b := geom.NewBounds(geom.XY)
			b.Extend(top)
			return "(ok " + sxBounds(b) + ")"
		}))
	}
	for _, bc := range bigCases(n >= 100000) {
		stride, pts := bc[0], bc[1]
		l := layoutForStride(stride)
		f := bigFlat(stride, pts)
		// the extreme values sit in the last coordinate
		for j := 0; j < stride; j++ {
			f[len(f)-stride+j] = float64(10000000 + j)
		}
		g := geom.NewLineStringFlat(l, f)
		e.tally("big")
		e.emit("C08.bounds", fmt.Sprintf("(f %d %d %s)", int(l), stride, sxCoord(f)),
			guard(func() string { return "(ok " + sxBounds(g.Bounds()) + ")" }))
	}
	for i := 0; i < n; i++ {
		switch c := r.Intn(10); {
		case c < 2: // Bounds() of one flat geometry, any layout
			g := r.flatGeom(allLayouts[r.Intn(len(allLayouts))])
			e.tally("op=bounds-flat")
			e.tally(fmt.Sprintf("layout=%d", int(g.Layout())))
			e.emit("C08.bounds", fmt.Sprintf("(f %d %d %s)", int(g.Layout()), g.Stride(), sxCoord(g.FlatCoords())),
				guard(func() string { return "(ok " + sxBounds(g.Bounds()) + ")" }))
		case c < 4: // Bounds() of a (nested) collection
			if r.chance(1, 2) {
				// the generated tree itself is asked (its own layout may be fixed)
				top, tsx := r.boundsTree(3, xyzmLayouts)
				e.tally("op=bounds-tree")
				e.emit("C08.bounds", tsx, guard(func() string { return "(ok " + sxBounds(top.Bounds()) + ")" }))
				break
			}
			gc := geom.NewGeometryCollection()
			var parts []string
			for k := r.Intn(4); k > 0; k-- {
				g, s := r.boundsTree(3, xyzmLayouts)
				gc.MustPush(g)
				parts = append(parts, s)
			}
			e.tally("op=bounds-collection")
			e.emit("C08.bounds", fmt.Sprintf("(c 0 (%s))", strings.Join(parts, " ")),
				guard(func() string { return "(ok " + sxBounds(gc.Bounds()) + ")" }))
		case c < 8: // Extend sequence mixing layouts
			l0 := geom.NoLayout
			if r.chance(1, 4) {
				l0 = xyzmLayouts[r.Intn(4)]
			}
			k := 1 + r.Intn(6)
			gs := make([]geom.T, k)
			parts := make([]string, k)
			mix := map[geom.Layout]bool{}
			for j := range gs {
				gs[j], parts[j] = r.boundsTree(2, xyzmLayouts)
				mix[gs[j].Layout()] = true
			}
			e.tally("op=extend-seq")
			e.tally(fmt.Sprintf("extend-distinct-layouts=%d", len(mix)))
			// how the box comes into being: empty, or set to a given box through Set / SetCoords (then it
			// is the box of its two corners, which is what the model is told), possibly cloned
			init := 0
			var mn, mx []float64
			if l0 != geom.NoLayout && r.chance(1, 2) {
				init = 1 + r.Intn(2)
				st := l0.Stride()
				mn, mx = make([]float64, st), make([]float64, st)
				for d := 0; d < st; d++ {
					a, c := float64(r.Intn(9)-4), float64(r.Intn(9)-4)
					mn[d], mx[d] = math.Min(a, c), math.Max(a, c)
				}
				corner := func(c []float64) string { return fmt.Sprintf("(f %d %d %s)", int(l0), st, sxCoord(c)) }
				parts = append([]string{corner(mn), corner(mx)}, parts...)
			}
			// ... or it is the box a first geometry returned from Bounds() (a Point, a one-vertex or a
			// longer line), which the caller then goes on extending
			var first geom.T
			if init == 0 && l0 != geom.NoLayout && r.chance(1, 2) {
				init = 3
				st := l0.Stride()
				nv := []int{1, 1, 1, 2, 3}[r.Intn(5)]
				fc := make([]float64, nv*st)
				for d := range fc {
					fc[d] = float64(r.Intn(9) - 4)
				}
				switch {
				case nv == 1 && r.chance(1, 2):
					first = geom.NewPointFlat(l0, fc)
				case r.chance(1, 2):
					first = geom.NewMultiPointFlat(l0, fc)
				default:
					first = geom.NewLineStringFlat(l0, fc)
				}
				parts = append([]string{fmt.Sprintf("(f %d %d %s)", int(l0), st, sxCoord(fc))}, parts...)
			}
			clone := r.chance(1, 2)
			cloneAt := r.Intn(k + 1)
			e.tally(fmt.Sprintf("extend-init=%d clone=%v", init, clone))
			e.emit("C08.ext", fmt.Sprintf("(%d (%s))", int(l0), strings.Join(parts, " ")),
				guard(func() string {
					b := geom.NewBounds(l0)
					switch init {
					case 1:
						b.Set(append(append([]float64{}, mn...), mx...)...)
					case 2:
						b.SetCoords(geom.Coord(append([]float64{}, mn...)), geom.Coord(append([]float64{}, mx...)))
					}
					if init == 3 {
						b = first.Bounds()
					}
					// a snapshot (Clone) taken at any moment — before the first geometry, between two of them,
					// after the last — carries on as the box it was taken of
					for j, g := range gs {
						if clone && j == cloneAt {
							b = b.Clone()
						}
						b.Extend(g)
					}
					if clone && cloneAt >= len(gs) {
						b = b.Clone()
					}
					return "(ok " + sxBounds(b) + ")"
				}))
		default: // overlap tests on a small grid (touching edges are frequent)
			l := []geom.Layout{geom.XY, geom.XYZ, geom.XYM, geom.XYZM, 5}[r.Intn(5)]
			// the boxes may have more dimensions than the layout asked about (only that layout's
			// dimensions count), and their further dimensions may hold no ordinate yet
			lb := l
			if r.chance(1, 2) {
				wider := map[geom.Layout][]geom.Layout{geom.XY: {geom.XYZ, geom.XYM, geom.XYZM}, geom.XYZ: {geom.XYZM}, geom.XYM: {geom.XYZM}}[l]
				if len(wider) > 0 {
					lb = wider[r.Intn(len(wider))]
				}
			}
			e.tally(fmt.Sprintf("overlap-query=%d box=%d", int(l), int(lb)))
			q := l.Stride()
			s := lb.Stride()
			box := func() (*geom.Bounds, []float64, []float64) {
				b := geom.NewBounds(lb)
				if r.chance(1, 10) {
					mn, mx := make([]float64, s), make([]float64, s)
					for i := range mn {
						mn[i], mx[i] = math.Inf(1), math.Inf(-1)
					}
					return b, mn, mx
				}
				args := make([]float64, 2*s)
				for i := 0; i < s; i++ {
					a, c := float64(r.Intn(7)), float64(r.Intn(7))
					if r.chance(1, 6) {
						a, c = r.boundsOrd(), r.boundsOrd()
						if a == 0 {
							a = 0
						}
						if c == 0 {
							c = 0
						}
					}
					args[i], args[i+s] = math.Min(a, c), math.Max(a, c)
					if i >= q && r.chance(1, 2) {
						args[i], args[i+s] = math.Inf(1), math.Inf(-1) // nothing seen in this dimension yet
					}
				}
				b.Set(args...)
				return b, args[:s], args[s:]
			}
			b1, mn1, mx1 := box()
			if r.chance(1, 2) {
				b2, mn2, mx2 := box()
				if r.chance(1, 5) { // a box asked about itself (every pair of a slice of boxes, i == j included)
					b2, mn2, mx2 = b1, mn1, mx1
					e.tally("overlaps-itself")
				}
				e.tally("op=overlaps")
				e.emit("C08.overlaps", fmt.Sprintf("(%d %s %s %s %s)", int(l), sxCoord(mn1), sxCoord(mx1), sxCoord(mn2), sxCoord(mx2)),
					guard(func() string { return fmt.Sprintf("(ok %v)", b1.Overlaps(l, b2)) }))
			} else {
				p := make(geom.Coord, q+r.Intn(s-q+1))
				for i := range p {
					p[i] = float64(r.Intn(7))
				}
				e.tally("op=overlapsPoint")
				e.emit("C08.overlapsPoint", fmt.Sprintf("(%d %s %s %s)", int(l), sxCoord(mn1), sxCoord(mx1), sxCoord(p)),
					guard(func() string { return fmt.Sprintf("(ok %v)", b1.OverlapsPoint(l, p)) }))
			}
		}
	}
}
