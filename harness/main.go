// Command harness drives the real go-geom implementation (built from /repo's
// working tree via the replace directive) and prints protocol lines
//   <op>\t<input sexp>\t<go output sexp>
// for the Lean driver.  All randomness comes from one seed.
package main

import (
	"bufio"
	"encoding/json"
	"fmt"
	"os"
	"strconv"
	"strings"
)

type genFunc func(r *Rng, e *Emitter, n int)

var generators = map[string]genFunc{}

func main() {
	if len(os.Args) < 2 {
		fmt.Fprintln(os.Stderr, "usage: harness gen <prop> <seed> <n> <out> <histout> | extract | replay <prop> <file>")
		os.Exit(2)
	}
	switch os.Args[1] {
	case "gen":
		prop := os.Args[2]
		seed, _ := strconv.ParseInt(os.Args[3], 10, 64)
		n, _ := strconv.Atoi(os.Args[4])
		g, ok := generators[prop]
		if !ok {
			fmt.Fprintln(os.Stderr, "no generator for", prop)
			os.Exit(2)
		}
		e := &Emitter{sb: &strings.Builder{}, hist: map[string]int{}, pendingPath: os.Args[5] + ".pending"}
		g(newRng(seed), e, n)
		f, err := os.Create(os.Args[5])
		if err != nil {
			panic(err)
		}
		w := bufio.NewWriter(f)
		w.WriteString(e.sb.String())
		w.Flush()
		f.Close()
		hb, _ := json.Marshal(e.hist)
		os.WriteFile(os.Args[6], hb, 0o644)
	case "extract":
		extract()
	default:
		fmt.Fprintln(os.Stderr, "unknown command")
		os.Exit(2)
	}
}
