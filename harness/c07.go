package main

// C07: GeoJSON round trips (geometry, Feature, FeatureCollection) and decoder totality.

import (
	"bytes"
	"encoding/json"
	"fmt"
	"math"
	"sort"
	"strings"

	geom "github.com/twpayne/go-geom"
	"github.com/twpayne/go-geom/encoding/geojson"
)

func init() { generators["C07"] = genC07 }

// ---- JSON value trees (for the model's input and for mutation) ----

type jv struct {
	kind  byte // n(ull) b(ool) #(number) s(tring) a(rray) o(bject)
	b     bool
	s     string // number literal or string value
	items []*jv
	keys  []string
}

func jvParse(data []byte) (*jv, bool) {
	if !json.Valid(data) {
		return nil, false
	}
	dec := json.NewDecoder(bytes.NewReader(data))
	dec.UseNumber()
	v, err := jvValue(dec)
	if err != nil {
		return nil, false
	}
	return v, true
}

func jvValue(dec *json.Decoder) (*jv, error) {
	tok, err := dec.Token()
	if err != nil {
		return nil, err
	}
	switch t := tok.(type) {
	case json.Delim:
		switch t {
		case '[':
			v := &jv{kind: 'a'}
			for dec.More() {
				x, err := jvValue(dec)
				if err != nil {
					return nil, err
				}
				v.items = append(v.items, x)
			}
			_, err := dec.Token()
			return v, err
		case '{':
			v := &jv{kind: 'o'}
			for dec.More() {
				k, err := dec.Token()
				if err != nil {
					return nil, err
				}
				x, err := jvValue(dec)
				if err != nil {
					return nil, err
				}
				v.keys = append(v.keys, k.(string))
				v.items = append(v.items, x)
			}
			_, err := dec.Token()
			return v, err
		}
		return nil, fmt.Errorf("unexpected delimiter")
	case string:
		return &jv{kind: 's', s: t}, nil
	case json.Number:
		return &jv{kind: '#', s: string(t)}, nil
	case bool:
		return &jv{kind: 'b', b: t}, nil
	case nil:
		return &jv{kind: 'n'}, nil
	}
	return nil, fmt.Errorf("unexpected token")
}

func (v *jv) sx(sb *strings.Builder) {
	switch v.kind {
	case 'n':
		sb.WriteString("null")
	case 'b':
		if v.b {
			sb.WriteString("(b 1)")
		} else {
			sb.WriteString("(b 0)")
		}
	case '#':
		sb.WriteString("(n " + hexStr(v.s) + ")")
	case 's':
		sb.WriteString("(s " + hexStr(v.s) + ")")
	case 'a':
		sb.WriteString("(a")
		for _, x := range v.items {
			sb.WriteByte(' ')
			x.sx(sb)
		}
		sb.WriteByte(')')
	case 'o':
		sb.WriteString("(o")
		for i, x := range v.items {
			sb.WriteString(" (" + hexStr(v.keys[i]) + " ")
			x.sx(sb)
			sb.WriteByte(')')
		}
		sb.WriteByte(')')
	}
}

func (v *jv) text(sb *strings.Builder) {
	switch v.kind {
	case 'n':
		sb.WriteString("null")
	case 'b':
		if v.b {
			sb.WriteString("true")
		} else {
			sb.WriteString("false")
		}
	case '#':
		sb.WriteString(v.s)
	case 's':
		b, _ := json.Marshal(v.s)
		sb.Write(b)
	case 'a':
		sb.WriteByte('[')
		for i, x := range v.items {
			if i > 0 {
				sb.WriteByte(',')
			}
			x.text(sb)
		}
		sb.WriteByte(']')
	case 'o':
		sb.WriteByte('{')
		for i, x := range v.items {
			if i > 0 {
				sb.WriteByte(',')
			}
			b, _ := json.Marshal(v.keys[i])
			sb.Write(b)
			sb.WriteByte(':')
			x.text(sb)
		}
		sb.WriteByte('}')
	}
}

func (v *jv) nodes(out *[]*jv) {
	*out = append(*out, v)
	for _, x := range v.items {
		x.nodes(out)
	}
}

func (v *jv) clone() *jv {
	c := *v
	c.items = make([]*jv, len(v.items))
	for i, x := range v.items {
		c.items[i] = x.clone()
	}
	c.keys = append([]string(nil), v.keys...)
	return &c
}

// canonGo prints a value held in interface{} after decoding (map keys sorted, numbers as bits).
func canonGo(v interface{}) string {
	switch t := v.(type) {
	case nil:
		return "null"
	case bool:
		if t {
			return "(b 1)"
		}
		return "(b 0)"
	case float64:
		return "(n " + hexF(t) + ")"
	case string:
		return "(s " + hexStr(t) + ")"
	case []interface{}:
		parts := make([]string, len(t))
		for i, x := range t {
			parts[i] = canonGo(x)
		}
		if len(parts) == 0 {
			return "(a)"
		}
		return "(a " + strings.Join(parts, " ") + ")"
	case map[string]interface{}:
		keys := make([]string, 0, len(t))
		for k := range t {
			keys = append(keys, k)
		}
		sort.Strings(keys)
		parts := make([]string, len(keys))
		for i, k := range keys {
			parts[i] = "(" + hexStr(k) + " " + canonGo(t[k]) + ")"
		}
		if len(parts) == 0 {
			return "(o)"
		}
		return "(o " + strings.Join(parts, " ") + ")"
	}
	return "(unknown)"
}

func sxProps(m map[string]interface{}) string {
	if m == nil {
		return "nil"
	}
	return canonGo(m)
}

func sxGjBounds(b *geom.Bounds) string {
	if b == nil {
		return "nil"
	}
	return guard(func() string {
		s := b.Layout().Stride()
		mins, maxs := make([]float64, s), make([]float64, s)
		for i := 0; i < s; i++ {
			mins[i], maxs[i] = b.Min(i), b.Max(i)
		}
		return fmt.Sprintf("(%d %s %s)", int(b.Layout()), sxCoord(mins), sxCoord(maxs))
	})
}

// c07Feature is decoded into again and again.
var c07Feature geojson.Feature

func sxFeature(f *geojson.Feature) string {
	if f == nil {
		return "nil"
	}
	return fmt.Sprintf("(feat %s %s %s %s)", hexStr(f.ID), sxGjBounds(f.BBox), sxRaw(f.Geometry), sxProps(f.Properties))
}

func sxFC(fc *geojson.FeatureCollection) string {
	parts := make([]string, len(fc.Features))
	for i, f := range fc.Features {
		parts[i] = sxFeature(f)
	}
	return fmt.Sprintf("(fc %s (%s))", sxGjBounds(fc.BBox), strings.Join(parts, " "))
}

func sxGeoErr(err error) string {
	switch e := err.(type) {
	case geojson.ErrDimensionalityTooLow:
		return fmt.Sprintf("(err dimTooLow %d)", int(e))
	case geojson.ErrUnsupportedType:
		return "(err unsupportedType)"
	case geom.ErrStrideMismatch:
		return fmt.Sprintf("(err strideMismatch %d %d)", e.Got, e.Want)
	case geom.ErrLayoutMismatch:
		return fmt.Sprintf("(err layoutMismatch %d %d)", int(e.Got), int(e.Want))
	case *json.SyntaxError, *json.UnmarshalTypeError, *json.InvalidUnmarshalError, *json.MarshalerError, *json.UnsupportedValueError:
		return "(err json)"
	}
	if err != nil && strings.HasPrefix(err.Error(), "json:") || err != nil && strings.Contains(err.Error(), "JSON") {
		return "(err json)"
	}
	return "(err other)"
}

func decodeKind(kind string, data []byte) string {
	return guard(func() string {
		switch kind {
		case "geom":
			var g geom.T
			if err := geojson.Unmarshal(data, &g); err != nil {
				return sxGeoErr(err)
			}
			return "(ok " + sxRaw(g) + ")"
		case "feat":
			// half of the documents are decoded into one long-lived Feature value, as a loop over a
			// stream of features does: nothing of the previous feature may stay behind
			var fresh geojson.Feature
			f := &fresh
			if len(data)%2 == 0 {
				f = &c07Feature
				f.ID, f.BBox = "", nil // (absent members are left alone, as encoding/json does: the caller clears them)
			}
			if err := json.Unmarshal(data, f); err != nil {
				return sxGeoErr(err)
			}
			return "(ok " + sxFeature(f) + ")"
		default:
			var fc geojson.FeatureCollection
			if err := json.Unmarshal(data, &fc); err != nil {
				return sxGeoErr(err)
			}
			return "(ok " + sxFC(&fc) + ")"
		}
	})
}

// ---- generators ----

var gjLayouts = []geom.Layout{geom.XY, geom.XY, geom.XYZ, geom.XYZ, geom.XYM, geom.XYZM, geom.Layout(5), geom.Layout(6)}

func (r *Rng) gjTree(depth int) *gtree {
	l := gjLayouts[r.Intn(len(gjLayouts))]
	t := r.decTree(depth, l, true)
	if r.chance(1, 25) {
		t = &gtree{kind: "gc", layout: geom.NoLayout}
		if r.chance(1, 2) {
			t.layout = l
			if l > geom.XYZM {
				t.layout = geom.XYZ
			}
		}
	}
	return t
}

func (r *Rng) gjString() string {
	switch r.Intn(8) {
	case 0:
		return ""
	case 1:
		return fmt.Sprint(r.Intn(100000))
	case 2:
		return fmt.Sprintf("%g", r.wktOrd())
	case 3:
		if r.chance(1, 2) {
			// text that looks like JSON's own escapes (a literal backslash and what follows it), HTML
			// characters, line separators, quotes
			bs := "\\"
			parts := []string{bs + "u0026", bs + "u003c", bs + "u003e", bs + "u2028", bs + "n", bs + `"`, bs + bs, bs, "<", ">", "&", string(rune(0x2028)), string(rune(0x2029)), `"`, "C:", "data", string(rune(0x7f)), string(rune(0xe9)), "/", bs + "u00", bs + "ud83d"}
			out := ""
			for k := 1 + r.Intn(4); k > 0; k-- {
				out += parts[r.Intn(len(parts))]
			}
			return out
		}
		return "a\"b\\c/d\n\t <>&é\U0001F600"
	case 4:
		return "null"
	case 5:
		return "id-" + strings.Repeat("x", r.Intn(40))
	default:
		b := make([]rune, 1+r.Intn(8))
		for i := range b {
			b[i] = rune("abcXYZ019 _-éß漢\u0001"[r.Intn(15)])
		}
		return string(b)
	}
}

func (r *Rng) gjValue(depth int) interface{} {
	k := r.Intn(8)
	if depth <= 0 && k >= 6 {
		k = r.Intn(6)
	}
	switch k {
	case 0:
		return nil
	case 1:
		return r.chance(1, 2)
	case 2:
		return r.wktOrd()
	case 3:
		return float64(r.Intn(2000001) - 1000000)
	case 4, 5:
		return r.gjString()
	case 6:
		a := make([]interface{}, r.Intn(4))
		for i := range a {
			a[i] = r.gjValue(depth - 1)
		}
		return a
	default:
		return r.gjProps(depth - 1)
	}
}

func (r *Rng) gjProps(depth int) map[string]interface{} {
	m := map[string]interface{}{}
	for i := r.Intn(4); i > 0; i-- {
		m[r.gjString()] = r.gjValue(depth)
	}
	return m
}

func (r *Rng) gjBounds() *geom.Bounds {
	switch r.Intn(3) {
	case 0:
		return nil
	case 1:
		return geom.NewBounds(geom.XY).Set(r.wktOrd(), r.wktOrd(), r.wktOrd(), r.wktOrd())
	default:
		return geom.NewBounds(geom.XYZ).Set(r.wktOrd(), r.wktOrd(), r.wktOrd(), r.wktOrd(), r.wktOrd(), r.wktOrd())
	}
}

type featIn struct {
	f  *geojson.Feature
	sx string
}

func (r *Rng) gjFeature() featIn {
	f := &geojson.Feature{ID: r.gjString(), BBox: r.gjBounds()}
	tree := "nil"
	if !r.chance(1, 5) {
		t := r.gjTree(1)
		f.Geometry = t.build()
		tree = t.sx()
	}
	switch r.Intn(4) {
	case 0: // nil map
	case 1:
		f.Properties = map[string]interface{}{}
	default:
		f.Properties = r.gjProps(2)
	}
	if f.Properties != nil && r.chance(1, 4) {
		// properties named like members of the Feature object itself are just properties
		name := []string{"id", "type", "bbox", "geometry", "properties", "ID"}[r.Intn(6)]
		f.Properties[name] = []interface{}{"x7", 42.0, "Feature", nil, true}[r.Intn(5)]
		if r.chance(1, 2) {
			f.ID = ""
		}
	}
	return featIn{f, fmt.Sprintf("(%s %s %s %s)", hexStr(f.ID), sxGjBounds(f.BBox), tree, sxProps(f.Properties))}
}

// mutate a JSON value tree
func (r *Rng) jvRandom(depth int) *jv {
	switch r.Intn(9) {
	case 0:
		return &jv{kind: 'n'}
	case 1:
		return &jv{kind: 'b', b: r.chance(1, 2)}
	case 2:
		return &jv{kind: '#', s: []string{"0", "-0", "1e999", "-1e999", "1e-400", "12345678901234567890", "1.5", "2", "3", "1E2", "0.1e1"}[r.Intn(11)]}
	case 3:
		return &jv{kind: 's', s: []string{"Point", "LineString", "Polygon", "MultiPoint", "MultiLineString", "MultiPolygon", "GeometryCollection", "Feature", "FeatureCollection", "point", "", "x"}[r.Intn(12)]}
	case 4:
		return &jv{kind: 'a'}
	case 5:
		return &jv{kind: 'o'}
	case 6:
		n := r.Intn(5)
		v := &jv{kind: 'a'}
		for i := 0; i < n; i++ {
			v.items = append(v.items, &jv{kind: '#', s: fmt.Sprint(r.Intn(9))})
		}
		return v
	default:
		if depth <= 0 {
			return &jv{kind: 'n'}
		}
		v := &jv{kind: 'a'}
		for i := r.Intn(3); i > 0; i-- {
			v.items = append(v.items, r.jvRandom(depth-1))
		}
		return v
	}
}

var gjKeys = []string{"type", "coordinates", "geometries", "bbox", "crs", "id", "geometry", "properties", "features",
	"TYPE", "Type", "Coordinates", "COORDINATES", "coordinateſ", "Geometry", "BBOX", "Features", "ID", "extra", "tYpE"}

func (r *Rng) jvMutate(root *jv) *jv {
	root = root.clone()
	for k := 1 + r.Intn(3); k > 0; k-- {
		var ns []*jv
		root.nodes(&ns)
		n := ns[r.Intn(len(ns))]
		switch r.Intn(12) {
		case 0, 1: // replace the node
			*n = *r.jvRandom(2)
		case 2: // delete a child
			if len(n.items) > 0 {
				i := r.Intn(len(n.items))
				n.items = append(n.items[:i], n.items[i+1:]...)
				if n.kind == 'o' {
					n.keys = append(n.keys[:i], n.keys[i+1:]...)
				}
			}
		case 3: // duplicate a child (for objects: duplicate key)
			if len(n.items) > 0 {
				i := r.Intn(len(n.items))
				n.items = append(n.items, n.items[i].clone())
				if n.kind == 'o' {
					n.keys = append(n.keys, n.keys[i])
				}
			}
		case 4: // insert a random element / member
			if n.kind == 'a' {
				i := r.Intn(len(n.items) + 1)
				n.items = append(n.items[:i], append([]*jv{r.jvRandom(1)}, n.items[i:]...)...)
			} else if n.kind == 'o' {
				n.keys = append(n.keys, gjKeys[r.Intn(len(gjKeys))])
				n.items = append(n.items, r.jvRandom(2))
			}
		case 5: // rename a key
			if n.kind == 'o' && len(n.keys) > 0 {
				i := r.Intn(len(n.keys))
				if r.chance(1, 2) {
					n.keys[i] = strings.ToUpper(n.keys[i])
				} else {
					n.keys[i] = gjKeys[r.Intn(len(gjKeys))]
				}
			}
		case 6: // duplicate a key with another value
			if n.kind == 'o' && len(n.keys) > 0 {
				i := r.Intn(len(n.keys))
				if n.keys[i] != "bbox" && n.keys[i] != "features" {
					n.keys = append(n.keys, n.keys[i])
					n.items = append(n.items, r.jvRandom(2))
				}
			}
		case 7: // add an ordinate / drop one
			if n.kind == 'a' && len(n.items) > 0 && n.items[0].kind == '#' {
				if r.chance(1, 2) {
					n.items = append(n.items, &jv{kind: '#', s: "7"})
				} else {
					n.items = n.items[:len(n.items)-1]
				}
			}
		case 8: // null an element
			if len(n.items) > 0 {
				i := r.Intn(len(n.items))
				if n.kind != 'o' || (n.keys[i] != "bbox") {
					n.items[i] = &jv{kind: 'n'}
				}
			}
		case 9: // crs / bbox members
			if n.kind == 'o' {
				if r.chance(1, 2) {
					n.keys = append(n.keys, "crs")
					crs := []string{`{"type":"name","properties":{"name":"EPSG:4326"}}`, `null`, `5`, `{"type":5}`, `{"properties":[1]}`, `{"properties":{"a":1e999}}`, `{"TYPE":"x","extra":[]}`,
						`{"type":"name","properties":{"name":"WGS84"}}`, `{"type":"name","properties":{"name":""}}`, `{"type":"name","properties":{"name":":"}}`,
						`{"type":"name","properties":{"name":"urn:ogc:def:crs:OGC:1.3:CRS84"}}`, `{"type":"name","properties":{"name":"EPSG:"}}`, `{"type":"name","properties":{"name":"EPSG:x"}}`,
						`{"type":"name","properties":{"name":"EPSG:99999999999999999999"}}`, `{"type":"name","properties":{"name":5}}`, `{"type":"name","properties":{}}`, `{"type":"name","properties":null}`,
						`{"type":"name"}`, `{"type":"link","properties":{"href":"http://x/y","type":"proj4"}}`, `{"type":"EPSG","properties":{"code":4326}}`, `{"type":"","properties":{"name":"a:b:c"}}`}[r.Intn(21)]
					v, _ := jvParse([]byte(crs))
					n.items = append(n.items, v)
				} else if !contains(n.keys, "bbox") {
					n.keys = append(n.keys, "bbox")
					bb := &jv{kind: 'a'}
					for i := []int{0, 1, 3, 4, 4, 4, 5, 6, 6, 7}[r.Intn(10)]; i > 0; i-- {
						if r.chance(1, 10) {
							bb.items = append(bb.items, &jv{kind: 'n'})
						} else {
							bb.items = append(bb.items, &jv{kind: '#', s: fmt.Sprint(r.Intn(100))})
						}
					}
					n.items = append(n.items, bb)
				}
			}
		case 10: // id variants
			if n.kind == 'o' {
				for i, k := range n.keys {
					if k == "id" {
						n.items[i] = []*jv{{kind: '#', s: "12"}, {kind: '#', s: "1.50"}, {kind: '#', s: "1e21"}, {kind: '#', s: "1e999"}, {kind: 'b', b: true},
							{kind: 'a'}, {kind: 'o'}, {kind: 'n'}, {kind: '#', s: "-0"}, {kind: '#', s: "123456789012345678"},
							{kind: '#', s: "9223372036854775808"}, {kind: '#', s: "18446744073709551616"}, {kind: '#', s: "-1e19"}, {kind: '#', s: "1e300"}}[r.Intn(14)]
					}
				}
				if !contains(n.keys, "id") && r.chance(1, 3) {
					n.keys = append(n.keys, "id")
					n.items = append(n.items, &jv{kind: '#', s: fmt.Sprint(r.Intn(1000))})
				}
			}
		default: // swap two children
			if len(n.items) > 1 {
				i, j := r.Intn(len(n.items)), r.Intn(len(n.items))
				n.items[i], n.items[j] = n.items[j], n.items[i]
				if n.kind == 'o' {
					n.keys[i], n.keys[j] = n.keys[j], n.keys[i]
				}
			}
		}
	}
	// a repeated "bbox" member decodes INTO the array the first one left behind (encoding/json merges:
	// a null element keeps the earlier number): that is the json package's doing, not modelled — only
	// the first bbox of an object is kept
	var all []*jv
	root.nodes(&all)
	for _, n := range all {
		if n.kind != 'o' {
			continue
		}
		seen := false
		for k := 0; k < len(n.keys); k++ {
			if strings.EqualFold(n.keys[k], "bbox") {
				if seen {
					n.keys = append(n.keys[:k], n.keys[k+1:]...)
					n.items = append(n.items[:k], n.items[k+1:]...)
					k--
				}
				seen = true
			}
		}
	}
	return root
}

func contains(xs []string, x string) bool {
	for _, y := range xs {
		if y == x {
			return true
		}
	}
	return false
}

func emitC07Dec(e *Emitter, kind, tag string, data []byte) {
	ast := "invalid"
	if v, ok := jvParse(data); ok {
		var sb strings.Builder
		v.sx(&sb)
		ast = sb.String()
	}
	in := fmt.Sprintf("(%s %s %s)", kind, hexStr(string(data)), ast)
	// every seventh document is decoded while geojson.DefaultLayout (the layout given to a geometry
	// without positions) holds another value than XY
	c07DecCount++
	op := "C07.dec"
	if c07DecCount%7 == 0 {
		dl := []geom.Layout{geom.XYZ, geom.XYZM, geom.XYZ, geom.XY}[c07DecCount/7%4]
		in = fmt.Sprintf("(%d %s %s %s)", int(dl), kind, hexStr(string(data)), ast)
		op = "C07.decdl"
		geojson.DefaultLayout = dl
		defer func() { geojson.DefaultLayout = geom.XY }()
	}
	e.pending(op, in)
	out := decodeKind(kind, data)
	cls := "err"
	if strings.HasPrefix(out, "(ok") {
		cls = "ok"
	} else if out == "(panic)" {
		cls = "panic"
	}
	e.tally("dec/" + kind + "/" + tag + "/" + cls)
	e.emit(op, in, out)
}

var c07DecCount int

func genC07(r *Rng, e *Emitter, n int) {
	corpus := []struct{ kind, doc string }{
		{"geom", `null`}, {"geom", `{}`}, {"geom", `[]`}, {"geom", `{"type":"Point"}`}, {"geom", `{"type":"Point","coordinates":null}`},
		{"geom", `{"type":"Point","coordinates":[]}`}, {"geom", `{"type":"Point","coordinates":[1]}`}, {"geom", `{"type":"Point","coordinates":[1,null]}`},
		{"geom", `{"type":"Point","coordinates":[1,2,3,4,5]}`}, {"geom", `{"type":"LineString","coordinates":[[1,2],null]}`},
		{"geom", `{"type":"LineString","coordinates":[null,[1,2]]}`}, {"geom", `{"type":"MultiPoint","coordinates":[[1,2],null,[3,4]]}`},
		{"geom", `{"type":"MultiPoint","coordinates":[[1,2],[]]}`}, {"geom", `{"type":"Polygon","coordinates":[[],[[1,2,3],[1,2,3]]]}`},
		{"geom", `{"type":"MultiPolygon","coordinates":[null,[[[1,2]]]]}`}, {"geom", `{"type":"GeometryCollection"}`},
		{"geom", `{"type":"GeometryCollection","geometries":null}`}, {"geom", `{"type":"GeometryCollection","geometries":[null]}`},
		{"geom", `{"type":"GeometryCollection","geometries":[{"type":"Point","coordinates":[1,2]},{"type":"GeometryCollection","geometries":[]}]}`},
		{"geom", `{"type":"GeometryCollection","geometries":{}}`}, {"geom", `{"TYPE":"Point","COORDINATES":[1,2]}`},
		{"geom", `{"type":"Point","type":"LineString","coordinates":[[1,2],[3,4]]}`}, {"geom", `{"type":"Point","coordinates":[1e999,2]}`},
		{"geom", `{"type":"Point","coordinates":"x"}`}, {"geom", `{"type":5}`}, {"geom", `{"type":"Point","coordinates":[1,2],"crs":5}`},
		{"geom", `{"type":"Point","coordinates":[1,2],"crs":{"type":"name","properties":{"name":"WGS84"}}}`},
		{"geom", `{"type":"LineString","coordinates":[[1,2],[3,4]],"crs":{"type":"name","properties":{"name":""}}}`},
		{"geom", `{"type":"GeometryCollection","geometries":[{"type":"Point","coordinates":[1,2],"crs":{"type":"name","properties":{"name":"CRS84"}}}]}`},
		{"feat", `{"type":"Feature","geometry":{"type":"Point","coordinates":[1,2],"crs":{"type":"name","properties":{"name":"CRS84"}}},"properties":null}`},
		{"geom", `{"type":"Point","coordinates":[1,2],"crs":{"type":"name","properties":{"name":"EPSG:4326"}}}`},
		{"geom", `{"type":"Point","coordinates":[1,2]} x`}, {"geom", "\xff"}, {"geom", ``},
		{"feat", `null`}, {"feat", `{}`}, {"feat", `{"type":"Feature"}`}, {"feat", `{"type":"Feature","geometry":null,"properties":null}`},
		{"feat", `{"type":"Feature","id":7,"geometry":{"type":"Point","coordinates":[1,2]},"properties":{"a":1}}`},
		{"feat", `{"type":"Feature","id":1.50,"bbox":[1,2,3,4,5,6],"geometry":null}`}, {"feat", `{"type":"Feature","id":true}`},
		// numeric ids at and beyond the int64 / uint64 / float53 boundaries
		{"feat", `{"type":"Feature","id":9223372036854775807,"geometry":null}`}, {"feat", `{"type":"Feature","id":9223372036854775808,"geometry":null}`},
		{"feat", `{"type":"Feature","id":18446744073709551616,"geometry":null}`}, {"feat", `{"type":"Feature","id":-36893488147419103232,"geometry":null}`},
		{"feat", `{"type":"Feature","id":1e300,"geometry":null}`}, {"feat", `{"type":"Feature","id":9007199254740993,"geometry":null}`},
		{"feat", `{"type":"Feature","id":-9223372036854775809,"geometry":null}`}, {"feat", `{"type":"Feature","id":4.0e3,"geometry":null}`},
		{"feat", `{"type":"Feature","bbox":[1,2,3]}`}, {"feat", `{"type":"Feature","bbox":[]}`}, {"feat", `{"type":"Feature","bbox":null}`},
		{"feat", `{"type":"Feature","geometry":5}`}, {"feat", `{"type":"Feature","geometry":{"type":"Point","coordinates":[1,2]},"geometry":{"type":"LineString"}}`},
		{"feat", `{"type":"Feature","properties":{"a":1},"properties":{"b":2,"a":3}}`}, {"feat", `{"type":"feature"}`},
		{"fc", `null`}, {"fc", `{}`}, {"fc", `{"type":"FeatureCollection"}`}, {"fc", `{"type":"FeatureCollection","features":null}`},
		{"fc", `{"type":"FeatureCollection","features":[null,{"type":"Feature","geometry":null}]}`},
		{"fc", `{"type":"FeatureCollection","features":[5]}`}, {"fc", `{"type":"FeatureCollection","features":[{"type":"x"}],"bbox":[1]}`},
		{"fc", `{"type":"FeatureCollection","bbox":[1,2,3,4],"features":[]}`}, {"fc", `{"type":"X","bbox":[1],"features":[]}`},
	}
	for _, c := range corpus {
		emitC07Dec(e, c.kind, "corpus", []byte(c.doc))
	}
	// boundary sizes: collections of many features and long coordinate arrays
	fcSizes := []int{255, 256, 257, 1024, 1280}
	if n >= 50000 {
		fcSizes = append(fcSizes, 511, 512, 513, 1023, 1025, 2048, 4096)
	}
	for _, k := range fcSizes {
		fc := &geojson.FeatureCollection{}
		var parts []string
		for j := 0; j < k; j++ {
			f := &geojson.Feature{ID: fmt.Sprint(j), Geometry: geom.NewPointFlat(geom.XY, []float64{float64(j), 0.5})}
			fc.Features = append(fc.Features, f)
			parts = append(parts, fmt.Sprintf("(%s %s %s %s)", hexStr(f.ID), sxGjBounds(nil), (&gtree{kind: "pt", layout: geom.XY, pt: geom.Coord{float64(j), 0.5}}).sx(), sxProps(nil)))
		}
		in := fmt.Sprintf("(%s (%s))", sxGjBounds(fc.BBox), strings.Join(parts, " "))
		var text []byte
		out := guard(func() string {
			b, err := json.Marshal(fc)
			if err != nil {
				return sxGeoErr(err)
			}
			text = b
			var fc2 geojson.FeatureCollection
			if err := json.Unmarshal(b, &fc2); err != nil {
				return sxGeoErr(err)
			}
			return "(ok " + sxFC(&fc2) + ")"
		})
		e.tally("fc-big")
		e.emit("C07.fc", in, "(m ((text "+hexStr(string(text))+")) "+out+")")
	}
	for _, bc := range bigCases(n >= 50000) {
		stride, pts := bc[0], bc[1]
		if stride == 3 || stride > 4 || pts > 4096 {
			continue
		}
		l := layoutForStride(stride)
		t := &gtree{kind: "ls", layout: l, c1: coordsOfFlat(stride, bigFlat(stride, pts))}
		in := t.sx()
		var text []byte
		out := guard(func() string {
			b, err := geojson.Marshal(t.build())
			if err != nil {
				return sxGeoErr(err)
			}
			text = b
			var g2 geom.T
			if err := geojson.Unmarshal(b, &g2); err != nil {
				return sxGeoErr(err)
			}
			return "(ok " + sxRaw(g2) + ")"
		})
		e.tally("geom-big")
		e.emit("C07.geom", in, "(m ((text "+hexStr(string(text))+")) "+out+")")
	}
	for i := 0; i < n; i++ {
		switch r.Intn(10) {
		case 0, 1, 2:
			t := r.gjTree(2)
			// sometimes every ordinate is a whole number (of any magnitude): then limiting the decimal
			// digits written changes no value, and encoding with that option must round-trip as well
			whole := r.chance(1, 4)
			digits := r.Intn(19) - 1 // (-1: "as many as needed")
			if whole {
				scale := math.Ldexp(1, []int{0, 0, 10, 60, 200, 700, 990}[r.Intn(7)])
				t.eachCoord(func(c geom.Coord) {
					for k := range c {
						if v := math.Trunc(c[k]) * scale; !math.IsInf(v, 0) {
							c[k] = v
						} else {
							c[k] = math.Trunc(c[k])
						}
					}
				})
			}
			in := t.sx()
			op := "C07.geom"
			if r.chance(1, 5) {
				// the caller has set geojson.DefaultLayout: a geometry without positions comes back with it
				dl := []geom.Layout{geom.XY, geom.XYZ, geom.XYZM}[r.Intn(3)]
				if r.chance(1, 2) && (t.layout == geom.XYZ || t.layout == geom.XYZM) {
					dl = t.layout
				}
				op, in = "C07.geomdl", fmt.Sprintf("(%d %s)", int(dl), in)
				geojson.DefaultLayout = dl
				e.tally(fmt.Sprintf("default-layout=%d", int(dl)))
			}
			e.pending(op, in)
			var text []byte
			out := guard(func() string {
				g := t.build()
				b, err := geojson.Marshal(g)
				if err != nil {
					return sxGeoErr(err)
				}
				text = b
				var g2 geom.T
				if err := geojson.Unmarshal(b, &g2); err != nil {
					return sxGeoErr(err)
				}
				return "(ok " + sxRaw(g2) + ")"
			})
			ed := guard(func() string {
				if whole {
					b, err := geojson.Marshal(t.build(), geojson.EncodeGeometryWithMaxDecimalDigits(digits))
					if err != nil {
						return sxGeoErr(err)
					}
					var g3 geom.T
					if err := geojson.Unmarshal(b, &g3); err != nil {
						return sxGeoErr(err)
					}
					return "(ok " + sxRaw(g3) + ")"
				}
				gg, err := geojson.Encode(t.build())
				if err != nil {
					return sxGeoErr(err)
				}
				g3, err := gg.Decode()
				if err != nil {
					return sxGeoErr(err)
				}
				// the Geometry value is the caller's and can be decoded (and marshalled) again
				if g4, err := gg.Decode(); err != nil || sxRaw(g4) != sxRaw(g3) {
					return "(err second-decode-differs)"
				}
				return "(ok " + sxRaw(g3) + ")"
			})
			e.tally("geom/" + t.kind + "/" + fmt.Sprint(int(t.layout)))
			geojson.DefaultLayout = geom.XY
			e.emit(op, in, "(m ((text "+hexStr(string(text))+") (ed "+ed+")) "+out+")")
			// the returned document is kept: a later Marshal may not change it
			e.watch(op, in, func() string { return "(m ((text " + hexStr(string(text)) + ") (ed " + ed + ")) " + out + ")" })
		case 3, 4:
			fi := r.gjFeature()
			e.pending("C07.feat", fi.sx)
			var text []byte
			out := guard(func() string {
				b, err := fi.f.MarshalJSON()
				if err != nil {
					return sxGeoErr(err)
				}
				text = b
				var fresh geojson.Feature
				f2 := &fresh
				if len(b)%2 == 0 {
					f2 = &c07Feature
					f2.ID, f2.BBox = "", nil
				}
				if err := f2.UnmarshalJSON(b); err != nil {
					return sxGeoErr(err)
				}
				return "(ok " + sxFeature(f2) + ")"
			})
			e.tally("feat")
			e.emit("C07.feat", fi.sx, "(m ((text "+hexStr(string(text))+")) "+out+")")
			e.watch("C07.feat", fi.sx, func() string { return "(m ((text " + hexStr(string(text)) + ")) " + out + ")" })
		case 5:
			fc := &geojson.FeatureCollection{BBox: r.gjBounds()}
			var parts []string
			for k := r.Intn(4); k > 0; k-- {
				if r.chance(1, 8) {
					fc.Features = append(fc.Features, nil)
					parts = append(parts, "nil")
					continue
				}
				fi := r.gjFeature()
				fc.Features = append(fc.Features, fi.f)
				parts = append(parts, fi.sx)
			}
			in := fmt.Sprintf("(%s (%s))", sxGjBounds(fc.BBox), strings.Join(parts, " "))
			e.pending("C07.fc", in)
			var text []byte
			out := guard(func() string {
				b, err := json.Marshal(fc)
				if err != nil {
					return sxGeoErr(err)
				}
				text = b
				var fc2 geojson.FeatureCollection
				if err := json.Unmarshal(b, &fc2); err != nil {
					return sxGeoErr(err)
				}
				return "(ok " + sxFC(&fc2) + ")"
			})
			e.tally("fc")
			e.emit("C07.fc", in, "(m ((text "+hexStr(string(text))+")) "+out+")")
			e.watch("C07.fc", in, func() string { return "(m ((text " + hexStr(string(text)) + ")) " + out + ")" })
		default:
			// decoder input: a valid document of some kind, mutated
			kind := []string{"geom", "geom", "feat", "fc"}[r.Intn(4)]
			var doc []byte
			switch kind {
			case "geom":
				doc, _ = geojson.Marshal(r.gjTree(2).build())
			case "feat":
				doc, _ = r.gjFeature().f.MarshalJSON()
			default:
				fc := &geojson.FeatureCollection{BBox: r.gjBounds()}
				for k := r.Intn(3); k > 0; k-- {
					fc.Features = append(fc.Features, r.gjFeature().f)
				}
				doc, _ = json.Marshal(fc)
			}
			// sometimes decode a document of another kind
			if r.chance(1, 10) {
				kind = []string{"geom", "feat", "fc"}[r.Intn(3)]
			}
			switch r.Intn(6) {
			case 0:
				emitC07Dec(e, kind, "valid", doc)
			case 1: // byte-level damage
				b := append([]byte(nil), doc...)
				for k := 1 + r.Intn(3); k > 0 && len(b) > 0; k-- {
					i := r.Intn(len(b))
					switch r.Intn(3) {
					case 0:
						b[i] = byte(r.Intn(256))
					case 1:
						b = append(b[:i], b[i+1:]...)
					default:
						b = b[:i]
					}
				}
				emitC07Dec(e, kind, "bytes", b)
			default:
				if v, ok := jvParse(doc); ok {
					var sb strings.Builder
					r.jvMutate(v).text(&sb)
					emitC07Dec(e, kind, "mutated", []byte(sb.String()))
				}
			}
		}
	}
	_ = math.Pi
}

// eachCoord visits every coordinate of the tree (in place).
func (t *gtree) eachCoord(f func(geom.Coord)) {
	if t.pt != nil {
		f(t.pt)
	}
	for _, c := range t.c1 {
		f(c)
	}
	for _, cs := range t.c2 {
		for _, c := range cs {
			f(c)
		}
	}
	for _, css := range t.c3 {
		for _, cs := range css {
			for _, c := range cs {
				f(c)
			}
		}
	}
	for _, m := range t.members {
		m.eachCoord(f)
	}
}

// eachRun calls f for every run of coordinates (line, ring) of the tree.
func (t *gtree) eachRun(f func([]geom.Coord)) {
	if t.kind == "ls" {
		f(t.c1)
	}
	for _, cs := range t.c2 {
		f(cs)
	}
	for _, css := range t.c3 {
		for _, cs := range css {
			f(cs)
		}
	}
	for _, m := range t.members {
		m.eachRun(f)
	}
}

// zeroSignClosure makes runs of four and more coordinates return to their first vertex up to the
// sign of a zero: one ordinate is +0 in the first vertex and -0 in the last (or the other way
// round) — equal numbers, different bits.
func (t *gtree) zeroSignClosure(r *Rng) bool {
	did := false
	t.eachRun(func(cs []geom.Coord) {
		if len(cs) < 4 || len(cs[0]) == 0 || len(cs[0]) != len(cs[len(cs)-1]) || !r.chance(1, 2) {
			return
		}
		first, last := cs[0], cs[len(cs)-1]
		copy(last, first)
		k := r.Intn(len(first))
		first[k], last[k] = 0, math.Copysign(0, -1)
		if r.chance(1, 2) {
			first[k], last[k] = last[k], first[k]
		}
		did = true
	})
	return did
}
