package main

import (
	"bytes"
	"encoding/binary"
	"encoding/hex"
	"fmt"
	"io"
	"math"
	"strings"
	"unicode"

	geom "github.com/twpayne/go-geom"
	"github.com/twpayne/go-geom/encoding/ewkb"
	"github.com/twpayne/go-geom/encoding/ewkbhex"
	"github.com/twpayne/go-geom/encoding/wkb"
	"github.com/twpayne/go-geom/encoding/wkbcommon"
	"github.com/twpayne/go-geom/encoding/wkbhex"
)

func init() { generators["C03"] = genC03 }

// ---- abstract geometry trees ----

type gtree struct {
	kind    string // pt ls pg mp mls mpg gc
	layout  geom.Layout
	srid    int
	pt      geom.Coord // nil = empty point
	c1      []geom.Coord
	c2      [][]geom.Coord
	c3      [][][]geom.Coord
	members []*gtree
}

func (t *gtree) sx() string {
	var body string
	switch t.kind {
	case "pt":
		body = sxCoordOpt(t.pt)
	case "ls":
		body = sxCoords1(t.c1)
	case "mp":
		body = sxMCoords(t.c1)
	case "pg", "mls":
		body = sxCoords2(t.c2)
	case "mpg":
		body = sxCoords3(t.c3)
	case "gc":
		parts := make([]string, len(t.members))
		for i, m := range t.members {
			parts[i] = m.sx()
		}
		body = "(" + strings.Join(parts, " ") + ")"
	}
	return fmt.Sprintf("(%s %d %d %s)", t.kind, int(t.layout), t.srid, body)
}

func (t *gtree) build() geom.T {
	l := t.layout
	switch t.kind {
	case "pt":
		if t.pt == nil {
			return geom.NewPointEmpty(l).SetSRID(t.srid)
		}
		return geom.NewPoint(l).MustSetCoords(t.pt).SetSRID(t.srid)
	case "ls":
		return geom.NewLineString(l).MustSetCoords(t.c1).SetSRID(t.srid)
	case "pg":
		return geom.NewPolygon(l).MustSetCoords(t.c2).SetSRID(t.srid)
	case "mp":
		return geom.NewMultiPoint(l).MustSetCoords(t.c1).SetSRID(t.srid)
	case "mls":
		return geom.NewMultiLineString(l).MustSetCoords(t.c2).SetSRID(t.srid)
	case "mpg":
		return geom.NewMultiPolygon(l).MustSetCoords(t.c3).SetSRID(t.srid)
	default:
		gc := geom.NewGeometryCollection().SetSRID(t.srid)
		for _, m := range t.members {
			gc.MustPush(m.build())
		}
		if t.layout != geom.NoLayout {
			gc.MustSetLayout(t.layout)
		}
		return gc
	}
}

// buildShared is build, except that sub-geometries with the same description are one and the same
// object (a collection may hold one geometry in several places).
func (t *gtree) buildShared(memo map[string]geom.T) geom.T {
	key := t.sx()
	if g, ok := memo[key]; ok {
		return g
	}
	var g geom.T
	if t.kind == "gc" {
		gc := geom.NewGeometryCollection().SetSRID(t.srid)
		for _, m := range t.members {
			gc.MustPush(m.buildShared(memo))
		}
		if t.layout != geom.NoLayout {
			gc.MustSetLayout(t.layout)
		}
		g = gc
	} else {
		g = t.build()
	}
	memo[key] = g
	return g
}

// repeatMembers makes the collection hold one of its members once more — directly, or inside a
// further member collection (one repetition per tree: the description must stay small).
func (t *gtree) repeatMembers(r *Rng) {
	if t.kind != "gc" || len(t.members) == 0 {
		return
	}
	m := t.members[r.Intn(len(t.members))]
	if len(m.sx()) > 4000 {
		return
	}
	if r.chance(1, 3) {
		m = &gtree{kind: "gc", layout: geom.NoLayout, members: []*gtree{m}}
	}
	at := r.Intn(len(t.members) + 1)
	t.members = append(t.members[:at:at], append([]*gtree{m}, t.members[at:]...)...)
}

// observe prints a library value in the abstract wire form (through Coords()).
func observe(g geom.T) string {
	switch g := g.(type) {
	case *geom.Point:
		if g.Empty() {
			return fmt.Sprintf("(pt %d %d nil)", int(g.Layout()), g.SRID())
		}
		return fmt.Sprintf("(pt %d %d %s)", int(g.Layout()), g.SRID(), sxCoord(g.Coords()))
	case *geom.LineString:
		return fmt.Sprintf("(ls %d %d %s)", int(g.Layout()), g.SRID(), sxCoords1(g.Coords()))
	case *geom.Polygon:
		return fmt.Sprintf("(pg %d %d %s)", int(g.Layout()), g.SRID(), sxCoords2(g.Coords()))
	case *geom.MultiPoint:
		return fmt.Sprintf("(mp %d %d %s)", int(g.Layout()), g.SRID(), sxMCoords(g.Coords()))
	case *geom.MultiLineString:
		return fmt.Sprintf("(mls %d %d %s)", int(g.Layout()), g.SRID(), sxCoords2(g.Coords()))
	case *geom.MultiPolygon:
		return fmt.Sprintf("(mpg %d %d %s)", int(g.Layout()), g.SRID(), sxCoords3(g.Coords()))
	case *geom.GeometryCollection:
		parts := make([]string, g.NumGeoms())
		for i := range parts {
			parts[i] = observe(g.Geom(i))
		}
		fixed := 0 // the fixed layout is only observable on a collection without members
		if g.NumGeoms() == 0 {
			fixed = int(g.Layout())
		}
		return fmt.Sprintf("(gc %d %d (%s))", fixed, g.SRID(), strings.Join(parts, " "))
	}
	return "(unknown)"
}

func (r *Rng) wkbCoord(stride int) geom.Coord {
	if r.chance(1, 40) { // the canonical-NaN point (carve-out: reads back as the empty point)
		c := make(geom.Coord, stride)
		for i := range c {
			c[i] = geom.PointEmptyCoord()
		}
		return c
	}
	return r.genCoord(stride)
}

func (r *Rng) wkbCoords1(stride int) []geom.Coord {
	cs := make([]geom.Coord, r.levelSize())
	for i := range cs {
		cs[i] = r.wkbCoord(stride)
	}
	return cs
}

func (r *Rng) wkbSRID() int {
	switch r.Intn(8) {
	case 0:
		return 1
	case 1:
		return 4326
	case 2:
		return 1 << 31
	case 3:
		return 1<<32 - 1
	case 4:
		return r.Intn(1 << 31)
	default:
		return 0
	}
}

func (r *Rng) wkbTree(depth int, l geom.Layout) *gtree {
	s := l.Stride()
	t := &gtree{layout: l, srid: r.wkbSRID()}
	k := r.Intn(8)
	if depth == 0 && k == 7 {
		k = r.Intn(7)
	}
	switch k {
	case 0:
		t.kind = "pt"
		if !r.chance(1, 5) {
			t.pt = r.wkbCoord(s)
		}
	case 1:
		t.kind, t.c1 = "ls", r.wkbCoords1(s)
	case 2, 3:
		t.kind = "pg"
		if k == 3 {
			t.kind = "mls"
		}
		t.c2 = make([][]geom.Coord, r.levelSize())
		for i := range t.c2 {
			t.c2[i] = r.wkbCoords1(s)
		}
	case 4:
		t.kind = "mp"
		t.c1 = make([]geom.Coord, r.levelSize())
		for i := range t.c1 {
			if !r.chance(1, 4) {
				t.c1[i] = r.wkbCoord(s)
			}
		}
	case 5, 6:
		t.kind = "mpg"
		t.c3 = make([][][]geom.Coord, r.levelSize())
		for i := range t.c3 {
			t.c3[i] = make([][]geom.Coord, r.levelSize())
			for j := range t.c3[i] {
				t.c3[i][j] = r.wkbCoords1(s)
			}
		}
	default:
		t.kind = "gc"
		n := r.Intn(4)
		same := r.chance(1, 2)
		for i := 0; i < n; i++ {
			ml := l
			if !same {
				ml = xyzmLayouts[r.Intn(4)]
			}
			t.members = append(t.members, r.wkbTree(depth-1, ml))
		}
		// fixed layout only where SetLayout would accept it
		t.layout = geom.NoLayout
		if r.chance(1, 2) {
			ok := true
			for _, m := range t.members {
				if m.build().Layout() != l {
					ok = false
				}
			}
			if ok && l >= geom.XY && l <= geom.XYZM {
				t.layout = l
			}
		}
	}
	return t
}

// ---- readers / writers with faults ----

type chunkReader struct {
	data     []byte
	pos      int
	sizes    []int
	i        int
	eofWith  bool // deliver io.EOF together with the last bytes
	consumed int
}

func (c *chunkReader) Read(p []byte) (int, error) {
	if c.pos >= len(c.data) {
		return 0, io.EOF
	}
	n := c.sizes[c.i%len(c.sizes)]
	c.i++
	if n > len(p) {
		n = len(p)
	}
	if n > len(c.data)-c.pos {
		n = len(c.data) - c.pos
	}
	copy(p, c.data[c.pos:c.pos+n])
	c.pos += n
	c.consumed += n
	if c.eofWith && c.pos == len(c.data) && n > 0 {
		return n, io.EOF
	}
	return n, nil
}

// faultWriter fails the write that would cross byte `limit` (after taking the bytes up to it). With
// `once` it recovers: later writes are accepted again — an encoder that carries on after the error
// it was given then shows in the bytes as well as in the missing error.
type faultWriter struct {
	buf     []byte
	limit   int
	once    bool
	tripped bool
	// fullCount: the failing write returns len(p) with the error
	fullCount bool
}

func (w *faultWriter) Write(p []byte) (int, error) {
	if w.once && w.tripped {
		w.buf = append(w.buf, p...)
		return len(p), nil
	}
	room := w.limit - len(w.buf)
	if len(p) > room {
		w.buf = append(w.buf, p[:room]...)
		w.tripped = true
		if w.fullCount {
			// a writer that reports the error together with the full count (a tee, a mirror, a quota
			// writer may): the error is what counts
			return len(p), errFault
		}
		return room, errFault
	}
	w.buf = append(w.buf, p...)
	return len(p), nil
}

type codec struct {
	name    string
	marshal func(g geom.T, bo binary.ByteOrder) ([]byte, error)
	write   func(w io.Writer, bo binary.ByteOrder, g geom.T) error
	read    func(r io.Reader) (geom.T, error)
}

var nanOpt = wkbcommon.WKBOptionEmptyPointHandling(wkbcommon.EmptyPointHandlingNaN)

var codecs = []codec{
	{"wkb",
		func(g geom.T, bo binary.ByteOrder) ([]byte, error) { return wkb.Marshal(g, bo) },
		func(w io.Writer, bo binary.ByteOrder, g geom.T) error { return wkb.Write(w, bo, g) },
		func(r io.Reader) (geom.T, error) { return wkb.Read(r) }},
	{"wkbnan",
		func(g geom.T, bo binary.ByteOrder) ([]byte, error) { return wkb.Marshal(g, bo, nanOpt) },
		func(w io.Writer, bo binary.ByteOrder, g geom.T) error { return wkb.Write(w, bo, g, nanOpt) },
		func(r io.Reader) (geom.T, error) { return wkb.Read(r, nanOpt) }},
	{"ewkb",
		func(g geom.T, bo binary.ByteOrder) ([]byte, error) { return ewkb.Marshal(g, bo) },
		func(w io.Writer, bo binary.ByteOrder, g geom.T) error { return ewkb.Write(w, bo, g) },
		func(r io.Reader) (geom.T, error) { return ewkb.Read(r) }},
}

func hexOrDash(b []byte) string {
	if len(b) == 0 {
		return "-"
	}
	return hex.EncodeToString(b)
}

func obsRead(g geom.T, err error) string {
	if err != nil {
		return sxErr(err)
	}
	return "(ok " + observe(g) + ")"
}

func genC03(r *Rng, e *Emitter, n int) {
	// boundary sizes: coordinate arrays around the block sizes of chunked readers / writers
	for k, bc := range bigCases(n >= 100000) {
		stride, pts := bc[0], bc[1]
		if stride > 4 {
			continue
		}
		l := layoutForStride(stride)
		if stride == 3 && k%2 == 0 {
			l = geom.XYM
		}
		cs := coordsOfFlat(stride, bigFlat(stride, pts))
		t := &gtree{kind: "ls", layout: l, c1: cs}
		if k%3 == 0 {
			t = &gtree{kind: "pg", layout: l, c2: [][]geom.Coord{cs, coordsOfFlat(stride, bigFlat(stride, 4))}}
		}
		c := codecs[k%len(codecs)]
		ndr := k % 2
		var bo binary.ByteOrder = wkb.XDR
		if ndr == 1 {
			bo = wkb.NDR
		}
		g := t.build()
		sizes := []int{1 << 20}
		e.tally("big")
		e.emit("C03.rt", fmt.Sprintf("(%s %d %s %s)", c.name, ndr, t.sx(), sxInts(sizes)), guard(func() string {
			bs, err := c.marshal(g, bo)
			if err != nil {
				return sxErr(err)
			}
			rd := &chunkReader{data: append(append([]byte{}, bs...), bs...), sizes: sizes}
			o1 := obsRead(c.read(rd))
			o2 := obsRead(c.read(rd))
			return fmt.Sprintf("(ok %s %s %s %d)", hexOrDash(bs), o1, o2, rd.consumed)
		}))
	}
	for i := 0; i < n; i++ {
		l := xyzmLayouts[r.Intn(4)]
		if r.chance(1, 25) {
			l = []geom.Layout{geom.NoLayout, 5, 6}[r.Intn(3)]
		}
		t := r.wkbTree(3, l)
		if r.chance(1, 40) && l.Stride() > 0 {
			// collections nested far deeper than anything hand-written: hundreds of levels around one member
			d := []int{64, 100, 101, 128, 199, 200, 201, 202, 256, 300, 513, 1000}[r.Intn(12)] + r.Intn(3)
			for ; d > 0; d-- {
				t = &gtree{kind: "gc", layout: geom.NoLayout, srid: r.wkbSRID(), members: []*gtree{t}}
			}
			e.tally("deep-chain")
		}
		c := codecs[r.Intn(len(codecs))]
		ndr := r.Intn(2)
		var bo binary.ByteOrder = wkb.XDR
		if ndr == 1 {
			bo = wkb.NDR
		}
		e.tally("fmt=" + c.name)
		e.tally("type=" + t.kind)
		e.tally(fmt.Sprintf("layout=%d", int(l)))
		g := t.build()
		if r.chance(1, 8) {
			// the same geometry as a stream whose members each have a byte order of their own
			if mb, ok := r.mixedEndianEncoding(c, g, bo); ok {
				e.tally("mixed-endian-members")
				// it is the same geometry as the uniform stream's
				same := guard(func() string {
					ub, err := c.marshal(g, bo)
					if err != nil {
						return "same"
					}
					g1, e1 := c.read(bytes.NewReader(ub))
					g2, e2 := c.read(bytes.NewReader(mb))
					if (e1 != nil) != (e2 != nil) || (e1 == nil && raw(g1) != raw(g2)) {
						return "differs"
					}
					return "same"
				})
				if same == "same" {
					c04Run(e, c, [4]int{0, -1, -1, -1}, mb)
				} else {
					e.emit("C04.dec", fmt.Sprintf("(%s (- - -) %s)", c.name, hex.EncodeToString(mb)), "(m 0 (member-order-differs))")
				}
			}
		}
		switch k := r.Intn(10); {
		case k < 6: // round trip through a reader that splits the bytes arbitrarily
			sizes := []int{1 + r.Intn(9)}
			switch r.Intn(4) {
			case 0:
				sizes = []int{1}
			case 1:
				sizes = []int{0, 1 + r.Intn(5), 0, 0, 3}
			case 2:
				sizes = []int{1 << 20}
			}
			e.tally("op=roundtrip")
			eofWith := r.chance(1, 3)
			done := false
			var bs []byte
			var merr, e1, e2 error
			var d1, d2 geom.T
			consumed := 0
			// the returned encoding and the decoded geometries are kept and rendered again after later
			// calls: an encoding handed to the caller must stay the encoding of its geometry
			e.emitR("C03.rt", fmt.Sprintf("(%s %d %s %s)", c.name, ndr, t.sx(), sxInts(sizes)), func() string {
				if !done {
					bs, merr = c.marshal(g, bo)
					if merr == nil {
						rd := &chunkReader{data: append(append([]byte{}, bs...), bs...), sizes: sizes, eofWith: eofWith}
						d1, e1 = c.read(rd)
						d2, e2 = c.read(rd)
						consumed = rd.consumed
					}
					done = true
				}
				if merr != nil {
					return sxErr(merr)
				}
				return fmt.Sprintf("(ok %s %s %s %d)", hexOrDash(bs), obsRead(d1, e1), obsRead(d2, e2), consumed)
			})
		case k < 8: // a writer that starts failing at byte k
			full, _ := c.marshal(g, bo)
			lim := r.Intn(len(full) + 3)
			if r.chance(1, 3) && len(full) > 0 {
				lim = len(full) - 1 - r.Intn(minInt(len(full), 9))
			}
			e.tally("op=writer-fault")
			e.emit("C03.wfault", fmt.Sprintf("(%s %d %s %d)", c.name, ndr, t.sx(), lim), guard(func() string {
				w := &faultWriter{limit: lim, once: lim%2 == 1, fullCount: lim%3 == 2}
				err := c.write(w, bo, g)
				return fmt.Sprintf("(%v %s)", err != nil, hexOrDash(w.buf))
			}))
		case k < 9: // hex variants
			e.tally("op=hex")
			e.emit("C03.hex", fmt.Sprintf("(%s %d %s)", c.name, ndr, t.sx()), guard(func() string {
				var s string
				var err error
				switch c.name {
				case "wkb":
					s, err = wkbhex.Encode(g, bo)
				case "wkbnan":
					s, err = wkbhex.Encode(g, bo, nanOpt)
				default:
					s, err = ewkbhex.Encode(g, bo)
				}
				if err != nil {
					return sxErr(err)
				}
				// the text is decoded as written, or in upper case (as PostGIS prints it), or in mixed case:
				// the same bytes in every spelling
				spelled := s
				switch len(s) % 3 {
				case 1:
					spelled = strings.ToUpper(s)
				case 2:
					b := []byte(s)
					for i := range b {
						if i%2 == 0 {
							b[i] = byte(unicode.ToUpper(rune(b[i])))
						}
					}
					spelled = string(b)
				}
				var d geom.T
				switch c.name {
				case "wkb":
					d, err = wkbhex.Decode(spelled)
				case "wkbnan":
					d, err = wkbhex.Decode(spelled, nanOpt)
				default:
					d, err = ewkbhex.Decode(spelled)
				}
				if s == "" {
					s = "-"
				}
				return fmt.Sprintf("(ok %s %s)", s, obsRead(d, err))
			}))
		default: // database/sql Valuer / Scanner wrappers
			if c.name == "wkbnan" {
				c = codecs[0]
			}
			e.tally("op=sql")
			e.emit("C03.sql", fmt.Sprintf("(%s %s)", c.name, t.sx()), guard(func() string { return sqlRoundTrip(c.name, g) }))
		}
	}
}

func minInt(a, b int) int {
	if a < b {
		return a
	}
	return b
}

var _ = math.Inf
var _ = bytes.NewReader
