package main

import (
	"fmt"
	"math"

	geom "github.com/twpayne/go-geom"
	"github.com/twpayne/go-geom/bigxy"
	"github.com/twpayne/go-geom/xy"
)

func init() { generators["C10"] = genC10 }

// magnitude within [1e-100, 1e100] or zero
func (r *Rng) orientOrd(scale int) float64 {
	switch scale {
	case 0:
		return float64(r.Intn(9) - 4)
	case 1:
		return float64(r.Intn(1<<20)) - float64(1<<19)
	case 2:
		return (r.Float64() - 0.5) * 200
	case 3:
		return (r.Float64() - 0.5) * math.Pow(10, float64(r.Intn(180)-90))
	default:
		return 500000 + float64(r.Intn(1000000))/100 // UTM-like, two decimals
	}
}

func ulps(x float64, k int) float64 {
	for ; k > 0; k-- {
		x = math.Nextafter(x, math.Inf(1))
	}
	for ; k < 0; k++ {
		x = math.Nextafter(x, math.Inf(-1))
	}
	return x
}

func maxInt(a, b int) int {
	if a > b {
		return a
	}
	return b
}

func abs64(x int64) int64 {
	if x < 0 {
		return -x
	}
	return x
}

var c10Calls int

func genC10(r *Rng, e *Emitter, n int) {
	emit := func(a, b, c geom.Coord) {
		in := fmt.Sprintf("(%s %s %s)", sxCoord(a), sxCoord(b), sxCoord(c))
		a, b, c = slot(0, a...), slot(1, b...), slot(2, c...) // the caller's buffers are reused for every call
		c10Calls++
		if c10Calls%5 == 0 {
			// the package's other function in between: it shares nothing with the predicate
			func() {
				defer func() { _ = recover() }()
				bigxy.Intersection(geom.Coord{0, 0}, geom.Coord{float64(c10Calls % 17), 3}, geom.Coord{0, 4}, geom.Coord{5, -1})
			}()
		}
		e.pending("C10.orient", in)
		e.emit("C10.orient", in, guard(func() string {
			return fmt.Sprintf("(%d %d %d)", int(bigxy.VerifOrientationIndexFilter(a, b, c)), int(bigxy.OrientationIndex(a, b, c)), int(xy.OrientationIndex(a, b, c)))
		}))
	}
	// regression corpus: repaired D3
	emit(geom.Coord{51.52126285020654, 81.36399609900968}, geom.Coord{21.426387258237494, 38.065718929968604}, geom.Coord{41.94934166272646, 67.59262511097587})
	// exhaustive 5x5 grid triples once per run
	for i := 0; i < 25*25*25; i++ {
		a := geom.Coord{float64(i % 5), float64(i / 5 % 5)}
		b := geom.Coord{float64(i / 25 % 5), float64(i / 125 % 5)}
		c := geom.Coord{float64(i / 625 % 5), float64(i / 3125 % 5)}
		emit(a, b, c)
	}
	e.tally("grid5x5-exhaustive")
	// nearest-to-collinear integer triples (determinant +-1, +-2) at every size, translated so that
	// the six ordinates have mixed signs or share one binade, and scaled by powers of two
	for i := 0; i < n/4; i++ {
		bits := 3 + r.Intn(50)
		if r.chance(1, 3) {
			// sizes at which products of differences start to exceed 2^53 (and the 32-bit boundary)
			bits = []int{23, 24, 25, 26, 26, 27, 27, 28, 30, 31, 32}[r.Intn(11)]
		}
		ux, uy, vx, vy := r.unimodular(bits)
		k := int64(r.Intn(5) - 2) // c = b + v + k*u keeps the determinant
		sc1 := false
		ox, oy := int64(0), int64(0)
		switch r.Intn(4) {
		case 0: // origin inside the triple's extent: mixed signs
			ox, oy = -(ux + vx/2), -(uy + vy/2)
		case 1: // far offset: all ordinates in one binade
			ox, oy = int64(1)<<uint(bits+1), int64(1)<<uint(bits+1)
		case 2:
			ox, oy = -int64(r.Intn(1<<uint(minInt(bits, 30)))), int64(r.Intn(1<<uint(minInt(bits, 30))))
		}
		ax, ay := ox, oy
		bx, by := ox+ux, oy+uy
		cx, cy := bx+vx+k*ux, by+vy+k*uy
		if r.chance(1, 2) { // determinant +-2: move c one more lattice step off the line
			cx, cy = cx+vx, cy+vy
		}
		if r.chance(1, 3) {
			// balanced: a and b = a+u on opposite sides of the origin, c next to the line on a's
			// side, u sheared to a near-diagonal direction so that all six ordinates have similar
			// magnitude (often one binade) with mixed signs: differences then carry into an extra
			// bit while the determinant stays +-1
			q0 := int64(8 + r.Intn(40))
			wx, wy, zx, zy := q0, int64(1), int64(1), int64(0)
			bb := bits
			if r.chance(1, 2) {
				bb = 50 + r.Intn(5) // ordinates that use all 53 bits
			}
			// or: differences just under 2^27 or 2^32 with every ordinate under 2^26 or 2^31 —
			// where products of differences first exceed 2^53, or 32-bit arithmetic would wrap
			edge := 0
			if r.chance(1, 2) {
				edge = []int{27, 27, 32}[r.Intn(3)]
				bb = edge
			}
			lim := int64(1) << uint(maxInt(bb-7, 4))
			// with a small last quotient the neighbour vector z is a sizeable fraction of w: then c is
			// next to the line but far from both ends, and no difference of the triple is small
			smallLast := int64(0)
			if edge > 0 && r.chance(1, 2) {
				smallLast = int64(2 + r.Intn(5))
				lim = (int64(1) << uint(edge)) / (smallLast + 1)
			}
			for {
				q := int64(1 + r.Intn(2))
				nx, ny := q*wx+zx, q*wy+zy
				if nx >= lim {
					break
				}
				wx, wy, zx, zy = nx, ny, wx, wy
			}
			// last step with a large quotient: the previous vector z is then a short lattice vector
			// almost parallel to w (w x z = +-1)
			ql := int64(8 + r.Intn(120))
			// a --- b is g primitive steps long, so that c can sit next to the line far from both ends
			// (the determinant is then +-g*m: still tiny, but no difference of the triple is small)
			g := int64(1)
			if r.chance(1, 2) {
				g = int64(2 + r.Intn(7))
			}
			if smallLast > 0 {
				ql = smallLast
				g = 1
			} else if edge > 0 {
				// the larger component after the shear below is wx+wy: bring g times it to just under 2^edge
				target := ((int64(1) << uint(edge)) - 2 - r.Int63n(int64(1)<<uint(edge-3))) / g
				if q := (target - (zx + zy)) / (wx + wy); q >= 2 {
					ql = q
				}
			}
			wx, wy, zx, zy = ql*wx+zx, ql*wy+zy, wx, wy
			// shear (x, y) -> (x, x + y), then random reflections
			wy, zy = wx+wy, zx+zy
			if r.chance(1, 2) {
				wx, zx = -wx, -zx
			}
			if r.chance(1, 2) {
				wy, zy = -wy, -zy
			}
			if r.chance(1, 2) {
				wx, wy, zx, zy = wy, wx, zy, zx
			}
			ax, ay = -(g * wx / 2), -(g * wy / 2)
			if r.chance(1, 2) {
				ax, ay = ax-int64(r.Intn(1000)), ay+int64(r.Intn(1000))
			}
			if edge > 0 {
				sc1 = true
			}
			bx, by = ax+g*wx, ay+g*wy
			m := int64(1 + r.Intn(3))
			if r.chance(1, 2) {
				m = -m
			}
			cx, cy = ax+m*zx, ay+m*zy // next to a, determinant +-m
			if r.chance(1, 4) {
				cx, cy = bx+m*zx, by+m*zy // next to b
			}
			if g > 1 {
				j := int64(1 + r.Intn(int(g-1)))
				cx, cy = ax+j*wx+m*zx, ay+j*wy+m*zy // next to an inner lattice point of the segment
			}
		}
		sc := math.Ldexp(1, r.Intn(41)-20)
		if sc1 || r.chance(1, 3) {
			sc = 1 // plain integer data
		} else if bits <= 30 && r.chance(1, 4) {
			// very small figures (10^-81 … 10^-91, inside the property's window): products of two
			// differences are normal numbers of 10^-170 and less
			sc = math.Ldexp(1, -300+r.Intn(30))
			e.tally("tiny-figure")
		}
		if abs64(ax)|abs64(ay)|abs64(bx)|abs64(by)|abs64(cx)|abs64(cy) >= 1<<53 {
			continue
		}
		a := geom.Coord{float64(ax) * sc, float64(ay) * sc}
		b := geom.Coord{float64(bx) * sc, float64(by) * sc}
		c := geom.Coord{float64(cx) * sc, float64(cy) * sc}
		perms := [][3]geom.Coord{{a, b, c}, {b, c, a}, {c, a, b}, {b, a, c}, {a, c, b}, {c, b, a}}
		p := perms[r.Intn(6)]
		e.tally("mode=unimodular")
		emit(p[0], p[1], p[2])
	}
	// short ordinates on two grids: a and b on a coarse dyadic grid far out, c on a grid 2^s times
	// finer near the origin, every ordinate with at most 24 significant bits (a float32 holds it), yet
	// the differences need 30 bits and more and the triple is one lattice step off collinear
	for i := 0; i < n/8+4; i++ {
		sh := uint(8 + r.Intn(7))
		bits := 16 + r.Intn(8)
		if bits+int(sh) > 34 {
			bits = 34 - int(sh)
		}
		ux, uy, vx, vy := r.unimodular(bits)
		k := r.Int63n(int64(1) << sh)
		vx, vy = vx+k*ux, vy+k*uy
		if r.chance(1, 2) {
			vx, vy = -vx, -vy
		}
		if r.chance(1, 2) {
			ux, uy = -ux, -uy
		}
		mask := int64(1)<<sh - 1
		hi := func() int64 { return (r.Int63n(int64(1)<<(23-sh)) - int64(1)<<(22-sh)) << sh }
		cx, cy := hi()+((-vx)&mask), hi()+((-vy)&mask)
		ax, ay := cx+vx, cy+vy // multiples of 2^sh
		bx, by := ax+ux<<sh, ay+uy<<sh
		if abs64(ax>>sh) >= 1<<24 || abs64(ay>>sh) >= 1<<24 || abs64(bx>>sh) >= 1<<24 || abs64(by>>sh) >= 1<<24 {
			continue
		}
		g := math.Ldexp(1, -int(sh)-r.Intn(8))
		a := geom.Coord{float64(ax) * g, float64(ay) * g}
		b := geom.Coord{float64(bx) * g, float64(by) * g}
		c := geom.Coord{float64(cx) * g, float64(cy) * g}
		perms := [][3]geom.Coord{{a, b, c}, {b, c, a}, {c, a, b}, {b, a, c}, {a, c, b}, {c, b, a}}
		p := perms[r.Intn(6)]
		e.tally("mode=two-grid-unimodular")
		emit(p[0], p[1], p[2])
	}
	// off the line by a second-order amount: p0 = (-d, 0), p1 = (q, q), p2 = (fl(d*d/q), d) — the exact
	// point of the line at height d is (d*d/q, d), and p2 misses it by the rounding of d*d alone (a
	// 2^-53 part of a number that is itself 10^-36 and less); reflected, swapped, in every order
	for i := 0; i < n/16+4; i++ {
		m := float64(int64(1)<<52 + r.Int63n(int64(1)<<52))
		d := math.Ldexp(m, -52-(40+r.Intn(90)))
		q := []float64{0.5, 1, 2, 4}[r.Intn(4)]
		x2 := d * d / q
		if x2 == 0 || r.chance(1, 8) {
			continue
		}
		pts := [3][2]float64{{-d, 0}, {q, q}, {x2, d}}
		if r.chance(1, 2) { // one ulp either way: still not collinear, on a known side
			pts[2][0] = ulps(x2, 1-2*r.Intn(2))
		}
		sx, sy := float64(1-2*r.Intn(2)), float64(1-2*r.Intn(2))
		swap := r.chance(1, 2)
		var cs [3]geom.Coord
		for k := range pts {
			x, y := sx*pts[k][0], sy*pts[k][1]
			if swap {
				x, y = y, x
			}
			cs[k] = geom.Coord{x, y}
		}
		perms := [][3]int{{0, 1, 2}, {1, 2, 0}, {2, 0, 1}, {1, 0, 2}, {0, 2, 1}, {2, 1, 0}}
		p := perms[r.Intn(6)]
		e.tally("mode=second-order-off-line")
		emit(cs[p[0]], cs[p[1]], cs[p[2]])
	}
	for i := 0; i < n; i++ {
		scale := r.Intn(5)
		extra := r.Intn(3) // extra ordinates beyond X,Y are arbitrary
		mk := func(x, y float64) geom.Coord {
			c := geom.Coord{x, y}
			for k := 0; k < extra; k++ {
				c = append(c, r.anyBits())
			}
			return c
		}
		a := mk(r.orientOrd(scale), r.orientOrd(scale))
		b := mk(r.orientOrd(scale), r.orientOrd(scale))
		var c geom.Coord
		mode := r.Intn(4)
		switch mode {
		case 0:
			c = mk(r.orientOrd(scale), r.orientOrd(scale))
			e.tally("mode=random")
		default: // nearly collinear: c = a + t(b-a) rounded, then moved by a few ulps
			t := r.Float64()*3 - 1
			if r.chance(1, 4) {
				t = float64(r.Intn(5)-1) / 2
			}
			cx := a[0] + t*(b[0]-a[0])
			cy := a[1] + t*(b[1]-a[1])
			// stay inside the property's window: ordinates are zero or of magnitude within [1e-100, 1e100]
			// (a few ulps away from an exact zero would be a denormal, whose products underflow)
			win := func(v float64) float64 {
				if v != 0 && math.Abs(v) < 1e-100 {
					return 0
				}
				return v
			}
			c = mk(win(ulps(cx, r.Intn(7)-3)), win(ulps(cy, r.Intn(7)-3)))
			e.tally("mode=near-collinear")
		}
		if scale == 3 && r.chance(1, 2) {
			// three points on (nearly) one line through the origin at widely different distances from it
			// — 1e31 against 1e-42 — so that one ordinate difference needs hundreds of bits; each is the
			// rounded multiple of one direction, moved by a few ulps
			ux, uy := (0.1+r.Float64())*float64(1-2*r.Intn(2)), (0.1+r.Float64())*float64(1-2*r.Intn(2))
			pt := func() geom.Coord {
				m := (1 + r.Float64()) * math.Pow(10, float64(r.Intn(140)-70)) * float64(1-2*r.Intn(2))
				return mk(ulps(m*ux, r.Intn(5)-2), ulps(m*uy, r.Intn(5)-2))
			}
			a, b, c = pt(), pt(), pt()
			e.tally("mode=mixed-magnitude-ray")
		}
		e.tally(fmt.Sprintf("scale=%d", scale))
		// all six argument orders (antisymmetry and cyclic invariance follow from exactness)
		perms := [][3]geom.Coord{{a, b, c}, {b, c, a}, {c, a, b}, {b, a, c}, {a, c, b}, {c, b, a}}
		p := perms[r.Intn(6)]
		emit(p[0], p[1], p[2])
	}
}
