package main

import (
	"fmt"
	"math"

	geom "github.com/twpayne/go-geom"
	"github.com/twpayne/go-geom/bigxy"
	"github.com/twpayne/go-geom/xy"
)

func init() { generators["C10"] = genC10 }

// magnitude within [1e-100, 1e100] or zero
func (r *Rng) orientOrd(scale int) float64 {
	switch scale {
	case 0:
		return float64(r.Intn(9) - 4)
	case 1:
		return float64(r.Intn(1<<20)) - float64(1<<19)
	case 2:
		return (r.Float64() - 0.5) * 200
	case 3:
		return (r.Float64() - 0.5) * math.Pow(10, float64(r.Intn(180)-90))
	default:
		return 500000 + float64(r.Intn(1000000))/100 // UTM-like, two decimals
	}
}

func ulps(x float64, k int) float64 {
	for ; k > 0; k-- {
		x = math.Nextafter(x, math.Inf(1))
	}
	for ; k < 0; k++ {
		x = math.Nextafter(x, math.Inf(-1))
	}
	return x
}

func genC10(r *Rng, e *Emitter, n int) {
	emit := func(a, b, c geom.Coord) {
		in := fmt.Sprintf("(%s %s %s)", sxCoord(a), sxCoord(b), sxCoord(c))
		a, b, c = slot(0, a...), slot(1, b...), slot(2, c...) // the caller's buffers are reused for every call
		e.emit("C10.orient", in, guard(func() string {
			return fmt.Sprintf("(%d %d %d)", int(bigxy.VerifOrientationIndexFilter(a, b, c)), int(bigxy.OrientationIndex(a, b, c)), int(xy.OrientationIndex(a, b, c)))
		}))
	}
	// regression corpus: repaired D3
	emit(geom.Coord{51.52126285020654, 81.36399609900968}, geom.Coord{21.426387258237494, 38.065718929968604}, geom.Coord{41.94934166272646, 67.59262511097587})
	// exhaustive 5x5 grid triples once per run
	for i := 0; i < 25*25*25; i++ {
		a := geom.Coord{float64(i % 5), float64(i / 5 % 5)}
		b := geom.Coord{float64(i / 25 % 5), float64(i / 125 % 5)}
		c := geom.Coord{float64(i / 625 % 5), float64(i / 3125 % 5)}
		emit(a, b, c)
	}
	e.tally("grid5x5-exhaustive")
	for i := 0; i < n; i++ {
		scale := r.Intn(5)
		extra := r.Intn(3) // extra ordinates beyond X,Y are arbitrary
		mk := func(x, y float64) geom.Coord {
			c := geom.Coord{x, y}
			for k := 0; k < extra; k++ {
				c = append(c, r.anyBits())
			}
			return c
		}
		a := mk(r.orientOrd(scale), r.orientOrd(scale))
		b := mk(r.orientOrd(scale), r.orientOrd(scale))
		var c geom.Coord
		mode := r.Intn(4)
		switch mode {
		case 0:
			c = mk(r.orientOrd(scale), r.orientOrd(scale))
			e.tally("mode=random")
		default: // nearly collinear: c = a + t(b-a) rounded, then moved by a few ulps
			t := r.Float64()*3 - 1
			if r.chance(1, 4) {
				t = float64(r.Intn(5)-1) / 2
			}
			cx := a[0] + t*(b[0]-a[0])
			cy := a[1] + t*(b[1]-a[1])
			c = mk(ulps(cx, r.Intn(7)-3), ulps(cy, r.Intn(7)-3))
			e.tally("mode=near-collinear")
		}
		e.tally(fmt.Sprintf("scale=%d", scale))
		// all six argument orders (antisymmetry and cyclic invariance follow from exactness)
		perms := [][3]geom.Coord{{a, b, c}, {b, c, a}, {c, a, b}, {b, a, c}, {a, c, b}, {c, b, a}}
		p := perms[r.Intn(6)]
		emit(p[0], p[1], p[2])
	}
}
