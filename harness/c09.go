package main

import (
	"fmt"
	"math"

	geom "github.com/twpayne/go-geom"
)

func init() { generators["C09"] = genC09 }

// measure ordinate: finite, magnitude up to 2^200
func (r *Rng) measureOrd(scale int) float64 {
	switch scale {
	case 0:
		return float64(r.Intn(21) - 10)
	case 1:
		return float64(r.Intn(2000001)-1000000) / 64
	case 2:
		return (r.Float64() - 0.5) * 1e9
	case 3:
		return math.Ldexp(r.Float64()-0.5, 200)
	case 5:
		// very small figures (whole numbers times 2^-490 … 2^-500): squares and products are still
		// normal numbers, nothing underflows
		return math.Ldexp(float64(r.Intn(2001)-1000), -490-r.Intn(11))
	default:
		return 1e6 + r.Float64() // far from the origin, tiny extent
	}
}

// ring/line of k coordinates; rings are closed (first == last)
func (r *Rng) measureRun(stride, k, scale int, closed bool) []float64 {
	f := make([]float64, 0, stride*k)
	for i := 0; i < k; i++ {
		for j := 0; j < stride; j++ {
			f = append(f, r.measureOrd(scale))
		}
	}
	if closed && k >= 2 {
		copy(f[(k-1)*stride:], f[:stride])
	}
	return f
}

func (r *Rng) runLen() int {
	if r.chance(1, 4) {
		return 0
	}
	if r.chance(1, 20) {
		return 50 + r.Intn(150)
	}
	return 1 + r.Intn(7)
}

func genC09(r *Rng, e *Emitter, n int) {
	layouts := []geom.Layout{geom.XY, geom.XYZ, geom.XYM, geom.XYZM, 5, 7}
	emit := func(tag string, g interface {
		Area() float64
		Length() float64
		Stride() int
		FlatCoords() []float64
	}, ends string) {
		e.tally("type=" + tag)
		// the measures are those of the XY coordinates whatever reference system the geometry is
		// labelled with
		if gt, ok := g.(geom.T); ok && r.chance(1, 3) {
			setSRID(gt, []int{4326, 3857, 4269, -1, 900913, 32633}[r.Intn(6)])
			if p, ok := gt.(*geom.Point); ok {
				p.SetSRID(4326)
			}
			if ls, ok := gt.(*geom.LineString); ok {
				ls.SetSRID(4326)
			}
			if lr, ok := gt.(*geom.LinearRing); ok {
				lr.SetSRID(4326)
			}
			e.tally("srid-set")
		}
		e.emit("C09.measure", fmt.Sprintf("(%s %d %s %s)", tag, g.Stride(), sxCoord(g.FlatCoords()), ends),
			guard(func() string { return fmt.Sprintf("(ok (%s %s))", hexF(g.Area()), hexF(g.Length())) }))
	}
	// geometries without a layout (stride 0: what a decoder returns for a geometry with no
	// coordinates at all) are well formed and measure zero
	emit("ls", geom.NewLineString(geom.NoLayout), "()")
	emit("lr", geom.NewLinearRing(geom.NoLayout), "()")
	emit("pt", geom.NewPointEmpty(geom.NoLayout), "()")
	emit("pg", geom.NewPolygon(geom.NoLayout), "()")
	emit("mls", geom.NewMultiLineString(geom.NoLayout), "()")
	emit("mp", geom.NewMultiPoint(geom.NoLayout), "()")
	emit("mpg", geom.NewMultiPolygon(geom.NoLayout), "()")
	// regression corpus: repaired D1 (empty polygon inside a MultiPolygon)
	{
		mp := geom.NewMultiPolygonFlat(geom.XY, []float64{0, 0, 4, 0, 4, 4, 0, 0}, [][]int{{}, {8}})
		emit("mpg", mp, sxIntss(mp.Endss()))
		mp2 := geom.NewMultiPolygonFlat(geom.XY, []float64{0, 0, 4, 0, 4, 4, 0, 0}, [][]int{{8}, {}, {}})
		emit("mpg", mp2, sxIntss(mp2.Endss()))
	}
	// boundary sizes: long rings / lines (a ring followed by another ring, so that a term past the
	// end of the first one would be visible)
	for _, bc := range bigCases(n >= 100000) {
		stride, pts := bc[0], bc[1]
		l := layoutForStride(stride)
		ring := r.measureRun(stride, pts, 1, true)
		second := r.measureRun(stride, 5, 1, true)
		flat := append(append([]float64{}, ring...), second...)
		emit("pg", geom.NewPolygonFlat(l, flat, []int{len(ring), len(flat)}), sxInts([]int{len(ring), len(flat)}))
		emit("ls", geom.NewLineStringFlat(l, ring), "()")
		emit("mpg", geom.NewMultiPolygonFlat(l, flat, [][]int{{len(ring)}, {len(flat)}}), sxIntss([][]int{{len(ring)}, {len(flat)}}))
		e.tally("big")
	}
	// lines whose segments are almost, but not quite, parallel to an axis (slopes 10^-8 … 10^-5)
	for i := 0; i < n/50+6; i++ {
		l := layouts[r.Intn(len(layouts))]
		s := l.Stride()
		k := 2 + r.Intn(4)
		f := make([]float64, 0, k*s)
		x, y := float64(r.Intn(1000)), float64(r.Intn(1000))
		for j := 0; j < k; j++ {
			f = append(f, x, y)
			for o := 2; o < s; o++ {
				f = append(f, r.measureOrd(0))
			}
			long := float64(1000000 + r.Intn(100000000))
			short := float64(1 + r.Intn(60))
			if r.chance(1, 2) {
				long = -long
			}
			if r.chance(1, 2) {
				x, y = x+long, y+short
			} else {
				x, y = x+short, y+long
			}
		}
		e.tally("almost-axis-parallel")
		emit("ls", geom.NewLineStringFlat(l, f), "()")
	}
	for i := 0; i < n; i++ {
		l := layouts[r.Intn(len(layouts))]
		s := l.Stride()
		scale := r.Intn(6)
		e.tally(fmt.Sprintf("layout=%d", int(l)))
		e.tally(fmt.Sprintf("scale=%d", scale))
		switch r.Intn(7) {
		case 0:
			if r.chance(1, 4) {
				emit("pt", geom.NewPointEmpty(l), "()")
			} else {
				emit("pt", geom.NewPointFlat(l, r.measureRun(s, 1, scale, false)), "()")
			}
		case 1:
			emit("ls", geom.NewLineStringFlat(l, r.measureRun(s, r.runLen(), scale, false)), "()")
		case 2:
			emit("lr", geom.NewLinearRingFlat(l, r.measureRun(s, r.runLen(), scale, !r.chance(1, 4))), "()")
		case 3, 4:
			var flat []float64
			var ends []int
			open := r.chance(1, 4) // rings whose last vertex is not the first: length is still the polyline's
			for k := r.Intn(4); k > 0; k-- {
				flat = append(flat, r.measureRun(s, r.runLen(), scale, !open)...)
				ends = append(ends, len(flat))
			}
			if r.chance(1, 2) {
				emit("pg", geom.NewPolygonFlat(l, flat, ends), sxInts(ends))
			} else {
				emit("mls", geom.NewMultiLineStringFlat(l, flat, ends), sxInts(ends))
			}
		case 5:
			k := r.Intn(5)
			g := geom.NewMultiPointFlat(l, r.measureRun(s, k, scale, false))
			emit("mp", g, sxInts(g.Ends()))
		default:
			var flat []float64
			endss := [][]int{}
			for k := r.Intn(4); k > 0; k-- {
				ends := []int{}
				for q := r.Intn(3); q > 0; q-- {
					flat = append(flat, r.measureRun(s, r.runLen(), scale, !r.chance(1, 5))...)
					ends = append(ends, len(flat))
				}
				endss = append(endss, ends)
			}
			emit("mpg", geom.NewMultiPolygonFlat(l, flat, endss), sxIntss(endss))
		}
	}
}
