package main

import (
	"sync"
	"errors"
	"fmt"
	"io"
	"math"
	"os"
	"math/rand"
	"strconv"
	"strings"

	geom "github.com/twpayne/go-geom"
	"github.com/twpayne/go-geom/encoding/wkbcommon"
)

var errFault = errors.New("injected writer fault")

// ---- deterministic PRNG: every random choice derives from one seed ----

type Rng struct{ *rand.Rand }

func newRng(seed int64) *Rng { return &Rng{rand.New(rand.NewSource(seed))} }

func (r *Rng) chance(num, den int) bool { return r.Intn(den) < num }

var specialBits = []uint64{
	0x0000000000000000, 0x8000000000000000, // +0 -0
	0x7FF0000000000000, 0xFFF0000000000000, // +Inf -Inf
	0x7FF8000000000000, 0x7FF8000000000001, 0xFFF8000000000000, // quiet NaNs
	0x7FF0000000000001, 0x7FF4000000000000, // signalling NaNs
	0x0000000000000001, 0x800FFFFFFFFFFFFF, // denormals
	0x7FEFFFFFFFFFFFFF, 0xFFEFFFFFFFFFFFFF, // +-max
	0x3FF0000000000000, 0xBFF0000000000000, 0x4000000000000000,
}

// anyBits: arbitrary float64 bit pattern (special pool or random bits).
func (r *Rng) anyBits() float64 {
	if r.chance(1, 3) {
		return math.Float64frombits(specialBits[r.Intn(len(specialBits))])
	}
	if r.chance(1, 2) {
		return float64(r.Intn(2001) - 1000)
	}
	return math.Float64frombits(r.Uint64())
}

// finite "nice" value
func (r *Rng) smallFloat() float64 {
	switch r.Intn(4) {
	case 0:
		return float64(r.Intn(21) - 10)
	case 1:
		return float64(r.Intn(2001)-1000) / 8
	case 2:
		return (r.Float64() - 0.5) * 1000
	default:
		return float64(r.Intn(2000001) - 1000000)
	}
}

// ---- S-expression printing ----

func hexF(f float64) string { return fmt.Sprintf("%016x", math.Float64bits(f)) }

func sxCoord(c []float64) string {
	var sb strings.Builder
	sb.WriteByte('(')
	for i, f := range c {
		if i > 0 {
			sb.WriteByte(' ')
		}
		sb.WriteString(hexF(f))
	}
	sb.WriteByte(')')
	return sb.String()
}

func sxCoordOpt(c geom.Coord) string {
	if c == nil {
		return "nil"
	}
	return sxCoord(c)
}

func sxList[T any](xs []T, f func(T) string) string {
	var sb strings.Builder
	sb.WriteByte('(')
	for i, x := range xs {
		if i > 0 {
			sb.WriteByte(' ')
		}
		sb.WriteString(f(x))
	}
	sb.WriteByte(')')
	return sb.String()
}

func sxCoords1(cs []geom.Coord) string {
	return sxList(cs, func(c geom.Coord) string { return sxCoord(c) })
}
func sxMCoords(cs []geom.Coord) string { return sxList(cs, sxCoordOpt) }
func sxCoords2(cs [][]geom.Coord) string { return sxList(cs, sxCoords1) }
func sxCoords3(cs [][][]geom.Coord) string { return sxList(cs, sxCoords2) }
func sxInts(xs []int) string            { return sxList(xs, strconv.Itoa) }
func sxIntss(xs [][]int) string         { return sxList(xs, sxInts) }

func sxG1(l geom.Layout, stride int, flat []float64, srid int) string {
	return fmt.Sprintf("(%d %d %s %d)", int(l), stride, sxCoord(flat), srid)
}
func sxG2(l geom.Layout, stride int, flat []float64, ends []int, srid int) string {
	return fmt.Sprintf("(%d %d %s %s %d)", int(l), stride, sxCoord(flat), sxInts(ends), srid)
}
func sxG3(l geom.Layout, stride int, flat []float64, endss [][]int, srid int) string {
	return fmt.Sprintf("(%d %d %s %s %d)", int(l), stride, sxCoord(flat), sxIntss(endss), srid)
}

// sxErr maps library errors to the small enum of the protocol.
func sxErr(err error) string {
	switch e := err.(type) {
	case geom.ErrStrideMismatch:
		return fmt.Sprintf("(err strideMismatch %d %d)", e.Got, e.Want)
	case geom.ErrLayoutMismatch:
		return fmt.Sprintf("(err layoutMismatch %d %d)", int(e.Got), int(e.Want))
	case geom.ErrUnsupportedLayout:
		return fmt.Sprintf("(err unsupportedLayout %d)", int(e))
	case wkbcommon.ErrUnknownByteOrder:
		return fmt.Sprintf("(err unknownByteOrder %d)", int(e))
	case wkbcommon.ErrUnknownType:
		return fmt.Sprintf("(err unknownType %d)", uint32(e))
	case wkbcommon.ErrUnsupportedType:
		return "(err unsupportedType)"
	case wkbcommon.ErrUnexpectedType:
		return "(err unexpectedType)"
	case wkbcommon.ErrGeometryTooLarge:
		return fmt.Sprintf("(err tooLarge %d %d %d)", e.Level, e.N, e.Limit)
	}
	switch {
	case err == io.EOF:
		return "(err eof)"
	case err == io.ErrUnexpectedEOF:
		return "(err unexpectedEof)"
	case err == errFault:
		return "(err writer)"
	}
	return "(err other)"
}

// guard runs f and maps a panic to "(panic)".
func guard(f func() string) (out string) {
	defer func() {
		if r := recover(); r != nil {
			out = "(panic)"
		}
	}()
	return f()
}

// ---- line output ----

type Emitter struct {
	sb          *strings.Builder
	count       int
	hist        map[string]int
	pendingPath string
	pendingFile *os.File
	pendingLen  int
	retained    []retainedObs
}

// ---- persistent argument buffers ----
// Coordinates handed to the library are written into a few long-lived slices that are
// overwritten in place for the next call: the values are what matters, so a result may not
// depend on the identity or history of the caller's buffers (memoisation keyed on a slice that
// the caller has since reused, scratch state left over from the previous call).
var argSlots [12][]float64

// Each slot also has spare capacity after the values, filled with a sentinel: the caller's array
// goes on after the slice it passed, and that part is not the library's to write to either.
const slotSentinel = -987654.25

var slotOverrun bool

func slot(k int, vals ...float64) geom.Coord {
	// the sentinels written for the previous use of this slot are still there?
	if old := argSlots[k]; old != nil {
		full := old[:cap(old)]
		for i := len(old); i < len(old)+8 && i < len(full); i++ {
			if full[i] != slotSentinel {
				slotOverrun = true
			}
		}
	}
	if cap(argSlots[k]) < len(vals)+8 {
		argSlots[k] = make([]float64, len(vals), 2*len(vals)+16)
	}
	argSlots[k] = argSlots[k][:len(vals)]
	copy(argSlots[k], vals)
	full := argSlots[k][:cap(argSlots[k])]
	for i := len(vals); i < len(vals)+8; i++ {
		full[i] = slotSentinel
	}
	return geom.Coord(argSlots[k])
}

// pending records the input about to be executed, so that if the implementation kills the
// process (fatal runtime error such as out of memory, which recover() cannot catch) the
// orchestrator still has the concrete failing input.
func (e *Emitter) pending(op, input string) {
	if e.pendingPath == "" {
		return
	}
	if e.pendingFile == nil {
		f, err := os.Create(e.pendingPath)
		if err != nil {
			return
		}
		e.pendingFile = f
	}
	data := []byte(op + "\t" + input + "\n")
	e.pendingFile.WriteAt(data, 0)
	if len(data) < e.pendingLen {
		e.pendingFile.Truncate(int64(len(data)))
	}
	e.pendingLen = len(data)
}

// retained results: values returned by earlier calls are rendered again before every later line;
// a result that no longer renders the same was changed by a later call (a recycled buffer, a
// shared backing array) and is reported as a second observation of the earlier op, which then
// disagrees with the model and fails the oracle.
type retainedObs struct {
	op, input, want string
	render          func() string
}

func (e *Emitter) checkRetained() {
	if len(e.retained) == 0 {
		return
	}
	keep := e.retained[:0]
	var changed []retainedObs
	for _, ro := range e.retained {
		now := guard(ro.render)
		if now != ro.want {
			ro.want = now
			changed = append(changed, ro)
			continue
		}
		keep = append(keep, ro)
	}
	e.retained = keep
	for _, ro := range changed {
		e.hist["retained-result-changed"]++
		e.rawEmit(ro.op, ro.input, ro.want)
	}
}

// emitR emits the observation now and keeps the rendering closure (over the returned values) so
// that the same observation is re-checked after later calls.
func (e *Emitter) emitR(op, input string, render func() string) {
	out := guard(render)
	e.emit(op, input, out)
	e.retained = append(e.retained, retainedObs{op, input, out, render})
	if len(e.retained) > 6 {
		e.retained = e.retained[len(e.retained)-6:]
	}
}

// watch keeps a rendering closure for an observation that has just been emitted.
func (e *Emitter) watch(op, input string, render func() string) {
	e.retained = append(e.retained, retainedObs{op, input, guard(render), render})
	if len(e.retained) > 6 {
		e.retained = e.retained[len(e.retained)-6:]
	}
}

func (e *Emitter) emit(op, input, goOut string) {
	e.checkRetained()
	if slotOverrun {
		// (noticed when the slot is next filled: attributed to the line being written now, the call
		// at fault is this one or the one before it on the same slot)
		slotOverrun = false
		goOut = "(wrote-past-the-end-of-an-argument " + goOut + ")"
	}
	e.rawEmit(op, input, goOut)
}

func (e *Emitter) rawEmit(op, input, goOut string) {
	e.sb.WriteString(op)
	e.sb.WriteByte('\t')
	e.sb.WriteString(input)
	e.sb.WriteByte('\t')
	e.sb.WriteString(goOut)
	e.sb.WriteByte('\n')
	e.count++
}

func (e *Emitter) tally(k string) { e.hist[k]++ }

// ---- boundary sizes ----
// Loops that work in blocks (4096 ordinates, 1024 terms, 8192 floats ...) are only exercised by
// inputs around those sizes, which random small geometries never reach. Every run therefore
// includes, per property, a fixed sweep of (stride, number of coordinates) pairs: exact powers
// of two in coordinates and in ordinates, one past, and counts whose ordinate total straddles a
// block boundary mid-coordinate (1366 x 3 = 4098).
func bigCases(thorough bool) [][2]int {
	cases := [][2]int{
		{2, 1024}, {2, 2048}, {2, 4096}, {2, 8192},
		{3, 1024}, {3, 1366}, {3, 2048}, {3, 4096},
		{4, 1024}, {4, 2048}, {4, 2049},
		{5, 820}, {5, 1024},
	}
	if thorough {
		for _, s := range []int{2, 3, 4} {
			for _, n := range []int{255, 256, 257, 511, 512, 513, 1023, 1025, 2047, 3072, 4095, 4097, 8191, 8193, 16384} {
				cases = append(cases, [2]int{s, n})
			}
		}
	}
	return cases
}

// bigFlat: n coordinates of the given stride with pairwise distinct, exactly representable
// ordinates (so that a shifted, dropped or zeroed block is visible), on a gentle zig-zag.
func bigFlat(stride, n int) []float64 {
	f := make([]float64, 0, stride*n)
	for i := 0; i < n; i++ {
		for j := 0; j < stride; j++ {
			v := float64(i*stride+j) + 0.5
			if j == 1 && i%2 == 1 {
				v += 3
			}
			f = append(f, v)
		}
	}
	return f
}

func coordsOfFlat(stride int, f []float64) []geom.Coord {
	cs := make([]geom.Coord, 0, len(f)/stride)
	for i := 0; i+stride <= len(f); i += stride {
		cs = append(cs, geom.Coord(f[i:i+stride:i+stride]))
	}
	return cs
}

// ---- hardest inputs for exact predicates ----
// unimodular: two integer vectors u, v with u x v = +-1 and entries of about the requested size,
// built as a product of elementary continued-fraction steps with small partial quotients (1s give
// Fibonacci pairs, 2s Pell pairs: the longest Euclidean descents for their size). Points p, p+u,
// p+u+v are as close to collinear as integer points can be without being collinear, and a
// determinant-sign routine needs its full reduction depth on (u, v).
func (r *Rng) unimodular(maxBits int) (ux, uy, vx, vy int64) {
	ux, uy, vx, vy = 1, 0, 0, 1
	limit := int64(1) << uint(maxBits)
	mode := r.Intn(4) // 0: all ones, 1: all twos, 2..3: mixed small quotients
	for {
		q := int64(1)
		switch mode {
		case 1:
			q = 2
		case 2, 3:
			q = int64(1 + r.Intn(3))
			if r.chance(1, 10) {
				q = int64(1 + r.Intn(50))
			}
		}
		// (u, v) <- (q*u + v, u)
		nx, ny := q*ux+vx, q*uy+vy
		if nx >= limit || ny >= limit {
			break
		}
		ux, uy, vx, vy = nx, ny, ux, uy
	}
	return
}

// concurrently runs the functions at the same time (released together) and returns their results
// in order; a panic in one is that one's "(panic)".
func concurrently(fs []func() string) []string {
	out := make([]string, len(fs))
	start := make(chan struct{})
	var wg sync.WaitGroup
	for i := range fs {
		wg.Add(1)
		go func(i int) {
			defer wg.Done()
			<-start
			out[i] = guard(fs[i])
		}(i)
	}
	close(start)
	wg.Wait()
	return out
}

// negZeros writes some of the zero X/Y ordinates of a flat coordinate array as -0 (the same number),
// in a quarter of the calls.
func (r *Rng) negZeros(flat []float64, stride int) bool {
	if stride < 2 || !r.chance(1, 4) {
		return false
	}
	did := false
	for i := 0; i+1 < len(flat); i += stride {
		for k := 0; k < 2; k++ {
			if flat[i+k] == 0 && r.chance(1, 2) {
				flat[i+k] = math.Copysign(0, -1)
				did = true
			}
		}
	}
	return did
}
