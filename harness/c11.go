package main

import (
	"fmt"
	"math"

	geom "github.com/twpayne/go-geom"
	"github.com/twpayne/go-geom/xy"
	"github.com/twpayne/go-geom/xy/lineintersector"
	"github.com/twpayne/go-geom/xy/location"
)

func init() { generators["C11"] = genC11 }

func locName(l location.Type) string {
	switch l {
	case location.Interior:
		return "interior"
	case location.Boundary:
		return "boundary"
	case location.Exterior:
		return "exterior"
	}
	return fmt.Sprintf("loc%d", int(l))
}

func layoutForStride(s int) geom.Layout {
	switch s {
	case 2:
		return geom.XY
	case 3:
		return geom.XYZ
	case 4:
		return geom.XYZM
	}
	return geom.Layout(s)
}

// negZeros: which zero ordinates of the next case are written as -0 (the same number as +0); bit k of
// the counter decides for the k-th zero met.
var negZeroCounter uint64

func emitLocate(e *Emitter, stride int, p geom.Coord, ring []float64) {
	l := layoutForStride(stride)
	negZeroCounter = negZeroCounter*6364136223846793005 + 1442695040888963407
	if negZeroCounter>>60 < 4 { // a quarter of the cases
		bits := negZeroCounter
		flip := func(v float64) float64 {
			if v == 0 {
				bits = bits*2862933555777941757 + 3037000493
				if bits>>63 == 1 {
					return math.Copysign(0, -1)
				}
				return 0
			}
			return v
		}
		ring = append([]float64{}, ring...)
		p = append(geom.Coord{}, p...)
		for i := 0; i+1 < len(ring); i += stride {
			ring[i], ring[i+1] = flip(ring[i]), flip(ring[i+1])
		}
		p[0], p[1] = flip(p[0]), flip(p[1])
	}
	if negZeroCounter>>57&7 == 5 {
		// the same figure at another scale (an exact power of two, down to where products of two
		// ordinates underflow and up to where they overflow): the location is the same
		sc := math.Ldexp(1, []int{-1000, -600, -540, -300, -100, 100, 300, 511, 600, 900}[negZeroCounter>>50%10])
		ok := true
		for i := 0; i+1 < len(ring); i += stride {
			if math.Abs(ring[i]) >= 1<<40 || math.Abs(ring[i+1]) >= 1<<40 {
				ok = false
			}
			if (ring[i] != 0 && math.Abs(ring[i]) < 1) || (ring[i+1] != 0 && math.Abs(ring[i+1]) < 1) {
				ok = false // (already at a small scale: scaling further would round)
			}
		}
		if ok && math.Abs(p[0]) < 1<<40 && math.Abs(p[1]) < 1<<40 {
			ring = append([]float64{}, ring...)
			p = append(geom.Coord{}, p...)
			for i := 0; i+1 < len(ring); i += stride {
				ring[i], ring[i+1] = ring[i]*sc, ring[i+1]*sc
			}
			p[0], p[1] = p[0]*sc, p[1]*sc
		}
	}
	in := fmt.Sprintf("(%d %s %s)", stride, sxCoord(p), sxCoord(ring))
	p, ring = slot(0, p...), slot(1, ring...) // caller's buffers reused for every call
	e.pending("C11.locate", in)
	e.emit("C11.locate", in, guard(func() string {
		return fmt.Sprintf("(%s %v)", locName(xy.LocatePointInRing(l, p, ring)), xy.IsPointInRing(l, p, ring))
	}))
}

func genC11(r *Rng, e *Emitter, n int) {
	// exhaustive: every closed triangle on the 4x4 grid x every grid point
	for t := 0; t < 16*16*16; t++ {
		a, b, c := t%16, t/16%16, t/256
		ring := []float64{float64(a % 4), float64(a / 4), float64(b % 4), float64(b / 4), float64(c % 4), float64(c / 4), float64(a % 4), float64(a / 4)}
		for q := 0; q < 16; q++ {
			emitLocate(e, 2, geom.Coord{float64(q % 4), float64(q / 4)}, ring)
		}
	}
	e.tally("exhaustive-triangles-4x4")
	quads := n / 4
	if n >= 100000 { // thorough: every closed quadrilateral on the 4x4 grid x every grid point
		quads = 0
		for t := 0; t < 65536; t++ {
			v := [4]int{t % 16, t / 16 % 16, t / 256 % 16, t / 4096}
			ring := make([]float64, 0, 10)
			for _, k := range append(v[:], v[0]) {
				ring = append(ring, float64(k%4), float64(k/4))
			}
			for q := 0; q < 16; q++ {
				emitLocate(e, 2, geom.Coord{float64(q % 4), float64(q / 4)}, ring)
			}
		}
		e.tally("exhaustive-quads-4x4")
	}
	for i := 0; i < quads; i++ { // sampled quadrilaterals on the 4x4 grid
		ring := make([]float64, 0, 10)
		for k := 0; k < 4; k++ {
			ring = append(ring, float64(r.Intn(4)), float64(r.Intn(4)))
		}
		ring = append(ring, ring[0], ring[1])
		emitLocate(e, 2, geom.Coord{float64(r.Intn(4)), float64(r.Intn(4))}, ring)
	}
	// long rings (hundreds to thousands of vertices) with long runs of vertices level with one
	// another: densified boxes and staircases; query points on vertices, on edges between them, and
	// one unit inside / outside, in every layout
	for i := 0; i < n/400+8; i++ {
		size := []int{130, 257, 511, 512, 513, 600, 1024, 1025, 2048, 2100}[r.Intn(10)]
		stride := 2 + r.Intn(5)
		per := size / 4
		W, H := 3*per, 2*per
		var xs, ys []int
		if r.chance(1, 2) { // box, every edge densified
			for k := 0; k < per; k++ {
				xs, ys = append(xs, 3*k), append(ys, 0)
			}
			for k := 0; k < per; k++ {
				xs, ys = append(xs, W), append(ys, 2*k)
			}
			for k := 0; k < per; k++ {
				xs, ys = append(xs, W-3*k), append(ys, H)
			}
			for k := 0; k < per; k++ {
				xs, ys = append(xs, 0), append(ys, H-2*k)
			}
		} else { // staircase up to the right, then back along the axes
			x, y := 0, 0
			for k := 0; k < size-2; k++ {
				xs, ys = append(xs, x), append(ys, y)
				if k%40 < 30 {
					x += 2
				} else {
					y += 3
				}
			}
			xs, ys = append(xs, x), append(ys, 0)
			W, H = x, y
		}
		rot := r.Intn(len(xs))
		rev := r.chance(1, 2)
		ring := make([]float64, 0, (len(xs)+1)*stride)
		for k := 0; k <= len(xs); k++ {
			j := (rot + k) % len(xs)
			if rev {
				j = (rot + len(xs) - k) % len(xs)
			}
			ring = append(ring, float64(xs[j]), float64(ys[j]))
			for o := 2; o < stride; o++ {
				ring = append(ring, r.anyBits())
			}
		}
		for q := 0; q < 12; q++ {
			j := r.Intn(len(xs))
			px, py := xs[j], ys[j]
			switch r.Intn(5) {
			case 1: // between this vertex and the next
				j2 := (j + 1) % len(xs)
				px, py = (xs[j]+xs[j2])/2, (ys[j]+ys[j2])/2
			case 2:
				px, py = px+1, py+1
			case 3:
				px, py = px-1, py-1
			case 4:
				px, py = r.Intn(W+3)-1, r.Intn(H+3)-1
			}
			p := geom.Coord{float64(px), float64(py)}
			for o := 2; o < stride; o++ {
				p = append(p, r.anyBits())
			}
			e.tally(fmt.Sprintf("long-ring-%d", size))
			emitLocate(e, stride, p, ring)
		}
	}
	// a point as close as an integer point can be to a long sloping edge without being on it: the
	// edge's end points, translated to the point, form a unimodular pair (determinant +-1) with a
	// long Euclidean descent
	for i := 0; i < n/8; i++ {
		bits := 3 + r.Intn(23)
		ux, uy, vx, vy := r.unimodular(bits)
		px, py := int64(r.Intn(1<<20)), int64(r.Intn(1<<20))
		// edge from p+u to p-v straddles the ray's line; close the ring through a far corner
		a := [2]int64{px + ux, py + uy}
		b := [2]int64{px - vx, py - vy}
		corners := [][2]int64{{px + (1 << 27), py - (1 << 27)}, {px - (1 << 27), py - (1 << 27)}, {px - (1 << 27), py + (1 << 27)}, {px + (1 << 27), py + (1 << 27)}}
		c := corners[r.Intn(4)]
		vs := [][2]int64{a, b, c}
		if r.chance(1, 2) {
			vs = [][2]int64{b, a, c}
		}
		st := r.Intn(3)
		stride := 2 + r.Intn(5)
		ring := make([]float64, 0, 4*stride)
		for k := 0; k <= 3; k++ {
			v := vs[(k+st)%3]
			ring = append(ring, float64(v[0]), float64(v[1]))
			for o := 2; o < stride; o++ {
				ring = append(ring, r.anyBits())
			}
		}
		p := geom.Coord{float64(px), float64(py)}
		for o := 2; o < stride; o++ {
			p = append(p, r.anyBits())
		}
		e.tally("op=locate-unimodular")
		emitLocate(e, stride, p, ring)
	}
	// rings whose x ordinates are signed powers of two between 2^-60 and 2^60 (or zero) and whose y
	// ordinates are small whole numbers, seen from the origin: every difference, quotient and product
	// of the determinant routine is exact, and its quotients reach 2^120
	for i := 0; i < n/10+8; i++ {
		nv := 3 + r.Intn(4)
		stride := 2 + r.Intn(3)
		ring := make([]float64, 0, (nv+1)*stride)
		for k := 0; k < nv; k++ {
			x := math.Ldexp(float64(1-2*r.Intn(2)), r.Intn(121)-60)
			if r.chance(1, 8) {
				x = 0
			}
			y := float64(r.Intn(7) - 3)
			ring = append(ring, x, y)
			for o := 2; o < stride; o++ {
				ring = append(ring, r.anyBits())
			}
		}
		ring = append(ring, ring[:stride]...)
		p := geom.Coord{0, 0}
		if r.chance(1, 4) {
			p[1] = float64(r.Intn(5) - 2)
		}
		for o := 2; o < stride; o++ {
			p = append(p, r.anyBits())
		}
		e.tally("op=locate-power-of-two-abscissae")
		emitLocate(e, stride, p, ring)
	}
	// rectangles and diamonds whose half sizes are powers of two (2^20 … 2^50, exactly or one off),
	// either way round, from any vertex, the query point at the centre, on an edge, outside
	for i := 0; i < n/10+8; i++ {
		hs := func() float64 {
			return math.Ldexp(1, 20+r.Intn(31)) + float64(r.Intn(3)-1)
		}
		hx, hy := hs(), hs()
		if r.chance(1, 2) {
			hy = hx
		}
		if r.chance(1, 3) {
			hx, hy = math.Ldexp(1, 31), math.Ldexp(1, 31)
		}
		cx0, cy0 := float64(r.Intn(7)-3), float64(r.Intn(7)-3)
		vs := [][2]float64{{cx0 - hx, cy0 - hy}, {cx0 + hx, cy0 - hy}, {cx0 + hx, cy0 + hy}, {cx0 - hx, cy0 + hy}}
		if r.chance(1, 3) {
			vs = [][2]float64{{cx0 - hx, cy0}, {cx0, cy0 - hy}, {cx0 + hx, cy0}, {cx0, cy0 + hy}}
		}
		if r.chance(1, 2) {
			vs[1], vs[3] = vs[3], vs[1]
		}
		st := r.Intn(4)
		stride := 2 + r.Intn(3)
		ring := make([]float64, 0, 5*stride)
		for k := 0; k <= 4; k++ {
			v := vs[(st+k)%4]
			ring = append(ring, v[0], v[1])
			for o := 2; o < stride; o++ {
				ring = append(ring, r.anyBits())
			}
		}
		p := geom.Coord{cx0, cy0}
		switch r.Intn(4) {
		case 1:
			p = geom.Coord{cx0 + hx, cy0 + float64(r.Intn(5)-2)}
		case 2:
			p = geom.Coord{cx0 + 2*hx, cy0}
		}
		for o := 2; o < stride; o++ {
			p = append(p, r.anyBits())
		}
		e.tally("op=locate-power-of-two-box")
		emitLocate(e, stride, p, ring)
	}
	grids := []int{4, 6, 8, 16, 1 << 26}
	for i := 0; i < n; i++ {
		stride := 2 + r.Intn(5)
		g := grids[r.Intn(len(grids))]
		nv := 3 + r.Intn(9)
		xs, ys := make([]int, nv), make([]int, nv)
		for k := range xs {
			xs[k], ys[k] = r.Intn(g), r.Intn(g)
			if k > 0 && r.chance(1, 6) { // repeated vertex
				xs[k], ys[k] = xs[k-1], ys[k-1]
			}
			if k > 0 && r.chance(1, 5) { // horizontal edge
				ys[k] = ys[k-1]
			}
		}
		var px, py int
		switch r.Intn(5) {
		case 0: // a vertex
			k := r.Intn(nv)
			px, py = xs[k], ys[k]
		case 1: // level with a vertex
			px, py = r.Intn(g), ys[r.Intn(nv)]
		case 2: // on an edge when the midpoint is integral, else near it
			k := r.Intn(nv)
			k2 := (k + 1) % nv
			px, py = (xs[k]+xs[k2])/2, (ys[k]+ys[k2])/2
		default:
			px, py = r.Intn(g), r.Intn(g)
		}
		ring := make([]float64, 0, (nv+1)*stride)
		for k := 0; k <= nv; k++ {
			ring = append(ring, float64(xs[k%nv]), float64(ys[k%nv]))
			for o := 2; o < stride; o++ {
				ring = append(ring, r.anyBits())
			}
		}
		p := geom.Coord{float64(px), float64(py)}
		for o := 2; o < stride; o++ {
			p = append(p, r.anyBits())
		}
		e.tally(fmt.Sprintf("grid=%d", g))
		if r.chance(1, 4) { // point-on-linestring (open polyline), also with moderate floats
			line := ring[:nv*stride]
			if r.chance(1, 2) {
				// moderate-magnitude floats: scale exactly by a power of two and shift by a dyadic offset
				sc, off := 0.125, 1000.5
				line = append([]float64{}, line...)
				for k := 0; k < nv; k++ {
					line[k*stride] = line[k*stride]*sc + off
					line[k*stride+1] = line[k*stride+1]*sc - off
				}
				p = append(geom.Coord{}, p...)
				p[0], p[1] = p[0]*sc+off, p[1]*sc-off
			}
			e.tally("op=online")
			l := layoutForStride(stride)
			e.emit("C11.online", fmt.Sprintf("(%d %s %s)", stride, sxCoord(p), sxCoord(line)), guard(func() string {
				return fmt.Sprintf("%v", xy.IsOnLine(l, p, line))
			}))
			continue
		}
		if g <= 16 && r.chance(1, 5) && (xs[0] != xs[1] || ys[0] != ys[1]) {
			// the point-on-segment test under either strategy, called directly
			a, b := geom.Coord{float64(xs[0]), float64(ys[0])}, geom.Coord{float64(xs[1]), float64(ys[1])}
			q := geom.Coord{p[0], p[1]}
			if r.chance(1, 2) { // on the segment's line, within or beyond its ends
				t := r.Intn(7) - 2
				q = geom.Coord{a[0] + float64(t)*(b[0]-a[0]), a[1] + float64(t)*(b[1]-a[1])}
				if r.chance(1, 2) && (int(b[0]-a[0])%2 == 0 && int(b[1]-a[1])%2 == 0) {
					q = geom.Coord{a[0] + float64(t)*(b[0]-a[0])/2, a[1] + float64(t)*(b[1]-a[1])/2}
				}
			}
			e.tally("op=ptline")
			e.emit("C11.ptline", fmt.Sprintf("(%s %s %s)", sxCoord(q), sxCoord(a), sxCoord(b)), guard(func() string {
				return fmt.Sprintf("(%v %v)", lineintersector.PointIntersectsLine(robustStrategy(), q, a, b),
					lineintersector.PointIntersectsLine(nonRobustStrategy(), q, a, b))
			}))
			continue
		}
		e.tally("op=locate")
		emitLocate(e, stride, p, ring)
	}
}
