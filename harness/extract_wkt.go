package main

// extractWkt: translate encoding/wkt/wkt.gen.go (the goyacc output that is compiled into the
// library) into Lean: the LALR tables verbatim, the token numbers, and every semantic action
// of the `switch wktnt` translated to a constructor of GeomVerif.WktAct.Act by matching its
// printed body against templates.  An action whose body matches no template becomes
// `.unknown "<body>"`, which the Tie theorem rejects.  The skeleton around the switch (the LR
// driver loop, wktlex1, wktErrorMessage) is fingerprinted so that a changed skeleton is
// noticed as well.

import (
	"bytes"
	"fmt"
	"go/ast"
	"go/parser"
	"go/printer"
	"go/token"
	"hash/fnv"
	"os"
	"path/filepath"
	"regexp"
	"strconv"
	"strings"
)

func init() { extractors = append(extractors, extractWkt) }

func repoRoot() string {
	if r := os.Getenv("VERIF_REPO"); r != "" {
		return r
	}
	return "/repo"
}

var wsRe = regexp.MustCompile(`\s+`)

func normSrc(fset *token.FileSet, n any) string {
	var buf bytes.Buffer
	if err := printer.Fprint(&buf, fset, n); err != nil {
		panic(err)
	}
	return strings.TrimSpace(wsRe.ReplaceAllString(buf.String(), " "))
}

type actTemplate struct {
	re   *regexp.Regexp
	lean string // may use $1.. for captures
}

func tmpl(pat, lean string) actTemplate {
	// The pattern is written as Go source with single spaces; escape it and re-open the
	// capture groups written as «name».
	q := regexp.QuoteMeta(pat)
	q = strings.ReplaceAll(q, "«L»", `(NoLayout|XYM|XYZM|XYZ|XY)`)
	q = strings.ReplaceAll(q, "«N»", `([0-9]+)`)
	return actTemplate{regexp.MustCompile("^" + q + "$"), lean}
}

const lx = "wktlex.(*wktLex)."

var okGuard = " if !ok { return 1 }"

var actTemplates = []actTemplate{
	tmpl("{ ok := "+lx+"validateLayoutStackAtEnd()"+okGuard+" "+lx+"ret = wktDollar[«N»].geom }", ".start $1"),
	tmpl("{ ok := "+lx+"validateAndPopLayoutStackFrame()"+okGuard+" err := wktDollar[«N»].geomCollect.SetLayout("+lx+"curLayout()) if err != nil { "+lx+"setError(err) return 1 } wktVAL.geom = wktDollar[«N»].geomCollect }", ".collDone $1 $2"),
	tmpl("{ wktVAL.geom = geom.NewPointFlat("+lx+"curLayout(), wktDollar[«N»].coordList) }", ".newPointFlat $1"),
	tmpl("{ wktVAL.geom = geom.NewPointEmpty("+lx+"curLayout()) }", ".newPointEmpty"),
	tmpl("{ wktVAL.geom = geom.NewLineStringFlat("+lx+"curLayout(), wktDollar[«N»].coordList) }", ".newLineStringFlat $1"),
	tmpl("{ wktVAL.geom = geom.NewLineString("+lx+"curLayout()) }", ".newLineStringEmpty"),
	tmpl("{ wktVAL.geom = geom.NewPolygonFlat("+lx+"curLayout(), wktDollar[«N»].flatRepr.flatCoords, wktDollar[«N»].flatRepr.ends) }", ".newPolygonFlat $1 $2"),
	tmpl("{ wktVAL.geom = geom.NewPolygon("+lx+"curLayout()) }", ".newPolygonEmpty"),
	tmpl("{ wktVAL.geom = geom.NewMultiPointFlat( "+lx+"curLayout(), wktDollar[«N»].flatRepr.flatCoords, geom.NewMultiPointFlatOptionWithEnds(wktDollar[«N»].flatRepr.ends), ) }", ".newMultiPointFlat $1 $2"),
	tmpl("{ wktVAL.geom = geom.NewMultiPointFlat("+lx+"curLayout(), wktDollar[«N»].flatRepr.flatCoords, geom.NewMultiPointFlatOptionWithEnds(wktDollar[«N»].flatRepr.ends)) }", ".newMultiPointFlat $1 $2"),
	tmpl("{ wktVAL.geom = geom.NewMultiPoint("+lx+"curLayout()) }", ".newMultiPointEmpty"),
	tmpl("{ wktVAL.geom = geom.NewMultiLineStringFlat("+lx+"curLayout(), wktDollar[«N»].flatRepr.flatCoords, wktDollar[«N»].flatRepr.ends) }", ".newMultiLineStringFlat $1 $2"),
	tmpl("{ wktVAL.geom = geom.NewMultiLineString("+lx+"curLayout()) }", ".newMultiLineStringEmpty"),
	tmpl("{ wktVAL.geom = geom.NewMultiPolygonFlat("+lx+"curLayout(), wktDollar[«N»].multiPolyFlatRepr.flatCoords, wktDollar[«N»].multiPolyFlatRepr.endss) }", ".newMultiPolygonFlat $1 $2"),
	tmpl("{ wktVAL.geom = geom.NewMultiPolygon("+lx+"curLayout()) }", ".newMultiPolygonEmpty"),
	tmpl("{ ok := "+lx+"validateBaseGeometryTypeAllowed()"+okGuard+" }", ".baseAllowed"),
	tmpl("{ ok := "+lx+"validateAndSetLayoutIfNoLayout(geom.«L»)"+okGuard+" }", ".setLayout .l$1"),
	tmpl("{ ok := "+lx+"validateAndPushLayoutStackFrame(geom.«L»)"+okGuard+" }", ".pushFrame .l$1"),
	tmpl("{ ok := "+lx+"validateNonEmptyGeometryAllowed()"+okGuard+" }", ".nonEmptyAllowed"),
	tmpl("{ ok := "+lx+"validateBaseTypeEmptyAllowed()"+okGuard+" }", ".baseEmptyAllowed"),
	tmpl("{ newCollection := geom.NewGeometryCollection() err := newCollection.Push(wktDollar[«N»].geomList...) if err != nil { "+lx+"setError(err) return 1 } wktVAL.geomCollect = newCollection }", ".newCollection $1"),
	tmpl("{ wktVAL.geomCollect = geom.NewGeometryCollection() }", ".emptyCollection"),
	tmpl("{ wktVAL.geomList = wktDollar[«N»].geomList }", ".copyGeomList $1"),
	tmpl("{ wktVAL.geomList = append(wktDollar[«N»].geomList, wktDollar[«N»].geom) }", ".appendGeomList $1 $2"),
	tmpl("{ wktVAL.geomList = []geom.T{wktDollar[«N»].geom} }", ".singleGeomList $1"),
	tmpl("{ wktVAL.multiPolyFlatRepr = wktDollar[«N»].multiPolyFlatRepr }", ".copyMP $1"),
	tmpl("{ wktVAL.multiPolyFlatRepr = appendMultiPolygonFlatCoordsRepr(wktDollar[«N»].multiPolyFlatRepr, wktDollar[«N»].multiPolyFlatRepr) }", ".appendMP $1 $2"),
	tmpl("{ wktVAL.multiPolyFlatRepr = makeMultiPolygonFlatCoordsRepr(wktDollar[«N»].flatRepr) }", ".makeMP $1"),
	tmpl("{ wktVAL.flatRepr = makeGeomFlatCoordsRepr(wktDollar[«N»].coordList) }", ".makeFR $1"),
	tmpl("{ wktVAL.flatRepr = wktDollar[«N»].flatRepr }", ".copyFR $1"),
	tmpl("{ wktVAL.flatRepr = appendGeomFlatCoordsReprs(wktDollar[«N»].flatRepr, wktDollar[«N»].flatRepr) }", ".appendFR $1 $2"),
	tmpl("{ if !"+lx+"isValidPolygonRing(wktDollar[«N»].coordList) { return 1 } wktVAL.flatRepr = makeGeomFlatCoordsRepr(wktDollar[«N»].coordList) }", ".ring $1 $2"),
	tmpl("{ if !"+lx+"isValidLineString(wktDollar[«N»].coordList) { return 1 } }", ".lineCheck $1"),
	tmpl("{ if !"+lx+"isValidPoint(wktDollar[«N»].coordList) { return 1 } }", ".pointCheck $1"),
	tmpl("{ wktVAL.coordList = wktDollar[«N»].coordList }", ".copyCL $1"),
	tmpl("{ wktVAL.coordList = append(wktDollar[«N»].coordList, wktDollar[«N»].coordList...) }", ".appendCL $1 $2"),
	tmpl("{ wktVAL.coordList = append(wktDollar[«N»].coordList, wktDollar[«N»].coord) }", ".appendCoord $1 $2"),
	tmpl("{ wktVAL.coordList = []float64{wktDollar[«N»].coord} }", ".singleCoord $1"),
	tmpl("{ wktVAL.coordList = []float64(nil) }", ".nilCL"),
}

func leanStr(s string) string {
	return strconv.Quote(s) // Go and Lean agree on the escapes that can occur here (\" \\ \n \t)
}

func translateAction(body string) string {
	for _, t := range actTemplates {
		if m := t.re.FindStringSubmatch(body); m != nil {
			out := t.lean
			for i := len(m) - 1; i >= 1; i-- {
				out = strings.ReplaceAll(out, fmt.Sprintf("$%d", i), m[i])
			}
			return out
		}
	}
	return ".unknown " + leanStr(body)
}

func fnvHex(s string) string {
	h := fnv.New64a()
	h.Write([]byte(s))
	return fmt.Sprintf("%016x", h.Sum64())
}

func extractWkt() {
	path := filepath.Join(repoRoot(), "encoding", "wkt", "wkt.gen.go")
	fset := token.NewFileSet()
	f, err := parser.ParseFile(fset, path, nil, 0)
	if err != nil {
		panic(err)
	}
	g := newGen("WktTables")
	g.sb.Reset()
	g.sb.WriteString("-- GENERATED by harness extract from /repo/encoding/wkt/wkt.gen.go; do not edit.\nimport GeomVerif.Model.WktAct\nnamespace GeomVerif.Generated\nopen GeomVerif.WktAct\n\n")

	consts := map[string]int{}
	arrays := map[string][]int{}
	var tokNames []string
	evalInt := func(e ast.Expr) (int, bool) {
		switch v := e.(type) {
		case *ast.BasicLit:
			if v.Kind == token.INT {
				n, err := strconv.ParseInt(v.Value, 0, 64)
				return int(n), err == nil
			}
		case *ast.UnaryExpr:
			if v.Op == token.SUB {
				if b, ok := v.X.(*ast.BasicLit); ok && b.Kind == token.INT {
					n, err := strconv.ParseInt(b.Value, 0, 64)
					return -int(n), err == nil
				}
			}
		}
		return 0, false
	}
	for _, d := range f.Decls {
		gd, ok := d.(*ast.GenDecl)
		if !ok {
			continue
		}
		for _, sp := range gd.Specs {
			vs, ok := sp.(*ast.ValueSpec)
			if !ok {
				continue
			}
			for i, name := range vs.Names {
				if i >= len(vs.Values) {
					continue
				}
				if n, ok := evalInt(vs.Values[i]); ok {
					consts[name.Name] = n
					continue
				}
				cl, ok := vs.Values[i].(*ast.CompositeLit)
				if !ok {
					continue
				}
				if name.Name == "wktToknames" {
					for _, el := range cl.Elts {
						if b, ok := el.(*ast.BasicLit); ok && b.Kind == token.STRING {
							s, _ := strconv.Unquote(b.Value)
							tokNames = append(tokNames, s)
						}
					}
					continue
				}
				var xs []int
				good := true
				for _, el := range cl.Elts {
					n, ok := evalInt(el)
					if !ok {
						good = false
						break
					}
					xs = append(xs, n)
				}
				if good {
					arrays[name.Name] = xs
				}
			}
		}
	}
	for _, name := range []string{"wktExca", "wktAct", "wktPact", "wktPgo", "wktR1", "wktR2", "wktChk", "wktDef", "wktTok1", "wktTok2", "wktTok3"} {
		xs, ok := arrays[name]
		if !ok {
			xs = nil
		}
		parts := make([]string, len(xs))
		for i, x := range xs {
			if x < 0 {
				parts[i] = fmt.Sprintf("(%d)", x)
			} else {
				parts[i] = fmt.Sprint(x)
			}
		}
		fmt.Fprintf(&g.sb, "def %s : Array Int := #[%s]\n", name, strings.Join(parts, ", "))
	}
	for _, name := range []string{"wktLast", "wktPrivate", "wktFlag", "wktErrCode", "wktEofCode", "wktInitialStackSize"} {
		v := consts[name]
		if v < 0 {
			fmt.Fprintf(&g.sb, "def %s : Int := (%d)\n", name, v)
		} else {
			fmt.Fprintf(&g.sb, "def %s : Int := %d\n", name, v)
		}
	}
	// token constants come from an iota block: POINT = 57346 + i in declaration order.
	var tokConsts []string
	for _, d := range f.Decls {
		gd, ok := d.(*ast.GenDecl)
		if !ok || gd.Tok != token.CONST {
			continue
		}
		for _, sp := range gd.Specs {
			vs := sp.(*ast.ValueSpec)
			for i, name := range vs.Names {
				if i < len(vs.Values) {
					if n, ok := evalInt(vs.Values[i]); ok && n >= 57346 && n < 57346+64 {
						tokConsts = append(tokConsts, fmt.Sprintf("(%s, %d)", leanStr(name.Name), n))
					}
				}
			}
		}
	}
	fmt.Fprintf(&g.sb, "def wktTokenConsts : List (String × Int) := [%s]\n", strings.Join(tokConsts, ", "))
	qn := make([]string, len(tokNames))
	for i, s := range tokNames {
		qn[i] = leanStr(s)
	}
	fmt.Fprintf(&g.sb, "def wktToknames : Array String := #[%s]\n", strings.Join(qn, ", "))

	// The semantic actions and the skeleton fingerprints.
	var acts []string
	skeleton := map[string]string{}
	for _, d := range f.Decls {
		fd, ok := d.(*ast.FuncDecl)
		if !ok {
			continue
		}
		switch fd.Name.Name {
		case "wktlex1", "wktErrorMessage", "wktTokname":
			skeleton[fd.Name.Name] = fnvHex(normSrc(fset, fd))
		case "Parse":
			var sw *ast.SwitchStmt
			ast.Inspect(fd, func(n ast.Node) bool {
				if s, ok := n.(*ast.SwitchStmt); ok {
					if id, ok := s.Tag.(*ast.Ident); ok && id.Name == "wktnt" {
						sw = s
						return false
					}
				}
				return true
			})
			if sw == nil {
				panic("wkt.gen.go: no `switch wktnt`")
			}
			for _, st := range sw.Body.List {
				cc := st.(*ast.CaseClause)
				for _, e := range cc.List {
					n, ok := evalInt(e)
					if !ok {
						panic("wkt.gen.go: non-literal case")
					}
					// body: `wktDollar = wktS[wktpt-k : wktpt+1]` followed by one block
					body := cc.Body
					k := -1
					if len(body) > 0 {
						if as, ok := body[0].(*ast.AssignStmt); ok {
							if id, ok := as.Lhs[0].(*ast.Ident); ok && id.Name == "wktDollar" {
								src := normSrc(fset, as)
								m := regexp.MustCompile(`^wktDollar = wktS\[wktpt-([0-9]+) : wktpt\+1\]$`).FindStringSubmatch(src)
								if m != nil {
									k, _ = strconv.Atoi(m[1])
								}
								body = body[1:]
							}
						}
					}
					var parts []string
					for _, b := range body {
						parts = append(parts, normSrc(fset, b))
					}
					acts = append(acts, fmt.Sprintf("(%d, %d, %s)", n, k, translateAction(strings.Join(parts, " "))))
				}
			}
			// fingerprint Parse with the switch body blanked
			saved := sw.Body.List
			sw.Body.List = nil
			skeleton["Parse"] = fnvHex(normSrc(fset, fd))
			sw.Body.List = saved
		}
	}
	fmt.Fprintf(&g.sb, "/-- (rule number, k where wktDollar = wktS[wktpt-k : wktpt+1], action) -/\ndef wktActions : List (Nat × Int × Act) := [\n  %s]\n", strings.Join(acts, ",\n  "))
	fmt.Fprintf(&g.sb, "/-- FNV-1a fingerprints of the normalised source of Parse (switch body blanked), wktlex1, wktErrorMessage, wktTokname. -/\ndef wktSkeleton : List Nat := [0x%s, 0x%s, 0x%s, 0x%s]\n",
		skeleton["Parse"], skeleton["wktlex1"], skeleton["wktErrorMessage"], skeleton["wktTokname"])
	// wktErrorVerbose / wktErrorMessages
	verbose := "false"
	nmsgs := 0
	for _, d := range f.Decls {
		gd, ok := d.(*ast.GenDecl)
		if !ok {
			continue
		}
		for _, sp := range gd.Specs {
			vs, ok := sp.(*ast.ValueSpec)
			if !ok {
				continue
			}
			for i, name := range vs.Names {
				if i >= len(vs.Values) {
					continue
				}
				if name.Name == "wktErrorVerbose" {
					verbose = normSrc(fset, vs.Values[i])
				}
				if name.Name == "wktErrorMessages" {
					if cl, ok := vs.Values[i].(*ast.CompositeLit); ok {
						nmsgs = len(cl.Elts)
					}
				}
			}
		}
	}
	fmt.Fprintf(&g.sb, "def wktErrorVerbose : Bool := %s\ndef wktErrorMessagesCount : Nat := %d\n", verbose, nmsgs)
}
