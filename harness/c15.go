package main

import (
	"math"
	"fmt"

	geom "github.com/twpayne/go-geom"
	"github.com/twpayne/go-geom/xy"
	"github.com/twpayne/go-geom/xyz"
)

func init() { generators["C15"] = genC15 }

func genC15(r *Rng, e *Emitter, n int) {
	emitF := func(op, in string, f func() float64) {
		e.pending(op, in)
		e.emit(op, in, guard(func() string { return hexF(f()) }))
	}
	// regression corpus: repaired D8 / D9
	{
		a, b, c, d := geom.Coord{0, 0, 0}, geom.Coord{1, 0, 0}, geom.Coord{5, 5, 5}, geom.Coord{5, 5, 5}
		emitF("C15.segseg3", fmt.Sprintf("(%s %s %s %s)", sxCoord(a), sxCoord(b), sxCoord(c), sxCoord(d)), func() float64 { return xyz.DistanceLineToLine(a, b, c, d) })
		a, b, c, d = geom.Coord{1, 7, 0}, geom.Coord{2, 5, 4}, geom.Coord{3, 0, 4}, geom.Coord{2, 3, 0}
		emitF("C15.segseg3", fmt.Sprintf("(%s %s %s %s)", sxCoord(a), sxCoord(b), sxCoord(c), sxCoord(d)), func() float64 { return xyz.DistanceLineToLine(a, b, c, d) })
	}
	grids := []int{3, 5, 12, 1000, 1 << 20}
	for i := 0; i < n; i++ {
		g := grids[r.Intn(len(grids))]
		dim := 2
		kind := r.Intn(6)
		if kind >= 4 {
			dim = 3
		}
		pt := func() geom.Coord {
			c := make(geom.Coord, dim)
			for k := range c {
				c[k] = float64(r.Intn(g))
			}
			if dim == 2 && r.chance(1, 3) {
				c = append(c, r.anyBits()) // extra ordinate ignored in 2D
			}
			return c
		}
		a, b := pt(), pt()
		if r.chance(1, 8) {
			b = append(geom.Coord{}, a...) // zero-length segment
		}
		c, d := pt(), pt()
		// the values are moved into long-lived buffers that the next case overwrites
		defer0 := func() { a, b, c, d = slot(0, a...), slot(1, b...), slot(2, c...), slot(3, d...) }
		switch r.Intn(11) {
		case 10:
			// two short segments (centimetres to decimetres) that cross one another, millions of units
			// from the origin, ordinates to four decimal places: the distance is zero
			if dim == 2 {
				cx0, cy0 := float64(1000000+r.Intn(9000000))+float64(r.Intn(10000))/1e4, float64(1000000+r.Intn(9000000))+float64(r.Intn(10000))/1e4
				an1 := r.Float64() * math.Pi
				an2 := an1 + 0.3 + r.Float64()*2.4
				rd := func(v float64) float64 { return math.Round(v*1e4) / 1e4 }
				half := func() float64 { return 0.01 + r.Float64()*0.2 }
				h1, h2, h3, h4 := half(), half(), half(), half()
				a[0], a[1] = rd(cx0+h1*math.Cos(an1)), rd(cy0+h1*math.Sin(an1))
				b[0], b[1] = rd(cx0-h2*math.Cos(an1)), rd(cy0-h2*math.Sin(an1))
				c[0], c[1] = rd(cx0+h3*math.Cos(an2)), rd(cy0+h3*math.Sin(an2))
				d[0], d[1] = rd(cx0-h4*math.Cos(an2)), rd(cy0-h4*math.Sin(an2))
				e.tally("short-crossing-far-from-origin")
			}
		case 9:
			// a short segment seen from far away (its length a 10^-7 … 10^-12 part of the distance): the
			// nearer of its ends, or the foot between them, is still what counts
			M := math.Pow(10, float64(7+r.Intn(6)))
			for k := 0; k < dim; k++ {
				a[k] = math.Round((r.Float64()*2 - 1) * M)
				b[k] = a[k] + float64(r.Intn(201)-100)
				c[k] = float64(r.Intn(2001) - 1000)
				d[k] = c[k] + float64(r.Intn(41)-20)
			}
			if a[0] == b[0] && a[1] == b[1] {
				b[0]++
			}
			if r.chance(1, 2) {
				a, b, c, d = c, d, a, b
			}
			e.tally("short-segment-far-away")
		case 8:
			// surveyed alignment: consecutive half-unit stretches of an almost straight line far from the
			// origin, ordinates given to four decimal places (no binary fraction), lateral deviations of
			// tenths of a thousandth: disjoint, nearly collinear, half a unit apart
			base, u, nv := make([]float64, dim), make([]float64, dim), make([]float64, dim)
			nrm := 0.0
			for k := 0; k < dim; k++ {
				base[k] = float64(500000000+r.Intn(500000000)) / 1000
				u[k] = r.Float64()*2 - 1
				nrm += u[k] * u[k]
			}
			nrm = math.Sqrt(nrm)
			if nrm < 0.01 {
				u[0], nrm = 1, math.Sqrt(nrm*nrm+1)
			}
			for k := range u {
				u[k] /= nrm
			}
			nv[0], nv[1] = -u[1], u[0]
			unit := []float64{1e3, 1e4}[r.Intn(2)] // given to the millimetre or to the tenth of it
			wobble := r.chance(1, 3)
			pos := func(p geom.Coord, t float64) {
				lat := 0.0 // straight but for the rounding of the ordinates ...
				if wobble { // ... or with deviations of a few tenths of a thousandth
					lat = float64(r.Intn(7)-3) * 1e-4
				}
				for k := 0; k < dim; k++ {
					p[k] = math.Round((base[k]+t*u[k]+lat*nv[k])*unit) / unit
				}
			}
			t0 := float64(r.Intn(3)) * 0.5
			pos(a, 0)
			pos(b, 0.5)
			pos(c, 1+t0)
			pos(d, 1.5+t0)
			if r.chance(1, 2) {
				a, b = b, a
			}
			if r.chance(1, 2) {
				c, d = d, c
			}
			if r.chance(1, 2) {
				a, b, c, d = c, d, a, b
			}
			e.tally("surveyed-alignment")
		case 0: // parallel
			for k := 0; k < dim; k++ {
				d[k] = c[k] + (b[k] - a[k])
			}
		case 1: // collinear
			for k := 0; k < dim; k++ {
				c[k] = a[k] + 2*(b[k]-a[k])
				d[k] = a[k] + 3*(b[k]-a[k])
			}
		case 2: // touching at an endpoint
			copy(c[:dim], b[:dim])
		case 3: // zero-length second segment
			copy(d[:dim], c[:dim])
		case 4: // segment parallel to the last axis
			copy(b[:dim-1], a[:dim-1])
		case 5: // nearly parallel: the second segment is the first one moved by a few units at each end
			// (long segments on the large grids: directions differ by ~1e-6 rad, closest points interior)
			for k := 0; k < dim; k++ {
				c[k] = a[k] + float64(r.Intn(7)-3)
				d[k] = b[k] + float64(r.Intn(7)-3)
			}
			if r.chance(1, 2) {
				// long and almost parallel (directions ~1e-6 rad apart or less): a segment about 10^6 long,
				// the second one a copy slid along it by some eighths of its length and then moved by a
				// unit or two at each end, so that the closest approach is at one particular end
				for k := 0; k < dim; k++ {
					a[k] = float64(r.Intn(1 << 20))
					b[k] = float64(r.Intn(1 << 20))
				}
				t := float64(r.Intn(17) - 8)
				for k := 0; k < dim; k++ {
					u := math.Floor((b[k] - a[k]) / 8)
					c[k] = a[k] + t*u + float64(r.Intn(5)-2)
					d[k] = c[k] + 8*u + float64(r.Intn(5)-2)
				}
				e.tally("long-near-parallel")
			}
		}
		if r.chance(1, 4) {
			// signed zeros: +0 and -0 are the same number
			for _, p := range []geom.Coord{a, b, c, d} {
				for k := 0; k < dim; k++ {
					if p[k] == 0 && r.chance(1, 2) {
						p[k] = math.Copysign(0, -1)
					}
				}
			}
			e.tally("signed-zeros")
		}
		if g <= 1000 && r.chance(1, 6) {
			// the same figure in small units (an exact power of two): thousandths and less
			sc := math.Ldexp(1, -8-r.Intn(23))
			for _, p := range []geom.Coord{a, b, c, d} {
				for k := 0; k < dim && k < len(p); k++ {
					p[k] *= sc
				}
			}
			e.tally("small-units")
		}
		e.tally(fmt.Sprintf("grid=%d", g))
		defer0()
		switch kind {
		case 0:
			e.tally("op=ptseg2")
			emitF("C15.ptseg2", fmt.Sprintf("(%s %s %s)", sxCoord(c), sxCoord(a), sxCoord(b)), func() float64 { return xy.DistanceFromPointToLine(c, a, b) })
			if !(a[0] == b[0] && a[1] == b[1]) {
				emitF("C15.perp2", fmt.Sprintf("(%s %s %s)", sxCoord(c), sxCoord(a), sxCoord(b)), func() float64 { return xy.PerpendicularDistanceFromPointToLine(c, a, b) })
			}
		case 1:
			stride := 2 + r.Intn(5)
			nv := 1 + r.Intn(6)
			long := r.chance(1, 12)
			if long {
				// long lines (block sizes of any scan in runs), doubling back on themselves so that the
				// nearest segment is a short joining piece between far-apart stretches
				nv = []int{64, 127, 128, 129, 130, 131, 200, 257, 300, 513, 1000}[r.Intn(11)]
				e.tally("long-linestring")
			}
			line := make([]float64, 0, nv*stride)
			leg := 1 + r.Intn(40)
			for k := 0; k < nv; k++ {
				x, y := r.Intn(g), r.Intn(g)
				if long {
					// switchback: legs of `leg` steps to the right, then one step up and back to the left
					row, col := k/leg, k%leg
					if row%2 == 1 {
						col = leg - 1 - col
					}
					x, y = 10*col, 4*row
					if r.chance(1, 10) {
						x, y = x+r.Intn(3)-1, y+r.Intn(3)-1
					}
				}
				line = append(line, float64(x), float64(y))
				for o := 2; o < stride; o++ {
					line = append(line, r.anyBits())
				}
			}
			spur := -1
			if long && r.chance(1, 3) {
				// a spur: one vertex — the last one, or one at a multiple of a power of two — far off to
				// the side, so that two long segments lead out to it and back; the query point sits on
				// or beside the way out, far from every other vertex
				spur = nv - 1
				if r.chance(1, 2) {
					blk := []int{16, 32, 64, 128, 256}[r.Intn(5)]
					if nv > blk {
						spur = blk * (1 + r.Intn((nv-1)/blk))
					}
				}
				sx, sy := float64(300+r.Intn(5000)), float64(300+r.Intn(5000))
				if r.chance(1, 2) {
					sx = -sx
				}
				if r.chance(1, 2) {
					sy = -sy
				}
				line[spur*stride] += sx
				line[spur*stride+1] += sy
				e.tally("long-linestring-spur")
			}
			if long {
				// the query point: near one of the turns, near a random vertex, or anywhere
				k := r.Intn(nv)
				c[0], c[1] = line[k*stride]+float64(r.Intn(9)-4), line[k*stride+1]+float64(r.Intn(9)-4)
				if r.chance(1, 3) {
					row := r.Intn(nv/leg + 1)
					c[0], c[1] = float64(10*(leg-1)*(row%2)+r.Intn(7)-3), float64(4*row+r.Intn(5)-2)
				}
			}
			if spur > 0 {
				// at the far vertex, or part of the way out to it
				f := []float64{1, 0.5, 0.25, 0.75}[r.Intn(4)]
				px, py := line[(spur-1)*stride], line[(spur-1)*stride+1]
				c[0] = math.Round(px + f*(line[spur*stride]-px) + float64(r.Intn(5)-2))
				c[1] = math.Round(py + f*(line[spur*stride+1]-py) + float64(r.Intn(5)-2))
			}
			e.tally("op=ptline2")
			l := layoutForStride(stride)
			emitF("C15.ptline2", fmt.Sprintf("(%d %s %s)", stride, sxCoord(c), sxCoord(line)), func() float64 { return xy.DistanceFromPointToLineString(l, c, line) })
		case 2, 3:
			e.tally("op=segseg2")
			emitF("C15.segseg2", fmt.Sprintf("(%s %s %s %s)", sxCoord(a), sxCoord(b), sxCoord(c), sxCoord(d)), func() float64 { return xy.DistanceFromLineToLine(a, b, c, d) })
		case 4:
			e.tally("op=ptseg3")
			emitF("C15.ptseg3", fmt.Sprintf("(%s %s %s)", sxCoord(c), sxCoord(a), sxCoord(b)), func() float64 { return xyz.DistancePointToLine(c, a, b) })
		default:
			e.tally("op=segseg3")
			emitF("C15.segseg3", fmt.Sprintf("(%s %s %s %s)", sxCoord(a), sxCoord(b), sxCoord(c), sxCoord(d)), func() float64 { return xyz.DistanceLineToLine(a, b, c, d) })
		}
	}
}
