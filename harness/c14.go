package main

import (
	"fmt"
	"math"
	"strings"

	geom "github.com/twpayne/go-geom"
	"github.com/twpayne/go-geom/xy"
)

func init() { generators["C14"] = genC14 }

// starRing: a simple (star-shaped) closed ring of n vertices around (cx,cy) with radii in [rmin,rmax],
// integer coordinates, given direction and start vertex; returns vertex list (closed).
func (r *Rng) starRing(cx, cy, rmin, rmax float64, n int, ccw bool) [][2]float64 {
	pts := make([][2]float64, 0, n+1)
	for k := 0; k < n; k++ {
		ang := (float64(k) + 0.1 + 0.8*r.Float64()) * 2 * math.Pi / float64(n)
		rad := rmin + (rmax-rmin)*r.Float64()
		pts = append(pts, [2]float64{math.Round(cx + rad*math.Cos(ang)), math.Round(cy + rad*math.Sin(ang))})
	}
	if !ccw {
		for i, j := 0, len(pts)-1; i < j; i, j = i+1, j-1 {
			pts[i], pts[j] = pts[j], pts[i]
		}
	}
	s := r.Intn(n)
	pts = append(pts[s:], pts[:s]...)
	return append(pts, pts[0])
}

func (r *Rng) flatOf(pts [][2]float64, stride int) []float64 {
	f := make([]float64, 0, len(pts)*stride)
	for _, p := range pts {
		f = append(f, p[0], p[1])
		for o := 2; o < stride; o++ {
			f = append(f, r.anyBits())
		}
	}
	return f
}

// withRepeats writes some vertices of a closed ring twice in a row (same x,y; the extra ordinates
// drawn afterwards differ): the ring is the same point set, traversed with pauses.
func (r *Rng) withRepeats(rg [][2]float64) [][2]float64 {
	if len(rg) < 4 || !r.chance(1, 4) {
		return rg
	}
	// the highest vertex (where the direction test looks) is the likeliest to matter
	top := 0
	for i, p := range rg[:len(rg)-1] {
		if p[1] > rg[top][1] {
			top = i
		}
	}
	out := make([][2]float64, 0, len(rg)+4)
	for i, p := range rg {
		out = append(out, p)
		if i < len(rg)-1 && (i == top && r.chance(2, 3) || r.chance(1, 6)) {
			out = append(out, p)
			if r.chance(1, 4) {
				out = append(out, p)
			}
		}
	}
	return out
}

func runSx(stride int, flat []float64) string { return fmt.Sprintf("(%d %s)", stride, sxCoord(flat)) }

func okPt(c geom.Coord) string { return fmt.Sprintf("(ok (%s %s))", hexF(c[0]), hexF(c[1])) }

func genC14(r *Rng, e *Emitter, n int) {
	for i := 0; i < n; i++ {
		stride := 2 + r.Intn(5)
		l := layoutForStride(stride)
		offx := float64(r.Intn(2000001) - 1000000)
		offy := float64(r.Intn(2000001) - 1000000)
		if r.chance(1, 3) {
			offx, offy = 0, 0
		}
		switch k := r.Intn(10); {
		case k < 2: // points
			m := 1 + r.Intn(10)
			pts := make([][2]float64, m)
			for j := range pts {
				pts[j] = [2]float64{offx + float64(r.Intn(100001)), offy + float64(r.Intn(100001))}
			}
			flat := r.flatOf(pts, stride)
			e.tally("op=points")
			var pt geom.Coord
			which := r.Intn(5)
			// for the variadic entry point the points are views into one shared array (as
			// MultiPoint.Point(i) hands them out), passed in any order; the input is described in
			// the order passed
			perm := make([]int, m)
			for j := range perm {
				perm[j] = j
			}
			inFlat := flat
			if which == 3 {
				for j := m - 1; j > 0; j-- {
					q := r.Intn(j + 1)
					perm[j], perm[q] = perm[q], perm[j]
				}
				inFlat = nil
				for _, j := range perm {
					inFlat = append(inFlat, flat[j*stride:(j+1)*stride]...)
				}
			}
			// ... and each point may have a layout of its own (the mean is of X and Y)
			mixed := which == 3 && r.chance(1, 2)
			inStride := stride
			var mixedPts []*geom.Point
			if mixed {
				inStride = 2
				inFlat = nil
				for _, j := range perm {
					st := 2 + r.Intn(5)
					c := []float64{pts[j][0], pts[j][1]}
					for o := 2; o < st; o++ {
						c = append(c, r.anyBits())
					}
					lay := layoutForStride(st)
					if st == 3 && r.chance(1, 2) {
						lay = geom.XYM
					}
					mixedPts = append(mixedPts, geom.NewPointFlat(lay, c))
					inFlat = append(inFlat, pts[j][0], pts[j][1])
				}
				e.tally("points-of-mixed-layouts")
			}
			e.emit("C14.points", runSx(inStride, inFlat), guard(func() string {
				if mixed {
					pt = xy.PointsCentroid(mixedPts[0], mixedPts[1:]...)
					return okPt(pt)
				}
				switch which {
				case 0:
					pt = xy.MultiPointCentroid(geom.NewMultiPointFlat(l, flat))
				case 1, 2:
					// the same points as a MultiPoint with EMPTY members in between (an EMPTY member is
					// not a point and has no part in the mean)
					var ends []int
					for j := 1; j <= m; j++ {
						for r.chance(1, 3) {
							ends = append(ends, (j-1)*stride)
						}
						ends = append(ends, j*stride)
					}
					for r.chance(1, 3) {
						ends = append(ends, m*stride)
					}
					mp := geom.NewMultiPointFlat(l, flat, geom.NewMultiPointFlatOptionWithEnds(ends))
					if which == 1 {
						pt = xy.MultiPointCentroid(mp)
					} else {
						c, err := xy.Centroid(mp)
						if err != nil {
							return sxErr(err)
						}
						pt = c
					}
				case 3:
					ps := make([]*geom.Point, m)
					for j := range ps {
						ps[j] = geom.NewPointFlat(l, flat[perm[j]*stride:(perm[j]+1)*stride])
					}
					pt = xy.PointsCentroid(ps[0], ps[1:]...)
				default:
					pt = xy.PointsCentroidFlat(l, flat)
				}
				return okPt(pt)
			}))
			if pt != nil {
				e.watch("C14.points", runSx(inStride, inFlat), func() string { return okPt(pt) })
			}
		case k < 4: // lines
			nl := 1 + r.Intn(3)
			var runs []string
			var lines []*geom.LineString
			var all []float64
			var ends []int
			for j := 0; j < nl; j++ {
				m := 2 + r.Intn(5)
				pts := make([][2]float64, m)
				for q := range pts {
					pts[q] = [2]float64{offx + float64(r.Intn(100001)), offy + float64(r.Intn(100001))}
				}
				if pts[0] == pts[1] {
					pts[1][0]++
				}
				flat := r.flatOf(pts, stride)
				runs = append(runs, runSx(stride, flat))
				ll := l
				if stride == 3 && r.chance(1, 2) {
					// lines of one call may be labelled differently (XYZ next to XYM): the mean is of X and Y
					ll = []geom.Layout{geom.XYZ, geom.XYM}[r.Intn(2)]
					e.tally("lines-of-mixed-layouts")
				}
				lines = append(lines, geom.NewLineStringFlat(ll, flat))
				all = append(all, flat...)
				ends = append(ends, len(all))
			}
			e.tally("op=lines")
			var lpt geom.Coord
			if r.chance(1, 4) {
				e.tally("lines-incremental")
				calc := xy.NewLineCentroidCalculator(l)
				for j := range lines {
					e.emit("C14.lines", "("+strings.Join(runs[:j+1], " ")+")", guard(func() string {
						lc := lines[j].Clone()
						calc.AddLine(lc)
						if fc := lc.FlatCoords(); j%2 == 0 {
							for q := range fc {
								fc[q] = -7777.5
							}
						}
						if j%2 == 1 {
							calc.GetCentroid()
						}
						return okPt(calc.GetCentroid())
					}))
				}
			}
			e.emit("C14.lines", "("+strings.Join(runs, " ")+")", guard(func() string {
				if r.chance(1, 2) {
					lpt = xy.LinesCentroid(lines[0], lines[1:]...)
				} else {
					lpt = xy.MultiLineCentroid(geom.NewMultiLineStringFlat(l, all, ends))
				}
				return okPt(lpt)
			}))
			if lpt != nil {
				e.watch("C14.lines", "("+strings.Join(runs, " ")+")", func() string { return okPt(lpt) })
			}
		case k < 8: // polygons with holes, multi-polygons with disjoint members
			np := 1 + r.Intn(3)
			allZero := r.chance(1, 12)
			var polys []*geom.Polygon
			var psx []string
			var allFlat []float64
			var endss [][]int
			for j := 0; j < np; j++ {
				R := float64(1000 + r.Intn(20000))
				cx := offx + float64(j)*100000 + 50000
				cy := offy + 50000
				rings := [][][2]float64{r.starRing(cx, cy, R, 2*R, 8+r.Intn(8), r.chance(1, 2))}
				nh := r.Intn(3)
				for h := 0; h < nh; h++ {
					hx := cx + (float64(h)-0.5)*0.4*R
					rings = append(rings, r.starRing(hx, cy, 0.03*R+2, 0.08*R+3, 4+r.Intn(5), r.chance(1, 2)))
				}
				if np == 1 && r.chance(1, 4) {
					// (alone, so that the fan's base point is one of its own vertices and every intermediate
					// product stays exact, as the property's domain requires)
					// lattice sliver: a triangle of area 1/2 (or 1) stretched over the whole grid — positive
					// area, however small compared with its perimeter
					ux, uy, vx, vy := r.unimodular(5 + r.Intn(13))
					if r.chance(1, 2) {
						vx, vy = 2*vx+ux, 2*vy+uy // area 1
					}
					a := [2]float64{cx, cy}
					b := [2]float64{cx + float64(ux), cy + float64(uy)}
					c := [2]float64{cx + float64(ux+vx), cy + float64(uy+vy)}
					tri := [][2]float64{a, b, c}
					st := r.Intn(3)
					tri = [][2]float64{tri[st], tri[(st+1)%3], tri[(st+2)%3]}
					if r.chance(1, 2) {
						tri[1], tri[2] = tri[2], tri[1]
					}
					rings = [][][2]float64{{tri[0], tri[1], tri[2], tri[0]}}
					e.tally("sliver-polygon")
				}
				if r.chance(1, 12) || allZero { // zero-area polygon: falls back to the length-weighted centroid
					a := [2]float64{cx, cy}
					b := [2]float64{cx + 10, cy + 20}
					c := [2]float64{cx + 20, cy + 40}
					rings = [][][2]float64{{a, b, c, a}}
					// ... with interior rings that have no area either: every ring's length counts
					for h := r.Intn(3); h > 0; h-- {
						p0 := [2]float64{cx + float64(r.Intn(40)), cy + float64(r.Intn(80))}
						p1 := [2]float64{p0[0] + float64(1+r.Intn(30)), p0[1] + float64(r.Intn(30))}
						p2 := [2]float64{2*p1[0] - p0[0], 2*p1[1] - p0[1]}
						rings = append(rings, [][2]float64{p0, p1, p2, p0})
						e.tally("zero-area-hole")
					}
					e.tally("zero-area-polygon")
				}
				var flat []float64
				var ends []int
				var rsx []string
				for _, rg := range rings {
					f := r.flatOf(r.withRepeats(rg), stride)
					rsx = append(rsx, runSx(stride, f))
					flat = append(flat, f...)
					ends = append(ends, len(flat))
				}
				polys = append(polys, geom.NewPolygonFlat(l, flat, ends))
				psx = append(psx, "("+strings.Join(rsx, " ")+")")
				base := len(allFlat)
				allFlat = append(allFlat, flat...)
				es := make([]int, len(ends))
				for q, x := range ends {
					es[q] = x + base
				}
				endss = append(endss, es)
				e.tally(fmt.Sprintf("holes=%d", len(rings)-1))
			}
			e.tally("op=polys")
			var ppt geom.Coord
			if r.chance(1, 4) {
				// one calculator used as the polygons arrive: asked after each polygon, it answers for the
				// polygons added so far
				e.tally("polys-incremental")
				calc := xy.NewAreaCentroidCalculator(l)
				var added [][]float64
				for j := range polys {
					e.emit("C14.polys", "("+strings.Join(psx[:j+1], " ")+")", guard(func() string {
						// the polygon is handed over from a buffer the caller reuses straight away (polygons
						// streamed through one array): what was added is its value at the time of the call
						pc := polys[j].Clone()
						calc.AddPolygon(pc)
						added = append(added, pc.FlatCoords())
						if j == len(polys)-1 {
							// (once the last polygon is in: the calculator reads its first polygon's first
							// vertex again, as the base of its fan, whenever another polygon is added)
							for _, fc := range added {
								for q := range fc {
									fc[q] = -7777.5
								}
							}
						}
						if j%2 == 1 && j < len(polys)-1 {
							calc.GetCentroid() // asking twice changes nothing
						}
						return okPt(calc.GetCentroid())
					}))
				}
			}
			e.emit("C14.polys", "("+strings.Join(psx, " ")+")", guard(func() string {
				switch r.Intn(3) {
				case 0:
					ppt = xy.PolygonsCentroid(polys[0], polys[1:]...)
				case 1:
					ppt = xy.MultiPolygonCentroid(geom.NewMultiPolygonFlat(l, allFlat, endss))
				default:
					c, err := xy.Centroid(geom.NewMultiPolygonFlat(l, allFlat, endss))
					if err != nil {
						return "(err other)"
					}
					ppt = c
				}
				return okPt(ppt)
			}))
			if ppt != nil {
				e.watch("C14.polys", "("+strings.Join(psx, " ")+")", func() string { return okPt(ppt) })
			}
		default: // ring direction and signed area of a simple ring
			R := float64(100 + r.Intn(50000))
			rg := r.starRing(offx, offy, R, 2*R, 3+r.Intn(10), r.chance(1, 2))
			if r.chance(1, 4) { // axis-aligned rectangle: horizontal top edge, start vertex anywhere incl. mid-edge
				w, h := float64(1+r.Intn(1000)), float64(1+r.Intn(1000))
				rect := [][2]float64{{offx, offy}, {offx + w, offy}, {offx + w, offy + h}, {offx + w/2 - math.Mod(w/2, 1), offy + h}, {offx, offy + h}}
				if r.chance(1, 2) {
					for a, b := 0, len(rect)-1; a < b; a, b = a+1, b-1 {
						rect[a], rect[b] = rect[b], rect[a]
					}
				}
				s := r.Intn(len(rect))
				rect = append(rect[s:], rect[:s]...)
				rg = append(rect, rect[0])
				e.tally("ring=rectangle-with-midpoint")
			}
			flat := r.flatOf(r.withRepeats(rg), stride)
			e.tally("op=ring")
			e.emit("C14.ring", runSx(stride, flat), guard(func() string {
				return fmt.Sprintf("(%v %s)", xy.IsRingCounterClockwise(l, flat), hexF(xy.SignedArea(l, flat)))
			}))
		}
	}
}
