package main

import (
	"fmt"
	"math"
	"strings"

	geom "github.com/twpayne/go-geom"
	"github.com/twpayne/go-geom/xy"
)

func init() { generators["C13"] = genC13 }

func hullObs(stride int, g geom.T) string {
	pr := func(kind string, flat []float64) string {
		var cs []string
		for i := 0; i+stride <= len(flat); i += stride {
			cs = append(cs, sxCoord(flat[i:i+stride]))
		}
		return fmt.Sprintf("(%s (%s))", kind, strings.Join(cs, " "))
	}
	switch g := g.(type) {
	case nil:
		return "(nil)"
	case *geom.Point:
		return pr("point", g.FlatCoords())
	case *geom.LineString:
		return pr("line", g.FlatCoords())
	case *geom.Polygon:
		return pr("polygon", g.FlatCoords())
	}
	return "(other ())"
}

func emitHull(e *Emitter, r *Rng, stride int, flat []float64) {
	l := layoutForStride(stride)
	if r.negZeros(flat, stride) {
		e.tally("signed-zeros")
	}
	if stride == 3 && r.chance(1, 2) {
		l = geom.XYM
	}
	viaFlat := r.chance(1, 2)
	done := false
	var g geom.T
	mod := "unmodified"
	// the hull geometry is kept and rendered again after later calls: it must stay the hull of its
	// own input (a recycled scratch buffer would let a later call overwrite it)
	e.pending("C13.hull", fmt.Sprintf("(%d %s)", stride, sxCoord(flat)))
	e.emitR("C13.hull", fmt.Sprintf("(%d %s)", stride, sxCoord(flat)), func() string {
		if !done {
			// the input is a window of a longer array (as a ring of a polygon is): what lies after it in
			// the caller's array is the caller's as well
			backing := make([]float64, len(flat)+2*stride)
			copy(backing, flat)
			for i := len(flat); i < len(backing); i++ {
				backing[i] = -12345.5
			}
			in := backing[:len(flat)]
			if viaFlat {
				g = xy.ConvexHullFlat(l, in)
			} else {
				// the same points held by any geometry type: one line, the rings of a polygon, the parts
				// of a multi-geometry (a GeometryCollection has no flat coordinates and is not accepted)
				np := len(in) / stride
				cut := func(k int) []int { // k parts, every point in exactly one
					ends := make([]int, 0, k)
					for j := 1; j < k; j++ {
						ends = append(ends, (np*j/k)*stride)
					}
					return append(ends, len(in))
				}
				switch pick := r.Intn(6); {
				case pick == 0 && np >= 2:
					g = xy.ConvexHull(geom.NewPolygonFlat(l, in, cut(2+r.Intn(2))))
				case pick == 1:
					g = xy.ConvexHull(geom.NewMultiLineStringFlat(l, in, cut(1+r.Intn(3))))
				case pick == 2:
					g = xy.ConvexHull(geom.NewMultiPointFlat(l, in))
				case pick == 3 && np >= 2:
					ends := cut(2 + r.Intn(2))
					g = xy.ConvexHull(geom.NewMultiPolygonFlat(l, in, [][]int{ends[:1], ends[1:]}))
				default:
					g = xy.ConvexHull(geom.NewLineStringFlat(l, in))
				}
			}
			for i := range in {
				if in[i] != flat[i] && !(in[i] != in[i] && flat[i] != flat[i]) {
					mod = "modified"
				}
			}
			for i := len(flat); i < len(backing); i++ {
				if backing[i] != -12345.5 {
					mod = "modified"
				}
			}
			done = true
		}
		return fmt.Sprintf("(%s %s)", hullObs(stride, g), mod)
	})
}

func genC13(r *Rng, e *Emitter, n int) {
	// regression corpus: repaired D4 inputs
	emitHull(e, r, 2, []float64{1, 1, 1, 1, 2, 2})
	emitHull(e, r, 2, []float64{1, 1, 1, 1})
	// exhaustive: every sequence of 1..4 points on the 3x3 grid (thorough: up to 5)
	maxLen := 4
	if n >= 50000 {
		maxLen = 5
	}
	for k := 1; k <= maxLen; k++ {
		total := 1
		for i := 0; i < k; i++ {
			total *= 9
		}
		for t := 0; t < total; t++ {
			flat := make([]float64, 0, 2*k)
			for i, v := 0, t; i < k; i, v = i+1, v/9 {
				flat = append(flat, float64(v%9%3), float64(v%9/3))
			}
			emitHull(e, r, 2, flat)
		}
	}
	e.tally(fmt.Sprintf("exhaustive-3x3-upto-%d", maxLen))
	// points handed over in drawing order (a ring somebody traced): a convex ring in either direction,
	// the same vertices visited every second / third one (a star: the path turns the same way at every
	// vertex and winds round more than once), a limacon with an inner loop; more than 50 of them
	for i := 0; i < n/60+8; i++ {
		stride := 2 + r.Intn(5)
		m := 51 + r.Intn(80)
		R := float64(int(1)<<(10+r.Intn(10))) * (1 + r.Float64())
		step, kind := 1, r.Intn(4)
		switch kind {
		case 1:
			step = 2
			if m%2 == 0 {
				m++
			}
		case 2:
			step = 3
			for m%3 == 0 {
				m++
			}
		}
		ph := r.Float64() * 2 * math.Pi
		dir := float64(1 - 2*r.Intn(2))
		flat := make([]float64, 0, m*stride)
		for k := 0; k < m; k++ {
			var x, y float64
			if kind == 3 { // limacon r = 2 + cos(t/2), t over two turns
				t := 4 * math.Pi * float64(k) / float64(m)
				rr := R * (2 + math.Cos(t/2)) / 3
				x, y = rr*math.Cos(dir*t+ph), rr*math.Sin(dir*t+ph)
			} else {
				t := 2 * math.Pi * float64(k*step%m) / float64(m)
				x, y = R*math.Cos(dir*t+ph), R*math.Sin(dir*t+ph)
			}
			flat = append(flat, math.Round(x), math.Round(y))
			for o := 2; o < stride; o++ {
				flat = append(flat, float64(r.Intn(1000)))
			}
		}
		e.tally(fmt.Sprintf("drawing-order-kind=%d", kind))
		emitHull(e, r, stride, flat)
	}
	// very large inputs (2^14 distinct points and more, not a round number): a dense cloud, sixteen far
	// points around it on a circle — eight in the compass directions, eight in between — the
	// in-between ones last in the input
	{
		sizes := []int{16384 + 1 + r.Intn(4000)}
		if n >= 50000 {
			sizes = append(sizes, 16385, 16391, 20001, 32771)
		}
		for _, size := range sizes {
			stride := 2 + r.Intn(2)
			flat := make([]float64, 0, (size+16)*stride)
			add := func(x, y float64) {
				flat = append(flat, x, y)
				for o := 2; o < stride; o++ {
					flat = append(flat, float64(len(flat)))
				}
			}
			seen := map[[2]int]bool{}
			for len(seen) < size {
				x, y := r.Intn(1400)-700, r.Intn(1400)-700
				if !seen[[2]int{x, y}] {
					seen[[2]int{x, y}] = true
					add(float64(x), float64(y))
				}
			}
			R := 100000.0
			for k := 0; k < 8; k++ {
				a := float64(k) * math.Pi / 4
				add(math.Round(R*math.Cos(a)), math.Round(R*math.Sin(a)))
			}
			for k := 0; k < 8; k++ {
				a := (float64(k) + 0.3 + 0.4*r.Float64()) * math.Pi / 4
				add(math.Round(R*math.Cos(a)), math.Round(R*math.Sin(a)))
			}
			e.tally("very-large-input")
			emitHull(e, r, stride, flat)
		}
	}
	grids := []int{3, 5, 15, 200, 1 << 20}
	for i := 0; i < n; i++ {
		stride := 2 + r.Intn(5)
		g := grids[r.Intn(len(grids))]
		np := 1 + r.Intn(12)
		switch r.Intn(5) {
		case 0:
			np = 45 + r.Intn(12) // around the 50-point threshold
		case 1:
			np = 51 + r.Intn(150)
		}
		shape := r.Intn(5)
		flat := make([]float64, 0, np*stride)
		// (only below the 50-point threshold: the interior-point reduction above it locates points in
		// the octagon with rounded coordinate differences, exact on integer grids only — the property's
		// domain — so an extreme point 1e-17 outside an octagon edge may be dropped there)
		fractional := g <= 200 && np <= 50 && r.chance(1, 3)
		fscale := []float64{0.1, 0.7, 1.0 / 3, 0.01, 1.1}[r.Intn(5)]
		foff := []float64{0, 0.1, 0.3, 17.3}[r.Intn(4)]
		// thin cloud: lattice points hugging a long segment (any of eight orientations), so that the two
		// ends are the only extremes in all eight octagon directions while the points are not collinear
		tw, th := 1+r.Intn(g), 1+r.Intn(g)
		if r.chance(1, 2) {
			th = tw + 1 + r.Intn(g) // steeper than 45 degrees
		}
		tsx, tsy := 1-2*r.Intn(2), 1-2*r.Intn(2)
		// a random line for the collinear shape: horizontal, vertical, diagonal or general direction
		lx0, ly0, ldx, ldy := r.Intn(5), r.Intn(5), r.Intn(4), r.Intn(4)
		if ldx == 0 && ldy == 0 {
			ldx = 1
		}
		// whole numbers of either sign over the whole 32-bit range (differences of 33 bits, products of 66)
		wide := g == 1<<20 && shape != 4 && r.chance(1, 2)
		if wide {
			e.tally("signed-32-bit-range")
		}
		for k := 0; k < np; k++ {
			x, y := r.Intn(g), r.Intn(g)
			if wide {
				x, y = int(r.Int63n(1<<32)-1<<31), int(r.Int63n(1<<32)-1<<31)
				if r.chance(1, 3) { // near the corners and edges of the range
					x = []int{-1 << 31, 1<<31 - 1, -2000000000, 2000000000}[r.Intn(4)] + r.Intn(3) - 1
				}
				if r.chance(1, 3) {
					y = []int{-1 << 31, 1<<31 - 1, -2000000000, 2000000000}[r.Intn(4)] + r.Intn(3) - 1
				}
			}
			switch shape {
			case 0: // collinear
				x, y = lx0+x*ldx, ly0+x*ldy
			case 4: // thin cloud around the segment (0,th)-(tw,0), reflected
				switch {
				case k == 0:
					x, y = 0, th
				case k == 1:
					x, y = tw, 0
				default:
					t := r.Intn(1001)
					x = tw * t / 1000
					y = th - th*t/1000
					if r.chance(1, 8) { // a little off the line, towards the inside
						if r.chance(1, 2) {
							x++
						} else {
							y++
						}
						if x > tw {
							x = tw
						}
						if y > th {
							y = th
						}
					}
				}
				x, y = tsx*x, tsy*y
			case 1: // on a circle-ish ring (many hull vertices), plus interior duplicates
				if k%3 != 0 {
					x, y = g/2+int(float64(g/2)*cosTab[k%16]), g/2+int(float64(g/2)*sinTab[k%16])
				}
			}
			fx, fy := float64(x), float64(y)
			if fractional {
				// tenths, thirds ...: ordinates that are not whole numbers, so that differences between
				// points round and "collinear" holds only up to an ulp (the exact hull is still defined)
				fx, fy = fx*fscale+foff, fy*fscale-foff
			}
			flat = append(flat, fx, fy)
			for o := 2; o < stride; o++ {
				flat = append(flat, float64(r.Intn(1000))) // extra ordinates identify the input coordinate
			}
		}
		if fractional {
			e.tally("fractional-ordinates")
		}
		e.tally(fmt.Sprintf("grid=%d", g))
		if np > 50 {
			e.tally("points>50")
		}
		emitHull(e, r, stride, flat)
	}
}

var cosTab = [16]float64{1, 0.92, 0.71, 0.38, 0, -0.38, -0.71, -0.92, -1, -0.92, -0.71, -0.38, 0, 0.38, 0.71, 0.92}
var sinTab = [16]float64{0, 0.38, 0.71, 0.92, 1, 0.92, 0.71, 0.38, 0, -0.38, -0.71, -0.92, -1, -0.92, -0.71, -0.38}
