package main

import (
	"fmt"
	"math"

	geom "github.com/twpayne/go-geom"
)

func init() { generators["C01"] = genC01 }

var c01Layouts = []geom.Layout{geom.NoLayout, geom.XY, geom.XYZ, geom.XYM, geom.XYZM, 5, 6, 7, 9}

func (r *Rng) layoutAny() geom.Layout {
	if r.chance(1, 12) {
		return geom.NoLayout
	}
	return c01Layouts[1+r.Intn(len(c01Layouts)-1)]
}

// genCoord: a coordinate of the given length, arbitrary bit patterns.
func (r *Rng) genCoord(n int) geom.Coord {
	c := make(geom.Coord, n)
	for i := range c {
		c[i] = r.anyBits()
	}
	return c
}

// size at one nesting level: P(empty)=1/4, else 1..4
func (r *Rng) levelSize() int {
	if r.chance(1, 4) {
		return 0
	}
	return 1 + r.Intn(4)
}

type shapeCtx struct {
	r      *Rng
	stride int
	// bad: leaf index -> wrong length for that leaf (empty: well formed)
	bad  map[int]int
	leaf int
	hit  int
}

func (s *shapeCtx) coord() geom.Coord {
	n := s.stride
	if m, ok := s.bad[s.leaf]; ok {
		n = m
		s.hit++
	}
	s.leaf++
	return s.r.genCoord(n)
}

// malformedPlan: one wrong-length leaf, several, or a compensating pair whose lengths
// sum to 2*stride (total length still a multiple of the stride).
func (r *Rng) malformedPlan(stride int) map[int]int {
	bad := map[int]int{}
	wrong := func() int {
		n := stride
		for n == stride {
			n = r.Intn(stride + 3)
		}
		return n
	}
	at := r.Intn(6)
	switch r.Intn(3) {
	case 0:
		bad[at] = wrong()
	case 1:
		for k := 1 + r.Intn(3); k > 0; k-- {
			bad[r.Intn(8)] = wrong()
		}
	default:
		d := 1 + r.Intn(2)
		if d > stride {
			d = stride
		}
		if d == 0 {
			bad[at] = wrong()
		} else {
			gap := 1 + r.Intn(2)
			if r.chance(1, 2) {
				bad[at], bad[at+gap] = stride+d, stride-d
			} else {
				bad[at], bad[at+gap] = stride-d, stride+d
			}
		}
	}
	return bad
}

func (s *shapeCtx) coords1() []geom.Coord {
	k := s.r.levelSize()
	if s.stride == 0 && !s.r.chance(1, 8) {
		k = 0
	}
	cs := make([]geom.Coord, k)
	for i := range cs {
		cs[i] = s.coord()
	}
	return cs
}
func (s *shapeCtx) coords2() [][]geom.Coord {
	cs := make([][]geom.Coord, s.r.levelSize())
	for i := range cs {
		cs[i] = s.coords1()
	}
	return cs
}
func (s *shapeCtx) coords3() [][][]geom.Coord {
	cs := make([][][]geom.Coord, s.r.levelSize())
	for i := range cs {
		cs[i] = s.coords2()
	}
	return cs
}
func (s *shapeCtx) mcoords() []geom.Coord {
	cs := make([]geom.Coord, s.r.levelSize()+s.r.Intn(2))
	for i := range cs {
		if s.r.chance(1, 3) || (s.stride == 0 && !s.r.chance(1, 8)) {
			cs[i] = nil
		} else {
			cs[i] = s.coord()
		}
	}
	return cs
}

func genC01(r *Rng, e *Emitter, n int) {
	for i := 0; i < n; i++ {
		l := r.layoutAny()
		s := &shapeCtx{r: r, stride: l.Stride()}
		malformed := r.chance(1, 6)
		if malformed {
			s.bad = r.malformedPlan(l.Stride())
		}
		kind := r.Intn(7)
		e.tally(fmt.Sprintf("layout=%d", int(l)))
		switch kind {
		case 0:
			c := s.coord()
			if r.chance(1, 4) { // signed zeros / NaNs only: equal to a fresh point under a semantic comparison
				for i := range c {
					c[i] = math.Float64frombits(specialBits[r.Intn(7)])
				}
			}
			var first geom.Coord
			if r.chance(1, 3) { // SetCoords on a point that already holds a (similar) coordinate
				first = r.genCoord(l.Stride())
				if r.chance(1, 2) && len(c) >= len(first) {
					copy(first, c)
				}
				for i := range first {
					if r.chance(1, 3) {
						first[i] = math.Float64frombits(specialBits[r.Intn(7)])
					}
				}
				e.tally("point-set-twice")
			}
			e.tally("type=Point")
			e.emit("C01.set.pt", fmt.Sprintf("(%d %s)", int(l), sxCoord(c)), guard(func() string {
				p := geom.NewPoint(l)
				if first != nil {
					p.SetCoords(first)
				}
				g, err := p.SetCoords(c)
				if err != nil {
					return sxErr(err)
				}
				rb := guard(func() string { return "(ok " + sxCoord(g.Coords()) + ")" })
				return "(ok (" + sxG1(g.Layout(), g.Stride(), g.FlatCoords(), g.SRID()) + " " + rb + "))"
			}))
		case 1, 2:
			cs := s.coords1()
			op := "C01.set.line"
			if kind == 2 {
				op = "C01.set.ring"
			}
			e.tally("type=" + op[8:])
			e.emit(op, fmt.Sprintf("(%d %s)", int(l), sxCoords1(cs)), guard(func() string {
				if kind == 1 {
					g, err := geom.NewLineString(l).SetCoords(cs)
					if err != nil {
						return sxErr(err)
					}
					rb := guard(func() string { return "(ok " + sxCoords1(g.Coords()) + ")" })
					return "(ok (" + sxG1(g.Layout(), g.Stride(), g.FlatCoords(), g.SRID()) + " " + rb + "))"
				}
				g, err := geom.NewLinearRing(l).SetCoords(cs)
				if err != nil {
					return sxErr(err)
				}
				rb := guard(func() string { return "(ok " + sxCoords1(g.Coords()) + ")" })
				return "(ok (" + sxG1(g.Layout(), g.Stride(), g.FlatCoords(), g.SRID()) + " " + rb + "))"
			}))
		case 3, 4:
			cs := s.coords2()
			op := "C01.set.poly"
			if kind == 4 {
				op = "C01.set.mls"
			}
			e.tally("type=" + op[8:])
			e.emit(op, fmt.Sprintf("(%d %s)", int(l), sxCoords2(cs)), guard(func() string {
				if kind == 3 {
					g, err := geom.NewPolygon(l).SetCoords(cs)
					if err != nil {
						return sxErr(err)
					}
					rb := guard(func() string { return "(ok " + sxCoords2(g.Coords()) + ")" })
					return "(ok (" + sxG2(g.Layout(), g.Stride(), g.FlatCoords(), g.Ends(), g.SRID()) + " " + rb + "))"
				}
				g, err := geom.NewMultiLineString(l).SetCoords(cs)
				if err != nil {
					return sxErr(err)
				}
				rb := guard(func() string { return "(ok " + sxCoords2(g.Coords()) + ")" })
				return "(ok (" + sxG2(g.Layout(), g.Stride(), g.FlatCoords(), g.Ends(), g.SRID()) + " " + rb + "))"
			}))
		case 5:
			cs := s.coords3()
			e.tally("type=mpoly")
			e.emit("C01.set.mpoly", fmt.Sprintf("(%d %s)", int(l), sxCoords3(cs)), guard(func() string {
				g, err := geom.NewMultiPolygon(l).SetCoords(cs)
				if err != nil {
					return sxErr(err)
				}
				rb := guard(func() string { return "(ok " + sxCoords3(g.Coords()) + ")" })
				return "(ok (" + sxG3(g.Layout(), g.Stride(), g.FlatCoords(), g.Endss(), g.SRID()) + " " + rb + "))"
			}))
		case 6:
			cs := s.mcoords()
			e.tally("type=mpoint")
			e.emit("C01.set.mpoint", fmt.Sprintf("(%d %s)", int(l), sxMCoords(cs)), guard(func() string {
				g, err := geom.NewMultiPoint(l).SetCoords(cs)
				if err != nil {
					return sxErr(err)
				}
				rb := guard(func() string { return "(ok " + sxMCoords(g.Coords()) + ")" })
				return "(ok (" + sxG2(g.Layout(), g.Stride(), g.FlatCoords(), g.Ends(), g.SRID()) + " " + rb + "))"
			}))
		}
		if s.hit > 0 {
			e.tally(fmt.Sprintf("malformed-leaves=%d", s.hit))
		}
	}
}
