package main

import (
	"encoding/binary"
	"fmt"
	"math"

	geom "github.com/twpayne/go-geom"
	"github.com/twpayne/go-geom/encoding/wkb"
	"github.com/twpayne/go-geom/encoding/wkbcommon"
)

func init() { generators["C01"] = genC01 }

var c01Layouts = []geom.Layout{geom.NoLayout, geom.XY, geom.XYZ, geom.XYM, geom.XYZM, 5, 6, 7, 9}

func (r *Rng) layoutAny() geom.Layout {
	if r.chance(1, 12) {
		return geom.NoLayout
	}
	return c01Layouts[1+r.Intn(len(c01Layouts)-1)]
}

// genCoord: a coordinate of the given length, arbitrary bit patterns.
// rejected: the error of a refused SetCoords — unless the receiver was left in a state that is not
// well formed (stride = layout's, whole coordinates, end offsets aligned, ordered and finishing at
// the end of the coordinates), which is reported as a different error.
func rejected(err error, g geom.T) string {
	st := g.Stride()
	flat := g.FlatCoords()
	bad := st != g.Layout().Stride() || (st > 0 && len(flat)%st != 0) || (st == 0 && len(flat) != 0)
	checkEnds := func(ends []int, from int) int {
		for _, e := range ends {
			if e < from || (st > 0 && e%st != 0) || e > len(flat) {
				bad = true
			}
			from = e
		}
		return from
	}
	switch g := g.(type) {
	case *geom.Polygon, *geom.MultiLineString, *geom.MultiPoint:
		ends := g.Ends()
		if last := checkEnds(ends, 0); len(ends) > 0 && last != len(flat) {
			bad = true
		}
		if len(ends) == 0 && len(flat) != 0 {
			bad = true
		}
	case *geom.MultiPolygon:
		last := 0
		for _, ends := range g.Endss() {
			last = checkEnds(ends, last)
		}
		if last != len(flat) {
			bad = true
		}
	}
	if bad {
		return "(err other)"
	}
	return sxErr(err)
}

func (r *Rng) genCoord(n int) geom.Coord {
	c := make(geom.Coord, n)
	if r.chance(1, 12) {
		// every ordinate the same special value: all zero, all the canonical NaN (the placeholder that
		// WKB uses for an empty point), all +Inf ...
		v := math.Float64frombits(specialBits[r.Intn(len(specialBits))])
		for i := range c {
			c[i] = v
		}
		return c
	}
	for i := range c {
		c[i] = r.anyBits()
	}
	return c
}

// size at one nesting level: P(empty)=1/4, else 1..4
func (r *Rng) levelSize() int {
	if r.chance(1, 4) {
		return 0
	}
	return 1 + r.Intn(4)
}

type shapeCtx struct {
	r      *Rng
	stride int
	// bad: leaf index -> wrong length for that leaf (empty: well formed)
	bad  map[int]int
	leaf int
	hit  int
}

func (s *shapeCtx) coord() geom.Coord {
	n := s.stride
	if m, ok := s.bad[s.leaf]; ok {
		n = m
		s.hit++
	}
	s.leaf++
	return s.r.genCoord(n)
}

// malformedPlan: one wrong-length leaf, several, or a compensating pair whose lengths
// sum to 2*stride (total length still a multiple of the stride).
func (r *Rng) malformedPlan(stride int) map[int]int {
	bad := map[int]int{}
	wrong := func() int {
		n := stride
		for n == stride {
			n = r.Intn(stride + 3)
		}
		return n
	}
	at := r.Intn(6)
	switch r.Intn(3) {
	case 0:
		bad[at] = wrong()
	case 1:
		for k := 1 + r.Intn(3); k > 0; k-- {
			bad[r.Intn(8)] = wrong()
		}
	default:
		d := 1 + r.Intn(2)
		if d > stride {
			d = stride
		}
		if d == 0 {
			bad[at] = wrong()
		} else {
			gap := 1 + r.Intn(2)
			if r.chance(1, 2) {
				bad[at], bad[at+gap] = stride+d, stride-d
			} else {
				bad[at], bad[at+gap] = stride-d, stride+d
			}
		}
	}
	return bad
}

func (s *shapeCtx) coords1() []geom.Coord {
	k := s.r.levelSize()
	if s.stride == 0 && !s.r.chance(1, 8) {
		k = 0
	}
	cs := make([]geom.Coord, k)
	for i := range cs {
		cs[i] = s.coord()
	}
	return cs
}
func (s *shapeCtx) coords2() [][]geom.Coord {
	cs := make([][]geom.Coord, s.r.levelSize())
	for i := range cs {
		cs[i] = s.coords1()
	}
	return cs
}
func (s *shapeCtx) coords3() [][][]geom.Coord {
	cs := make([][][]geom.Coord, s.r.levelSize())
	for i := range cs {
		cs[i] = s.coords2()
	}
	return cs
}
func (s *shapeCtx) mcoords() []geom.Coord {
	cs := make([]geom.Coord, s.r.levelSize()+s.r.Intn(2))
	for i := range cs {
		if s.r.chance(1, 3) || (s.stride == 0 && !s.r.chance(1, 8)) {
			cs[i] = nil
		} else {
			cs[i] = s.coord()
		}
	}
	return cs
}

func guardSetLine(l geom.Layout, cs []geom.Coord) string {
	g, err := geom.NewLineString(l).SetCoords(cs)
	if err != nil {
		return sxErr(err)
	}
	return "(ok (" + sxG1(g.Layout(), g.Stride(), g.FlatCoords(), g.SRID()) + " (ok " + sxCoords1(g.Coords()) + ")))"
}

// viewsOf: every coordinate of g as a slice into g's own storage (through Coord(i) of the geometry
// or of its member views), in order.
func viewsOf(g geom.T) []geom.Coord {
	var vs []geom.Coord
	add1 := func(n int, at func(int) geom.Coord) {
		for i := 0; i < n; i++ {
			vs = append(vs, at(i))
		}
	}
	switch x := g.(type) {
	case *geom.LineString:
		add1(x.NumCoords(), x.Coord)
	case *geom.LinearRing:
		add1(x.NumCoords(), x.Coord)
	case *geom.Polygon:
		for i := 0; i < x.NumLinearRings(); i++ {
			lr := x.LinearRing(i)
			add1(lr.NumCoords(), lr.Coord)
		}
	case *geom.MultiLineString:
		for i := 0; i < x.NumLineStrings(); i++ {
			ls := x.LineString(i)
			add1(ls.NumCoords(), ls.Coord)
		}
	case *geom.MultiPolygon:
		for i := 0; i < x.NumPolygons(); i++ {
			p := x.Polygon(i)
			for j := 0; j < p.NumLinearRings(); j++ {
				lr := p.LinearRing(j)
				add1(lr.NumCoords(), lr.Coord)
			}
		}
	}
	return vs
}

// reuse: the receiver of the SetCoords under test already holds coordinates (set from `prior`),
// and some leaves of the new input are replaced by views of the receiver's own coordinates in
// another order — SetCoords must read all of its input before it lets go of the old storage.
// leaves lists pointers to the input's leaf coordinates.
func (r *Rng) reuse(recv geom.T, stride int, leaves []*geom.Coord) {
	vs := viewsOf(recv)
	if len(vs) == 0 {
		return
	}
	shift := 1 + r.Intn(len(vs))
	for i, lf := range leaves {
		if len(*lf) == stride && r.chance(3, 4) {
			*lf = vs[(len(vs)-1-i+shift+len(vs)*len(leaves))%len(vs)] // reversed and rotated
		}
	}
}

func leaves1(cs []geom.Coord) []*geom.Coord {
	out := make([]*geom.Coord, len(cs))
	for i := range cs {
		out[i] = &cs[i]
	}
	return out
}
func leaves2(css [][]geom.Coord) []*geom.Coord {
	var out []*geom.Coord
	for _, cs := range css {
		out = append(out, leaves1(cs)...)
	}
	return out
}
func leaves3(csss [][][]geom.Coord) []*geom.Coord {
	var out []*geom.Coord
	for _, css := range csss {
		out = append(out, leaves2(css)...)
	}
	return out
}

func genC01(r *Rng, e *Emitter, n int) {
	// "Push": a part of every layout pushed onto a receiver of every layout, no layout at all included
	for _, kind := range c02Kinds {
		for _, lr := range c02PairLayouts {
			for _, lp := range c02PairLayouts {
				c02Mini(r, e, kind, lr, lp)
			}
		}
	}
	// "any decoder": binary encodings no encoder writes (members of another dimensionality than the
	// header says, truncations of them) decode to an error or to a well-formed geometry
	saved := wkbcommon.MaxGeometryElements
	for i := 0; i < n/20+20; i++ {
		c := codecs[r.Intn(len(codecs))]
		var bo binary.ByteOrder = wkb.XDR
		if r.chance(1, 2) {
			bo = wkb.NDR
		}
		b := r.mixedMemberEncoding(c, bo)
		if r.chance(1, 6) {
			b = b[:r.Intn(len(b)+1)]
		}
		e.tally("decoded-mixed-member-layout")
		c04Run(e, c, [4]int{0, -1, -1, -1}, b)
	}
	wkbcommon.MaxGeometryElements = saved
	// the IGC decoder too: whatever it returns (also next to record errors) is a whole number of
	// five-dimensional fixes
	if re, ok := hRegexpFromSource(); ok {
		for i := 0; i < n/40+20; i++ {
			e.tally("decoded-igc")
			c19EmitDec(e, re, r.igcDoc())
		}
	}
	for _, bc := range bigCases(n >= 100000) {
		stride, pts := bc[0], bc[1]
		l := layoutForStride(stride)
		cs := coordsOfFlat(stride, bigFlat(stride, pts))
		e.tally("big-line")
		e.emit("C01.set.line", fmt.Sprintf("(%d %s)", int(l), sxCoords1(cs)), guard(func() string {
			g, err := geom.NewLineString(l).SetCoords(cs)
			if err != nil {
				return sxErr(err)
			}
			rb := guard(func() string { return "(ok " + sxCoords1(g.Coords()) + ")" })
			return "(ok (" + sxG1(g.Layout(), g.Stride(), g.FlatCoords(), g.SRID()) + " " + rb + "))"
		}))
		if pts <= 2048 {
			css := [][]geom.Coord{cs, coordsOfFlat(stride, bigFlat(stride, 5)), {}}
			e.tally("big-poly")
			e.emit("C01.set.poly", fmt.Sprintf("(%d %s)", int(l), sxCoords2(css)), guard(func() string {
				g, err := geom.NewPolygon(l).SetCoords(css)
				if err != nil {
					return sxErr(err)
				}
				rb := guard(func() string { return "(ok " + sxCoords2(g.Coords()) + ")" })
				return "(ok (" + sxG2(g.Layout(), g.Stride(), g.FlatCoords(), g.Ends(), g.SRID()) + " " + rb + "))"
			}))
		}
	}
	for i := 0; i < n; i++ {
		l := r.layoutAny()
		s := &shapeCtx{r: r, stride: l.Stride()}
		malformed := r.chance(1, 6)
		if malformed {
			s.bad = r.malformedPlan(l.Stride())
		}
		if r.chance(1, 10) {
			// NewMultiPointFlat: caller-supplied flat array, with and without the ends option
			stride := l.Stride()
			n := r.levelSize() + r.Intn(3)
			flat := make([]float64, 0, n*stride+2)
			for k := 0; k < n*stride; k++ {
				flat = append(flat, r.anyBits())
			}
			if r.chance(1, 8) && stride > 1 { // not a whole number of coordinates
				flat = append(flat, r.anyBits())
			}
			endsSx := "nil"
			var opts []geom.NewMultiPointFlatOption
			if r.chance(1, 2) {
				// explicit ends: some members empty
				var ends []int
				off := 0
				for off < len(flat) || r.chance(1, 3) {
					if stride > 0 && off+stride <= len(flat) && !r.chance(1, 3) {
						off += stride
					} else if off >= len(flat) && len(ends) > 6 {
						break
					}
					ends = append(ends, off)
					if len(ends) > 12 {
						break
					}
				}
				if ends != nil {
					endsSx = sxInts(ends)
					opts = append(opts, geom.NewMultiPointFlatOptionWithEnds(ends))
				}
			}
			e.tally("type=newflat.mpoint")
			e.emit("C01.newflat.mpoint", fmt.Sprintf("(%d %s %s)", int(l), sxCoord(flat), endsSx), guard(func() string {
				g := geom.NewMultiPointFlat(l, flat, opts...)
				rb := guard(func() string { return "(ok " + sxMCoords(g.Coords()) + ")" })
				out := "(ok (" + sxG2(g.Layout(), g.Stride(), g.FlatCoords(), g.Ends(), g.SRID()) + " " + rb + "))"
				// the caller goes on to use what it was handed (an EMPTY member pushed, a non-empty one
				// pushed): what later constructor calls return has nothing to do with that
				guard(func() string {
					if len(flat)%3 == 0 {
						g.Push(geom.NewPointEmpty(l))
					} else if len(flat)%3 == 1 {
						g.Push(geom.NewPointFlat(l, make([]float64, l.Stride())))
					}
					return ""
				})
				return out
			}))
			continue
		}
		kind := r.Intn(7)
		e.tally(fmt.Sprintf("layout=%d", int(l)))
		switch kind {
		case 0:
			c := s.coord()
			if r.chance(1, 4) { // signed zeros / NaNs only: equal to a fresh point under a semantic comparison
				for i := range c {
					c[i] = math.Float64frombits(specialBits[r.Intn(7)])
				}
			}
			var first geom.Coord
			if r.chance(1, 3) { // SetCoords on a point that already holds a (similar) coordinate
				first = r.genCoord(l.Stride())
				if r.chance(1, 2) && len(c) >= len(first) {
					copy(first, c)
				}
				for i := range first {
					if r.chance(1, 3) {
						first[i] = math.Float64frombits(specialBits[r.Intn(7)])
					}
				}
				e.tally("point-set-twice")
			}
			e.tally("type=Point")
			e.emit("C01.set.pt", fmt.Sprintf("(%d %s)", int(l), sxCoord(c)), guard(func() string {
				p := geom.NewPoint(l)
				if first != nil {
					p.SetCoords(first)
				}
				g, err := p.SetCoords(c)
				if err != nil {
					return sxErr(err)
				}
				for i := range c { // the caller's coordinate is the caller's to reuse
					c[i] = -12345
				}
				rb := guard(func() string { return "(ok " + sxCoord(g.Coords()) + ")" })
				return "(ok (" + sxG1(g.Layout(), g.Stride(), g.FlatCoords(), g.SRID()) + " " + rb + "))"
			}))
		case 1, 2:
			cs := s.coords1()
			op := "C01.set.line"
			if kind == 2 {
				op = "C01.set.ring"
			}
			e.tally("type=" + op[8:])
			ls0, lr0 := geom.NewLineString(l), geom.NewLinearRing(l)
			if r.chance(1, 3) && l.Stride() > 0 {
				prior := (&shapeCtx{r: r, stride: l.Stride()}).coords1()
				if kind == 1 {
					ls0.MustSetCoords(prior)
					r.reuse(ls0, l.Stride(), leaves1(cs))
				} else {
					lr0.MustSetCoords(prior)
					r.reuse(lr0, l.Stride(), leaves1(cs))
				}
				e.tally("receiver-reused")
			}
			e.emit(op, fmt.Sprintf("(%d %s)", int(l), sxCoords1(cs)), guard(func() string {
				if kind == 1 {
					g, err := ls0.SetCoords(cs)
					if err != nil {
						return rejected(err, ls0)
					}
					g.Reserve(len(cs) + 1 + len(cs)%7) // room for more: a capacity hint changes no coordinate
					rb := guard(func() string { return "(ok " + sxCoords1(g.Coords()) + ")" })
					return "(ok (" + sxG1(g.Layout(), g.Stride(), g.FlatCoords(), g.SRID()) + " " + rb + "))"
				}
				g, err := lr0.SetCoords(cs)
				if err != nil {
					return rejected(err, lr0)
				}
				rb := guard(func() string { return "(ok " + sxCoords1(g.Coords()) + ")" })
				return "(ok (" + sxG1(g.Layout(), g.Stride(), g.FlatCoords(), g.SRID()) + " " + rb + "))"
			}))
		case 3, 4:
			cs := s.coords2()
			op := "C01.set.poly"
			if kind == 4 {
				op = "C01.set.mls"
			}
			e.tally("type=" + op[8:])
			pg0, mls0 := geom.NewPolygon(l), geom.NewMultiLineString(l)
			if r.chance(1, 3) && l.Stride() > 0 {
				prior := (&shapeCtx{r: r, stride: l.Stride()}).coords2()
				if kind == 3 {
					pg0.MustSetCoords(prior)
					r.reuse(pg0, l.Stride(), leaves2(cs))
				} else {
					mls0.MustSetCoords(prior)
					r.reuse(mls0, l.Stride(), leaves2(cs))
				}
				e.tally("receiver-reused")
			}
			in2 := fmt.Sprintf("(%d %s)", int(l), sxCoords2(cs))
			var kept geom.T
			// sometimes the value then changes hands (Swap with a geometry of another structure): it is
			// observed in the geometry that received it
			var swapWith [][]geom.Coord
			if l.Stride() > 0 && r.chance(1, 4) {
				swapWith = (&shapeCtx{r: r, stride: l.Stride()}).coords2()
				e.tally("swapped-after-set")
			}
			e.emit(op, in2, guard(func() string {
				if kind == 3 {
					g, err := pg0.SetCoords(cs)
					if err != nil {
						return rejected(err, pg0)
					}
					if swapWith != nil {
						o := geom.NewPolygon(l).MustSetCoords(swapWith)
						o.Swap(g)
						g = o
					}
					g.Reserve(g.NumCoords() + 1 + g.NumCoords()%5)
					kept = g
					rb := guard(func() string { return "(ok " + sxCoords2(g.Coords()) + ")" })
					return "(ok (" + sxG2(g.Layout(), g.Stride(), g.FlatCoords(), g.Ends(), g.SRID()) + " " + rb + "))"
				}
				g, err := mls0.SetCoords(cs)
				if err != nil {
					return rejected(err, mls0)
				}
				if swapWith != nil {
					o := geom.NewMultiLineString(l).MustSetCoords(swapWith)
					o.Swap(g)
					g = o
				}
				kept = g
				rb := guard(func() string { return "(ok " + sxCoords2(g.Coords()) + ")" })
				return "(ok (" + sxG2(g.Layout(), g.Stride(), g.FlatCoords(), g.Ends(), g.SRID()) + " " + rb + "))"
			}))
			if kept != nil && l.Stride() > 0 {
				// the geometry stays under observation while one of its member views is given new
				// coordinates: a member's SetCoords must not write into the parent
				e.watch(op, in2, func() string {
					switch g := kept.(type) {
					case *geom.Polygon:
						rb := guard(func() string { return "(ok " + sxCoords2(g.Coords()) + ")" })
						return "(ok (" + sxG2(g.Layout(), g.Stride(), g.FlatCoords(), g.Ends(), g.SRID()) + " " + rb + "))"
					case *geom.MultiLineString:
						rb := guard(func() string { return "(ok " + sxCoords2(g.Coords()) + ")" })
						return "(ok (" + sxG2(g.Layout(), g.Stride(), g.FlatCoords(), g.Ends(), g.SRID()) + " " + rb + "))"
					}
					return "-"
				})
				if r.chance(1, 2) {
					mcs := (&shapeCtx{r: r, stride: l.Stride()}).coords1()
					mop := "C01.set.line"
					e.emit(mop, fmt.Sprintf("(%d %s)", int(l), sxCoords1(mcs)), guard(func() string {
						var flat []float64
						var lay geom.Layout
						var stride, srid int
						var back []geom.Coord
						switch g := kept.(type) {
						case *geom.Polygon:
							if g.NumLinearRings() == 0 {
								return guardSetLine(l, mcs)
							}
							m, err := g.LinearRing(r.Intn(g.NumLinearRings())).SetCoords(mcs)
							if err != nil {
								return sxErr(err)
							}
							flat, lay, stride, srid, back = m.FlatCoords(), m.Layout(), m.Stride(), m.SRID(), m.Coords()
						case *geom.MultiLineString:
							if g.NumLineStrings() == 0 {
								return guardSetLine(l, mcs)
							}
							m, err := g.LineString(r.Intn(g.NumLineStrings())).SetCoords(mcs)
							if err != nil {
								return sxErr(err)
							}
							flat, lay, stride, srid, back = m.FlatCoords(), m.Layout(), m.Stride(), m.SRID(), m.Coords()
						}
						return "(ok (" + sxG1(lay, stride, flat, srid) + " (ok " + sxCoords1(back) + ")))"
					}))
					e.tally("member-setcoords")
				}
			}
		case 5:
			cs := s.coords3()
			e.tally("type=mpoly")
			mp0 := geom.NewMultiPolygon(l)
			if r.chance(1, 3) && l.Stride() > 0 {
				mp0.MustSetCoords((&shapeCtx{r: r, stride: l.Stride()}).coords3())
				r.reuse(mp0, l.Stride(), leaves3(cs))
				e.tally("receiver-reused")
			}
			var swapWith3 [][][]geom.Coord
			if l.Stride() > 0 && r.chance(1, 4) {
				swapWith3 = (&shapeCtx{r: r, stride: l.Stride()}).coords3()
				e.tally("swapped-after-set")
			}
			e.emit("C01.set.mpoly", fmt.Sprintf("(%d %s)", int(l), sxCoords3(cs)), guard(func() string {
				g, err := mp0.SetCoords(cs)
				if err != nil {
					return rejected(err, mp0)
				}
				if swapWith3 != nil {
					o := geom.NewMultiPolygon(l).MustSetCoords(swapWith3)
					o.Swap(g)
					g = o
				}
				g.Reserve(g.NumCoords() + 2)
				rb := guard(func() string { return "(ok " + sxCoords3(g.Coords()) + ")" })
				return "(ok (" + sxG3(g.Layout(), g.Stride(), g.FlatCoords(), g.Endss(), g.SRID()) + " " + rb + "))"
			}))
		case 6:
			cs := s.mcoords()
			e.tally("type=mpoint")
			e.emit("C01.set.mpoint", fmt.Sprintf("(%d %s)", int(l), sxMCoords(cs)), guard(func() string {
				g, err := geom.NewMultiPoint(l).SetCoords(cs)
				if err != nil {
					return sxErr(err)
				}
				rb := guard(func() string { return "(ok " + sxMCoords(g.Coords()) + ")" })
				return "(ok (" + sxG2(g.Layout(), g.Stride(), g.FlatCoords(), g.Ends(), g.SRID()) + " " + rb + "))"
			}))
		}
		if s.hit > 0 {
			e.tally(fmt.Sprintf("malformed-leaves=%d", s.hit))
		}
	}
}
