package main

// C17: purity and concurrent safety of the non-mutating API.
//
// Every case names a root of the effect analysis (Generated/Effects.lean), builds arguments,
// takes a bitwise snapshot of every argument, calls the function alone, snapshots again, then
// calls it from many goroutines at once on the *same* arguments (and, for geometry arguments,
// together with a random mix of other functions on the same geometry) and compares every
// concurrent result with the solo result.  Built with -race (VERIF_RACE=1) the same batches run
// under the race detector, which halts the process at the first race; the pending record then
// names the batch.

import (
	"bytes"
	"encoding/binary"
	"encoding/xml"
	"fmt"
	"io"
	"math"
	"os"
	"sort"
	"strings"
	"sync"

	geom "github.com/twpayne/go-geom"
	"github.com/twpayne/go-geom/bigxy"
	"github.com/twpayne/go-geom/encoding/ewkb"
	"github.com/twpayne/go-geom/encoding/ewkbhex"
	"github.com/twpayne/go-geom/encoding/geojson"
	"github.com/twpayne/go-geom/encoding/igc"
	"github.com/twpayne/go-geom/encoding/kml"
	"github.com/twpayne/go-geom/encoding/wkb"
	"github.com/twpayne/go-geom/encoding/wkbcommon"
	"github.com/twpayne/go-geom/encoding/wkbhex"
	"github.com/twpayne/go-geom/encoding/wkt"
	"github.com/twpayne/go-geom/transform"
	"github.com/twpayne/go-geom/xy"
	"github.com/twpayne/go-geom/xy/lineintersector"
	"github.com/twpayne/go-geom/xyz"
)

func init() { generators["C17"] = genC17 }

// ---- snapshots ----

func snapGeom(g geom.T) string {
	if gc, ok := g.(*geom.GeometryCollection); ok {
		parts := make([]string, gc.NumGeoms())
		for i := range parts {
			parts[i] = snapGeom(gc.Geom(i))
		}
		return fmt.Sprintf("(gc %d %d (%s))", int(gc.Layout()), gc.SRID(), strings.Join(parts, " "))
	}
	if g == nil {
		return "nil"
	}
	return fmt.Sprintf("(%T %d %d %d %s %s %s)", g, int(g.Layout()), g.Stride(), g.SRID(), sxCoord(g.FlatCoords()), sxInts(g.Ends()), sxIntss(g.Endss()))
}

func snapAny(v any) string {
	switch x := v.(type) {
	case geom.T:
		return strings.ReplaceAll(snapGeom(x), "*geom.", "")
	case geom.Coord:
		return sxCoord(x)
	case []float64:
		return sxCoord(x)
	case []geom.Coord:
		return sxCoords1(x)
	case []byte:
		return "(b " + hexOrDash(x) + ")"
	case string:
		return "(s " + hexStr(x) + ")"
	case *geom.Bounds:
		return sxBounds(x)
	case geom.Layout:
		return fmt.Sprint(int(x))
	case int:
		return fmt.Sprint(x)
	case float64:
		return hexF(x)
	case bool:
		return fmt.Sprint(x)
	case binary.ByteOrder:
		return x.String()[:1]
	case []int:
		return sxInts(x)
	case c17Opts:
		// what each option of the whole array (the window and what follows it) does to a probe
		out := fmt.Sprintf("(opts %d", len(x))
		for _, o := range x[:cap(x)] {
			out += fmt.Sprintf(" %d", int(o(wkbcommon.WKBParams{EmptyPointHandling: 255}).EmptyPointHandling))
		}
		return out + ")"
	}
	return fmt.Sprintf("(?%T)", v)
}

func obsErr(s string, err error) string {
	if err != nil {
		return "(err " + strings.ReplaceAll(err.Error(), "\t", " ") + ")"
	}
	return s
}

// c17Opts: an option list that is a window of a longer array.
type c17Opts []wkbcommon.WKBOption

// ---- cases ----

type c17Case struct {
	root   string
	shape  string              // "geom" (one geometry argument, joins mixes) or "own"
	accept func(g geom.T) bool // shape geom: which geometries the function takes
	gen    func(r *Rng) []any  // shape own
	run    func(a []any) string
}

var c17Cases []c17Case

func geomCase(root string, accept func(geom.T) bool, f func(g geom.T) string) {
	c17Cases = append(c17Cases, c17Case{root: root, shape: "geom", accept: accept, run: func(a []any) string { return f(a[0].(geom.T)) }})
}

func ownCase(root string, gen func(r *Rng) []any, run func(a []any) string) {
	c17Cases = append(c17Cases, c17Case{root: root, shape: "own", gen: gen, run: run})
}

func anyGeom(geom.T) bool { return true }
func isFlat(g geom.T) bool {
	_, gc := g.(*geom.GeometryCollection)
	return !gc
}
func isType[T any](g geom.T) bool { _, ok := g.(T); return ok }
func noEmptyPoint(g geom.T) bool {
	// WKB proper cannot encode an empty point
	switch x := g.(type) {
	case *geom.Point:
		return !x.Empty()
	case *geom.MultiPoint:
		for i := 0; i < x.NumPoints(); i++ {
			if x.Point(i).Empty() {
				return false
			}
		}
	case *geom.GeometryCollection:
		for _, m := range x.Geoms() {
			if !noEmptyPoint(m) {
				return false
			}
		}
	}
	return true
}

func fl(x float64) string { return hexF(x) }

func (r *Rng) c17Coord(stride int) geom.Coord {
	c := make(geom.Coord, stride)
	for i := range c {
		if r.chance(1, 2) {
			c[i] = float64(r.Intn(9) - 4)
		} else {
			c[i] = r.smallFloat()
		}
	}
	return c
}

func (r *Rng) c17Flat(stride, n int, grid int) []float64 {
	f := make([]float64, stride*n)
	for i := range f {
		if grid > 0 {
			f[i] = float64(r.Intn(grid))
		} else {
			f[i] = r.smallFloat()
		}
	}
	return f
}

func init() {
	// ---- one geometry argument ----
	geomCase("geom.(*Polygon).Area", anyGeom, func(g geom.T) string {
		switch x := g.(type) {
		case *geom.Point:
			return fl(x.Area()) + fl(x.Length())
		case *geom.LineString:
			return fl(x.Area()) + fl(x.Length())
		case *geom.Polygon:
			return fl(x.Area()) + fl(x.Length())
		case *geom.MultiPoint:
			return fl(x.Area()) + fl(x.Length())
		case *geom.MultiLineString:
			return fl(x.Area()) + fl(x.Length())
		case *geom.MultiPolygon:
			return fl(x.Area()) + fl(x.Length())
		}
		return "-"
	})
	geomCase("geom.(*geom0).Bounds", anyGeom, func(g geom.T) string { return sxBounds(g.Bounds()) })
	geomCase("geom.(*geom0).Empty", anyGeom, func(g geom.T) string {
		return fmt.Sprint(g.Empty(), int(g.Layout()), g.Stride(), g.SRID())
	})
	geomCase("geom.(*geom0).FlatCoords", isFlat, func(g geom.T) string {
		return sxCoord(g.FlatCoords()) + sxInts(g.Ends()) + sxIntss(g.Endss())
	})
	geomCase("geom.(*geom1).Coords", isFlat, func(g geom.T) string {
		switch x := g.(type) {
		case *geom.Point:
			if x.Empty() {
				return sxCoord(x.Coords())
			}
			return sxCoord(x.Coords()) + fl(x.X()) + fl(x.Y())
		case *geom.LineString:
			return sxCoords1(x.Coords()) + fmt.Sprint(x.NumCoords())
		case *geom.Polygon:
			return sxCoords2(x.Coords()) + fmt.Sprint(x.NumLinearRings())
		case *geom.MultiPoint:
			return sxMCoords(x.Coords()) + fmt.Sprint(x.NumPoints(), x.NumCoords())
		case *geom.MultiLineString:
			return sxCoords2(x.Coords()) + fmt.Sprint(x.NumLineStrings())
		case *geom.MultiPolygon:
			return sxCoords3(x.Coords()) + fmt.Sprint(x.NumPolygons())
		}
		return "-"
	})
	geomCase("geom.(*MultiPolygon).Clone", anyGeom, func(g geom.T) string {
		switch x := g.(type) {
		case *geom.Point:
			return snapGeom(x.Clone())
		case *geom.LineString:
			return snapGeom(x.Clone())
		case *geom.Polygon:
			return snapGeom(x.Clone())
		case *geom.MultiPoint:
			return snapGeom(x.Clone())
		case *geom.MultiLineString:
			return snapGeom(x.Clone())
		case *geom.MultiPolygon:
			return snapGeom(x.Clone())
		}
		return "-"
	})
	geomCase("geom.(*MultiPolygon).Polygon", anyGeom, func(g geom.T) string {
		var sb strings.Builder
		switch x := g.(type) {
		case *geom.Polygon:
			for i := 0; i < x.NumLinearRings(); i++ {
				sb.WriteString(snapGeom(x.LinearRing(i)))
			}
		case *geom.MultiPoint:
			for i := 0; i < x.NumPoints(); i++ {
				sb.WriteString(snapGeom(x.Point(i)))
				sb.WriteString(sxCoordOpt(x.Coord(i)))
			}
		case *geom.MultiLineString:
			for i := 0; i < x.NumLineStrings(); i++ {
				sb.WriteString(snapGeom(x.LineString(i)))
			}
		case *geom.MultiPolygon:
			for i := 0; i < x.NumPolygons(); i++ {
				sb.WriteString(snapGeom(x.Polygon(i)))
			}
		case *geom.GeometryCollection:
			for i := 0; i < x.NumGeoms(); i++ {
				sb.WriteString(snapGeom(x.Geom(i)))
			}
		case *geom.LineString:
			for i := 0; i < x.NumCoords(); i++ {
				sb.WriteString(sxCoord(x.Coord(i)))
			}
		}
		return sb.String()
	})
	geomCase("encoding/wkb.Marshal", noEmptyPoint, func(g geom.T) string {
		b1, e1 := wkb.Marshal(g, wkb.NDR)
		b2, e2 := wkb.Marshal(g, wkb.XDR)
		return obsErr(hexOrDash(b1), e1) + obsErr(hexOrDash(b2), e2)
	})
	geomCase("encoding/ewkb.Marshal", anyGeom, func(g geom.T) string {
		b1, e1 := ewkb.Marshal(g, ewkb.NDR)
		b2, e2 := ewkb.Marshal(g, ewkb.XDR)
		return obsErr(hexOrDash(b1), e1) + obsErr(hexOrDash(b2), e2)
	})
	geomCase("encoding/wkbhex.Encode", noEmptyPoint, func(g geom.T) string {
		s, err := wkbhex.Encode(g, wkbhex.NDR)
		return obsErr(s, err)
	})
	geomCase("encoding/ewkbhex.Encode", anyGeom, func(g geom.T) string {
		s, err := ewkbhex.Encode(g, ewkbhex.XDR)
		return obsErr(s, err)
	})
	geomCase("encoding/wkt.Marshal", anyGeom, func(g geom.T) string {
		s, err := wkt.Marshal(g)
		s2, err2 := wkt.Marshal(g, wkt.EncodeOptionWithMaxDecimalDigits(2))
		s3, err3 := wkt.Marshal(g, c17WktDigits)
		return obsErr(s, err) + obsErr(s2, err2) + obsErr(s3, err3)
	})
	// an encoder value that lives on between calls (used by one caller at a time): a call that failed
	// part-way leaves nothing behind, so each text equals the one a fresh encoder gives
	geomCase("encoding/wkt.(*Encoder).Encode", anyGeom, func(g geom.T) string {
		c17EncMu.Lock()
		defer c17EncMu.Unlock()
		bad := geom.NewGeometryCollection().MustPush(geom.NewPointFlat(geom.XY, []float64{7, 8}), geom.NewLineString(geom.NoLayout))
		_, _ = c17Enc.Encode(bad)
		s, err := c17Enc.Encode(g)
		fresh, ferr := wkt.Marshal(g)
		if s != fresh || (err == nil) != (ferr == nil) {
			c17EncDrift++
			return fmt.Sprintf("(carried-over %d %s)", c17EncDrift, s)
		}
		return obsErr(s, err)
	})
	geomCase("encoding/geojson.Marshal", anyGeom, func(g geom.T) string {
		b, err := geojson.Marshal(g)
		b2, err2 := geojson.Marshal(g, geojson.EncodeGeometryWithBBox(), geojson.EncodeGeometryWithMaxDecimalDigits(3))
		// option values made once and shared by every caller (they are values, not workspaces)
		b3, err3 := geojson.Marshal(g, c17GjBBox, c17GjDigits)
		return obsErr(string(b), err) + obsErr(string(b2), err2) + obsErr(string(b3), err3)
	})
	geomCase("encoding/geojson.(*Feature).MarshalJSON", anyGeom, func(g geom.T) string {
		f := &geojson.Feature{ID: "f", Geometry: g, BBox: g.Bounds(), Properties: map[string]interface{}{"k": 1.5}}
		b, err := f.MarshalJSON()
		fc := &geojson.FeatureCollection{Features: []*geojson.Feature{f, f}}
		b2, err2 := fc.MarshalJSON()
		return obsErr(string(b), err) + obsErr(string(b2), err2)
	})
	geomCase("encoding/kml.Encode", func(g geom.T) bool { return g.Layout() == geom.XY || g.Layout() == geom.XYZ }, func(g geom.T) string {
		el, err := kml.Encode(g)
		if err != nil {
			return obsErr("", err)
		}
		b, err := xml.Marshal(el)
		return obsErr(string(b), err)
	})
	geomCase("encoding/wkb.(*Geom).Value", noEmptyPoint, func(g geom.T) string {
		v, err := (&wkb.Geom{T: g}).Value()
		if b, ok := v.([]byte); ok {
			return obsErr(hexOrDash(b), err)
		}
		return obsErr(fmt.Sprint(v), err)
	})
	geomCase("xy.Centroid", func(g geom.T) bool { return isFlat(g) && !g.Empty() }, func(g geom.T) string {
		c, err := xy.Centroid(g)
		return obsErr(sxCoordOpt(c), err)
	})
	geomCase("xy.ConvexHull", func(g geom.T) bool { return isFlat(g) && !g.Empty() }, func(g geom.T) string {
		return snapGeom(xy.ConvexHull(g))
	})
	geomCase("xy.MultiPolygonCentroid", isType[*geom.MultiPolygon], func(g geom.T) string {
		mp := g.(*geom.MultiPolygon)
		if mp.Empty() {
			return "-"
		}
		return sxCoordOpt(xy.MultiPolygonCentroid(mp)) + sxCoordOpt(xy.MultiLineCentroid(geom.NewMultiLineStringFlat(mp.Layout(), mp.FlatCoords(), []int{len(mp.FlatCoords())})))
	})
	geomCase("xy.PolygonsCentroid", isType[*geom.Polygon], func(g geom.T) string {
		p := g.(*geom.Polygon)
		if p.Empty() {
			return "-"
		}
		var rings []*geom.LinearRing
		for i := 0; i < p.NumLinearRings(); i++ {
			rings = append(rings, p.LinearRing(i))
		}
		out := sxCoordOpt(xy.PolygonsCentroid(p, p)) + sxCoordOpt(xy.LinearRingsCentroid(rings[0], rings[1:]...))
		r0 := rings[0]
		out += fmt.Sprint(xy.IsRingCounterClockwise(r0.Layout(), r0.FlatCoords()), fl(xy.SignedArea(r0.Layout(), r0.FlatCoords())))
		out += fmt.Sprint(xy.IsPointInRing(r0.Layout(), geom.Coord{0.5, 0.5, 0, 0}[:r0.Stride()], r0.FlatCoords()))
		out += fmt.Sprint(xy.LocatePointInRing(r0.Layout(), r0.Coord(0), r0.FlatCoords()))
		return out
	})
	geomCase("xy.LinesCentroid", isType[*geom.LineString], func(g geom.T) string {
		l := g.(*geom.LineString)
		if l.NumCoords() < 2 {
			return "-"
		}
		out := sxCoordOpt(xy.LinesCentroid(l, l))
		out += fl(xy.DistanceFromPointToLineString(l.Layout(), geom.Coord{1, 2, 3, 4}[:l.Stride()], l.FlatCoords()))
		out += sxInts(xy.SimplifyFlatCoords(l.FlatCoords(), 0.5, l.Stride()))
		out += fmt.Sprint(xy.IsOnLine(l.Layout(), l.Coord(0), l.FlatCoords()))
		out += sxCoordOpt(xy.PointsCentroidFlat(l.Layout(), l.FlatCoords()))
		out += fmt.Sprint(l.Interpolate(1.5, 0)) + snapGeom(l.SubLineString(0, 2))
		return out
	})
	geomCase("xy.MultiPointCentroid", isType[*geom.MultiPoint], func(g geom.T) string {
		mp := g.(*geom.MultiPoint)
		for i := 0; i < mp.NumPoints(); i++ {
			if mp.Point(i).Empty() {
				return "-"
			}
		}
		if mp.NumPoints() == 0 {
			return "-"
		}
		return sxCoordOpt(xy.MultiPointCentroid(mp))
	})
	geomCase("geom.(*Bounds).Polygon", anyGeom, func(g geom.T) string {
		b := g.Bounds()
		c := b.Clone()
		out := fmt.Sprint(b.Overlaps(b.Layout(), c), b.IsEmpty())
		if !b.IsEmpty() && b.Layout() != geom.NoLayout {
			out += snapGeom(b.Polygon())
			out += fmt.Sprint(b.OverlapsPoint(b.Layout(), geom.Coord{1, 1, 1, 1}[:b.Layout().Stride()]))
		}
		return out
	})

	// ---- own arguments ----
	flatGen := func(r *Rng) []any {
		l := xyzmLayouts[r.Intn(4)]
		n := r.Intn(12)
		if r.chance(1, 4) {
			n = 40 + r.Intn(80) // the hull's octagon reduction starts above 50 points
		}
		grid := 0
		if r.chance(1, 2) {
			grid = 3 + r.Intn(12)
		}
		return []any{l, r.c17Flat(l.Stride(), n, grid)}
	}
	ownCase("xy.ConvexHullFlat", flatGen, func(a []any) string {
		return snapGeom(xy.ConvexHullFlat(a[0].(geom.Layout), a[1].([]float64)))
	})
	ownCase("transform.UniqueCoords", flatGen, func(a []any) string {
		l := a[0].(geom.Layout)
		return sxCoord(transform.UniqueCoords(l, c17Compare{}, a[1].([]float64)))
	})
	ownCase("xy.SimplifyFlatCoords", flatGen, func(a []any) string {
		l := a[0].(geom.Layout)
		f := a[1].([]float64)
		out := sxInts(xy.SimplifyFlatCoords(f, 1.25, l.Stride()))
		if len(f) >= 3*l.Stride() {
			out += fmt.Sprint(xy.IsRingCounterClockwise(l, f), fl(xy.SignedArea(l, f)), sxCoordOpt(xy.PointsCentroidFlat(l, f)))
			out += fmt.Sprint(xy.IsPointInRing(l, geom.Coord(f[:l.Stride()]), f), xy.LocatePointInRing(l, geom.Coord{2, 2, 2, 2}[:l.Stride()], f))
		}
		return out
	})
	ownCase("geom.NewMultiPointFlat", flatGen, func(a []any) string {
		l := a[0].(geom.Layout)
		f := a[1].([]float64)
		out := snapGeom(geom.NewMultiPointFlat(l, f)) + snapGeom(geom.NewLineStringFlat(l, f)) + snapGeom(geom.NewLinearRingFlat(l, f))
		out += snapGeom(geom.NewPolygonFlat(l, f, []int{len(f)})) + snapGeom(geom.NewMultiPolygonFlat(l, f, [][]int{{len(f)}}))
		if len(f) == 0 {
			return out
		}
		ends := make([]int, 0)
		for i := l.Stride(); i <= len(f); i += l.Stride() {
			ends = append(ends, i)
		}
		return out + snapGeom(geom.NewMultiPointFlat(l, f, geom.NewMultiPointFlatOptionWithEnds(ends)))
	})
	coordsGen := func(k int) func(r *Rng) []any {
		return func(r *Rng) []any {
			out := make([]any, k)
			stride := 2 + r.Intn(3)
			for i := range out {
				out[i] = r.c17Coord(stride)
			}
			if r.chance(1, 3) && k >= 4 { // touching / collinear configurations
				copy(out[2].(geom.Coord), out[0].(geom.Coord))
			}
			if k >= 4 && r.chance(1, 3) {
				// proper crossings whose double-precision intersection degenerates (nearly parallel long
				// segments on a decimal grid, or magnitudes whose products overflow): the rarely taken
				// fallback paths of the intersector
				a, b, c, d := out[0].(geom.Coord), out[1].(geom.Coord), out[2].(geom.Coord), out[3].(geom.Coord)
				if r.chance(1, 2) {
					x0, y0 := float64(r.Intn(100000))/10, float64(r.Intn(100000))/10
					dx, dy := float64(1+r.Intn(100000))/10, float64(1+r.Intn(100000))/10
					a[0], a[1] = x0, y0
					b[0], b[1] = x0+dx, y0+dy
					// second segment: almost the same direction, crossing near the middle
					c[0], c[1] = x0+float64(r.Intn(3))/10, y0-float64(1+r.Intn(3))/10
					d[0], d[1] = x0+dx-float64(r.Intn(3))/10, y0+dy+float64(1+r.Intn(3))/10
				} else {
					sc := math.Ldexp(1, 505+r.Intn(10))
					a[0], a[1] = -sc*float64(1+r.Intn(9)), -sc*float64(1+r.Intn(9))
					b[0], b[1] = sc*float64(1+r.Intn(9)), sc*float64(1+r.Intn(9))
					c[0], c[1] = -sc*float64(1+r.Intn(9)), sc*float64(1+r.Intn(9))
					d[0], d[1] = sc*float64(1+r.Intn(9)), -sc*float64(1+r.Intn(9))
				}
			}
			return out
		}
	}
	co := func(a []any, i int) geom.Coord { return a[i].(geom.Coord) }
	ownCase("xy/lineintersector.LineIntersectsLine", coordsGen(4), func(a []any) string {
		r1 := lineintersector.LineIntersectsLine(lineintersector.RobustLineIntersector{}, co(a, 0), co(a, 1), co(a, 2), co(a, 3))
		r2 := lineintersector.LineIntersectsLine(lineintersector.NonRobustLineIntersector{}, co(a, 0), co(a, 1), co(a, 2), co(a, 3))
		out := fmt.Sprint(r1.Type(), r2.Type())
		for _, c := range r1.Intersection() {
			out += sxCoord(c)
		}
		out += fmt.Sprint(lineintersector.PointIntersectsLine(lineintersector.RobustLineIntersector{}, co(a, 0), co(a, 1), co(a, 2)))
		out += fmt.Sprint(xy.DoLinesOverlap(co(a, 0), co(a, 1), co(a, 2), co(a, 3)))
		return out
	})
	ownCase("xy.DistanceFromLineToLine", coordsGen(4), func(a []any) string {
		out := fl(xy.DistanceFromLineToLine(co(a, 0), co(a, 1), co(a, 2), co(a, 3)))
		out += fl(xy.DistanceFromPointToLine(co(a, 0), co(a, 1), co(a, 2))) + fl(xy.Distance(co(a, 0), co(a, 1)))
		out += fl(xy.PerpendicularDistanceFromPointToLine(co(a, 0), co(a, 1), co(a, 2)))
		out += fmt.Sprint(xy.OrientationIndex(co(a, 0), co(a, 1), co(a, 2)), bigxy.OrientationIndex(co(a, 0), co(a, 1), co(a, 2)))
		out += fmt.Sprint(xy.IsPointWithinLineBounds(co(a, 0), co(a, 1), co(a, 2)), xy.Equal(co(a, 0), 0, co(a, 2), 0))
		out += fl(xy.Angle(co(a, 0), co(a, 1))) + fl(xy.AngleBetween(co(a, 0), co(a, 1), co(a, 2))) + fl(xy.InteriorAngle(co(a, 0), co(a, 1), co(a, 2)))
		out += fmt.Sprint(xy.IsAcute(co(a, 0), co(a, 1), co(a, 2)), xy.IsObtuse(co(a, 0), co(a, 1), co(a, 2)))
		return out
	})
	ownCase("xyz.DistanceLineToLine", func(r *Rng) []any {
		out := make([]any, 4)
		for i := range out {
			out[i] = r.c17Coord(3)
		}
		if r.chance(1, 4) {
			copy(out[3].(geom.Coord), out[2].(geom.Coord))
		}
		return out
	}, func(a []any) string {
		return fl(xyz.DistanceLineToLine(co(a, 0), co(a, 1), co(a, 2), co(a, 3))) + fl(xyz.DistancePointToLine(co(a, 0), co(a, 1), co(a, 2))) +
			fl(xyz.Distance(co(a, 0), co(a, 1))) + fmt.Sprint(xyz.Equals(co(a, 0), co(a, 1))) + sxCoord(xyz.VectorNormalize(co(a, 0))) + fl(xyz.VectorDot(co(a, 0), co(a, 1), co(a, 2), co(a, 3)))
	})
	// decoders: the input bytes / text must survive
	encGen := func(enc func(g geom.T) ([]byte, bool)) func(r *Rng) []any {
		return func(r *Rng) []any {
			for {
				t := r.wktTree(2, xyzmLayouts[r.Intn(4)])
				b, ok := enc(t.build())
				if !ok {
					continue
				}
				if r.chance(1, 6) && len(b) > 2 { // malformed input as well (truncation: a forged count could ask for gigabytes)
					b = b[:r.Intn(len(b))]
				}
				return []any{b}
			}
		}
	}
	ownCase("encoding/wkb.Unmarshal", encGen(func(g geom.T) ([]byte, bool) {
		if !noEmptyPoint(g) {
			return nil, false
		}
		b, err := wkb.Marshal(g, wkb.NDR)
		return b, err == nil
	}), func(a []any) string {
		g, err := wkb.Unmarshal(a[0].([]byte))
		if err != nil {
			return "(err)"
		}
		var p wkb.Geom
		err2 := p.Scan(a[0].([]byte))
		s, err3 := wkbhex.Decode(fmt.Sprintf("%x", a[0].([]byte)))
		return snapGeom(g) + obsErr(snapGeom(p.T), err2) + obsErr(snapGeom(s), err3)
	})
	// options handed over as a window of a longer option array the caller goes on using
	ownCase("encoding/wkb.Read", func(r *Rng) []any {
		for {
			t := r.wktTree(1, xyzmLayouts[r.Intn(4)])
			g := t.build()
			if !noEmptyPoint(g) {
				continue
			}
			b, err := wkb.Marshal(g, wkb.NDR)
			if err != nil {
				continue
			}
			arr := []wkbcommon.WKBOption{
				wkbcommon.WKBOptionEmptyPointHandling(wkbcommon.EmptyPointHandlingNaN),
				wkbcommon.WKBOptionEmptyPointHandling(wkbcommon.EmptyPointHandlingError),
				wkbcommon.WKBOptionEmptyPointHandling(wkbcommon.EmptyPointHandlingNaN),
			}
			return []any{b, c17Opts(arr[:1+r.Intn(2)])}
		}
	}, func(a []any) string {
		opts := []wkbcommon.WKBOption(a[1].(c17Opts))
		g, err := wkb.Read(bytes.NewReader(a[0].([]byte)), opts...)
		if err != nil {
			return "(err)"
		}
		b2, err2 := wkb.Marshal(g, wkb.XDR, opts...)
		return snapGeom(g) + obsErr(hexOrDash(b2), err2)
	})
	ownCase("encoding/ewkb.Unmarshal", encGen(func(g geom.T) ([]byte, bool) {
		b, err := ewkb.Marshal(g, ewkb.XDR)
		return b, err == nil
	}), func(a []any) string {
		g, err := ewkb.Unmarshal(a[0].([]byte))
		if err != nil {
			return "(err)"
		}
		g2, err2 := ewkb.Read(bytes.NewReader(a[0].([]byte)))
		s, err3 := ewkbhex.Decode(fmt.Sprintf("%x", a[0].([]byte)))
		return snapGeom(g) + obsErr(snapGeom(g2), err2) + obsErr(snapGeom(s), err3)
	})
	// database/sql scanners: the column value arrives as binary, or — as a text-protocol driver
	// delivers it — as the hex text of the same bytes; either way it is the caller's buffer
	scanGen := func(ewkbFmt bool) func(r *Rng) []any {
		return func(r *Rng) []any {
			for {
				t := r.wktTree(1, xyzmLayouts[r.Intn(4)])
				g := t.build()
				var b []byte
				var err error
				if ewkbFmt {
					b, err = ewkb.Marshal(g, []binary.ByteOrder{ewkb.XDR, ewkb.NDR}[r.Intn(2)])
				} else {
					if !noEmptyPoint(g) {
						continue
					}
					b, err = wkb.Marshal(g, []binary.ByteOrder{wkb.XDR, wkb.NDR}[r.Intn(2)])
				}
				if err != nil {
					continue
				}
				switch r.Intn(4) {
				case 0:
					b = []byte(fmt.Sprintf("%x", b))
				case 1:
					b = []byte(fmt.Sprintf("%X", b))
				}
				return []any{"the receiver is a fresh value of the run", b} // (argument 0 of a method root is its receiver)
			}
		}
	}
	ownCase("encoding/ewkb.(*Point).Scan", scanGen(true), func(a []any) string {
		src := a[1].([]byte)
		var p ewkb.Point
		var ls ewkb.LineString
		var pg ewkb.Polygon
		var mp ewkb.MultiPoint
		var mls ewkb.MultiLineString
		var mpg ewkb.MultiPolygon
		var gc ewkb.GeometryCollection
		out := ""
		for _, sc := range []interface{ Scan(interface{}) error }{&p, &ls, &pg, &mp, &mls, &mpg, &gc} {
			out += fmt.Sprint(sc.Scan(src) == nil)
		}
		return out
	})
	ownCase("encoding/wkb.(*Geom).Scan", scanGen(false), func(a []any) string {
		src := a[1].([]byte)
		var g wkb.Geom
		var p wkb.Point
		var ls wkb.LineString
		var pg wkb.Polygon
		var mp wkb.MultiPoint
		var mls wkb.MultiLineString
		var mpg wkb.MultiPolygon
		var gc wkb.GeometryCollection
		out := ""
		for _, sc := range []interface{ Scan(interface{}) error }{&g, &p, &ls, &pg, &mp, &mls, &mpg, &gc} {
			out += fmt.Sprint(sc.Scan(src) == nil)
		}
		return out + snapGeom(g.T)
	})
	ownCase("encoding/geojson.Unmarshal", encGen(func(g geom.T) ([]byte, bool) {
		b, err := geojson.Marshal(g)
		return b, err == nil
	}), func(a []any) string {
		var g geom.T
		if err := geojson.Unmarshal(a[0].([]byte), &g); err != nil {
			return "(err)"
		}
		var f geojson.Feature
		feat := append(append([]byte(`{"type":"Feature","id":7,"properties":{"a":[1,2]},"geometry":`), a[0].([]byte)...), '}')
		err2 := f.UnmarshalJSON(feat)
		return snapGeom(g) + obsErr(snapGeom(f.Geometry), err2)
	})
	ownCase("encoding/wkt.Unmarshal", func(r *Rng) []any {
		t := r.wktTree(2, xyzmLayouts[r.Intn(4)])
		s := r.spell(t, t.layout)
		return []any{[]byte(s)}
	}, func(a []any) string {
		g, err := wkt.Unmarshal(string(a[0].([]byte)))
		if err != nil {
			return "(err " + err.Error() + ")"
		}
		return snapGeom(g)
	})
	ownCase("encoding/igc.Read", func(r *Rng) []any {
		var sb strings.Builder
		sb.WriteString("AXXX001\r\nHFDTE0" + fmt.Sprintf("%d", 1+r.Intn(9)) + "0" + fmt.Sprintf("%d", 1+r.Intn(9)) + fmt.Sprintf("%02d", r.Intn(100)) + "\r\n")
		sb.WriteString("I023638FXA3940SIU\r\n")
		for i, n := 0, r.Intn(12); i < n; i++ {
			fmt.Fprintf(&sb, "B%02d%02d%02d%02d%05dN%03d%05dEA%05d%05d%03d%02d\r\n", r.Intn(24), r.Intn(60), r.Intn(60), r.Intn(90), r.Intn(60000), r.Intn(180), r.Intn(60000), r.Intn(10000), r.Intn(10000), r.Intn(1000), r.Intn(100))
		}
		return []any{[]byte(sb.String())}
	}, func(a []any) string {
		t, err := igc.Read(bytes.NewReader(a[0].([]byte)))
		if t == nil || t.LineString == nil {
			return obsErr("(nil)", err)
		}
		return snapGeom(t.LineString)
	})
	// control: a documented mutator — the snapshot mechanism must see its write
	ownCase("geom.(*geom1).Reverse", func(r *Rng) []any {
		l := xyzmLayouts[r.Intn(4)]
		return []any{geom.T(geom.NewLineStringFlat(l, r.c17Flat(l.Stride(), 2+r.Intn(4), 0)))}
	}, func(a []any) string {
		a[0].(*geom.LineString).Reverse()
		return "-"
	})
}

// c17RawGeom: a multi-part geometry over an arbitrary flat array (rings not closed, 1..4 parts of
// 0..5 points each), the kind a caller builds with the New*Flat constructors.
func (r *Rng) c17RawGeom() geom.T {
	l := xyzmLayouts[r.Intn(4)]
	stride := l.Stride()
	var flat []float64
	var ends []int
	for k := 1 + r.Intn(4); k > 0; k-- {
		n := r.Intn(6)
		if r.chance(2, 3) {
			n = 3 + r.Intn(3)
		}
		flat = append(flat, r.c17Flat(stride, n, 9)...)
		ends = append(ends, len(flat))
	}
	switch r.Intn(4) {
	case 0:
		return geom.NewPolygonFlat(l, flat, ends)
	case 1:
		return geom.NewMultiLineStringFlat(l, flat, ends)
	case 2:
		// two polygons: split the rings
		h := (len(ends) + 1) / 2
		return geom.NewMultiPolygonFlat(l, flat, [][]int{ends[:h], ends[h:]})
	default:
		endss := make([][]int, len(ends))
		for i, e := range ends {
			endss[i] = []int{e}
		}
		return geom.NewMultiPolygonFlat(l, flat, endss)
	}
}

type c17Compare struct{}

func (c17Compare) IsEquals(a, b geom.Coord) bool { return a[0] == b[0] && a[1] == b[1] }
func (c17Compare) IsLess(a, b geom.Coord) bool {
	if a[0] != b[0] {
		return a[0] < b[0]
	}
	return a[1] < b[1]
}

// ---- execution ----

func c17Safe(c *c17Case, a []any) string {
	return guardWith("(panic)", func() string { return c.run(a) })
}

// concurrently runs every (case, args) of calls reps times, each in its own goroutine, released
// together; returns how many results differ from the solo results.
func c17Concurrent(calls []*c17Case, args [][]any, solo []string, reps int) []int {
	var wg sync.WaitGroup
	start := make(chan struct{})
	var mu sync.Mutex
	diff := make([]int, len(calls))
	for k := 0; k < reps; k++ {
		for i := range calls {
			wg.Add(1)
			go func(i int) {
				defer wg.Done()
				<-start
				got := c17Safe(calls[i], args[i])
				if got != solo[i] {
					mu.Lock()
					diff[i]++
					mu.Unlock()
				}
			}(i)
		}
	}
	close(start)
	wg.Wait()
	return diff
}

func changedArgs(before []string, a []any) []int {
	var ch []int
	for i, x := range a {
		if snapAny(x) != before[i] {
			ch = append(ch, i)
		}
	}
	return ch
}

func genC17(r *Rng, e *Emitter, n int) {
	race := os.Getenv("VERIF_RACE") != ""
	reps := 6
	if race {
		reps = 3
	}
	var geomCases, ownCases []*c17Case
	for i := range c17Cases {
		if c17Cases[i].shape == "geom" {
			geomCases = append(geomCases, &c17Cases[i])
		} else {
			ownCases = append(ownCases, &c17Cases[i])
		}
	}
	emitBatch := func(kind string, calls []*c17Case, args [][]any) {
		// one line per call of the batch; the batch is recorded as pending first
		var desc []string
		for i, c := range calls {
			parts := make([]string, len(args[i]))
			for k, x := range args[i] {
				parts[k] = snapAny(x)
			}
			desc = append(desc, fmt.Sprintf("(%s %s)", strings.NewReplacer("(", "[", ")", "]").Replace(c.root), strings.Join(parts, " ")))
		}
		e.pending("C17.batch", "("+strings.Join(desc, " ")+")")
		befores := make([][]string, len(calls))
		solo := make([]string, len(calls))
		soloChanged := make([][]int, len(calls))
		for i, c := range calls {
			befores[i] = make([]string, len(args[i]))
			for k, x := range args[i] {
				befores[i][k] = snapAny(x)
			}
			if c.root == "geom.(*geom1).Reverse" {
				// mutator control: run on a private copy so that the batch's shared state stays fixed
				cp := []any{geom.T(args[i][0].(*geom.LineString).Clone())}
				c17Safe(c, cp)
				soloChanged[i] = changedArgs(befores[i], cp)
				solo[i] = "-"
				continue
			}
			solo[i] = c17Safe(c, args[i])
			soloChanged[i] = changedArgs(befores[i], args[i])
		}
		var conc []*c17Case
		var cargs [][]any
		var csolo []string
		var cidx []int
		for i, c := range calls {
			if c.root != "geom.(*geom1).Reverse" {
				conc = append(conc, c)
				cargs = append(cargs, args[i])
				csolo = append(csolo, solo[i])
				cidx = append(cidx, i)
			}
		}
		diffs := make([]int, len(calls))
		for k, d := range c17Concurrent(conc, cargs, csolo, reps) {
			diffs[cidx[k]] = d
		}
		for i, c := range calls {
			ch := soloChanged[i]
			if c.root != "geom.(*geom1).Reverse" {
				for _, k := range changedArgs(befores[i], args[i]) {
					if !containsInt(ch, k) {
						ch = append(ch, k)
					}
				}
			}
			sort.Ints(ch)
			e.tally(kind + ":" + c.root)
			panicked := 0
			if solo[i] == "(panic)" {
				panicked = 1
			}
			e.emit("C17.call", desc[i], fmt.Sprintf("(m (%d %d %d %d) %s)", len(calls), reps, diffs[i], panicked, sxInts(ch)))
		}
	}
	// cold start: the very first calls of the process are made concurrently, before any solo call
	// has run, so that one-time initialisation inside the library (a lazily filled table, a cached
	// value) is itself exercised under concurrency
	{
		var calls []*c17Case
		var args [][]any
		t := r.wktTree(2, geom.XYZ)
		g := t.build()
		for _, c := range geomCases {
			if c.accept(g) {
				calls = append(calls, c)
				args = append(args, []any{g})
			}
		}
		for _, c := range ownCases {
			if c.root != "geom.(*geom1).Reverse" {
				calls = append(calls, c)
				args = append(args, c.gen(r))
			}
		}
		var desc []string
		for i, c := range calls {
			parts := make([]string, len(args[i]))
			for k, x := range args[i] {
				parts[k] = snapAny(x)
			}
			desc = append(desc, fmt.Sprintf("(%s %s)", strings.NewReplacer("(", "[", ")", "]").Replace(c.root), strings.Join(parts, " ")))
		}
		e.pending("C17.batch", "(cold-start "+strings.Join(desc, " ")+")")
		first := make([][]string, len(calls))
		var wg sync.WaitGroup
		start := make(chan struct{})
		for i := range calls {
			first[i] = make([]string, 4)
			for k := 0; k < 4; k++ {
				wg.Add(1)
				go func(i, k int) {
					defer wg.Done()
					<-start
					first[i][k] = c17Safe(calls[i], args[i])
				}(i, k)
			}
		}
		close(start)
		wg.Wait()
		for i, c := range calls {
			solo := c17Safe(c, args[i])
			diff := 0
			for _, got := range first[i] {
				if got != solo {
					diff++
				}
			}
			e.tally("cold:" + c.root)
			e.emit("C17.call", desc[i], fmt.Sprintf("(m (%d %d %d %d) ())", len(calls), 4, diff, 0))
		}
	}
	// several decodes in flight at the same moment, each of a deeply nested collection, each through a
	// reader that waits until all of them are at their deepest: what one call accepts alone it accepts
	// whatever the others are in the middle of
	for _, ew := range []bool{false, true} {
		root := "encoding/wkb.Unmarshal"
		if ew {
			root = "encoding/ewkb.Unmarshal"
		}
		for _, depth := range []int{600, 4000} {
			data := c17DeepChain(depth)
			read := func(rd io.Reader) string {
				var g geom.T
				var err error
				if ew {
					g, err = ewkb.Read(rd)
				} else {
					g, err = wkb.Read(rd)
				}
				if err != nil {
					return "(err)"
				}
				d := 0
				for {
					gc, ok := g.(*geom.GeometryCollection)
					if !ok || gc.NumGeoms() != 1 {
						break
					}
					g = gc.Geom(0)
					d++
				}
				return fmt.Sprintf("(ok %d %s)", d, snapGeom(g))
			}
			desc := fmt.Sprintf("(%s deep-chain-in-flight %d)", root, depth)
			e.pending("C17.batch", "("+desc+")")
			solo := guard(func() string { return read(bytes.NewReader(data)) })
			const K = 5
			bar := &c17Barrier{want: K, ch: make(chan struct{})}
			fs := make([]func() string, K)
			for k := range fs {
				fs[k] = func() string {
					rd := &c17HoldReader{data: data, hold: len(data) - 4, bar: bar}
					defer rd.arrive()
					return read(rd)
				}
			}
			diff := 0
			for _, got := range concurrently(fs) {
				if got != solo {
					diff++
				}
			}
			e.tally("deep-chain-in-flight")
			e.emit("C17.call", desc, fmt.Sprintf("(m (%d %d %d %d) ())", K, 1, diff, 0))
		}
	}
	// what a call returns has nothing to do with the calls made before it: a file without a date
	// header read after differently dated files
	{
		undated := []byte("AXXXverif\r\nB1101355206343N00006198WA0058700558\r\nB1101455206259N00006295WA0059300556\r\n")
		dated := func(d string) []byte {
			return []byte("AXXXverif\r\nHFDTE" + d + "\r\nB1101355206343N00006198WA0058700558\r\n")
		}
		read := func(b []byte) string {
			t, err := igc.Read(bytes.NewReader(b))
			if t == nil {
				return fmt.Sprintf("(nil %v)", err != nil)
			}
			return fmt.Sprintf("(%s %d %v)", sxCoord(t.LineString.FlatCoords()), len(t.Headers), err != nil)
		}
		desc := "(encoding/igc.Read undated-after-dated)"
		e.pending("C17.batch", "("+desc+")")
		diff := 0
		var first string
		for k, d := range []string{"020418", "311299", "010170", "150669"} {
			guard(func() string { return read(dated(d)) })
			got := guard(func() string { return read(undated) })
			if k == 0 {
				first = got
			} else if got != first {
				diff++
			}
		}
		e.tally("undated-after-dated")
		e.emit("C17.call", desc, fmt.Sprintf("(m (%d %d %d %d) ())", 4, 1, diff, 0))
	}
	// a decoded geometry is the caller's: what the caller then does to it (an SRID, a pushed part) has
	// nothing to do with what the next decode of the same document returns
	{
		docs := []string{`{"type":"Point"}`, `{"type":"MultiPoint"}`, `{"type":"LineString","coordinates":null}`, `{"type":"Polygon"}`,
			`{"type":"MultiLineString"}`, `{"type":"MultiPolygon","coordinates":null}`, `{"type":"GeometryCollection","geometries":[{"type":"Point"},{"type":"MultiPoint"}]}`,
			`{"type":"Point","coordinates":[]}`, `{"type":"LineString","coordinates":[]}`, `{"type":"GeometryCollection"}`}
		var use func(g geom.T)
		use = func(g geom.T) {
			switch x := g.(type) {
			case *geom.Point:
				x.SetSRID(4326)
			case *geom.LineString:
				x.SetSRID(4326)
			case *geom.Polygon:
				x.SetSRID(4326)
				x.Push(geom.NewLinearRingFlat(x.Layout(), make([]float64, 4*x.Stride())))
			case *geom.MultiPoint:
				x.SetSRID(4326)
				x.Push(geom.NewPointEmpty(x.Layout()))
			case *geom.MultiLineString:
				x.SetSRID(4326)
				x.Push(geom.NewLineString(x.Layout()))
			case *geom.MultiPolygon:
				x.SetSRID(4326)
				x.Push(geom.NewPolygon(x.Layout()))
			case *geom.GeometryCollection:
				x.SetSRID(4326)
				for _, m := range x.Geoms() {
					use(m)
				}
				x.Push(geom.NewPointFlat(geom.XY, []float64{1, 2}))
			}
		}
		desc := "(encoding/geojson.[*Geometry].Decode result-then-used-by-the-caller)"
		e.pending("C17.batch", "("+desc+")")
		diff := 0
		for _, doc := range docs {
			dec := func() (geom.T, string) {
				var g geom.T
				if err := geojson.Unmarshal([]byte(doc), &g); err != nil {
					return nil, "(err)"
				}
				return g, snapGeom(g)
			}
			var g1 geom.T
			var s1, s2 string
			guard(func() string { g1, s1 = dec(); return "" })
			guard(func() string {
				if g1 != nil {
					use(g1)
				}
				return ""
			})
			guard(func() string { _, s2 = dec(); return "" })
			if s1 != s2 {
				diff++
			}
		}
		e.tally("decoded-then-used")
		e.emit("C17.call", desc, fmt.Sprintf("(m (%d %d %d %d) ())", len(docs), 1, diff, 0))
	}
	for e.count < n {
		switch {
		case r.chance(1, 6):
			// a mix of different functions on one shared geometry
			t := r.wktTree(2, xyzmLayouts[r.Intn(4)])
			g := t.build()
			if r.chance(1, 3) {
				// raw flat geometries: rings need not be closed, parts of any length, several rings/polygons
				g = r.c17RawGeom()
			}
			var calls []*c17Case
			var args [][]any
			if r.chance(1, 2) {
				c17SetSRIDs(g, r) // the geometry, and each member of a collection, carries its own SRID
			}
			for _, c := range geomCases {
				if c.accept(g) && r.chance(3, 4) {
					calls = append(calls, c)
					args = append(args, []any{g})
				}
			}
			// the members of a collection are geometries in their own right: calls on them run at the
			// same time as calls on the collection that holds them
			if gc, ok := g.(*geom.GeometryCollection); ok {
				for _, m := range gc.Geoms() {
					for _, c := range geomCases {
						if c.accept(m) && r.chance(1, 4) {
							calls = append(calls, c)
							args = append(args, []any{m})
						}
					}
				}
			}
			if len(calls) == 0 {
				continue
			}
			emitBatch("mix", calls, args)
		default:
			c := ownCases[r.Intn(len(ownCases))]
			a := c.gen(r)
			emitBatch("same", []*c17Case{c}, [][]any{a})
		}
	}
}

// c17SetSRIDs gives g, and recursively every member of a collection, a non-zero SRID of its own.
func c17SetSRIDs(g geom.T, r *Rng) {
	srid := 1000 + r.Intn(9000)
	switch g := g.(type) {
	case *geom.Point:
		g.SetSRID(srid)
	case *geom.LineString:
		g.SetSRID(srid)
	case *geom.LinearRing:
		g.SetSRID(srid)
	case *geom.Polygon:
		g.SetSRID(srid)
	case *geom.MultiPoint:
		g.SetSRID(srid)
	case *geom.MultiLineString:
		g.SetSRID(srid)
	case *geom.MultiPolygon:
		g.SetSRID(srid)
	case *geom.GeometryCollection:
		g.SetSRID(srid)
		for _, m := range g.Geoms() {
			c17SetSRIDs(m, r)
		}
	}
}

var c17GjBBox = geojson.EncodeGeometryWithBBox()
var c17GjDigits = geojson.EncodeGeometryWithMaxDecimalDigits(4)
var c17WktDigits = wkt.EncodeOptionWithMaxDecimalDigits(3)
var c17Enc = wkt.NewEncoder()
var c17EncMu sync.Mutex
var c17EncDrift int

func containsInt(xs []int, k int) bool {
	for _, x := range xs {
		if x == k {
			return true
		}
	}
	return false
}

// c17DeepChain: the NDR WKB of POINT(1 2) inside depth single-member GeometryCollections (the same
// bytes are WKB and EWKB).
func c17DeepChain(depth int) []byte {
	var b []byte
	for i := 0; i < depth; i++ {
		b = append(b, 1, 7, 0, 0, 0, 1, 0, 0, 0)
	}
	b = append(b, 1, 1, 0, 0, 0)
	b = binary.LittleEndian.AppendUint64(b, math.Float64bits(1))
	b = binary.LittleEndian.AppendUint64(b, math.Float64bits(2))
	return b
}

type c17Barrier struct {
	mu   sync.Mutex
	n    int
	want int
	ch   chan struct{}
}

// c17HoldReader delivers data up to hold, then waits until every reader of the barrier has got there
// (or has given up) before delivering the rest.
type c17HoldReader struct {
	data    []byte
	pos     int
	hold    int
	arrived bool
	bar     *c17Barrier
}

func (h *c17HoldReader) arrive() {
	if h.arrived {
		return
	}
	h.arrived = true
	h.bar.mu.Lock()
	h.bar.n++
	if h.bar.n == h.bar.want {
		close(h.bar.ch)
	}
	h.bar.mu.Unlock()
}

func (h *c17HoldReader) Read(p []byte) (int, error) {
	if h.pos >= len(h.data) {
		return 0, io.EOF
	}
	if h.pos == h.hold {
		h.arrive()
		<-h.bar.ch
	}
	end := len(h.data)
	if h.pos < h.hold {
		end = h.hold
	}
	n := copy(p, h.data[h.pos:end])
	h.pos += n
	return n, nil
}
