package main

import (
	"fmt"
	"strings"

	geom "github.com/twpayne/go-geom"
)

func init() { generators["C02"] = genC02 }

// multi wraps one of the four flat multi-part types behind the history operations.
type multi interface {
	push(r *Rng, l geom.Layout) (spec string, res string)
	rev()
	clone() multi
	swap(o multi)
	num() int
	part(i int) string
	coords() string
	geomT() geom.T
	reserve(n int)
}

// setSRID: every value of a history carries an SRID of its own, which must travel with it.
func setSRID(g geom.T, srid int) {
	switch g := g.(type) {
	case *geom.Polygon:
		g.SetSRID(srid)
	case *geom.MultiLineString:
		g.SetSRID(srid)
	case *geom.MultiPoint:
		g.SetSRID(srid)
	case *geom.MultiPolygon:
		g.SetSRID(srid)
	}
}

func flatOf(cs []geom.Coord) []float64 {
	var f []float64
	for _, c := range cs {
		f = append(f, c...)
	}
	return f
}

func pushRes(err error) string {
	if err != nil {
		return sxErr(err)
	}
	return "(ok u)"
}

func sxG1p(g interface {
	Layout() geom.Layout
	Stride() int
	FlatCoords() []float64
}) string {
	return fmt.Sprintf("(%d %d %s)", int(g.Layout()), g.Stride(), sxCoord(g.FlatCoords()))
}

// coords of one line/ring part: empty with P=1/3 else 1..4 coordinates
func (r *Rng) partCoords1(stride int) []geom.Coord {
	k := 0
	if !r.chance(1, 3) {
		k = 1 + r.Intn(4)
	}
	if stride == 0 {
		k = 0
	}
	cs := make([]geom.Coord, k)
	for i := range cs {
		cs[i] = r.genCoord(stride)
	}
	return cs
}

type mPoly struct{ g *geom.Polygon }

func (m *mPoly) push(r *Rng, l geom.Layout) (string, string) {
	cs := r.partCoords1(l.Stride())
	return sxCoords1(cs), pushRes(m.g.Push(geom.NewLinearRingFlat(l, flatOf(cs))))
}
func (m *mPoly) rev()          { m.g.Reverse() }
func (m *mPoly) clone() multi  { return &mPoly{m.g.Clone()} }
func (m *mPoly) swap(o multi)  { m.g.Swap(o.(*mPoly).g) }
func (m *mPoly) geomT() geom.T { return m.g }
func (m *mPoly) reserve(n int)  { m.g.Reserve(n) }
func (m *mPoly) num() int      { return m.g.NumLinearRings() }
func (m *mPoly) part(i int) string { return sxG1p(m.g.LinearRing(i)) }
func (m *mPoly) coords() string { return sxCoords2(m.g.Coords()) }

type mMLS struct{ g *geom.MultiLineString }

func (m *mMLS) push(r *Rng, l geom.Layout) (string, string) {
	cs := r.partCoords1(l.Stride())
	return sxCoords1(cs), pushRes(m.g.Push(geom.NewLineStringFlat(l, flatOf(cs))))
}
func (m *mMLS) rev()          { m.g.Reverse() }
func (m *mMLS) clone() multi  { return &mMLS{m.g.Clone()} }
func (m *mMLS) swap(o multi)  { m.g.Swap(o.(*mMLS).g) }
func (m *mMLS) geomT() geom.T { return m.g }
func (m *mMLS) reserve(n int)  { m.g.Reserve(n) }
func (m *mMLS) num() int      { return m.g.NumLineStrings() }
func (m *mMLS) part(i int) string {
	ls := m.g.LineString(i)
	out := sxG1p(ls)
	if ls.NumCoords() == 0 && ls.Stride() > 0 {
		// the caller builds on the empty part it was handed: that is the caller's own value
		c := make(geom.Coord, ls.Stride())
		c[0] = 77
		ls.MustSetCoords([]geom.Coord{c, c})
	}
	return out
}
func (m *mMLS) coords() string { return sxCoords2(m.g.Coords()) }

type mMP struct{ g *geom.MultiPoint }

func (m *mMP) push(r *Rng, l geom.Layout) (string, string) {
	if r.chance(1, 3) || l.Stride() == 0 {
		return "nil", pushRes(m.g.Push(geom.NewPointEmpty(l)))
	}
	c := r.genCoord(l.Stride())
	return sxCoord(c), pushRes(m.g.Push(geom.NewPointFlat(l, c)))
}
func (m *mMP) rev()          { m.g.Reverse() }
func (m *mMP) clone() multi  { return &mMP{m.g.Clone()} }
func (m *mMP) swap(o multi)  { m.g.Swap(o.(*mMP).g) }
func (m *mMP) geomT() geom.T { return m.g }
func (m *mMP) reserve(n int)  { m.g.Reserve(n) }
func (m *mMP) num() int      { return m.g.NumPoints() }
func (m *mMP) part(i int) string {
	pt := m.g.Point(i)
	out := sxG1p(pt)
	if pt.Empty() && pt.Stride() > 0 {
		c := make(geom.Coord, pt.Stride())
		c[0] = 77
		pt.MustSetCoords(c)
	}
	return out
}
func (m *mMP) coords() string { return sxMCoords(m.g.Coords()) }

type mMPoly struct{ g *geom.MultiPolygon }

func (m *mMPoly) push(r *Rng, l geom.Layout) (string, string) {
	k := 0
	if !r.chance(1, 3) {
		k = 1 + r.Intn(3)
	}
	css := make([][]geom.Coord, k)
	for i := range css {
		css[i] = r.partCoords1(l.Stride())
	}
	p, err := geom.NewPolygon(l).SetCoords(css)
	if err != nil {
		panic(err)
	}
	return sxCoords2(css), pushRes(m.g.Push(p))
}
func (m *mMPoly) rev()         { m.g.Reverse() }
func (m *mMPoly) clone() multi { return &mMPoly{m.g.Clone()} }
func (m *mMPoly) swap(o multi) { m.g.Swap(o.(*mMPoly).g) }
func (m *mMPoly) geomT() geom.T { return m.g }
func (m *mMPoly) reserve(n int)  { m.g.Reserve(n) }
func (m *mMPoly) num() int     { return m.g.NumPolygons() }
func (m *mMPoly) part(i int) string {
	p := m.g.Polygon(i)
	out := fmt.Sprintf("(%d %d %s %s)", int(p.Layout()), p.Stride(), sxCoord(p.FlatCoords()), sxInts(p.Ends()))
	if p.NumLinearRings() == 0 && p.Stride() > 0 {
		// the caller builds on the empty part it was handed: that is the caller's own value
		c := make([]float64, 4*p.Stride())
		c[0] = 77
		if err := p.Push(geom.NewLinearRingFlat(p.Layout(), c)); err != nil {
			panic(err)
		}
	}
	return out
}
func (m *mMPoly) coords() string { return sxCoords3(m.g.Coords()) }

func newMulti(kind string, l geom.Layout) multi {
	switch kind {
	case "poly":
		return &mPoly{geom.NewPolygon(l)}
	case "mls":
		return &mMLS{geom.NewMultiLineString(l)}
	case "mpoint":
		return &mMP{geom.NewMultiPoint(l)}
	default:
		return &mMPoly{geom.NewMultiPolygon(l)}
	}
}

var c02Kinds = []string{"poly", "mls", "mpoint", "mpoly"}
var c02Layouts = []geom.Layout{geom.XY, geom.XYZ, geom.XYM, geom.XYZM, 5, 6, 8, 9, 12, 17}

// ---- GeometryCollection histories: variadic Push, SetLayout, Layout, NumGeoms, Geom, Geoms ----

func sxMember(g geom.T) string {
	if _, ok := g.(*geom.GeometryCollection); ok { // a nested collection has no flat coordinates of its own
		return fmt.Sprintf("(%d ())", int(g.Layout()))
	}
	return fmt.Sprintf("(%d %s)", int(g.Layout()), sxCoord(g.FlatCoords()))
}

func genC02Coll(r *Rng, e *Emitter) {
	layouts := []geom.Layout{geom.XY, geom.XYZ, geom.XYM, geom.XYZM}
	pref := layouts[r.Intn(4)]
	gc := geom.NewGeometryCollection()
	length := 1 + r.Intn(30)
	var ops, obs []string
	batch := make([]geom.T, 8)
	decoy := geom.T(geom.NewPointFlat(geom.XYZM, []float64{-1, -2, -3, -4}))
	inners := map[geom.T]*geom.GeometryCollection{}
	member := func() geom.T {
		l := pref
		if r.chance(1, 5) {
			l = layouts[r.Intn(4)]
		}
		if r.chance(1, 7) {
			// a collection holding a collection: the caller keeps the inner one and pushes into it later
			inner := geom.NewGeometryCollection()
			inner.MustPush(geom.NewPointFlat(l, r.genCoord(l.Stride())))
			mid := geom.NewGeometryCollection()
			mid.MustPush(inner)
			inners[mid] = inner
			return mid
		}
		if r.chance(1, 2) {
			return geom.NewPointFlat(l, r.genCoord(l.Stride()))
		}
		return geom.NewLineStringFlat(l, flatOf(r.partCoords1(l.Stride())))
	}
	for i := 0; i < length; i++ {
		switch c := r.Intn(20); {
		case c < 8:
			k := r.Intn(4)
			// the caller's own slice, with spare capacity, reused for every batch of this history and
			// scribbled on after the call: the collection must have taken its own copy of the members
			gs := batch[:k]
			parts := make([]string, k)
			for j := range gs {
				gs[j] = member()
				parts[j] = sxMember(gs[j])
			}
			ops = append(ops, "(push "+strings.Join(parts, " ")+")")
			obs = append(obs, guard(func() string { return pushRes(gc.Push(gs...)) }))
			for j := range batch {
				batch[j] = decoy
			}
			e.tally(fmt.Sprintf("op=gc-push-%d", k))
		case c < 11:
			l := pref
			if r.chance(1, 3) {
				l = layouts[r.Intn(4)]
			}
			if r.chance(1, 8) {
				l = geom.NoLayout
			}
			ops = append(ops, fmt.Sprintf("(setlayout %d)", int(l)))
			obs = append(obs, guard(func() string { return pushRes(gc.SetLayout(l)) }))
			e.tally("op=gc-setlayout")
		case c < 12 && len(inners) > 0 && gc.NumGeoms() > 0:
			// the caller grows a nested member it still holds (members are shared, not copied)
			var cand []int
			for k := 0; k < gc.NumGeoms(); k++ {
				if inners[gc.Geom(k)] != nil {
					cand = append(cand, k)
				}
			}
			if len(cand) == 0 {
				continue
			}
			k := cand[r.Intn(len(cand))]
			l := layouts[r.Intn(4)]
			inners[gc.Geom(k)].MustPush(geom.NewPointFlat(l, r.genCoord(l.Stride())))
			ops = append(ops, fmt.Sprintf("(grow %d %d)", k, int(l)))
			obs = append(obs, "(ok u)")
			e.tally("op=gc-grow-nested")
		case c < 13:
			ops = append(ops, "layout")
			obs = append(obs, fmt.Sprint(int(gc.Layout())))
		case c < 15:
			ops = append(ops, "num")
			obs = append(obs, fmt.Sprint(gc.NumGeoms()))
		case c < 17:
			ops = append(ops, "geoms")
			obs = append(obs, sxList(gc.Geoms(), sxMember))
		default:
			i := r.Intn(gc.NumGeoms() + 1)
			if gc.NumGeoms() > 0 && !r.chance(1, 10) {
				i = r.Intn(gc.NumGeoms())
			}
			ops = append(ops, fmt.Sprintf("(geom %d)", i))
			obs = append(obs, guard(func() string { return "(ok " + sxMember(gc.Geom(i)) + ")" }))
		}
	}
	e.tally("type=gc")
	e.emit("C02.hist.gc", "("+strings.Join(ops, " ")+")", "("+strings.Join(obs, " ")+")")
}

func genC02(r *Rng, e *Emitter, n int) {
	for _, kind := range c02Kinds {
		for _, lr := range c02PairLayouts {
			for _, lp := range c02PairLayouts {
				c02Mini(r, e, kind, lr, lp)
			}
		}
	}
	for h := 0; h < n; h++ {
		if r.chance(1, 5) {
			genC02Coll(r, e)
			continue
		}
		kind := c02Kinds[r.Intn(len(c02Kinds))]
		l := c02Layouts[r.Intn(len(c02Layouts))]
		if r.chance(1, 40) {
			l = geom.NoLayout
		}
		maxLen := 40
		if r.chance(1, 50) {
			maxLen = 400
		}
		length := 1 + r.Intn(maxLen)
		g, g2 := newMulti(kind, l), newMulti(kind, l)
		sa, sb := 1111, 2222
		setSRID(g.geomT(), sa)
		setSRID(g2.geomT(), sb)
		var ops, obs []string
		e.tally("type=" + kind)
		e.tally(fmt.Sprintf("layout=%d", int(l)))
		for i := 0; i < length; i++ {
			switch c := r.Intn(20); {
			case c < 8:
				pl := l
				if r.chance(1, 6) {
					pl = c02Layouts[r.Intn(len(c02Layouts))]
				}
				var spec, res string
				res = guard(func() string {
					var rs string
					if mp, ok := g.(*mMPoly); ok && pl == l && l.Stride() > 0 && mp.g.NumPolygons() > 0 && r.chance(1, 6) {
						// the receiver's own last part, given one more ring by the caller (which writes into
						// the receiver's spare capacity) and pushed back onto the same receiver
						p := mp.g.Polygon(mp.g.NumPolygons() - 1)
						p.Push(geom.NewLinearRingFlat(l, flatOf(r.partCoords1(l.Stride()))))
						spec = sxCoords2(p.Coords())
						e.tally("op=push-own-last-part-back")
						return pushRes(mp.g.Push(p))
					}
					spec, rs = g.push(r, pl)
					return rs
				})
				ops = append(ops, fmt.Sprintf("(push %d %s)", int(pl), spec))
				obs = append(obs, res)
				if pl != l {
					e.tally("op=push-wrong-layout")
				} else {
					e.tally("op=push")
				}
			case c < 10:
				ops = append(ops, "rev")
				obs = append(obs, guard(func() string { g.rev(); return "(ok u)" }))
				e.tally("op=rev")
			case c < 11:
				ops = append(ops, "clone")
				g = g.clone()
				obs = append(obs, "u")
				e.tally("op=clone")
			case c < 12:
				if r.chance(1, 2) {
					// the other value becomes a clone of the receiver: from here on both are pushed to
					// (through swap) and observed independently
					ops = append(ops, "fork")
					g2 = g.clone()
					sb = sa
					obs = append(obs, "u")
					e.tally("op=fork")
					break
				}
				ops = append(ops, "swap")
				g.swap(g2)
				sa, sb = sb, sa
				obs = append(obs, "u")
				e.tally("op=swap")
			case c < 14:
				ops = append(ops, "num")
				if r.chance(1, 2) {
					// a capacity hint changes nothing that can be observed
					g.reserve(r.Intn(40))
				}
				if g.geomT().SRID() != sa || g2.geomT().SRID() != sb {
					obs = append(obs, "srid-did-not-travel-with-its-value")
					break
				}
				obs = append(obs, fmt.Sprint(g.num()))
				e.tally("op=num")
			case c < 16:
				ops = append(ops, "coords")
				obs = append(obs, guard(func() string { return "(ok " + g.coords() + ")" }))
				e.tally("op=coords")
			default:
				i := r.Intn(g.num() + 1)
				if g.num() > 0 && !r.chance(1, 10) {
					i = r.Intn(g.num())
				}
				ops = append(ops, fmt.Sprintf("(part %d)", i))
				obs = append(obs, guard(func() string { return "(ok " + g.part(i) + ")" }))
				e.tally("op=part")
			}
		}
		e.emit("C02.hist."+kind, fmt.Sprintf("(%d (%s))", int(l), strings.Join(ops, " ")), "("+strings.Join(obs, " ")+")")
	}
}

// c02Mini: one short history — a part of layout lp pushed onto a fresh receiver of layout lr (a
// second one after it), then the observers — for every pair of layouts incl. no layout at all.
func c02Mini(r *Rng, e *Emitter, kind string, lr, lp geom.Layout) {
	g := newMulti(kind, lr)
	var ops, obs []string
	for k := 0; k < 2; k++ {
		var spec string
		res := guard(func() string {
			var rs string
			spec, rs = g.push(r, lp)
			return rs
		})
		ops = append(ops, fmt.Sprintf("(push %d %s)", int(lp), spec))
		obs = append(obs, res)
		ops = append(ops, "num")
		obs = append(obs, fmt.Sprint(g.num()))
	}
	ops = append(ops, "coords")
	obs = append(obs, guard(func() string { return "(ok " + g.coords() + ")" }))
	if g.num() > 0 {
		ops = append(ops, "(part 0)")
		obs = append(obs, guard(func() string { return "(ok " + g.part(0) + ")" }))
	}
	e.tally("push-layout-pairs")
	e.emit("C02.hist."+kind, fmt.Sprintf("(%d (%s))", int(lr), strings.Join(ops, " ")), "("+strings.Join(obs, " ")+")")
}

var c02PairLayouts = []geom.Layout{geom.NoLayout, geom.XY, geom.XYZ, geom.XYM, geom.XYZM, 5}
