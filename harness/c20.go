package main

import (
	"fmt"
	"math"

	"github.com/twpayne/go-geom/xy"
)

func init() { generators["C20"] = genC20 }

// c20Call emits one SimplifyFlatCoords case.
var c20Calls int

func c20Call(e *Emitter, stride int, thr float64, flat []float64) {
	// one call in seven: the slice goes on for a few ordinates after the last whole point (a window
	// that does not end on a point boundary): the whole points are what is simplified
	c20Calls++
	if c20Calls%7 == 3 && stride > 1 && len(flat) >= stride {
		flat = append(append([]float64{}, flat...), []float64{8, -3.5, 1e9, 0, 7}[:1+c20Calls/7%(stride-1)]...)
		e.tally("trailing-ordinates")
	}
	in := []float64(slot(0, flat...))
	done := false
	var idx, idx2 []int
	e.emitR("C20.simplify", fmt.Sprintf("(%d %s %s)", stride, hexF(thr), sxCoord(flat)), func() string {
		if !done {
			idx = xy.SimplifyFlatCoords(in, thr, stride)
			var flat2 []float64
			for _, k := range idx {
				flat2 = append(flat2, in[k*stride:(k+1)*stride]...)
			}
			idx2 = xy.SimplifyFlatCoords(flat2, thr, stride)
			done = true
		}
		return fmt.Sprintf("(%s %s)", sxInts(idx), sxInts(idx2))
	})
}

func genC20(r *Rng, e *Emitter, n int) {
	// state that survives between calls and wraps around: a zigzag line that keeps every point, then
	// G other calls, then a straight line of the same size that keeps none — for every G around 2^8
	// (and, in the thorough tier, 2^16)
	{
		zig := []float64{0, 0, 1, 5, 2, 0, 3, 5, 4, 0, 5, 5, 6, 0, 7, 5, 8, 0}
		straight := []float64{0, 0, 1, 0, 2, 0, 3, 0, 4, 0, 5, 0, 6, 0, 7, 0, 8, 0}
		filler := []float64{0, 0, 1, 1, 2, 0}
		gaps := []int{}
		for g := 248; g <= 262; g++ {
			gaps = append(gaps, g)
		}
		if n >= 100000 {
			for g := 65528; g <= 65540; g++ {
				gaps = append(gaps, g)
			}
		}
		for _, g := range gaps {
			c20Call(e, 2, 1, zig)
			for k := 0; k < g; k++ {
				xy.SimplifyFlatCoords(filler, 0.5, 2)
			}
			c20Call(e, 2, 1, straight)
			e.tally("wrap-around-gap")
		}
	}
	// very long, densely sampled tracks (2^16 points and more): straight runs in steps of a few
	// thresholds, with small spikes of two or three vertices whose heights straddle the threshold
	{
		sizes := []int{65536 + r.Intn(3), 70000}
		if n >= 100000 {
			sizes = append(sizes, 65535, 65536, 65537, 131073, 100000+r.Intn(50000))
		}
		for _, size := range sizes {
			stride := 2 + r.Intn(2)
			thr := float64(5 + r.Intn(20))
			stepX := float64(1 + r.Intn(12))*thr - float64(r.Intn(5))
			flat := make([]float64, 0, size*stride)
			x := 0.0
			spikeEvery := 3000 + r.Intn(9000)
			np := 0
			add := func(px, py float64) {
				if np >= size {
					return
				}
				flat = append(flat, px, py)
				for o := 2; o < stride; o++ {
					flat = append(flat, float64(np))
				}
				np++
			}
			for np < size {
				add(x, 0)
				if np%spikeEvery == spikeEvery/2 {
					h := float64(1+r.Intn(int(thr))) - 1
					dx := math.Floor(stepX / 2)
					add(x+dx, h)
					h += float64(1 + r.Intn(int(thr)))
					add(x+dx, h)
					if r.chance(1, 2) {
						h += float64(1 + r.Intn(int(thr)))
						add(x+dx+1, h)
					}
				}
				x += stepX
			}
			e.tally("very-long-track")
			c20Call(e, stride, thr, flat)
		}
	}
	// a vertex whose distance from its chord is the threshold itself, or a 2^-41 part more or less
	// (small whole-number chords along an axis or a diagonal: the float distance is then exact)
	for i := 0; i < n/40+12; i++ {
		thr := []float64{0.5, 1, 2, 3, 4, 8}[r.Intn(6)]
		h := thr * (1 + float64(r.Intn(3)-1)*math.Ldexp(1, -41))
		half := float64(1 + r.Intn(6))
		var pts [][2]float64
		switch r.Intn(3) {
		case 0:
			pts = [][2]float64{{0, 0}, {half, h}, {2 * half, 0}}
		case 1:
			pts = [][2]float64{{0, 0}, {-h, half}, {0, 2 * half}}
		default:
			pts = [][2]float64{{0, 0}, {half, h}, {2 * half, 0}, {3 * half, -h}, {4 * half, 0}}
		}
		stride := 2 + r.Intn(2)
		flat := make([]float64, 0, len(pts)*stride)
		for _, q := range pts {
			flat = append(flat, q[0], q[1])
			for o := 2; o < stride; o++ {
				flat = append(flat, r.anyBits())
			}
		}
		e.tally("distance-at-the-threshold")
		c20Call(e, stride, thr, flat)
	}
	for i := 0; i < n; i++ {
		stride := 2 + r.Intn(4)
		size := r.Intn(12)
		switch r.Intn(10) {
		case 0:
			size = r.Intn(3)
		case 1:
			size = 50 + r.Intn(151)
		case 2:
			if r.chance(1, 6) {
				// long lines: deep split trees (sawtooth, spiral) and block boundaries
				size = []int{130, 150, 200, 256, 257, 300, 513, 1024, 1025, 2048}[r.Intn(10)]
			}
		}
		grid := []int{3, 6, 20, 1000}[r.Intn(4)]
		shape := r.Intn(7)
		bigX, bigY := 50000000+r.Intn(100000000), 50000000+r.Intn(100000000)
		stepX, stepY := r.Intn(200001)-100000, r.Intn(200001)-100000
		flat := make([]float64, 0, size*stride)
		px, py := r.Intn(grid), r.Intn(grid)
		for k := 0; k < size; k++ {
			x, y := r.Intn(grid), r.Intn(grid)
			switch shape {
			case 0: // random walk with repeats
				if r.chance(1, 4) {
					x, y = px, py
				} else {
					x, y = px+r.Intn(5)-2, py+r.Intn(5)-2
				}
			case 1: // collinear run along a diagonal with occasional outliers
				x, y = k, k
				if r.chance(1, 6) {
					y += r.Intn(5) - 2
				}
			case 2: // horizontal with noise
				x, y = 3*k, r.Intn(3)
			case 6: // far from the origin, along one long chord, every point a few units off it
				x, y = bigX+k*stepX+r.Intn(13)-6, bigY+k*stepY+r.Intn(13)-6
				if x == bigX+k*stepX && y == bigY+k*stepY {
					x++
				}
			case 5: // unit sawtooth: with a threshold below the tooth height the split tree is one long chain
				x, y = k, k%2
				if size > 60 && r.chance(1, 2) {
					y = (k % 2) * (1 + k/8) // growing teeth: the chain descends to the right
				}
			}
			px, py = x, y
			flat = append(flat, float64(x), float64(y))
			for o := 2; o < stride; o++ {
				flat = append(flat, r.anyBits()) // extra ordinates must be ignored
			}
		}
		offGrid := false
		if shape == 4 && size >= 3 { // closed loop: zero-length chord between first and last point
			copy(flat[(size-1)*stride:], flat[:2])
			if r.chance(1, 3) {
				// ... or a chord that is not quite zero: the track returns to within 2^-540 … 2^-1070 of
				// where it started (the square of the chord's length underflows)
				tinyOff := math.Ldexp(1, -[]int{540, 600, 1000, 1070}[r.Intn(4)])
				li := (size - 1) * stride
				for q, x0, y0 := 0, flat[0], flat[1]; q < len(flat); q += stride { // start at the origin
					flat[q], flat[q+1] = flat[q]-x0, flat[q+1]-y0
				}
				switch r.Intn(3) {
				case 0:
					flat[li] += tinyOff
				case 1:
					flat[li+1] -= tinyOff
				default:
					flat[li] += tinyOff
					flat[li+1] += tinyOff
				}
				e.tally("almost-closed-loop")
				offGrid = true
			}
		}
		thrChoices := []float64{0, 0, math.Copysign(0, -1), 0.5, 1, 1.5, 2, math.Sqrt2, 3, 4, 10, float64(grid)} // (-0 is zero)
		thr := thrChoices[r.Intn(len(thrChoices))]
		if shape == 6 {
			thr = []float64{0, 0.5, 2, 4, 8}[r.Intn(5)]
		} else if r.chance(1, 8) {
			thr = r.Float64() * float64(grid)
		}
		if shape != 6 && r.chance(1, 5) {
			// the same figure at another scale (a power of two: every product and quotient scales
			// exactly, so the retained indexes must be the same): micro-units, or kilometres in mm
			k := []int{-40, -32, -20, -10, 10, 20, 30}[r.Intn(7)]
			sc := math.Ldexp(1, k)
			for q := 0; q < len(flat); q += stride {
				flat[q], flat[q+1] = flat[q]*sc, flat[q+1]*sc
			}
			thr *= sc
			e.tally("scaled")
		}
		if r.chance(1, 40) && len(flat) >= 4 {
			// a call outside the contract (a stride that does not fit the data) may panic; the caller
			// recovers and goes on: the calls after it are as good as ever
			func() {
				defer func() { _ = recover() }()
				xy.SimplifyFlatCoords(flat, thr, 1)
			}()
			func() {
				defer func() { _ = recover() }()
				xy.SimplifyFlatCoords(flat[:len(flat)-1], thr, stride)
			}()
			e.tally("after-a-recovered-panic")
		}
		e.tally(fmt.Sprintf("stride=%d", stride))
		e.tally(fmt.Sprintf("shape=%d", shape))
		if thr == 0 {
			e.tally("threshold=0")
		}
		if size >= 50 {
			e.tally("size>=50")
		}
		if r.chance(1, 7) && stride > 1 && len(flat) >= stride {
			// the slice goes on for a few ordinates after the last whole point
			flat = append(append([]float64{}, flat...), []float64{8, -3.5, 1e9, 0, 7}[:1+r.Intn(stride-1)]...)
			e.tally("trailing-ordinates")
		}
		in := []float64(slot(0, flat...)) // the caller's buffer is reused for every call
		done := false
		short := ""
		var idx, idx2 []int
		op := "C20.simplify"
		if offGrid {
			op = "C20.simplifyx" // (off the integer grid: judged to 10^-9 of the coordinate scale)
		}
		e.emitR(op, fmt.Sprintf("(%d %s %s)", stride, hexF(thr), sxCoord(flat)), func() string {
			if !done {
				idx = xy.SimplifyFlatCoords(in, thr, stride)
				var flat2 []float64
				for _, k := range idx {
					flat2 = append(flat2, in[k*stride:(k+1)*stride]...)
				}
				idx2 = xy.SimplifyFlatCoords(flat2, thr, stride)
				done = true
				if size < 3 {
					// the index slice belongs to the caller, who may renumber it in place (parts of a
					// multi-geometry); rendered first, and for these short cases not re-read later
					short = fmt.Sprintf("(%s %s)", sxInts(idx), sxInts(idx2))
					for q := range idx {
						idx[q] += 1000
					}
					for q := range idx2 {
						idx2[q] += 2000
					}
				}
			}
			if short != "" {
				return short
			}
			return fmt.Sprintf("(%s %s)", sxInts(idx), sxInts(idx2))
		})
	}
}
