package main

import (
	"database/sql"
	"database/sql/driver"
	"fmt"

	geom "github.com/twpayne/go-geom"
	"github.com/twpayne/go-geom/encoding/ewkb"
	"github.com/twpayne/go-geom/encoding/wkb"
)

type sqlVal interface {
	driver.Valuer
	sql.Scanner
}

// wrappers returns (wrapper holding g, fresh wrapper of the same type, fresh wrapper of another type, getter).
func wkbWrappers(g geom.T) (sqlVal, sqlVal, sqlVal, func(sqlVal) geom.T) {
	switch g := g.(type) {
	case *geom.Point:
		return &wkb.Point{Point: g}, &wkb.Point{}, &wkb.LineString{}, func(v sqlVal) geom.T { return v.(*wkb.Point).Point }
	case *geom.LineString:
		return &wkb.LineString{LineString: g}, &wkb.LineString{}, &wkb.Polygon{}, func(v sqlVal) geom.T { return v.(*wkb.LineString).LineString }
	case *geom.Polygon:
		return &wkb.Polygon{Polygon: g}, &wkb.Polygon{}, &wkb.MultiPoint{}, func(v sqlVal) geom.T { return v.(*wkb.Polygon).Polygon }
	case *geom.MultiPoint:
		return &wkb.MultiPoint{MultiPoint: g}, &wkb.MultiPoint{}, &wkb.MultiLineString{}, func(v sqlVal) geom.T { return v.(*wkb.MultiPoint).MultiPoint }
	case *geom.MultiLineString:
		return &wkb.MultiLineString{MultiLineString: g}, &wkb.MultiLineString{}, &wkb.MultiPolygon{}, func(v sqlVal) geom.T { return v.(*wkb.MultiLineString).MultiLineString }
	case *geom.MultiPolygon:
		return &wkb.MultiPolygon{MultiPolygon: g}, &wkb.MultiPolygon{}, &wkb.GeometryCollection{}, func(v sqlVal) geom.T { return v.(*wkb.MultiPolygon).MultiPolygon }
	case *geom.GeometryCollection:
		return &wkb.GeometryCollection{GeometryCollection: g}, &wkb.GeometryCollection{}, &wkb.Point{}, func(v sqlVal) geom.T { return v.(*wkb.GeometryCollection).GeometryCollection }
	}
	return nil, nil, nil, nil
}

func ewkbWrappers(g geom.T) (sqlVal, sqlVal, sqlVal, func(sqlVal) geom.T) {
	switch g := g.(type) {
	case *geom.Point:
		return &ewkb.Point{Point: g}, &ewkb.Point{}, &ewkb.LineString{}, func(v sqlVal) geom.T { return v.(*ewkb.Point).Point }
	case *geom.LineString:
		return &ewkb.LineString{LineString: g}, &ewkb.LineString{}, &ewkb.Polygon{}, func(v sqlVal) geom.T { return v.(*ewkb.LineString).LineString }
	case *geom.Polygon:
		return &ewkb.Polygon{Polygon: g}, &ewkb.Polygon{}, &ewkb.MultiPoint{}, func(v sqlVal) geom.T { return v.(*ewkb.Polygon).Polygon }
	case *geom.MultiPoint:
		return &ewkb.MultiPoint{MultiPoint: g}, &ewkb.MultiPoint{}, &ewkb.MultiLineString{}, func(v sqlVal) geom.T { return v.(*ewkb.MultiPoint).MultiPoint }
	case *geom.MultiLineString:
		return &ewkb.MultiLineString{MultiLineString: g}, &ewkb.MultiLineString{}, &ewkb.MultiPolygon{}, func(v sqlVal) geom.T { return v.(*ewkb.MultiLineString).MultiLineString }
	case *geom.MultiPolygon:
		return &ewkb.MultiPolygon{MultiPolygon: g}, &ewkb.MultiPolygon{}, &ewkb.GeometryCollection{}, func(v sqlVal) geom.T { return v.(*ewkb.MultiPolygon).MultiPolygon }
	case *geom.GeometryCollection:
		return &ewkb.GeometryCollection{GeometryCollection: g}, &ewkb.GeometryCollection{}, &ewkb.Point{}, func(v sqlVal) geom.T { return v.(*ewkb.GeometryCollection).GeometryCollection }
	}
	return nil, nil, nil, nil
}

func sqlRoundTrip(format string, g geom.T) string {
	var holder, same, other sqlVal
	var get func(sqlVal) geom.T
	if format == "ewkb" {
		holder, same, other, get = ewkbWrappers(g)
	} else {
		holder, same, other, get = wkbWrappers(g)
	}
	v, err := holder.Value()
	if err != nil {
		return sxErr(err)
	}
	bs, ok := v.([]byte)
	if !ok {
		return "(err other)"
	}
	dec := "(err other)"
	if err := same.Scan(bs); err != nil {
		dec = sxErr(err)
	} else {
		dec = "(ok " + observe(get(same)) + ")"
	}
	wrong := "no-error"
	if err := other.Scan(bs); err != nil {
		wrong = sxErr(err)
		if wrong == "(err unexpectedType)" {
			wrong = "unexpectedType"
		} else {
			wrong = "other-error"
		}
	}
	// a NULL scanned into a wrapper that holds a geometry (one destination reused for every row of a
	// nullable column) leaves it holding none: its Value is then NULL, not the previous row's bytes
	// (the ewkb wrappers: the wkb ones take byte slices only)
	if format == "ewkb" && dec != "(err other)" && wrong == "unexpectedType" {
		if err := same.Scan(nil); err != nil {
			wrong = "null-not-accepted"
		} else if v2, err := same.Value(); err != nil || v2 != nil {
			wrong = "null-did-not-reset"
		}
	}
	return fmt.Sprintf("(ok %s %s %s)", hexOrDash(bs), dec, wrong)
}
