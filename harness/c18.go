package main

import (
	"encoding/hex"
	"fmt"
	"math"
	"strconv"
	"strings"

	geom "github.com/twpayne/go-geom"
	"github.com/twpayne/go-geom/encoding/geojson"
	"github.com/twpayne/go-geom/encoding/wkt"
)

var c18Encoders = map[int]*wkt.Encoder{}

func init() { generators["C18"] = genC18 }

// finite ordinates that stress decimal rounding
// machineBoundaries: whole numbers at the edges of the machine integer types and of float64's
// exact-integer range, where integer fast paths and conversions change behaviour.
var machineBoundaries = func() []float64 {
	var out []float64
	for _, e := range []int{7, 8, 15, 16, 31, 32, 52, 53, 62, 63, 64, 65, 127, 128} {
		p := math.Ldexp(1, e)
		out = append(out, p, -p, p-1, -(p - 1), math.Nextafter(p, 0), math.Nextafter(p, math.Inf(1)), -math.Nextafter(p, 0))
	}
	return append(out, 1e15, 1e16, 1e17, 1e20, 1e21, 1e22, 999999999999999.9, 4503599627370496.5, 9007199254740993)
}()

func (r *Rng) decimalOrd() float64 {
	if r.chance(1, 12) {
		return machineBoundaries[r.Intn(len(machineBoundaries))]
	}
	switch r.Intn(15) {
	case 14:
		// a few significant digits far behind (or before) the decimal point: 1e-24, 2.5e-25, 7.5e27 —
		// the float64 nearest to a short decimal numeral
		v, _ := strconv.ParseFloat(fmt.Sprintf("%de%d", r.Intn(19999)-9999, r.Intn(71)-45), 64)
		return v
	case 0:
		return 0
	case 1:
		return math.Copysign(0, -1)
	case 2: // exact binary ties at d decimals (k/2^j)
		return float64(r.Intn(4001)-2000) / float64(int(1)<<uint(1+r.Intn(6)))
	case 3: // .5 ties around integers
		return float64(r.Intn(2001)-1000) + 0.5
	case 4: // near ties in decimal: x.xx5
		return float64(r.Intn(200001)-100000)/1000 + 0.0005
	case 5: // rounds across a power of ten
		return []float64{9.995, 99.9995, 0.9999999, 999999.9999995, -9.9999, 0.09999999999}[r.Intn(6)]
	case 6: // tiny
		return (r.Float64() - 0.5) * math.Pow(10, -float64(r.Intn(25)))
	case 7: // huge
		return (r.Float64() - 0.5) * math.Pow(10, float64(r.Intn(300)))
	case 8: // negative that rounds to zero
		return -math.Pow(10, -float64(1+r.Intn(18))) * r.Float64()
	case 9:
		return float64(r.Intn(2000001)-1000000) / 100
	case 10:
		return math.Float64frombits(r.Uint64()&0x7FEFFFFFFFFFFFFF) * float64(1-2*r.Intn(2))
	case 11:
		return float64(r.Intn(100)) * 10 // integers ending in zero
	default:
		return (r.Float64() - 0.5) * 360
	}
}

func (r *Rng) decCoord(s int) geom.Coord {
	c := make(geom.Coord, s)
	for i := range c {
		c[i] = r.decimalOrd()
	}
	return c
}

func (r *Rng) decTree(depth int, l geom.Layout, allowEmpty bool) *gtree {
	s := l.Stride()
	t := &gtree{layout: l}
	size := func() int {
		if allowEmpty && r.chance(1, 5) {
			return 0
		}
		return 1 + r.Intn(3)
	}
	cs1 := func() []geom.Coord {
		cs := make([]geom.Coord, size())
		for i := range cs {
			cs[i] = r.decCoord(s)
		}
		return cs
	}
	k := r.Intn(8)
	if depth == 0 && k == 7 {
		k = r.Intn(7)
	}
	switch k {
	case 0:
		t.kind = "pt"
		if !(allowEmpty && r.chance(1, 6)) {
			t.pt = r.decCoord(s)
		}
	case 1:
		t.kind, t.c1 = "ls", cs1()
	case 2, 3:
		t.kind = "pg"
		if k == 3 {
			t.kind = "mls"
		}
		t.c2 = make([][]geom.Coord, size())
		for i := range t.c2 {
			t.c2[i] = cs1()
		}
	case 4:
		t.kind = "mp"
		t.c1 = make([]geom.Coord, size())
		for i := range t.c1 {
			if !(allowEmpty && r.chance(1, 5)) {
				t.c1[i] = r.decCoord(s)
			}
		}
	case 5, 6:
		t.kind = "mpg"
		t.c3 = make([][][]geom.Coord, size())
		for i := range t.c3 {
			t.c3[i] = make([][]geom.Coord, size())
			for j := range t.c3[i] {
				t.c3[i][j] = cs1()
			}
		}
	default:
		t.kind = "gc"
		for i := 1 + r.Intn(3); i > 0; i-- {
			t.members = append(t.members, r.decTree(depth-1, l, allowEmpty))
		}
		t.layout = geom.NoLayout
	}
	return t
}

func (t *gtree) hasCoords() bool {
	switch t.kind {
	case "pt":
		return t.pt != nil
	case "ls", "mp":
		for _, c := range t.c1 {
			if c != nil {
				return true
			}
		}
		return false
	case "pg", "mls":
		for _, c := range t.c2 {
			if len(c) > 0 {
				return true
			}
		}
		return false
	case "mpg":
		for _, p := range t.c3 {
			for _, c := range p {
				if len(c) > 0 {
					return true
				}
			}
		}
		return false
	}
	for _, m := range t.members {
		if m.hasCoords() {
			return true
		}
	}
	return false
}

var c18Shared *wkt.Encoder

func genC18(r *Rng, e *Emitter, n int) {
	for i := 0; i < n; i++ {
		d := r.Intn(16)
		e.tally(fmt.Sprintf("d=%d", d))
		if r.chance(1, 2) {
			l := xyzmLayouts[r.Intn(4)]
			t := r.decTree(2, l, true)
			g := t.build()
			e.tally("format=wkt")
			// half of the texts come from one long-lived Encoder per digit count; every text is kept and
			// read again after later calls (a text once returned does not change)
			persist := r.chance(1, 2)
			var kept string
			ok := false
			in := fmt.Sprintf("(%d %s)", d, t.sx())
			e.emit("C18.wkt", in, guard(func() string {
				var s string
				var err error
				if persist && len(in)%2 == 0 {
					// one Encoder for the whole run whose limit the caller sets before each text (an option
					// is a function on the Encoder: it can be applied to one that exists already)
					if c18Shared == nil {
						c18Shared = wkt.NewEncoder()
					}
					wkt.EncodeOptionWithMaxDecimalDigits(d)(c18Shared)
					s, err = c18Shared.Encode(g)
				} else if persist {
					if c18Encoders[d] == nil {
						c18Encoders[d] = wkt.NewEncoder(wkt.EncodeOptionWithMaxDecimalDigits(d))
					}
					s, err = c18Encoders[d].Encode(g)
				} else {
					// the option may be given more than once (defaults, then an override): the last one counts
					o := []wkt.EncodeOption{wkt.EncodeOptionWithMaxDecimalDigits(d)}
					for k := len(in) % 3; k > 0; k-- {
						o = append([]wkt.EncodeOption{wkt.EncodeOptionWithMaxDecimalDigits((d + 7*k) % 16)}, o...)
					}
					s, err = wkt.Marshal(g, o...)
				}
				if err != nil {
					return sxErr(err)
				}
				kept, ok = s, true
				return "(ok " + hex.EncodeToString([]byte(s)) + ")"
			}))
			if ok {
				e.watch("C18.wkt", in, func() string { return "(ok " + hex.EncodeToString([]byte(kept)) + ")" })
			}
			continue
		}
		l := []geom.Layout{geom.XY, geom.XYZ, geom.XYZM}[r.Intn(3)]
		bbox := r.chance(1, 2)
		t := r.decTree(2, l, !bbox) // bounding box only for geometries with coordinates
		if bbox && (!t.hasCoords() || t.kind == "gc") {
			bbox = false
		}
		g := t.build()
		order := r.Intn(2)
		bb := "nobbox"
		var opts []geojson.EncodeGeometryOption
		if bbox {
			bb = "bbox"
			if order == 0 {
				opts = []geojson.EncodeGeometryOption{geojson.EncodeGeometryWithBBox(), geojson.EncodeGeometryWithMaxDecimalDigits(d)}
			} else {
				opts = []geojson.EncodeGeometryOption{geojson.EncodeGeometryWithMaxDecimalDigits(d), geojson.EncodeGeometryWithBBox()}
			}
			e.tally(fmt.Sprintf("bbox-order=%d", order))
		} else {
			opts = []geojson.EncodeGeometryOption{geojson.EncodeGeometryWithMaxDecimalDigits(d)}
		}
		withCRS := false
		if r.chance(1, 3) {
			withCRS = true
			// a third option (a CRS member for the document) in any position among the others
			crsOpt := geojson.EncodeGeometryWithCRS(&geojson.CRS{Type: "name", Properties: map[string]interface{}{"name": "EPSG:4326"}})
			k := r.Intn(len(opts) + 1)
			opts = append(opts[:k:k], append([]geojson.EncodeGeometryOption{crsOpt}, opts[k:]...)...)
			e.tally(fmt.Sprintf("crs-option-at=%d-of-%d", k, len(opts)))
		}
		e.tally("format=geojson")
		e.emit("C18.geojson", fmt.Sprintf("(%d %s %d %s)", d, bb, order, t.sx()), guard(func() string {
			if len(opts)%2 == 1 {
				// an option list with an unset placeholder in it, used for two calls in a row: the second
				// call is given what the first was given
				opts = append([]geojson.EncodeGeometryOption{{}}, opts...)
				if _, err := geojson.Marshal(g, opts...); err != nil {
					return "(err other)"
				}
			}
			b, err := geojson.Marshal(g, opts...)
			if err != nil {
				return "(err other)"
			}
			if withCRS {
				// the member the third option asked for is there, once; it is no concern of this
				// property and is taken out of the document before the document is judged
				const member = `"crs":{"type":"name","properties":{"name":"EPSG:4326"}},`
				if strings.Count(string(b), member) != 1 {
					return "(crs-member-lost " + hex.EncodeToString(b) + ")"
				}
				b = []byte(strings.Replace(string(b), member, "", 1))
			}
			// the document must still be one the library's own decoder reads, with the same parts
			var g2, gp geom.T
			if err := geojson.Unmarshal(b, &g2); err != nil {
				// (judged against the plain encoding: a MultiPoint of EMPTY members only reads back
				// under neither)
				if bp, err := geojson.Marshal(g); err != nil || geojson.Unmarshal(bp, &gp) != nil {
					return "(ok " + hex.EncodeToString(b) + ")"
				}
				return "(undecodable " + hex.EncodeToString(b) + ")"
			}
			_, isGC := g.(*geom.GeometryCollection)
			_, isGC2 := g2.(*geom.GeometryCollection)
			if !isGC && !isGC2 && fmt.Sprint(g2.Ends(), g2.Endss()) != fmt.Sprint(g.Ends(), g.Endss()) && g.Layout() != geom.XYM {
				return "(parts-changed " + hex.EncodeToString(b) + ")"
			}
			return "(ok " + hex.EncodeToString(b) + ")"
		}))
	}
}
