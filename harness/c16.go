package main

import (
	"fmt"
	"math"
	"sort"
	"strings"

	geom "github.com/twpayne/go-geom"
)

func init() { generators["C16"] = genC16 }

func hexI(i int) string { return fmt.Sprintf("%016x", uint64(i)) }

func sxIntsHex(xs []int) string {
	if xs == nil {
		return "nil"
	}
	return sxList(xs, hexI)
}
func sxFloatsOpt(xs []float64) string {
	if xs == nil {
		return "nil"
	}
	return sxCoord(xs)
}

// c16obj: one cloneable value behind the history operations.
type c16obj interface {
	snap() string
	clone() c16obj
}

type c16geom struct {
	kind string // g1 g2poly g2mp g3
	g    geom.T
}

func (o *c16geom) snap() string {
	g := o.g
	parts := []string{sxFloatsOpt(g.FlatCoords())}
	switch o.kind {
	case "g2poly", "g2mp":
		parts = append(parts, sxIntsHex(g.Ends()))
	case "g3":
		for _, row := range g.Endss() {
			parts = append(parts, sxIntsHex(row))
		}
	}
	return fmt.Sprintf("((%d %d %d) (%s))", int(g.Layout()), g.Stride(), g.SRID(), strings.Join(parts, " "))
}

func (o *c16geom) clone() c16obj {
	switch g := o.g.(type) {
	case *geom.Point:
		return &c16geom{o.kind, g.Clone()}
	case *geom.LineString:
		return &c16geom{o.kind, g.Clone()}
	case *geom.LinearRing:
		return &c16geom{o.kind, g.Clone()}
	case *geom.Polygon:
		return &c16geom{o.kind, g.Clone()}
	case *geom.MultiLineString:
		return &c16geom{o.kind, g.Clone()}
	case *geom.MultiPoint:
		return &c16geom{o.kind, g.Clone()}
	case *geom.MultiPolygon:
		return &c16geom{o.kind, g.Clone()}
	}
	panic("unreachable")
}

// w: how many dimensions the box holds (Set with more values than the layout's stride widens it
// without changing the layout)
type c16bounds struct {
	b *geom.Bounds
	w int
}

func (o *c16bounds) snap() (out string) {
	defer func() {
		if recover() != nil {
			out = "(panic)" // a dimension the box was given is no longer there
		}
	}()
	s := o.w
	mn, mx := make([]float64, s), make([]float64, s)
	for i := 0; i < s; i++ {
		mn[i], mx[i] = o.b.Min(i), o.b.Max(i)
	}
	return fmt.Sprintf("((%d) (%s %s))", int(o.b.Layout()), sxCoord(mn), sxCoord(mx))
}
func (o *c16bounds) clone() c16obj { return &c16bounds{o.b.Clone(), o.w} }

type c16coord struct{ c geom.Coord }

func (o *c16coord) snap() string  { return fmt.Sprintf("(() (%s))", sxFloatsOpt(o.c)) }
func (o *c16coord) clone() c16obj { return &c16coord{o.c.Clone()} }

// spare: slice of n values inside an array with extra capacity
func (r *Rng) spareFloats(n int) ([]float64, int) {
	extra := 0
	if r.chance(1, 2) {
		extra = 1 + r.Intn(8)
	}
	buf := make([]float64, n, n+extra)
	for i := range buf {
		buf[i] = r.anyBits()
	}
	if r.chance(1, 10) {
		// every value the same special bit pattern (all the canonical NaN: the WKB stand-in for an
		// empty point — but here they are coordinates like any other)
		v := math.Float64frombits(specialBits[r.Intn(len(specialBits))])
		for i := range buf {
			buf[i] = v
		}
	}
	return buf, n + extra
}

func spareInts(r *Rng, xs []int) ([]int, int) {
	extra := 0
	if r.chance(1, 2) {
		extra = 1 + r.Intn(4)
	}
	buf := make([]int, len(xs), len(xs)+extra)
	copy(buf, xs)
	return buf, len(xs) + extra
}

func initSlice(cp int, body string) string { return fmt.Sprintf("(%d %s)", cp, body) }

func genC16(r *Rng, e *Emitter, n int) {
	layouts := []geom.Layout{geom.XY, geom.XYZ, geom.XYM, geom.XYZM, 5}
	for h := 0; h < n; h++ {
		l := layouts[r.Intn(len(layouts))]
		s := l.Stride()
		srid := 0
		if r.chance(1, 2) {
			srid = r.Intn(100000)
		}
		var a c16obj
		var kind, scal string
		var inits []string
		ncoord := 0
		if !r.chance(1, 4) {
			ncoord = 1 + r.Intn(5)
		}
		if h < 3 {
			// very large geometries (copy loops that split their work, pooled buffers): a whole number of
			// coordinates just past 65536 ordinates, a power of two, and an odd size
			ncoord = []int{40001, 32768, 16385}[h]
		}
		noLayout := h >= 3 && r.chance(1, 25)
		pick := r.Intn(9)
		if noLayout {
			// a geometry without a layout built from a caller's array that does hold numbers (the flat
			// constructors check nothing): still a value of its own once cloned
			l, s, pick = geom.NoLayout, 0, 9
		}
		switch pick {
		case 9:
			kind = "g1"
			f, cp := r.spareFloats(1 + r.Intn(5))
			if r.chance(1, 2) {
				a = &c16geom{kind, geom.NewLineStringFlat(l, f).SetSRID(srid)}
			} else {
				a = &c16geom{kind, geom.NewPointFlat(l, f).SetSRID(srid)}
			}
			inits = []string{initSlice(cp, sxCoord(f))}
			e.tally("no-layout-with-ordinates")
		case 0: // Point
			kind = "g1"
			if ncoord == 0 {
				if r.chance(1, 2) {
					a = &c16geom{kind, geom.NewPointEmpty(l).SetSRID(srid)}
					inits = []string{"nil"}
				} else {
					f, cp := r.spareFloats(0)
					a = &c16geom{kind, geom.NewPointFlat(l, f).SetSRID(srid)}
					inits = []string{initSlice(cp, sxCoord(f))}
				}
			} else {
				f, cp := r.spareFloats(s)
				a = &c16geom{kind, geom.NewPointFlat(l, f).SetSRID(srid)}
				inits = []string{initSlice(cp, sxCoord(f))}
			}
		case 1, 2: // LineString / LinearRing
			kind = "g1"
			f, cp := r.spareFloats(s * ncoord)
			if r.chance(1, 2) {
				a = &c16geom{kind, geom.NewLineStringFlat(l, f).SetSRID(srid)}
			} else {
				a = &c16geom{kind, geom.NewLinearRingFlat(l, f).SetSRID(srid)}
			}
			inits = []string{initSlice(cp, sxCoord(f))}
			if ncoord == 0 && r.chance(1, 3) {
				a = &c16geom{kind, geom.NewLineString(l).SetSRID(srid)}
				inits = []string{"nil"}
			}
		case 3, 4: // Polygon / MultiLineString
			kind = "g2poly"
			f, cp := r.spareFloats(s * ncoord)
			var ends []int
			if ncoord > 0 {
				k := 1 + r.Intn(ncoord)
				if k < ncoord {
					ends = append(ends, k*s)
				}
				ends = append(ends, ncoord*s)
			} else if r.chance(1, 2) {
				ends = []int{0}
			}
			var ei string
			if ends == nil && r.chance(1, 2) {
				ei = "nil"
			} else {
				var cpe int
				ends, cpe = spareInts(r, ends)
				ei = initSlice(cpe, sxIntsHex(ends))
			}
			if r.chance(1, 2) {
				a = &c16geom{kind, geom.NewPolygonFlat(l, f, ends).SetSRID(srid)}
			} else {
				a = &c16geom{kind, geom.NewMultiLineStringFlat(l, f, ends).SetSRID(srid)}
			}
			inits = []string{initSlice(cp, sxCoord(f)), ei}
		case 5: // MultiPoint
			kind = "g2mp"
			f, cp := r.spareFloats(s * ncoord)
			ends := []int{}
			for i := 1; i <= ncoord; i++ {
				if r.chance(1, 4) {
					ends = append(ends, (i-1)*s)
				}
				ends = append(ends, i*s)
			}
			if ncoord >= 2 && r.chance(1, 5) {
				// as many ends as coordinates, the last one at the end of the array, the others anywhere
				// before it in order (the flat constructor takes what it is given): still copied as they are
				ends = make([]int, ncoord)
				for i := range ends {
					ends[i] = s * r.Intn(ncoord+1)
				}
				sort.Ints(ends)
				ends[ncoord-1] = ncoord * s
				e.tally("mpoint-ends-not-canonical")
			}
			ends, cpe := spareInts(r, ends)
			a = &c16geom{kind, geom.NewMultiPointFlat(l, f, geom.NewMultiPointFlatOptionWithEnds(ends)).SetSRID(srid)}
			inits = []string{initSlice(cp, sxCoord(f)), initSlice(cpe, sxIntsHex(ends))}
		case 6: // MultiPolygon
			kind = "g3"
			f, cp := r.spareFloats(s * ncoord)
			inits = []string{initSlice(cp, sxCoord(f))}
			var endss [][]int
			if ncoord > 0 {
				k := 1 + r.Intn(ncoord)
				rows := [][]int{{k * s}}
				if k < ncoord {
					if r.chance(1, 2) {
						rows = append(rows, []int{ncoord * s})
					} else {
						rows[0] = append(rows[0], ncoord*s)
					}
				}
				if r.chance(1, 3) {
					rows = append(rows, nil)
				}
				if r.chance(1, 40) {
					// one polygon with a great many rings (all but the first few empty): a long row
					j := r.Intn(len(rows))
					if rows[j] != nil {
						last := rows[j][len(rows[j])-1]
						for want := []int{1023, 1024, 1025, 1201, 2049}[r.Intn(5)]; len(rows[j]) < want; {
							rows[j] = append(rows[j], last)
						}
						e.tally("long-row-of-ring-ends")
					}
				}
				for _, row := range rows {
					if row == nil {
						endss = append(endss, nil)
						inits = append(inits, "nil")
					} else {
						rr, cpe := spareInts(r, row)
						endss = append(endss, rr)
						inits = append(inits, initSlice(cpe, sxIntsHex(rr)))
					}
				}
			}
			if r.chance(1, 2) { // spare capacity in the outer slice of rows too
				outer := make([][]int, len(endss), len(endss)+3)
				copy(outer, endss)
				endss = outer
			}
			a = &c16geom{kind, geom.NewMultiPolygonFlat(l, f, endss).SetSRID(srid)}
		case 7: // Bounds, possibly with inverted (empty) dimensions
			kind = "bounds"
			b := geom.NewBounds(l)
			w := s
			if !r.chance(1, 4) {
				if r.chance(1, 4) {
					w = s + 1 + r.Intn(3) // more values than the layout has dimensions
				}
				args := make([]float64, 2*w)
				for i := range args {
					args[i] = float64(r.Intn(11) - 5)
				}
				b.Set(args...)
			}
			a = &c16bounds{b, w}
			mn, mx := make([]float64, w), make([]float64, w)
			for i := 0; i < w; i++ {
				mn[i], mx[i] = b.Min(i), b.Max(i)
			}
			inits = []string{initSlice(w, sxCoord(mn)), initSlice(w, sxCoord(mx))}
			scal = fmt.Sprintf("(%d)", int(l))
		default: // Coord
			kind = "coord"
			if r.chance(1, 5) {
				a = &c16coord{nil}
				inits = []string{"nil"}
			} else {
				f, cp := r.spareFloats(r.Intn(6))
				a = &c16coord{f}
				inits = []string{initSlice(cp, sxCoord(f))}
			}
			scal = "()"
		}
		if scal == "" {
			scal = fmt.Sprintf("(%d %d %d)", int(l), s, srid)
		}
		e.tally("kind=" + kind)
		b := a.clone()
		c16sides = [2]c16obj{a, b}
		obs := []string{"(" + a.snap() + " " + b.snap() + ")"}
		var muts []string
		nops := r.Intn(9)
		for i := 0; i < nops; i++ {
			side, tag := a, "o"
			if r.chance(1, 2) {
				side, tag = b, "c"
			}
			m := c16mutate(r, e, kind, l, side, i == nops-1)
			if m == "" {
				continue
			}
			muts = append(muts, "("+tag+" "+m+")")
			obs = append(obs, "("+a.snap()+" "+b.snap()+")")
		}
		e.emit("C16.hist", fmt.Sprintf("(%s %s (%s) (%s))", kind, scal, strings.Join(inits, " "), strings.Join(muts, " ")),
			"("+strings.Join(obs, " ")+")")
	}
}

var c16sides [2]c16obj

func flipBit(c geom.Coord) {
	for i := range c {
		c[i] = math.Float64frombits(math.Float64bits(c[i]) ^ 1)
	}
}

// c16mutate performs one public mutation on o and returns its wire form ("" = nothing done).
func c16mutate(r *Rng, e *Emitter, kind string, l geom.Layout, o c16obj, last bool) string {
	s := l.Stride()
	switch v := o.(type) {
	case *c16coord:
		if len(v.c) == 0 {
			return ""
		}
		i := r.Intn(len(v.c))
		x := r.anyBits()
		v.c[i] = x
		e.tally("mut=setOrd")
		return fmt.Sprintf("(setOrd %d %s)", i, hexF(x))
	case *c16bounds:
		args := make([]float64, 2*s)
		for i := range args {
			args[i] = float64(r.Intn(11) - 5)
		}
		v.b.Set(args...)
		e.tally("mut=boundsSet")
		return fmt.Sprintf("(boundsSet %s %s)", sxCoord(args[:s]), sxCoord(args[s:]))
	case *c16geom:
		g := v.g
		choice := r.Intn(6)
		if last && r.chance(1, 2) {
			choice = 6
		}
		if s == 0 && len(g.FlatCoords()) > 0 {
			choice = 0 // (stride 0: only direct writes; Reverse and TransformInPlace are for laid-out geometries)
		}
		switch choice {
		case 0:
			f := g.FlatCoords()
			if len(f) == 0 {
				return ""
			}
			i := r.Intn(len(f))
			x := r.anyBits()
			f[i] = x
			e.tally("mut=setOrd")
			return fmt.Sprintf("(setOrd %d %s)", i, hexF(x))
		case 1:
			switch gg := g.(type) {
			case *geom.LineString:
				gg.Reverse()
			case *geom.LinearRing:
				gg.Reverse()
			case *geom.Polygon:
				gg.Reverse()
			case *geom.MultiLineString:
				gg.Reverse()
			case *geom.MultiPoint:
				gg.Reverse()
			case *geom.MultiPolygon:
				gg.Reverse()
			default:
				return ""
			}
			e.tally("mut=reverse")
			return "reverse"
		case 2:
			if len(g.FlatCoords()) == 0 {
				return ""
			}
			geom.TransformInPlace(g, flipBit)
			e.tally("mut=xform")
			return "xform"
		case 3, 4:
			k := 0
			if !r.chance(1, 4) {
				k = 1 + r.Intn(3)
			}
			pf := make([]float64, k*s)
			for i := range pf {
				pf[i] = r.anyBits()
			}
			e.tally("mut=push")
			switch gg := g.(type) {
			case *geom.Polygon:
				gg.Push(geom.NewLinearRingFlat(l, pf))
				return fmt.Sprintf("(push %s ())", sxCoord(pf))
			case *geom.MultiLineString:
				gg.Push(geom.NewLineStringFlat(l, pf))
				return fmt.Sprintf("(push %s ())", sxCoord(pf))
			case *geom.MultiPoint:
				if k == 0 {
					gg.Push(geom.NewPointEmpty(l))
					return "(push () ())"
				}
				gg.Push(geom.NewPointFlat(l, pf[:s]))
				return fmt.Sprintf("(push %s ())", sxCoord(pf[:s]))
			case *geom.MultiPolygon:
				var pends []int
				if k > 0 {
					cut := 1 + r.Intn(k)
					if cut < k {
						pends = append(pends, cut*s)
					}
					pends = append(pends, k*s)
				} else if r.chance(1, 2) {
					pends = []int{0}
				}
				gg.Push(geom.NewPolygonFlat(l, pf, pends))
				return fmt.Sprintf("(push %s %s)", sxCoord(pf), sxInts(pends))
			}
			return ""
		case 5:
			k := r.Intn(4)
			cs := make([]geom.Coord, k)
			var flat []float64
			for i := range cs {
				cs[i] = r.genCoord(s)
				flat = append(flat, cs[i]...)
			}
			fs := sxFloatsOpt(flat)
			e.tally("mut=setCoords")
			switch gg := g.(type) {
			case *geom.Point:
				// restored from the other side's own storage (snapshot / restore), or set from a coordinate
				// the caller then goes on using: the point holds the values, not the caller's array
				if s == 0 {
					return ""
				}
				var c geom.Coord
				for _, side := range c16sides {
					if og, ok := side.(*c16geom); ok && og != v && len(og.g.FlatCoords()) == s && s > 0 {
						c = og.g.FlatCoords()
					}
				}
				own := c == nil || r.chance(1, 3)
				if own {
					c = make(geom.Coord, s)
					copy(c, r.genCoord(s))
				}
				fs := sxFloatsOpt(c)
				if _, err := gg.SetCoords(c); err != nil {
					return ""
				}
				if own {
					for i := range c {
						c[i] = -12345
					}
				}
				e.tally("mut=setCoords-point")
				return fmt.Sprintf("(setCoords %s nil)", fs)
			case *geom.LineString:
				gg.SetCoords(cs)
				return fmt.Sprintf("(setCoords %s nil)", fs)
			case *geom.LinearRing:
				gg.SetCoords(cs)
				return fmt.Sprintf("(setCoords %s nil)", fs)
			case *geom.Polygon:
				gg.SetCoords([][]geom.Coord{cs})
				return fmt.Sprintf("(setCoords %s (%s))", fs, hexI(len(flat)))
			case *geom.MultiLineString:
				gg.SetCoords([][]geom.Coord{cs})
				return fmt.Sprintf("(setCoords %s (%s))", fs, hexI(len(flat)))
			case *geom.MultiPoint:
				gg.SetCoords(cs)
				ends := make([]int, k)
				for i := range ends {
					ends[i] = (i + 1) * s
				}
				if k == 0 {
					return fmt.Sprintf("(setCoords %s nil)", fs)
				}
				return fmt.Sprintf("(setCoords %s %s)", fs, sxIntsHex(ends))
			}
			return ""
		default: // write an end offset (only as the last operation: it may break well-formedness)
			x := r.Intn(50)
			switch gg := g.(type) {
			case *geom.Polygon, *geom.MultiLineString, *geom.MultiPoint:
				ends := gg.Ends()
				if len(ends) == 0 {
					return ""
				}
				j := r.Intn(len(ends))
				ends[j] = x
				e.tally("mut=setEnd")
				return fmt.Sprintf("(setEnd 0 %d %s)", j, hexI(x))
			case *geom.MultiPolygon:
				endss := gg.Endss()
				if len(endss) == 0 {
					return ""
				}
				row := r.Intn(len(endss))
				if len(endss[row]) == 0 {
					return ""
				}
				j := r.Intn(len(endss[row]))
				endss[row][j] = x
				e.tally("mut=setEnd")
				return fmt.Sprintf("(setEnd %d %d %s)", row, j, hexI(x))
			}
			return ""
		}
	}
	return ""
}
