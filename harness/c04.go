package main

import (
	"bytes"
	"encoding/binary"
	"encoding/hex"
	"fmt"
	"runtime"
	"strings"

	geom "github.com/twpayne/go-geom"
	"github.com/twpayne/go-geom/encoding/ewkb"
	"github.com/twpayne/go-geom/encoding/ewkbhex"
	"github.com/twpayne/go-geom/encoding/wkb"
	"github.com/twpayne/go-geom/encoding/wkbhex"
	"github.com/twpayne/go-geom/encoding/wkbcommon"
)

func init() { generators["C04"] = genC04 }

// raw prints a decoded value in flat form (layout, srid, stride, flat, ends).
func raw(g geom.T) string {
	switch g := g.(type) {
	case *geom.Point:
		return fmt.Sprintf("(pt %d %d %d %s)", int(g.Layout()), g.SRID(), g.Stride(), sxCoord(g.FlatCoords()))
	case *geom.LineString:
		return fmt.Sprintf("(ls %d %d %d %s)", int(g.Layout()), g.SRID(), g.Stride(), sxCoord(g.FlatCoords()))
	case *geom.Polygon:
		return fmt.Sprintf("(pg %d %d %d %s %s)", int(g.Layout()), g.SRID(), g.Stride(), sxCoord(g.FlatCoords()), sxInts(g.Ends()))
	case *geom.MultiPoint:
		return fmt.Sprintf("(mp %d %d %d %s %s)", int(g.Layout()), g.SRID(), g.Stride(), sxCoord(g.FlatCoords()), sxInts(g.Ends()))
	case *geom.MultiLineString:
		return fmt.Sprintf("(mls %d %d %d %s %s)", int(g.Layout()), g.SRID(), g.Stride(), sxCoord(g.FlatCoords()), sxInts(g.Ends()))
	case *geom.MultiPolygon:
		return fmt.Sprintf("(mpg %d %d %d %s %s)", int(g.Layout()), g.SRID(), g.Stride(), sxCoord(g.FlatCoords()), sxIntss(g.Endss()))
	case *geom.GeometryCollection:
		parts := make([]string, g.NumGeoms())
		for i := range parts {
			parts[i] = raw(g.Geom(i))
		}
		fixed := 0
		if g.NumGeoms() == 0 {
			fixed = int(g.Layout())
		}
		return fmt.Sprintf("(gc %d %d (%s))", fixed, g.SRID(), strings.Join(parts, " "))
	}
	return "(unknown)"
}

func limStr(v int) string {
	if v < 0 {
		return "-"
	}
	return fmt.Sprint(v)
}

// mutate a valid encoding; `free` = count fields may be forged (only with limits configured)
func (r *Rng) mutateBytes(b []byte, free bool) ([]byte, string) {
	b = append([]byte{}, b...)
	if len(b) == 0 {
		return b, "empty"
	}
	if !free {
		switch r.Intn(3) {
		case 0:
			return b, "valid"
		case 1:
			return b[:r.Intn(len(b))], "truncate"
		default:
			extra := make([]byte, 1+r.Intn(12))
			for i := range extra {
				extra[i] = byte(r.Intn(256))
			}
			return append(b, extra...), "trailing"
		}
	}
	switch r.Intn(8) {
	case 0:
		return b, "valid"
	case 1:
		return b[:r.Intn(len(b))], "truncate"
	case 2:
		for k := 1 + r.Intn(3); k > 0; k-- {
			i := r.Intn(len(b))
			b[i] ^= 1 << uint(r.Intn(8))
		}
		return b, "bitflip"
	case 3, 4: // forge a 32-bit field at a plausible offset (5, 9, 13, ... after a header)
		off := 1 + 4*r.Intn((len(b)+3)/4)
		if off+4 <= len(b) {
			vals := []uint32{0, 1, 2, 3, 4, 5, 100, 101, 1000, 1 << 20, 1 << 31, 0xFFFFFFFF}
			v := vals[r.Intn(len(vals))]
			if b[0] == 1 {
				binary.LittleEndian.PutUint32(b[off:], v)
			} else {
				binary.BigEndian.PutUint32(b[off:], v)
			}
		}
		return b, "forge-count"
	case 5: // splice two encodings
		i, j := r.Intn(len(b)), r.Intn(len(b))
		return append(append([]byte{}, b[:i]...), b[j:]...), "splice"
	case 6: // change the type word of the first header
		if len(b) >= 5 {
			types := []uint32{1, 2, 3, 4, 5, 6, 7, 15, 17, 1001, 2004, 3007, 4001, 0x80000001, 0x20000004, 0xE0000007, 0x60000002}
			v := types[r.Intn(len(types))]
			if r.chance(1, 2) {
				// any of the seven types, in the ISO numbering of any dimensionality, under any of the
				// EWKB flag combinations (a type word no encoder writes when both are present)
				v = []uint32{0, 0x80000000, 0x40000000, 0xC0000000, 0x20000000, 0xA0000000, 0x60000000, 0xE0000000}[r.Intn(8)] |
					(uint32(1+r.Intn(7)) + []uint32{0, 1000, 2000, 3000}[r.Intn(4)])
			}
			if b[0] == 1 {
				binary.LittleEndian.PutUint32(b[1:], v)
			} else {
				binary.BigEndian.PutUint32(b[1:], v)
			}
		}
		return b, "forge-type"
	default:
		n := r.Intn(40)
		out := make([]byte, n)
		for i := range out {
			out[i] = byte(r.Intn(256))
		}
		if n > 0 && r.chance(1, 2) {
			out[0] = byte(r.Intn(2))
		}
		return out, "random"
	}
}

func genC04(r *Rng, e *Emitter, n int) {
	saved := wkbcommon.MaxGeometryElements
	defer func() { wkbcommon.MaxGeometryElements = saved }()
	// without limits a count the input does not back is still an error. (Only the coordinate count of
	// a LineString is forged, to a few hundred thousand — the unlimited decoder allocates what a count
	// claims, and a forged count of rings or members would be multiplied.)
	for _, c := range codecs {
		for _, bo := range []binary.ByteOrder{wkb.NDR, wkb.XDR} {
			valid, err := c.marshal(geom.NewLineStringFlat(geom.XYZM, []float64{1, 2, 3, 4, 5, 6, 7, 8, 9, 10, 11, 12}), bo)
			if err != nil || len(valid) < 9+96 {
				continue
			}
			for _, cnt := range []uint32{300001, 1<<20 + 1, 262145} {
				for _, cut := range []int{0, 4, 8, 33, 96} {
					b := append([]byte{}, valid[:len(valid)-cut]...)
					if bo == binary.ByteOrder(wkb.NDR) {
						binary.LittleEndian.PutUint32(b[5:], cnt)
					} else {
						binary.BigEndian.PutUint32(b[5:], cnt)
					}
					e.tally("mutation=forged-coordinate-count-unlimited")
					c04Run(e, c, [4]int{0, -1, -1, -1}, b)
				}
			}
		}
	}
	limChoices := []int{-1, 0, 1, 3, 100}
	for i := 0; i < n; i++ {
		t := r.wkbTree(3, xyzmLayouts[r.Intn(4)])
		c := codecs[r.Intn(len(codecs))]
		var bo binary.ByteOrder = wkb.XDR
		if r.chance(1, 2) {
			bo = wkb.NDR
		}
		valid, err := c.marshal(t.build(), bo)
		if err != nil {
			valid = []byte{1, 1, 0, 0, 0}
		} else if r.chance(1, 10) {
			if mb, ok := r.mixedEndianEncoding(c, t.build(), bo); ok {
				valid = mb
				e.tally("mixed-endian-members")
			}
		}
		lims := [4]int{0, -1, -1, -1}
		if !r.chance(1, 4) {
			for k := 1; k <= 3; k++ {
				lims[k] = limChoices[r.Intn(len(limChoices))]
			}
		}
		configured := lims[1] >= 0 && lims[2] >= 0 && lims[3] >= 0
		b, how := r.mutateBytes(valid, configured)
		e.tally("fmt=" + c.name)
		e.tally("mutation=" + how)
		if configured {
			e.tally("limits=configured")
		} else {
			e.tally("limits=some-disabled")
		}
		if r.chance(1, 12) {
			b = r.mixedMemberEncoding(c, bo)
			e.tally("mutation=mixed-member-layout")
		}
		c04Run(e, c, lims, b)
	}
	// counts beyond 2^16 that are really there: tens of thousands of empty rings / lines / points
	for _, R := range []int{65536, 65537, 70001} {
		l := xyzmLayouts[r.Intn(4)]
		ends := make([]int, R)
		var g geom.T
		switch r.Intn(2) {
		case 0:
			g = geom.NewPolygonFlat(l, nil, ends)
		default:
			g = geom.NewMultiLineStringFlat(l, nil, ends)
		}
		c := codecs[r.Intn(len(codecs))]
		var bo binary.ByteOrder = wkb.XDR
		if r.chance(1, 2) {
			bo = wkb.NDR
		}
		b, err := c.marshal(g, bo)
		if err != nil {
			continue
		}
		// (too long for a line of the model's protocol: decoded here, and judged by structure — ends as
		// many as members, all zero, no coordinates — and by re-encoding to the same bytes)
		kind := fmt.Sprintf("%T", g)
		e.tally("mutation=valid-many-empty-members")
		e.emit("C04.many", fmt.Sprintf("(%s %d %d)", c.name, R, len(b)), guard(func() string {
			var d geom.T
			var derr error
			switch c.name {
			case "wkb":
				d, derr = wkb.Unmarshal(b)
			case "wkbnan":
				d, derr = wkb.Unmarshal(b, nanOpt)
			default:
				d, derr = ewkb.Unmarshal(b)
			}
			if derr != nil {
				return sxErr(derr)
			}
			wf := fmt.Sprintf("%T", d) == kind && len(d.FlatCoords()) == 0 && len(d.Ends()) == R
			for _, x := range d.Ends() {
				if x != 0 {
					wf = false
				}
			}
			b2, err := c.marshal(d, bo)
			return fmt.Sprintf("(ok %v %v)", wf, err == nil && bytes.Equal(b, b2))
		}))
	}
	// a deep chain of collection headers, each claiming as many members as the limit allows, cut off
	// at the bottom: nothing may be reserved per claimed member at every level
	for i := 0; i < 4; i++ {
		c := codecs[r.Intn(len(codecs))]
		var bo binary.ByteOrder = wkb.XDR
		if r.chance(1, 2) {
			bo = wkb.NDR
		}
		head, err := c.marshal(geom.NewGeometryCollection(), bo)
		if err != nil || len(head) < 9 {
			continue
		}
		L := []int{2048, 4096}[r.Intn(2)]
		D := 300 + r.Intn(1200)
		var b []byte
		for k := 0; k < D; k++ {
			h := append([]byte{}, head[:9]...)
			bo.PutUint32(h[5:], uint32(L-r.Intn(3)))
			b = append(b, h...)
		}
		e.tally("mutation=deep-chain-of-full-collections")
		c04Run(e, c, [4]int{0, L, L, L}, b)
	}
	// large limits, the top-level count forged up to the limit, one large member really present and the
	// rest cut off: what is reserved must follow what the input holds, not the product of the counts
	for i := 0; i < n/300+6; i++ {
		l := xyzmLayouts[r.Intn(4)]
		st := l.Stride()
		P := 200 + r.Intn(900)
		ring := make([]float64, 0, (P+1)*st)
		for k := 0; k < P; k++ {
			for d := 0; d < st; d++ {
				ring = append(ring, float64(k*st+d))
			}
		}
		ring = append(ring, ring[:st]...)
		var g geom.T
		switch r.Intn(3) {
		case 0:
			g = geom.NewPolygonFlat(l, ring, []int{len(ring)})
		case 1:
			g = geom.NewMultiLineStringFlat(l, ring, []int{len(ring)})
		default:
			g = geom.NewMultiPolygonFlat(l, ring, [][]int{{len(ring)}})
		}
		c := codecs[r.Intn(len(codecs))]
		var bo binary.ByteOrder = wkb.XDR
		if r.chance(1, 2) {
			bo = wkb.NDR
		}
		b, err := c.marshal(g, bo)
		if err != nil || len(b) < 9 {
			continue
		}
		L := []int{2048, 4096}[r.Intn(2)]
		R := uint32(L - r.Intn(3)*500)
		if r.chance(1, 6) {
			R = uint32(L + 1)
		}
		bo.PutUint32(b[5:], R) // the first count field after the 5-byte header (no SRID on these)
		if r.chance(1, 2) {
			b = b[:len(b)-r.Intn(8)]
		}
		e.tally("mutation=forged-to-limit-big-member")
		c04Run(e, c, [4]int{0, L, L, L}, b)
	}
}

// c04Run decodes b with the given limits, measuring what the decode allocates, and emits the record.
func c04Run(e *Emitter, c codec, lims [4]int, b []byte) {
	hx := "-"
	if len(b) > 0 {
		hx = hex.EncodeToString(b)
	}
	input := fmt.Sprintf("(%s (%s %s %s) %s)", c.name, limStr(lims[1]), limStr(lims[2]), limStr(lims[3]), hx)
	e.pending("C04.dec", input)
	wkbcommon.MaxGeometryElements = lims
	var before, after runtime.MemStats
	var payload string
	runtime.ReadMemStats(&before)
	var g geom.T
	var derr error
	panicked := false
	func() {
		defer func() {
			if recover() != nil {
				panicked = true
			}
		}()
		switch c.name {
		case "wkb":
			g, derr = wkb.Unmarshal(b)
		case "wkbnan":
			g, derr = wkb.Unmarshal(b, nanOpt)
		default:
			g, derr = ewkb.Unmarshal(b)
		}
	}()
	runtime.ReadMemStats(&after)
	alloc := after.TotalAlloc - before.TotalAlloc
	// the same bytes through Read, from a reader that delivers short chunks of odd sizes: one
	// geometry is decoded however the reader splits the bytes
	streamDiff := ""
	if !panicked {
		func() {
			defer func() {
				if recover() != nil {
					streamDiff = "(stream-differs (panic))"
				}
			}()
			sizes := []int{1 + len(b)%13, 3, 1 + len(b)%7, 4093 + len(b)%11, 2}
			g3, err3 := c.read(&chunkReader{data: b, sizes: sizes})
			switch {
			case (err3 != nil) != (derr != nil):
				streamDiff = fmt.Sprintf("(stream-differs (errors %v %v))", derr != nil, err3 != nil)
			case err3 == nil && raw(g3) != raw(g):
				streamDiff = "(stream-differs " + raw(g3) + ")"
			}
		}()
	}
	// the same bytes as hex text through the hex wrapper (lower, upper or mixed case): the same outcome;
	// and text that is not hex — a byte above 0x7f, a stray letter, an odd number of digits — is an error
	if !panicked && streamDiff == "" && c.name != "wkbnan" {
		func() {
			defer func() {
				if recover() != nil {
					streamDiff = "(hex-differs (panic))"
				}
			}()
			dec := func(s string) (geom.T, error) { return wkbhex.Decode(s) }
			if c.name == "ewkb" {
				dec = ewkbhex.Decode
			}
			text := hex.EncodeToString(b)
			switch len(b) % 3 {
			case 1:
				text = strings.ToUpper(text)
			}
			g4, err4 := dec(text)
			switch {
			case (err4 != nil) != (derr != nil):
				streamDiff = fmt.Sprintf("(hex-differs (errors %v %v))", derr != nil, err4 != nil)
			case err4 == nil && raw(g4) != raw(g):
				streamDiff = "(hex-differs " + raw(g4) + ")"
			}
			if streamDiff == "" && len(text) >= 2 {
				k := (len(b) * 7) % len(text)
				for _, bad := range []string{text[:k] + "\xef\xbb\xbf" + text[k:], text[:k] + "\x80" + text[k+1:], text[:k] + "g" + text[k+1:], text[:len(text)-1], text[:k] + "\xff\xfe" + text[k:], " " + text} {
					if _, errb := dec(bad); errb == nil {
						streamDiff = "(hex-differs (accepted " + hex.EncodeToString([]byte(bad)) + "))"
					}
				}
			}
		}()
	}
	wkbcommon.MaxGeometryElements = [4]int{0, -1, -1, -1}
	switch {
	case streamDiff != "":
		payload = streamDiff
		e.tally("outcome=stream-differs")
	case panicked:
		payload = "(panic)"
		e.tally("outcome=panic")
	case derr != nil:
		payload = sxErr(derr)
		e.tally("outcome=" + strings.Fields(strings.Trim(payload, "()"))[1])
	default:
		e.tally("outcome=ok")
		again := guard(func() string {
			b2, err := c.marshal(g, wkb.NDR)
			if err != nil {
				return "(reencode-err " + strings.TrimPrefix(sxErr(err), "(err ")
			}
			if c.name != "wkbnan" && len(b)%3 == 0 {
				// through the database/sql wrappers: Value of this geometry, then Value of another one (a
				// statement with two geometry arguments), then the first value is what gets decoded
				var holder, same sqlVal
				var get func(sqlVal) geom.T
				if c.name == "wkb" {
					holder, same, _, get = wkbWrappers(g)
				} else {
					holder, same, _, get = ewkbWrappers(g)
				}
				if holder != nil {
					v, err := holder.Value()
					if err != nil {
						return "(reencode-err " + strings.TrimPrefix(sxErr(err), "(err ")
					}
					bs, ok := v.([]byte)
					if !ok {
						return "(reencode-err other)"
					}
					decoy := geom.NewLineStringFlat(geom.XYZM, []float64{9, 8, 7, 6, 5, 4, 3, 2}).SetSRID(3857)
					if c.name == "wkb" {
						(&wkb.LineString{LineString: decoy}).Value()
					} else {
						(&ewkb.LineString{LineString: decoy}).Value()
					}
					if err := same.Scan(bs); err != nil {
						return sxErr(err)
					}
					return "(ok " + raw(get(same)) + ")"
				}
			}
			var g2 geom.T
			switch c.name {
			case "wkb":
				g2, err = wkb.Unmarshal(b2)
			case "wkbnan":
				g2, err = wkb.Unmarshal(b2, nanOpt)
			default:
				g2, err = ewkb.Unmarshal(b2)
			}
			if err != nil {
				return sxErr(err)
			}
			return "(ok " + raw(g2) + ")"
		})
		payload = "(ok " + raw(g) + " " + again + ")"
	}
	e.emit("C04.dec", input, fmt.Sprintf("(m %d %s)", alloc, payload))
}

// mixedMemberEncoding is a multi-geometry (or collection) header of one dimensionality followed by
// complete member encodings of which some have another dimensionality: no encoder writes it, every
// byte of it is a valid piece of WKB.
func (r *Rng) mixedMemberEncoding(c codec, bo binary.ByteOrder) []byte {
	l1 := xyzmLayouts[r.Intn(4)]
	l2 := xyzmLayouts[r.Intn(4)]
	for l2.Stride() == l1.Stride() && r.chance(3, 4) {
		l2 = xyzmLayouts[r.Intn(4)]
	}
	kind := r.Intn(4)
	var outer geom.T
	member := func(l geom.Layout) geom.T {
		st := l.Stride()
		pts := 2 + r.Intn(3)
		flat := make([]float64, 0, (pts+1)*st)
		for k := 0; k < pts*st; k++ {
			flat = append(flat, float64(r.Intn(9)))
		}
		switch kind {
		case 0:
			return geom.NewPointFlat(l, flat[:st])
		case 1:
			return geom.NewLineStringFlat(l, flat)
		case 2:
			flat = append(flat, flat[:st]...)
			return geom.NewPolygonFlat(l, flat, []int{len(flat)})
		default:
			return geom.NewLineStringFlat(l, flat)
		}
	}
	switch kind {
	case 0:
		outer = geom.NewMultiPoint(l1)
	case 1:
		outer = geom.NewMultiLineString(l1)
	case 2:
		outer = geom.NewMultiPolygon(l1)
	default:
		outer = geom.NewGeometryCollection().MustPush(geom.NewPointFlat(l1, make([]float64, l1.Stride())))
	}
	head, err := c.marshal(outer, bo)
	if err != nil || len(head) < 9 {
		return []byte{1, 1, 0, 0, 0}
	}
	k := 1 + r.Intn(3)
	var body []byte
	n := 0
	if kind == 3 { // the collection keeps its first (l1) member
		body = append(body, head[9:]...)
		n = 1
	}
	out := append([]byte{}, head[:5]...)
	for j := 0; j < k; j++ {
		l := l1
		if j == k-1 || r.chance(1, 2) {
			l = l2
		}
		mb, err := c.marshal(member(l), bo)
		if err != nil {
			continue
		}
		body = append(body, mb...)
		n++
	}
	cnt := make([]byte, 4)
	bo.PutUint32(cnt, uint32(n))
	out = append(out, cnt...)
	return append(out, body...)
}

// mixedEndianEncoding: the encoding of a multi-geometry or collection in which every member carries
// a byte-order byte of its own choosing (the standard gives each member one; an encoder that copies
// members from different sources writes such streams). ok is false for geometries without members.
func (r *Rng) mixedEndianEncoding(c codec, g geom.T, bo binary.ByteOrder) ([]byte, bool) {
	var members []geom.T
	switch x := g.(type) {
	case *geom.MultiPoint:
		for i := 0; i < x.NumPoints(); i++ {
			members = append(members, x.Point(i))
		}
	case *geom.MultiLineString:
		for i := 0; i < x.NumLineStrings(); i++ {
			members = append(members, x.LineString(i))
		}
	case *geom.MultiPolygon:
		for i := 0; i < x.NumPolygons(); i++ {
			members = append(members, x.Polygon(i))
		}
	case *geom.GeometryCollection:
		members = append(members, x.Geoms()...)
	}
	if len(members) == 0 {
		return nil, false
	}
	full, err := c.marshal(g, bo)
	if err != nil {
		return nil, false
	}
	same, mixed := 0, []byte{}
	for _, m := range members {
		b1, err := c.marshal(m, bo)
		if err != nil {
			return nil, false
		}
		same += len(b1)
		other := bo
		if r.chance(1, 2) {
			if bo == binary.ByteOrder(wkb.NDR) {
				other = wkb.XDR
			} else {
				other = wkb.NDR
			}
		}
		b2, err := c.marshal(m, other)
		if err != nil || len(b2) != len(b1) {
			return nil, false
		}
		mixed = append(mixed, b2...)
	}
	head := len(full) - same
	if head < 9 {
		return nil, false // (members are not written as they are written on their own)
	}
	return append(append([]byte{}, full[:head]...), mixed...), true
}
