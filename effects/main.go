// Command effects computes, from /repo's current source, a may-write summary of every
// exported function and method of the module (SSA + a small summary-based points-to
// analysis) and prints it as GeomVerif/Generated/Effects.lean.
//
// Abstract objects: P(i) = everything reachable from parameter i (receiver = 0, free
// variables after the parameters), G(name) = everything reachable from a package-level
// variable, S(site) = an allocation site local to the function (one level of struct
// fields kept apart), U = unknown.  A function's summary lists which P(i)/G objects it may
// write, which it may return, and which P(j) it may store into P(i).  Summaries are
// iterated to a fixed point over the whole module; interface calls are resolved to every
// module type implementing the method; calls leaving the module use the table in
// externals.go (unknown callees: may write and return every argument).
package main

import (
	"fmt"
	"go/token"
	"go/types"
	"os"
	"sort"
	"strings"

	"golang.org/x/tools/go/packages"
	"golang.org/x/tools/go/ssa"
	"golang.org/x/tools/go/ssa/ssautil"
)

const modPath = "github.com/twpayne/go-geom"

// ---- abstract objects ----

type obj struct {
	kind byte   // 'P','G','S','U'
	idx  int    // P: parameter index; S: site id
	path string // S: "" whole object, else struct field path "f.g.h"
	name string
}

func (o obj) String() string {
	switch o.kind {
	case 'P':
		return fmt.Sprintf("P%d", o.idx)
	case 'G':
		return "G:" + o.name
	case 'S':
		return fmt.Sprintf("S%d[%s]", o.idx, o.path)
	}
	return "U"
}

type oset map[obj]struct{}

func (s oset) add(o obj) bool {
	if _, ok := s[o]; ok {
		return false
	}
	s[o] = struct{}{}
	return true
}
func (s oset) addAll(t oset) bool {
	ch := false
	for o := range t {
		if s.add(o) {
			ch = true
		}
	}
	return ch
}

// ---- summaries ----

type summary struct {
	writes  oset            // P(i), G, U written
	returns oset            // P(i), G, U, or S(-1) = fresh
	holds   oset            // P(i), G, U that a fresh result may hold references to
	stores  map[[2]int]bool // (i,j): P(j) (j>=0) or fresh (j=-1) or G (j=-2..: index into gnames) stored into P(i)
	gstores map[int]oset    // globals stored into P(i)
}

func newSummary() *summary {
	return &summary{writes: oset{}, returns: oset{}, holds: oset{}, stores: map[[2]int]bool{}, gstores: map[int]oset{}}
}

var fresh = obj{kind: 'S', idx: -1}
var unknown = obj{kind: 'U'}

type analyzer struct {
	prog       *ssa.Program
	sums       map[*ssa.Function]*summary
	impls      map[string][]*ssa.Function // interface method id -> module implementations
	changed    bool
	extUnknown map[string]bool
	bySig      map[string][]*ssa.Function
}

func pointerLike(t types.Type) bool {
	switch u := t.Underlying().(type) {
	case *types.Basic:
		return u.Kind() == types.UnsafePointer
	case *types.Pointer, *types.Slice, *types.Map, *types.Chan, *types.Signature, *types.Interface:
		return true
	case *types.Struct:
		for i := 0; i < u.NumFields(); i++ {
			if pointerLike(u.Field(i).Type()) {
				return true
			}
		}
		return false
	case *types.Array:
		return pointerLike(u.Elem())
	case *types.Tuple:
		for i := 0; i < u.Len(); i++ {
			if pointerLike(u.At(i).Type()) {
				return true
			}
		}
		return false
	}
	return false
}

func inModule(f *ssa.Function) bool {
	if f == nil {
		return false
	}
	p := f.Package()
	if p == nil {
		if f.Parent() != nil {
			return inModule(f.Parent())
		}
		// wrappers / instantiations: look at the origin or the receiver's package
		if o := f.Origin(); o != nil && o != f {
			return inModule(o)
		}
		if f.Object() != nil && f.Object().Pkg() != nil {
			return strings.HasPrefix(f.Object().Pkg().Path(), modPath)
		}
		return false
	}
	return strings.HasPrefix(p.Pkg.Path(), modPath)
}

// ---- per-function analysis ----

type fstate struct {
	a        *analyzer
	root     *ssa.Function // the function being summarised (anonymous functions are analysed in its context)
	vals     map[ssa.Value]oset
	contents map[obj]oset
	sites    map[ssa.Instruction]int
	nsites   int
	sum      *summary
	dirty    bool
	nparams  int
}

func (st *fstate) site(i ssa.Instruction) int {
	if id, ok := st.sites[i]; ok {
		return id
	}
	st.nsites++
	st.sites[i] = st.nsites
	return st.nsites
}

func (st *fstate) get(v ssa.Value) oset {
	switch x := v.(type) {
	case *ssa.Global:
		return oset{obj{kind: 'G', name: globalName(x)}: {}}
	case *ssa.Const, *ssa.Builtin:
		return nil
	case *ssa.Function:
		return nil
	}
	return st.vals[v]
}

func globalName(g *ssa.Global) string {
	return shortPkg(g.Pkg.Pkg.Path()) + "." + g.Name()
}

func shortPkg(p string) string {
	p = strings.TrimPrefix(p, modPath)
	p = strings.TrimPrefix(p, "/")
	if p == "" {
		return "geom"
	}
	return p
}

func (st *fstate) set(v ssa.Value, s oset) {
	if len(s) == 0 {
		return
	}
	if !pointerLike(v.Type()) {
		return
	}
	cur := st.vals[v]
	if cur == nil {
		cur = oset{}
		st.vals[v] = cur
	}
	if cur.addAll(s) {
		st.dirty = true
	}
}

// load: objects a value loaded through an address with origins `addr` may point to.
func (st *fstate) load(addr oset) oset {
	out := oset{}
	for o := range addr {
		switch o.kind {
		case 'P', 'G', 'U':
			out.add(o)
		case 'S':
			// every stored path that overlaps this one (prefix either way)
			for c, s := range st.contents {
				if c.kind == 'S' && c.idx == o.idx && overlaps(c.path, o.path) {
					out.addAll(s)
				}
			}
		}
	}
	return out
}

// store: record a write of `val` through an address with origins `addr`.
var debugFn = os.Getenv("EFFECTS_DEBUG")
var curInstr ssa.Instruction

func (st *fstate) store(addr oset, val oset, isWrite bool) {
	if debugFn != "" && isWrite && strings.Contains(st.root.String(), debugFn) {
		for o := range addr {
			if o.kind != 'S' {
				pos := ""
				if curInstr != nil {
					pos = st.a.prog.Fset.Position(curInstr.Pos()).String()
				}
				fmt.Fprintf(os.Stderr, "DEBUG %s: write %s at %v [%s]\n", st.root, o, curInstr, pos)
			}
		}
	}
	for o := range addr {
		switch o.kind {
		case 'P':
			if isWrite && st.sum.writes.add(o) {
				st.dirty = true
			}
			for v := range val {
				switch v.kind {
				case 'P':
					k := [2]int{o.idx, v.idx}
					if !st.sum.stores[k] {
						st.sum.stores[k] = true
						st.dirty = true
					}
				case 'S':
					k := [2]int{o.idx, -1}
					if !st.sum.stores[k] {
						st.sum.stores[k] = true
						st.dirty = true
					}
				case 'G', 'U':
					gs := st.sum.gstores[o.idx]
					if gs == nil {
						gs = oset{}
						st.sum.gstores[o.idx] = gs
					}
					if gs.add(v) {
						st.dirty = true
					}
				}
			}
		case 'G', 'U':
			if isWrite && st.sum.writes.add(o) {
				st.dirty = true
			}
			// a parameter captured by a global: later writes through the global are writes to G;
			// nothing more to track (the write to G is already an effect).
		case 'S':
			c := st.contents[o]
			if c == nil {
				c = oset{}
				st.contents[o] = c
			}
			if c.addAll(val) {
				st.dirty = true
			}
		}
	}
}

func overlaps(a, b string) bool {
	if a == "" || b == "" || a == b {
		return true
	}
	return strings.HasPrefix(a, b+".") || strings.HasPrefix(b, a+".")
}

func fieldOf(s oset, f int) oset {
	out := oset{}
	for o := range s {
		if o.kind == 'S' && strings.Count(o.path, ".") < 6 {
			p := fmt.Sprint(f)
			if o.path != "" {
				p = o.path + "." + p
			}
			out.add(obj{kind: 'S', idx: o.idx, path: p})
		} else {
			out.add(o)
		}
	}
	return out
}

func (st *fstate) analyzeFunc(fn *ssa.Function, paramBase int) {
	for _, b := range fn.Blocks {
		for _, ins := range b.Instrs {
			st.instr(fn, ins)
		}
	}
}

func (st *fstate) instr(fn *ssa.Function, ins ssa.Instruction) {
	curInstr = ins
	switch x := ins.(type) {
	case *ssa.Alloc:
		st.set(x, oset{obj{kind: 'S', idx: st.site(x)}: {}})
	case *ssa.MakeSlice, *ssa.MakeMap, *ssa.MakeChan:
		v := ins.(ssa.Value)
		st.set(v, oset{obj{kind: 'S', idx: st.site(ins)}: {}})
	case *ssa.MakeInterface:
		st.set(x, st.get(x.X))
	case *ssa.MakeClosure:
		// analyse the closure body in this context: free variable k = binding k
		cf := x.Fn.(*ssa.Function)
		u := oset{}
		for k, b := range x.Bindings {
			st.set(cf.FreeVars[k], st.get(b))
			u.addAll(st.get(b))
		}
		st.set(x, u)
		st.analyzeFunc(cf, 0)
	case *ssa.FieldAddr:
		st.set(x, fieldOf(st.get(x.X), x.Field))
	case *ssa.IndexAddr:
		st.set(x, st.get(x.X))
	case *ssa.Field:
		st.set(x, st.get(x.X))
	case *ssa.Index:
		st.set(x, st.get(x.X))
	case *ssa.Slice:
		st.set(x, st.get(x.X))
	case *ssa.Lookup:
		if pointerLike(x.X.Type()) {
			st.set(x, st.load(st.get(x.X)))
		}
	case *ssa.UnOp:
		if x.Op == token.MUL {
			st.set(x, st.load(st.get(x.X)))
		} else if x.Op == token.ARROW {
			st.set(x, st.load(st.get(x.X)))
		}
	case *ssa.Phi:
		for _, e := range x.Edges {
			st.set(x, st.get(e))
		}
	case *ssa.ChangeType:
		st.set(x, st.get(x.X))
	case *ssa.ChangeInterface:
		st.set(x, st.get(x.X))
	case *ssa.SliceToArrayPointer:
		st.set(x, st.get(x.X))
	case *ssa.Convert:
		// []byte(string) / []rune(string) allocate; string(...) is immutable; pointer conversions alias
		if _, ok := x.Type().Underlying().(*types.Slice); ok {
			if b, ok := x.X.Type().Underlying().(*types.Basic); ok && b.Info()&types.IsString != 0 {
				st.set(x, oset{obj{kind: 'S', idx: st.site(x)}: {}})
				return
			}
		}
		st.set(x, st.get(x.X))
	case *ssa.TypeAssert:
		st.set(x, st.get(x.X))
	case *ssa.Extract:
		st.set(x, st.get(x.Tuple))
	case *ssa.Range:
		st.set(x, st.get(x.X))
	case *ssa.Next:
		if !x.IsString {
			st.set(x, st.load(st.get(x.Iter)))
		}
	case *ssa.Select:
		// not used by the module; be conservative
		st.set(x, oset{unknown: {}})
	case *ssa.Store:
		st.store(st.get(x.Addr), st.get(x.Val), true)
	case *ssa.MapUpdate:
		v := oset{}
		v.addAll(st.get(x.Key))
		v.addAll(st.get(x.Value))
		st.store(st.get(x.Map), v, true)
	case *ssa.Send:
		st.store(st.get(x.Chan), st.get(x.X), true)
	case *ssa.Return:
		if fn != st.root {
			return // results of closures are merged at their call sites
		}
		for _, r := range x.Results {
			for o := range st.get(r) {
				switch o.kind {
				case 'S':
					if st.sum.returns.add(fresh) {
						st.dirty = true
					}
					// what the fresh object holds that the caller can reach
					for c := range st.reach(o) {
						if c.kind != 'S' {
							if st.sum.holds.add(c) {
								st.dirty = true
							}
						}
					}
				default:
					if st.sum.returns.add(o) {
						st.dirty = true
					}
				}
			}
		}
	case *ssa.Call:
		st.call(x, &x.Call)
	case *ssa.Go:
		st.call(nil, &x.Call)
	case *ssa.Defer:
		st.call(nil, &x.Call)
	case *ssa.Panic, *ssa.If, *ssa.Jump, *ssa.RunDefers, *ssa.DebugRef, *ssa.BinOp:
	}
}

// reach: everything transitively stored in a local object.
func (st *fstate) reach(o obj) oset {
	seen := oset{}
	var walk func(o obj)
	walk = func(o obj) {
		for c := range st.load(oset{o: {}}) {
			if seen.add(c) && c.kind == 'S' {
				walk(c)
			}
		}
	}
	walk(o)
	return seen
}

// reachAll: the objects themselves and everything transitively stored in the local ones.
func (st *fstate) reachAll(s oset) oset {
	out := oset{}
	out.addAll(s)
	for o := range s {
		if o.kind == 'S' {
			out.addAll(st.reach(o))
		}
	}
	return out
}

func (st *fstate) closureReturns(cf *ssa.Function) oset {
	out := oset{}
	for _, b := range cf.Blocks {
		for _, ins := range b.Instrs {
			if r, ok := ins.(*ssa.Return); ok {
				for _, v := range r.Results {
					out.addAll(st.get(v))
				}
			}
		}
	}
	return out
}

func (st *fstate) call(res *ssa.Call, c *ssa.CallCommon) {
	var args []ssa.Value
	if c.IsInvoke() {
		args = append(args, c.Value)
	}
	args = append(args, c.Args...)
	argO := make([]oset, len(args))
	for i, a := range args {
		argO[i] = st.get(a)
	}
	setRes := func(s oset) {
		if res != nil {
			st.set(res, s)
		}
	}
	// builtins
	if b, ok := c.Value.(*ssa.Builtin); ok && !c.IsInvoke() {
		switch b.Name() {
		case "copy":
			// element contents flow too (only when elements can hold references)
			var elems oset
			if sl, ok := c.Args[0].Type().Underlying().(*types.Slice); ok && pointerLike(sl.Elem()) {
				elems = st.load(argO[1])
			}
			st.store(argO[0], elems, true)
		case "append":
			out := oset{}
			out.addAll(argO[0])
			ns := obj{kind: 'S', idx: st.site(res)}
			out.add(ns)
			var elems oset
			if len(argO) > 1 {
				if sl, ok := c.Args[0].Type().Underlying().(*types.Slice); ok && pointerLike(sl.Elem()) {
					if _, isStr := c.Args[1].Type().Underlying().(*types.Basic); !isStr {
						elems = st.load(argO[1])
					}
				}
			}
			// in-place write when capacity allows — unless the first argument is a nil constant
			st.store(argO[0], elems, true)
			prev := st.load(argO[0])
			prev.addAll(elems)
			st.store(oset{ns: {}}, prev, false)
			setRes(out)
		case "delete", "clear":
			st.store(argO[0], nil, true)
		}
		return
	}
	// static closure call / anonymous function: body already analysed in this context
	if cf, ok := c.Value.(*ssa.MakeClosure); ok {
		f := cf.Fn.(*ssa.Function)
		for i, p := range f.Params {
			if i < len(argO) {
				st.set(p, argO[i])
			}
		}
		setRes(st.closureReturns(f))
		return
	}
	if f, ok := c.Value.(*ssa.Function); ok && f.Parent() != nil && sameRoot(f, st.root) {
		for i, p := range f.Params {
			if i < len(argO) {
				st.set(p, argO[i])
			}
		}
		st.analyzeFunc(f, 0)
		setRes(st.closureReturns(f))
		return
	}
	var callees []*ssa.Function
	var extName string
	if c.IsInvoke() {
		id := methodID(c)
		callees = st.a.impls[id]
		if !ifaceInModule(c) {
			extName = id
		}
	} else if f := c.StaticCallee(); f != nil {
		if inModule(f) {
			callees = []*ssa.Function{f}
		} else {
			extName = extFuncName(f)
		}
	} else {
		// dynamic call of a function value: the closures that may flow here were analysed where
		// they were created; parameters of such closures are given the arguments' origins below.
		for o := range st.get(c.Value) {
			_ = o
		}
		st.dynamicCall(res, c, argO)
		return
	}
	out := oset{}
	for _, f := range callees {
		st.applySummary(st.a.summaryOf(f), argO, res, c, out)
	}
	if extName != "" {
		st.applyExternal(extName, args, argO, res, out)
	}
	setRes(out)
}

func sameRoot(f, root *ssa.Function) bool {
	for f != nil {
		if f == root {
			return true
		}
		f = f.Parent()
	}
	return false
}

// dynamicCall: a call through a function value.  Closures created in this function have been
// analysed in place (their parameters receive the arguments here); for function values that
// come from outside (parameters, fields) the callee is unknown: it may write and return
// every argument.
func (st *fstate) dynamicCall(res *ssa.Call, c *ssa.CallCommon, argO []oset) {
	local := false
	var visit func(v ssa.Value, depth int)
	seen := map[ssa.Value]bool{}
	visit = func(v ssa.Value, depth int) {
		if seen[v] || depth > 8 {
			return
		}
		seen[v] = true
		switch x := v.(type) {
		case *ssa.MakeClosure:
			f := x.Fn.(*ssa.Function)
			for i, p := range f.Params {
				if i < len(argO) {
					st.set(p, argO[i])
				}
			}
			if res != nil {
				st.set(res, st.closureReturns(f))
			}
			local = true
		case *ssa.Function:
			if inModule(x) {
				out := oset{}
				st.applySummary(st.a.summaryOf(x), argO, res, c, out)
				if res != nil {
					st.set(res, out)
				}
				local = true
			}
		case *ssa.Phi:
			for _, e := range x.Edges {
				visit(e, depth+1)
			}
		case *ssa.ChangeType:
			visit(x.X, depth+1)
		}
	}
	visit(c.Value, 0)
	if local {
		return
	}
	// a function value from outside this function: every module function or closure of the same
	// signature may be the callee (callbacks supplied by the caller are the caller's business)
	sig, _ := c.Value.Type().Underlying().(*types.Signature)
	if sig == nil {
		return
	}
	out := oset{}
	for _, f := range st.a.bySig[sigKey(sig)] {
		s := st.a.summaryOf(f)
		np := len(f.Params)
		for w := range s.writes {
			if w.kind == 'P' && w.idx >= np {
				// writes a captured variable: unknown from here
				st.store(oset{unknown: {}}, nil, true)
			}
		}
		st.applySummary(s, argO, res, c, out)
	}
	if res != nil {
		st.set(res, out)
	}
}

func sigKey(sig *types.Signature) string {
	return types.TypeString(types.NewSignatureType(nil, nil, nil, sig.Params(), sig.Results(), sig.Variadic()), func(p *types.Package) string { return p.Path() })
}

func (st *fstate) applySummary(s *summary, argO []oset, res *ssa.Call, c *ssa.CallCommon, out oset) {
	for w := range s.writes {
		switch w.kind {
		case 'P':
			if w.idx < len(argO) {
				st.store(argO[w.idx], nil, true)
			}
		default:
			st.store(oset{w: {}}, nil, true)
		}
	}
	var freshObj obj
	hasFresh := false
	mkFresh := func() obj {
		if !hasFresh {
			var key ssa.Instruction
			if res != nil {
				key = res
			}
			if key == nil {
				st.nsites++
				freshObj = obj{kind: 'S', idx: st.nsites}
			} else {
				freshObj = obj{kind: 'S', idx: st.site(key)}
			}
			hasFresh = true
		}
		return freshObj
	}
	for k := range s.stores {
		i, j := k[0], k[1]
		if i >= len(argO) {
			continue
		}
		var val oset
		if j >= 0 {
			if j < len(argO) {
				val = st.reachAll(argO[j])
			}
		} else {
			val = oset{mkFresh(): {}}
		}
		st.store(argO[i], val, false)
	}
	for i, gs := range s.gstores {
		if i < len(argO) {
			st.store(argO[i], gs, false)
		}
	}
	for r := range s.returns {
		switch r.kind {
		case 'P':
			if r.idx < len(argO) {
				// the result may be the argument or something reachable from it
				out.addAll(st.reachAll(argO[r.idx]))
			}
		case 'S':
			out.add(mkFresh())
		default:
			out.add(r)
		}
	}
	// what a fresh result may hold
	if hasFresh {
		inner := oset{}
		for h := range s.holds {
			switch h.kind {
			case 'P':
				if h.idx < len(argO) {
					inner.addAll(st.reachAll(argO[h.idx]))
				}
			default:
				inner.add(h)
			}
		}
		st.store(oset{freshObj: {}}, inner, false)
	}
}

func methodID(c *ssa.CallCommon) string {
	t := c.Value.Type()
	name := types.TypeString(t, func(p *types.Package) string { return p.Path() })
	return name + "." + c.Method.Name()
}

func ifaceInModule(c *ssa.CallCommon) bool {
	if n, ok := c.Value.Type().(*types.Named); ok && n.Obj().Pkg() != nil {
		return strings.HasPrefix(n.Obj().Pkg().Path(), modPath)
	}
	// anonymous interface types declared inline: treat as module-local when any module type implements them
	return false
}

func extFuncName(f *ssa.Function) string {
	if f.Signature.Recv() != nil {
		return "(" + types.TypeString(f.Signature.Recv().Type(), func(p *types.Package) string { return p.Path() }) + ")." + f.Name()
	}
	if f.Pkg != nil {
		return f.Pkg.Pkg.Path() + "." + f.Name()
	}
	if f.Object() != nil && f.Object().Pkg() != nil {
		return f.Object().Pkg().Path() + "." + f.Name()
	}
	return f.String()
}

func (st *fstate) applyExternal(name string, args []ssa.Value, argO []oset, res *ssa.Call, out oset) {
	eff, ok := lookupExternal(name)
	if !ok {
		if !strings.HasPrefix(name, "dynamic call") {
			st.a.extUnknown[name] = true
		}
		eff = extEffect{writesAll: true, returnsAll: true, fresh: true}
	}
	for i := range argO {
		if eff.writesAll || eff.writes[i] {
			st.store(argO[i], nil, true)
		}
	}
	for _, ij := range eff.stores {
		if ij[0] < len(argO) && ij[1] < len(argO) {
			v := oset{}
			v.addAll(argO[ij[1]])
			st.store(argO[ij[0]], v, false)
		}
	}
	for i := range argO {
		if eff.deepWrites[i] {
			st.store(st.reachAll(argO[i]), nil, true)
		}
	}
	for i := range argO {
		if eff.returnsAll || eff.returns[i] {
			out.addAll(argO[i])
			out.addAll(st.load(argO[i]))
		}
	}
	if eff.fresh && res != nil && pointerLike(res.Type()) {
		f := obj{kind: 'S', idx: st.site(res)}
		inner := oset{}
		inner.addAll(out)
		for i := range argO {
			if eff.holds[i] {
				inner.addAll(argO[i])
			}
		}
		out.add(f)
		st.store(oset{f: {}}, inner, false)
	}
}

func (a *analyzer) summaryOf(f *ssa.Function) *summary {
	if s, ok := a.sums[f]; ok {
		return s
	}
	s := newSummary()
	a.sums[f] = s
	a.changed = true
	return s
}

func (a *analyzer) analyze(f *ssa.Function) {
	if len(f.Blocks) == 0 {
		return
	}
	old := a.summaryOf(f)
	st := &fstate{a: a, root: f, vals: map[ssa.Value]oset{}, contents: map[obj]oset{}, sites: map[ssa.Instruction]int{}, sum: old}
	for i, p := range f.Params {
		if pointerLike(p.Type()) {
			st.vals[p] = oset{obj{kind: 'P', idx: i}: {}}
		}
	}
	for i, fv := range f.FreeVars {
		st.vals[fv] = oset{obj{kind: 'P', idx: len(f.Params) + i}: {}}
	}
	before := sumSize(old)
	for iter := 0; iter < 50; iter++ {
		st.dirty = false
		st.analyzeFunc(f, 0)
		if !st.dirty {
			break
		}
	}
	if sumSize(old) != before {
		a.changed = true
	}
}

func sumSize(s *summary) int {
	n := len(s.writes) + len(s.returns) + len(s.stores) + len(s.holds)
	for _, g := range s.gstores {
		n += len(g)
	}
	return n
}

// ---- driver ----

func main() {
	repo := "/repo"
	if len(os.Args) > 2 {
		repo = os.Args[2]
	}
	cfg := &packages.Config{Mode: packages.LoadAllSyntax, Dir: repo, BuildFlags: []string{"-tags", "verif"}, Tests: false}
	pkgs, err := packages.Load(cfg, "./...")
	if err != nil {
		fmt.Fprintln(os.Stderr, err)
		os.Exit(2)
	}
	if packages.PrintErrors(pkgs) > 0 {
		os.Exit(2)
	}
	prog, spkgs := ssautil.AllPackages(pkgs, ssa.InstantiateGenerics)
	prog.Build()
	a := &analyzer{prog: prog, sums: map[*ssa.Function]*summary{}, impls: map[string][]*ssa.Function{}, extUnknown: map[string]bool{}}

	// all module functions (incl. methods and instantiations reachable as members)
	var funcs []*ssa.Function
	seen := map[*ssa.Function]bool{}
	addFn := func(f *ssa.Function) {
		if f != nil && !seen[f] && inModule(f) && f.Parent() == nil {
			seen[f] = true
			funcs = append(funcs, f)
		}
	}
	var modPkgs []*ssa.Package
	for _, p := range spkgs {
		if p == nil || !strings.HasPrefix(p.Pkg.Path(), modPath) {
			continue
		}
		if strings.Contains(p.Pkg.Path(), "/examples/") || strings.HasSuffix(p.Pkg.Path(), "/geomtest") {
			continue
		}
		modPkgs = append(modPkgs, p)
	}
	var namedTypes []types.Type
	for _, p := range modPkgs {
		for _, m := range p.Members {
			switch x := m.(type) {
			case *ssa.Function:
				addFn(x)
			case *ssa.Type:
				namedTypes = append(namedTypes, x.Type(), types.NewPointer(x.Type()))
			}
		}
	}
	for _, t := range namedTypes {
		ms := prog.MethodSets.MethodSet(t)
		for i := 0; i < ms.Len(); i++ {
			addFn(prog.MethodValue(ms.At(i)))
		}
	}
	// interface dispatch table: for every interface-typed invoke in the module, the module
	// types implementing it
	for _, f := range funcs {
		collectInvokes(a, f, namedTypes)
	}
	sort.Slice(funcs, func(i, j int) bool { return funcs[i].String() < funcs[j].String() })
	// closures are also summarised on their own (free variables after the parameters) so that
	// calls through function values can be resolved by signature
	a.bySig = map[string][]*ssa.Function{}
	var all []*ssa.Function
	var addAll func(f *ssa.Function)
	addAll = func(f *ssa.Function) {
		all = append(all, f)
		if f.Signature.Recv() == nil {
			k := sigKey(f.Signature)
			a.bySig[k] = append(a.bySig[k], f)
		}
		for _, af := range f.AnonFuncs {
			addAll(af)
		}
	}
	for _, f := range funcs {
		addAll(f)
	}
	roots := funcs
	funcs = all
	for round := 0; round < 40; round++ {
		a.changed = false
		for _, f := range funcs {
			a.analyze(f)
		}
		if !a.changed {
			break
		}
	}
	emit(a, roots, os.Args[1])
}

func collectInvokes(a *analyzer, f *ssa.Function, named []types.Type) {
	var visit func(fn *ssa.Function)
	visit = func(fn *ssa.Function) {
		for _, b := range fn.Blocks {
			for _, ins := range b.Instrs {
				var c *ssa.CallCommon
				switch x := ins.(type) {
				case *ssa.Call:
					c = &x.Call
				case *ssa.Go:
					c = &x.Call
				case *ssa.Defer:
					c = &x.Call
				}
				if c == nil || !c.IsInvoke() {
					continue
				}
				id := methodID(c)
				if _, ok := a.impls[id]; ok {
					continue
				}
				a.impls[id] = nil
				iface, _ := c.Value.Type().Underlying().(*types.Interface)
				if iface == nil {
					continue
				}
				for _, t := range named {
					if types.IsInterface(t) || !types.Implements(t, iface) {
						continue
					}
					sel := a.prog.MethodSets.MethodSet(t).Lookup(c.Method.Pkg(), c.Method.Name())
					if sel == nil {
						continue
					}
					if m := a.prog.MethodValue(sel); m != nil {
						a.impls[id] = append(a.impls[id], m)
					}
				}
			}
		}
		for _, af := range fn.AnonFuncs {
			visit(af)
		}
	}
	visit(f)
}

func isExportedRoot(f *ssa.Function) bool {
	if f.Synthetic != "" && !strings.HasPrefix(f.Synthetic, "wrapper") {
		// keep only source-level functions
	}
	if f.Object() == nil || !f.Object().Exported() {
		return false
	}
	if f.Synthetic != "" {
		return false
	}
	p := f.Object().Pkg().Path()
	if strings.Contains(p, "/internal") {
		return false
	}
	if recv := f.Signature.Recv(); recv != nil {
		t := recv.Type()
		if pt, ok := t.(*types.Pointer); ok {
			t = pt.Elem()
		}
		if n, ok := t.(*types.Named); ok && !n.Obj().Exported() {
			// methods of unexported types are reachable through embedding (geom0, geom1, ...)
			return true
		}
	}
	return true
}

func rootName(f *ssa.Function) string {
	pkg := shortPkg(f.Object().Pkg().Path())
	if recv := f.Signature.Recv(); recv != nil {
		t := types.TypeString(recv.Type(), func(p *types.Package) string { return "" })
		return pkg + ".(" + t + ")." + f.Name()
	}
	return pkg + "." + f.Name()
}

func emit(a *analyzer, funcs []*ssa.Function, out string) {
	var sb strings.Builder
	sb.WriteString("-- GENERATED by /verif/effects from /repo; do not edit.\n")
	sb.WriteString("-- may-write summary of every exported function/method of the module (rows with an empty set omitted)\n")
	sb.WriteString("namespace GeomVerif.Generated\n\n")
	var roots []string
	type row struct {
		name, method string
		items        []string
	}
	var rows []row
	for _, f := range funcs {
		if !isExportedRoot(f) {
			continue
		}
		name := rootName(f)
		roots = append(roots, name)
		s := a.sums[f]
		var items []string
		for w := range s.writes {
			switch w.kind {
			case 'P':
				if w.idx < len(f.Params) {
					p := f.Params[w.idx]
					items = append(items, fmt.Sprintf("(%d, %q)", w.idx, types.TypeString(p.Type(), func(p *types.Package) string { return p.Name() })))
				} else {
					items = append(items, "(2000, \"captured variable\")")
				}
			case 'G':
				items = append(items, fmt.Sprintf("(1000, %q)", w.name))
			case 'U':
				items = append(items, "(2000, \"unknown\")")
			}
		}
		sort.Strings(items)
		if len(items) > 0 {
			m := ""
			if f.Signature.Recv() != nil {
				m = f.Name()
			}
			rows = append(rows, row{name, m, items})
		}
	}
	sort.Strings(roots)
	sort.Slice(rows, func(i, j int) bool { return rows[i].name < rows[j].name })
	sb.WriteString("def effectRoots : List String := [\n")
	for i, r := range roots {
		sep := ","
		if i == len(roots)-1 {
			sep = ""
		}
		fmt.Fprintf(&sb, "  %q%s\n", r, sep)
	}
	sb.WriteString("]\n\n")
	sb.WriteString("/-- (root, method name or \"\" for a function, [(parameter index, parameter type) | (1000, global) | (2000, unknown)]) -/\n")
	sb.WriteString("def effects : List (String × String × List (Nat × String)) := [\n")
	for i, r := range rows {
		sep := ","
		if i == len(rows)-1 {
			sep = ""
		}
		fmt.Fprintf(&sb, "  (%q, %q, [%s])%s\n", r.name, r.method, strings.Join(r.items, ", "), sep)
	}
	sb.WriteString("]\n\n")
	// what the result of every exported Clone may share with its arguments
	sb.WriteString("/-- (Clone root, [what its result may be or may hold a reference to: (parameter index, type) | (1000, global) | (2000, unknown)]) -/\n")
	sb.WriteString("def cloneAliases : List (String × List (Nat × String)) := [\n")
	var crow []string
	for _, f := range funcs {
		if !isExportedRoot(f) || f.Name() != "Clone" {
			continue
		}
		s := a.sums[f]
		var items []string
		add := func(o obj) {
			switch o.kind {
			case 'P':
				if o.idx < len(f.Params) {
					items = append(items, fmt.Sprintf("(%d, %q)", o.idx, types.TypeString(f.Params[o.idx].Type(), func(p *types.Package) string { return p.Name() })))
				} else {
					items = append(items, "(2000, \"captured variable\")")
				}
			case 'G':
				items = append(items, fmt.Sprintf("(1000, %q)", o.name))
			case 'U':
				items = append(items, "(2000, \"unknown\")")
			}
		}
		for o := range s.returns {
			add(o)
		}
		for o := range s.holds {
			add(o)
		}
		sort.Strings(items)
		crow = append(crow, fmt.Sprintf("  (%q, [%s])", rootName(f), strings.Join(items, ", ")))
	}
	sort.Strings(crow)
	sb.WriteString(strings.Join(crow, ",\n"))
	sb.WriteString("\n]\n\n")
	var unk []string
	for k := range a.extUnknown {
		unk = append(unk, k)
	}
	sort.Strings(unk)
	sb.WriteString("-- callees outside the module that are not in the externals table (treated as writing every argument)\n")
	sb.WriteString("def effectsUnknownExternals : List String := [")
	for i, u := range unk {
		if i > 0 {
			sb.WriteString(", ")
		}
		fmt.Fprintf(&sb, "%q", u)
	}
	sb.WriteString("]\n\nend GeomVerif.Generated\n")
	if err := os.WriteFile(out, []byte(sb.String()), 0o644); err != nil {
		panic(err)
	}
}
