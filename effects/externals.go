package main

import "strings"

// Effects of callees outside the module.  writes/returns are argument indexes (receiver or
// interface value = 0).  Anything not listed is treated as writing and returning every argument
// and is listed in effectsUnknownExternals (which the Tie theorem requires to be empty).
type extEffect struct {
	writes     map[int]bool
	returns    map[int]bool
	stores     [][2]int     // (i,j): argument j may be stored into argument i
	holds      map[int]bool // the fresh result keeps a reference to this argument (it does not alias it)
	deepWrites map[int]bool // writes the argument and whatever it holds (e.g. a buffer's backing array)
	writesAll  bool
	returnsAll bool
	fresh      bool
}

func idx(xs ...int) map[int]bool {
	m := map[int]bool{}
	for _, x := range xs {
		m[x] = true
	}
	return m
}

var (
	pureFresh = extEffect{fresh: true}                                  // reads its arguments, result (if any) is new
	aliasAll  = extEffect{returnsAll: true, fresh: true}                // reads; result may alias or hold any argument
	w0        = extEffect{writes: idx(0), fresh: true}                  // writes its receiver / first argument
	w0ret0    = extEffect{writes: idx(0), returns: idx(0), fresh: true} // ... and returns it
	w1        = extEffect{writes: idx(1), fresh: true}
	w01       = extEffect{writes: idx(0, 1), fresh: true}
	ret0      = extEffect{returns: idx(0), fresh: true}
	holdsAll  = extEffect{holds: idx(0, 1, 2, 3), fresh: true}             // result is a new object holding the arguments
	deepW0    = extEffect{writes: idx(0), deepWrites: idx(0), fresh: true} // writes the receiver and what it holds

)

// purePackages: every function of these packages only reads its arguments and returns new values
// (or values that cannot be written through: strings, numbers, time.Time, errors).
var purePackages = []string{"math.", "strings.", "unicode.", "errors.", "time.", "(time.Time).", "encoding/hex.DecodeString", "encoding/hex.EncodeToString", "encoding/hex.EncodedLen", "encoding/hex.DecodedLen", "encoding/hex.Dump", "(encoding/hex.InvalidByteError).Error",
	"os.", "flag.", "log.", "regexp.", "(*regexp.Regexp).", "(encoding/json.Number).", "strconv.ParseFloat", "strconv.FormatFloat",
	"fmt.Errorf", "fmt.Sprintf", "fmt.Sprint", "fmt.Printf", "fmt.Println", "error.Error", "(*os.File).", "unicode/utf8.DecodeRune", "unicode/utf8.DecodeRuneInString", "unicode/utf8.DecodeLastRune", "unicode/utf8.DecodeLastRuneInString", "unicode/utf8.RuneLen", "unicode/utf8.RuneCount", "unicode/utf8.RuneCountInString", "unicode/utf8.Valid", "unicode/utf8.ValidString", "unicode/utf8.ValidRune", "unicode/utf8.FullRune", "unicode/utf8.RuneStart",
	"math/big.NewFloat", "(*math/big.Float).Cmp", "(*math/big.Float).Float64", "(*math/big.Float).IsInf", "(*math/big.Float).Sign",
	"(*math/big.Float).Prec", "(*math/big.Float).Text", "(*math/big.Float).String",
	"(*math/big.Rat).Cmp", "(*math/big.Rat).Sign", "math/big.NewRat", "math/big.NewInt", "(*math/big.Int).Sign", "(*math/big.Int).Cmp",
	"(*strings.Builder).String", "(*strings.Builder).Len", "(*bytes.Buffer).Len", "(*bytes.Buffer).String",
	"bytes.Equal", "bytes.HasPrefix", "bytes.Compare", "encoding/json.Marshal", "encoding/json.Valid",
	"encoding/binary.ByteOrder.Uint32", "encoding/binary.ByteOrder.Uint64", "encoding/binary.ByteOrder.Uint16", "encoding/binary.ByteOrder.String",
	"database/sql/driver.", "(*bufio.Scanner).Text", "(*bufio.Scanner).Err", "(*bufio.Scanner).Bytes",
	"reflect.TypeOf",
}

var externalsTable = map[string]extEffect{
	// hex.Decode / hex.Encode / AppendEncode / AppendDecode write (and the append forms return) their destination
	"unicode/utf8.EncodeRune": w0, "unicode/utf8.AppendRune": w0ret0,
	"encoding/hex.Decode": w0, "encoding/hex.Encode": w0, "encoding/hex.AppendEncode": w0ret0, "encoding/hex.AppendDecode": w0ret0,
	// in-place arithmetic on the receiver, which is also returned
	"(*math/big.Float).Add": w0ret0, "(*math/big.Float).Sub": w0ret0, "(*math/big.Float).Mul": w0ret0, "(*math/big.Float).Quo": w0ret0,
	"(*math/big.Float).SetFloat64": w0ret0, "(*math/big.Float).SetPrec": w0ret0, "(*math/big.Float).SetMode": w0ret0,
	"(*math/big.Float).Set": w0ret0, "(*math/big.Float).Neg": w0ret0, "(*math/big.Float).Abs": w0ret0, "(*math/big.Float).SetInt64": w0ret0,
	"(*math/big.Rat).Add": w0ret0, "(*math/big.Rat).Sub": w0ret0, "(*math/big.Rat).Mul": w0ret0, "(*math/big.Rat).SetFloat64": w0ret0,
	"(*math/big.Rat).Set": w0ret0, "(*math/big.Rat).Neg": w0ret0,
	// readers, writers, buffers
	"bufio.NewScanner":                    holdsAll,
	"(*bufio.Scanner).Scan":               w0,
	"(*bufio.Scanner).Buffer":             extEffect{writes: idx(0), stores: [][2]int{{0, 1}}, fresh: true},
	"bytes.NewBuffer":                     holdsAll, // the buffer takes ownership of its argument: writes to the buffer (deepW0) write it
	"bytes.NewReader":                     holdsAll,
	"(*bytes.Buffer).Bytes":               extEffect{returnsAll: true, fresh: true},
	"(*bytes.Buffer).Write":               deepW0,
	"(*bytes.Buffer).WriteByte":           deepW0,
	"(*bytes.Buffer).WriteString":         deepW0,
	"(*bytes.Buffer).WriteRune":           deepW0,
	"(*bytes.Buffer).Reset":               deepW0,
	"(*bytes.Buffer).Grow":                deepW0,
	"(*bytes.Buffer).Truncate":            deepW0,
	"(*strings.Builder).WriteString":      w0,
	"(*strings.Builder).WriteRune":        w0,
	"(*strings.Builder).WriteByte":        w0,
	"(*strings.Builder).Write":            w0,
	"(*strings.Builder).Grow":             w0,
	"(*strings.Builder).Reset":            w0,
	"bytes.TrimRight":                     ret0,
	"bytes.TrimSpace":                     ret0,
	"io.ReadFull":                         w01,
	"io.Reader.Read":                      w01,
	"io.Writer.Write":                     deepW0,
	"io.ByteReader.ReadByte":              w0,
	"io.WriteString":                      w0,
	"fmt.Fprintf":                         w0,
	"fmt.Fprint":                          w0,
	"fmt.Fprintln":                        w0,
	"encoding/binary.Write":               w0,
	"encoding/binary.Read":                extEffect{writes: idx(0, 2), fresh: true},
	"encoding/binary.ByteOrder.PutUint32": w1,
	"encoding/binary.ByteOrder.PutUint64": w1,
	"encoding/binary.ByteOrder.PutUint16": w1,
	"strconv.AppendFloat":                 w0ret0,
	"strconv.AppendInt":                   w0ret0,
	"encoding/json.Unmarshal":             w1, // RawMessage fields and decoded values are copies of the input bytes
	"sort.Sort":                           w0,
	"sort.Stable":                         w0,
	"sort.Slice":                          w0,
	"sort.Float64s":                       w0,
	"sort.Ints":                           w0,
	"(*github.com/twpayne/go-kml/v3.GxKMLElement).WriteIndent": w1,
	"reflect.ValueOf":           aliasAll,
	"(reflect.Value).Index":     aliasAll,
	"(reflect.Value).Interface": aliasAll,
	"(reflect.Value).Kind":      pureFresh,
	"(reflect.Value).Len":       pureFresh,
	"(reflect.Value).IsNil":     pureFresh,
}

func lookupExternal(name string) (extEffect, bool) {
	if e, ok := externalsTable[name]; ok {
		return e, true
	}
	if strings.HasSuffix(name, ".init") {
		return pureFresh, true
	}
	// the KML encoder builds element trees from its arguments
	if strings.HasPrefix(name, "github.com/twpayne/go-kml/v3.") {
		return aliasAll, true
	}
	for _, p := range purePackages {
		if strings.HasPrefix(name, p) {
			return pureFresh, true
		}
	}
	return extEffect{}, false
}
