/-
Line-protocol driver (core-only, compiled).  One request line
  <op>\t<input sexp>\t<go output sexp>
→ one reply line
  <model output sexp>\t<verdict>
`bad-op` when the line cannot be understood (never a default value).
-/
import GeomVerif.Driver.C01
import GeomVerif.Driver.C02
import GeomVerif.Driver.C03
import GeomVerif.Driver.C04
import GeomVerif.Driver.C08
import GeomVerif.Driver.C09
import GeomVerif.Driver.C10
import GeomVerif.Driver.C11
import GeomVerif.Driver.C12
import GeomVerif.Driver.C15
import GeomVerif.Driver.C14
import GeomVerif.Driver.C13
import GeomVerif.Driver.C16
import GeomVerif.Driver.C18
import GeomVerif.Driver.C19
import GeomVerif.Driver.C20
import GeomVerif.Driver.C05
import GeomVerif.Driver.C07
import GeomVerif.Driver.C17

open GeomVerif GeomVerif.Wire

def dispatch (op : String) (inp go : Sexp) : Option Reply :=
  if op.startsWith "C01." then Driver.C01.handle op inp go
  else if op.startsWith "C02." then Driver.C02.handle op inp go
  else if op.startsWith "C03." then Driver.C03.handle op inp go
  else if op.startsWith "C04." then Driver.C04.handle op inp go
  else if op.startsWith "C08." then Driver.C08.handle op inp go
  else if op.startsWith "C09." then Driver.C09.handle op inp go
  else if op.startsWith "C10." then Driver.C10.handle op inp go
  else if op.startsWith "C11." then Driver.C11.handle op inp go
  else if op.startsWith "C12." then Driver.C12.handle op inp go
  else if op.startsWith "C13." then Driver.C13.handle op inp go
  else if op.startsWith "C14." then Driver.C14.handle op inp go
  else if op.startsWith "C15." then Driver.C15.handle op inp go
  else if op.startsWith "C16." then Driver.C16.handle op inp go
  else if op.startsWith "C18." then Driver.C18.handle op inp go
  else if op.startsWith "C19." then Driver.C19.handle op inp go
  else if op.startsWith "C20." then Driver.C20.handle op inp go
  else if op.startsWith "C17." then Driver.C17.handle op inp go
  else if op.startsWith "C07." then Driver.C07.handle op inp go
  else if op.startsWith "C05." || op.startsWith "C06." then Driver.C05.handle op inp go
  else none

def handleLine (line : String) : String :=
  match line.splitOn "\t" with
  | [op, inp, go] =>
    match Sexp.parseAll inp, Sexp.parseAll go with
    | some [i], some [g] =>
      match dispatch op i g with
      | some r => r.model ++ "\t" ++ r.verdict
      | none => "bad-op\tbad-op"
    | _, _ => "bad-op\tbad-op"
  | _ => "bad-op\tbad-op"

partial def loop (hin hout : IO.FS.Stream) : IO Unit := do
  let line ← hin.getLine
  if line.isEmpty then return ()
  let l := if line.endsWith "\n" then (line.dropEnd 1).toString else line
  hout.putStrLn (handleLine l)
  loop hin hout

def main : IO Unit := do
  let hin ← IO.getStdin
  let hout ← IO.getStdout
  loop hin hout
  hout.flush
