import GeomVerif.Wire
import GeomVerif.Spec.C02
import GeomVerif.Spec.C02Coll

namespace GeomVerif.Driver.C02
open GeomVerif GeomVerif.Wire GeomVerif.C02

def decOp {π} (dp : Dec π) : Dec (Op π)
  | .atom "rev" => some .rev
  | .atom "clone" => some .clone
  | .atom "swap" => some .swap
  | .atom "fork" => some .fork
  | .atom "num" => some .num
  | .atom "coords" => some .coords
  | .list [.atom "part", i] => (nat i).map .part
  | .list [.atom "push", l, p] => do pure (.push (← nat l) (← dp p))
  | _ => none

def encUnit : Unit → Sexp := fun _ => .atom "u"

def encOb {ρ κ} (er : ρ → Sexp) (ek : κ → Sexp) : Ob ρ κ → Sexp
  | .push r => encOutcome encUnit r
  | .rev r => encOutcome encUnit r
  | .unit => .atom "u"
  | .num n => .ofNat n
  | .part r => encOutcome er r
  | .coords r => encOutcome ek r

def runBoth {σ σ' π ρ κ} (m : Machine σ π ρ κ) (s : Machine σ' π ρ κ) (dp : Dec π)
    (er : ρ → Sexp) (ek : κ → Sexp) (inp go : Sexp) : Option Reply :=
  match inp with
  | .list [l, .list ops] => do
      let l ← nat l
      let ops ← ops.mapM (decOp dp)
      let mo := (Sexp.list ((run m l ops).map (encOb er ek))).toStr
      let so := (Sexp.list ((run s l ops).map (encOb er ek))).toStr
      pure ⟨mo, verdictOf (so == go.toStr) "history observations differ from the list-of-parts spec"⟩
  | _ => none

def encG1' (g : G1 UInt64) : Sexp := .list [.ofNat g.layout, .ofNat g.stride, encCoord g.flat]
def encG2' (g : G2 UInt64) : Sexp :=
  .list [.ofNat g.layout, .ofNat g.stride, encCoord g.flat, encNats g.ends]

/-! GeometryCollection histories -/

def decMember : Dec (Coll.Member (List UInt64))
  | .list [l, c] => do pure ⟨← nat l, ← coord c⟩
  | _ => none

def encMember (m : Coll.Member (List UInt64)) : Sexp := .list [.ofNat m.layout, encCoord m.payload]

def decCollOp : Dec (Coll.Op (List UInt64))
  | .atom "layout" => some .layout
  | .atom "num" => some .num
  | .atom "geoms" => some .geoms
  | .list [.atom "geom", i] => (nat i).map .geom
  | .list [.atom "setlayout", l] => (nat l).map .setLayout
  | .list (.atom "push" :: gs) => (gs.mapM decMember).map .push
  | .list [.atom "grow", i, l] => do pure (.grow (← nat i) (← nat l))
  | _ => none

def encCollOb : Coll.Ob (List UInt64) → Sexp
  | .res r => encOutcome encUnit r
  | .layout l => .ofNat l
  | .num n => .ofNat n
  | .geom r => encOutcome encMember r
  | .geoms gs => encList encMember gs

def runColl (inp go : Sexp) : Option Reply :=
  match inp with
  | .list ops => do
      let ops ← ops.mapM decCollOp
      let mo := (Sexp.list ((Coll.run Coll.model ops).map encCollOb)).toStr
      let so := (Sexp.list ((Coll.run Coll.spec ops).map encCollOb)).toStr
      pure ⟨mo, verdictOf (so == go.toStr) "collection history observations differ from the list-of-parts spec"⟩
  | _ => none

def handle (op : String) (inp go : Sexp) : Option Reply :=
  match op with
  | "C02.hist.gc" => runColl inp go
  | "C02.hist.poly" | "C02.hist.mls" =>
      runBoth (polyModel (α := UInt64)) polySpec coords1 encG1' encCoords2 inp go
  | "C02.hist.mpoint" =>
      runBoth (mpointModel (α := UInt64)) mpointSpec (optOf coord) encG1' encMCoords inp go
  | "C02.hist.mpoly" =>
      runBoth (mpolyModel (α := UInt64)) mpolySpec coords2 encG2' encCoords3 inp go
  | _ => none

end GeomVerif.Driver.C02
