import GeomVerif.Wire
import GeomVerif.Spec.C11
import GeomVerif.Driver.C10

namespace GeomVerif.Driver.C11
open GeomVerif GeomVerif.Wire GeomVerif.Rdp GeomVerif.Orient GeomVerif.Locate
open GeomVerif.Driver.C09 GeomVerif.Driver.C20 GeomVerif.Driver.C10

def fdet : DetOps Float where
  toFieldOps := ffield
  floor := Float.floor
  neg := fun x => -x

def locStr : Loc → String
  | .interior => "interior" | .boundary => "boundary" | .exterior => "exterior"

def ptsOf (stride : Nat) (raw : List UInt64) : List (UInt64 × UInt64) :=
  if stride < 2 then [] else
  (List.range (raw.length / stride)).map fun i => (raw.getD (i * stride) 0, raw.getD (i * stride + 1) 0)

def fpt (p : UInt64 × UInt64) : Float × Float := (Float.ofBits p.1, Float.ofBits p.2)
def rpt (p : UInt64 × UInt64) : Option (Rat × Rat) := do
  pure (← Exact.ofBits p.1, ← Exact.ofBits p.2)

/-- robust PointIntersectsLine: within the segment's bounding box and exactly collinear. -/
def onLineModel (p : Float × Float) (line : List (Float × Float)) (exact : List (Rat × Rat)) (pe : Rat × Rat) : Bool :=
  let segs := C11.edges exact
  let fsegs := C11.edges line
  (fsegs.zip segs).any fun (fs, es) =>
    let inb := min fs.1.1 fs.2.1 ≤ p.1 && max fs.1.1 fs.2.1 ≥ p.1 &&
               min fs.1.2 fs.2.2 ≤ p.2 && max fs.1.2 fs.2.2 ≥ p.2
    inb && exactSign es.1 es.2 pe == 0 && exactSign es.2 es.1 pe == 0

def handle (op : String) (inp go : Sexp) : Option Reply :=
  match op, inp with
  | "C11.locate", .list [st, p, ring] => do
      let stride ← nat st
      let pb ← listOf bits p
      let rb ← listOf bits ring
      let pf := fpt (pb.getD 0 0, pb.getD 1 0)
      let vs := ptsOf stride rb
      let loc := locate fdet 200 pf.1 pf.2 (vs.map fpt)
      let m := Sexp.list [.atom (locStr loc), .ofBool (loc != .exterior)]
      let v := match rpt (pb.getD 0 0, pb.getD 1 0), vs.mapM rpt, go with
        | some pe, some ve, .list [.atom l, .atom inr] =>
            let want := C11.locate pe ve
            if l != locStr want then "FAIL LocatePointInRing differs from the exact even-odd rule"
            else if inr != toString (want != .exterior) then "FAIL IsPointInRing is not (interior or boundary)"
            else "ok"
        | some _, some _, _ => "FAIL LocatePointInRing panicked"
        | _, _, _ => "na"
      pure ⟨m.toStr, v⟩
  | "C11.online", .list [st, p, line] => do
      let stride ← nat st
      let pb ← listOf bits p
      let lb ← listOf bits line
      let vs := ptsOf stride lb
      match rpt (pb.getD 0 0, pb.getD 1 0), vs.mapM rpt with
      | some pe, some ve =>
          let mres := onLineModel (fpt (pb.getD 0 0, pb.getD 1 0)) (vs.map fpt) ve pe
          let want := C11.onLine pe ve
          pure ⟨(Sexp.ofBool mres).toStr,
            verdictOf (go.toStr == toString want) "IsOnLine differs from 'the point lies on one of the segments' in exact arithmetic"⟩
      | _, _ => pure ⟨"-", "na"⟩
  | "C11.ptline", .list [p, a, b] => do
      -- lineintersector.PointIntersectsLine with the robust and with the non-robust strategy, on small
      -- integer coordinates (where the non-robust arithmetic is exact) and a segment of non-zero length
      let pb ← listOf bits p
      let ab ← listOf bits a
      let bb ← listOf bits b
      match rpt (pb.getD 0 0, pb.getD 1 0), rpt (ab.getD 0 0, ab.getD 1 0), rpt (bb.getD 0 0, bb.getD 1 0) with
      | some pe, some ae, some be =>
          let want := C11.onLine pe [ae, be]
          let m := s!"({want} {want})"
          pure ⟨m, verdictOf (go.toStr == m)
            "PointIntersectsLine (robust, non-robust) differs from 'the point lies on the segment' in exact arithmetic"⟩
      | _, _, _ => pure ⟨"-", "na"⟩
  | _, _ => none

end GeomVerif.Driver.C11
