import GeomVerif.Wire
import GeomVerif.Spec.C09

namespace GeomVerif.Driver.C09
open GeomVerif GeomVerif.Wire GeomVerif.C09

/-- IEEE binary64 arithmetic: Lean's `Float` performs each operation separately and
correctly rounded, as Go does on amd64 (no fused multiply-add). -/
def farith : Arith Float where
  zero := 0.0
  add := (· + ·)
  sub := (· - ·)
  mul := (· * ·)
  sqrt := Float.sqrt
  half := (· / 2.0)

def decGeom {β} (df : Dec β) : Dec (MGeom β)
  | .list [.atom t, s, f, e] => do
      let s ← nat s
      let f ← listOf df f
      match t with
      | "pt" => pure (.point s f)
      | "ls" => pure (.lineString s f)
      | "lr" => pure (.linearRing s f)
      | "pg" => do pure (.polygon s f (← listOf nat e))
      | "mp" => do pure (.multiPoint s f (← listOf nat e))
      | "mls" => do pure (.multiLineString s f (← listOf nat e))
      | "mpg" => do pure (.multiPolygon s f (← listOf (listOf nat) e))
      | _ => none
  | _ => none

def fltBits : Dec Float := fun s => (bits s).map Float.ofBits
def ratBits : Dec Rat := fun s => (bits s).bind Exact.ofBits

def encAL (p : Float × Float) : Sexp := .list [bitsAtom p.1.toBits, bitsAtom p.2.toBits]

def handle (op : String) (inp go : Sexp) : Option Reply :=
  match op with
  | "C09.measure" => do
      let gf ← decGeom fltBits inp
      let m : Outcome (Float × Float) := do
        let a ← gf.area farith
        let l ← gf.length farith
        .ok (a, l)
      let mstr := (encOutcome encAL m).toStr
      -- oracle on Go's output, in exact arithmetic
      let v : String :=
        match decGeom ratBits inp, go with
        | some gr, .list [.atom "ok", .list [ga, gl]] =>
          match ratBits ga, ratBits gl with
          | some a, some l =>
            let r := reference gr
            if r.closed && Exact.abs (a - r.area) > r.areaTol then
              "FAIL area differs from the exact shoelace area by more than the rounding bound"
            else if l < r.lenLo - r.lenTol || l > r.lenHi + r.lenTol then
              "FAIL length differs from the exact polyline length by more than the rounding bound"
            else "ok"
          | _, _ => "FAIL Area/Length is NaN or infinite on finite input"
        | some _, _ => "FAIL Area/Length panicked"
        | none, _ => "na"
      pure ⟨mstr, v⟩
  | _ => none

end GeomVerif.Driver.C09
