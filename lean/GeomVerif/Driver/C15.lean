import GeomVerif.Wire
import GeomVerif.Model.Distance
import GeomVerif.Spec.C15
import GeomVerif.Driver.C12

namespace GeomVerif.Driver.C15
open GeomVerif GeomVerif.Wire GeomVerif.Rdp GeomVerif.Locate GeomVerif.Intersect GeomVerif.Dist
open GeomVerif.Driver.C09 GeomVerif.Driver.C11

def fd : DOps Float where
  toDetOps := fdet
  abs := Float.abs

def f2 (l : List UInt64) : Float × Float := (Float.ofBits (l.getD 0 0), Float.ofBits (l.getD 1 0))
def f3 (l : List UInt64) : Float × Float × Float :=
  (Float.ofBits (l.getD 0 0), Float.ofBits (l.getD 1 0), Float.ofBits (l.getD 2 0))
def rv (n : Nat) (l : List UInt64) : Option (List Rat) := (l.take n).mapM Exact.ofBits

def verdictDist (g : Sexp) (d2 : Rat) (scale : Rat) (what : String) : String :=
  match bits g with
  | some b =>
    (match Exact.ofBits b with
     | some gr => if C15.close gr d2 scale then "ok" else s!"FAIL {what} is not the true minimum distance"
     | none => s!"FAIL {what} is NaN or infinite")
  | none => s!"FAIL {what} panicked"

def handle (op : String) (inp go : Sexp) : Option Reply :=
  match op, inp with
  | "C15.ptseg2", .list [p, a, b] => do
      let p ← listOf bits p; let a ← listOf bits a; let b ← listOf bits b
      let m := pointToSeg fd (f2 p) (f2 a) (f2 b)
      let v := match rv 2 p, rv 2 a, rv 2 b with
        | some pe, some ae, some be =>
            verdictDist go (C15.ptSeg2 pe ae be) (C15.scaleOf [pe, ae, be]) "DistanceFromPointToLine"
        | _, _, _ => "na"
      pure ⟨(bitsAtom m.toBits).toStr, v⟩
  | "C15.perp2", .list [p, a, b] => do
      let p ← listOf bits p; let a ← listOf bits a; let b ← listOf bits b
      let m := perpDist fd (f2 p) (f2 a) (f2 b)
      let v := match rv 2 p, rv 2 a, rv 2 b with
        | some pe, some ae, some be =>
            verdictDist go (C15.perp2 pe ae be) (C15.scaleOf [pe, ae, be]) "PerpendicularDistanceFromPointToLine"
        | _, _, _ => "na"
      pure ⟨(bitsAtom m.toBits).toStr, v⟩
  | "C15.ptline2", .list [st, p, line] => do
      let stride ← nat st
      let p ← listOf bits p; let raw ← listOf bits line
      let vs := (List.range (raw.length / stride)).map fun i => [raw.getD (i * stride) 0, raw.getD (i * stride + 1) 0]
      let m := pointToLineString fd (f2 p) (vs.map f2)
      let v := match rv 2 p, vs.mapM (rv 2) with
        | some pe, some ve =>
            verdictDist go (C15.ptLine2 pe ve) (C15.scaleOf (pe :: ve)) "DistanceFromPointToLineString"
        | _, _ => "na"
      pure ⟨(bitsAtom m.toBits).toStr, v⟩
  | "C15.segseg2", .list [a, b, c, d] => do
      let a ← listOf bits a; let b ← listOf bits b; let c ← listOf bits c; let d ← listOf bits d
      let m := segToSeg fd (f2 a) (f2 b) (f2 c) (f2 d)
      let v := match rv 2 a, rv 2 b, rv 2 c, rv 2 d with
        | some ae, some be, some ce, some de =>
            verdictDist go (C15.segSeg2 ae be ce de) (C15.scaleOf [ae, be, ce, de]) "DistanceFromLineToLine"
        | _, _, _, _ => "na"
      pure ⟨(bitsAtom m.toBits).toStr, v⟩
  | "C15.ptseg3", .list [p, a, b] => do
      let p ← listOf bits p; let a ← listOf bits a; let b ← listOf bits b
      let m := pointToSeg3 fd (f3 p) (f3 a) (f3 b)
      let v := match rv 3 p, rv 3 a, rv 3 b with
        | some pe, some ae, some be =>
            verdictDist go (C15.ptSeg2 pe ae be) (C15.scaleOf [pe, ae, be]) "xyz.DistancePointToLine"
        | _, _, _ => "na"
      pure ⟨(bitsAtom m.toBits).toStr, v⟩
  | "C15.segseg3", .list [a, b, c, d] => do
      let a ← listOf bits a; let b ← listOf bits b; let c ← listOf bits c; let d ← listOf bits d
      let m := segToSeg3 fd (f3 a) (f3 b) (f3 c) (f3 d)
      let v := match rv 3 a, rv 3 b, rv 3 c, rv 3 d with
        | some ae, some be, some ce, some de =>
            verdictDist go (C15.segSeg2 ae be ce de) (C15.scaleOf [ae, be, ce, de]) "xyz.DistanceLineToLine"
        | _, _, _, _ => "na"
      pure ⟨(bitsAtom m.toBits).toStr, v⟩
  | _, _ => none

end GeomVerif.Driver.C15
