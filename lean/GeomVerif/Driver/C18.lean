import GeomVerif.Wire
import GeomVerif.Model.WktEncode
import GeomVerif.Model.WkbConv
import GeomVerif.Spec.Decimal
import GeomVerif.Driver.C03

namespace GeomVerif.Driver.C18
open GeomVerif GeomVerif.Wire GeomVerif.Wkb GeomVerif.WkbSpec GeomVerif.WktEnc GeomVerif.Decimal
open GeomVerif.Driver.C03

def fmtMax (d : Nat) : WktEnc.Fmt := fun bits =>
  match signMag bits with
  | some (neg, n, den) => formatMax neg n den d
  | none => "NaN"

def hexOfString (s : String) : String := bytesToHex s.toUTF8.toList
def stringOfHex (h : String) : Option String := do
  let bs ← hexToBytes? h
  String.fromUTF8? ⟨bs.toArray⟩

/-- Maximal numerals of a text and the text with each replaced by `#`. -/
def splitNumbers (s : String) : List String × String := Id.run do
  let cs := s.toList.toArray
  let mut nums : Array String := #[]
  let mut skel : String := ""
  let mut i := 0
  while i < cs.size do
    let c := cs[i]!
    let startsNum := c.isDigit || (c == '-' && i + 1 < cs.size && cs[i+1]!.isDigit)
    if startsNum then
      let mut j := i + 1
      while j < cs.size && (cs[j]!.isDigit || cs[j]! == '.') do
        j := j + 1
      nums := nums.push (String.ofList (cs.extract i j).toList)
      skel := skel.push '#'
      i := j
    else
      skel := skel.push c
      i := i + 1
  return (nums.toList, skel)

/-- All ordinates of an abstract geometry in emission order. -/
partial def ordinates : AGeom → List Ord
  | .point _ _ c => c.getD []
  | .lineString _ _ cs => cs.flatten
  | .polygon _ _ r => r.flatten.flatten
  | .multiPoint _ _ cs => (cs.map (·.getD [])).flatten
  | .multiLineString _ _ x => x.flatten.flatten
  | .multiPolygon _ _ x => x.flatten.flatten.flatten
  | .collection _ _ gs => (gs.map ordinates).flatten

partial def coordList : AGeom → List (List Ord)
  | .point _ _ c => (c.map ([·])).getD []
  | .lineString _ _ cs => cs
  | .polygon _ _ r => r.flatten
  | .multiPoint _ _ cs => cs.filterMap id
  | .multiLineString _ _ x => x.flatten
  | .multiPolygon _ _ x => x.flatten.flatten
  | .collection _ _ gs => (gs.map coordList).flatten

/-- Check every emitted numeral against the ordinate it stands for. -/
def checkNumbers (d : Nat) (nums : List String) (want : List Rat) : String :=
  if nums.length != want.length then "FAIL number of ordinates in the output changed"
  else
    let half := mkRat 1 (2 * 10 ^ d)
    let bad := (nums.zip want).find? fun (s, x) =>
      match scan s with
      | some (v, fr, trailing) => !(fr ≤ d && !trailing && Exact.abs (v - x) ≤ half)
      | none => true
    match bad with
    | some (s, _) => s!"FAIL emitted number {s} has more than {d} fractional digits, a trailing zero, or is off by more than half a unit in the last place"
    | none => "ok"

def goMinF (a b : Float) : Float :=
  if a == 0.0 && b == 0.0 then (if a.toBits == 0x8000000000000000 || b.toBits == 0x8000000000000000 then -0.0 else 0.0)
  else if b < a then b else a
def goMaxF (a b : Float) : Float :=
  if a == 0.0 && b == 0.0 then (if a.toBits == 0 || b.toBits == 0 then 0.0 else -0.0)
  else if a < b then b else a

/-- bbox ordinates as the encoder lists them: mins then maxs over 2 (XY, XYM) or 3 (XYZ, XYZM) dims. -/
def bboxBits (l : Layout) (cs : List (List Ord)) : List Ord :=
  let dims := if l == 2 || l == 4 then 3 else 2
  let col (j : Nat) : List Float := cs.map fun c => Float.ofBits (c.getD j 0)
  let mn (j : Nat) : Float := (col j).foldl goMinF (Float.ofBits 0x7FF0000000000000)
  let mx (j : Nat) : Float := (col j).foldl goMaxF (Float.ofBits 0xFFF0000000000000)
  ((List.range dims).map fun j => (mn j).toBits) ++ ((List.range dims).map fun j => (mx j).toBits)

def bboxRat (l : Layout) (cs : List (List Rat)) : List Rat :=
  let dims := if l == 2 || l == 4 then 3 else 2
  let col (j : Nat) : List Rat := cs.map fun c => c.getD j 0
  ((List.range dims).map fun j => (col j).foldl min ((col j).headD 0)) ++
  ((List.range dims).map fun j => (col j).foldl max ((col j).headD 0))

def typeName : AGeom → String
  | .point .. => "Point" | .lineString .. => "LineString" | .polygon .. => "Polygon"
  | .multiPoint .. => "MultiPoint" | .multiLineString .. => "MultiLineString"
  | .multiPolygon .. => "MultiPolygon" | .collection .. => "GeometryCollection"

partial def geojsonText (f : WktEnc.Fmt) (bbox : Option String) (a : AGeom) : String :=
  let bb := match bbox with | some b => "\"bbox\":" ++ b ++ "," | none => ""
  let body := match a with
    | .point _ _ c => "\"coordinates\":" ++ (match c with | some c => jCoord f c | none => "[]")
    | .lineString _ _ cs => "\"coordinates\":" ++ jCoords1 f cs
    | .polygon _ _ r => "\"coordinates\":" ++ jCoords2 f r
    | .multiPoint _ _ cs => "\"coordinates\":" ++ jsonArr (cs.map fun c => match c with | some c => jCoord f c | none => "null")
    | .multiLineString _ _ x => "\"coordinates\":" ++ jCoords2 f x
    | .multiPolygon _ _ x => "\"coordinates\":" ++ jCoords3 f x
    | .collection _ _ gs => "\"geometries\":" ++ jsonArr (gs.map (geojsonText f none))
  "{\"type\":\"" ++ typeName a ++ "\"," ++ bb ++ body ++ "}"

def ratOf (o : Ord) : Option Rat := Exact.ofBits o

def handle (op : String) (inp go : Sexp) : Option Reply :=
  match op, inp with
  | "C18.wkt", .list [d, a] => do
      let d ← nat d; let a ← decA a
      let m : String := match toModel a with
        | .ok g => (match write (fmtMax d) g.depth g with
            | .ok t => "(ok " ++ hexOfString t ++ ")"
            | r => (encOutcome (fun (_ : String) => Sexp.atom "u") r).toStr)
        | _ => "(panic)"
      let v : String := match (ordinates a).mapM ratOf, go with
        | some want, .list [.atom "ok", .atom hex] =>
            (match stringOfHex hex, toModel a with
             | some txt, .ok g =>
                let (nums, skel) := splitNumbers txt
                let mskel := match write (fmtMax d) g.depth g with
                  | .ok t => (splitNumbers t).2
                  | _ => ""
                if skel != mskel then "FAIL WKT structure (type, nesting, EMPTY members, ordinate count) changed"
                else checkNumbers d nums want
             | _, _ => "FAIL unreadable output")
        | some _, _ => "FAIL WKT encoding with a digit limit failed"
        | none, _ => "na"
      pure ⟨m, v⟩
  | "C18.geojson", .list [d, .atom bb, _order, a] => do
      let d ← nat d; let a ← decA a
      let withBox := bb == "bbox"
      let l := a.dims
      let boxTxt := if withBox then some (jsonArr ((bboxBits l (coordList a)).map (fmtMax d))) else none
      let m := "(ok " ++ hexOfString (geojsonText (fmtMax d) boxTxt a) ++ ")"
      let v : String := match (ordinates a).mapM ratOf, (coordList a).mapM (·.mapM ratOf), go with
        | some want, some cl, .list [.atom "ok", .atom hex] =>
            (match stringOfHex hex with
             | some txt =>
                let (nums, skel) := splitNumbers txt
                let mskel := (splitNumbers (geojsonText (fmtMax d) boxTxt a)).2
                if skel != mskel then "FAIL GeoJSON structure (type, nesting, bbox, ordinate count) changed"
                else checkNumbers d nums ((if withBox then bboxRat l cl else []) ++ want)
             | none => "FAIL unreadable output")
        | some _, some _, _ => "FAIL GeoJSON encoding with a digit limit failed"
        | _, _, _ => "na"
      pure ⟨m, v⟩
  | _, _ => none

end GeomVerif.Driver.C18
