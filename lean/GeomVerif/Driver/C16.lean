import GeomVerif.Wire
import GeomVerif.Model.HeapGeom

namespace GeomVerif.Driver.C16
open GeomVerif GeomVerif.Wire GeomVerif.Heap

def cell : Dec Cell := Sexp.asBits?
def cells : Dec (List Cell) := listOf cell

def decKind : Dec Kind
  | .atom "g1" => some .g1
  | .atom "g2poly" => some .g2poly
  | .atom "g2mp" => some .g2mp
  | .atom "g3" => some .g3
  | .atom "bounds" => some .bounds
  | .atom "coord" => some .coord
  | _ => none

def decOptCells : Dec (Option (List Cell)) := optOf cells

def decMut : Dec Mut
  | .list [.atom "setOrd", i, v] => do pure (.setOrd (← nat i) (← cell v))
  | .list [.atom "setEnd", r, j, v] => do pure (.setEnd (← nat r) (← nat j) (← cell v))
  | .atom "reverse" => some .reverse
  | .atom "xform" => some .xform
  | .list [.atom "push", f, e] => do pure (.push (← cells f) (← listOf nat e))
  | .list [.atom "setCoords", f, e] => do pure (.setCoords (← decOptCells f) (← decOptCells e))
  | .list [.atom "boundsSet", a, b] => do pure (.boundsSet (← cells a) (← cells b))
  | _ => none

def decSideMut : Dec (Bool × Mut)
  | .list [.atom "o", m] => (decMut m).map (false, ·)
  | .list [.atom "c", m] => (decMut m).map (true, ·)
  | _ => none

/-- Initial slice: `nil` or `(cap (vals…))`, each in its own array with `cap - len` spare cells. -/
def decInitSlice : Dec (Option (Nat × List Cell))
  | .atom "nil" => some none
  | .list [c, vs] => do pure (some (← nat c, ← cells vs))
  | _ => none

def build (scalars : List Int) (ss : List (Option (Nat × List Cell))) : Heap × ObjH :=
  let step := fun (acc : Heap × List (Option Slice)) (s : Option (Nat × List Cell)) =>
    match s with
    | none => (acc.1, acc.2 ++ [none])
    | some (cap, vs) =>
        let (h', sl) := alloc acc.1 vs cap
        (h', acc.2 ++ [some sl])
  let (h, sl) := ss.foldl step ([], [])
  (h, ⟨scalars, sl⟩)

def encCells (cs : List Cell) : Sexp := encList bitsAtom cs
def encObjV (v : ObjV) : Sexp :=
  .list [encList Sexp.ofInt v.scalars, encList (encOpt encCells) v.slices]
def encPairV (p : ObjV × ObjV) : Sexp := .list [encObjV p.1, encObjV p.2]

/-- Go's runtime growth policy is irrelevant to what is observed (theorem C16_frame holds for
every policy); the driver uses doubling. -/
def growPolicy (old need : Nat) : Nat := max (2 * old) need

def handle (op : String) (inp go : Sexp) : Option Reply :=
  match op, inp with
  | "C16.hist", .list [k, sc, .list ss, .list ms] => do
      let k ← decKind k
      let sc ← listOf int sc
      let ss ← ss.mapM decInitSlice
      let ms ← ms.mapM decSideMut
      let (h0, a) := build sc ss
      let (h1, b) := clone h0 a
      let first := (absObj h1 a, absObj h1 b)
      let mrun := first :: runMutH growPolicy k h1 a b ms
      let vrun := (absObj h0 a, absObj h0 a) :: runMutV k (absObj h0 a) (absObj h0 a) ms
      let mstr := (Sexp.list (mrun.map encPairV)).toStr
      let vstr := (Sexp.list (vrun.map encPairV)).toStr
      pure ⟨mstr, verdictOf (vstr == go.toStr)
        "original and clone do not behave as two independent equal values"⟩
  | _, _ => none

end GeomVerif.Driver.C16
