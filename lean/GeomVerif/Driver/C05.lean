import GeomVerif.Wire
import GeomVerif.Model.WktParse
import GeomVerif.Model.WktEncode
import GeomVerif.Model.WkbConv
import GeomVerif.Spec.ParseFloat
import GeomVerif.Spec.WktRef
import GeomVerif.Driver.C18

/-
C05 / C06 handlers.  The model is the regenerated LALR parser of Model/WktParse.lean, the
oracle the independent reader of Spec/WktRef.lean plus the consistency predicate.
-/
namespace GeomVerif.Driver.C05
open GeomVerif GeomVerif.Wire GeomVerif.Wkb GeomVerif.WkbSpec GeomVerif.WktParse
open GeomVerif.Driver.C03

def feq := WktRef.feq

mutual
def normW : WGeom → WGeom
  | .collection l s gs => .collection (WGeom.layoutOf (.collection l s gs)) s (normWs gs)
  | g => g
def normWs : List WGeom → List WGeom
  | [] => []
  | g :: gs => normW g :: normWs gs
end

/-- Raw (flat-level) wire form of a geometry value. -/
partial def encW : WGeom → Sexp
  | .point g => .list [.atom "pt", .ofNat g.layout, .ofNat g.stride, encCoord g.flat]
  | .lineString g => .list [.atom "ls", .ofNat g.layout, .ofNat g.stride, encCoord g.flat]
  | .polygon g => .list [.atom "pg", .ofNat g.layout, .ofNat g.stride, encCoord g.flat, encNats g.ends]
  | .multiPoint g => .list [.atom "mp", .ofNat g.layout, .ofNat g.stride, encCoord g.flat, encNats g.ends]
  | .multiLineString g => .list [.atom "mls", .ofNat g.layout, .ofNat g.stride, encCoord g.flat, encNats g.ends]
  | .multiPolygon g => .list [.atom "mpg", .ofNat g.layout, .ofNat g.stride, encCoord g.flat, encList encNats g.endss]
  | .collection l s gs => .list [.atom "gc", .ofNat (WGeom.layoutOf (.collection l s gs)), .list (gs.map encW)]

partial def decW : Dec WGeom
  | .list [.atom "pt", l, s, f] => do pure (.point ⟨← nat l, ← nat s, ← coord f, 0⟩)
  | .list [.atom "ls", l, s, f] => do pure (.lineString ⟨← nat l, ← nat s, ← coord f, 0⟩)
  | .list [.atom "pg", l, s, f, e] => do pure (.polygon ⟨← nat l, ← nat s, ← coord f, ← listOf nat e, 0⟩)
  | .list [.atom "mp", l, s, f, e] => do pure (.multiPoint ⟨← nat l, ← nat s, ← coord f, ← listOf nat e, 0⟩)
  | .list [.atom "mls", l, s, f, e] => do pure (.multiLineString ⟨← nat l, ← nat s, ← coord f, ← listOf nat e, 0⟩)
  | .list [.atom "mpg", l, s, f, e] => do
      pure (.multiPolygon ⟨← nat l, ← nat s, ← coord f, ← listOf (listOf nat) e, 0⟩)
  | .list [.atom "gc", l, .list gs] => do pure (.collection (← nat l) 0 (← gs.mapM decW))
  | _ => none

def hexIn : Dec (List UInt8)
  | .atom s => hexToBytes? s
  | _ => none

/-- The model's Unmarshal + Error() in the wire form of the harness. -/
def modelParse (bytes : List UInt8) : Sexp :=
  let w : Input := bytes.toArray
  let r := unmarshalT ParseFloat.parseFloat feq w
  if !protocolOK {} r.2.2 then .list [.atom "protocol-violation"] else
  match r.1, r.2.1 with
  | .ok (some g), _ => .list [.atom "ok", encW g]
  | .ok none, _ => .list [.atom "ok", .atom "nil"]
  | .err _, some (.syn e) =>
      (match render w e with
       | .ok msg => .list [.atom "err", .atom "syntax", .atom (bytesToHex msg)]
       | .error _ => .list [.atom "err", .atom "syntax", .atom "panic"])
  | .err _, some (.geomErr e) => .list (.atom "err" :: encErr e)
  | .err _, none => .list [.atom "err", .atom "other"]
  | .panic _, _ => .list [.atom "panic"]

def payloadOf : Sexp → Sexp
  | .list [.atom "m", _, p] => p
  | s => s
def measureOf : Sexp → Option Sexp
  | .list [.atom "m", m, _] => some m
  | _ => none

def sameAsRef (raw : WGeom) (a : AGeom) : Bool :=
  match toAbstract (normW raw) with
  | .ok got => WktRef.normA got == WktRef.normA a
  | _ => false

/-- Oracle for an accepted parse. -/
def acceptedVerdict (bytes : List UInt8) (raw : WGeom) (re : Option Sexp) : String :=
  if !WktRef.isConsistent raw then
    "FAIL accepted geometry is not consistent (one dimension throughout, well-formed offsets, linestrings of 0 or >= 2 points, closed rings of >= 4 points)"
  else
    match WktRef.read bytes with
    | .error (.semantic why) => "FAIL accepted a text that must be rejected: " ++ why
    | .ok a =>
        if !sameAsRef raw a then "FAIL accepted geometry differs from the reference reading of the text"
        else reVerdict raw re
    | .error _ => reVerdict raw re
where
  reVerdict (raw : WGeom) (re : Option Sexp) : String :=
    match re with
    | none => "ok"
    | some (.list [.atom "re", .list [.atom "ok", r]]) =>
        (match decW r with
         | some raw' => if (encW raw').toStr == (encW raw).toStr then "ok"
                        else "FAIL re-encoding an accepted geometry and parsing the result gives a different geometry"
         | none => "FAIL unreadable re-parse result")
    | some _ => "FAIL re-encoding an accepted geometry and parsing the result fails"

def parseVerdict (bytes : List UInt8) (go : Sexp) : String :=
  match payloadOf go with
  | .list [.atom "panic"] => "FAIL the parser panicked (an internal assertion or index expression is reachable)"
  | .list [.atom "err", .atom "syntax", .atom "panic"] => "FAIL the syntax error cannot be rendered (Error() panicked)"
  | .list [.atom "err", .atom "syntax", .atom m] => if m == "-" then "FAIL empty error message" else "ok"
  | .list (.atom "err" :: _) => "ok"
  | .list [.atom "ok", .atom "nil"] => "FAIL neither an error nor a geometry was returned"
  | .list [.atom "ok", r] =>
      (match decW r with
       | some raw => acceptedVerdict bytes raw (measureOf go)
       | none => "FAIL unreadable result")
  | _ => "FAIL unreadable result"

def wantOf (a : AGeom) : Option WGeom :=
  match toModel a with
  | .ok g => some (normW g)
  | _ => none

def handle (op : String) (inp go : Sexp) : Option Reply :=
  match op, inp with
  | "C06.parse", data => do
      let bytes ← hexIn data
      pure ⟨(modelParse bytes).toStr, parseVerdict bytes go⟩
  | "C05.spell", .list [a, data] => do
      let a ← decA a
      let bytes ← hexIn data
      let m := modelParse bytes
      let v : String :=
        match WktRef.read bytes, wantOf a with
        | .ok r, some want =>
            if WktRef.normA r != WktRef.normA a then "na"
            else if (payloadOf go).toStr == (Sexp.list [.atom "ok", encW want]).toStr then "ok"
            else "FAIL a standard spelling of the geometry does not parse to that geometry"
        | _, _ => "na"
      pure ⟨m.toStr, v⟩
  | "C05.enc", a => do
      let a ← decA a
      let text : Option (List UInt8) := match measureOf go with
        | some (.atom "-") => none
        | some (.atom h) => hexToBytes? h
        | _ => none
      let m : Sexp := match text with
        | some bytes => modelParse bytes
        | none => .list [.atom "err", .atom "other"]
      let v : String :=
        match text, wantOf a with
        | some bytes, some want =>
            let txt := (String.fromUTF8? ⟨bytes.toArray⟩).getD ""
            let (nums, skel) := Driver.C18.splitNumbers txt
            let mskel := match WktEnc.write (fun _ => "0") want.depth want with
              | .ok t => (Driver.C18.splitNumbers t).2
              | _ => "?"
            let ords := Driver.C18.ordinates a
            if skel != mskel then "FAIL WKT text structure (type word, Z/M/ZM suffix, nesting, EMPTY members) is not the encoding of the geometry"
            else if nums.length != ords.length then "FAIL number of ordinates in the text changed"
            else if (nums.zip ords).any fun (s, o) => ParseFloat.parseFloat s.toList != some o then
              "FAIL an emitted number does not read back as the same float64"
            else
              match WktRef.read bytes with
              | .ok r =>
                  if WktRef.normA r != WktRef.normA a then "FAIL the reference reader understands the emitted text as a different geometry"
                  else if (payloadOf go).toStr == (Sexp.list [.atom "ok", encW want]).toStr then "ok"
                  else "FAIL the library's own parser does not return the original geometry from the encoder's text"
              | .error _ => "FAIL the reference reader rejects the emitted text"
        | none, some _ => "FAIL encoding a WKT-expressible geometry failed"
        | _, none => "na"
      pure ⟨m.toStr, v⟩
  | _, _ => none

end GeomVerif.Driver.C05
