import GeomVerif.Wire
import GeomVerif.Spec.C08

namespace GeomVerif.Driver.C08
open GeomVerif GeomVerif.Wire GeomVerif.C08

/-- Float instance of the order operations (inputs never contain NaN or -0, where
math.Min/math.Max differ from plain comparison). -/
def fops : OrdOps Float where
  min a b := if b < a then b else a
  max a b := if a < b then b else a
  lt a b := a < b
  top := Float.ofBits 0x7FF0000000000000
  bot := Float.ofBits 0xFFF0000000000000

def flt : Dec Float := fun s => (bits s).map Float.ofBits
def encF (f : Float) : Sexp := bitsAtom f.toBits
def encFs (fs : List Float) : Sexp := encList encF fs

partial def decTree : Dec (BGeom Float)
  | .list [.atom "f", l, s, c] => do pure (.flat (← nat l) (← nat s) (← listOf flt c))
  | .list [.atom "c", f, .list gs] => do pure (.coll (← nat f) (← gs.mapM decTree))
  | _ => none

/-- Only the `Layout().Stride()` slots observable through `Min(i)`/`Max(i)` are compared. -/
def encBounds (b : Bounds Float) : Sexp :=
  .list [.ofNat b.layout, encFs (b.min.take b.layout.stride), encFs (b.max.take b.layout.stride)]
def decBounds : Dec (Bounds Float)
  | .list [l, mn, mx] => do pure ⟨← nat l, ← listOf flt mn, ← listOf flt mx⟩
  | _ => none

def beqBounds (a b : Bounds Float) : Bool :=
  a.layout == b.layout && a.min.map Float.toBits == b.min.map Float.toBits &&
    a.max.map Float.toBits == b.max.map Float.toBits

def withEmpty (b : Outcome (Bounds Float)) : Outcome (Bounds Float × Bool) := do
  let b ← b
  let e ← b.isEmpty fops
  .ok (b, e)

def encBE := encOutcome (encPair encBounds Sexp.ofBool)
def decBool : Dec Bool
  | .atom "true" => some true
  | .atom "false" => some false
  | _ => none
def decBE := decOutcome (decPair decBounds decBool)

def verdictBE (want : Bounds Float) (wantEmpty : Bool) : Outcome (Bounds Float × Bool) → String
  | .ok (b, e) =>
      if !beqBounds b want then "FAIL bounds are not the per-dimension min/max"
      else if e != wantEmpty then "FAIL IsEmpty disagrees with 'no coordinates'"
      else "ok"
  | _ => "FAIL Bounds panicked or failed"

/-- Per semantic dimension X,Y,Z,M: the (min,max) a box of layout 0..4 reports, absent = (+Inf,-Inf). -/
def semOf (b : Bounds Float) : List (UInt64 × UInt64) :=
  (List.range 4).map fun d =>
    match (slotDims b.layout).idxOf? d with
    | some k => ((b.min.getD k fops.top).toBits, (b.max.getD k fops.bot).toBits)
    | none => (fops.top.toBits, fops.bot.toBits)

/-- Oracle for layout mixes: every semantic dimension holds exactly the min/max over the
coordinates that have it (so Z stays with Z and M with M, whatever the order); a box built
from no coordinates is empty; a box whose every dimension received a value is not. -/
def verdictSem (pts : List (List (Option Float))) : Outcome (Bounds Float × Bool) → String
  | .ok (b, e) =>
      if b.layout > 4 then "FAIL layout outside XY..XYZM"
      else
        let want := (List.range 4).map fun d => ((dimMin fops pts d).toBits, (dimMax fops pts d).toBits)
        if pts.isEmpty then (if e then "ok" else "FAIL no coordinates but IsEmpty is false")
        else if semOf b != want then "FAIL a dimension is not the min/max of its ordinates"
        else
          let full := (slotDims b.layout).all fun d => pts.any fun p => (p.getD d none).isSome
          if full && e then "FAIL every dimension has values but IsEmpty is true" else "ok"
  | _ => "FAIL Bounds panicked or failed"

def handle (op : String) (inp go : Sexp) : Option Reply :=
  match op, inp with
  | "C08.bounds", t => do
      let t ← decTree t
      let g ← decBE go
      let m := withEmpty (t.bounds fops)
      let v := match t with
        | .flat l s c => verdictBE (expectedFlat fops l s c) ((chunksOf s c).isEmpty || l == 0) g
        | .coll _ _ => verdictSem (points t) g
      pure ⟨(encBE m).toStr, v⟩
  | "C08.ext", .list [l0, .list gs] => do
      let l0 ← nat l0
      let gs ← gs.mapM decTree
      let g ← decBE go
      let m := withEmpty (Bounds.extendGeoms fops (newBounds fops l0) gs)
      pure ⟨(encBE m).toStr, verdictSem (pointsL gs) g⟩
  | "C08.overlaps", .list [l, mn, mx, mn2, mx2] => do
      let l ← nat l
      let mn ← listOf flt mn; let mx ← listOf flt mx
      let mn2 ← listOf flt mn2; let mx2 ← listOf flt mx2
      let g ← decOutcome decBool go
      let m := Bounds.overlaps fops ⟨l, mn, mx⟩ l ⟨l, mn2, mx2⟩
      let want := intervalsMeet fops (Layout.stride l) mn mx mn2 mx2
      pure ⟨(encOutcome Sexp.ofBool m).toStr,
        verdictOf (g == .ok want) "Overlaps disagrees with closed-interval arithmetic"⟩
  | "C08.overlapsPoint", .list [l, mn, mx, p] => do
      let l ← nat l
      let mn ← listOf flt mn; let mx ← listOf flt mx; let p ← listOf flt p
      let g ← decOutcome decBool go
      let m := Bounds.overlapsPoint fops ⟨l, mn, mx⟩ l p
      let want := intervalsMeet fops (Layout.stride l) mn mx p p
      pure ⟨(encOutcome Sexp.ofBool m).toStr,
        verdictOf (g == .ok want) "OverlapsPoint disagrees with closed-interval arithmetic"⟩
  | _, _ => none

end GeomVerif.Driver.C08
