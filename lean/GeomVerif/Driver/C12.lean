import GeomVerif.Wire
import GeomVerif.Spec.C12
import GeomVerif.Driver.C11

namespace GeomVerif.Driver.C12
open GeomVerif GeomVerif.Wire GeomVerif.Rdp GeomVerif.Orient GeomVerif.Locate GeomVerif.Intersect
open GeomVerif.Driver.C09 GeomVerif.Driver.C20 GeomVerif.Driver.C10 GeomVerif.Driver.C11

def badF (x : Float) : Bool := x.isNaN || x.isInf

def tyStr : IType → String
  | .none => "none" | .point => "point" | .collinear => "collinear"

/-- Orientation on float points through their exact values (C10: the library's predicate is exact). -/
def orientF (o e p : Float × Float) : Int :=
  match Exact.ofBits o.1.toBits, Exact.ofBits o.2.toBits, Exact.ofBits e.1.toBits,
        Exact.ofBits e.2.toBits, Exact.ofBits p.1.toBits, Exact.ofBits p.2.toBits with
  | some ox, some oy, some ex, some ey, some px, some py => exactSign (ox, oy) (ex, ey) (px, py)
  | _, _, _, _, _, _ => 0

def encPt (p : Float × Float) : Sexp := .list [bitsAtom p.1.toBits, bitsAtom p.2.toBits]

/-- A power of two `s` with `2^20 ≤ m·s < 2^21` (for `m > 0`; fuel bounds the search). -/
def pow2Into (m : Rat) : Nat → Rat → Rat
  | 0, s => s
  | fuel + 1, s =>
      if m * s < 1048576 then pow2Into m fuel (s * 2)
      else if 2097152 ≤ m * s then pow2Into m fuel (s / 2)
      else s

def handle (op : String) (inp go : Sexp) : Option Reply :=
  match op, inp with
  | "C12.seg", .list [a, b, c, d] => do
      let g (s : Sexp) : Option (UInt64 × UInt64) := do
        let l ← listOf bits s; pure (l.getD 0 0, l.getD 1 0)
      let ab ← g a; let bb ← g b; let cb ← g c; let db ← g d
      let fa := fpt ab; let fb := fpt bb; let fc := fpt cb; let fd := fpt db
      let r := robust fdet orientF badF 2.0 4.0 fa fb fc fd
      let nr := nonRobustType fdet Float.abs fa fb fc fd
      let shown := if r.ty == .point then r.pts.take 1 else r.pts
      let m := Sexp.list [.atom (tyStr r.ty), .list (shown.map encPt), .ofBool (nr != .none)]
      let v := match rpt ab, rpt bb, rpt cb, rpt db, go with
        | some ea, some eb, some ec, some ed, .list [.atom ty, .list gp, .atom nrHas] =>
            let gpts : Option (List (Rat × Rat)) := gp.mapM fun s => do
              let l ← listOf bits s; rpt (l.getD 0 0, l.getD 1 0)
            (match gpts with
             | some ps =>
                -- point accuracy and non-robust agreement only on integer-grid inputs; for floats
                -- within ulps of a degenerate configuration only the classification is required
                -- (an integer grid up to 2^20, or such a grid scaled by a common power of two: scale the
                -- figure back until its largest ordinate is in [2^20, 2^21) and look for whole numbers)
                let mx := [ea, eb, ec, ed].foldl (fun m p => max m (max (Exact.abs p.1) (Exact.abs p.2))) 0
                let sc := pow2Into mx 2200 1
                let small := mx == 0 || ([ea, eb, ec, ed].all fun p =>
                  (p.1 * sc).den == 1 && (p.2 * sc).den == 1) ||
                  ([ea, eb, ec, ed].all fun p =>
                  p.1.den == 1 && p.2.den == 1 && Exact.abs p.1 ≤ 1048576 && Exact.abs p.2 ≤ 1048576)
                let v1 := C12.verdictRobust ea eb ec ed ty ps small
                if v1 != "ok" then v1
                else
                  let want := C12.expected ea eb ec ed != .none
                  if small && nrHas != toString want then
                    "FAIL non-robust strategy disagrees on whether the segments intersect"
                  else "ok"
             | none => "FAIL reported point is NaN or infinite")
        | some _, some _, some _, some _, _ => "FAIL LineIntersectsLine panicked"
        | _, _, _, _, _ => "na"
      pure ⟨m.toStr, v⟩
  | _, _ => none

end GeomVerif.Driver.C12
