import GeomVerif.Driver.C03
import GeomVerif.Spec.WellFormed

namespace GeomVerif.Driver.C04
open GeomVerif GeomVerif.Wire GeomVerif.Wkb GeomVerif.WkbSpec GeomVerif.Driver.C03

/-- Raw (flat) wire form, so that well-formedness can be judged on what Go returned. -/
partial def encRaw : WGeom → Sexp
  | .point g => .list [.atom "pt", .ofNat g.layout, .ofInt g.srid, .ofNat g.stride, encCoord g.flat]
  | .lineString g => .list [.atom "ls", .ofNat g.layout, .ofInt g.srid, .ofNat g.stride, encCoord g.flat]
  | .polygon g => .list [.atom "pg", .ofNat g.layout, .ofInt g.srid, .ofNat g.stride, encCoord g.flat, encNats g.ends]
  | .multiPoint g => .list [.atom "mp", .ofNat g.layout, .ofInt g.srid, .ofNat g.stride, encCoord g.flat, encNats g.ends]
  | .multiLineString g => .list [.atom "mls", .ofNat g.layout, .ofInt g.srid, .ofNat g.stride, encCoord g.flat, encNats g.ends]
  | .multiPolygon g => .list [.atom "mpg", .ofNat g.layout, .ofInt g.srid, .ofNat g.stride, encCoord g.flat, encList encNats g.endss]
  | .collection l s gs => .list [.atom "gc", .ofNat l, .ofInt s, .list (gs.map encRaw)]

partial def decRaw : Dec WGeom
  | .list [.atom "pt", l, s, st, f] => do pure (.point ⟨← nat l, ← nat st, ← coord f, ← int s⟩)
  | .list [.atom "ls", l, s, st, f] => do pure (.lineString ⟨← nat l, ← nat st, ← coord f, ← int s⟩)
  | .list [.atom "pg", l, s, st, f, e] => do
      pure (.polygon ⟨← nat l, ← nat st, ← coord f, ← listOf nat e, ← int s⟩)
  | .list [.atom "mp", l, s, st, f, e] => do
      pure (.multiPoint ⟨← nat l, ← nat st, ← coord f, ← listOf nat e, ← int s⟩)
  | .list [.atom "mls", l, s, st, f, e] => do
      pure (.multiLineString ⟨← nat l, ← nat st, ← coord f, ← listOf nat e, ← int s⟩)
  | .list [.atom "mpg", l, s, st, f, e] => do
      pure (.multiPolygon ⟨← nat l, ← nat st, ← coord f, ← listOf (listOf nat) e, ← int s⟩)
  | .list [.atom "gc", l, s, .list gs] => do pure (.collection (← nat l) (← int s) (← gs.mapM decRaw))
  | _ => none

/-- Structural well-formedness of a decoded value (C01's wording), recursively. -/
partial def wellFormed : WGeom → Bool
  | .point g => g.wellFormedPoint
  | .lineString g => g.wellFormed
  | .polygon g | .multiLineString g => g.wellFormed
  | .multiPoint g => g.wellFormed && mpointEndsOK g.stride g.ends 0
  | .multiPolygon g => g.wellFormed
  | .collection _ _ gs => gs.all wellFormed

/-- Every count in the decoded value respects the configured limit of its level. -/
partial def withinLimits (ewkb : Bool) (lim : Limits) : WGeom → Bool
  | .point _ => true
  | .lineString g => !exceeds lim.l1 (if g.stride = 0 then 0 else g.flat.length / g.stride)
  | .polygon g => !exceeds lim.l2 g.ends.length && ringsOK lim g.stride g.ends 0
  | .multiPoint g => !exceeds lim.l1 g.ends.length
  | .multiLineString g => !exceeds lim.l2 g.ends.length && ringsOK lim g.stride g.ends 0
  | .multiPolygon g => !exceeds lim.l3 g.endss.length &&
      g.endss.all (fun es => !exceeds lim.l2 es.length) && ringsOK lim g.stride g.endss.flatten 0
  | .collection _ _ gs => (!ewkb || !exceeds lim.l1 gs.length) && gs.all (withinLimits ewkb lim)
where ringsOK (lim : Limits) (stride : Nat) : List Nat → Nat → Bool
  | [], _ => true
  | e :: es, off => !exceeds lim.l1 (if stride = 0 then 0 else (e - off) / stride) && ringsOK lim stride es e

def decLim : Dec (Option Nat)
  | .atom "-" => some none
  | s => (nat s).map some

/-- Allocation bound in bytes for a decode with limits configured — *input length plus limits*, not
their product: a constant, a constant per input byte (objects built from bytes really present,
amortised growth), and what the count fields still pending when the decode stops may have reserved
at their limit (at most 8 nested levels x 8 bytes x stride <= 4, rounded up to 320 per unit of limit). -/
def allocBound (lim : Limits) (len : Nat) : Nat :=
  let l := max (lim.l1.getD 0) (max (lim.l2.getD 0) (lim.l3.getD 0))
  16384 + len * 600 + 320 * l

def handle (op : String) (inp go : Sexp) : Option Reply :=
  match op, inp with
  | "C04.dec", .list [f, .list [l1, l2, l3], .atom hex] => do
      let f ← decFmt f
      let lim : Limits := ⟨← decLim l1, ← decLim l2, ← decLim l3⟩
      let bs ← hexToBytes? hex
      let isE := f == .ewkb
      -- model: decode, re-encode (NDR), decode again
      let r1 := mRead f lim bs
      let m : Sexp := match r1 with
        | .ok (g, _) =>
            let w := mWrite f true g
            let again : Sexp := match w with
              | (b2, none) => (match mRead f {} b2 with
                  | .ok (g2, _) => .list [.atom "ok", encRaw g2]
                  | r => encOutcome (fun (_ : WGeom × RS) => .atom "u") r)
              | (_, some e) => .list (.atom "reencode-err" :: encErr e)
            .list [.atom "ok", encRaw g, again]
        | r => encOutcome (fun (_ : WGeom × RS) => .atom "u") r
      -- oracle on Go's output
      let (alloc, go) := match go with
        | .list [.atom "m", a, payload] => (a, payload)
        | g => (.atom "0", g)
      let v : String := match go with
        | .list [.atom "panic"] => "FAIL decoder panicked"
        | .list (.atom "stream-differs" :: _) =>
            "FAIL Read from a reader delivering short chunks decodes differently from Unmarshal on the same bytes"
        | .list (.atom "member-order-differs" :: _) =>
            "FAIL the same geometry written with members in another byte order than the header's (each member carries its own byte-order byte) decodes differently"
        | .list (.atom "hex-differs" :: _) =>
            "FAIL the hex wrapper panics, or decodes the hex text of the bytes differently from Unmarshal on the bytes (or accepts text that is not hex)"
        | .list (.atom "err" :: _) => "ok"
        | .list [.atom "ok", g, again] =>
            (match decRaw g, nat alloc with
             | some gg, some a =>
                if !wellFormed gg then "FAIL decoded geometry is not well formed"
                else if !withinLimits isE lim gg then "FAIL a count above its configured limit was accepted"
                else if again.toStr != (Sexp.list [.atom "ok", g]).toStr then
                  "FAIL re-encoding and decoding again does not give an equal geometry"
                else if (lim.l1.isSome || lim.l2.isSome || lim.l3.isSome) && a > allocBound lim bs.length then
                  "FAIL allocation not bounded by input length plus limits"
                else "ok"
             | _, _ => "FAIL unreadable decoder output")
        | _ => "FAIL unreadable decoder output"
      let v := match go, v with
        | .list (.atom "err" :: _), "ok" =>
            (match nat alloc with
             | some a => if (lim.l1.isSome || lim.l2.isSome || lim.l3.isSome) && a > allocBound lim bs.length
                 then "FAIL allocation not bounded by input length plus limits (rejected input)" else "ok"
             | none => "ok")
        | _, v => v
      pure ⟨m.toStr, v⟩
  | "C04.many", .list [_, _, _] =>
      -- tens of thousands of real empty members: decoded and judged by the harness (well formed,
      -- canonical re-encoding); the expected outcome is fixed
      let want := "(ok true true)"
      pure ⟨want, verdictOf (go.toStr == want) "a valid encoding with more than 2^16 members decoded to an ill-formed or different geometry"⟩
  | _, _ => none

end GeomVerif.Driver.C04
