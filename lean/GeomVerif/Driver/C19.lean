import GeomVerif.Wire
import GeomVerif.Model.Igc
import GeomVerif.Spec.Exact

namespace GeomVerif.Driver.C19
open GeomVerif GeomVerif.Wire GeomVerif.Igc

def hexB : Dec Bytes
  | .atom s => hexToBytes? s
  | _ => none

def decHEntry : Dec (Bytes × Option HMatch)
  | .list [l, .atom "nil"] => do pure (← hexB l, none)
  | .list [l, k, v] => do pure (← hexB l, some ⟨← hexB k, ← hexB v⟩)
  | _ => none

def encFloats (fs : List Float) : Sexp := encList (fun f => bitsAtom f.toBits) fs

def fltB : Dec Float := fun s => (bits s).map Float.ofBits

/-- Encode-then-decode of a generated track; `aText` is the text given to the `igc.A` option. -/
def rt (aText : Bytes) (fixes : List Sexp) (go : Sexp) : Option Reply := do
    let fx ← fixes.mapM fun f => match f with
      | .list [a, b, c, d] => do pure ((← fltB a), (← fltB b), (← fltB c), (← fltB d))
      | _ => none
    let text := encode aText fx
    let m : Sexp := match doParse text (fun _ => none) with
      | .ok d => .list [.atom "ok", .atom (bytesToHex text), encFloats d.st.coords]
      | _ => .list [.atom "panic"]
    -- H records written by the encoder are HFDTEddmmyy: the model needs their regex groups too
    let look (line : Bytes) : Option HMatch :=
      if line.take 5 == "HFDTE".toUTF8.toList then some ⟨[68, 84, 69], line.drop 5⟩ else none
    let m : Sexp := match doParse text look with
      | .ok d => .list [.atom "ok", .atom (bytesToHex text), encFloats d.st.coords]
      | _ => m
    let v : String := match go with
      | .list [.atom "ok", _, .list cs] =>
          if cs.length != 5 * fx.length then "FAIL number of fixes changed across encode/decode"
          else
            let got := cs.filterMap (fun s => (bits s).bind Exact.ofBits)
            if got.length != cs.length then "FAIL decoded fix has a non-finite ordinate"
            else
              let bad := (List.range fx.length).find? fun i =>
                let (lng, lat, alt, t) := fx.getD i (0, 0, 0, 0)
                let r (x : Float) : Rat := (Exact.ofBits x.toBits).getD 0
                let g (k : Nat) : Rat := got.getD (5 * i + k) 0
                let res := mkRat 1 60000
                let altW : Rat := max 0 (min 10000 ((truncToInt alt : Int) : Rat))
                !(Exact.abs (g 0 - r lng) ≤ res && Exact.abs (g 1 - r lat) ≤ res &&
                  g 2 == altW && g 4 == altW && g 3 == ((truncToInt t : Int) : Rat))
              match bad with
              | some i => s!"FAIL fix {i} not preserved to format resolution (lon/lat within 1/60000 deg, whole second, clamped altitude)"
              | none => "ok"
      | _ => "FAIL IGC encode/decode panicked or failed"
    pure ⟨m.toStr, v⟩

def handle (op : String) (inp go : Sexp) : Option Reply :=
  match op, inp with
  | "C19.dec", .list [data, .list hs] => do
      let bs ← hexB data
      let hmap ← hs.mapM decHEntry
      let look (line : Bytes) : Option HMatch := (hmap.find? (·.1 == line)).bind (·.2)
      let m : Sexp := match doParse bs look with
        | .ok d => .list [.atom "ok", encFloats d.st.coords, .ofNat d.st.headers, .ofNat d.numErrors]
        | _ => .list [.atom "panic"]
      let v := match go with
        | .list [.atom "ok", .list cs, _, _] =>
            -- one fix per B record at most: a line (whatever its length) is one record
            let nB := ((splitLines bs).filter fun l => l.head? == some 66).length
            if cs.length % 5 != 0 then "FAIL track is not a whole number of 5-dimensional fixes"
            else if cs.length / 5 > nB then s!"FAIL {cs.length / 5} fixes decoded from {nB} B records"
            else "ok"
        | _ => "FAIL IGC decoding panicked"
      pure ⟨m.toStr, v⟩
  | "C19.rt", .list fixes => rt "XXXverif".toUTF8.toList fixes go
  | "C19.rta", .list [.atom ah, .list fixes] => do
      let a ← (if ah == "-" then some [] else hexToBytes? ah)
      rt a fixes go
  | _, _ => none

end GeomVerif.Driver.C19
