import GeomVerif.Wire
import GeomVerif.Model.Centroid
import GeomVerif.Spec.C14
import GeomVerif.Driver.C15

namespace GeomVerif.Driver.C14
open GeomVerif GeomVerif.Wire GeomVerif.Rdp GeomVerif.Locate GeomVerif.Intersect GeomVerif.Dist
open GeomVerif.Centroid GeomVerif.Driver.C09 GeomVerif.Driver.C11 GeomVerif.Driver.C12 GeomVerif.Driver.C15

/-- A flat run `(stride (bits…))` as raw XY pairs. -/
def decRun : Dec (List (UInt64 × UInt64))
  | .list [st, fl] => do
      let s ← nat st; let raw ← listOf bits fl
      pure (ptsOf s raw)
  | _ => none

def encP (p : Float × Float) : Sexp := .list [bitsAtom p.1.toBits, bitsAtom p.2.toBits]

def decGoPt : Dec (Rat × Rat)
  | .list [x, y] => do
      let xb ← bits x; let yb ← bits y
      pure (← Exact.ofBits xb, ← Exact.ofBits yb)
  | _ => none

def verdictPt (go : Sexp) (want : Option (Rat × Rat)) (scale : Rat) (what : String) : String :=
  match want with
  | none => "na"
  | some w =>
    match go with
    | .list [.atom "ok", g] =>
        (match decGoPt g with
         | some gp => if C14.closePt gp w scale then "ok" else s!"FAIL {what} differs from the exact centroid"
         | none => s!"FAIL {what} is NaN or infinite")
    | _ => s!"FAIL {what} panicked"

def handle (op : String) (inp go : Sexp) : Option Reply :=
  match op, inp with
  | "C14.points", run => do
      let ps ← decRun run
      let m := pointsCentroid fd (fun n => n.toFloat) (ps.map fpt)
      let v := match ps.mapM rpt with
        | some pe => verdictPt go (some (C14.mean pe)) (C14.scaleOf pe) "points centroid"
        | none => "na"
      pure ⟨(Sexp.list [.atom "ok", encP m]).toStr, v⟩
  | "C14.lines", .list runs => do
      let ls ← runs.mapM decRun
      let m := linesCentroid fd 2.0 (ls.map (·.map fpt))
      let v := match ls.mapM (·.mapM rpt) with
        | some le => verdictPt go (C14.lineCentroid le) (C14.scaleOf le.flatten) "lines centroid"
        | none => "na"
      pure ⟨(Sexp.list [.atom "ok", encP m]).toStr, v⟩
  | "C14.polys", .list polys => do
      let ps ← polys.mapM fun p => match p with
        | .list rings => rings.mapM decRun
        | _ => none
      let m := areaCentroid fd orientF 2.0 3.0 (ps.map (·.map (·.map fpt)))
      let mstr := match m with
        | some c => (Sexp.list [.atom "ok", encP c]).toStr
        | none => "(panic)"
      let v := match ps.mapM (·.mapM (·.mapM rpt)) with
        | some pe => verdictPt go (C14.areaCentroid pe) (C14.scaleOf pe.flatten.flatten) "polygon centroid"
        | none => "na"
      pure ⟨mstr, v⟩
  | "C14.ring", run => do
      -- IsRingCounterClockwise + SignedArea of a simple closed ring
      let r ← decRun run
      let fr := (r.map fpt).toArray
      let ccw := isCCW fd orientF fr
      let sa := signedArea fd 2.0 fr
      let m := match ccw with
        | some b => Sexp.list [.ofBool b, bitsAtom sa.toBits]
        | none => .list [.atom "panic"]
      let v := match r.mapM rpt, go with
        | some re, .list [.atom b, sab] =>
            let a2 := C14.area2 re
            (match bits sab with
             | some sb =>
               (match Exact.ofBits sb with
                | some sg =>
                    if a2 != 0 && b != toString (decide (a2 > 0)) then
                      "FAIL IsRingCounterClockwise disagrees with the sign of the exact area"
                    else if Exact.abs (sg - (-(a2 / 2))) > (C14.scaleOf re * C14.scaleOf re) * mkRat 1 1000000000 then
                      "FAIL SignedArea differs from the exact (clockwise-positive) area"
                    else "ok"
                | none => "FAIL SignedArea is NaN or infinite")
             | none => "FAIL unreadable output")
        | some _, _ => "FAIL ring functions panicked"
        | none, _ => "na"
      pure ⟨m.toStr, v⟩
  | _, _ => none

end GeomVerif.Driver.C14
