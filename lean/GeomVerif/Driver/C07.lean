import GeomVerif.Wire
import GeomVerif.Model.GeoJson
import GeomVerif.Spec.JsonText
import GeomVerif.Spec.GeoJsonRef
import GeomVerif.Spec.ParseFloat
import GeomVerif.Driver.C05

/-
C07 handlers: GeoJSON geometry / Feature / FeatureCollection round trips and decoder totality.
-/
namespace GeomVerif.Driver.C07
open GeomVerif GeomVerif.Wire GeomVerif.Wkb GeomVerif.WkbSpec GeomVerif.GeoJson GeomVerif.GeoJsonRef
open GeomVerif.Driver.C03 GeomVerif.Driver.C05

def parseNum : Parse := ParseFloat.parseFloat

def strOfHex (h : String) : Option String :=
  if h == "-" then some "" else do
    let bs ← hexToBytes? h
    String.fromUTF8? ⟨bs.toArray⟩

def hexOfStr (s : String) : String := if s.isEmpty then "-" else bytesToHex s.toUTF8.toList

partial def decJ : Dec J
  | .atom "null" => some .null
  | .list [.atom "b", .atom b] => some (.bool (b == "1"))
  | .list [.atom "n", .atom h] => (strOfHex h).map .num
  | .list [.atom "s", .atom h] => (strOfHex h).map .str
  | .list (.atom "a" :: xs) => (xs.mapM decJ).map .arr
  | .list (.atom "o" :: kvs) =>
      (kvs.mapM fun (kv : Sexp) => match kv with
        | Sexp.list [Sexp.atom k, v] => do pure (← strOfHex k, ← decJ v)
        | _ => none).map .obj
  | _ => none

partial def sizeJ : J → Nat
  | .arr xs => 1 + (xs.map sizeJ).foldl (· + ·) 0
  | .obj kvs => 1 + (kvs.map fun kv => sizeJ kv.2).foldl (· + ·) 0
  | _ => 1

/-- Canonical form of a JSON value as Go holds it in `interface{}`: object keys de-duplicated
(last wins) and sorted, numbers as float64 bits. -/
partial def canon : J → Sexp
  | .null => .atom "null"
  | .bool b => .list [.atom "b", .atom (if b then "1" else "0")]
  | .num s => .list [.atom "n", bitsAtom ((parseNum s.toList).getD 0)]
  | .str s => .list [.atom "s", .atom (hexOfStr s)]
  | .arr xs => .list (.atom "a" :: xs.map canon)
  | .obj kvs =>
      let dedup := kvs.foldl (fun acc kv => (acc.filter (·.1 != kv.1)) ++ [kv]) ([] : List (String × J))
      let sorted := dedup.toArray.qsort (fun a b => a.1.toUTF8.toList < b.1.toUTF8.toList) |>.toList
      .list (.atom "o" :: sorted.map fun kv => .list [.atom (hexOfStr kv.1), canon kv.2])

def encGeomOpt : Option WGeom → Sexp
  | none => .atom "nil"
  | some g => encW g

def encBBox : Option BBox → Sexp
  | none => .atom "nil"
  | some b => .list [.ofNat b.layout, encCoord b.min, encCoord b.max]

def encProps : Option (List (String × J)) → Sexp
  | none => .atom "nil"
  | some kvs => canon (.obj kvs)

def encFeat (f : Feat) : Sexp :=
  .list [.atom "feat", .atom (hexOfStr f.id), encBBox f.bbox, encGeomOpt f.geometry, encProps f.properties]

def encFeatOpt : Option Feat → Sexp
  | none => .atom "nil"
  | some f => encFeat f

def encFC (c : FC) : Sexp := .list [.atom "fc", encBBox c.bbox, .list (c.features.map encFeatOpt)]

def fmtShortest : Ord → String := ParseFloat.formatShortest

/-- Model result for a kind of document. -/
def modelDecode (dl : Layout) (kind : String) (j : Option J) : Sexp :=
  match j with
  | none => .list [.atom "err", .atom "json"]
  | some j =>
    let fuel := sizeJ j + 4
    match kind with
    | "geom" => encOutcome encGeomOpt (unmarshal dl parseNum fuel j)
    | "feat" => encOutcome encFeat (featureOf dl parseNum fmtShortest fuel j)
    | _ => encOutcome encFC (featureCollectionOf dl parseNum fmtShortest fuel j)

def wfW : Nat → WGeom → Bool
  | _, .point g => g.wellFormedPoint
  | _, .lineString g => g.wellFormed
  | _, .polygon g | _, .multiLineString g => g.wellFormed
  | _, .multiPoint g => g.wellFormed && mpointEndsOK g.stride g.ends 0
  | _, .multiPolygon g => g.wellFormed
  | 0, .collection .. => true
  | fuel + 1, .collection _ _ gs => gs.all (wfW fuel)

/-- Every geometry inside a decoded result, in wire form. -/
partial def geomsIn : Sexp → List Sexp
  | .list (.atom "feat" :: _ :: _ :: g :: _) => [g]
  | .list [.atom "fc", _, .list fs] => (fs.map geomsIn).flatten
  | s => [s]

def decVerdict (go : Sexp) : String :=
  match payloadOf go with
  | .list [.atom "panic"] => "FAIL decoding panicked"
  | .list (.atom "err" :: _) => "ok"
  | .list [.atom "ok", r] =>
      let gs := (geomsIn r).filter (fun g => g.toStr != "nil")
      if gs.all fun g => match decW g with
          | some w => wfW 64 w
          | none => false
      then "ok" else "FAIL a decoded geometry is not well formed (stride, offsets, member lengths)"
  | _ => "FAIL unreadable result"

def measure (go : Sexp) (key : String) : Option Sexp :=
  match go with
  | .list [.atom "m", .list ms, _] => ms.findSome? fun m => match m with
      | .list [.atom k, v] => if k == key then some v else none
      | _ => none
  | _ => none

def textOf (go : Sexp) : Option (List UInt8) :=
  match measure go "text" with
  | some (.atom h) => if h == "-" then some [] else hexToBytes? h
  | _ => none

/-- A decoded collection never has a fixed layout; its derived layout is not compared (the
members' layouts are). -/
partial def stripFixed : AGeom → AGeom
  | .collection _ s gs => .collection 0 s (gs.map stripFixed)
  | g => g

def sameGeom (raw : WGeom) (want : AGeom) : Bool :=
  match toAbstract raw with
  | .ok got => stripFixed got == stripFixed want
  | _ => false

/-- Oracle for one geometry that went through the encoder and back. -/
def roundTripVerdict (dl : Layout) (a : AGeom) (decoded : Sexp) : String :=
  let fuel := depthA 64 a + 2
  match decoded with
  | .list [.atom "ok", r] =>
      (match decW r with
       | some raw =>
          if sameGeom raw (expected dl fuel a) then "ok"
          else "FAIL the geometry read back differs from the original (type, layout, structure or an ordinate)"
       | none => "FAIL the geometry read back is nil or unreadable")
  | .list (.atom "err" :: _) =>
      if carveOut dl fuel a then "ok" else "FAIL a representable geometry could not be read back"
  | _ => "FAIL round trip panicked"

def readerVerdict (a : AGeom) (j : J) : String :=
  let fuel := depthA 64 a + 2
  match readGeometry parseNum (sizeJ j + 4) j with
  | some rg => if rg == rgOf fuel a then "ok"
               else "FAIL an RFC 7946 reader sees a different type, nesting or number in the emitted JSON"
  | none => "FAIL the emitted JSON is not an RFC 7946 geometry object"

def decAOpt : Dec (Option AGeom)
  | .atom "nil" => some none
  | s => (decA s).map some

def featVerdict (dl : Layout) (idIn : String) (bboxIn : Sexp) (a : Option AGeom) (propsIn : Sexp) (got : Sexp) : String :=
  match got with
  | .list [.atom "feat", .atom idOut, bboxOut, g, props] =>
      if idOut != idIn then "FAIL Feature id changed across a round trip"
      else if bboxOut.toStr != bboxIn.toStr then "FAIL Feature bounding box changed across a round trip"
      else if props.toStr != propsIn.toStr then "FAIL Feature properties changed across a round trip"
      else
        match a with
        | none => if g.toStr == "nil" then "ok" else "FAIL a null geometry did not stay null"
        | some a =>
            if g.toStr == "nil" then "FAIL Feature geometry lost across a round trip"
            else
              let v := roundTripVerdict dl a (.list [.atom "ok", g])
              if v == "ok" then "ok" else v
  | _ => "FAIL unreadable feature"

/-- "Features keep their id": when a Feature document carries exactly one `id` member (no
case-variant or duplicate spelling) that is a string or a number and the decoder accepts the
document, the decoded id is that string, respectively a numeral denoting the same number.
This is judged on the document, independently of the model's formatting of the number. -/
def idVerdict (j : Option J) (go : Sexp) : String :=
  match j, payloadOf go with
  | some (.obj kvs), .list [.atom "ok", .list [.atom "feat", .atom idOut, _, _, _]] =>
      let ids := kvs.filter fun kv => kv.1.toLower == "id" || kv.1.toLower == "ıd"
      match ids, strOfHex idOut with
      | [("id", .str s)], some out =>
          if out == s then "ok" else "FAIL the decoded Feature id differs from the document's string id"
      | [("id", .num lit)], some out =>
          (match parseNum lit.toList, parseNum out.toList with
           | some v, some w =>
               if v == w then "ok"
               else s!"FAIL the decoded Feature id {out} does not denote the document's numeric id {lit}"
           | some _, none => s!"FAIL the decoded Feature id {out} is not a numeral although the document's id is the number {lit}"
           | none, _ => "ok")
      | _, _ => "ok"
  | _, _ => "ok"

def handleDL (dl : Layout) (op : String) (inp go : Sexp) : Option Reply :=
  match op, inp with
  | "C07.geom", a => do
      let a ← decA a
      let text := textOf go
      let j := text.bind JsonText.parse
      let m := match j with
        | some j => modelDecode dl "geom" (some j)
        | none => .list [.atom "err", .atom "json"]
      let v : String :=
        match text, j with
        | none, _ => "FAIL encoding a representable geometry failed"
        | some _, none => "FAIL the emitted text is not valid JSON"
        | some _, some j =>
            let rv := readerVerdict a j
            if rv != "ok" then rv else
            let v1 := roundTripVerdict dl a (payloadOf go)
            if v1 != "ok" then v1 else
            match measure go "ed" with
            | some ed => if ed.toStr == (payloadOf go).toStr then "ok"
                         else "FAIL Encode/Decode and Marshal/Unmarshal disagree"
            | none => "ok"
      pure ⟨m.toStr, v⟩
  | "C07.feat", .list [.atom idIn, bboxIn, a, propsIn] => do
      let a ← decAOpt a
      let text := textOf go
      let j := text.bind JsonText.parse
      let m := match j with
        | some j => modelDecode dl "feat" (some j)
        | none => .list [.atom "err", .atom "json"]
      let v : String :=
        match j, payloadOf go with
        | none, _ => "FAIL the emitted Feature text is not valid JSON"
        | some _, .list [.atom "ok", got] => featVerdict dl idIn bboxIn a propsIn got
        | some _, .list (.atom "err" :: _) =>
            if (a.map (carveOut dl 64)).getD false then "ok" else "FAIL a Feature could not be read back"
        | _, _ => "FAIL Feature round trip panicked"
      pure ⟨m.toStr, v⟩
  | "C07.fc", .list [bboxIn, .list featsIn] => do
      let text := textOf go
      let j := text.bind JsonText.parse
      let m := match j with
        | some j => modelDecode dl "fc" (some j)
        | none => .list [.atom "err", .atom "json"]
      let anyCarve := featsIn.any fun f => match f with
        | .list [_, _, a, _] => ((decAOpt a).bind id |>.map (carveOut dl 64)).getD false
        | _ => false
      let v : String :=
        match j, payloadOf go with
        | none, _ => "FAIL the emitted FeatureCollection text is not valid JSON"
        | some _, .list [.atom "ok", .list [.atom "fc", bboxOut, .list featsOut]] =>
            if bboxOut.toStr != bboxIn.toStr then "FAIL FeatureCollection bounding box changed"
            else if featsOut.length != featsIn.length then "FAIL number of features changed"
            else
              let vs := (featsIn.zip featsOut).map fun (fi, fo) =>
                match fi, fo with
                | .atom "nil", .atom "nil" => "ok"
                | .list [.atom idIn, bb, a, props], fo =>
                    (match decAOpt a with
                     | some a => featVerdict dl idIn bb a props fo
                     | none => "na")
                | _, _ => "FAIL a feature appeared or vanished"
              (vs.find? (· != "ok")).getD "ok"
        | some _, .list (.atom "err" :: _) =>
            if anyCarve then "ok" else "FAIL a FeatureCollection could not be read back"
        | _, _ => "FAIL FeatureCollection round trip panicked"
      pure ⟨m.toStr, v⟩
  | "C07.dec", .list [.atom kind, _data, ast] => do
      let j : Option J ← match ast with
        | .atom "invalid" => some none
        | s => (decJ s).map some
      let v := decVerdict go
      let v := if v == "ok" && kind == "feat" then idVerdict j go else v
      pure ⟨(modelDecode dl kind j).toStr, v⟩
  | _, _ => none

/-- `geojson.DefaultLayout` is XY unless the caller has assigned it: the `…dl` operations carry the
value it had during the call. -/
def handle (op : String) (inp go : Sexp) : Option Reply :=
  match op, inp with
  | "C07.geomdl", .list [d, a] => do handleDL (← nat d) "C07.geom" a go
  | "C07.decdl", .list (d :: rest) => do handleDL (← nat d) "C07.dec" (.list rest) go
  | _, _ => handleDL 1 op inp go

end GeomVerif.Driver.C07
