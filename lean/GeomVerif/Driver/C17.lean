import GeomVerif.Wire
import GeomVerif.Generated.Effects
import GeomVerif.Tie.Effects

/-!
C17 driver.  A line reports one call of an exported function: which arguments' bitwise
snapshots changed (solo or after the concurrent phase) and how many concurrent results differed
from the solo result.
  model   = the observed writes that the effect analysis predicted (must be all of them:
            an unpredicted write means the analysis is unsound for this function);
  verdict = the property: nothing outside the allow-list was modified, and every concurrent
            result equalled the solo result.
-/
namespace GeomVerif.Driver.C17
open GeomVerif GeomVerif.Wire

def unwire (s : String) : String := (s.replace "[" "(").replace "]" ")"

def handle (op : String) (inp go : Sexp) : Option Reply :=
  match op, inp, go with
  | "C17.call", .list (.atom rootW :: _), .list [.atom "m", .list [_nb, _reps, diff, _pan], obs] => do
      let root := unwire rootW
      let observed ← listOf nat obs
      let d ← nat diff
      let known := Generated.effectRoots.contains root
      let row := Generated.effects.find? (·.1 == root)
      let items : List (Nat × String) := match row with | some r => r.2.2 | none => []
      let method : String := match row with | some r => r.2.1 | none => ""
      let predicted := items.map (·.1)
      let allowed (i : Nat) : Bool := items.any fun it => it.1 == i && Tie.allowedItem root method it
      let model := if known then (encNats (observed.filter predicted.contains)).toStr else "(unknown-root)"
      let bad := observed.filter fun i => !allowed i
      let v :=
        if d > 0 then s!"FAIL {d} concurrent call(s) of the batch returned a result different from the same call run alone ({root})"
        else match bad with
          | i :: _ => s!"FAIL argument {i} of {root} was modified by the call"
          | [] => "ok"
      pure ⟨model, v⟩
  | _, _, _ => none

end GeomVerif.Driver.C17
