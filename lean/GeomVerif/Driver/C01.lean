import GeomVerif.Wire
import GeomVerif.Spec.C01

namespace GeomVerif.Driver.C01
open GeomVerif GeomVerif.Wire GeomVerif.C01

/-- One `C01.set.<type>` line: `(layout coords)` and Go's observation. -/
def handle (op : String) (inp go : Sexp) : Option Reply :=
  let op := if op == "C01.set.ring" then "C01.set.line"
            else if op == "C01.set.mls" then "C01.set.poly" else op
  match op, inp with
  | "C01.set.pt", .list [l, c] => do
      let l ← nat l; let c ← coord c
      let m := runPoint l c
      let enc := encOutcome (encPair encG1 (encOutcome encCoord))
      let g ← decOutcome (decPair decG1 (decOutcome coord)) go
      pure ⟨(enc m).toStr, verdictOf (holdsPoint l c g)⟩
  | "C01.set.line", .list [l, c] => do
      let l ← nat l; let c ← coords1 c
      let m := runLine l c
      let enc := encOutcome (encPair encG1 (encOutcome encCoords1))
      let g ← decOutcome (decPair decG1 (decOutcome coords1)) go
      pure ⟨(enc m).toStr, verdictOf (holdsLine l c g)⟩
  | "C01.set.poly", .list [l, c] => do
      let l ← nat l; let c ← coords2 c
      let m := runPoly l c
      let enc := encOutcome (encPair encG2 (encOutcome encCoords2))
      let g ← decOutcome (decPair decG2 (decOutcome coords2)) go
      pure ⟨(enc m).toStr, verdictOf (holdsPoly l c g)⟩
  | "C01.set.mpoly", .list [l, c] => do
      let l ← nat l; let c ← coords3 c
      let m := runMPoly l c
      let enc := encOutcome (encPair encG3 (encOutcome encCoords3))
      let g ← decOutcome (decPair decG3 (decOutcome coords3)) go
      pure ⟨(enc m).toStr, verdictOf (holdsMPoly l c g)⟩
  | "C01.set.mpoint", .list [l, c] => do
      let l ← nat l; let c ← mcoords c
      let m := runMPoint l c
      let enc := encOutcome (encPair encG2 (encOutcome encMCoords))
      let g ← decOutcome (decPair decG2 (decOutcome mcoords)) go
      pure ⟨(enc m).toStr, verdictOf (holdsMPoint l c g)⟩
  | _, _ => none

end GeomVerif.Driver.C01
