import GeomVerif.Wire
import GeomVerif.Spec.C01

namespace GeomVerif.Driver.C01
open GeomVerif GeomVerif.Wire GeomVerif.C01

/-- One `C01.set.<type>` line: `(layout coords)` and Go's observation. -/
def handle (op : String) (inp go : Sexp) : Option Reply :=
  let op := if op == "C01.set.ring" then "C01.set.line"
            else if op == "C01.set.mls" then "C01.set.poly" else op
  match op, inp with
  | "C01.set.pt", .list [l, c] => do
      let l ← nat l; let c ← coord c
      let m := runPoint l c
      let enc := encOutcome (encPair encG1 (encOutcome encCoord))
      let g ← decOutcome (decPair decG1 (decOutcome coord)) go
      pure ⟨(enc m).toStr, verdictOf (holdsPoint l c g)⟩
  | "C01.set.line", .list [l, c] => do
      let l ← nat l; let c ← coords1 c
      let m := runLine l c
      let enc := encOutcome (encPair encG1 (encOutcome encCoords1))
      let g ← decOutcome (decPair decG1 (decOutcome coords1)) go
      pure ⟨(enc m).toStr, verdictOf (holdsLine l c g)⟩
  | "C01.set.poly", .list [l, c] => do
      let l ← nat l; let c ← coords2 c
      let m := runPoly l c
      let enc := encOutcome (encPair encG2 (encOutcome encCoords2))
      let g ← decOutcome (decPair decG2 (decOutcome coords2)) go
      pure ⟨(enc m).toStr, verdictOf (holdsPoly l c g)⟩
  | "C01.set.mpoly", .list [l, c] => do
      let l ← nat l; let c ← coords3 c
      let m := runMPoly l c
      let enc := encOutcome (encPair encG3 (encOutcome encCoords3))
      let g ← decOutcome (decPair decG3 (decOutcome coords3)) go
      pure ⟨(enc m).toStr, verdictOf (holdsMPoly l c g)⟩
  | "C01.set.mpoint", .list [l, c] => do
      let l ← nat l; let c ← mcoords c
      let m := runMPoint l c
      let enc := encOutcome (encPair encG2 (encOutcome encMCoords))
      let g ← decOutcome (decPair decG2 (decOutcome mcoords)) go
      pure ⟨(enc m).toStr, verdictOf (holdsMPoint l c g)⟩
  | "C01.newflat.mpoint", .list [l, f, e] => do
      -- NewMultiPointFlat(layout, flat[, WithEnds(ends)]): stored representation and Coords()
      let l ← nat l; let f ← coord f
      let e ← optOf (listOf nat) e
      let g := MPoint.newFlat l f e
      let m : Outcome (G2 UInt64 × Outcome (List (Option (List UInt64)))) := .ok (g, MPoint.coords g)
      let enc := encOutcome (encPair encG2 (encOutcome encMCoords))
      -- oracle: without explicit ends over whole coordinates the members are exactly the coordinates
      let v : String :=
        match e with
        | some _ => "na"
        | none =>
          let st := Layout.stride l
          if st = 0 || f.length % st != 0 then "na"
          else
            let rec chunks : Nat → List UInt64 → List (List UInt64)
              | 0, _ => []
              | n + 1, xs => xs.take st :: chunks n (xs.drop st)
            let want : List (Option (List UInt64)) := (chunks (f.length / st) f).map some
            match decOutcome (decPair decG2 (decOutcome mcoords)) go with
            | some (.ok (gg, .ok cs)) =>
                verdictOf (cs == want && gg.wellFormed && mpointEndsOK gg.stride gg.ends 0)
                  "NewMultiPointFlat result is not the multipoint of its coordinates"
            | _ => "FAIL NewMultiPointFlat result unreadable or Coords() failed"
      pure ⟨(enc m).toStr, v⟩
  | _, _ => none

end GeomVerif.Driver.C01
