import GeomVerif.Wire
import GeomVerif.Model.Rdp
import GeomVerif.Spec.C20
import GeomVerif.Driver.C09

namespace GeomVerif.Driver.C20
open GeomVerif GeomVerif.Wire GeomVerif.Rdp GeomVerif.Driver.C09

def ffield : FieldOps Float where
  toArith := farith
  div := (· / ·)
  one := 1.0
  lt := fun a b => a < b
  isZero := fun a => a == 0.0

/-- Float run of SimplifyFlatCoords (bit-exact mirror of the Go arithmetic). -/
def simplifyF (flat : Array Float) (stride : Nat) (thr : Float) : List Nat :=
  let size := if stride = 0 then 0 else flat.size / stride
  let g (i off : Nat) : Float := flat.getD (i * stride + off) 0.0
  let D : DistOps Float :=
    { dist := fun s e k => distSegSq ffield (g s 0) (g s 1) (g e 0) (g e 1) (g k 0) (g k 1)
      gt := fun a b => a > b, zero := 0.0, thr2 := thr * thr }
  simplify D size

def handle (op : String) (inp go : Sexp) : Option Reply :=
  match op, inp with
  | "C20.simplify", .list [st, thr, fl] | "C20.simplifyx", .list [st, thr, fl] => do
      let stride ← nat st
      let thrF ← fltBits thr
      let flat ← listOf fltBits fl
      let fa := flat.toArray
      let idx := simplifyF fa stride thrF
      let flat2 := (idx.map fun i => (List.range stride).map fun o => fa.getD (i * stride + o) 0.0).flatten
      let idx2 := simplifyF flat2.toArray stride thrF
      let m := Sexp.list [encNats idx, encNats idx2]
      let v : String :=
        -- only X and Y are read as exact rationals: extra ordinates may be anything
        let raw := ((listOf bits fl).getD []).toArray
        let n := raw.size / stride
        let xy : Option (List C20.Pt) := (List.range n).mapM fun i => do
          let x ← Exact.ofBits (raw.getD (i * stride) 0)
          let y ← Exact.ofBits (raw.getD (i * stride + 1) 0)
          pure (x, y)
        match ratBits thr, xy, go with
        | some t, some pts, .list [g1, g2] =>
          (match listOf nat g1, listOf nat g2 with
           | some i1, some i2 =>
               let scale : Rat := pts.foldl (fun m p => max m (max (Exact.abs p.1) (Exact.abs p.2))) 1
               C20.verdict pts.toArray t i1 i2 (if op == "C20.simplifyx" then scale * mkRat 1 1000000000 else 0)
           | _, _ => "FAIL unreadable output")
        | some _, some _, _ => "FAIL SimplifyFlatCoords panicked"
        | _, _, _ => "na"
      pure ⟨m.toStr, v⟩
  | _, _ => none

end GeomVerif.Driver.C20
