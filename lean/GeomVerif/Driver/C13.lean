import GeomVerif.Wire
import GeomVerif.Model.Hull
import GeomVerif.Spec.C13
import GeomVerif.Driver.C14

namespace GeomVerif.Driver.C13
open GeomVerif GeomVerif.Wire GeomVerif.Rdp GeomVerif.Locate GeomVerif.Intersect GeomVerif.Dist
open GeomVerif.Hull GeomVerif.Driver.C09 GeomVerif.Driver.C11 GeomVerif.Driver.C12 GeomVerif.Driver.C15

def inRingF (p : Float × Float) (ring : List (Float × Float)) : Bool :=
  locate fdet 200 p.1 p.2 ring != .exterior

def encCs (cs : List (List Float)) : Sexp := encList (fun c => encList (fun f => bitsAtom f.toBits) c) cs

def chunk (stride : Nat) (raw : List UInt64) : List (List UInt64) :=
  if stride = 0 then [] else chunkN stride (raw.length / stride) raw

def handle (op : String) (inp go : Sexp) : Option Reply :=
  match op, inp with
  | "C13.hull", .list [st, fl] => do
      let stride ← nat st
      let raw ← listOf bits fl
      let coords := chunk stride raw
      let fcoords := coords.map (·.map Float.ofBits)
      let m := match convexHull fd orientF inRingF fcoords with
        | .nil => Sexp.list [.atom "nil"]
        | .point c => .list [.atom "point", encCs [c]]
        | .line cs => .list [.atom "line", encCs cs]
        | .polygon r => .list [.atom "polygon", encCs r]
      let mstr := (Sexp.list [m, .atom "unmodified"]).toStr
      -- oracle
      let v : String :=
        match coords.mapM (fun c => rpt (c.getD 0 0, c.getD 1 0)), go with
        | some pts, .list [.list [.atom kind, .list outs], .atom mod] =>
            (match outs.mapM (listOf bits) with
             | none => "FAIL unreadable hull"
             | some ocs =>
               match ocs.mapM (fun c => rpt (c.getD 0 0, c.getD 1 0)) with
               | none => "FAIL hull has non-finite ordinates"
               | some opts =>
                 let want := C13.hull pts
                 if mod != "unmodified" then "FAIL input coordinates were modified"
                 else if !ocs.all (fun c => coords.contains c) then
                   "FAIL a hull vertex (with all its ordinates) is not an input coordinate"
                 else if want.length == 1 then
                   (if kind == "point" && C13.sameSet opts want then "ok" else "FAIL all points coincide but the result is not that point")
                 else if want.length == 2 then
                   (if kind == "line" && opts.length == 2 && C13.sameSet opts want then "ok"
                    else "FAIL collinear input but the result is not the two-point line of the extremes")
                 else if kind != "polygon" then "FAIL non-collinear input but the result is not a polygon"
                 else if opts.head? != opts.getLast? then "FAIL ring not closed"
                 else if !C13.sameSet opts want then "FAIL hull vertices are not exactly the extreme points"
                 else if opts.length != want.length + 1 then "FAIL a vertex is repeated on the ring"
                 else if !C13.strictlyConvexRing opts then "FAIL ring not consistently oriented / has a collinear vertex"
                 else "ok")
        | some pts, .list [.list [.atom "nil"], .atom _] => if pts.isEmpty then "ok" else "FAIL nil hull"
        | some _, _ => "FAIL ConvexHull panicked"
        | none, _ => "na"
      pure ⟨mstr, v⟩
  | _, _ => none

end GeomVerif.Driver.C13
