import GeomVerif.Wire
import GeomVerif.Model.WkbConv

namespace GeomVerif.Driver.C03
open GeomVerif GeomVerif.Wire GeomVerif.Wkb GeomVerif.WkbSpec

partial def decA : Dec AGeom
  | .list [.atom "pt", l, s, c] => do pure (.point (← nat l) (← int s) (← optOf coord c))
  | .list [.atom "ls", l, s, c] => do pure (.lineString (← nat l) (← int s) (← coords1 c))
  | .list [.atom "pg", l, s, c] => do pure (.polygon (← nat l) (← int s) (← coords2 c))
  | .list [.atom "mp", l, s, c] => do pure (.multiPoint (← nat l) (← int s) (← mcoords c))
  | .list [.atom "mls", l, s, c] => do pure (.multiLineString (← nat l) (← int s) (← coords2 c))
  | .list [.atom "mpg", l, s, c] => do pure (.multiPolygon (← nat l) (← int s) (← coords3 c))
  | .list [.atom "gc", l, s, .list gs] => do
      pure (.collection (← nat l) (← int s) (← gs.mapM decA))
  | _ => none

partial def encA : AGeom → Sexp
  | .point l s c => .list [.atom "pt", .ofNat l, .ofInt s, encOpt encCoord c]
  | .lineString l s c => .list [.atom "ls", .ofNat l, .ofInt s, encCoords1 c]
  | .polygon l s c => .list [.atom "pg", .ofNat l, .ofInt s, encCoords2 c]
  | .multiPoint l s c => .list [.atom "mp", .ofNat l, .ofInt s, encMCoords c]
  | .multiLineString l s c => .list [.atom "mls", .ofNat l, .ofInt s, encCoords2 c]
  | .multiPolygon l s c => .list [.atom "mpg", .ofNat l, .ofInt s, encCoords3 c]
  | .collection l s gs => .list [.atom "gc", .ofNat l, .ofInt s, .list (gs.map encA)]

def decFmt : Dec Fmt
  | .atom "wkb" => some (.wkb false)
  | .atom "wkbnan" => some (.wkb true)
  | .atom "ewkb" => some .ewkb
  | _ => none

def bytesAtom (bs : List Byte) : Sexp := .atom (bytesToHex bs)

/-- Model writer for a format. -/
def mWrite (f : Fmt) (ndr : Bool) (g : WGeom) : WR :=
  match f with
  | .wkb nan => writeWkb ndr nan g.depth g
  | .ewkb => writeEwkb ndr g.depth g

def mRead (f : Fmt) (lim : Limits) (bs : List Byte) : Outcome (WGeom × RS) :=
  match f with
  | .wkb nan => readWkb nan lim bs
  | .ewkb => readEwkb lim bs

def encDecoded (r : Outcome (WGeom × RS)) : Sexp :=
  encOutcome encA (r.bind fun p => toAbstract p.1)

/-- Marshal, then Read twice from the concatenation of two copies. -/
def roundTrip (f : Fmt) (ndr : Bool) (a : AGeom) : Sexp :=
  match toModel a with
  | .ok g =>
    match mWrite f ndr g with
    | (_, some e) => encOutcome (fun (_ : Unit) => .atom "u") (.err e)
    | (bs, none) =>
      let r1 := mRead f {} (bs ++ bs)
      let rest1 := match r1 with | .ok (_, s) => s.rest | _ => []
      let r2 := mRead f {} rest1
      let rest2 := match r2 with | .ok (_, s) => s.rest | _ => rest1
      .list [.atom "ok", bytesAtom bs, encDecoded r1, encDecoded r2,
             .ofNat (2 * bs.length - rest2.length)]
  | .err e => encOutcome (fun (_ : Unit) => .atom "u") (.err e)
  | .panic _ => .list [.atom "panic"]

/-- Spec verdict for the round trip observed in Go. -/
def rtVerdict (f : Fmt) (ndr : Bool) (a : AGeom) (go : Sexp) : String :=
  match encode f ndr a, go with
  | none, .list (.atom "err" :: _) => "ok"
  | none, _ => "FAIL a geometry the format cannot express was encoded"
  | some bs, .list [.atom "ok", .atom hex, d1, d2, n] =>
      let want := (Sexp.list [.atom "ok", encA (decoded f a)]).toStr
      if hex != bytesToHex bs then "FAIL bytes differ from the reference encoder (ISO WKB / PostGIS EWKB layout)"
      else if d1.toStr != want then "FAIL decoding the encoding does not give back the geometry"
      else if d2.toStr != want then "FAIL the second of two concatenated geometries does not decode to the geometry"
      else if n.toStr != toString (2 * bs.length) then "FAIL reader did not consume exactly the bytes of the geometries"
      else "ok"
  | some _, _ => "FAIL an encodable geometry was rejected"

def handle (op : String) (inp go : Sexp) : Option Reply :=
  match op, inp with
  | "C03.rt", .list [f, ndr, a, _chunks] => do
      let f ← decFmt f; let ndr ← nat ndr; let a ← decA a
      pure ⟨(roundTrip f (ndr == 1) a).toStr, rtVerdict f (ndr == 1) a go⟩
  | "C03.wfault", .list [f, ndr, a, k] => do
      let f ← decFmt f; let ndr ← nat ndr; let a ← decA a; let k ← nat k
      let m : Sexp := match toModel a with
        | .ok g =>
            let w := mWrite f (ndr == 1) g
            .list [.ofBool (k < w.1.length || w.2.isSome), bytesAtom (w.1.take k)]
        | _ => .list [.atom "panic"]
      let v := match encode f (ndr == 1) a with
        | some bs =>
            let want := Sexp.list [.ofBool (k < bs.length), bytesAtom (bs.take k)]
            verdictOf (want.toStr == go.toStr) "writer fault: error not reported, or bytes written are not a prefix of the encoding"
        | none => match go with
            | .list [.atom "true", _] => "ok"
            | _ => "FAIL unencodable geometry reported success"
      pure ⟨m.toStr, v⟩
  | "C03.hex", .list [f, ndr, a] => do
      let f ← decFmt f; let ndr ← nat ndr; let a ← decA a
      -- hex variants are compositions: hex(Marshal) and Unmarshal(unhex)
      let m : Sexp := match toModel a with
        | .ok g => match mWrite f (ndr == 1) g with
          | (bs, none) => .list [.atom "ok", bytesAtom bs, encDecoded (mRead f {} bs)]
          | (_, some e) => encOutcome (fun (_ : Unit) => .atom "u") (.err e)
        | _ => .list [.atom "panic"]
      let v := match encode f (ndr == 1) a, go with
        | none, .list (.atom "err" :: _) => "ok"
        | some bs, .list [.atom "ok", .atom hex, d] =>
            verdictOf (hex == bytesToHex bs && d.toStr == (Sexp.list [.atom "ok", encA (decoded f a)]).toStr)
              "hex variant differs from the binary encoding"
        | _, _ => "FAIL hex variant outcome"
      pure ⟨m.toStr, v⟩
  | "C03.sql", .list [f, a] => do
      let f ← decFmt f; let a ← decA a
      -- Value() = NDR encoding; Scan(Value()) = the geometry; Scan into another type = error
      let m : Sexp := match toModel a with
        | .ok g => match mWrite f true g with
          | (bs, none) => .list [.atom "ok", bytesAtom bs, encDecoded (mRead f {} bs), .atom "unexpectedType"]
          | (_, some e) => encOutcome (fun (_ : Unit) => .atom "u") (.err e)
        | _ => .list [.atom "panic"]
      let v := match encode f true a, go with
        | none, .list (.atom "err" :: _) => "ok"
        | some bs, .list [.atom "ok", .atom hex, d, .atom wrong] =>
            verdictOf (hex == bytesToHex bs && d.toStr == (Sexp.list [.atom "ok", encA (decoded f a)]).toStr
                && wrong == "unexpectedType")
              "SQL Valuer/Scanner differs from the binary encoding, or a wrong-type wrapper did not report an error"
        | _, _ => "FAIL sql wrapper outcome"
      pure ⟨m.toStr, v⟩
  | _, _ => none

end GeomVerif.Driver.C03
