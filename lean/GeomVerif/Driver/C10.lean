import GeomVerif.Wire
import GeomVerif.Model.Orient
import GeomVerif.Driver.C20

namespace GeomVerif.Driver.C10
open GeomVerif GeomVerif.Wire GeomVerif.Rdp GeomVerif.Orient GeomVerif.Driver.C09 GeomVerif.Driver.C20

def ratField : FieldOps Rat where
  zero := 0
  add := (· + ·)
  sub := (· - ·)
  mul := (· * ·)
  sqrt := id
  half := (· / 2)
  div := (· / ·)
  one := 1
  lt := fun a b => a < b
  isZero := fun a => a == 0

/-- dpSafeEpsilon = 1e-15 as the float64 Go uses. -/
def epsF : Float := 1e-15

def exactSign (o e p : Rat × Rat) : Int :=
  signOf ratField (fallbackDet ratField o.1 o.2 e.1 e.2 p.1 p.2)

def handle (op : String) (inp go : Sexp) : Option Reply :=
  match op, inp with
  | "C10.orient", .list [o, e, p] => do
      let ob ← listOf bits o; let eb ← listOf bits e; let pb ← listOf bits p
      let f (l : List UInt64) (i : Nat) : Float := Float.ofBits (l.getD i 0)
      -- model: float filter, exact fallback when undecided
      let fl := filter ffield epsF (f ob 0) (f ob 1) (f eb 0) (f eb 1) (f pb 0) (f pb 1)
      let r (l : List UInt64) : Option (Rat × Rat) := do
        pure (← Exact.ofBits (l.getD 0 0), ← Exact.ofBits (l.getD 1 0))
      let ex : Option Int := do pure (exactSign (← r ob) (← r eb) (← r pb))
      let final : Int := if fl ≤ 1 then fl else ex.getD 0
      let m := Sexp.list [.ofInt fl, .ofInt final, .ofInt final]
      let v := match ex, go with
        | some s, .list [_, big, xy] =>
            if big.toStr != toString s then "FAIL bigxy.OrientationIndex is not the sign of the exact cross product"
            else if xy.toStr != toString s then "FAIL xy.OrientationIndex is not the sign of the exact cross product"
            else "ok"
        | some _, _ => "FAIL OrientationIndex panicked"
        | none, _ => "na"
      pure ⟨m.toStr, v⟩
  | _, _ => none

end GeomVerif.Driver.C10
