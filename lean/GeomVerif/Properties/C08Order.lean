/-
C08 — order independence of Extend over geometries of mixed XY / XYZ / XYM / XYZM layouts.

Every box of one of the four layouts is read in a canonical four-slot form (X, Y, Z, M; a
dimension the layout lacks reads as +Inf in the minimum and −Inf in the maximum).  One Extend with
a geometry is proved to be, in that form, the point-wise min / max with the geometry's coordinates
read the same way — Z is only ever combined with Z and M with M, whatever the two layouts — and the
resulting layout is the promotion of the two.  Point-wise min / max and promotion are commutative
and associative, so any two orders of extending by the same geometries give the same box.
-/
import Mathlib.Order.MinMax
import GeomVerif.Properties.C08

namespace GeomVerif.C08
open GeomVerif
variable {α : Type}

/-- Canonical reading of a slot list under a layout. -/
def get4 (L : Layout) (xs : List α) (fill : α) : α × α × α × α :=
  if L = 1 then (xs.getD 0 fill, xs.getD 1 fill, fill, fill)
  else if L = 2 then (xs.getD 0 fill, xs.getD 1 fill, xs.getD 2 fill, fill)
  else if L = 3 then (xs.getD 0 fill, xs.getD 1 fill, fill, xs.getD 2 fill)
  else (xs.getD 0 fill, xs.getD 1 fill, xs.getD 2 fill, xs.getD 3 fill)

def op4 (f : α → α → α) (a b : α × α × α × α) : α × α × α × α :=
  (f a.1 b.1, f a.2.1 b.2.1, f a.2.2.1 b.2.2.1, f a.2.2.2 b.2.2.2)

/-- Promotion of layouts among XY(1), XYZ(2), XYM(3), XYZM(4): Z if either has Z, M if either
has M. -/
def prom (a b : Layout) : Layout :=
  let z := decide (a = 2 ∨ a = 4) || decide (b = 2 ∨ b = 4)
  let m := decide (a = 3 ∨ a = 4) || decide (b = 3 ∨ b = 4)
  if z && m then 4 else if z then 2 else if m then 3 else 1

def Named (l : Layout) : Prop := l = 1 ∨ l = 2 ∨ l = 3 ∨ l = 4

/-- A box of a named layout with as many slots as the layout has dimensions. -/
def BoxWF (b : Bounds α) : Prop :=
  Named b.layout ∧ b.min.length = b.layout.stride ∧ b.max.length = b.layout.stride

/-! ### The two extend loops as folds -/

theorem extendFlatCoords_fold (o : OrdOps α) (b : Bounds α) (s : Nat) (hs : 0 < s)
    (cs : List (List α)) (hall : ∀ c ∈ cs, c.length = s)
    (hmn : s ≤ (b.extendStride o s).min.length) (hmx : s ≤ (b.extendStride o s).max.length) :
    b.extendFlatCoords o cs.flatten 0 cs.flatten.length s =
      .ok { (b.extendStride o s) with
              min := cs.foldl (zipPrefix o.min) (b.extendStride o s).min,
              max := cs.foldl (zipPrefix o.max) (b.extendStride o s).max } := by
  have hlen := flatten_length_of_all cs _ hall
  simp only [Bounds.extendFlatCoords, Nat.sub_zero, List.drop_zero]
  rw [if_neg (by omega)]
  have hn : (cs.flatten.length + s - 1) / s = cs.length := by
    rw [hlen]
    have : cs.length * s + s - 1 = (s - 1) + s * cs.length := by rw [Nat.mul_comm]; omega
    rw [this, Nat.add_mul_div_left _ _ hs, Nat.div_eq_of_lt (by omega)]; omega
  rw [hn]
  have := extendLoop_eq o s cs [] _ _ hall hmn hmx
  rw [List.append_nil] at this
  rw [this]; rfl

/-- One XYM coordinate into slots 0, 1, 3 of a four-slot list. -/
def updXYM' (f : α → α → α) (acc c : List α) : List α :=
  match acc, c with
  | [a0, a1, a2, a3], [x, y, m] => [f a0 x, f a1 y, a2, f a3 m]
  | acc, _ => acc

theorem extendXYMLoop_fold (o : OrdOps α) (cs : List (List α)) (hall : ∀ c ∈ cs, c.length = 3) :
    ∀ (mn mx : List α), mn.length = 4 → mx.length = 4 →
    extendXYMLoop o cs.length cs.flatten mn mx =
      .ok (cs.foldl (updXYM' o.min) mn, cs.foldl (updXYM' o.max) mx) := by
  induction cs with
  | nil => intro mn mx _ _; rfl
  | cons c cs ih =>
    intro mn mx hmn hmx
    have hc : c.length = 3 := hall c (by simp)
    have hrest : ∀ c' ∈ cs, c'.length = 3 := fun c' hc' => hall c' (by simp [hc'])
    obtain ⟨x, y, m, rfl⟩ : ∃ x y m, c = [x, y, m] := by
      match c, hc with
      | [x, y, m], _ => exact ⟨x, y, m, rfl⟩
    obtain ⟨a0, a1, a2, a3, rfl⟩ : ∃ a0 a1 a2 a3, mn = [a0, a1, a2, a3] := by
      match mn, hmn with
      | [a0, a1, a2, a3], _ => exact ⟨_, _, _, _, rfl⟩
    obtain ⟨b0, b1, b2, b3, rfl⟩ : ∃ b0 b1 b2 b3, mx = [b0, b1, b2, b3] := by
      match mx, hmx with
      | [a0, a1, a2, a3], _ => exact ⟨_, _, _, _, rfl⟩
    simp only [List.length_cons, extendXYMLoop, List.flatten_cons, List.cons_append, List.nil_append,
      List.length_append, List.foldl_cons]
    rw [if_neg (by simp)]
    simp only [List.take_succ_cons, List.take_zero, List.drop_succ_cons, List.drop_zero, updXYM,
      Outcome.bind_ok, updXYM']
    exact ih hrest _ _ rfl rfl

/-! ### Slot-wise reading of the folds -/

theorem len2 {xs : List α} (h : xs.length = 2) : ∃ a b, xs = [a, b] := by
  match xs, h with
  | [a, b], _ => exact ⟨a, b, rfl⟩
theorem len3 {xs : List α} (h : xs.length = 3) : ∃ a b c, xs = [a, b, c] := by
  match xs, h with
  | [a, b, c], _ => exact ⟨a, b, c, rfl⟩
theorem len4 {xs : List α} (h : xs.length = 4) : ∃ a b c d, xs = [a, b, c, d] := by
  match xs, h with
  | [a, b, c, d], _ => exact ⟨a, b, c, d, rfl⟩

/-- The semantic effect of one geometry on a canonical four-slot value. -/
def stepQ (f : α → α → α) (e : α) (lg : Layout) (q : α × α × α × α) (cs : List (List α)) :
    α × α × α × α :=
  cs.foldl (fun q c => op4 f q (get4 lg c e)) q

/-- Pairs (box layout, geometry layout) for which the geometry's ordinates are a prefix of the
box's slots: the plain extend loop applies. -/
def PrefixCase (L' lg : Layout) : Prop :=
  (L' = 1 ∧ lg = 1) ∨ (L' = 2 ∧ lg = 2) ∨ (L' = 3 ∧ lg = 3) ∨ (L' = 4 ∧ lg = 4) ∨
  (L' = 2 ∧ lg = 1) ∨ (L' = 3 ∧ lg = 1) ∨ (L' = 4 ∧ lg = 1) ∨ (L' = 4 ∧ lg = 2)

theorem foldZ (f : α → α → α) (e : α) (he : ∀ a, f a e = a) (L' lg : Layout) (hc : PrefixCase L' lg)
    (cs : List (List α)) (hall : ∀ c ∈ cs, c.length = lg.stride) :
    ∀ acc : List α, acc.length = L'.stride →
      (cs.foldl (zipPrefix f) acc).length = L'.stride ∧
      get4 L' (cs.foldl (zipPrefix f) acc) e = stepQ f e lg (get4 L' acc e) cs := by
  induction cs with
  | nil => intro acc h; exact ⟨h, rfl⟩
  | cons c cs ih =>
    intro acc hacc
    have hcl : c.length = lg.stride := hall c (by simp)
    have hrest : ∀ c' ∈ cs, c'.length = lg.stride := fun c' hc' => hall c' (by simp [hc'])
    have key : (zipPrefix f acc c).length = L'.stride ∧
        get4 L' (zipPrefix f acc c) e = op4 f (get4 L' acc e) (get4 lg c e) := by
      rcases hc with ⟨rfl, rfl⟩ | ⟨rfl, rfl⟩ | ⟨rfl, rfl⟩ | ⟨rfl, rfl⟩ | ⟨rfl, rfl⟩ | ⟨rfl, rfl⟩ |
        ⟨rfl, rfl⟩ | ⟨rfl, rfl⟩
      all_goals
        simp only [Layout.stride] at hacc hcl
      · obtain ⟨a0, a1, rfl⟩ := len2 hacc; obtain ⟨x, y, rfl⟩ := len2 hcl
        simp [zipPrefix, get4, op4, he, Layout.stride]
      · obtain ⟨a0, a1, a2, rfl⟩ := len3 hacc; obtain ⟨x, y, z, rfl⟩ := len3 hcl
        simp [zipPrefix, get4, op4, he, Layout.stride]
      · obtain ⟨a0, a1, a2, rfl⟩ := len3 hacc; obtain ⟨x, y, z, rfl⟩ := len3 hcl
        simp [zipPrefix, get4, op4, he, Layout.stride]
      · obtain ⟨a0, a1, a2, a3, rfl⟩ := len4 hacc; obtain ⟨x, y, z, m, rfl⟩ := len4 hcl
        simp [zipPrefix, get4, op4, he, Layout.stride]
      · obtain ⟨a0, a1, a2, rfl⟩ := len3 hacc; obtain ⟨x, y, rfl⟩ := len2 hcl
        simp [zipPrefix, get4, op4, he, Layout.stride]
      · obtain ⟨a0, a1, a2, rfl⟩ := len3 hacc; obtain ⟨x, y, rfl⟩ := len2 hcl
        simp [zipPrefix, get4, op4, he, Layout.stride]
      · obtain ⟨a0, a1, a2, a3, rfl⟩ := len4 hacc; obtain ⟨x, y, rfl⟩ := len2 hcl
        simp [zipPrefix, get4, op4, he, Layout.stride]
      · obtain ⟨a0, a1, a2, a3, rfl⟩ := len4 hacc; obtain ⟨x, y, z, rfl⟩ := len3 hcl
        simp [zipPrefix, get4, op4, he, Layout.stride]
    obtain ⟨h1, h2⟩ := ih hrest _ key.1
    refine ⟨by simpa using h1, ?_⟩
    simp only [List.foldl_cons, stepQ] at h2 ⊢
    rw [h2, key.2]

theorem foldX (f : α → α → α) (e : α) (he : ∀ a, f a e = a)
    (cs : List (List α)) (hall : ∀ c ∈ cs, c.length = 3) :
    ∀ acc : List α, acc.length = 4 →
      (cs.foldl (updXYM' f) acc).length = 4 ∧
      get4 4 (cs.foldl (updXYM' f) acc) e = stepQ f e 3 (get4 4 acc e) cs := by
  induction cs with
  | nil => intro acc h; exact ⟨h, rfl⟩
  | cons c cs ih =>
    intro acc hacc
    have hcl : c.length = 3 := hall c (by simp)
    have hrest : ∀ c' ∈ cs, c'.length = 3 := fun c' hc' => hall c' (by simp [hc'])
    obtain ⟨a0, a1, a2, a3, rfl⟩ := len4 hacc
    obtain ⟨x, y, m, rfl⟩ := len3 hcl
    have key : (updXYM' f [a0, a1, a2, a3] [x, y, m]).length = 4 ∧
        get4 4 (updXYM' f [a0, a1, a2, a3] [x, y, m]) e
          = op4 f (get4 4 [a0, a1, a2, a3] e) (get4 3 [x, y, m] e) := by
      simp [updXYM', get4, op4, he]
    obtain ⟨h1, h2⟩ := ih hrest _ key.1
    refine ⟨by simpa using h1, ?_⟩
    simp only [List.foldl_cons, stepQ] at h2 ⊢
    rw [h2, key.2]

/-! ### One Extend in canonical form -/

section step
variable [LinearOrder α] (top bot : α)

theorem routeP (htop : ∀ v : α, min v top = v) (hbot : ∀ v : α, max v bot = v)
    (b1 : Bounds α) (L1 lg : Layout) (hcase : PrefixCase L1 lg) (h1 : b1.layout = L1)
    (hmn : b1.min.length = L1.stride) (hmx : b1.max.length = L1.stride)
    (cs : List (List α)) (hall : ∀ c ∈ cs, c.length = lg.stride) :
    ∃ b', b1.extendFlatCoords (linOps top bot) cs.flatten 0 cs.flatten.length lg.stride = .ok b' ∧
      b'.layout = L1 ∧ b'.min.length = L1.stride ∧ b'.max.length = L1.stride ∧
      get4 L1 b'.min top = stepQ min top lg (get4 L1 b1.min top) cs ∧
      get4 L1 b'.max bot = stepQ max bot lg (get4 L1 b1.max bot) cs := by
  have hle : lg.stride ≤ L1.stride := by
    rcases hcase with ⟨rfl, rfl⟩ | ⟨rfl, rfl⟩ | ⟨rfl, rfl⟩ | ⟨rfl, rfl⟩ | ⟨rfl, rfl⟩ | ⟨rfl, rfl⟩ |
      ⟨rfl, rfl⟩ | ⟨rfl, rfl⟩ <;> decide
  have hpos : 0 < lg.stride := by
    rcases hcase with ⟨rfl, rfl⟩ | ⟨rfl, rfl⟩ | ⟨rfl, rfl⟩ | ⟨rfl, rfl⟩ | ⟨rfl, rfl⟩ | ⟨rfl, rfl⟩ |
      ⟨rfl, rfl⟩ | ⟨rfl, rfl⟩ <;> decide
  have hes : b1.extendStride (linOps top bot) lg.stride = b1 := by
    unfold Bounds.extendStride
    have : lg.stride - b1.layout.stride = 0 := by rw [h1]; omega
    simp [this]
  have hf := extendFlatCoords_fold (linOps top bot) b1 lg.stride hpos cs hall
    (by rw [hes, hmn]; exact hle) (by rw [hes, hmx]; exact hle)
  rw [hes] at hf
  obtain ⟨z1, z2⟩ := foldZ min top htop L1 lg hcase cs hall b1.min hmn
  obtain ⟨w1, w2⟩ := foldZ max bot hbot L1 lg hcase cs hall b1.max hmx
  exact ⟨_, hf, h1, z1, w1, z2, w2⟩

theorem routeX (htop : ∀ v : α, min v top = v) (hbot : ∀ v : α, max v bot = v)
    (b1 : Bounds α) (h1 : b1.layout = 4) (hmn : b1.min.length = 4) (hmx : b1.max.length = 4)
    (cs : List (List α)) (hall : ∀ c ∈ cs, c.length = 3) :
    ∃ b', b1.extendXYZMWithXYM (linOps top bot) cs.flatten 0 cs.flatten.length = .ok b' ∧
      b'.layout = 4 ∧ b'.min.length = 4 ∧ b'.max.length = 4 ∧
      get4 4 b'.min top = stepQ min top 3 (get4 4 b1.min top) cs ∧
      get4 4 b'.max bot = stepQ max bot 3 (get4 4 b1.max bot) cs := by
  have hlen := flatten_length_of_all cs 3 hall
  have hn : (cs.flatten.length - 0 + 2) / 3 = cs.length := by rw [hlen]; omega
  have hf := extendXYMLoop_fold (linOps top bot) cs hall b1.min b1.max hmn hmx
  obtain ⟨z1, z2⟩ := foldX min top htop cs hall b1.min hmn
  obtain ⟨w1, w2⟩ := foldX max bot hbot cs hall b1.max hmx
  refine ⟨{ b1 with min := cs.foldl (updXYM' min) b1.min, max := cs.foldl (updXYM' max) b1.max },
    ?_, h1, z1, w1, z2, w2⟩
  simp only [Bounds.extendXYZMWithXYM, hn, List.drop_zero, hf, Outcome.bind_ok]
  rfl

/-- **One Extend, canonically**: the box stays a well-formed box of the promoted layout, and its
four canonical slots are the point-wise min / max with the geometry's coordinates — X with X, Y
with Y, Z with Z, M with M — for every pair of named layouts. -/
theorem extendFlat_sem (htop : ∀ v : α, min v top = v) (hbot : ∀ v : α, max v bot = v)
    (b : Bounds α) (hb : BoxWF b) (lg : Layout) (hlg : Named lg)
    (cs : List (List α)) (hall : ∀ c ∈ cs, c.length = lg.stride) :
    ∃ b', b.extendFlat (linOps top bot) lg lg.stride cs.flatten = .ok b' ∧ BoxWF b' ∧
      b'.layout = prom b.layout lg ∧
      get4 b'.layout b'.min top = stepQ min top lg (get4 b.layout b.min top) cs ∧
      get4 b'.layout b'.max bot = stepQ max bot lg (get4 b.layout b.max bot) cs := by
  obtain ⟨l, mn, mx⟩ := b
  obtain ⟨hL, hmn, hmx⟩ := hb
  simp only at hL hmn hmx
  have fin : ∀ (b1 : Bounds α) (L1 : Layout), Named L1 →
      (get4 L1 b1.min top = get4 l mn top) → (get4 L1 b1.max bot = get4 l mx bot) →
      L1 = prom l lg →
      (∃ b', (if b1.layout = 4 ∧ lg = 3 then b1.extendXYZMWithXYM (linOps top bot) cs.flatten 0 cs.flatten.length
              else b1.extendFlatCoords (linOps top bot) cs.flatten 0 cs.flatten.length lg.stride) = .ok b' ∧
          b'.layout = L1 ∧ b'.min.length = L1.stride ∧ b'.max.length = L1.stride ∧
          get4 L1 b'.min top = stepQ min top lg (get4 L1 b1.min top) cs ∧
          get4 L1 b'.max bot = stepQ max bot lg (get4 L1 b1.max bot) cs) →
      (Bounds.extendLayout (linOps top bot) ⟨l, mn, mx⟩ lg = .ok b1) →
      ∃ b', Bounds.extendFlat (linOps top bot) ⟨l, mn, mx⟩ lg lg.stride cs.flatten = .ok b' ∧ BoxWF b' ∧
        b'.layout = prom l lg ∧
        get4 b'.layout b'.min top = stepQ min top lg (get4 l mn top) cs ∧
        get4 b'.layout b'.max bot = stepQ max bot lg (get4 l mx bot) cs := by
    intro b1 L1 hN g1 g2 hp ⟨b', e1, e2, e3, e4, e5, e6⟩ hel
    refine ⟨b', ?_, ⟨by rw [e2]; exact hN, by rw [e2]; exact e3, by rw [e2]; exact e4⟩, by rw [e2, hp], ?_, ?_⟩
    · simp only [Bounds.extendFlat, hel, Outcome.bind_ok]; exact e1
    · rw [e2, e5, g1]
    · rw [e2, e6, g2]
  rcases hL with rfl | rfl | rfl | rfl <;> rcases hlg with rfl | rfl | rfl | rfl <;>
    simp only [Layout.stride] at hmn hmx hall
  -- (1,1)
  · obtain ⟨a0, a1, rfl⟩ := len2 hmn; obtain ⟨b0, b1', rfl⟩ := len2 hmx
    refine fin ⟨1, [a0, a1], [b0, b1']⟩ 1 (Or.inl rfl) rfl rfl (by decide) ?_ (by simp [Bounds.extendLayout])
    simp only [show ¬ ((1 : Layout) = 4 ∧ (1 : Layout) = 3) by decide, if_false]
    exact routeP top bot htop hbot _ 1 1 (Or.inl ⟨rfl, rfl⟩) rfl rfl rfl cs hall
  -- (1,2)
  · obtain ⟨a0, a1, rfl⟩ := len2 hmn; obtain ⟨b0, b1', rfl⟩ := len2 hmx
    refine fin ⟨2, [a0, a1, top], [b0, b1', bot]⟩ 2 (Or.inr (Or.inl rfl)) (by simp [get4]) (by simp [get4])
      (by decide) ?_ (by simp [Bounds.extendLayout, Bounds.extendStride, Layout.stride, linOps])
    simp only [show ¬ ((2 : Layout) = 4 ∧ (2 : Layout) = 3) by decide, if_false]
    exact routeP top bot htop hbot _ 2 2 (Or.inr (Or.inl ⟨rfl, rfl⟩)) rfl rfl rfl cs hall
  -- (1,3)
  · obtain ⟨a0, a1, rfl⟩ := len2 hmn; obtain ⟨b0, b1', rfl⟩ := len2 hmx
    refine fin ⟨3, [a0, a1, top], [b0, b1', bot]⟩ 3 (Or.inr (Or.inr (Or.inl rfl))) (by simp [get4]) (by simp [get4])
      (by decide) ?_ (by simp [Bounds.extendLayout, Bounds.extendStride, Layout.stride, linOps])
    simp only [show ¬ ((3 : Layout) = 4 ∧ (3 : Layout) = 3) by decide, if_false]
    exact routeP top bot htop hbot _ 3 3 (Or.inr (Or.inr (Or.inl ⟨rfl, rfl⟩))) rfl rfl rfl cs hall
  -- (1,4)
  · obtain ⟨a0, a1, rfl⟩ := len2 hmn; obtain ⟨b0, b1', rfl⟩ := len2 hmx
    refine fin ⟨4, [a0, a1, top, top], [b0, b1', bot, bot]⟩ 4 (Or.inr (Or.inr (Or.inr rfl))) (by simp [get4])
      (by simp [get4]) (by decide) ?_
      (by simp [Bounds.extendLayout, Bounds.extendStride, Layout.stride, linOps, List.replicate])
    simp only [show ¬ ((4 : Layout) = 4 ∧ (4 : Layout) = 3) by decide, if_false]
    exact routeP top bot htop hbot _ 4 4 (Or.inr (Or.inr (Or.inr (Or.inl ⟨rfl, rfl⟩)))) rfl rfl rfl cs hall
  -- (2,1)
  · obtain ⟨a0, a1, a2, rfl⟩ := len3 hmn; obtain ⟨b0, b1', b2, rfl⟩ := len3 hmx
    refine fin ⟨2, [a0, a1, a2], [b0, b1', b2]⟩ 2 (Or.inr (Or.inl rfl)) rfl rfl (by decide) ?_
      (by simp [Bounds.extendLayout])
    simp only [show ¬ ((2 : Layout) = 4 ∧ (1 : Layout) = 3) by decide, if_false]
    exact routeP top bot htop hbot _ 2 1 (Or.inr (Or.inr (Or.inr (Or.inr (Or.inl ⟨rfl, rfl⟩))))) rfl rfl rfl cs hall
  -- (2,2)
  · obtain ⟨a0, a1, a2, rfl⟩ := len3 hmn; obtain ⟨b0, b1', b2, rfl⟩ := len3 hmx
    refine fin ⟨2, [a0, a1, a2], [b0, b1', b2]⟩ 2 (Or.inr (Or.inl rfl)) rfl rfl (by decide) ?_
      (by simp [Bounds.extendLayout])
    simp only [show ¬ ((2 : Layout) = 4 ∧ (2 : Layout) = 3) by decide, if_false]
    exact routeP top bot htop hbot _ 2 2 (Or.inr (Or.inl ⟨rfl, rfl⟩)) rfl rfl rfl cs hall
  -- (2,3): XYZ box, XYM geometry -> XYZM, M loop
  · obtain ⟨a0, a1, a2, rfl⟩ := len3 hmn; obtain ⟨b0, b1', b2, rfl⟩ := len3 hmx
    refine fin ⟨4, [a0, a1, a2, top], [b0, b1', b2, bot]⟩ 4 (Or.inr (Or.inr (Or.inr rfl))) (by simp [get4])
      (by simp [get4]) (by decide) ?_ (by simp [Bounds.extendLayout, linOps])
    simp only [show ((4 : Layout) = 4 ∧ (3 : Layout) = 3) by decide, if_true]
    exact routeX top bot htop hbot _ rfl rfl rfl cs hall
  -- (2,4)
  · obtain ⟨a0, a1, a2, rfl⟩ := len3 hmn; obtain ⟨b0, b1', b2, rfl⟩ := len3 hmx
    refine fin ⟨4, [a0, a1, a2, top], [b0, b1', b2, bot]⟩ 4 (Or.inr (Or.inr (Or.inr rfl))) (by simp [get4])
      (by simp [get4]) (by decide) ?_
      (by simp [Bounds.extendLayout, Bounds.extendStride, Layout.stride, linOps])
    simp only [show ¬ ((4 : Layout) = 4 ∧ (4 : Layout) = 3) by decide, if_false]
    exact routeP top bot htop hbot _ 4 4 (Or.inr (Or.inr (Or.inr (Or.inl ⟨rfl, rfl⟩)))) rfl rfl rfl cs hall
  -- (3,1)
  · obtain ⟨a0, a1, a2, rfl⟩ := len3 hmn; obtain ⟨b0, b1', b2, rfl⟩ := len3 hmx
    refine fin ⟨3, [a0, a1, a2], [b0, b1', b2]⟩ 3 (Or.inr (Or.inr (Or.inl rfl))) rfl rfl (by decide) ?_
      (by simp [Bounds.extendLayout])
    simp only [show ¬ ((3 : Layout) = 4 ∧ (1 : Layout) = 3) by decide, if_false]
    exact routeP top bot htop hbot _ 3 1
      (Or.inr (Or.inr (Or.inr (Or.inr (Or.inr (Or.inl ⟨rfl, rfl⟩)))))) rfl rfl rfl cs hall
  -- (3,2): XYM box, XYZ geometry -> XYZM with M moved to slot 3
  · obtain ⟨a0, a1, a2, rfl⟩ := len3 hmn; obtain ⟨b0, b1', b2, rfl⟩ := len3 hmx
    refine fin ⟨4, [a0, a1, top, a2], [b0, b1', bot, b2]⟩ 4 (Or.inr (Or.inr (Or.inr rfl))) (by simp [get4])
      (by simp [get4]) (by decide) ?_ (by simp [Bounds.extendLayout, linOps])
    simp only [show ¬ ((4 : Layout) = 4 ∧ (2 : Layout) = 3) by decide, if_false]
    exact routeP top bot htop hbot _ 4 2
      (Or.inr (Or.inr (Or.inr (Or.inr (Or.inr (Or.inr (Or.inr ⟨rfl, rfl⟩))))))) rfl rfl rfl cs hall
  -- (3,3)
  · obtain ⟨a0, a1, a2, rfl⟩ := len3 hmn; obtain ⟨b0, b1', b2, rfl⟩ := len3 hmx
    refine fin ⟨3, [a0, a1, a2], [b0, b1', b2]⟩ 3 (Or.inr (Or.inr (Or.inl rfl))) rfl rfl (by decide) ?_
      (by simp [Bounds.extendLayout])
    simp only [show ¬ ((3 : Layout) = 4 ∧ (3 : Layout) = 3) by decide, if_false]
    exact routeP top bot htop hbot _ 3 3 (Or.inr (Or.inr (Or.inl ⟨rfl, rfl⟩))) rfl rfl rfl cs hall
  -- (3,4)
  · obtain ⟨a0, a1, a2, rfl⟩ := len3 hmn; obtain ⟨b0, b1', b2, rfl⟩ := len3 hmx
    refine fin ⟨4, [a0, a1, top, a2], [b0, b1', bot, b2]⟩ 4 (Or.inr (Or.inr (Or.inr rfl))) (by simp [get4])
      (by simp [get4]) (by decide) ?_ (by simp [Bounds.extendLayout, linOps])
    simp only [show ¬ ((4 : Layout) = 4 ∧ (4 : Layout) = 3) by decide, if_false]
    exact routeP top bot htop hbot _ 4 4 (Or.inr (Or.inr (Or.inr (Or.inl ⟨rfl, rfl⟩)))) rfl rfl rfl cs hall
  -- (4,1)
  · obtain ⟨a0, a1, a2, a3, rfl⟩ := len4 hmn; obtain ⟨b0, b1', b2, b3, rfl⟩ := len4 hmx
    refine fin ⟨4, [a0, a1, a2, a3], [b0, b1', b2, b3]⟩ 4 (Or.inr (Or.inr (Or.inr rfl))) rfl rfl (by decide) ?_
      (by simp [Bounds.extendLayout])
    simp only [show ¬ ((4 : Layout) = 4 ∧ (1 : Layout) = 3) by decide, if_false]
    exact routeP top bot htop hbot _ 4 1
      (Or.inr (Or.inr (Or.inr (Or.inr (Or.inr (Or.inr (Or.inl ⟨rfl, rfl⟩))))))) rfl rfl rfl cs hall
  -- (4,2)
  · obtain ⟨a0, a1, a2, a3, rfl⟩ := len4 hmn; obtain ⟨b0, b1', b2, b3, rfl⟩ := len4 hmx
    refine fin ⟨4, [a0, a1, a2, a3], [b0, b1', b2, b3]⟩ 4 (Or.inr (Or.inr (Or.inr rfl))) rfl rfl (by decide) ?_
      (by simp [Bounds.extendLayout])
    simp only [show ¬ ((4 : Layout) = 4 ∧ (2 : Layout) = 3) by decide, if_false]
    exact routeP top bot htop hbot _ 4 2
      (Or.inr (Or.inr (Or.inr (Or.inr (Or.inr (Or.inr (Or.inr ⟨rfl, rfl⟩))))))) rfl rfl rfl cs hall
  -- (4,3)
  · obtain ⟨a0, a1, a2, a3, rfl⟩ := len4 hmn; obtain ⟨b0, b1', b2, b3, rfl⟩ := len4 hmx
    refine fin ⟨4, [a0, a1, a2, a3], [b0, b1', b2, b3]⟩ 4 (Or.inr (Or.inr (Or.inr rfl))) rfl rfl (by decide) ?_
      (by simp [Bounds.extendLayout])
    simp only [show ((4 : Layout) = 4 ∧ (3 : Layout) = 3) by decide, if_true]
    exact routeX top bot htop hbot _ rfl rfl rfl cs hall
  -- (4,4)
  · obtain ⟨a0, a1, a2, a3, rfl⟩ := len4 hmn; obtain ⟨b0, b1', b2, b3, rfl⟩ := len4 hmx
    refine fin ⟨4, [a0, a1, a2, a3], [b0, b1', b2, b3]⟩ 4 (Or.inr (Or.inr (Or.inr rfl))) rfl rfl (by decide) ?_
      (by simp [Bounds.extendLayout])
    simp only [show ¬ ((4 : Layout) = 4 ∧ (4 : Layout) = 3) by decide, if_false]
    exact routeP top bot htop hbot _ 4 4 (Or.inr (Or.inr (Or.inr (Or.inl ⟨rfl, rfl⟩)))) rfl rfl rfl cs hall

/-! ### Sequences of Extend and their permutations -/

/-- A geometry as Extend sees it: its layout and its coordinates. -/
abbrev GIn (α : Type) := Layout × List (List α)

def GValid (g : GIn α) : Prop := Named g.1 ∧ ∀ c ∈ g.2, c.length = g.1.stride

/-- `b.Extend(g₁).Extend(g₂)…` -/
def extendAll (o : OrdOps α) (b : Bounds α) (gs : List (GIn α)) : Outcome (Bounds α) :=
  gs.foldlM (fun b g => b.extendFlat o g.1 g.1.stride g.2.flatten) b

theorem extendAll_sem (htop : ∀ v : α, min v top = v) (hbot : ∀ v : α, max v bot = v)
    (gs : List (GIn α)) (hv : ∀ g ∈ gs, GValid g) : ∀ (b : Bounds α), BoxWF b →
    ∃ b', extendAll (linOps top bot) b gs = .ok b' ∧ BoxWF b' ∧
      b'.layout = gs.foldl (fun L g => prom L g.1) b.layout ∧
      get4 b'.layout b'.min top = gs.foldl (fun q g => stepQ min top g.1 q g.2) (get4 b.layout b.min top) ∧
      get4 b'.layout b'.max bot = gs.foldl (fun q g => stepQ max bot g.1 q g.2) (get4 b.layout b.max bot) := by
  induction gs with
  | nil => intro b hb; exact ⟨b, rfl, hb, rfl, rfl, rfl⟩
  | cons g gs ih =>
    intro b hb
    obtain ⟨hn, hall⟩ := hv g (by simp)
    obtain ⟨b1, e1, w1, l1, m1, x1⟩ := extendFlat_sem top bot htop hbot b hb g.1 hn g.2 hall
    obtain ⟨b2, e2, w2, l2, m2, x2⟩ := ih (fun g' hg' => hv g' (by simp [hg'])) b1 w1
    refine ⟨b2, ?_, w2, ?_, ?_, ?_⟩
    · simp only [extendAll, List.foldlM_cons, e1, Outcome.bind_ok]; exact e2
    · rw [l2, l1]; rfl
    · rw [m2, m1]; rfl
    · rw [x2, x1]; rfl

theorem prom_rcomm (L a b : Layout) : prom (prom L a) b = prom (prom L b) a := by
  unfold prom
  by_cases h1 : L = 2 ∨ L = 4 <;> by_cases h2 : L = 3 ∨ L = 4 <;>
  by_cases h3 : a = 2 ∨ a = 4 <;> by_cases h4 : a = 3 ∨ a = 4 <;>
  by_cases h5 : b = 2 ∨ b = 4 <;> by_cases h6 : b = 3 ∨ b = 4 <;> simp [h1, h2, h3, h4, h5, h6]

theorem foldl_prom_perm {gs gs' : List (GIn α)} (p : gs.Perm gs') :
    ∀ L, gs.foldl (fun L g => prom L g.1) L = gs'.foldl (fun L g => prom L g.1) L := by
  induction p with
  | nil => intro L; rfl
  | cons g _ ih => intro L; exact ih _
  | swap g1 g2 l => intro L; simp only [List.foldl_cons]; rw [prom_rcomm]
  | trans _ _ ih1 ih2 => intro L; rw [ih1, ih2]

theorem op4_rcomm (f : α → α → α) (hc : ∀ a b, f a b = f b a) (ha : ∀ a b c, f (f a b) c = f a (f b c))
    (q x y : α × α × α × α) : op4 f (op4 f q x) y = op4 f (op4 f q y) x := by
  have r : ∀ a b c, f (f a b) c = f (f a c) b := fun a b c => by rw [ha, hc b c, ← ha]
  simp only [op4, r]

theorem foldl_perm_rcomm {β γ : Type} (f : β → γ → β) (hr : ∀ a b c, f (f a b) c = f (f a c) b)
    {l l' : List γ} (p : l.Perm l') : ∀ q, l.foldl f q = l'.foldl f q := by
  induction p with
  | nil => intro q; rfl
  | cons g _ ih => intro q; exact ih _
  | swap g1 g2 l => intro q; simp only [List.foldl_cons]; rw [hr]
  | trans _ _ ih1 ih2 => intro q; rw [ih1, ih2]

theorem stepQ_as_fold (f : α → α → α) (e : α) (lg : Layout) (q : α × α × α × α) (cs : List (List α)) :
    stepQ f e lg q cs = (cs.map (get4 lg · e)).foldl (op4 f) q := by
  unfold stepQ
  rw [List.foldl_map]

theorem foldl_stepQ_perm (f : α → α → α) (e : α) (hc : ∀ a b, f a b = f b a)
    (ha : ∀ a b c, f (f a b) c = f a (f b c)) {gs gs' : List (GIn α)} (p : gs.Perm gs') :
    ∀ q, gs.foldl (fun q g => stepQ f e g.1 q g.2) q = gs'.foldl (fun q g => stepQ f e g.1 q g.2) q := by
  have swap2 : ∀ (g1 g2 : GIn α) q, stepQ f e g2.1 (stepQ f e g1.1 q g1.2) g2.2
      = stepQ f e g1.1 (stepQ f e g2.1 q g2.2) g1.2 := by
    intro g1 g2 q
    simp only [stepQ_as_fold, ← List.foldl_append]
    have : ∀ (l1 l2 : List (α × α × α × α)) q, (l1 ++ l2).foldl (op4 f) q = (l2 ++ l1).foldl (op4 f) q := by
      intro l1 l2 q
      exact foldl_perm_rcomm (op4 f) (fun a b c => op4_rcomm f hc ha a b c) List.perm_append_comm q
    exact this _ _ q
  induction p with
  | nil => intro q; rfl
  | cons g _ ih => intro q; exact ih _
  | swap g1 g2 l => intro q; simp only [List.foldl_cons]; rw [swap2]
  | trans _ _ ih1 ih2 => intro q; rw [ih1, ih2]

omit [LinearOrder α] in
/-- A well-formed box is determined by its layout and its canonical slots. -/
theorem box_ext (b1 b2 : Bounds α) (h1 : BoxWF b1) (h2 : BoxWF b2) (hl : b1.layout = b2.layout)
    (hmn : get4 b1.layout b1.min top = get4 b2.layout b2.min top)
    (hmx : get4 b1.layout b1.max bot = get4 b2.layout b2.max bot) : b1 = b2 := by
  obtain ⟨l1, mn1, mx1⟩ := b1
  obtain ⟨l2, mn2, mx2⟩ := b2
  simp only at hl; subst hl
  obtain ⟨hN, a1, a2⟩ := h1
  obtain ⟨_, c1, c2⟩ := h2
  simp only at hN a1 a2 c1 c2 hmn hmx
  rcases hN with rfl | rfl | rfl | rfl <;> simp only [Layout.stride] at a1 a2 c1 c2
  · obtain ⟨_, _, rfl⟩ := len2 a1; obtain ⟨_, _, rfl⟩ := len2 a2
    obtain ⟨_, _, rfl⟩ := len2 c1; obtain ⟨_, _, rfl⟩ := len2 c2
    simp [get4] at hmn hmx; simp [hmn, hmx]
  · obtain ⟨_, _, _, rfl⟩ := len3 a1; obtain ⟨_, _, _, rfl⟩ := len3 a2
    obtain ⟨_, _, _, rfl⟩ := len3 c1; obtain ⟨_, _, _, rfl⟩ := len3 c2
    simp [get4] at hmn hmx; simp [hmn, hmx]
  · obtain ⟨_, _, _, rfl⟩ := len3 a1; obtain ⟨_, _, _, rfl⟩ := len3 a2
    obtain ⟨_, _, _, rfl⟩ := len3 c1; obtain ⟨_, _, _, rfl⟩ := len3 c2
    simp [get4] at hmn hmx; simp [hmn, hmx]
  · obtain ⟨_, _, _, _, rfl⟩ := len4 a1; obtain ⟨_, _, _, _, rfl⟩ := len4 a2
    obtain ⟨_, _, _, _, rfl⟩ := len4 c1; obtain ⟨_, _, _, _, rfl⟩ := len4 c2
    simp [get4] at hmn hmx; simp [hmn, hmx]

/-- **C08 — Extend is order independent**: for every well-formed box of a named layout, every
list of geometries in XY / XYZ / XYM / XYZM layouts (any number of coordinates each, empty ones
included) and every permutation of that list, extending in either order succeeds and yields the
same box — same layout, same value in every slot. `top` / `bot` are any greatest / least
elements (±Inf for floats without NaN). -/
theorem C08_extend_order_independent (htop : ∀ v : α, v ≤ top) (hbot : ∀ v : α, bot ≤ v)
    (b : Bounds α) (hb : BoxWF b) (gs gs' : List (GIn α)) (hv : ∀ g ∈ gs, GValid g)
    (p : gs.Perm gs') :
    ∃ r, extendAll (linOps top bot) b gs = .ok r ∧ extendAll (linOps top bot) b gs' = .ok r := by
  have ht : ∀ v : α, min v top = v := fun v => min_eq_left (htop v)
  have hbt : ∀ v : α, max v bot = v := fun v => max_eq_left (hbot v)
  have hv' : ∀ g ∈ gs', GValid g := fun g hg => hv g (p.mem_iff.mpr hg)
  obtain ⟨r, e, w, l, m, x⟩ := extendAll_sem top bot ht hbt gs hv b hb
  obtain ⟨r', e', w', l', m', x'⟩ := extendAll_sem top bot ht hbt gs' hv' b hb
  have hl : r.layout = r'.layout := by rw [l, l', foldl_prom_perm p]
  have hm : get4 r.layout r.min top = get4 r'.layout r'.min top := by
    rw [m, m', foldl_stepQ_perm min top min_comm min_assoc p]
  have hx : get4 r.layout r.max bot = get4 r'.layout r'.max bot := by
    rw [x, x', foldl_stepQ_perm max bot max_comm max_assoc p]
  have := box_ext top bot r r' w w' hl hm hx
  subst this
  exact ⟨r, e, e'⟩

/-- **Z is combined with Z and M with M**: after any sequence of Extends the canonical Z slot is the
min / max over the Z ordinates of exactly the geometries that have Z (and likewise M), whatever
the order and whatever layouts came before (corollary of `extendAll_sem`: the canonical slots are
point-wise folds, and a geometry without the dimension contributes the neutral element). -/
theorem C08_z_with_z_m_with_m (htop : ∀ v : α, v ≤ top) (b : Bounds α) (hb : BoxWF b)
    (lg : Layout) (hlg : Named lg) (cs : List (List α)) (hall : ∀ c ∈ cs, c.length = lg.stride)
    (hbot : ∀ v : α, bot ≤ v) :
    ∃ b', b.extendFlat (linOps top bot) lg lg.stride cs.flatten = .ok b' ∧
      get4 b'.layout b'.min top = stepQ min top lg (get4 b.layout b.min top) cs := by
  obtain ⟨b', e, _, _, m, _⟩ := extendFlat_sem top bot (fun v => min_eq_left (htop v))
    (fun v => max_eq_left (hbot v)) b hb lg hlg cs hall
  exact ⟨b', e, m⟩

end step

/-! ### Collections: Extend recurses into members, so only the leaves matter -/

mutual
/-- The flat geometries of a (nested) collection, in order. -/
def leaves : BGeom α → List (Layout × Nat × List α)
  | .flat l s c => [(l, s, c)]
  | .coll _ gs => leavesL gs
def leavesL : List (BGeom α) → List (Layout × Nat × List α)
  | [] => []
  | g :: gs => leaves g ++ leavesL gs
end

def extendLeaves (o : OrdOps α) (b : Bounds α) (ls : List (Layout × Nat × List α)) :
    Outcome (Bounds α) :=
  ls.foldlM (fun b lf => b.extendFlat o lf.1 lf.2.1 lf.2.2) b

theorem extendLeaves_append (o : OrdOps α) (l1 l2 : List (Layout × Nat × List α)) :
    ∀ b, extendLeaves o b (l1 ++ l2) = (extendLeaves o b l1 >>= fun b' => extendLeaves o b' l2) := by
  induction l1 with
  | nil => intro b; rfl
  | cons x l1 ih =>
    intro b
    simp only [extendLeaves, List.cons_append, List.foldlM_cons] at ih ⊢
    cases h : b.extendFlat o x.1 x.2.1 x.2.2 with
    | ok b1 => simp only [Outcome.bind_ok]; exact ih b1
    | err e => rfl
    | panic m => rfl

mutual
/-- **Bounds of nested collections**: extending by a collection is extending by its leaves in
order, to any nesting depth (so the box of a collection is the box of everything inside it, and
how members are grouped into sub-collections is irrelevant). -/
theorem C08_collection_recursive (o : OrdOps α) (b : Bounds α) :
    ∀ g : BGeom α, Bounds.extendGeom o b g = extendLeaves o b (leaves g)
  | .flat l s c => by
      simp only [Bounds.extendGeom, leaves, extendLeaves, List.foldlM_cons, List.foldlM_nil]
      cases b.extendFlat o l s c <;> rfl
  | .coll _ gs => by
      simp only [Bounds.extendGeom, leaves]
      exact extendGeoms_leaves o b gs
theorem extendGeoms_leaves (o : OrdOps α) (b : Bounds α) :
    ∀ gs : List (BGeom α), Bounds.extendGeoms o b gs = extendLeaves o b (leavesL gs)
  | [] => rfl
  | g :: gs => by
      simp only [Bounds.extendGeoms, leavesL, extendLeaves_append]
      rw [C08_collection_recursive o b g]
      cases h : extendLeaves o b (leaves g) with
      | ok b1 => simp only [Outcome.bind_ok]; exact extendGeoms_leaves o b1 gs
      | err e => rfl
      | panic m => rfl
end

/-- Non-vacuity: an XYZ line and an XYM line extend an XY box to XYZM in either order, Z and M in
their own slots. -/
example : extendAll (linOps (1000 : Int) (-1000)) (newBounds (linOps 1000 (-1000)) 1)
      [(2, [[1, 2, 7], [3, 0, 9]]), (3, [[5, 5, 40]])]
    = .ok ⟨4, [1, 0, 7, 40], [5, 5, 9, 40]⟩ ∧
    extendAll (linOps (1000 : Int) (-1000)) (newBounds (linOps 1000 (-1000)) 1)
      [(3, [[5, 5, 40]]), (2, [[1, 2, 7], [3, 0, 9]])]
    = .ok ⟨4, [1, 0, 7, 40], [5, 5, 9, 40]⟩ := by decide

end GeomVerif.C08
