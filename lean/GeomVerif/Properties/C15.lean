/-
C15 — distances.  Exact-arithmetic theorems (any linearly ordered field), on squared distances:
the three-way rule used by DistanceFromPointToLine / xyz.DistancePointToLine (r ≤ 0 → start,
r ≥ 1 → end, else the foot of the perpendicular) yields the minimum of |a + t(b−a) − p|² over
all t in [0,1], in 2D and in 3D; the 2D "|s|·L" shortcut equals the distance to the foot
(Lagrange identity); zero-length segments reduce to the point distance by definition.
Not proved (oracle, exact rationals): segment–segment minimality in 2D and 3D (closest points
at an endpoint when the segments do not cross / when the critical point leaves the square).
-/
import Mathlib.Tactic.Ring
import Mathlib.Tactic.Linarith
import Mathlib.Tactic.FieldSimp
import Mathlib.Algebra.Order.Field.Basic
import GeomVerif.Model.Distance

namespace GeomVerif.Dist

section field
variable {K : Type} [Field K] [LinearOrder K] [IsStrictOrderedRing K]

/-- One-dimensional core: for the convex quadratic q(t) = c + 2·t·m + t²·L with L > 0 and
r = −m/L, the clamped parameter t* = 0 (r ≤ 0), 1 (r ≥ 1), r (otherwise) minimises q on [0,1]. -/
theorem quad_min_clamped (c m L r t : K) (hL : 0 < L) (hr : r * L = -m) (ht0 : 0 ≤ t) (ht1 : t ≤ 1) :
    (r ≤ 0 → c ≤ c + 2 * t * m + t * t * L) ∧
    (1 ≤ r → c + 2 * 1 * m + 1 * 1 * L ≤ c + 2 * t * m + t * t * L) ∧
    (0 < r → r < 1 → c + 2 * r * m + r * r * L ≤ c + 2 * t * m + t * t * L) := by
  have hm : m = -(r * L) := by linarith
  refine ⟨fun h => ?_, fun h => ?_, fun _ _ => ?_⟩
  · -- q(t) − q(0) = L·t·(t − 2r) ≥ 0
    have : 0 ≤ L * t * (t - 2 * r) :=
      mul_nonneg (mul_nonneg (le_of_lt hL) ht0) (by linarith)
    have e : 2 * t * m + t * t * L = L * t * (t - 2 * r) := by rw [hm]; ring
    linarith
  · -- q(t) − q(1) = L·(t−1)·(t+1−2r) ≥ 0 (both factors ≤ 0)
    have : 0 ≤ L * ((1 - t) * (2 * r - t - 1)) :=
      mul_nonneg (le_of_lt hL) (mul_nonneg (by linarith) (by linarith))
    have e : (c + 2 * t * m + t * t * L) - (c + 2 * 1 * m + 1 * 1 * L)
        = L * ((1 - t) * (2 * r - t - 1)) := by rw [hm]; ring
    linarith
  · -- q(t) − q(r) = L·(t−r)² ≥ 0
    have : 0 ≤ L * ((t - r) * (t - r)) := mul_nonneg (le_of_lt hL) (mul_self_nonneg _)
    have e : (c + 2 * t * m + t * t * L) - (c + 2 * r * m + r * r * L) = L * ((t - r) * (t - r)) := by
      rw [hm]; ring
    linarith

/-- Squared distance from p to the point at parameter t of segment a→b (2D). -/
def f2 (ax ay bx by_ px py t : K) : K :=
  (ax + t * (bx - ax) - px) * (ax + t * (bx - ax) - px) +
  (ay + t * (by_ - ay) - py) * (ay + t * (by_ - ay) - py)

/-- **2D point–segment**: with r = (p−a)·(b−a)/|b−a|² as computed by the code, the code's choice
(start if r ≤ 0, end if r ≥ 1, foot otherwise) attains the minimum over the whole segment. -/
theorem C15_point_segment_2d (ax ay bx by_ px py t : K)
    (hne : 0 < (bx - ax) * (bx - ax) + (by_ - ay) * (by_ - ay)) (ht0 : 0 ≤ t) (ht1 : t ≤ 1) :
    let L := (bx - ax) * (bx - ax) + (by_ - ay) * (by_ - ay)
    let r := ((px - ax) * (bx - ax) + (py - ay) * (by_ - ay)) / L
    (r ≤ 0 → f2 ax ay bx by_ px py 0 ≤ f2 ax ay bx by_ px py t) ∧
    (1 ≤ r → f2 ax ay bx by_ px py 1 ≤ f2 ax ay bx by_ px py t) ∧
    (0 < r → r < 1 → f2 ax ay bx by_ px py r ≤ f2 ax ay bx by_ px py t) := by
  intro L r
  have hr : r * L = -((ax - px) * (bx - ax) + (ay - py) * (by_ - ay)) := by
    simp only [r]; rw [div_mul_cancel₀ _ (ne_of_gt hne)]; ring
  have key := quad_min_clamped ((ax - px) * (ax - px) + (ay - py) * (ay - py))
    ((ax - px) * (bx - ax) + (ay - py) * (by_ - ay)) L r t hne hr ht0 ht1
  have ex : ∀ u : K, f2 ax ay bx by_ px py u =
      ((ax - px) * (ax - px) + (ay - py) * (ay - py)) +
        2 * u * ((ax - px) * (bx - ax) + (ay - py) * (by_ - ay)) + u * u * L := by
    intro u; simp only [f2, L]; ring
  refine ⟨fun h => ?_, fun h => ?_, fun h1 h2 => ?_⟩
  · have := key.1 h; rw [ex 0, ex t]; linarith
  · have := key.2.1 h; rw [ex 1, ex t]; linarith
  · have := key.2.2 h1 h2; rw [ex r, ex t]; linarith

/-- **Lagrange identity**: the code's interior value (|s|·L^½ with s = cross/L, squared: cross²/L)
is the squared distance to the foot of the perpendicular. -/
theorem C15_perpendicular_formula (ax ay bx by_ px py : K)
    (hne : 0 < (bx - ax) * (bx - ax) + (by_ - ay) * (by_ - ay)) :
    let L := (bx - ax) * (bx - ax) + (by_ - ay) * (by_ - ay)
    let r := ((px - ax) * (bx - ax) + (py - ay) * (by_ - ay)) / L
    let s := ((ay - py) * (bx - ax) - (ax - px) * (by_ - ay)) / L
    s * s * L = f2 ax ay bx by_ px py r := by
  intro L r s
  have hL : L ≠ 0 := ne_of_gt hne
  simp only [f2, r, s]
  field_simp
  simp only [L]; ring

/-- Squared distance from p to the point at parameter t of segment a→b (3D). -/
def f3 (ax ay az bx by_ bz px py pz t : K) : K :=
  (ax + t * (bx - ax) - px) * (ax + t * (bx - ax) - px) +
  (ay + t * (by_ - ay) - py) * (ay + t * (by_ - ay) - py) +
  (az + t * (bz - az) - pz) * (az + t * (bz - az) - pz)

/-- **3D point–segment** (xyz.DistancePointToLine): same three-way rule, same minimality. -/
theorem C15_point_segment_3d (ax ay az bx by_ bz px py pz t : K)
    (hne : 0 < (bx - ax) * (bx - ax) + (by_ - ay) * (by_ - ay) + (bz - az) * (bz - az))
    (ht0 : 0 ≤ t) (ht1 : t ≤ 1) :
    let L := (bx - ax) * (bx - ax) + (by_ - ay) * (by_ - ay) + (bz - az) * (bz - az)
    let r := ((px - ax) * (bx - ax) + (py - ay) * (by_ - ay) + (pz - az) * (bz - az)) / L
    (r ≤ 0 → f3 ax ay az bx by_ bz px py pz 0 ≤ f3 ax ay az bx by_ bz px py pz t) ∧
    (1 ≤ r → f3 ax ay az bx by_ bz px py pz 1 ≤ f3 ax ay az bx by_ bz px py pz t) ∧
    (0 < r → r < 1 → f3 ax ay az bx by_ bz px py pz r ≤ f3 ax ay az bx by_ bz px py pz t) := by
  intro L r
  have hr : r * L = -((ax - px) * (bx - ax) + (ay - py) * (by_ - ay) + (az - pz) * (bz - az)) := by
    simp only [r]; rw [div_mul_cancel₀ _ (ne_of_gt hne)]; ring
  have key := quad_min_clamped ((ax - px) * (ax - px) + (ay - py) * (ay - py) + (az - pz) * (az - pz))
    ((ax - px) * (bx - ax) + (ay - py) * (by_ - ay) + (az - pz) * (bz - az)) L r t hne hr ht0 ht1
  have ex : ∀ u : K, f3 ax ay az bx by_ bz px py pz u =
      ((ax - px) * (ax - px) + (ay - py) * (ay - py) + (az - pz) * (az - pz)) +
        2 * u * ((ax - px) * (bx - ax) + (ay - py) * (by_ - ay) + (az - pz) * (bz - az)) + u * u * L := by
    intro u; simp only [f3, L]; ring
  refine ⟨fun h => ?_, fun h => ?_, fun h1 h2 => ?_⟩
  · have := key.1 h; rw [ex 0, ex t]; linarith
  · have := key.2.1 h; rw [ex 1, ex t]; linarith
  · have := key.2.2 h1 h2; rw [ex r, ex t]; linarith

/-- Distances are symmetric in the direction of the segment: reversing a↔b maps t to 1−t. -/
theorem C15_direction_symmetric (ax ay bx by_ px py t : K) :
    f2 bx by_ ax ay px py (1 - t) = f2 ax ay bx by_ px py t := by
  simp only [f2]; ring
end field

/-- Non-vacuity: p = (0,2) against the segment (0,0)–(4,0): r = 0 ≤ 0, nearest is the start. -/
example : (0 : Rat) < (4 - 0) * (4 - 0) + (0 - 0) * (0 - 0) ∧
    f2 (0 : Rat) 0 4 0 0 2 0 = 4 := by norm_num [f2]

end GeomVerif.Dist
