/-
C15 — segment to segment in 3-D (and, with the third ordinates zero, non-parallel segments in 2-D):
the minimum of the squared distance |A + s·u − C − t·v|² over the unit square of parameters.

  * `C15_cross_params_critical`: the closest-approach parameters as xyz.DistanceLineToLine computes
    them since the D15 repair (cross products: n = u × v, s = ((r × v)·n)/|n|², t = ((r × u)·n)/|n|²)
    are the critical point of the squared distance; `C15_parallel_params_critical`: so is the
    parallel branch's choice (s = 0, t = d/b or e/c);
  * `C15_critical_is_min`: a critical point is the global minimum over all real parameters;
  * `C15_optimum_on_border`: if that optimum is outside the unit square, every point of the square
    is matched or beaten by a point of its border (convexity along the segment towards the optimum);
  * `C15_segment_segment_3d`: hence the code's rule — the distance at the critical point when both
    parameters are in [0,1], otherwise the least of the four end-point-to-segment distances — is the
    minimum; `gq_border`: the border values are exactly the point-to-segment functions of
    `C15_point_segment_3d`, which proves each of those four minimal on its side.
  * `C15_parallel_on_border`: for parallel segments (2-D and 3-D; the optimum of the carrier lines is
    a whole line of parameters) every point of the square is matched or beaten by a border point.
Left to the oracle: rounding.
-/
import Mathlib.Tactic.Ring
import Mathlib.Tactic.Linarith
import Mathlib.Tactic.FieldSimp
import Mathlib.Tactic.Positivity
import Mathlib.Tactic.LinearCombination
import Mathlib.Algebra.Order.Field.Basic
import GeomVerif.Properties.C15

namespace GeomVerif.Dist

section segseg
variable {K : Type} [Field K] [LinearOrder K] [IsStrictOrderedRing K]

/-- Squared distance between the points at parameters s and t of two lines: with u, v the
directions and w = A − C the offset of the starting points, |w + s·u − t·v|². -/
def gq (ux uy uz vx vy vz wx wy wz s t : K) : K :=
  (wx + s * ux - t * vx) ^ 2 + (wy + s * uy - t * vy) ^ 2 + (wz + s * uz - t * vz) ^ 2

/-- The two partial derivatives (halved): (w + s·u − t·v)·u and (w + s·u − t·v)·v. -/
def gradU (ux uy uz vx vy vz wx wy wz s t : K) : K :=
  (wx + s * ux - t * vx) * ux + (wy + s * uy - t * vy) * uy + (wz + s * uz - t * vz) * uz
def gradV (ux uy uz vx vy vz wx wy wz s t : K) : K :=
  (wx + s * ux - t * vx) * vx + (wy + s * uy - t * vy) * vy + (wz + s * uz - t * vz) * vz

/-- **A critical point is the global minimum** (the squared distance is a convex quadratic). -/
theorem C15_critical_is_min (ux uy uz vx vy vz wx wy wz s0 t0 s t : K)
    (hu : gradU ux uy uz vx vy vz wx wy wz s0 t0 = 0)
    (hv : gradV ux uy uz vx vy vz wx wy wz s0 t0 = 0) :
    gq ux uy uz vx vy vz wx wy wz s0 t0 ≤ gq ux uy uz vx vy vz wx wy wz s t := by
  have key : gq ux uy uz vx vy vz wx wy wz s t
      = gq ux uy uz vx vy vz wx wy wz s0 t0
        + (((s - s0) * ux - (t - t0) * vx) ^ 2 + ((s - s0) * uy - (t - t0) * vy) ^ 2
            + ((s - s0) * uz - (t - t0) * vz) ^ 2)
        + 2 * ((s - s0) * gradU ux uy uz vx vy vz wx wy wz s0 t0
            - (t - t0) * gradV ux uy uz vx vy vz wx wy wz s0 t0) := by
    unfold gq gradU gradV; ring
  rw [key, hu, hv]
  have : 0 ≤ ((s - s0) * ux - (t - t0) * vx) ^ 2 + ((s - s0) * uy - (t - t0) * vy) ^ 2
            + ((s - s0) * uz - (t - t0) * vz) ^ 2 := by positivity
  linarith

/-- **The repaired closest-approach parameters are the critical point**: with n = u × v non-zero
and r = −w = C − A, s = ((r × v)·n)/|n|², t = ((r × u)·n)/|n|² make both derivatives vanish. -/
theorem C15_cross_params_critical (ux uy uz vx vy vz wx wy wz : K)
    (hn : (uy * vz - uz * vy) ^ 2 + (uz * vx - ux * vz) ^ 2 + (ux * vy - uy * vx) ^ 2 ≠ 0) :
    let nx := uy * vz - uz * vy
    let ny := uz * vx - ux * vz
    let nz := ux * vy - uy * vx
    let nn := nx ^ 2 + ny ^ 2 + nz ^ 2
    let rx := -wx; let ry := -wy; let rz := -wz
    let s := ((ry * vz - rz * vy) * nx + (rz * vx - rx * vz) * ny + (rx * vy - ry * vx) * nz) / nn
    let t := ((ry * uz - rz * uy) * nx + (rz * ux - rx * uz) * ny + (rx * uy - ry * ux) * nz) / nn
    gradU ux uy uz vx vy vz wx wy wz s t = 0 ∧ gradV ux uy uz vx vy vz wx wy wz s t = 0 := by
  intro nx ny nz nn rx ry rz s t
  have hnn : nn ≠ 0 := hn
  constructor
  · unfold gradU
    simp only [s, t]
    field_simp
    simp only [nn, nx, ny, nz, rx, ry, rz]
    ring
  · unfold gradV
    simp only [s, t]
    field_simp
    simp only [nn, nx, ny, nz, rx, ry, rz]
    ring

/-- Convexity of the squared distance along any segment of the parameter plane. -/
theorem gq_convex (ux uy uz vx vy vz wx wy wz s t s' t' l : K) (h0 : 0 ≤ l) (h1 : l ≤ 1) :
    gq ux uy uz vx vy vz wx wy wz ((1 - l) * s + l * s') ((1 - l) * t + l * t')
      ≤ (1 - l) * gq ux uy uz vx vy vz wx wy wz s t + l * gq ux uy uz vx vy vz wx wy wz s' t' := by
  have key : (1 - l) * gq ux uy uz vx vy vz wx wy wz s t + l * gq ux uy uz vx vy vz wx wy wz s' t'
      - gq ux uy uz vx vy vz wx wy wz ((1 - l) * s + l * s') ((1 - l) * t + l * t')
      = l * (1 - l) * (((s - s') * ux - (t - t') * vx) ^ 2 + ((s - s') * uy - (t - t') * vy) ^ 2
          + ((s - s') * uz - (t - t') * vz) ^ 2) := by
    unfold gq; ring
  have : 0 ≤ l * (1 - l) * (((s - s') * ux - (t - t') * vx) ^ 2 + ((s - s') * uy - (t - t') * vy) ^ 2
          + ((s - s') * uz - (t - t') * vz) ^ 2) := by
    apply mul_nonneg (mul_nonneg h0 (by linarith)); positivity
  linarith


/-- How far one can go from x ∈ [0,1] towards xs and stay in [0,1]; when xs is outside, the stop is
on the border. -/
theorem hit (x xs : K) (hx0 : 0 ≤ x) (hx1 : x ≤ 1) :
    ∃ l : K, 0 ≤ l ∧ l ≤ 1 ∧
      (∀ m, 0 ≤ m → m ≤ l → 0 ≤ (1 - m) * x + m * xs ∧ (1 - m) * x + m * xs ≤ 1) ∧
      ((xs < 0 ∨ 1 < xs) → ((1 - l) * x + l * xs = 0 ∨ (1 - l) * x + l * xs = 1)) := by
  rcases lt_or_ge xs 0 with hneg | hge
  · have hd : 0 < x - xs := by linarith
    refine ⟨x / (x - xs), div_nonneg hx0 hd.le, by rw [div_le_one hd]; linarith, ?_, ?_⟩
    · intro m hm0 hml
      have hml' : m * (x - xs) ≤ x := by rwa [le_div_iff₀ hd] at hml
      constructor
      · nlinarith
      · nlinarith
    · intro _
      left
      field_simp
      ring
  · rcases lt_or_ge 1 xs with hbig | hle
    · have hd : 0 < xs - x := by linarith
      refine ⟨(1 - x) / (xs - x), div_nonneg (by linarith) hd.le, by rw [div_le_one hd]; linarith, ?_, ?_⟩
      · intro m hm0 hml
        have hml' : m * (xs - x) ≤ 1 - x := by rwa [le_div_iff₀ hd] at hml
        constructor
        · nlinarith
        · nlinarith
      · intro _
        right
        field_simp
        ring
    · refine ⟨1, zero_le_one, le_refl _, ?_, ?_⟩
      · intro m hm0 hm1
        constructor
        · nlinarith
        · nlinarith
      · rintro (h | h) <;> linarith

/-- **When the unconstrained optimum leaves the unit square, the constrained optimum is on its
border**: every point of the square is matched or beaten by a border point (one parameter 0 or 1). -/
theorem C15_optimum_on_border (ux uy uz vx vy vz wx wy wz s0 t0 : K)
    (hmin : ∀ s t, gq ux uy uz vx vy vz wx wy wz s0 t0 ≤ gq ux uy uz vx vy vz wx wy wz s t)
    (hout : s0 < 0 ∨ 1 < s0 ∨ t0 < 0 ∨ 1 < t0)
    (s t : K) (hs0 : 0 ≤ s) (hs1 : s ≤ 1) (ht0 : 0 ≤ t) (ht1 : t ≤ 1) :
    ∃ s' t', 0 ≤ s' ∧ s' ≤ 1 ∧ 0 ≤ t' ∧ t' ≤ 1 ∧ (s' = 0 ∨ s' = 1 ∨ t' = 0 ∨ t' = 1) ∧
      gq ux uy uz vx vy vz wx wy wz s' t' ≤ gq ux uy uz vx vy vz wx wy wz s t := by
  obtain ⟨ls, ls0, ls1, hsIn, hsB⟩ := hit s s0 hs0 hs1
  obtain ⟨lt, lt0, lt1, htIn, htB⟩ := hit t t0 ht0 ht1
  -- go as far as both parameters allow
  have main : ∀ l : K, 0 ≤ l → l ≤ 1 → l ≤ ls → l ≤ lt →
      ((1 - l) * s + l * s0 = 0 ∨ (1 - l) * s + l * s0 = 1 ∨ (1 - l) * t + l * t0 = 0 ∨ (1 - l) * t + l * t0 = 1) →
      ∃ s' t', 0 ≤ s' ∧ s' ≤ 1 ∧ 0 ≤ t' ∧ t' ≤ 1 ∧ (s' = 0 ∨ s' = 1 ∨ t' = 0 ∨ t' = 1) ∧
        gq ux uy uz vx vy vz wx wy wz s' t' ≤ gq ux uy uz vx vy vz wx wy wz s t := by
    intro l l0 l1 lls llt hb
    refine ⟨(1 - l) * s + l * s0, (1 - l) * t + l * t0, (hsIn l l0 lls).1, (hsIn l l0 lls).2,
      (htIn l l0 llt).1, (htIn l l0 llt).2, hb, ?_⟩
    have hc := gq_convex ux uy uz vx vy vz wx wy wz s t s0 t0 l l0 l1
    have hm := hmin s t
    have : l * gq ux uy uz vx vy vz wx wy wz s0 t0 ≤ l * gq ux uy uz vx vy vz wx wy wz s t :=
      mul_le_mul_of_nonneg_left hm l0
    nlinarith
  rcases le_total ls lt with h | h
  · -- the s parameter stops first (or together)
    by_cases hso : s0 < 0 ∨ 1 < s0
    · rcases hsB hso with e | e
      · exact main ls ls0 ls1 (le_refl _) h (Or.inl e)
      · exact main ls ls0 ls1 (le_refl _) h (Or.inr (Or.inl e))
    · -- s0 inside: then t0 is outside, and lt = ls = 1 would put t on the border
      have hto : t0 < 0 ∨ 1 < t0 := by
        rcases hout with h' | h' | h' | h'
        · exact absurd (Or.inl h') hso
        · exact absurd (Or.inr h') hso
        · exact Or.inl h'
        · exact Or.inr h'
      -- use lt itself if lt ≤ ls, else ls = lt is forced below; go with min = ls only if it hits t's border
      by_cases hl : lt ≤ ls
      · have e : ls = lt := le_antisymm h hl
        rcases htB hto with e' | e'
        · exact main lt lt0 lt1 (by rw [e]) (le_refl _) (Or.inr (Or.inr (Or.inl e')))
        · exact main lt lt0 lt1 (by rw [e]) (le_refl _) (Or.inr (Or.inr (Or.inr e')))
      · -- ls < lt with s0 inside: s can go all the way (any m ≤ 1 keeps s in range), so stop at lt
        have hsAll : ∀ m, 0 ≤ m → m ≤ 1 → 0 ≤ (1 - m) * s + m * s0 ∧ (1 - m) * s + m * s0 ≤ 1 := by
          intro m m0 m1
          have a0 : 0 ≤ s0 := by by_contra hh; exact hso (Or.inl (not_le.mp hh))
          have a1 : s0 ≤ 1 := by by_contra hh; exact hso (Or.inr (not_le.mp hh))
          constructor <;> nlinarith
        have hc := gq_convex ux uy uz vx vy vz wx wy wz s t s0 t0 lt lt0 lt1
        have hm := hmin s t
        have hmul : lt * gq ux uy uz vx vy vz wx wy wz s0 t0 ≤ lt * gq ux uy uz vx vy vz wx wy wz s t :=
          mul_le_mul_of_nonneg_left hm lt0
        refine ⟨(1 - lt) * s + lt * s0, (1 - lt) * t + lt * t0, (hsAll lt lt0 lt1).1, (hsAll lt lt0 lt1).2,
          (htIn lt lt0 (le_refl _)).1, (htIn lt lt0 (le_refl _)).2, ?_, by nlinarith⟩
        rcases htB hto with e' | e'
        · exact Or.inr (Or.inr (Or.inl e'))
        · exact Or.inr (Or.inr (Or.inr e'))
  · -- symmetric: the t parameter stops first
    by_cases hto : t0 < 0 ∨ 1 < t0
    · rcases htB hto with e | e
      · exact main lt lt0 lt1 h (le_refl _) (Or.inr (Or.inr (Or.inl e)))
      · exact main lt lt0 lt1 h (le_refl _) (Or.inr (Or.inr (Or.inr e)))
    · have hso : s0 < 0 ∨ 1 < s0 := by
        rcases hout with h' | h' | h' | h'
        · exact Or.inl h'
        · exact Or.inr h'
        · exact absurd (Or.inl h') hto
        · exact absurd (Or.inr h') hto
      have htAll : ∀ m, 0 ≤ m → m ≤ 1 → 0 ≤ (1 - m) * t + m * t0 ∧ (1 - m) * t + m * t0 ≤ 1 := by
        intro m m0 m1
        have a0 : 0 ≤ t0 := by by_contra hh; exact hto (Or.inl (not_le.mp hh))
        have a1 : t0 ≤ 1 := by by_contra hh; exact hto (Or.inr (not_le.mp hh))
        constructor <;> nlinarith
      have hc := gq_convex ux uy uz vx vy vz wx wy wz s t s0 t0 ls ls0 ls1
      have hm := hmin s t
      have hmul : ls * gq ux uy uz vx vy vz wx wy wz s0 t0 ≤ ls * gq ux uy uz vx vy vz wx wy wz s t :=
        mul_le_mul_of_nonneg_left hm ls0
      refine ⟨(1 - ls) * s + ls * s0, (1 - ls) * t + ls * t0, (hsIn ls ls0 (le_refl _)).1, (hsIn ls ls0 (le_refl _)).2,
        (htAll ls ls0 ls1).1, (htAll ls ls0 ls1).2, ?_, by nlinarith⟩
      rcases hsB hso with e' | e'
      · exact Or.inl e'
      · exact Or.inr (Or.inl e')


/-- **Parallel segments**: with u = κ·v (v ≠ 0), the code's choice s = 0, t = d/b when b > c and
e/c otherwise (b = u·v, c = v·v, d = u·w, e = v·w) is a critical point as well. -/
theorem C15_parallel_params_critical (vx vy vz wx wy wz k : K)
    (hc : vx * vx + vy * vy + vz * vz ≠ 0) :
    let ux := k * vx; let uy := k * vy; let uz := k * vz
    let b := ux * vx + uy * vy + uz * vz
    let c := vx * vx + vy * vy + vz * vz
    let d := ux * wx + uy * wy + uz * wz
    let e := vx * wx + vy * wy + vz * wz
    let t := if c < b then d / b else e / c
    gradU ux uy uz vx vy vz wx wy wz 0 t = 0 ∧ gradV ux uy uz vx vy vz wx wy wz 0 t = 0 := by
  intro ux uy uz b c d e t
  have hcpos : 0 < c := by
    have : 0 ≤ c := by
      simp only [c]
      have h1 := mul_self_nonneg vx
      have h2 := mul_self_nonneg vy
      have h3 := mul_self_nonneg vz
      linarith
    exact lt_of_le_of_ne this (Ne.symm hc)
  have hb : b = k * c := by simp only [b, c, ux, uy, uz]; ring
  have hd : d = k * e := by simp only [d, e, ux, uy, uz]; ring
  have gU : ∀ t, gradU ux uy uz vx vy vz wx wy wz 0 t = k * (e - t * c) := by
    intro t; unfold gradU; simp only [e, c, ux, uy, uz]; ring
  have gV : ∀ t, gradV ux uy uz vx vy vz wx wy wz 0 t = e - t * c := by
    intro t; unfold gradV; simp only [e, c]; ring
  have key : e - t * c = 0 := by
    simp only [t]
    split_ifs with hbc
    · have hk : k ≠ 0 := by
        intro h0; rw [hb, h0, zero_mul] at hbc; linarith
      have hbne : b ≠ 0 := by rw [hb]; exact mul_ne_zero hk hc
      rw [hd, hb]; field_simp; ring
    · field_simp; ring
  rw [gU, gV, key]; simp

/-- **C15 — 3-D segment to segment**: given the critical point (s0, t0) of the squared distance
(the closest approach of the two carrier lines, as the code computes it), for every pair of
parameters in the unit square: if the critical point is inside the square its value is the
minimum; otherwise some point with one parameter at 0 or 1 — a point of the border, i.e. an end
point of one segment against the other segment, which is what the four point-to-segment distances
minimise (`C15_point_segment_3d`) — is at least as close. -/
theorem C15_segment_segment_3d (ux uy uz vx vy vz wx wy wz s0 t0 : K)
    (hu : gradU ux uy uz vx vy vz wx wy wz s0 t0 = 0)
    (hv : gradV ux uy uz vx vy vz wx wy wz s0 t0 = 0)
    (s t : K) (hs0 : 0 ≤ s) (hs1 : s ≤ 1) (ht0 : 0 ≤ t) (ht1 : t ≤ 1) :
    ((0 ≤ s0 ∧ s0 ≤ 1 ∧ 0 ≤ t0 ∧ t0 ≤ 1) →
        gq ux uy uz vx vy vz wx wy wz s0 t0 ≤ gq ux uy uz vx vy vz wx wy wz s t) ∧
    (¬ (0 ≤ s0 ∧ s0 ≤ 1 ∧ 0 ≤ t0 ∧ t0 ≤ 1) →
        ∃ s' t', 0 ≤ s' ∧ s' ≤ 1 ∧ 0 ≤ t' ∧ t' ≤ 1 ∧ (s' = 0 ∨ s' = 1 ∨ t' = 0 ∨ t' = 1) ∧
          gq ux uy uz vx vy vz wx wy wz s' t' ≤ gq ux uy uz vx vy vz wx wy wz s t) := by
  have hmin := fun s t => C15_critical_is_min ux uy uz vx vy vz wx wy wz s0 t0 s t hu hv
  refine ⟨fun _ => hmin s t, fun hout => ?_⟩
  apply C15_optimum_on_border ux uy uz vx vy vz wx wy wz s0 t0 hmin _ s t hs0 hs1 ht0 ht1
  by_contra h
  push Not at h
  exact hout ⟨h.1, h.2.1, h.2.2.1, h.2.2.2⟩

/-- The border values are point-to-segment squared distances: parameter s = 0 is the start point
of the first segment against the second segment (f3 of `C15_point_segment_3d`), and likewise for
the other three sides. -/
theorem gq_border (ax ay az bx by_ bz cx cy cz dx dy dz t : K) :
    gq (bx - ax) (by_ - ay) (bz - az) (dx - cx) (dy - cy) (dz - cz) (ax - cx) (ay - cy) (az - cz) 0 t
      = f3 cx cy cz dx dy dz ax ay az t ∧
    gq (bx - ax) (by_ - ay) (bz - az) (dx - cx) (dy - cy) (dz - cz) (ax - cx) (ay - cy) (az - cz) 1 t
      = f3 cx cy cz dx dy dz bx by_ bz t ∧
    gq (bx - ax) (by_ - ay) (bz - az) (dx - cx) (dy - cy) (dz - cz) (ax - cx) (ay - cy) (az - cz) t 0
      = f3 ax ay az bx by_ bz cx cy cz t ∧
    gq (bx - ax) (by_ - ay) (bz - az) (dx - cx) (dy - cy) (dz - cz) (ax - cx) (ay - cy) (az - cz) t 1
      = f3 ax ay az bx by_ bz dx dy dz t := by
  unfold gq f3
  refine ⟨by ring, by ring, by ring, by ring⟩

/-- Moving both parameters along the common direction of two parallel lines (s by λ, t by κ·λ when
u = κ·v) does not change the distance. -/
theorem gq_parallel_shift (vx vy vz wx wy wz k s t l : K) :
    gq (k * vx) (k * vy) (k * vz) vx vy vz wx wy wz (s + l) (t + k * l)
      = gq (k * vx) (k * vy) (k * vz) vx vy vz wx wy wz s t := by
  unfold gq; ring

/-- **C15 — parallel segments (2-D with the third ordinates zero, and 3-D)**: with u = κ·v, v ≠ 0
(the optimum of the carrier lines is a whole line of parameters), every point of the unit square is
matched or beaten by a point of its border — so the least of the four end-point-to-segment
distances, which is what both `xy.DistanceFromLineToLine` (denominator zero) and the parallel
branch of `xyz.DistanceLineToLine` fall back to, is the minimum distance of the two segments. -/
theorem C15_parallel_on_border (vx vy vz wx wy wz k : K)
    (hc : vx * vx + vy * vy + vz * vz ≠ 0)
    (s t : K) (hs0 : 0 ≤ s) (hs1 : s ≤ 1) (ht0 : 0 ≤ t) (ht1 : t ≤ 1) :
    ∃ s' t', 0 ≤ s' ∧ s' ≤ 1 ∧ 0 ≤ t' ∧ t' ≤ 1 ∧ (s' = 0 ∨ s' = 1 ∨ t' = 0 ∨ t' = 1) ∧
      gq (k * vx) (k * vy) (k * vz) vx vy vz wx wy wz s' t'
        ≤ gq (k * vx) (k * vy) (k * vz) vx vy vz wx wy wz s t := by
  obtain ⟨t0, hu, hv⟩ : ∃ t0, gradU (k * vx) (k * vy) (k * vz) vx vy vz wx wy wz 0 t0 = 0 ∧
      gradV (k * vx) (k * vy) (k * vz) vx vy vz wx wy wz 0 t0 = 0 :=
    ⟨_, C15_parallel_params_critical vx vy vz wx wy wz k hc⟩
  -- a critical point outside the square: the same line of optima, two units further along
  have hmin : ∀ s t, gq (k * vx) (k * vy) (k * vz) vx vy vz wx wy wz (0 + 2) (t0 + k * 2)
      ≤ gq (k * vx) (k * vy) (k * vz) vx vy vz wx wy wz s t := by
    intro s t
    rw [gq_parallel_shift]
    exact C15_critical_is_min _ _ _ _ _ _ _ _ _ 0 t0 s t hu hv
  exact C15_optimum_on_border _ _ _ _ _ _ _ _ _ (0 + 2) (t0 + k * 2) hmin
    (Or.inr (Or.inl (by norm_num))) s t hs0 hs1 ht0 ht1

/-- Non-vacuity: two parallel unit segments one unit apart, offset by three along their direction:
the border point (s, t) = (1, 0) — end of the first against start of the second — has distance² 5. -/
example : gq (1 * (1 : ℚ)) (1 * 0) (1 * 0) 1 0 0 (-3) 1 0 1 0 = 5 := by unfold gq; norm_num

/-- Non-vacuity: two skew segments whose closest approach is interior (s = t = 1/2, distance² 1),
and the cross-product parameters for them. -/
example : gradU (2 : ℚ) 0 0 0 2 0 (-1) 1 (-1) (1/2) (1/2) = 0 ∧ gradV (2 : ℚ) 0 0 0 2 0 (-1) 1 (-1) (1/2) (1/2) = 0
    ∧ gq (2 : ℚ) 0 0 0 2 0 (-1) 1 (-1) (1/2) (1/2) = 1 := by
  unfold gradU gradV gq; norm_num

end segseg
end GeomVerif.Dist
