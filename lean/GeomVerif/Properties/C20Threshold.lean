/-
C20 — the threshold claim, for every distance function, size and threshold² ≥ 0 whose
comparison is a strict weak order (no NaN distances):

  C20_loop_is_recursion — the explicit-stack worker, run with the fuel 2·size that
      SimplifyFlatCoords gives it, terminates having marked exactly the recursive split tree;
  C20_retained_members  — the returned indexes are 0, size−1 and the members of that tree;
  C20_threshold         — between two consecutive returned indexes i < j every omitted point k
      satisfies ¬ dist(i, j, k) > threshold²: no omitted point is farther than the threshold
      from the segment joining its nearest retained neighbours.
-/
import GeomVerif.Lemmas.Rdp

namespace GeomVerif.Rdp
variable {δ : Type}

def mask0 (size : Nat) : List Bool := setTrue (setTrue (List.replicate size false) 0) (size - 1)

theorem mask0_length (size : Nat) : (mask0 size).length = size := by
  simp [mask0, setTrue_length]

theorem mask0_getD (size : Nat) (h : 3 ≤ size) (k : Nat) :
    (mask0 size).getD k false = (decide (k = 0) || decide (k = size - 1)) := by
  unfold mask0
  rw [setTrue_getD _ _ _ (by simp [setTrue_length]; omega), setTrue_getD _ _ _ (by simp; omega)]
  simp [List.getD_eq_getElem?_getD]
  by_cases hk : k < size <;> simp [hk]

theorem dpLoop_nil (D : DistOps δ) (F : Nat) (m : List Bool) : dpLoop D F [] m = m := by
  cases F <;> rfl

/-- The worker with fuel 2·size works the whole line off: its result is the marks of the
recursive split tree on top of the two end points. -/
theorem C20_loop_is_recursion (D : DistOps δ) (h0 : D.gt D.zero D.thr2 = false) (size : Nat)
    (h3 : 3 ≤ size) :
    dpLoop D (2 * size) [(0, size - 1)] (mask0 size) = marks D size 0 (size - 1) (mask0 size) := by
  have hc := cost_le D h0 size 0 (size - 1) (by omega) (by omega)
  have : 2 * size = cost D size 0 (size - 1) + (2 * size - cost D size 0 (size - 1)) := by omega
  rw [this, loop_top D h0 size 0 (size - 1) (by omega) (by omega), dpLoop_nil]

/-- The returned indexes are exactly 0, the recursive list, and size − 1. -/
theorem C20_retained_members (D : DistOps δ) (h0 : D.gt D.zero D.thr2 = false) (size : Nat)
    (h3 : 3 ≤ size) (k : Nat) :
    k ∈ simplify D size ↔ k ∈ 0 :: dpList D size 0 (size - 1) ++ [size - 1] := by
  unfold simplify
  rw [if_neg (by omega)]
  have hm := C20_loop_is_recursion D h0 size h3
  unfold mask0 at hm
  simp only [hm, List.mem_filter, List.mem_range]
  have hg := marks_getD D h0 size 0 (size - 1) (by omega) (by omega) (mask0 size)
    (by rw [mask0_length]; omega) k
  unfold mask0 at hg
  rw [hg]
  have h0' := mask0_getD size h3 k
  unfold mask0 at h0'
  rw [h0']
  simp only [Bool.or_eq_true, decide_eq_true_eq, List.mem_cons, List.mem_append,
    List.not_mem_nil, or_false]
  have hb := dpList_mem D h0 size 0 (size - 1) (by omega) (by omega) k
  constructor
  · rintro ⟨_, (h | h) | h⟩
    · exact Or.inl (Or.inl h)
    · exact Or.inr h
    · exact Or.inl (Or.inr h)
  · rintro ((h | h) | h)
    · exact ⟨by omega, Or.inl (Or.inl h)⟩
    · have := hb h
      exact ⟨by omega, Or.inr h⟩
    · exact ⟨by omega, Or.inl (Or.inr h)⟩

/-- **C20 threshold**: for consecutive returned indexes i < j, no omitted point between them is
farther than the threshold from the segment (i, j). -/
theorem C20_threshold (D : DistOps δ) (ord : GtOrder D) (h0 : D.gt D.zero D.thr2 = false)
    (size : Nat) (h3 : 3 ≤ size) (i j : Nat) (hi : i ∈ simplify D size) (hj : j ∈ simplify D size)
    (hij : i < j) (hcons : ∀ k ∈ simplify D size, ¬ (i < k ∧ k < j)) :
    ∀ k, i < k → k < j → D.gt (D.dist i j k) D.thr2 = false := by
  have hmem := C20_retained_members D h0 size h3
  have hsorted : (0 :: dpList D size 0 (size - 1) ++ [size - 1]).Pairwise (· < ·) := by
    have hb := dpList_mem D h0 size 0 (size - 1) (by omega) (by omega)
    rw [List.cons_append, List.pairwise_cons]
    refine ⟨fun b hb' => ?_, ?_⟩
    · rcases List.mem_append.mp hb' with h | h
      · exact (hb b h).1
      · simp only [List.mem_singleton] at h; omega
    · rw [List.pairwise_append]
      refine ⟨dpList_sorted D h0 size 0 (size - 1) (by omega) (by omega), by simp, ?_⟩
      intro a ha b hb'
      simp only [List.mem_singleton] at hb'
      have := (hb a ha).2; omega
  have hadj := adjacent_of_sorted _ hsorted i j ((hmem i).1 hi) ((hmem j).1 hj) hij
    (fun k hk => hcons k ((hmem k).2 hk))
  exact dpList_closed D ord h0 size 0 (size - 1) (by omega) (by omega) (i, j) hadj

/-- For fewer than three points nothing is omitted, so the claim is vacuous there. -/
theorem C20_threshold_small (D : DistOps δ) (size : Nat) (h : size < 3) (k : Nat) (hk : k < size) :
    k ∈ simplify D size := by
  rw [C20_small_all D size h]; exact List.mem_range.2 hk

/-- Non-vacuity: on the integers with the usual `>` (a strict weak order), a zig-zag keeps its
far corner and drops the near one, and the hypotheses of the theorem hold. -/
def exD : DistOps Int :=
  { dist := fun s e k => if (s, e, k) = (0, 4, 2) then 100 else if (s, e, k) = (0, 2, 1) then 1 else 0,
    gt := fun a b => decide (a > b), zero := 0, thr2 := 4 }

example : GtOrder exD :=
  ⟨fun a => by simp [exD], fun a b c h1 h2 => by simp [exD] at *; omega,
   fun a b c h1 h2 => by simp [exD] at *; omega⟩

example : simplify exD 5 = [0, 2, 4] := by decide

end GeomVerif.Rdp
