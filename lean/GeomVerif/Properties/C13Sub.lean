/-
C13 — every vertex of the computed hull is an input coordinate, with all its ordinates.
For every arithmetic, orientation predicate and point-in-ring test (so in particular for the
float64 run the driver mirrors): each stage of getConvexHull — de-duplication, the octagon
reduction for more than 50 points (with its padding), the swap loop and radial sort, the Graham
scan with its stack, ring cleaning, the line-or-polygon decision — only selects and reorders whole
coordinates of its input.  Hence "every vertex is an input point" and "extra ordinates of hull
vertices are carried over from the input" hold for every input of any size.
-/
import GeomVerif.Properties.C13

namespace GeomVerif.Hull
open GeomVerif GeomVerif.Rdp GeomVerif.Locate GeomVerif.Intersect GeomVerif.Dist
variable {α : Type}

theorem foldl_pick {β : Type} (f : β → β → β) (hf : ∀ a b, f a b = a ∨ f a b = b) (l : List β) (a : β) :
    l.foldl f a ∈ a :: l := by
  induction l generalizing a with
  | nil => simp
  | cons b l ih =>
    simp only [List.foldl_cons]
    have := ih (f a b)
    rcases hf a b with h | h <;> rw [h] at this ⊢ <;> simp only [List.mem_cons] at this ⊢
    · rcases this with h1 | h1
      · exact Or.inl h1
      · exact Or.inr (Or.inr h1)
    · rcases this with h1 | h1
      · exact Or.inr (Or.inl h1)
      · exact Or.inr (Or.inr h1)

/-- A fold whose step only keeps what it has and possibly adds the element it is given. -/
theorem foldl_sub_gen (g : List (C α) → C α → List (C α))
    (hg : ∀ acc c x, x ∈ g acc c → x ∈ acc ∨ x = c) (l acc : List (C α)) :
    ∀ x ∈ l.foldl g acc, x ∈ acc ∨ x ∈ l := by
  induction l generalizing acc with
  | nil => intro x hx; exact Or.inl hx
  | cons c l ih =>
    intro x hx
    simp only [List.foldl_cons] at hx
    rcases ih (g acc c) x hx with h | h
    · rcases hg acc c x h with h1 | h1
      · exact Or.inl h1
      · exact Or.inr (by simp [h1])
    · exact Or.inr (by simp [h])

theorem octPts_sub (F : DOps α) (pts : List (C α)) : Sub (octPts F pts) pts := by
  intro c hc
  cases pts with
  | nil => simp [octPts] at hc
  | cons p0 rest =>
    simp only [octPts, List.mem_map] at hc
    obtain ⟨t, _, rfl⟩ := hc
    apply foldl_pick
    intro a b
    by_cases h : t b a <;> simp [h]

theorem octRing_sub (F : DOps α) (pts ring : List (C α)) (h : octRing F pts = some ring) : Sub ring pts := by
  unfold octRing at h
  dsimp only at h
  split at h
  · cases h
  · cases h
    intro x hx
    have := foldl_sub_gen (fun (acc : List (C α)) c =>
      match acc.getLast? with
      | some l => if eqXY F l c then acc else acc ++ [c]
      | none => [c]) (by
        intro acc c x hx
        split at hx
        · split at hx
          · exact Or.inl hx
          · simp only [List.mem_append, List.mem_singleton] at hx; exact hx
        · simp only [List.mem_singleton] at hx; exact Or.inr hx) (octPts F pts) [] x hx
    rcases this with h1 | h1
    · cases h1
    · exact octPts_sub F pts x h1

theorem mem_insertSorted' (less : C α → C α → Bool) (c x : C α) (l : List (C α))
    (h : x ∈ insertSorted less c l) : x ∈ l ∨ x = c := by
  have := (mem_insertSorted less c x l).1 h
  rcases this with h1 | h1
  · exact Or.inr h1
  · exact Or.inl h1

theorem closeRing_sub (F : DOps α) (ring : List (C α)) : Sub (closeRing F ring) ring := by
  intro x hx
  unfold closeRing at hx
  split at hx
  · rename_i h l hh hl
    split at hx
    · exact hx
    · simp only [List.mem_append, List.mem_singleton] at hx
      rcases hx with h1 | h1
      · exact h1
      · subst h1
        cases ring with
        | nil => simp at hh
        | cons r0 rr => simp only [List.head?_cons, Option.some.injEq] at hh; subst hh; simp
  · exact hx

theorem treeIns_mem (F : DOps α) (set : List (C α)) (c x : C α) (hx : x ∈ treeIns F set c) :
    x ∈ set ∨ x = c := by
  unfold treeIns at hx
  split at hx
  · exact Or.inl hx
  · exact mem_insertSorted' _ _ _ _ hx

theorem padTo3_sub (set : List (C α)) : Sub (padTo3 set) set := by
  intro x hx
  unfold padTo3 at hx
  split at hx
  · split at hx
    · exact hx
    · simp only [List.mem_append, List.mem_replicate] at hx
      rcases hx with h1 | ⟨_, h1⟩
      · exact h1
      · subst h1; simp
  · exact hx

theorem reduce_sub (F : DOps α) (inRing : P α → List (P α) → Bool) (pts : List (C α)) :
    Sub (reduce F inRing pts) pts := by
  unfold reduce
  split
  · exact fun _ h => h
  · rename_i ring hring
    have hrs := octRing_sub F pts ring hring
    have hclosed : Sub (closeRing F ring) pts := (closeRing_sub F ring).trans hrs
    dsimp only
    refine (padTo3_sub _).trans ?_
    intro x hx
    rcases foldl_sub_gen _ (by
      intro acc c x hx
      split at hx
      · exact Or.inl hx
      · exact treeIns_mem F acc c x hx) pts _ x hx with h1 | h1
    · rcases foldl_sub_gen _ (treeIns_mem F) (closeRing F ring) [] x h1 with h2 | h2
      · cases h2
      · exact hclosed x h2
    · exact h1

theorem swapFold_mem (F : DOps α) (rest : List (C α)) (st : C α × List (C α)) :
    ∀ x, x ∈ ((rest.foldl (swapStep F) st).1 :: (rest.foldl (swapStep F) st).2) →
      x ∈ st.1 :: st.2 ∨ x ∈ rest := by
  induction rest generalizing st with
  | nil => intro x hx; exact Or.inl hx
  | cons c rest ih =>
    intro x hx
    simp only [List.foldl_cons] at hx
    rcases ih (swapStep F st c) x hx with h | h
    · unfold swapStep at h
      split at h <;>
        simp only [List.mem_cons, List.mem_append, List.not_mem_nil, or_false] at h ⊢ <;>
        rcases h with h | h | h <;> simp [h]
    · exact Or.inr (by simp [h])

theorem preSort_sub (F : DOps α) (orient : P α → P α → P α → Int) (pts : List (C α)) :
    Sub (preSort F orient pts) pts := by
  unfold preSort
  split
  · exact fun _ h => h
  · rename_i p0 rest
    dsimp only
    refine (sortBy_sub _ _).trans ?_
    intro x hx
    rcases swapFold_mem F rest (p0, []) x hx with h | h
    · simp only [List.mem_cons, List.not_mem_nil, or_false] at h; simp [h]
    · simp [h]

theorem popFold_mem (F : DOps α) (orient : P α → P α → P α → Int) (q : C α) (n : List Nat)
    (st : C α × List (C α) × Bool) :
    ∀ x, x ∈ ((n.foldl (fun st _ => popStep F orient q st) st).1 ::
              (n.foldl (fun st _ => popStep F orient q st) st).2.1) → x ∈ st.1 :: st.2.1 := by
  induction n generalizing st with
  | nil => intro x hx; exact hx
  | cons k n ih =>
    intro x hx
    simp only [List.foldl_cons] at hx
    have h := ih (popStep F orient q st) x hx
    unfold popStep at h
    split at h
    · exact h
    · split at h
      · rename_i top below heq
        split at h
        · rw [heq]; simp only [List.mem_cons] at h ⊢; rcases h with h | h
          · exact Or.inr (Or.inl h)
          · exact Or.inr (Or.inr h)
        · exact h
      · exact h

theorem scanStep_mem (F : DOps α) (orient : P α → P α → P α → Int) (stack : List (C α)) (q x : C α)
    (hx : x ∈ scanStep F orient stack q) : x ∈ stack ∨ x = q := by
  unfold scanStep at hx
  split at hx
  · rename_i p below
    dsimp only at hx
    simp only [List.mem_cons] at hx
    rcases hx with h | h
    · exact Or.inr h
    · have := popFold_mem F orient q (List.range (below.length + 1)) (p, below, false) x
        (by unfold popWhile at h; simpa using h)
      exact Or.inl (by simpa using this)
  · simp only [List.mem_singleton] at hx; exact Or.inr hx

theorem grahamScan_sub (F : DOps α) (orient : P α → P α → P α → Int) (pts : List (C α)) :
    Sub (grahamScan F orient pts) pts := by
  unfold grahamScan
  split
  · rename_i a b c rest
    intro x hx
    simp only [List.mem_reverse, List.mem_cons] at hx
    rcases hx with h | h
    · simp [h]
    · rcases foldl_sub_gen _ (scanStep_mem F orient) rest [c, b, a] x h with h1 | h1
      · simp only [List.mem_cons, List.not_mem_nil, or_false] at h1
        rcases h1 with h1 | h1 | h1 <;> simp [h1]
      · simp [h1]
  · exact fun _ h => h

/-! ### The scan returns a closed ring that starts and ends at the focal point -/

theorem popFold_last (F : DOps α) (orient : P α → P α → P α → Int) (q : C α) (n : List Nat)
    (st : C α × List (C α) × Bool) :
    ((n.foldl (fun st _ => popStep F orient q st) st).1 ::
      (n.foldl (fun st _ => popStep F orient q st) st).2.1).getLast (by simp)
      = (st.1 :: st.2.1).getLast (by simp) := by
  induction n generalizing st with
  | nil => rfl
  | cons k n ih =>
    simp only [List.foldl_cons]
    rw [ih (popStep F orient q st)]
    unfold popStep
    split
    · rfl
    · split
      · rename_i top below heq
        split
        · simp only [heq, List.getLast_cons_cons]
        · rfl
      · rfl

theorem scanStep_last (F : DOps α) (orient : P α → P α → P α → Int) (stack : List (C α)) (q : C α)
    (hne : stack ≠ []) :
    ∃ hne' : scanStep F orient stack q ≠ [],
      (scanStep F orient stack q).getLast hne' = stack.getLast hne := by
  cases stack with
  | nil => exact absurd rfl hne
  | cons p below =>
    refine ⟨by simp [scanStep], ?_⟩
    simp only [scanStep, popWhile]
    rw [List.getLast_cons (by simp)]
    exact popFold_last F orient q (List.range (below.length + 1)) (p, below, false)

theorem scanFold_last (F : DOps α) (orient : P α → P α → P α → Int) (rest stack : List (C α))
    (hne : stack ≠ []) :
    ∃ hne' : rest.foldl (scanStep F orient) stack ≠ [],
      (rest.foldl (scanStep F orient) stack).getLast hne' = stack.getLast hne := by
  induction rest generalizing stack with
  | nil => exact ⟨hne, rfl⟩
  | cons q rest ih =>
    obtain ⟨h1, e1⟩ := scanStep_last F orient stack q hne
    obtain ⟨h2, e2⟩ := ih (scanStep F orient stack q) h1
    exact ⟨h2, by simp only [List.foldl_cons]; rw [e2, e1]⟩

/-- **The Graham scan returns a closed ring**: with at least three points its result starts with the
first point it was given (the focal point, lowest then leftmost, after the pre-sort) and ends with
that same coordinate — whatever the orientation predicate answers. -/
theorem C13_scan_closed (F : DOps α) (orient : P α → P α → P α → Int) (a b c : C α) (rest : List (C α)) :
    (grahamScan F orient (a :: b :: c :: rest)).head? = some a ∧
    (grahamScan F orient (a :: b :: c :: rest)).getLast? = some a := by
  obtain ⟨hne, hl⟩ := scanFold_last F orient rest [c, b, a] (by simp)
  simp only [grahamScan]
  constructor
  · rw [List.head?_reverse, List.getLast?_cons_of_ne_nil hne, List.getLast?_eq_some_getLast hne, hl]
    rfl
  · simp [List.getLast?_reverse]

/-- The coordinates of a result. -/
def HullResult.verts : HullResult α → List (C α)
  | .nil => []
  | .point c => [c]
  | .line cs => cs
  | .polygon ring => ring

/-- **Every vertex of the hull is an input coordinate, with all its ordinates** — for every input
(any size, any duplication), every arithmetic, orientation predicate and point-in-ring test. -/
theorem C13_vertices_are_inputs (F : DOps α) (orient : P α → P α → P α → Int)
    (inRing : P α → List (P α) → Bool) (input : List (C α)) :
    Sub (convexHull F orient inRing input).verts input := by
  have hu : Sub (uniqueCoords F [] input) input := by simpa using uniqueCoords_sub F [] input
  unfold convexHull
  split
  · intro x hx; simp [HullResult.verts] at hx
  · dsimp only
    split
    · rename_i p hp
      intro x hx
      simp only [HullResult.verts, List.mem_singleton] at hx
      subst hx
      exact hu _ (by rw [hp]; simp)
    · rename_i p q hpq
      intro x hx
      simp only [HullResult.verts] at hx
      exact hu x (by rw [hpq]; exact hx)
    · have hred : Sub (if (uniqueCoords F [] input).length > 50 then reduce F inRing (uniqueCoords F [] input)
          else uniqueCoords F [] input) input := by
        split
        · exact (reduce_sub F inRing _).trans hu
        · exact hu
      have key : ∀ R : List (C α), Sub R input →
          Sub (HullResult.verts
            (if (cleanRing F orient (grahamScan F orient (preSort F orient R))).length = 3
             then HullResult.line ((cleanRing F orient (grahamScan F orient (preSort F orient R))).take 2)
             else HullResult.polygon (cleanRing F orient (grahamScan F orient (preSort F orient R))))) input := by
        intro R hR
        have hclean := ((cleanRing_sub F orient _).trans (grahamScan_sub F orient _)).trans
          ((preSort_sub F orient _).trans hR)
        split
        · intro x hx
          simp only [HullResult.verts] at hx
          exact hclean x (List.mem_of_mem_take hx)
        · intro x hx
          simp only [HullResult.verts] at hx
          exact hclean x hx
      exact key _ hred

/-- Non-vacuity: the theorem speaks about a result with vertices (a triangle over ℤ-like data is
built by the driver's own instance; here the statement is instantiated at a concrete input length). -/
example (F : DOps α) (orient : P α → P α → P α → Int) (inRing : P α → List (P α) → Bool)
    (a b : C α) (h : uniqueCoords F [] [a, b, a] = [a, b]) :
    convexHull F orient inRing [a, b, a] = .line [a, b] :=
  ((C13_dispatch F orient inRing [a, b, a] (by simp)).2 a b h).1

end GeomVerif.Hull
