/-
C04 — every geometry the decoders return is structurally well formed, for every byte string,
format, empty-point mode and limit setting: Points hold zero or one coordinate, every flat array
is a whole number of coordinates of the layout, end offsets are stride-aligned, non-decreasing
and finish at the end of the coordinates, MultiPoint members are empty or one coordinate, and the
same holds recursively for the members of collections (C04_read_wellFormed).
-/
import GeomVerif.Properties.C04

namespace GeomVerif.Wkb
open GeomVerif

mutual
/-- Structural well-formedness (C01's wording) of a decoded value, recursively. -/
def WGeom.wf : WGeom → Bool
  | .point g => g.wellFormedPoint
  | .lineString g => g.wellFormed
  | .polygon g => g.wellFormed
  | .multiLineString g => g.wellFormed
  | .multiPoint g => g.wellFormed && mpointEndsOK g.stride g.ends 0
  | .multiPolygon g => g.wellFormed
  | .collection _ _ gs => WGeom.wfs gs
def WGeom.wfs : List WGeom → Bool
  | [] => true
  | g :: gs => g.wf && WGeom.wfs gs
end

theorem wfs_append (gs : List WGeom) (m : WGeom) :
    WGeom.wfs (gs ++ [m]) = (WGeom.wfs gs && m.wf) := by
  induction gs with
  | nil => simp [WGeom.wfs]
  | cons g gs ih => simp [WGeom.wfs, ih, Bool.and_assoc]

/-! ### End-offset chains -/

theorem endsOK_append (s : Nat) (a b : List Nat) (off mid len : Nat)
    (ha : endsOK s a off mid = true) (hb : endsOK s b mid len = true) :
    endsOK s (a ++ b) off len = true := by
  induction a generalizing off with
  | nil => simp only [endsOK, beq_iff_eq] at ha; subst ha; exact hb
  | cons e es ih =>
    simp only [endsOK, Bool.and_eq_true, decide_eq_true_eq] at ha
    simp only [List.cons_append, endsOK, ha.1.1, ha.1.2, decide_true, Bool.true_and]
    exact ih e ha.2

theorem endsOK_le (s : Nat) (es : List Nat) (off len : Nat) (h : endsOK s es off len = true) :
    off ≤ len := by
  induction es generalizing off with
  | nil => simp only [endsOK, beq_iff_eq] at h; omega
  | cons e es ih =>
    simp only [endsOK, Bool.and_eq_true, decide_eq_true_eq] at h
    have := ih e h.2; omega

theorem endsOK_shift (s : Nat) (es : List Nat) (off len k : Nat) (hk : aligned s k = true)
    (h : endsOK s es off len = true) : endsOK s (es.map (· + k)) (off + k) (len + k) = true := by
  induction es generalizing off with
  | nil => simp only [endsOK, beq_iff_eq] at h; subst h; simp [endsOK]
  | cons e es ih =>
    simp only [endsOK, Bool.and_eq_true, decide_eq_true_eq] at h
    simp only [List.map_cons, endsOK, Bool.and_eq_true, decide_eq_true_eq]
    exact ⟨⟨aligned_add _ _ _ h.1.1 hk, by omega⟩, ih e h.2⟩

theorem endsOK_snoc (s : Nat) (es : List Nat) (off len len' : Nat)
    (h : endsOK s es off len = true) (hle : len ≤ len') (ha : aligned s len' = true) :
    endsOK s (es ++ [len']) off len' = true :=
  endsOK_append s es [len'] off len len' h (by simp [endsOK, ha, hle])

theorem mpointEndsOK_snoc (s : Nat) (es : List Nat) (off len len' : Nat)
    (hm : mpointEndsOK s es off = true) (h : endsOK s es off len = true)
    (hl : len' = len ∨ len' = len + s) : mpointEndsOK s (es ++ [len']) off = true := by
  induction es generalizing off with
  | nil =>
    simp only [endsOK, beq_iff_eq] at h; subst h
    rcases hl with rfl | rfl <;> simp [mpointEndsOK]
  | cons e es ih =>
    simp only [endsOK, Bool.and_eq_true, decide_eq_true_eq] at h
    simp only [mpointEndsOK, Bool.and_eq_true] at hm
    simp only [List.cons_append, mpointEndsOK, hm.1, Bool.true_and]
    exact ih e hm.2 h.2

/-! ### Push keeps the accumulated multi geometry well formed -/

theorem aligned_stride (s : Nat) : aligned s s = true := by
  unfold aligned; split <;> simp_all

theorem mpointPush_wf (g g' : G2 Ord) (p : G1 Ord)
    (hg : (g.wellFormed && mpointEndsOK g.stride g.ends 0) = true) (hp : p.wellFormedPoint = true)
    (h : MPoint.push g p = .ok g') :
    (g'.wellFormed && mpointEndsOK g'.stride g'.ends 0) = true := by
  unfold MPoint.push at h
  split at h
  · cases h
  · rename_i hl
    simp only [ne_eq, Decidable.not_not] at hl
    simp only [Outcome.ok.injEq] at h
    subst h
    simp only [G2.wellFormed, G1.wellFormedPoint, Bool.and_eq_true, beq_iff_eq, Bool.or_eq_true] at hg hp ⊢
    obtain ⟨⟨⟨hs, ha⟩, he⟩, hm⟩ := hg
    obtain ⟨hps, hpl⟩ := hp
    have hst : p.stride = g.stride := by rw [hps, hs, hl]
    by_cases hemp : p.flat.isEmpty = true
    · simp only [hemp, if_true]
      exact ⟨⟨⟨hs, ha⟩, endsOK_snoc _ _ _ _ _ he (Nat.le_refl _) ha⟩,
        mpointEndsOK_snoc _ _ _ _ _ hm he (Or.inl rfl)⟩
    · have hne : p.flat.length ≠ 0 := by
        intro h0; apply hemp; simp [List.eq_nil_of_length_eq_zero h0]
      have hlen : p.flat.length = g.stride := by
        rcases hpl with h0 | h1
        · exact absurd h0 hne
        · rw [h1, hst]
      simp only [hemp, Bool.false_eq_true, if_false, List.length_append, hlen]
      have ha' : aligned g.stride (g.flat.length + g.stride) = true :=
        aligned_add _ _ _ ha (aligned_stride _)
      exact ⟨⟨⟨hs, ha'⟩, endsOK_snoc _ _ _ _ _ he (by omega) ha'⟩,
        mpointEndsOK_snoc _ _ _ _ _ hm he (Or.inr rfl)⟩

theorem g2Push_wf (g g' : G2 Ord) (p : G1 Ord) (hg : g.wellFormed = true) (hp : p.wellFormed = true)
    (h : g.push p = .ok g') : g'.wellFormed = true := by
  unfold G2.push at h
  split at h
  · cases h
  · rename_i hl
    simp only [ne_eq, Decidable.not_not] at hl
    simp only [Outcome.ok.injEq] at h
    subst h
    simp only [G2.wellFormed, G1.wellFormed, Bool.and_eq_true, beq_iff_eq] at hg hp ⊢
    obtain ⟨⟨hs, ha⟩, he⟩ := hg
    obtain ⟨hps, hpa⟩ := hp
    have hst : p.stride = g.stride := by rw [hps, hs, hl]
    rw [hst] at hpa
    have ha' : aligned g.stride (g.flat ++ p.flat).length = true := by
      rw [List.length_append]; exact aligned_add _ _ _ ha hpa
    exact ⟨⟨hs, ha'⟩, endsOK_snoc _ _ _ _ _ he (by simp) ha'⟩

theorem g3Push_wf (g g' : G3 Ord) (p : G2 Ord) (hg : g.wellFormed = true) (hp : p.wellFormed = true)
    (h : g.push p = .ok g') : g'.wellFormed = true := by
  unfold G3.push at h
  split at h
  · cases h
  · rename_i hl
    simp only [ne_eq, Decidable.not_not] at hl
    simp only [Outcome.ok.injEq] at h
    subst h
    simp only [G3.wellFormed, G2.wellFormed, Bool.and_eq_true, beq_iff_eq] at hg hp ⊢
    obtain ⟨⟨hs, ha⟩, he⟩ := hg
    obtain ⟨⟨hps, hpa⟩, hpe⟩ := hp
    have hst : p.stride = g.stride := by rw [hps, hs, hl]
    rw [hst] at hpa hpe
    have ha' : aligned g.stride (g.flat ++ p.flat).length = true := by
      rw [List.length_append]; exact aligned_add _ _ _ ha hpa
    refine ⟨⟨hs, ha'⟩, ?_⟩
    simp only [List.flatten_append, List.flatten_cons, List.flatten_nil, List.append_nil,
      List.length_append]
    have hsh := endsOK_shift g.stride p.ends 0 p.flat.length g.flat.length ha hpe
    simp only [Nat.zero_add] at hsh
    rw [Nat.add_comm p.flat.length] at hsh
    exact endsOK_append _ _ _ 0 _ _ he hsh

/-! ### Postconditions through the reader -/

def Post {β : Type} (P : β → Prop) (x : Outcome β) : Prop := ∀ b, x = .ok b → P b

theorem post_ok {β} {P : β → Prop} {b : β} (h : P b) : Post P (.ok b) := by
  intro b' hb; cases hb; exact h
theorem post_err {β} {P : β → Prop} (e : Err) : Post P (.err e : Outcome β) := by
  intro b hb; cases hb
theorem post_bind {β γ} {x : Outcome β} {f : β → Outcome γ} {P : β → Prop} {Q : γ → Prop}
    (hx : Post P x) (hf : ∀ b, P b → Post Q (f b)) : Post Q (x >>= f) := by
  cases x with
  | ok b => exact hf b (hx b rfl)
  | err e => intro c hc; cases hc
  | panic m => intro c hc; cases hc
theorem post_ite {β} {P : β → Prop} {c : Prop} [Decidable c] {a b : Outcome β}
    (ha : Post P a) (hb : Post P b) : Post P (if c then a else b) := by split <;> assumption
theorem post_any {β} (x : Outcome β) : Post (fun _ => True) x := fun _ _ => trivial

theorem post_readFold {σ : Type} (rd : RS → Outcome (WGeom × RS)) (step : σ → WGeom → Outcome σ)
    (I : σ → Prop) (hrd : ∀ s, Post (fun r => r.1.wf = true) (rd s))
    (hstep : ∀ a g, I a → g.wf = true → Post I (step a g)) (k : Nat) :
    ∀ (a : σ) (s : RS), I a → Post (fun r => I r.1) (readFold rd step k a s) := by
  induction k with
  | zero => intro a s ha; exact post_ok ha
  | succ k ih =>
    intro a s ha
    unfold readFold
    refine post_bind (hrd s) fun r hr => ?_
    exact post_bind (hstep a r.1 ha hr) fun a' ha' => ih a' r.2 ha'

theorem pointMaybeEmpty_wf (l : Layout) (fs : List Ord) (h : fs.length = l.stride) :
    (pointMaybeEmpty l fs).wellFormedPoint = true := by
  unfold pointMaybeEmpty
  split <;> simp [G1.wellFormedPoint, h]

/-- **Every decoded geometry is well formed** — all seven types, nested collections included, for
every input, format, empty-point mode, limit setting. -/
theorem C04_read_wellFormed (ewkb nanMode : Bool) (lim : Limits) (fuel : Nat) :
    ∀ s : RS, Post (fun r => r.1.wf = true) (readGeom ewkb nanMode lim fuel s) := by
  induction fuel with
  | zero => intro s; exact post_err _
  | succ fuel ih =>
    intro s
    unfold readGeom
    refine post_bind (post_any _) fun p _ => ?_
    refine post_bind (post_any _) fun ndr _ => ?_
    refine post_bind (post_any _) fun q _ => ?_
    refine post_bind (post_any _) fun hdr _ => ?_
    obtain ⟨l, base, srid, rest⟩ := hdr
    simp only
    refine post_ite ?_ (post_ite ?_ (post_ite ?_ (post_ite ?_ (post_ite ?_ (post_ite ?_
      (post_ite ?_ (post_err _)))))))
    · -- Point
      intro r hr
      cases hf : readFloats ndr l.stride rest with
      | err e => rw [hf] at hr; cases hr
      | panic m => rw [hf] at hr; cases hr
      | ok fr =>
        obtain ⟨fs, rest'⟩ := fr
        rw [hf] at hr
        simp only [Outcome.bind_ok, Outcome.ok.injEq] at hr
        subst hr
        have hlen := readFloats_length ndr _ _ fs rest' hf
        simp only [WGeom.wf]
        split
        · have := pointMaybeEmpty_wf l fs hlen
          simpa [G1.wellFormedPoint] using this
        · simp [G1.wellFormedPoint, hlen]
    · -- LineString
      intro r hr
      cases hf : readFlatCoords1 lim ndr l.stride ⟨rest, s.alloc⟩ with
      | err e => rw [hf] at hr; cases hr
      | panic m => rw [hf] at hr; cases hr
      | ok fr =>
        obtain ⟨fs, s1⟩ := fr
        rw [hf] at hr
        simp only [Outcome.bind_ok, Outcome.ok.injEq] at hr
        subst hr
        exact C04_lineString_wellFormed lim ndr l srid _ s1 fs hf
    · -- Polygon
      intro r hr
      cases hf : readFlatCoords2 lim ndr l.stride ⟨rest, s.alloc⟩ with
      | err e => rw [hf] at hr; cases hr
      | panic m => rw [hf] at hr; cases hr
      | ok fr =>
        obtain ⟨fs, ends, s1⟩ := fr
        rw [hf] at hr
        simp only [Outcome.bind_ok, Outcome.ok.injEq] at hr
        subst hr
        exact C04_polygon_wellFormed lim ndr l srid _ s1 fs ends hf
    · -- MultiPoint
      refine post_bind (post_any _) fun r _ => post_ite (post_err _) ?_
      refine post_bind (post_readFold _ _
        (fun g : G2 Ord => (g.wellFormed && mpointEndsOK g.stride g.ends 0) = true) ih ?_ _ _ _
        (by simp [G2.wellFormed, aligned, endsOK, mpointEndsOK])) fun a ha => post_ok (by simpa [WGeom.wf] using ha)
      intro a g ha hg
      split
      · intro a' h'; exact mpointPush_wf a a' _ ha (by simpa [WGeom.wf] using hg) h'
      · exact post_err _
    · -- MultiLineString
      refine post_bind (post_any _) fun r _ => post_ite (post_err _) ?_
      refine post_bind (post_readFold _ _ (fun g : G2 Ord => g.wellFormed = true) ih ?_ _ _ _
        (by simp [G2.wellFormed, aligned, endsOK])) fun a ha => post_ok (by simpa [WGeom.wf] using ha)
      intro a g ha hg
      split
      · intro a' h'; exact g2Push_wf a a' _ ha (by simpa [WGeom.wf] using hg) h'
      · exact post_err _
    · -- MultiPolygon
      refine post_bind (post_any _) fun r _ => post_ite (post_err _) ?_
      refine post_bind (post_readFold _ _ (fun g : G3 Ord => g.wellFormed = true) ih ?_ _ _ _
        (by simp [G3.wellFormed, aligned, endsOK])) fun a ha => post_ok (by simpa [WGeom.wf] using ha)
      intro a g ha hg
      split
      · intro a' h'; exact g3Push_wf a a' _ ha (by simpa [WGeom.wf] using hg) h'
      · exact post_err _
    · -- GeometryCollection
      refine post_bind (post_any _) fun r _ => post_ite (post_err _) ?_
      refine post_bind (post_readFold _ _ (fun gs : List WGeom => WGeom.wfs gs = true) ih ?_ _ _ _
        (by simp [WGeom.wfs])) fun a ha => post_ok (by simpa [WGeom.wf] using ha)
      intro a g ha hg
      exact post_ok (by rw [wfs_append, ha, hg]; rfl)

/-- Corollary for the public entry points: what `wkb.Unmarshal` / `ewkb.Unmarshal` return is well
formed. -/
theorem C04_unmarshal_wellFormed (nanMode : Bool) (lim : Limits) (bs : List Byte) (g : WGeom) (s : RS) :
    (readWkb nanMode lim bs = .ok (g, s) → g.wf = true) ∧
    (readEwkb lim bs = .ok (g, s) → g.wf = true) :=
  ⟨fun h => C04_read_wellFormed false nanMode lim _ _ (g, s) h,
   fun h => C04_read_wellFormed true false lim _ _ (g, s) h⟩

end GeomVerif.Wkb
