/-
C02 — MultiPoint part of the property: every finite history of Push (points, empty points,
wrong-layout points), Reverse, Swap, Clone/fork, Num, Point(i), Coords on a MultiPoint observes
what the list-of-parts specification observes.  The representation invariant views each member as
a part of zero or one coordinate, so the Polygon/MultiLineString lemmas apply.
-/
import GeomVerif.Properties.C02
import GeomVerif.Properties.C01

namespace GeomVerif.C02
open GeomVerif
variable {α : Type}

/-- A member as a part of zero or one coordinate. -/
def asParts (ps : List (Option (List α))) : List (List (List α)) := ps.map Option.toList

theorem asParts_flatten (ps : List (Option (List α))) : (asParts ps).flatten = somes ps := by
  induction ps with
  | nil => rfl
  | cons p ps ih => cases p <;> simp_all [asParts, somes]

theorem asParts_ends (off : Nat) (ps : List (Option (List α))) :
    endsOf off (asParts ps) = mpEndsOf off ps := by
  induction ps generalizing off with
  | nil => rfl
  | cons p ps ih =>
    cases p with
    | none => simp [asParts, endsOf, mpEndsOf, ← ih, asParts]
    | some c => simp [asParts, endsOf, mpEndsOf, ← ih, asParts]

theorem asParts_reverse (ps : List (Option (List α))) :
    (asParts ps).map List.reverse = asParts ps := by
  induction ps with
  | nil => rfl
  | cons p ps ih => cases p <;> simp_all [asParts]

/-- Representation invariant of MultiPoint. -/
def MPRep (g : G2 α) (s : Parts (Option (List α))) : Prop :=
  g.layout = s.layout ∧ g.stride = s.layout.stride ∧
  g.flat = (somes s.parts).flatten ∧ g.ends = mpEndsOf 0 s.parts ∧
  (∀ c ∈ somes s.parts, c.length = s.layout.stride) ∧ 0 < s.layout.stride

/-- A pushed point is valid when it is empty or has the dimension of its layout. -/
def MPValid (l : Layout) (c : Option (List α)) : Prop := ∀ v, c = some v → v.length = l.stride

theorem somes_append (ps qs : List (Option (List α))) : somes (ps ++ qs) = somes ps ++ somes qs := by
  induction ps with
  | nil => rfl
  | cons p ps ih => cases p <;> simp_all [somes]

theorem mpEndsOf_append (off : Nat) (ps qs : List (Option (List α))) :
    mpEndsOf off (ps ++ qs) = mpEndsOf off ps ++ mpEndsOf (off + (somes ps).flatten.length) qs := by
  rw [← asParts_ends, ← asParts_ends, ← asParts_ends, asParts, List.map_append, endsOf_append,
    ← asParts, ← asParts, asParts_flatten]

theorem mpEndsOf_length (off : Nat) (ps : List (Option (List α))) :
    (mpEndsOf off ps).length = ps.length := by
  rw [← asParts_ends, endsOf_length, asParts, List.length_map]

theorem mem_somes (ps : List (Option (List α))) (v : List α) (h : some v ∈ ps) : v ∈ somes ps := by
  induction ps with
  | nil => cases h
  | cons q qs ih =>
    rcases List.mem_cons.mp h with h' | h'
    · subst h'; simp [somes]
    · cases q <;> simp [somes, ih h']

theorem mpoint_simulation : Simulation (mpointModel (α := α)) mpointSpec MPRep MPValid where
  push := by
    intro a b l p ⟨hl, hst, hf, he, hall, hpos⟩ hv
    simp only [mpointModel, mpointSpec, MPoint.push, hl]
    by_cases hne : l = b.layout
    · subst hne
      simp only [ne_eq, not_true_eq_false, if_false, OutRel]
      cases p with
      | none =>
        refine ⟨rfl, hst, ?_, ?_, ?_, hpos⟩
        · simp [somes_append, somes, hf]
        · simp [mpEndsOf_append, mpEndsOf, he, hf]
        · intro c hc; exact hall c (by simpa [somes_append, somes] using hc)
      | some v =>
        have hvl : v.length = b.layout.stride := hv v rfl
        have hne : v ≠ [] := by intro e; rw [e] at hvl; simp at hvl; omega
        have hemp : v.isEmpty = false := by cases v <;> simp_all
        refine ⟨rfl, hst, ?_, ?_, ?_, hpos⟩
        · simp [somes_append, somes, hf, hemp]
        · simp [mpEndsOf_append, mpEndsOf, he, hf, hemp]
        · intro c hc
          simp only [somes_append, somes, List.mem_append, List.mem_singleton] at hc
          rcases hc with hc | hc
          · exact hall c hc
          · rw [hc]; exact hvl
    · simp [hne, OutRel]
  rev := by
    intro a b ⟨hl, hst, hf, he, hall, hpos⟩
    simp only [mpointModel, mpointSpec, G2.reverse]
    have hall' : ∀ c ∈ (asParts b.parts).flatten, c.length = b.layout.stride := by
      rw [asParts_flatten]; exact hall
    have := reverse2_ok [] [] (asParts b.parts) b.layout.stride hpos hall'
    simp only [List.nil_append, List.append_nil, List.length_nil, asParts_reverse, asParts_ends,
      asParts_flatten] at this
    rw [hf, he, hst, this]
    simp only [Outcome.bind_ok, OutRel]
    exact ⟨hl, rfl, rfl, rfl, hall, hpos⟩
  num := by
    intro a b ⟨_, _, _, he, _, _⟩
    simp [mpointModel, mpointSpec, G2.num, he, mpEndsOf_length]
  coords := by
    intro a b ⟨hl, hst, hf, he, hall, hpos⟩
    simp only [mpointModel, mpointSpec]
    have := mpCoordsLoop_ok [] [] b.parts b.layout.stride hpos hall
    simp only [List.nil_append, List.append_nil, List.length_nil] at this
    simp only [MPoint.coords, hf, he, hst]
    exact this
  part := by
    intro a b i ⟨hl, hst, hf, he, hall, hpos⟩
    simp only [mpointModel, mpointSpec, MPoint.point, MPoint.coord, idx, he, hl]
    rw [← asParts_ends]
    simp only [endsOf_getElem?, asParts, List.length_map]
    by_cases hi : i < b.parts.length
    · obtain ⟨p, hp⟩ : ∃ p, b.parts[i]? = some p := ⟨b.parts[i], by simp [hi]⟩
      have hp' : (b.parts.map Option.toList)[i]? = some p.toList := by simp [hp]
      have hsplit := split_at (b.parts.map Option.toList) i p.toList hp'
      have htake := take_succ_of_getElem? (b.parts.map Option.toList) i p.toList hp'
      have hflat : a.flat = ((b.parts.map Option.toList).take i).flatten.flatten ++ p.toList.flatten
          ++ ((b.parts.map Option.toList).drop (i + 1)).flatten.flatten := by
        rw [hf, ← asParts_flatten, asParts]; conv => lhs; rw [hsplit]
        simp [List.append_assoc]
      have hsl := slice_mid ((b.parts.map Option.toList).take i).flatten.flatten p.toList.flatten
        ((b.parts.map Option.toList).drop (i + 1)).flatten.flatten
      rw [← hflat] at hsl
      have hbefore : (if i > 0 then
            (if i - 1 < b.parts.length then
              some (0 + ((b.parts.map Option.toList).take (i - 1 + 1)).flatten.flatten.length) else none)
          else some 0) = some (((b.parts.map Option.toList).take i).flatten.flatten.length) := by
        by_cases h0 : i > 0
        · have h1 : i - 1 < b.parts.length := by omega
          have h2 : i - 1 + 1 = i := by omega
          simp [h0, h1, h2]
        · have : i = 0 := by omega
          subst this; simp
      have hpe : b.parts[i] = p := by
        have := List.getElem?_eq_some_iff.mp hp
        exact this.2
      cases p with
      | none =>
        by_cases h0 : i > 0
        · have h1 : i - 1 < b.parts.length := by omega
          have h2 : i - 1 + 1 = i := by omega
          simp [h0, h1, h2, hi, htake, hp, hpe, Outcome.bind_ok, bind, Outcome.bind]
        · have : i = 0 := by omega
          subst this
          simp [hi, htake, hp, hpe, Outcome.bind_ok, bind, Outcome.bind]
      | some v =>
        have hvl : v.length = b.layout.stride :=
          hall v (mem_somes _ _ (List.mem_of_getElem? hp))
        have hpos' : 0 < v.length := by omega
        have hne : v ≠ [] := by intro e; rw [e] at hpos'; simp at hpos'
        by_cases h0 : i > 0
        · have h1 : i - 1 < b.parts.length := by omega
          have h2 : i - 1 + 1 = i := by omega
          simp only [Option.toList, List.flatten_cons, List.flatten_nil, List.append_nil] at hsl htake
          simp [-List.length_flatten, h0, h1, h2, hi, htake, hp, hpe, Outcome.bind_ok, bind, Outcome.bind,
            List.flatten_append, hsl, hne]
        · have : i = 0 := by omega
          subst this
          simp only [Option.toList, List.flatten_cons, List.flatten_nil, List.append_nil,
            List.take_zero, List.length_nil, Nat.zero_add] at hsl htake
          simp [-List.length_flatten, hi, htake, hp, hpe, Outcome.bind_ok, bind, Outcome.bind, hsl, hne]
    · have hnone : b.parts[i]? = none := by simp; omega
      rw [hnone]
      by_cases h0 : i > 0
      · by_cases h1 : i - 1 < b.parts.length
        · simp [h0, h1, hi, bind, Outcome.bind]
        · simp [h0, h1, hi, bind, Outcome.bind]
      · simp [h0, hi, bind, Outcome.bind]

/-- **C02 (MultiPoint)**: every finite history observes exactly what the list-of-parts
specification observes, with EMPTY points as parts in position. -/
theorem C02_mpoint_refines (l : Layout) (hl : 0 < l.stride) (ops : List (Op (Option (List α))))
    (hv : ∀ op ∈ ops, ValidOp MPValid op) :
    run (mpointModel (α := α)) l ops = run mpointSpec l ops :=
  run_refines mpoint_simulation l ops
    ⟨rfl, rfl, rfl, rfl, by simp [mpointSpec, somes], hl⟩ hv

/-- Non-vacuity: empty points before, between and after real ones. -/
example : run (mpointModel (α := Nat)) 1
    [.push 1 none, .push 1 (some [1, 2]), .push 2 (some [1, 2, 3]), .push 1 none, .push 1 (some [3, 4]),
     .num, .part 0, .part 1, .part 3, .part 4, .rev, .coords]
  = run mpointSpec 1
    [.push 1 none, .push 1 (some [1, 2]), .push 2 (some [1, 2, 3]), .push 1 none, .push 1 (some [3, 4]),
     .num, .part 0, .part 1, .part 3, .part 4, .rev, .coords] := by decide

end GeomVerif.C02
