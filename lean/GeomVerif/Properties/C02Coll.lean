/-
C02 — GeometryCollection part of the property.
  * C02_coll_refines: every history over {variadic Push, SetLayout, Layout, NumGeoms, Geom, Geoms}
    observes exactly what the list-of-parts specification observes;
  * C02_coll_push_all_or_nothing: a Push either appends all its arguments in order or returns a
    layout-mismatch error and leaves the collection unchanged;
  * C02_coll_parts: after any history the members are exactly the arguments of the successful
    Push calls, in order, and NumGeoms is their number.
-/
import GeomVerif.Spec.C02Coll

namespace GeomVerif.C02.Coll
open GeomVerif

variable {π : Type}

theorem pushCheck_eq_find (want : Layout) (gs : List (Member π)) :
    pushCheck want gs = (gs.find? (fun g => g.layout != want)).map
      (fun g => Err.layoutMismatch g.layout want) := by
  induction gs with
  | nil => rfl
  | cons g gs ih =>
    simp only [pushCheck, List.find?_cons]
    by_cases h : g.layout = want
    · simp [h, ih]
    · have hb : (g.layout != want) = true := by simpa using h
      simp [h, hb]

theorem checkLayout_eq_find (l : Layout) (gs : List (Member π)) :
    checkLayout l gs = (gs.find? (fun g => g.layout != l)).map
      (fun g => Err.layoutMismatch l g.layout) := by
  induction gs with
  | nil => rfl
  | cons g gs ih =>
    simp only [checkLayout, List.find?_cons]
    by_cases h : g.layout = l
    · simp [h, ih]
    · have hb : (g.layout != l) = true := by simpa using h
      simp [h, hb]

theorem modelPush_eq_spec (s : State π) (gs : List (Member π)) : modelPush s gs = specPush s gs := by
  unfold modelPush specPush
  by_cases h : s.fixed = 0
  · simp [h]
  · simp only [h, ne_eq, not_false_eq_true, if_true, if_false, pushCheck_eq_find]
    cases gs.find? (fun g => g.layout != s.fixed) <;> rfl

theorem modelSetLayout_eq_spec (s : State π) (l : Layout) : modelSetLayout s l = specSetLayout s l := by
  unfold modelSetLayout specSetLayout
  by_cases h : l = 0
  · simp [h]
  · simp only [h, ne_eq, not_false_eq_true, if_true, if_false, checkLayout_eq_find]
    cases s.geoms.find? (fun g => g.layout != l) <;> rfl

theorem step_eq (s : State π) (op : Op π) : step model s op = step spec s op := by
  cases op <;> simp only [step, model, spec, modelPush_eq_spec, modelSetLayout_eq_spec] <;> rfl

theorem runFrom_eq (ops : List (Op π)) : ∀ s : State π, runFrom model s ops = runFrom spec s ops := by
  induction ops with
  | nil => intro s; rfl
  | cons op ops ih => intro s; simp only [runFrom, step_eq, ih]

/-- Every finite history on a GeometryCollection observes what the specification observes. -/
theorem C02_coll_refines (ops : List (Op π)) : run (π := π) model ops = run spec ops := by
  unfold run; rw [runFrom_eq]

/-- A Push appends all its arguments in order, or fails with a layout-mismatch error (only when
the layout is fixed and some argument has another) and changes nothing. -/
theorem C02_coll_push_all_or_nothing (s : State π) (gs : List (Member π)) :
    (modelPush s gs = .ok ⟨s.fixed, s.geoms ++ gs⟩ ∧
        (s.fixed = 0 ∨ ∀ g ∈ gs, g.layout = s.fixed)) ∨
    (∃ g ∈ gs, g.layout ≠ s.fixed ∧ s.fixed ≠ 0 ∧
        modelPush s gs = .err (.layoutMismatch g.layout s.fixed) ∧
        (step model s (.push gs)).1 = s) := by
  rw [modelPush_eq_spec]
  unfold specPush
  by_cases h : s.fixed = 0
  · left; simp [h]
  · simp only [h, if_false]
    cases hf : gs.find? (fun g => g.layout != s.fixed) with
    | none =>
      left
      refine ⟨rfl, Or.inr fun g hg => ?_⟩
      have := List.find?_eq_none.mp hf g hg
      simpa using this
    | some g =>
      right
      have hmem := List.mem_of_find?_eq_some hf
      have hp := List.find?_some hf
      refine ⟨g, hmem, by simpa using hp, h, rfl, ?_⟩
      simp only [step, model, modelPush_eq_spec, specPush, h, if_false, hf]

/-- The successful pushes of a history, concatenated in order. -/
def pushedBy (m : Machine π) : State π → List (Op π) → List (Member π)
  | _, [] => []
  | s, op :: ops =>
    let s' := (step m s op).1
    match op, m.push s (match op with | .push gs => gs | _ => []) with
    | .push gs, .ok _ => gs ++ pushedBy m s' ops
    | _, _ => pushedBy m s' ops

theorem step_geoms (s : State π) (op : Op π) (hng : op.isGrow = false) :
    (step model s op).1.geoms = s.geoms ++
      (match op, modelPush s (match op with | .push gs => gs | _ => []) with
       | .push gs, .ok _ => gs
       | _, _ => []) := by
  cases op with
  | push gs =>
    simp only [step, model]
    rcases C02_coll_push_all_or_nothing s gs with ⟨h, _⟩ | ⟨g, _, _, _, h, _⟩
    · simp [h]
    · simp [h]
  | setLayout l =>
    simp only [step, model]
    cases h : modelSetLayout s l with
    | ok s' =>
      simp only [List.append_nil]
      rw [modelSetLayout_eq_spec] at h
      unfold specSetLayout at h
      split at h <;> cases h; rfl
    | err e => simp
    | panic p => simp
  | layout => simp [step]
  | num => simp [step]
  | geoms => simp [step]
  | geom i => simp [step]
  | grow i l => simp [Op.isGrow] at hng

theorem growAt_payload (gs : List (Member π)) (i : Nat) (l : Layout) :
    (growAt gs i l).map (·.payload) = gs.map (·.payload) := by
  induction gs generalizing i with
  | nil => rfl
  | cons m ms ih =>
    cases i with
    | zero => rfl
    | succ i => simp [growAt, ih]

/-- After any history the members are the initial ones followed by exactly the arguments of the
successful Push calls, in order; hence NumGeoms is their number and Geom(i) is the i-th of them. -/
theorem C02_coll_parts (ops : List (Op π)) (hng : ∀ op ∈ ops, op.isGrow = false) : ∀ s : State π,
    (runFrom model s ops).2.geoms = s.geoms ++ pushedBy model s ops := by
  induction ops with
  | nil => intro s; simp [runFrom, pushedBy]
  | cons op ops ih =>
    intro s
    simp only [runFrom]
    rw [ih (fun o ho => hng o (List.mem_cons_of_mem _ ho)), step_geoms s op (hng op (by simp))]
    cases op with
    | push gs =>
      simp only [pushedBy, model]
      cases modelPush s gs <;> simp [List.append_assoc]
    | setLayout l => simp [pushedBy]
    | layout => simp [pushedBy]
    | num => simp [pushedBy]
    | geoms => simp [pushedBy]
    | geom i => simp [pushedBy]
    | grow i l => simp [pushedBy]

/-- … and when the caller grows nested members in between (members are shared with the caller),
the members are still those parts, in that order: only the layout the collection sees through a
grown member changes. -/
theorem C02_coll_parts_payloads (ops : List (Op π)) : ∀ s : State π,
    ((runFrom model s ops).2.geoms).map (·.payload)
      = (s.geoms ++ pushedBy model s ops).map (·.payload) := by
  induction ops with
  | nil => intro s; simp [runFrom, pushedBy]
  | cons op ops ih =>
    intro s
    simp only [runFrom]
    rw [ih]
    by_cases hg : op.isGrow = false
    · rw [step_geoms s op hg]
      cases op with
      | push gs =>
        simp only [pushedBy, model]
        cases modelPush s gs <;> simp [List.append_assoc]
      | setLayout l => simp [pushedBy]
      | layout => simp [pushedBy]
      | num => simp [pushedBy]
      | geoms => simp [pushedBy]
      | geom i => simp [pushedBy]
      | grow i l => simp [pushedBy]
    · cases op with
      | grow i l => simp [step, pushedBy, growAt_payload]
      | _ => simp [Op.isGrow] at hg

/-- Non-vacuity of `grow`: a collection holding a nested XYZ member sees XYZM once the caller has
pushed an XYM part into that member, and a fixed layout can then no longer be set. -/
example : run (π := Nat) model
    [.push [⟨2, 10⟩], .layout, .grow 0 3, .layout, .setLayout 2, .num]
    = [.res (.ok ()), .layout 2, .res (.ok ()), .layout 4, .res (.err (.layoutMismatch 2 4)), .num 1] := by
  decide

/-- Non-vacuity: a fixed-layout collection refuses a mixed variadic Push as a whole. -/
example : run (π := Nat) model
    [.push [⟨1, 10⟩], .setLayout 1, .push [⟨1, 11⟩, ⟨2, 12⟩], .num, .push [⟨1, 13⟩, ⟨1, 14⟩], .num, .layout]
    = [.res (.ok ()), .res (.ok ()), .res (.err (.layoutMismatch 2 1)), .num 1, .res (.ok ()), .num 3, .layout 1] := by
  decide

end GeomVerif.C02.Coll
