/-
C02 — MultiPolygon part of the property: every finite history of Push (polygons, empty polygons,
polygons with empty rings, wrong-layout polygons), Reverse, Swap, Clone/fork, Num, Polygon(i),
Coords on a MultiPolygon observes what the list-of-parts specification observes.  The hard case
is `Polygon(i)`: the code finds the start of polygon i by scanning back over empty polygons.
-/
import GeomVerif.Properties.C02
import GeomVerif.Properties.C01

namespace GeomVerif.C02
open GeomVerif
variable {α : Type}

abbrev Poly3 (α : Type) := List (List (List α))

theorem endsOf_shift (off : Nat) (css : Poly3 α) :
    (endsOf 0 css).map (· + off) = endsOf off css := by
  have : ∀ k, (endsOf k css).map (· + off) = endsOf (k + off) css := by
    induction css with
    | nil => intro k; rfl
    | cons cs rest ih =>
      intro k
      simp only [endsOf, List.map_cons, ih]
      rw [Nat.add_right_comm]
  simpa using this 0

theorem endsOf_unshift (off : Nat) (css : Poly3 α) :
    (endsOf off css).map (· - off) = endsOf 0 css := by
  rw [← endsOf_shift off css, List.map_map]
  have : ((· - off) ∘ (· + off) : Nat → Nat) = id := by funext x; simp
  rw [this, List.map_id]

theorem endssOf_append (off : Nat) (ps qs : List (Poly3 α)) :
    endssOf off (ps ++ qs)
      = endssOf off ps ++ endssOf (off + ps.flatten.flatten.flatten.length) qs := by
  induction ps generalizing off with
  | nil => simp [endssOf]
  | cons p ps ih =>
    simp only [List.cons_append, endssOf, ih, List.flatten_cons, List.flatten_append,
      List.length_append, Nat.add_assoc]

theorem endssOf_length (off : Nat) (ps : List (Poly3 α)) : (endssOf off ps).length = ps.length := by
  induction ps generalizing off with
  | nil => rfl
  | cons p ps ih => simp [endssOf, ih]

theorem endssOf_take (off : Nat) (ps : List (Poly3 α)) (i : Nat) :
    (endssOf off ps).take i = endssOf off (ps.take i) := by
  induction ps generalizing off i with
  | nil => simp [endssOf]
  | cons p ps ih =>
    cases i with
    | zero => simp [endssOf]
    | succ i => simp [endssOf, ih]

theorem endssOf_getElem? (off : Nat) (ps : List (Poly3 α)) (i : Nat) (p : Poly3 α)
    (h : ps[i]? = some p) :
    (endssOf off ps)[i]? = some (endsOf (off + (ps.take i).flatten.flatten.flatten.length) p) := by
  induction ps generalizing off i with
  | nil => simp at h
  | cons q qs ih =>
    cases i with
    | zero => simp at h; simp [endssOf, h]
    | succ i =>
      simp only [List.getElem?_cons_succ] at h
      simp only [endssOf, List.getElem?_cons_succ, ih _ i h, List.take_succ_cons, List.flatten_cons,
        List.flatten_append, List.length_append, Nat.add_assoc]

/-- Induction on a list from the back. -/
theorem snoc_induction {β : Type} {P : List β → Prop} (h0 : P [])
    (hs : ∀ s j, P s → P (s ++ [j])) : ∀ l, P l := by
  intro l
  have : ∀ r : List β, P r.reverse := by
    intro r
    induction r with
    | nil => exact h0
    | cons j r ih => rw [List.reverse_cons]; exact hs _ _ ih
  simpa using this l.reverse

/-- **The scan-back**: walking back from polygon i over empty polygons ends at the total length
of the polygons before i. -/
theorem scanBack_prefix (ps : List (Poly3 α)) :
    scanBack (endssOf 0 ps).reverse = ps.flatten.flatten.flatten.length := by
  induction ps using snoc_induction with
  | h0 => rfl
  | hs qs p ih =>
    rw [endssOf_append]
    simp only [endssOf, List.reverse_append, List.reverse_cons, List.reverse_nil, List.nil_append,
      List.singleton_append, scanBack, endsOf_getLast, Nat.zero_add]
    by_cases hp : p = []
    · subst hp; simp [ih]
    · simp [hp, List.flatten_append]

/-- Representation invariant of MultiPolygon. -/
def MPolyRep (g : G3 α) (s : Parts (Poly3 α)) : Prop :=
  g.layout = s.layout ∧ g.stride = s.layout.stride ∧
  g.flat = s.parts.flatten.flatten.flatten ∧ g.endss = endssOf 0 s.parts ∧
  (∀ c ∈ s.parts.flatten.flatten, c.length = s.layout.stride) ∧ 0 < s.layout.stride

def MPolyValid (l : Layout) (css : Poly3 α) : Prop := ∀ c ∈ css.flatten, c.length = l.stride

theorem reverse3_ok (a b : List α) (ps : List (Poly3 α)) (s : Nat) (hs : 0 < s)
    (h : ∀ c ∈ ps.flatten.flatten, c.length = s) :
    reverse3 (a ++ ps.flatten.flatten.flatten ++ b) a.length (endssOf a.length ps) s
      = .ok (a ++ (ps.map (·.map List.reverse)).flatten.flatten.flatten ++ b) := by
  induction ps generalizing a with
  | nil => simp [reverse3, endssOf]
  | cons p ps ih =>
    have hp : ∀ c ∈ p.flatten, c.length = s := fun c hc => h c (by
      simp only [List.flatten_cons, List.flatten_append, List.mem_append]; exact Or.inl hc)
    have hps : ∀ c ∈ ps.flatten.flatten, c.length = s := fun c hc => h c (by
      simp only [List.flatten_cons, List.flatten_append, List.mem_append]; exact Or.inr hc)
    simp only [endssOf, reverse3, endsOf_getLast, List.flatten_cons, List.flatten_append,
      List.map_cons]
    by_cases hnil : p = []
    · subst hnil
      simp only [if_true, List.flatten_nil, List.nil_append, List.length_nil, Nat.add_zero,
        List.map_nil]
      exact ih a hps
    · rw [if_neg hnil]
      simp only
      have e1 : a ++ (p.flatten.flatten ++ ps.flatten.flatten.flatten) ++ b
          = a ++ p.flatten.flatten ++ (ps.flatten.flatten.flatten ++ b) := by
        simp [List.append_assoc]
      rw [e1, reverse2_ok a _ p s hs hp, Outcome.bind_ok]
      have hlen : (p.map List.reverse).flatten.flatten.length = p.flatten.flatten.length := by
        have := endsOf_map_reverse 0 p
        have h1 := endsOf_getLast 0 (p.map List.reverse)
        have h2 := endsOf_getLast 0 p
        rw [this, h2] at h1
        have hne : p.map List.reverse ≠ [] := by simpa using hnil
        simp only [hnil, hne, if_false, Nat.zero_add, Option.some.injEq] at h1
        exact h1.symm
      have := ih (a ++ (p.map List.reverse).flatten.flatten) hps
      simp only [List.length_append, hlen] at this
      have e2 : a ++ (p.map List.reverse).flatten.flatten ++ (ps.flatten.flatten.flatten ++ b)
          = (a ++ (p.map List.reverse).flatten.flatten) ++ ps.flatten.flatten.flatten ++ b := by
        simp [List.append_assoc]
      rw [e2, this]
      simp [List.append_assoc]

theorem endssOf_map_reverse (off : Nat) (ps : List (Poly3 α)) :
    endssOf off (ps.map (·.map List.reverse)) = endssOf off ps := by
  induction ps generalizing off with
  | nil => rfl
  | cons p ps ih =>
    have hlen : (p.map List.reverse).flatten.flatten.length = p.flatten.flatten.length := by
      by_cases hnil : p = []
      · subst hnil; rfl
      · have := endsOf_map_reverse 0 p
        have h1 := endsOf_getLast 0 (p.map List.reverse)
        have h2 := endsOf_getLast 0 p
        rw [this, h2] at h1
        have hne : p.map List.reverse ≠ [] := by simpa using hnil
        simp only [hnil, hne, if_false, Nat.zero_add, Option.some.injEq] at h1
        exact h1.symm
    simp only [List.map_cons, endssOf, endsOf_map_reverse, hlen, ih]

theorem mpoly_simulation : Simulation (mpolyModel (α := α)) mpolySpec MPolyRep MPolyValid where
  push := by
    intro a b l p ⟨hl, hst, hf, he, hall, hpos⟩ hv
    have hfind : p.flatten.find? (badLen l.stride) = none := by
      rw [List.find?_eq_none]; intro c hc; simp [badLen, hv c hc]
    simp only [mpolyModel, mpolySpec, C01.poly_set_eq, hfind, G3.push, hl]
    by_cases hne : l = b.layout
    · subst hne
      simp only [ne_eq, not_true_eq_false, if_false, OutRel]
      refine ⟨rfl, hst, ?_, ?_, ?_, hpos⟩
      · simp [hf]
      · simp [he, hf, endssOf_append, endssOf, endsOf_shift]
      · intro c hc
        simp only [List.flatten_append, List.flatten_cons, List.flatten_nil, List.append_nil,
          List.mem_append] at hc
        rcases hc with hc | hc
        · exact hall c hc
        · exact hv c hc
    · simp [hne, OutRel]
  rev := by
    intro a b ⟨hl, hst, hf, he, hall, hpos⟩
    simp only [mpolyModel, mpolySpec, G3.reverse]
    have := reverse3_ok [] [] b.parts b.layout.stride hpos hall
    simp only [List.nil_append, List.append_nil, List.length_nil] at this
    rw [hf, he, hst, this]
    simp only [Outcome.bind_ok, OutRel]
    refine ⟨hl, rfl, rfl, ?_, ?_, hpos⟩
    · simp [endssOf_map_reverse]
    · intro c hc
      apply hall c
      simp only [List.mem_flatten, List.mem_map] at hc ⊢
      obtain ⟨r, ⟨q, ⟨p, hp, rfl⟩, hq⟩, hc⟩ := hc
      simp only [List.mem_map] at hq
      obtain ⟨r0, hr0, rfl⟩ := hq
      exact ⟨r0, ⟨p, hp, hr0⟩, by simpa using hc⟩
  num := by
    intro a b ⟨_, _, _, he, _, _⟩
    simp [mpolyModel, mpolySpec, G3.num, he, endssOf_length]
  coords := by
    intro a b ⟨hl, hst, hf, he, hall, hpos⟩
    simp only [mpolyModel, mpolySpec, MPoly.coords]
    have := inflate3_ok [] [] b.parts b.layout.stride hpos hall
    simp only [List.nil_append, List.append_nil, List.length_nil] at this
    rw [hf, he, hst, this]
  part := by
    intro a b i ⟨hl, hst, hf, he, hall, hpos⟩
    simp only [mpolyModel, mpolySpec, G3.polygon, idx, he, hl]
    by_cases hi : i < b.parts.length
    · obtain ⟨p, hp⟩ : ∃ p, b.parts[i]? = some p := ⟨b.parts[i], by simp [hi]⟩
      have hpe : b.parts[i] = p := (List.getElem?_eq_some_iff.mp hp).2
      rw [endssOf_getElem? 0 b.parts i p hp, hp]
      simp only [Outcome.bind_ok, endsOf_getLast, Nat.zero_add]
      by_cases hnil : p = []
      · subst hnil
        simp [polygonOf, endsOf]
      · rw [if_neg hnil]
        simp only [endssOf_take, scanBack_prefix]
        have hsplit : b.parts = b.parts.take i ++ [p] ++ b.parts.drop (i + 1) := by
          have := List.take_append_drop i b.parts
          conv => lhs; rw [← this]
          rw [List.drop_eq_getElem_cons (by omega), hpe]
          simp
        have hflat : a.flat = (b.parts.take i).flatten.flatten.flatten ++ p.flatten.flatten
            ++ (b.parts.drop (i + 1)).flatten.flatten.flatten := by
          rw [hf]; conv => lhs; rw [hsplit]
          simp [List.append_assoc]
        have hsl := slice_mid (b.parts.take i).flatten.flatten.flatten p.flatten.flatten
          (b.parts.drop (i + 1)).flatten.flatten.flatten
        rw [← hflat] at hsl
        rw [hsl]
        simp only [Outcome.bind_ok, polygonOf, endsOf_unshift]
    · have hnone : b.parts[i]? = none := by simp; omega
      have hnone' : (endssOf 0 b.parts)[i]? = none := by
        rw [List.getElem?_eq_none_iff, endssOf_length]; omega
      rw [hnone, hnone']
      simp [bind, Outcome.bind]

/-- **C02 (MultiPolygon)**: every finite history observes exactly what the list-of-parts
specification observes — Polygon(i) returns the i-th pushed polygon re-based to offset 0 also
when earlier or later polygons (or rings) are empty. -/
theorem C02_mpoly_refines (l : Layout) (hl : 0 < l.stride) (ops : List (Op (Poly3 α)))
    (hv : ∀ op ∈ ops, ValidOp MPolyValid op) :
    run (mpolyModel (α := α)) l ops = run mpolySpec l ops :=
  run_refines mpoly_simulation l ops
    ⟨rfl, rfl, rfl, rfl, by simp [mpolySpec], hl⟩ hv

/-- Non-vacuity: empty polygons before, between and after, and a polygon made of empty rings. -/
example : run (mpolyModel (α := Nat)) 1
    [.push 1 [], .push 1 [[[1, 2], [3, 4]]], .push 1 [], .push 1 [[]], .push 2 [[[1, 2, 3]]],
     .push 1 [[[5, 6]], [[7, 8]]], .num, .part 0, .part 1, .part 3, .part 4, .rev, .coords]
  = run mpolySpec 1
    [.push 1 [], .push 1 [[[1, 2], [3, 4]]], .push 1 [], .push 1 [[]], .push 2 [[[1, 2, 3]]],
     .push 1 [[[5, 6]], [[7, 8]]], .num, .part 0, .part 1, .part 3, .part 4, .rev, .coords] := by decide

end GeomVerif.C02
