/-
C20 — idempotence: simplifying the simplified line again removes nothing.

`sub D σ` is the line made of the retained points only (same distance function, points renumbered
0, 1, 2, … through the strictly increasing selection σ).  The proof follows the split tree: the
worker's scan returns the FIRST index attaining the maximum distance (`scan_spec`), so restricting
the scan to a selection that contains that index returns the same maximum at the same point
(`scan_restrict`); by induction over the recursion, wherever the original tree retained exactly
the selected points between two selected ends, the tree of the selection retains every point
between them (`dp_restrict`); and where the original tree stopped (all interior points within the
threshold) the selection has no interior point left.  With `simplify = 0 :: dpList ++ [size−1]`
(`simplify_eq_retained`) and the independence of the recursion bound (`dpList_fuel`) this gives
`C20_idempotent` for every distance function and every comparison that is a strict weak order —
the float run as well as exact arithmetic.
-/
import Mathlib.Tactic.Set
import Mathlib.Tactic.ByContra
import Mathlib.Data.List.GetD
import GeomVerif.Properties.C20Threshold

namespace GeomVerif.Rdp
variable {δ : Type}

/-- What the scan returns, completely: nothing scanned exceeds the result, the result is not below
the start value, and it is either the start pair untouched or the FIRST index attaining the
maximum (everything scanned before it is strictly smaller). -/
theorem scan_spec (D : DistOps δ) (ord : GtOrder D) (s e : Nat) (cnt : Nat) :
    ∀ (i : Nat) (md : δ) (mi : Nat),
      (scan D s e cnt i md mi = (md, mi)) ∨
      (i ≤ (scan D s e cnt i md mi).2 ∧ (scan D s e cnt i md mi).2 < i + cnt ∧
        (scan D s e cnt i md mi).1 = D.dist s e (scan D s e cnt i md mi).2 ∧
        D.gt (scan D s e cnt i md mi).1 md = true ∧
        ∀ x, i ≤ x → x < (scan D s e cnt i md mi).2 →
          D.gt (scan D s e cnt i md mi).1 (D.dist s e x) = true) := by
  induction cnt with
  | zero => intro i md mi; left; rfl
  | succ cnt ih =>
    intro i md mi
    simp only [scan]
    cases hgt : D.gt (D.dist s e i) md with
    | true =>
      simp only [if_true]
      right
      rcases ih (i + 1) (D.dist s e i) i with h | ⟨h1, h2, h3, h4, h5⟩
      · rw [h]
        exact ⟨Nat.le_refl _, by omega, rfl, hgt, fun x a b => by simp only at b; omega⟩
      · refine ⟨by omega, by omega, h3, ord.trans _ _ _ h4 hgt, fun x a b => ?_⟩
        by_cases hx : x = i
        · subst hx; exact h4
        · exact h5 x (by omega) b
    | false =>
      simp only [Bool.false_eq_true, if_false]
      rcases ih (i + 1) md mi with h | ⟨h1, h2, h3, h4, h5⟩
      · left; exact h
      · right
        refine ⟨by omega, by omega, h3, h4, fun x a b => ?_⟩
        by_cases hx : x = i
        · subst hx
          cases hc : D.gt (scan D s e cnt (x + 1) md mi).1 (D.dist s e x) with
          | true => rfl
          | false =>
            have := ord.negtrans _ _ _ hc hgt
            rw [h4] at this; exact Bool.noConfusion this
        · exact h5 x (by omega) b

/-- The same line seen through a strictly increasing selection σ of its points. -/
def sub (D : DistOps δ) (σ : Nat → Nat) : DistOps δ :=
  { dist := fun i j k => D.dist (σ i) (σ j) (σ k), gt := D.gt, zero := D.zero, thr2 := D.thr2 }

theorem sub_ord (D : DistOps δ) (σ : Nat → Nat) (ord : GtOrder D) : GtOrder (sub D σ) :=
  ⟨ord.irrefl, ord.trans, ord.negtrans⟩

/-- **Restricting the scan to a selection that contains its answer does not change the answer.** -/
theorem scan_restrict (D : DistOps δ) (ord : GtOrder D) (h0 : D.gt D.zero D.thr2 = false)
    (σ : Nat → Nat) (m : Nat) (hσ : ∀ a b, a < b → b < m → σ a < σ b)
    (i j k' : Nat) (hik : i < k') (hkj : k' < j) (hjm : j < m)
    (hsplit : D.gt (scanSeg D (σ i) (σ j)).1 D.thr2 = true)
    (hk : (scanSeg D (σ i) (σ j)).2 = σ k') :
    scanSeg (sub D σ) i j = ((scanSeg D (σ i) (σ j)).1, k') := by
  -- the full scan: second form of the specification
  have hA := (scan_max D ord (σ i) (σ j) (σ j - σ i - 1) (σ i + 1) D.zero 0).1
  have hspec := scan_spec D ord (σ i) (σ j) (σ j - σ i - 1) (σ i + 1) D.zero 0
  have hij : σ i < σ j := hσ i j (by omega) hjm
  unfold scanSeg at hsplit hk ⊢
  rcases hspec with hinit | ⟨f1, f2, f3, f4, f5⟩
  · rw [hinit] at hsplit; simp only at hsplit; rw [h0] at hsplit; exact Bool.noConfusion hsplit
  set M := (scan D (σ i) (σ j) (σ j - σ i - 1) (σ i + 1) D.zero 0).1 with hM
  rw [hk] at f3 f5
  -- the restricted scan
  have hA' := (scan_max (sub D σ) (sub_ord D σ ord) i j (j - i - 1) (i + 1) D.zero 0).1
  have hspec' := scan_spec (sub D σ) (sub_ord D σ ord) i j (j - i - 1) (i + 1) D.zero 0
  have hd : ∀ x, (sub D σ).dist i j x = D.dist (σ i) (σ j) (σ x) := fun _ => rfl
  have hz : (sub D σ).zero = D.zero := rfl
  rcases hspec' with hinit' | ⟨g1, g2, g3, g4, g5⟩
  · -- untouched: impossible, k' is scanned and its distance M is above zero
    exfalso
    have := hA' k' (by omega) (by omega)
    rw [hinit', hd, ← f3] at this
    simp only at this
    have hgt : (sub D σ).gt M D.zero = D.gt M D.zero := rfl
    rw [hgt, f4] at this; exact Bool.noConfusion this
  · set k'' := (scan (sub D σ) i j (j - i - 1) (i + 1) D.zero 0).2 with hk''
    set M' := (scan (sub D σ) i j (j - i - 1) (i + 1) D.zero 0).1 with hM'
    have hgt : ∀ a b, (sub D σ).gt a b = D.gt a b := fun _ _ => rfl
    rw [hd] at g3
    have hkk : k'' = k' := by
      rcases Nat.lt_trichotomy k'' k' with hlt | heq | hgt'
      · exfalso
        -- σ k'' is scanned before σ k' in the full scan: strictly below M; but k' is scanned in the
        -- restricted scan and must not exceed M' = dist (σ k'')
        have a := f5 (σ k'') (by have := hσ i k'' (by omega) (by omega); omega) (hσ k'' k' hlt (by omega))
        have b := hA' k' (by omega) (by omega)
        rw [hd, ← f3, hgt, g3] at b
        rw [b] at a; exact Bool.noConfusion a
      · exact heq
      · exfalso
        have a := g5 k' (by omega) hgt'
        rw [hgt, hd, ← f3, g3] at a
        have b := hA (σ k'') (by have := hσ i k'' (by omega) (by omega); omega)
          (by have := hσ k'' j (by omega) hjm; omega)
        rw [b] at a; exact Bool.noConfusion a
    have hMM : M' = M := by rw [g3, hkk, ← f3]
    exact Prod.ext hMM hkk


/-- `n` consecutive numbers from `a`. -/
def upFrom : Nat → Nat → List Nat
  | 0, _ => []
  | n + 1, a => a :: upFrom n (a + 1)

theorem mem_upFrom : ∀ (n a x : Nat), x ∈ upFrom n a ↔ a ≤ x ∧ x < a + n := by
  intro n
  induction n with
  | zero => intro a x; simp only [upFrom, List.not_mem_nil, false_iff]; omega
  | succ n ih =>
    intro a x
    simp only [upFrom, List.mem_cons, ih]
    omega

theorem upFrom_append : ∀ (p q a : Nat), upFrom (p + q) a = upFrom p a ++ upFrom q (a + p) := by
  intro p
  induction p with
  | zero => intro q a; simp [upFrom]
  | succ p ih =>
    intro q a
    have : p + 1 + q = (p + q) + 1 := by omega
    rw [this]
    simp only [upFrom, List.cons_append, List.cons.injEq, true_and]
    rw [ih q (a + 1)]
    congr 2
    omega

/-- The indexes strictly between i and j, in order. -/
def between (i j : Nat) : List Nat := upFrom (j - i - 1) (i + 1)

theorem mem_between (i j x : Nat) : x ∈ between i j ↔ i < x ∧ x < j := by
  unfold between; rw [mem_upFrom]; omega

theorem between_empty (i j : Nat) (h : j ≤ i + 1) : between i j = [] := by
  unfold between
  have : j - i - 1 = 0 := by omega
  rw [this]; rfl

theorem between_split (i k j : Nat) (h1 : i < k) (h2 : k < j) :
    between i j = between i k ++ k :: between k j := by
  unfold between
  have e : j - i - 1 = (k - i - 1) + ((j - k - 1) + 1) := by omega
  rw [e, upFrom_append]
  congr 1
  have e2 : i + 1 + (k - i - 1) = k := by omega
  rw [e2]
  simp only [upFrom]

/-- Splitting a list at an element that occurs on neither left part is unique. -/
theorem split_unique {α : Type} (k : α) : ∀ (L A R B : List α), k ∉ L → k ∉ A →
    L ++ k :: R = A ++ k :: B → L = A ∧ R = B := by
  intro L
  induction L with
  | nil =>
    intro A R B _ hA h
    cases A with
    | nil => simp only [List.nil_append, List.cons.injEq, true_and] at h; exact ⟨rfl, h⟩
    | cons a A' =>
      simp only [List.nil_append, List.cons_append, List.cons.injEq] at h
      exact absurd (by rw [h.1]; exact List.mem_cons_self) hA
  | cons l L ih =>
    intro A R B hL hA h
    cases A with
    | nil =>
      simp only [List.nil_append, List.cons_append, List.cons.injEq] at h
      exact absurd (by rw [← h.1]; exact List.mem_cons_self) hL
    | cons a A' =>
      simp only [List.cons_append, List.cons.injEq] at h
      obtain ⟨e1, e2⟩ := ih A' R B (fun hh => hL (List.mem_cons_of_mem _ hh))
        (fun hh => hA (List.mem_cons_of_mem _ hh)) h.2
      exact ⟨by rw [h.1, e1], e2⟩


/-- **The split tree of the selection**: if, between two selected points, the original split tree
retained exactly the selected points, then the split tree of the selection (same distances,
renumbered) retains every point between them. -/
theorem dp_restrict (D : DistOps δ) (ord : GtOrder D) (h0 : D.gt D.zero D.thr2 = false)
    (σ : Nat → Nat) (m : Nat) (hσ : ∀ a b, a < b → b < m → σ a < σ b) :
    ∀ (n i j : Nat), i < j → j < m → σ j - σ i ≤ n →
      dpList D n (σ i) (σ j) = (between i j).map σ → dpList (sub D σ) n i j = between i j := by
  intro n
  induction n with
  | zero =>
    intro i j hij hjm hn _
    have := hσ i j hij hjm; omega
  | succ n ih =>
    intro i j hij hjm hn hD
    have hσij := hσ i j hij hjm
    simp only [dpList] at hD ⊢
    cases hsp : D.gt (scanSeg D (σ i) (σ j)).1 D.thr2 with
    | false =>
      rw [hsp] at hD
      simp only [Bool.false_eq_true, if_false] at hD
      -- nothing retained: there is nothing selected in between
      have hadj : j ≤ i + 1 := by
        apply Nat.le_of_not_lt
        intro hc
        have : i + 1 ∈ between i j := (mem_between i j (i + 1)).mpr ⟨by omega, by omega⟩
        have : σ (i + 1) ∈ (between i j).map σ := List.mem_map_of_mem this
        rw [← hD] at this; cases this
      have := no_split_of_adjacent (sub D σ) h0 i j hadj
      rw [this]
      simp only [Bool.false_eq_true, if_false]
      exact (between_empty i j hadj).symm
    | true =>
      rw [hsp] at hD
      simp only [if_true] at hD
      obtain ⟨hk1, hk2, _⟩ := C20_split_inside D (σ i) (σ j) h0 hsp
      -- the split point is a selected point
      have hkmem : (scanSeg D (σ i) (σ j)).2 ∈ (between i j).map σ := by
        rw [← hD]; exact List.mem_append_right _ List.mem_cons_self
      obtain ⟨k', hk'b, hk'⟩ := List.mem_map.mp hkmem
      obtain ⟨hik, hkj⟩ := (mem_between i j k').mp hk'b
      rw [between_split i k' j hik hkj, List.map_append, List.map_cons, hk'] at hD
      have hnotL : (scanSeg D (σ i) (σ j)).2 ∉ dpList D n (σ i) (scanSeg D (σ i) (σ j)).2 := by
        intro hh
        have := (dpList_mem D h0 n (σ i) _ hk1 (by omega) _ hh).2
        omega
      have hnotA : (scanSeg D (σ i) (σ j)).2 ∉ (between i k').map σ := by
        intro hh
        obtain ⟨x, hx, hxe⟩ := List.mem_map.mp hh
        obtain ⟨_, hxk⟩ := (mem_between i k' x).mp hx
        have := hσ x k' hxk (by omega)
        omega
      obtain ⟨eL, eR⟩ := split_unique _ _ _ _ _ hnotL hnotA hD
      have hres := scan_restrict D ord h0 σ m hσ i j k' hik hkj hjm hsp hk'.symm
      have hthr : (sub D σ).thr2 = D.thr2 := rfl
      have hgt : ∀ a b, (sub D σ).gt a b = D.gt a b := fun _ _ => rfl
      rw [hres]
      simp only [hthr, hgt, hsp, if_true]
      rw [← hk'] at eL eR
      rw [ih i k' hik (by omega) (by rw [hk']; omega) eL,
        ih k' j hkj hjm (by rw [hk']; omega) eR]
      exact (between_split i k' j hik hkj).symm


/-- Enough fuel is enough: the split tree does not depend on the recursion bound. -/
theorem dpList_fuel (D : DistOps δ) (h0 : D.gt D.zero D.thr2 = false) :
    ∀ (n n' s e : Nat), s < e → e - s ≤ n → e - s ≤ n' → dpList D n s e = dpList D n' s e := by
  intro n
  induction n with
  | zero => intro n' s e h1 h2; omega
  | succ n ih =>
    intro n' s e hse hn hn'
    cases n' with
    | zero => omega
    | succ n' =>
      simp only [dpList]
      cases hsp : D.gt (scanSeg D s e).1 D.thr2 with
      | false => rfl
      | true =>
        simp only [if_true]
        obtain ⟨hm1, hm2, _⟩ := C20_split_inside D s e h0 hsp
        rw [ih n' s _ hm1 (by omega) (by omega), ih n' _ e hm2 (by omega) (by omega)]

/-- Strictly increasing lists of numbers with the same members are equal. -/
theorem sorted_ext : ∀ (A B : List Nat), A.Pairwise (· < ·) → B.Pairwise (· < ·) →
    (∀ x, x ∈ A ↔ x ∈ B) → A = B := by
  intro A
  induction A with
  | nil =>
    intro B _ _ h
    cases B with
    | nil => rfl
    | cons b B' => exact absurd ((h b).mpr List.mem_cons_self) (by simp)
  | cons a A' ih =>
    intro B hA hB h
    cases B with
    | nil => exact absurd ((h a).mp List.mem_cons_self) (by simp)
    | cons b B' =>
      rw [List.pairwise_cons] at hA hB
      have hab : a = b := by
        rcases List.mem_cons.mp ((h a).mp List.mem_cons_self) with e | e
        · exact e
        · rcases List.mem_cons.mp ((h b).mpr List.mem_cons_self) with e' | e'
          · exact e'.symm
          · have := hB.1 a e; have := hA.1 b e'; omega
      subst hab
      congr 1
      apply ih B' hA.2 hB.2
      intro x
      constructor
      · intro hx
        rcases List.mem_cons.mp ((h x).mp (List.mem_cons_of_mem _ hx)) with e | e
        · have := hA.1 x hx; omega
        · exact e
      · intro hx
        rcases List.mem_cons.mp ((h x).mpr (List.mem_cons_of_mem _ hx)) with e | e
        · have := hB.1 x hx; omega
        · exact e

/-- The retained indexes as an explicit list. -/
def retained (D : DistOps δ) (size : Nat) : List Nat := 0 :: dpList D size 0 (size - 1) ++ [size - 1]

theorem retained_sorted (D : DistOps δ) (h0 : D.gt D.zero D.thr2 = false) (size : Nat) (h3 : 3 ≤ size) :
    (retained D size).Pairwise (· < ·) := by
  unfold retained
  have hm := dpList_mem D h0 size 0 (size - 1) (by omega) (by omega)
  have hs := dpList_sorted D h0 size 0 (size - 1) (by omega) (by omega)
  rw [List.cons_append, List.pairwise_cons]
  constructor
  · intro x hx
    rcases List.mem_append.mp hx with h | h
    · exact (hm x h).1
    · simp only [List.mem_singleton] at h; omega
  · rw [List.pairwise_append]
    refine ⟨hs, by simp, ?_⟩
    intro a ha b hb
    simp only [List.mem_singleton] at hb
    have := (hm a ha).2; omega

theorem simplify_eq_retained (D : DistOps δ) (h0 : D.gt D.zero D.thr2 = false) (size : Nat)
    (h3 : 3 ≤ size) : simplify D size = retained D size := by
  apply sorted_ext
  · unfold simplify
    rw [if_neg (by omega)]
    exact List.Pairwise.filter _ List.pairwise_lt_range
  · exact retained_sorted D h0 size h3
  · intro x; exact C20_retained_members D h0 size h3 x


theorem getD_mono (L : List Nat) (hL : L.Pairwise (· < ·)) (a b : Nat) (hab : a < b) (hb : b < L.length) :
    L.getD a 0 < L.getD b 0 := by
  rw [List.getD_eq_getElem L 0 (by omega : a < L.length), List.getD_eq_getElem L 0 hb]
  exact (List.pairwise_iff_getElem.mp hL) a b (by omega) hb hab

theorem upFrom_succ_map : ∀ (n a : Nat), upFrom n (a + 1) = (upFrom n a).map (· + 1) := by
  intro n
  induction n with
  | zero => intro a; rfl
  | succ n ih => intro a; simp only [upFrom, List.map_cons, ih]

theorem map_getD_upFrom : ∀ (L : List Nat), (upFrom L.length 0).map (fun i => L.getD i 0) = L := by
  intro L
  induction L with
  | nil => rfl
  | cons x L ih =>
    simp only [List.length_cons, upFrom, List.map_cons, List.getD_cons_zero, List.cons.injEq, true_and]
    rw [upFrom_succ_map, List.map_map]
    have : ((fun i => (x :: L).getD i 0) ∘ fun x => x + 1) = fun i => L.getD i 0 := by
      funext i; simp [Function.comp]
    rw [this]; exact ih

/-- The middle of `a :: L ++ [b]`, read back through its own indexing. -/
theorem map_getD_middle (a b : Nat) (L : List Nat) :
    (upFrom L.length 1).map (fun i => (a :: L ++ [b]).getD i 0) = L := by
  rw [upFrom_succ_map, List.map_map]
  have : ∀ i ∈ upFrom L.length 0,
      ((fun i => (a :: L ++ [b]).getD i 0) ∘ fun x => x + 1) i = (fun i => L.getD i 0) i := by
    intro i hi
    have hi' := ((mem_upFrom _ _ _).mp hi).2
    simp only [Function.comp, List.cons_append, List.getD_cons_succ]
    rw [List.getD_append _ _ _ _ (by omega)]
  rw [List.map_congr_left this]
  exact map_getD_upFrom L

theorem retained_length (D : DistOps δ) (size : Nat) :
    (retained D size).length = (dpList D size 0 (size - 1)).length + 2 := by
  simp [retained]

theorem retained_getD_zero (D : DistOps δ) (size : Nat) : (retained D size).getD 0 0 = 0 := by
  simp [retained]

theorem retained_getD_last (D : DistOps δ) (size : Nat) :
    (retained D size).getD ((dpList D size 0 (size - 1)).length + 1) 0 = size - 1 := by
  unfold retained
  rw [List.cons_append, List.getD_cons_succ, List.getD_append_right _ _ _ _ (Nat.le_refl _)]
  simp

/-- **C20 — idempotence**: simplifying the simplified line again, with the same threshold, removes
nothing: every point is retained.  (`sub D σ` is the simplified line: the same distance function on
the retained points, renumbered 0, 1, 2, ….) -/
theorem C20_idempotent (D : DistOps δ) (ord : GtOrder D) (h0 : D.gt D.zero D.thr2 = false)
    (size : Nat) :
    simplify (sub D (fun i => (simplify D size).getD i 0)) (simplify D size).length
      = List.range (simplify D size).length := by
  by_cases h3 : 3 ≤ size
  rotate_left
  · -- fewer than three points: everything is retained both times
    have hs : simplify D size = List.range size := by unfold simplify; rw [if_pos (by omega)]
    rw [hs, List.length_range]
    unfold simplify; rw [if_pos (by omega)]
  rw [simplify_eq_retained D h0 size h3]
  have hlen := retained_length D size
  have hsorted := retained_sorted D h0 size h3
  have hσ : ∀ a b, a < b → b < (retained D size).length →
      (fun i => (retained D size).getD i 0) a < (fun i => (retained D size).getD i 0) b :=
    fun a b hab hb => getD_mono _ hsorted a b hab hb
  have hσ0 : (fun i => (retained D size).getD i 0) 0 = 0 := retained_getD_zero D size
  have hσm : (fun i => (retained D size).getD i 0) ((retained D size).length - 1) = size - 1 := by
    have : (retained D size).length - 1 = (dpList D size 0 (size - 1)).length + 1 := by omega
    rw [this]; exact retained_getD_last D size
  -- the original split tree retained exactly the selected points between the two ends
  have htop : dpList D size ((fun i => (retained D size).getD i 0) 0)
        ((fun i => (retained D size).getD i 0) ((retained D size).length - 1))
      = (between 0 ((retained D size).length - 1)).map (fun i => (retained D size).getD i 0) := by
    rw [hσ0, hσm]
    unfold between
    have : (retained D size).length - 1 - 0 - 1 = (dpList D size 0 (size - 1)).length := by omega
    rw [this]
    exact (map_getD_middle 0 (size - 1) (dpList D size 0 (size - 1))).symm
  have hres := dp_restrict D ord h0 _ _ hσ size 0 ((retained D size).length - 1) (by omega) (by omega)
    (by have e0 := hσ0; have em := hσm; simp only at e0 em; simp only [e0, em]; omega) htop
  -- k ≤ σ k, so the selection's own fuel is enough too
  have hge : ∀ k, k < (retained D size).length → k ≤ (retained D size).getD k 0 := by
    intro k
    induction k with
    | zero => intro _; omega
    | succ k ih => intro hk; have := hσ k (k + 1) (by omega) hk; have := ih (by omega); simp only at *; omega
  have hmle : (retained D size).length - 1 ≤ size := by
    have := hge ((retained D size).length - 1) (by omega)
    have e := hσm; simp only at e; rw [e] at this; omega
  have hfuel := dpList_fuel (sub D (fun i => (retained D size).getD i 0)) h0 (retained D size).length size 0
    ((retained D size).length - 1) (by omega) (by omega) (by omega)
  -- every index passes the filter
  by_cases hm3 : 3 ≤ (retained D size).length
  rotate_left
  · unfold simplify; rw [if_pos (by omega)]
  have hmem := C20_retained_members (sub D (fun i => (retained D size).getD i 0)) h0
    (retained D size).length hm3
  unfold simplify at hmem ⊢
  rw [if_neg (by omega)] at hmem ⊢
  apply List.filter_eq_self.mpr
  intro k hk
  have hk' := List.mem_range.mp hk
  have : k ∈ 0 :: dpList (sub D (fun i => (retained D size).getD i 0)) (retained D size).length 0
      ((retained D size).length - 1) ++ [(retained D size).length - 1] := by
    rw [hfuel, hres]
    by_cases hk0 : k = 0
    · subst hk0; exact List.mem_cons_self
    · by_cases hkm : k = (retained D size).length - 1
      · rw [hkm]; simp
      · apply List.mem_cons_of_mem
        apply List.mem_append_left
        exact (mem_between 0 ((retained D size).length - 1) k).mpr ⟨by omega, by omega⟩
  have := (hmem k).mpr this
  exact (List.mem_filter.mp this).2


/-- Non-vacuity: on the L-shaped line of the C20 example the second pass keeps all three points. -/
example : simplify (sub (δ := Int)
    { dist := fun s e k => if (s, e, k) = (0, 2, 1) then 25 else 0, gt := fun a b => a > b,
      zero := 0, thr2 := 1 } (fun i => [0, 1, 2].getD i 0)) 3 = [0, 1, 2] := by decide

end GeomVerif.Rdp
