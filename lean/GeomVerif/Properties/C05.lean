/-
C05 — WKT output round-trips; every standard spelling parses to the same geometry.

What is proved here (for every input, no bound on sizes):
* the offset arithmetic of the grammar actions (lex_types.go: makeGeomFlatCoordsRepr,
  appendGeomFlatCoordsReprs, makeMultiPolygonFlatCoordsRepr, appendMultiPolygonFlatCoordsRepr)
  rebuilds, from the parts of a text in order — EMPTY members included at any position —
  exactly the flat coordinates and end offsets that SetCoords produces for the same nested
  coordinates (`C05_parts_rebuild`, `C05_multilinestring_rebuild`, `C05_multipoint_rebuild`,
  `C05_multipolygon_rebuild` and the `_matches_setCoords` corollaries).

What is decided by the correspondence run instead (see DESIGN.md): that the regenerated LALR
tables apply these actions in list order to the parts of the text (the parser model is executed
on every explored input and compared with Go), the lexer's handling of spellings, and
strconv's shortest formatting / correctly rounded parsing (checked per emitted number against
Spec/ParseFloat.lean).
-/
import GeomVerif.Model.WktParse
import GeomVerif.Lemmas.Flat
import GeomVerif.Lemmas.Multi

namespace GeomVerif.C05
open GeomVerif GeomVerif.Wkb GeomVerif.WktParse

/-- What the list rules compute: `$$ = appendGeomFlatCoordsReprs($1, make($3))`, left to right. -/
def foldFR (acc : FR) (ps : List (List Ord)) : FR := ps.foldl (fun a p => appendFR a (makeFR p)) acc

/-- Running end offsets of consecutive parts. -/
def cumEnds (off : Nat) : List (List Ord) → List Nat
  | [] => []
  | p :: ps => (off + p.length) :: cumEnds (off + p.length) ps

theorem cumEnds_getLast (off : Nat) (ps : List (List Ord)) :
    (cumEnds off ps).getLast?.getD off = off + ps.flatten.length := by
  induction ps generalizing off with
  | nil => simp [cumEnds]
  | cons p ps ih =>
    simp only [cumEnds, List.getLast?_cons, Option.getD_some, ih, List.flatten_cons, List.length_append]
    omega

theorem foldFR_spec (acc : FR) (ps : List (List Ord)) (hne : acc.ends ≠ [])
    (hlast : acc.ends.getLast? = some acc.flat.length) :
    foldFR acc ps = ⟨acc.flat ++ ps.flatten, acc.ends ++ cumEnds acc.flat.length ps⟩ := by
  induction ps generalizing acc with
  | nil => simp [foldFR, cumEnds]
  | cons p ps ih =>
    have hstep : appendFR acc (makeFR p) = ⟨acc.flat ++ p, acc.ends ++ [acc.flat.length + p.length]⟩ := by
      simp [appendFR, makeFR, hlast, Nat.add_comm]
    have := ih (appendFR acc (makeFR p)) (by rw [hstep]; simp) (by rw [hstep]; simp)
    simp only [foldFR, List.foldl_cons] at this ⊢
    rw [this, hstep]
    simp [cumEnds, List.append_assoc]

/-- **Parts rebuild.** The grammar's list rules applied to the parts `p, ps…` of a text give the
concatenated coordinates and the running end offsets; an EMPTY part (`[]`) repeats the
previous offset and shifts nothing. -/
theorem C05_parts_rebuild (p : List Ord) (ps : List (List Ord)) :
    foldFR (makeFR p) ps = ⟨(p :: ps).flatten, cumEnds 0 (p :: ps)⟩ := by
  rw [foldFR_spec (makeFR p) ps (by simp [makeFR]) (by simp [makeFR])]
  simp [makeFR, cumEnds]

theorem cumEnds_map_flatten (off : Nat) (css : List (List (List Ord))) :
    cumEnds off (css.map List.flatten) = endsOf off css := by
  induction css generalizing off with
  | nil => rfl
  | cons cs rest ih => simp [cumEnds, endsOf, ih]

/-- MULTILINESTRING / POLYGON: the parser's representation of lines (rings) `ln, rest…`, EMPTY
members included, is the one `SetCoords` gives for the same nested coordinates. -/
theorem C05_multilinestring_rebuild (ln : List (List Ord)) (rest : List (List (List Ord))) :
    foldFR (makeFR ln.flatten) (rest.map List.flatten)
      = ⟨(ln :: rest).flatten.flatten, endsOf 0 (ln :: rest)⟩ := by
  have e : ln.flatten :: rest.map List.flatten = (ln :: rest).map List.flatten := rfl
  rw [C05_parts_rebuild, e, cumEnds_map_flatten, ← List.flatten_flatten]

theorem C05_multilinestring_matches_setCoords (l : Layout) (ln : List (List Ord))
    (rest : List (List (List Ord))) (g : G2 Ord) (h : Poly.setCoords l (ln :: rest) = .ok g) :
    g.flat = (foldFR (makeFR ln.flatten) (rest.map List.flatten)).flat ∧
    g.ends = (foldFR (makeFR ln.flatten) (rest.map List.flatten)).ends := by
  rw [C05_multilinestring_rebuild]
  unfold Poly.setCoords at h
  rw [deflate2_eq] at h
  cases hf : (ln :: rest).flatten.find? (badLen l.stride) with
  | some c => rw [hf] at h; cases h
  | none =>
    rw [hf] at h
    simp only [Outcome.bind_ok, List.nil_append, List.length_nil] at h
    cases h
    exact ⟨rfl, rfl⟩

/-- MULTIPOINT: members `some c` (bare or parenthesised) and `none` (EMPTY). -/
theorem mp_cumEnds (off : Nat) (cs : List (Option (List Ord))) :
    cumEnds off (cs.map (·.getD [])) = mpEndsOf off cs := by
  induction cs generalizing off with
  | nil => rfl
  | cons c rest ih => cases c <;> simp [cumEnds, mpEndsOf, ih]

theorem mp_flatten (cs : List (Option (List Ord))) : (cs.map (·.getD [])).flatten = (somes cs).flatten := by
  induction cs with
  | nil => rfl
  | cons c rest ih => cases c <;> simp [somes, ih]

theorem C05_multipoint_rebuild (c : Option (List Ord)) (rest : List (Option (List Ord))) :
    foldFR (makeFR (c.getD [])) (rest.map (·.getD []))
      = ⟨(somes (c :: rest)).flatten, mpEndsOf 0 (c :: rest)⟩ := by
  have e : c.getD [] :: rest.map (·.getD []) = (c :: rest).map (·.getD []) := rfl
  rw [C05_parts_rebuild, e, mp_cumEnds, mp_flatten]

/-! ### MULTIPOLYGON: end-offset lists per polygon, EMPTY polygons anywhere -/

/-- The flat representation the ring-list rules give one polygon (`[]` = EMPTY, whose
`flatRepr` member of the semantic value is the zero value). -/
def polyFR : List (List Ord) → FR
  | [] => ⟨[], []⟩
  | r :: rs => foldFR (makeFR r) rs

def foldMP (acc : MPR) (polys : List (List (List Ord))) : MPR :=
  polys.foldl (fun a rs => appendMP a (makeMP (polyFR rs))) acc

def cumEndss (off : Nat) : List (List (List Ord)) → List (List Nat)
  | [] => []
  | rs :: rest => cumEnds off rs :: cumEndss (off + rs.flatten.length) rest

theorem lastNonEmptyEnd_append_nil (xs : List (List Nat)) :
    lastNonEmptyEnd (xs ++ [[]]).reverse = lastNonEmptyEnd xs.reverse := by
  simp [lastNonEmptyEnd]

theorem lastNonEmptyEnd_append_cons (xs : List (List Nat)) (es : List Nat) (hne : es ≠ []) :
    lastNonEmptyEnd (xs ++ [es]).reverse = es.getLast?.getD 0 := by
  simp only [List.reverse_append, List.reverse_cons, List.reverse_nil, List.nil_append,
    List.cons_append, lastNonEmptyEnd]
  cases h : es.getLast? with
  | none => exact absurd (List.getLast?_eq_none_iff.mp h) hne
  | some e => rfl

theorem polyFR_spec (rs : List (List Ord)) (hne : rs ≠ []) :
    polyFR rs = ⟨rs.flatten, cumEnds 0 rs⟩ := by
  cases rs with
  | nil => exact absurd rfl hne
  | cons r rest => exact C05_parts_rebuild r rest

theorem cumEnds_shift (off k : Nat) (ps : List (List Ord)) :
    (cumEnds off ps).map (· + k) = cumEnds (off + k) ps := by
  induction ps generalizing off with
  | nil => rfl
  | cons p ps ih =>
    simp only [cumEnds, List.map_cons, ih]
    rw [show off + p.length + k = off + k + p.length by omega]

theorem appendMP_step (acc : MPR) (rs : List (List Ord))
    (hacc : lastNonEmptyEnd acc.endss.reverse = acc.flat.length)
    (hrs : rs ≠ [] → rs.flatten ≠ []) :
    appendMP acc (makeMP (polyFR rs))
      = ⟨acc.flat ++ rs.flatten, acc.endss ++ [cumEnds acc.flat.length rs]⟩ := by
  cases hcase : rs with
  | nil => simp [appendMP, makeMP, polyFR, cumEnds]
  | cons r rest =>
    have hne : rs ≠ [] := by rw [hcase]; simp
    have hflat := hrs hne
    rw [← hcase, polyFR_spec rs hne]
    have hmk : makeMP ⟨rs.flatten, cumEnds 0 rs⟩ = ⟨rs.flatten, [cumEnds 0 rs]⟩ := by
      simp [makeMP, hflat]
    rw [hmk]
    unfold appendMP
    simp only [hacc]
    by_cases h0 : acc.flat.length > 0
    · simp only [h0, if_true, List.map_cons, List.map_nil, cumEnds_shift, Nat.zero_add]
    · have : acc.flat.length = 0 := by omega
      simp [this]

theorem foldMP_spec (acc : MPR) (polys : List (List (List Ord)))
    (hacc : lastNonEmptyEnd acc.endss.reverse = acc.flat.length)
    (hp : ∀ rs ∈ polys, rs ≠ [] → rs.flatten ≠ []) :
    foldMP acc polys = ⟨acc.flat ++ polys.flatten.flatten, acc.endss ++ cumEndss acc.flat.length polys⟩ := by
  induction polys generalizing acc with
  | nil => simp [foldMP, cumEndss]
  | cons rs rest ih =>
    have hstep := appendMP_step acc rs hacc (hp rs (List.mem_cons_self ..))
    have hinv : lastNonEmptyEnd (appendMP acc (makeMP (polyFR rs))).endss.reverse
        = (appendMP acc (makeMP (polyFR rs))).flat.length := by
      rw [hstep]
      simp only [List.length_append]
      cases hcase : rs with
      | nil => simp [cumEnds, lastNonEmptyEnd, hacc]
      | cons r rest' =>
        rw [lastNonEmptyEnd_append_cons _ _ (by simp [cumEnds])]
        have := cumEnds_getLast acc.flat.length (r :: rest')
        cases hl : (cumEnds acc.flat.length (r :: rest')).getLast? with
        | none => simp [cumEnds] at hl
        | some e => rw [hl] at this; simpa using this
    have := ih (appendMP acc (makeMP (polyFR rs))) hinv (fun x hx => hp x (List.mem_cons_of_mem _ hx))
    simp only [foldMP, List.foldl_cons] at this ⊢
    rw [this, hstep]
    simp [cumEndss, List.append_assoc]

/-- **MULTIPOLYGON rebuild.** Polygons in text order (`[]` = EMPTY), every written ring having at
least one ordinate: the actions produce the concatenated coordinates and, per polygon, its
rings' running end offsets — an EMPTY polygon contributes an empty offset list and shifts
nothing, later polygons are re-based by everything written before them. -/
theorem C05_multipolygon_rebuild (rs : List (List Ord)) (polys : List (List (List Ord)))
    (hp : ∀ x ∈ rs :: polys, x ≠ [] → x.flatten ≠ []) :
    foldMP (makeMP (polyFR rs)) polys
      = ⟨(rs :: polys).flatten.flatten, cumEndss 0 (rs :: polys)⟩ := by
  have h0 := appendMP_step ⟨[], []⟩ rs (by simp [lastNonEmptyEnd]) (hp rs (List.mem_cons_self ..))
  -- the first polygon is `makeMP`, which is `appendMP` onto nothing
  have hfirst : makeMP (polyFR rs) = ⟨rs.flatten, [cumEnds 0 rs]⟩ := by
    cases hcase : rs with
    | nil => simp [makeMP, polyFR, cumEnds]
    | cons r rest =>
      have hne : rs ≠ [] := by rw [hcase]; simp
      rw [← hcase, polyFR_spec rs hne]
      simp [makeMP, hp rs (List.mem_cons_self ..) hne]
  rw [hfirst]
  have hinv : lastNonEmptyEnd ([cumEnds 0 rs] : List (List Nat)).reverse = rs.flatten.length := by
    cases hcase : rs with
    | nil => simp [cumEnds, lastNonEmptyEnd]
    | cons r rest =>
      have := cumEnds_getLast 0 (r :: rest)
      simp only [List.reverse_cons, List.reverse_nil, List.nil_append, lastNonEmptyEnd]
      cases hl : (cumEnds 0 (r :: rest)).getLast? with
      | none => simp [cumEnds] at hl
      | some e => rw [hl] at this; simpa using this
  rw [foldMP_spec ⟨rs.flatten, [cumEnds 0 rs]⟩ polys hinv (fun x hx => hp x (List.mem_cons_of_mem _ hx))]
  simp [cumEndss]

theorem cumEndss_map (off : Nat) (csss : List (List (List (List Ord)))) :
    cumEndss off (csss.map (·.map List.flatten)) = endssOf off csss := by
  induction csss generalizing off with
  | nil => rfl
  | cons css rest ih =>
    simp only [List.map_cons, cumEndss, endssOf, cumEnds_map_flatten, ih]
    rw [← List.flatten_flatten]


theorem C05_multipolygon_matches_setCoords (l : Layout) (p : List (List (List Ord)))
    (rest : List (List (List (List Ord)))) (g : G3 Ord)
    (h : MPoly.setCoords l (p :: rest) = .ok g)
    (hp : ∀ x ∈ p :: rest, x ≠ [] → x.flatten.flatten ≠ []) :
    g.flat = (foldMP (makeMP (polyFR (p.map List.flatten))) (rest.map (·.map List.flatten))).flat ∧
    g.endss = (foldMP (makeMP (polyFR (p.map List.flatten))) (rest.map (·.map List.flatten))).endss := by
  have hp' : ∀ x ∈ p.map List.flatten :: rest.map (·.map List.flatten), x ≠ [] → x.flatten ≠ [] := by
    intro x hx hne
    have hx' : x ∈ (p :: rest).map (·.map List.flatten) := hx
    obtain ⟨y, hy, rfl⟩ := List.mem_map.mp hx'
    rw [← List.flatten_flatten]
    exact hp y hy (by intro h0; apply hne; rw [h0]; rfl)
  rw [C05_multipolygon_rebuild _ _ hp']
  have e : p.map List.flatten :: rest.map (·.map List.flatten) = (p :: rest).map (·.map List.flatten) := rfl
  rw [e, cumEndss_map]
  unfold MPoly.setCoords at h
  rw [deflate3_eq] at h
  cases hf : (p :: rest).flatten.flatten.find? (badLen l.stride) with
  | some c => rw [hf] at h; cases h
  | none =>
    rw [hf] at h
    simp only [Outcome.bind_ok, List.nil_append, List.length_nil] at h
    cases h
    refine ⟨?_, rfl⟩
    show (p :: rest).flatten.flatten.flatten = ((p :: rest).map (·.map List.flatten)).flatten.flatten
    rw [← List.map_flatten, ← List.flatten_flatten]

theorem C05_multipoint_matches_setCoords (l : Layout) (c : Option (List Ord))
    (rest : List (Option (List Ord))) (g : G2 Ord) (h : MPoint.setCoords l (c :: rest) = .ok g) :
    g.flat = (foldFR (makeFR (c.getD [])) (rest.map (·.getD []))).flat ∧
    g.ends = (foldFR (makeFR (c.getD [])) (rest.map (·.getD []))).ends := by
  rw [C05_multipoint_rebuild]
  unfold MPoint.setCoords at h
  rw [mpSetLoop_eq] at h
  cases hf : (somes (c :: rest)).find? (badLen l.stride) with
  | some c => rw [hf] at h; cases h
  | none =>
    rw [hf] at h
    simp only [Outcome.bind_ok, List.nil_append, List.length_nil] at h
    cases h
    exact ⟨rfl, rfl⟩

end GeomVerif.C05
