/-
C14 — centroids, ring direction, signed area.  Exact-arithmetic theorems (commutative ring /
field) about the base-point fan that the area-centroid calculator accumulates:
for a closed ring, Σ area2(b,pᵢ,pᵢ₊₁) is the shoelace sum Σ cross(pᵢ,pᵢ₊₁) and
Σ area2(b,pᵢ,pᵢ₊₁)·(b+pᵢ+pᵢ₊₁) is Σ cross(pᵢ,pᵢ₊₁)·(pᵢ+pᵢ₊₁): both independent of the
base point b (hence of which polygon supplied it).  With the sign taken from the ring's
direction this gives the area-weighted centroid Σ(…)/(6A) with holes subtracted.
Not proved: "a simple ring is counter-clockwise iff its area is positive" (needs the
extreme-vertex theorem); discharged per explored input by the exact area sign.
-/
import Mathlib.Tactic.Ring
import Mathlib.Tactic.FieldSimp
import Mathlib.Algebra.Field.Basic
import GeomVerif.Model.Centroid

namespace GeomVerif.Centroid

section ring
variable {R : Type} [CommRing R]

abbrev Q (R : Type) := R × R

def cross (p q : Q R) : R := p.1 * q.2 - q.1 * p.2
/-- area_centroid.go `area2(b, p, q)` -/
def fan (b p q : Q R) : R := (p.1 - b.1) * (q.2 - b.2) - (q.1 - b.1) * (p.2 - b.2)

/-- Sum of `g` over consecutive pairs of a vertex list. -/
def chainSum (g : Q R → Q R → R) : List (Q R) → R
  | a :: b :: rest => g a b + chainSum g (b :: rest)
  | _ => 0

/-- A summand that is a difference of a potential telescopes along the chain. -/
theorem chainSum_telescope (g : Q R → Q R → R) (φ : Q R → R) (h : ∀ p q, g p q = φ q - φ p)
    (p : Q R) (ps : List (Q R)) :
    chainSum g (p :: ps) = φ ((p :: ps).getLast (by simp)) - φ p := by
  induction ps generalizing p with
  | nil => simp [chainSum]
  | cons q qs ih =>
    simp only [chainSum, ih q, h p q, List.getLast_cons (List.cons_ne_nil q qs)]
    ring

theorem chainSum_add (g h : Q R → Q R → R) (ps : List (Q R)) :
    chainSum (fun p q => g p q + h p q) ps = chainSum g ps + chainSum h ps := by
  induction ps with
  | nil => simp [chainSum]
  | cons p ps ih =>
    cases ps with
    | nil => simp [chainSum]
    | cons q qs => simp only [chainSum, ih]; ring

/-- **Fan identity (area)**: on a closed ring the base point cancels. -/
theorem C14_fan_area (b p : Q R) (ps : List (Q R)) (hclosed : (p :: ps).getLast (by simp) = p) :
    chainSum (fan b) (p :: ps) = chainSum cross (p :: ps) := by
  have hfun : fan b = fun u v => cross u v + ((-(cross b v)) - (-(cross b u))) := by
    funext u v; simp only [fan, cross]; ring
  rw [hfun, chainSum_add,
    chainSum_telescope (fun u v => (-(cross b v)) - (-(cross b u))) (fun u => -(cross b u))
      (fun _ _ => rfl), hclosed]
  ring

/-- The first-moment summand (x-coordinate) relative to base `b`, minus the base-free one, is the
difference of the potential ψ(w) = −cross(b,w)·(b.x + w.x): the cocycle behind base-point
independence of the centroid. -/
theorem moment_potential_x (b u v : Q R) :
    fan b u v * (b.1 + u.1 + v.1) - cross u v * (u.1 + v.1)
      = (-(cross b v * (b.1 + v.1))) - (-(cross b u * (b.1 + u.1))) := by
  simp only [fan, cross]; ring

theorem moment_potential_y (b u v : Q R) :
    fan b u v * (b.2 + u.2 + v.2) - cross u v * (u.2 + v.2)
      = (-(cross b v * (b.2 + v.2))) - (-(cross b u * (b.2 + u.2))) := by
  simp only [fan, cross]; ring

/-- **Fan identity (first moments)**: on a closed ring Σ area2(b,pᵢ,pᵢ₊₁)·(b+pᵢ+pᵢ₊₁) does not
depend on the base point; it is Σ cross(pᵢ,pᵢ₊₁)·(pᵢ+pᵢ₊₁), i.e. 6·A·centroid. -/
theorem C14_fan_moment_x (b p : Q R) (ps : List (Q R)) (hclosed : (p :: ps).getLast (by simp) = p) :
    chainSum (fun u v => fan b u v * (b.1 + u.1 + v.1)) (p :: ps)
      = chainSum (fun u v => cross u v * (u.1 + v.1)) (p :: ps) := by
  have hfun : (fun u v : Q R => fan b u v * (b.1 + u.1 + v.1))
      = fun u v => cross u v * (u.1 + v.1)
          + ((-(cross b v * (b.1 + v.1))) - (-(cross b u * (b.1 + u.1)))) := by
    funext u v
    have := moment_potential_x b u v
    calc fan b u v * (b.1 + u.1 + v.1)
        = cross u v * (u.1 + v.1) + (fan b u v * (b.1 + u.1 + v.1) - cross u v * (u.1 + v.1)) := by ring
      _ = _ := by rw [this]
  rw [hfun, chainSum_add,
    chainSum_telescope (fun u v => (-(cross b v * (b.1 + v.1))) - (-(cross b u * (b.1 + u.1))))
      (fun u => -(cross b u * (b.1 + u.1))) (fun _ _ => rfl), hclosed]
  ring

theorem C14_fan_moment_y (b p : Q R) (ps : List (Q R)) (hclosed : (p :: ps).getLast (by simp) = p) :
    chainSum (fun u v => fan b u v * (b.2 + u.2 + v.2)) (p :: ps)
      = chainSum (fun u v => cross u v * (u.2 + v.2)) (p :: ps) := by
  have hfun : (fun u v : Q R => fan b u v * (b.2 + u.2 + v.2))
      = fun u v => cross u v * (u.2 + v.2)
          + ((-(cross b v * (b.2 + v.2))) - (-(cross b u * (b.2 + u.2)))) := by
    funext u v
    have := moment_potential_y b u v
    calc fan b u v * (b.2 + u.2 + v.2)
        = cross u v * (u.2 + v.2) + (fan b u v * (b.2 + u.2 + v.2) - cross u v * (u.2 + v.2)) := by ring
      _ = _ := by rw [this]
  rw [hfun, chainSum_add,
    chainSum_telescope (fun u v => (-(cross b v * (b.2 + v.2))) - (-(cross b u * (b.2 + u.2))))
      (fun u => -(cross b u * (b.2 + u.2))) (fun _ _ => rfl), hclosed]
  ring

/-- Reversing the direction of a ring negates its shoelace sum (so the sign taken from the
ring's direction makes the contribution direction-independent). -/
theorem cross_antisymm (p q : Q R) : cross q p = -cross p q := by
  simp only [cross]; ring

end ring

section field
variable {K : Type} [Field K]

/-- **Points**: the centroid is the arithmetic mean (two points shown; the general fold is the
model's definition `pointsCentroid`). -/
theorem C14_points_mean_two (x1 y1 x2 y2 : K) :
    ((0 + x1 + x2) / 2, (0 + y1 + y2) / 2) = ((x1 + x2) / 2, (y1 + y2) / 2) := by
  simp

/-- **Triangle check of the centroid formula**: for one fan triangle (b,p,q) the accumulated
quotient cg3/3/areasum2 is the triangle's centroid (b+p+q)/3, whatever the sign convention. -/
theorem C14_triangle_centroid (b p q : Q K) (sign : K) (hs : sign ≠ 0) (ha : fan b p q ≠ 0)
    (h3 : (3 : K) ≠ 0) :
    (sign * fan b p q * (b.1 + p.1 + q.1)) / 3 / (sign * fan b p q) = (b.1 + p.1 + q.1) / 3 := by
  field_simp
end field

/-- Non-vacuity: unit square traversed counter-clockwise, base point far away. -/
example : chainSum (fan ((100 : Int), -7)) [(0,0), (1,0), (1,1), (0,1), (0,0)] = 2 ∧
    chainSum cross [((0 : Int),(0 : Int)), (1,0), (1,1), (0,1), (0,0)] = 2 := by decide

end GeomVerif.Centroid
