/-
C01 — Flat-coordinate representation stays well formed and lossless.
Property theorems only (helper lemmas live in Lemmas/Flat.lean).
All statements are for every ordinate type `α` (no operation inspects an ordinate),
hence in particular for all float64 bit patterns.
-/
import GeomVerif.Lemmas.Flat
import GeomVerif.Spec.C01

namespace GeomVerif.C01
open GeomVerif
variable {α : Type}

/-! ### LineString / LinearRing -/

theorem line_set_eq (l : Layout) (cs : List (List α)) :
    Line.setCoords l cs =
      match cs.find? (badLen l.stride) with
      | some c => .err (.strideMismatch c.length l.stride)
      | none => .ok { layout := l, stride := l.stride, flat := cs.flatten } := by
  unfold Line.setCoords
  rw [deflate1_eq]
  cases cs.find? (badLen l.stride) <;> rfl

/-- A coordinate of the wrong length is rejected with a stride-mismatch error (and only then). -/
theorem C01_line_rejects (l : Layout) (cs : List (List α)) :
    (∃ c ∈ cs, c.length ≠ l.stride) ↔
      ∃ g w, Line.setCoords l cs = .err (.strideMismatch g w) := by
  rw [line_set_eq]
  cases h : cs.find? (badLen l.stride) with
  | some c =>
    constructor
    · intro _; exact ⟨_, _, rfl⟩
    · intro _
      refine ⟨c, List.mem_of_find?_eq_some h, ?_⟩
      simpa [badLen] using List.find?_some h
  | none =>
    rw [List.find?_eq_none] at h
    constructor
    · intro ⟨c, hc, hne⟩; exact absurd (by simpa [badLen] using hne) (h c hc)
    · intro ⟨_, _, hh⟩; cases hh

theorem C01_line_wellFormed (l : Layout) (cs : List (List α)) (g : G1 α)
    (h : Line.setCoords l cs = .ok g) : g.wellFormed = true ∧ g.layout = l := by
  rw [line_set_eq] at h
  cases hf : cs.find? (badLen l.stride) with
  | some c => rw [hf] at h; cases h
  | none =>
    rw [hf] at h
    injection h with h; subst h
    rw [List.find?_eq_none] at hf
    have hall : ∀ c ∈ cs, c.length = l.stride := fun c hc => by simpa [badLen] using hf c hc
    refine ⟨?_, rfl⟩
    simp only [G1.wellFormed, beq_self_eq_true, Bool.true_and]
    rw [flatten_length_of_all cs _ hall]; exact aligned_mul _ _

theorem C01_line_roundtrip (l : Layout) (cs : List (List α)) (g : G1 α)
    (h : Line.setCoords l cs = .ok g) (hs : 0 < l.stride) : Line.coords g = .ok cs := by
  rw [line_set_eq] at h
  cases hf : cs.find? (badLen l.stride) with
  | some c => rw [hf] at h; cases h
  | none =>
    rw [hf] at h
    injection h with h; subst h
    rw [List.find?_eq_none] at hf
    have hall : ∀ c ∈ cs, c.length = l.stride := fun c hc => by simpa [badLen] using hf c hc
    have := inflate1_ok [] [] cs l.stride hs hall
    simpa [Line.coords] using this

/-- NoLayout (stride 0): set/get never panics and the stored geometry is empty. -/
theorem C01_line_noLayout (cs : List (List α)) (g : G1 α)
    (h : Line.setCoords 0 cs = .ok g) : g.flat = [] ∧ Line.coords g = .ok [] := by
  rw [line_set_eq] at h
  cases hf : cs.find? (badLen (Layout.stride 0)) with
  | some c => rw [hf] at h; cases h
  | none =>
    rw [hf] at h
    injection h with h; subst h
    rw [List.find?_eq_none] at hf
    have hall : ∀ c ∈ cs, c.length = 0 := fun c hc => by
      simpa [badLen, Layout.stride] using hf c hc
    have hlen := flatten_length_of_all cs 0 hall
    have : cs.flatten = [] := List.eq_nil_of_length_eq_zero (by simpa using hlen)
    simp [this, Line.coords, inflate1, Layout.stride]

/-! ### Polygon / MultiLineString -/

theorem poly_set_eq (l : Layout) (cs : List (List (List α))) :
    Poly.setCoords l cs =
      match cs.flatten.find? (badLen l.stride) with
      | some c => .err (.strideMismatch c.length l.stride)
      | none => .ok { layout := l, stride := l.stride, flat := cs.flatten.flatten,
                      ends := endsOf 0 cs } := by
  unfold Poly.setCoords
  rw [deflate2_eq]
  cases cs.flatten.find? (badLen l.stride) <;> simp <;> rfl

theorem C01_poly_rejects (l : Layout) (cs : List (List (List α))) :
    (∃ c ∈ cs.flatten, c.length ≠ l.stride) ↔
      ∃ g w, Poly.setCoords l cs = .err (.strideMismatch g w) := by
  rw [poly_set_eq]
  cases h : cs.flatten.find? (badLen l.stride) with
  | some c =>
    constructor
    · intro _; exact ⟨_, _, rfl⟩
    · intro _
      refine ⟨c, List.mem_of_find?_eq_some h, ?_⟩
      simpa [badLen] using List.find?_some h
  | none =>
    rw [List.find?_eq_none] at h
    constructor
    · intro ⟨c, hc, hne⟩; exact absurd (by simpa [badLen] using hne) (h c hc)
    · intro ⟨_, _, hh⟩; cases hh

theorem C01_poly_wellFormed (l : Layout) (cs : List (List (List α))) (g : G2 α)
    (h : Poly.setCoords l cs = .ok g) : g.wellFormed = true ∧ g.layout = l := by
  rw [poly_set_eq] at h
  cases hf : cs.flatten.find? (badLen l.stride) with
  | some c => rw [hf] at h; cases h
  | none =>
    rw [hf] at h
    injection h with h; subst h
    rw [List.find?_eq_none] at hf
    have hall : ∀ c ∈ cs.flatten, c.length = l.stride := fun c hc => by
      simpa [badLen] using hf c hc
    refine ⟨?_, rfl⟩
    simp only [G2.wellFormed, beq_self_eq_true, Bool.true_and, Bool.and_eq_true]
    constructor
    · rw [flatten_length_of_all cs.flatten _ hall]; exact aligned_mul _ _
    · have := endsOK_endsOf l.stride 0 cs hall (by simp [aligned])
      simpa using this

theorem C01_poly_roundtrip (l : Layout) (cs : List (List (List α))) (g : G2 α)
    (h : Poly.setCoords l cs = .ok g) (hs : 0 < l.stride) : Poly.coords g = .ok cs := by
  rw [poly_set_eq] at h
  cases hf : cs.flatten.find? (badLen l.stride) with
  | some c => rw [hf] at h; cases h
  | none =>
    rw [hf] at h
    injection h with h; subst h
    rw [List.find?_eq_none] at hf
    have hall : ∀ c ∈ cs.flatten, c.length = l.stride := fun c hc => by
      simpa [badLen] using hf c hc
    have := inflate2_ok [] [] cs l.stride hs hall
    simpa [Poly.coords] using this

/-! ### MultiPolygon -/

theorem mpoly_set_eq (l : Layout) (cs : List (List (List (List α)))) :
    MPoly.setCoords l cs =
      match cs.flatten.flatten.find? (badLen l.stride) with
      | some c => .err (.strideMismatch c.length l.stride)
      | none => .ok { layout := l, stride := l.stride, flat := cs.flatten.flatten.flatten,
                      endss := endssOf 0 cs } := by
  unfold MPoly.setCoords
  rw [deflate3_eq]
  cases cs.flatten.flatten.find? (badLen l.stride) <;> simp <;> rfl

theorem C01_mpoly_rejects (l : Layout) (cs : List (List (List (List α)))) :
    (∃ c ∈ cs.flatten.flatten, c.length ≠ l.stride) ↔
      ∃ g w, MPoly.setCoords l cs = .err (.strideMismatch g w) := by
  rw [mpoly_set_eq]
  cases h : cs.flatten.flatten.find? (badLen l.stride) with
  | some c =>
    constructor
    · intro _; exact ⟨_, _, rfl⟩
    · intro _
      refine ⟨c, List.mem_of_find?_eq_some h, ?_⟩
      simpa [badLen] using List.find?_some h
  | none =>
    rw [List.find?_eq_none] at h
    constructor
    · intro ⟨c, hc, hne⟩; exact absurd (by simpa [badLen] using hne) (h c hc)
    · intro ⟨_, _, hh⟩; cases hh

theorem C01_mpoly_wellFormed (l : Layout) (cs : List (List (List (List α)))) (g : G3 α)
    (h : MPoly.setCoords l cs = .ok g) : g.wellFormed = true ∧ g.layout = l := by
  rw [mpoly_set_eq] at h
  cases hf : cs.flatten.flatten.find? (badLen l.stride) with
  | some c => rw [hf] at h; cases h
  | none =>
    rw [hf] at h
    injection h with h; subst h
    rw [List.find?_eq_none] at hf
    have hall : ∀ c ∈ cs.flatten.flatten, c.length = l.stride := fun c hc => by
      simpa [badLen] using hf c hc
    refine ⟨?_, rfl⟩
    simp only [G3.wellFormed, beq_self_eq_true, Bool.true_and, Bool.and_eq_true]
    constructor
    · rw [flatten_length_of_all cs.flatten.flatten _ hall]; exact aligned_mul _ _
    · rw [flatten_endssOf]
      have := endsOK_endsOf l.stride 0 cs.flatten hall (by simp [aligned])
      simpa using this

theorem C01_mpoly_roundtrip (l : Layout) (cs : List (List (List (List α)))) (g : G3 α)
    (h : MPoly.setCoords l cs = .ok g) (hs : 0 < l.stride) : MPoly.coords g = .ok cs := by
  rw [mpoly_set_eq] at h
  cases hf : cs.flatten.flatten.find? (badLen l.stride) with
  | some c => rw [hf] at h; cases h
  | none =>
    rw [hf] at h
    injection h with h; subst h
    rw [List.find?_eq_none] at hf
    have hall : ∀ c ∈ cs.flatten.flatten, c.length = l.stride := fun c hc => by
      simpa [badLen] using hf c hc
    have := inflate3_ok [] [] cs l.stride hs hall
    simpa [MPoly.coords] using this

/-! ### MultiPoint (nil members = empty points, kept in position) -/

theorem mpoint_set_eq (l : Layout) (cs : List (Option (List α))) :
    MPoint.setCoords l cs =
      match (somes cs).find? (badLen l.stride) with
      | some c => .err (.strideMismatch c.length l.stride)
      | none => .ok { layout := l, stride := l.stride, flat := (somes cs).flatten,
                      ends := mpEndsOf 0 cs } := by
  unfold MPoint.setCoords
  rw [mpSetLoop_eq]
  cases (somes cs).find? (badLen l.stride) <;> simp <;> rfl

theorem C01_mpoint_rejects (l : Layout) (cs : List (Option (List α))) :
    (∃ c ∈ somes cs, c.length ≠ l.stride) ↔
      ∃ g w, MPoint.setCoords l cs = .err (.strideMismatch g w) := by
  rw [mpoint_set_eq]
  cases h : (somes cs).find? (badLen l.stride) with
  | some c =>
    constructor
    · intro _; exact ⟨_, _, rfl⟩
    · intro _
      refine ⟨c, List.mem_of_find?_eq_some h, ?_⟩
      simpa [badLen] using List.find?_some h
  | none =>
    rw [List.find?_eq_none] at h
    constructor
    · intro ⟨c, hc, hne⟩; exact absurd (by simpa [badLen] using hne) (h c hc)
    · intro ⟨_, _, hh⟩; cases hh

theorem C01_mpoint_wellFormed (l : Layout) (cs : List (Option (List α))) (g : G2 α)
    (h : MPoint.setCoords l cs = .ok g) : g.wellFormed = true ∧ g.layout = l := by
  rw [mpoint_set_eq] at h
  cases hf : (somes cs).find? (badLen l.stride) with
  | some c => rw [hf] at h; cases h
  | none =>
    rw [hf] at h
    injection h with h; subst h
    rw [List.find?_eq_none] at hf
    have hall : ∀ c ∈ somes cs, c.length = l.stride := fun c hc => by
      simpa [badLen] using hf c hc
    refine ⟨?_, rfl⟩
    simp only [G2.wellFormed, beq_self_eq_true, Bool.true_and, Bool.and_eq_true]
    constructor
    · rw [flatten_length_of_all (somes cs) _ hall]; exact aligned_mul _ _
    · have := endsOK_mpEndsOf l.stride 0 cs hall (by simp [aligned])
      simpa using this

theorem C01_mpoint_roundtrip (l : Layout) (cs : List (Option (List α))) (g : G2 α)
    (h : MPoint.setCoords l cs = .ok g) (hs : 0 < l.stride) : MPoint.coords g = .ok cs := by
  rw [mpoint_set_eq] at h
  cases hf : (somes cs).find? (badLen l.stride) with
  | some c => rw [hf] at h; cases h
  | none =>
    rw [hf] at h
    injection h with h; subst h
    rw [List.find?_eq_none] at hf
    have hall : ∀ c ∈ somes cs, c.length = l.stride := fun c hc => by
      simpa [badLen] using hf c hc
    have := mpCoordsLoop_ok [] [] cs l.stride hs hall
    simpa [MPoint.coords] using this

/-- **NewMultiPointFlat without explicit ends** over a whole number of coordinates is the MultiPoint
whose members are exactly those coordinates (none empty): the same value SetCoords builds, hence
well formed and read back exactly. -/
theorem C01_newMultiPointFlat (l : Layout) (hs : 0 < l.stride) (cs : List (List α))
    (hall : ∀ c ∈ cs, c.length = l.stride) :
    MPoint.setCoords l (cs.map some) = .ok (MPoint.newFlat l cs.flatten none) ∧
    MPoint.coords (MPoint.newFlat l cs.flatten none) = .ok (cs.map some) := by
  have hsomes : ∀ xs : List (List α), somes (xs.map some) = xs := by
    intro xs; induction xs with
    | nil => rfl
    | cons x xs ih => simp [somes, ih]
  have hfind : (somes (cs.map some)).find? (badLen l.stride) = none := by
    rw [hsomes, List.find?_eq_none]; intro c hc; simp [badLen, hall c hc]
  have hends : ∀ (off : Nat) (xs : List (List α)), (∀ c ∈ xs, c.length = l.stride) →
      mpEndsOf off (xs.map some) = (List.range xs.length).map fun i => off + (i + 1) * l.stride := by
    intro off xs
    induction xs generalizing off with
    | nil => intro _; rfl
    | cons x xs ih =>
      intro hx
      have hxl : x.length = l.stride := hx x (by simp)
      simp only [List.map_cons, mpEndsOf, List.length_cons, List.range_succ_eq_map, List.map_cons,
        List.map_map, hxl]
      rw [ih _ (fun c hc => hx c (by simp [hc]))]
      simp only [Nat.zero_add, Nat.one_mul, List.cons.injEq, true_and]
      apply List.map_congr_left
      intro i _
      simp only [Function.comp]
      have : (i.succ + 1) * l.stride = (i + 1) * l.stride + l.stride := Nat.succ_mul (i + 1) l.stride
      omega
  have hlen := flatten_length_of_all cs l.stride hall
  have heq : MPoint.newFlat l cs.flatten none
      = { layout := l, stride := l.stride, flat := (somes (cs.map some)).flatten,
          ends := mpEndsOf 0 (cs.map some) } := by
    unfold MPoint.newFlat
    rw [hsomes, hends 0 cs hall]
    simp only [hs, if_true, hlen, Nat.mul_div_cancel _ hs, Nat.zero_add]
    by_cases hc : cs = []
    · subst hc; simp
    · have : 0 < cs.length * l.stride := Nat.mul_pos (List.length_pos_iff.mpr hc) hs
      simp [this]
  constructor
  · rw [mpoint_set_eq, hfind, heq]
  · rw [heq]
    exact C01_mpoint_roundtrip l (cs.map some) _ (by rw [mpoint_set_eq, hfind]) hs

/-! ### Point -/

theorem C01_point (l : Layout) (c : List α) :
    (c.length ≠ l.stride → Point.setCoords l c = .err (.strideMismatch c.length l.stride)) ∧
    (c.length = l.stride → ∃ g, Point.setCoords l c = .ok g ∧ g.wellFormedPoint = true ∧
        g.layout = l ∧ Point.coords g = .ok c) := by
  constructor
  · intro h; simp [Point.setCoords, deflate0, h]
  · intro h
    refine ⟨{ layout := l, stride := l.stride, flat := c }, ?_, ?_, rfl, ?_⟩
    · simp [Point.setCoords, deflate0, h]
    · simp [G1.wellFormedPoint, h]
    · have := inflate0_mid [] c [] l.stride h
      simpa [Point.coords, h] using this

/-! ### Non-vacuity: concrete inputs meeting the hypotheses -/

example : ∃ g, Poly.setCoords (α := Nat) 2 [[[1,2,3],[4,5,6]],[],[[7,8,9]]] = .ok g ∧
    g.ends = [6, 6, 9] ∧ 0 < Layout.stride 2 := ⟨_, rfl, rfl, by decide⟩
example : ∃ g, MPoint.setCoords (α := Nat) 1 [none, some [1,2], none] = .ok g ∧
    g.ends = [0, 2, 2] := ⟨_, rfl, rfl⟩
example : ∃ g w, MPoly.setCoords (α := Nat) 1 [[[[1,2],[3]]]] = .err (.strideMismatch g w) :=
  ⟨1, 2, rfl⟩

end GeomVerif.C01

namespace GeomVerif.C01
open GeomVerif
variable {α : Type} [BEq α] [LawfulBEq α]

/-! ### The model satisfies the oracle the driver applies to Go's output -/

theorem any_bad_iff (s : Nat) (cs : List (List α)) :
    cs.any (bad s) = (cs.find? (badLen s)).isSome := by
  induction cs with
  | nil => rfl
  | cons c cs ih =>
    simp only [List.any_cons, List.find?_cons, ih]
    have : bad s c = badLen s c := rfl
    rw [this]; cases badLen s c <;> simp

theorem C01_line_model_holds (l : Layout) (cs : List (List α)) :
    holdsLine l cs (runLine l cs) = true := by
  unfold holdsLine runLine
  rw [any_bad_iff]
  cases hf : cs.find? (badLen l.stride) with
  | some c => rw [line_set_eq, hf]; rfl
  | none =>
    have hset : Line.setCoords l cs = .ok { layout := l, stride := l.stride, flat := cs.flatten } := by
      rw [line_set_eq, hf]
    have hwf := C01_line_wellFormed l cs _ hset
    simp only [Option.isSome_none, Bool.false_eq_true, if_false, hset, Outcome.map, hwf.1,
      beq_self_eq_true, Bool.true_and]
    unfold readBackOK
    by_cases hs : l.stride = 0
    · have hnl := hs
      simp only [hs, beq_self_eq_true, Bool.true_and]
      cases hcs : cs with
      | nil => simp [Line.coords, inflate1, hs]
      | cons c r => simp [Line.coords, inflate1, hs, Outcome.isPanic]
    · have := C01_line_roundtrip l cs _ hset (by omega)
      simp [hs, this]

theorem C01_poly_model_holds (l : Layout) (cs : List (List (List α))) :
    holdsPoly l cs (runPoly l cs) = true := by
  unfold holdsPoly runPoly
  rw [any_bad_iff]
  cases hf : cs.flatten.find? (badLen l.stride) with
  | some c => rw [poly_set_eq, hf]; rfl
  | none =>
    have hset : Poly.setCoords l cs =
        .ok ⟨l, l.stride, cs.flatten.flatten, endsOf 0 cs, 0⟩ := by rw [poly_set_eq, hf]
    have hwf := C01_poly_wellFormed l cs _ hset
    simp only [Option.isSome_none, Bool.false_eq_true, if_false, hset, Outcome.map, hwf.1,
      beq_self_eq_true, Bool.true_and]
    unfold readBackOK
    by_cases hs : l.stride = 0
    · simp only [hs, beq_self_eq_true, Bool.true_and]
      rw [List.find?_eq_none] at hf
      have hall : ∀ c ∈ cs.flatten, c.length = 0 := fun c hc => by
        simpa [badLen, hs] using hf c hc
      cases hcs : cs.flatten.isEmpty with
      | true =>
        have : cs.flatten = [] := by simpa using hcs
        simp only [Bool.not_true, Bool.false_eq_true, if_false]
        have hno : ∀ (off : Nat), inflate2 (α := α) [] off (endsOf off cs) 0 = .ok cs := by
          clear hset hwf hf hall hcs
          induction cs with
          | nil => intro off; rfl
          | cons c r ih =>
            intro off
            have hc : c = [] := by
              simp only [List.flatten_cons, List.append_eq_nil_iff] at this; exact this.1
            have hr : r.flatten = [] := by
              simp only [List.flatten_cons, List.append_eq_nil_iff] at this; exact this.2
            subst hc
            simp only [endsOf, List.flatten_nil, List.length_nil, Nat.add_zero, inflate2, inflate1,
              if_true, Outcome.bind_ok]
            show (inflate2 _ _ _ _ >>= _) = _
            rw [ih hr]; rfl
        have hflat : cs.flatten.flatten = [] := by simp [this]
        simp [Poly.coords, hflat, hs, hno 0]
      | false =>
        simp only [Bool.not_false, if_true]
        have hno : ∀ (fl : List α) (off : Nat) (es : List Nat), (inflate2 fl off es 0).isPanic = false := by
          intro fl off es
          induction es generalizing off with
          | nil => rfl
          | cons e es ih =>
            simp only [inflate2, inflate1, if_true, Outcome.bind_ok]
            have := ih e
            cases h : inflate2 fl e es 0 <;> simp_all [Outcome.isPanic, bind, Outcome.bind]
        simp [Poly.coords, hs, hno]
    · have := C01_poly_roundtrip l cs _ hset (by omega)
      simp [hs, this]

end GeomVerif.C01
