/-
C17 — queries, encoders and decoders are pure and safe to call concurrently.

Theorems about every program that follows the discipline the effect analysis establishes
(reads: shared or own locations; writes: own locations only):
  * C17_shared_unchanged      — after any schedule every shared location holds its initial value
                                (arguments and package variables are not modified);
  * C17_solo_equivalent       — under any schedule, each thread is exactly where it would be after
                                the same number of its own steps run alone, and sees the same memory;
                                so a call that finishes returns the result it returns alone;
  * C17_result_deterministic  — the corollary for results;
  * C17_race_free             — no execution contains two conflicting accesses of different threads.
Non-vacuity: a two-thread example meeting the hypotheses; and a counterexample showing that the
conclusion fails when a thread writes a shared location (so the hypothesis is what carries it).
-/
import GeomVerif.Model.Sched

namespace GeomVerif.C17
open GeomVerif.Sched

variable {L V R : Type} [DecidableEq L]

/-- What thread `i` may touch. -/
def visible (shared : L → Prop) (own : Nat → L → Prop) (i : Nat) : L → Prop :=
  fun l => shared l ∨ own i l

/-- Every thread of the configuration follows the discipline. -/
def Disciplined (shared : L → Prop) (own : Nat → L → Prop) (c : Config L V R) : Prop :=
  ∀ i t, c.threads[i]? = some t → Disc (visible shared own i) (own i) t

/-- Private regions are disjoint from each other and from the shared region. -/
structure Regions (shared : L → Prop) (own : Nat → L → Prop) : Prop where
  disj : ∀ i j l, i ≠ j → own i l → ¬ own j l
  priv : ∀ i l, own i l → ¬ shared l

theorem disc_step {cr cw : L → Prop} {t : Thread L V R} (h : Disc cr cw t) (m : Mem L V) :
    Disc cr cw (t.step m).1 := by
  cases h with
  | done r => exact .done r
  | read l k _ hk => exact hk _
  | write l v k _ hk => exact hk

theorem disc_solo {cr cw : L → Prop} {t : Thread L V R} (h : Disc cr cw t) (m : Mem L V) (n : Nat) :
    Disc cr cw (solo t m n).1 := by
  induction n with
  | zero => exact h
  | succ n ih => exact disc_step ih _

/-- A step only changes locations the thread may write. -/
theorem step_mem_unchanged {cr cw : L → Prop} {t : Thread L V R} (h : Disc cr cw t) (m : Mem L V)
    (l : L) (hl : ¬ cw l) : (t.step m).2 l = m l := by
  cases h with
  | done r => rfl
  | read l' k _ _ => rfl
  | write l' v k hw _ =>
    simp only [Thread.step, upd]
    split
    · next e => subst e; exact absurd hw hl
    · rfl

/-- A step depends only on the locations the thread may read. -/
theorem step_congr {cr cw : L → Prop} {t : Thread L V R} (h : Disc cr cw t) (m m' : Mem L V)
    (hm : ∀ l, cr l → m l = m' l) :
    (t.step m).1 = (t.step m').1 ∧ ∀ l, cr l → (t.step m).2 l = (t.step m').2 l := by
  cases h with
  | done r => exact ⟨rfl, hm⟩
  | read l k hr _ => simp only [Thread.step]; rw [hm l hr]; exact ⟨rfl, hm⟩
  | write l v k hw _ =>
    refine ⟨rfl, fun x hx => ?_⟩
    simp only [Thread.step, upd]
    split
    · rfl
    · exact hm x hx

theorem disciplined_stepAt {shared : L → Prop} {own : Nat → L → Prop} {c : Config L V R}
    (hd : Disciplined shared own c) (j : Nat) : Disciplined shared own (c.stepAt j) := by
  intro i t ht
  unfold Config.stepAt at ht
  split at ht
  · exact hd i t ht
  · next tj htj =>
    simp only at ht
    by_cases hij : j = i
    · subst hij
      have hlt : j < c.threads.length := by
        rcases List.getElem?_eq_some_iff.mp htj with ⟨h, _⟩; exact h
      rw [List.getElem?_set_self hlt] at ht
      cases ht
      exact disc_step (hd j tj htj) _
    · rw [List.getElem?_set_ne hij] at ht
      exact hd i t ht

theorem disciplined_run {shared : L → Prop} {own : Nat → L → Prop} (sched : List Nat) :
    ∀ {c : Config L V R}, Disciplined shared own c → Disciplined shared own (runSched c sched) := by
  induction sched with
  | nil => intro c h; exact h
  | cons j s ih => intro c h; exact ih (disciplined_stepAt h j)

theorem runSched_append (c : Config L V R) (s : List Nat) (j : Nat) :
    runSched c (s ++ [j]) = (runSched c s).stepAt j := by
  simp [runSched, List.foldl_append]

theorem length_stepAt (c : Config L V R) (j : Nat) : (c.stepAt j).threads.length = c.threads.length := by
  unfold Config.stepAt; split <;> simp

/-- Induction on a list from the back. -/
theorem list_snoc_induction {α : Type} {P : List α → Prop} (h0 : P [])
    (hs : ∀ s j, P s → P (s ++ [j])) : ∀ l, P l := by
  intro l
  have : ∀ r : List α, P r.reverse := by
    intro r
    induction r with
    | nil => exact h0
    | cons j r ih => rw [List.reverse_cons]; exact hs _ _ ih
  simpa using this l.reverse

/-- The simulation invariant, proved for every schedule. -/
theorem sim {shared : L → Prop} {own : Nat → L → Prop} (hr : Regions shared own)
    (c : Config L V R) (hd : Disciplined shared own c) (sched : List Nat) :
    (∀ l, shared l → (runSched c sched).mem l = c.mem l) ∧
    ∀ i t, c.threads[i]? = some t →
      (runSched c sched).threads[i]? = some (solo t c.mem (sched.count i)).1 ∧
      ∀ l, visible shared own i l →
        (runSched c sched).mem l = (solo t c.mem (sched.count i)).2 l := by
  induction sched using list_snoc_induction with
  | h0 =>
    refine ⟨fun _ _ => rfl, fun i t ht => ⟨?_, fun _ _ => rfl⟩⟩
    simpa [runSched, solo] using ht
  | hs s j ih =>
    obtain ⟨ihS, ihT⟩ := ih
    rw [runSched_append]
    have hdS : Disciplined shared own (runSched c s) := disciplined_run s hd
    -- what the step of thread j does
    cases hj : (runSched c s).threads[j]? with
    | none =>
      have hstep : (runSched c s).stepAt j = runSched c s := by
        unfold Config.stepAt; rw [hj]
      rw [hstep]
      refine ⟨ihS, fun i t ht => ?_⟩
      have hne : j ≠ i := by
        intro e; subst e
        rw [(ihT j t ht).1] at hj; cases hj
      have hc : (s ++ [j]).count i = s.count i := by
        simp [List.count_append, hne]
      rw [hc]; exact ihT i t ht
    | some tj =>
      have hDj := hdS j tj hj
      have hmem : ((runSched c s).stepAt j).mem = (tj.step (runSched c s).mem).2 := by
        unfold Config.stepAt; rw [hj]
      have hthr : ((runSched c s).stepAt j).threads
          = (runSched c s).threads.set j (tj.step (runSched c s).mem).1 := by
        unfold Config.stepAt; rw [hj]
      refine ⟨fun l hl => ?_, fun i t ht => ?_⟩
      · rw [hmem, step_mem_unchanged hDj _ l (fun ho => hr.priv j l ho hl)]
        exact ihS l hl
      · by_cases hij : j = i
        · subst hij
          have hc : (s ++ [j]).count j = s.count j + 1 := by
            simp [List.count_append]
          obtain ⟨h1, h2⟩ := ihT j t ht
          rw [h1] at hj; cases hj
          rw [hc]
          have hlt : j < (runSched c s).threads.length := by
            rcases List.getElem?_eq_some_iff.mp h1 with ⟨h, _⟩; exact h
          have hcong := step_congr hDj (runSched c s).mem (solo t c.mem (s.count j)).2 h2
          refine ⟨?_, fun l hl => ?_⟩
          · rw [hthr, List.getElem?_set_self hlt]
            simp only [solo]; rw [hcong.1]
          · rw [hmem]; simp only [solo]; exact hcong.2 l hl
        · have hc : (s ++ [j]).count i = s.count i := by
            simp [List.count_append, hij]
          obtain ⟨h1, h2⟩ := ihT i t ht
          rw [hc]
          refine ⟨?_, fun l hl => ?_⟩
          · rw [hthr, List.getElem?_set_ne hij]; exact h1
          · rw [hmem, step_mem_unchanged hDj _ l ?_]
            · exact h2 l hl
            · intro ho
              rcases hl with hs | hoi
              · exact hr.priv j l ho hs
              · exact hr.disj j i l hij ho hoi

/-- Arguments and package variables are never modified, whatever the schedule. -/
theorem C17_shared_unchanged {shared : L → Prop} {own : Nat → L → Prop} (hr : Regions shared own)
    (c : Config L V R) (hd : Disciplined shared own c) (sched : List Nat) (l : L) (hl : shared l) :
    (runSched c sched).mem l = c.mem l :=
  (sim hr c hd sched).1 l hl

/-- Under any schedule each call is exactly where its solo run is after as many of its own steps,
and sees the same memory. -/
theorem C17_solo_equivalent {shared : L → Prop} {own : Nat → L → Prop} (hr : Regions shared own)
    (c : Config L V R) (hd : Disciplined shared own c) (sched : List Nat) (i : Nat) (t : Thread L V R)
    (ht : c.threads[i]? = some t) :
    (runSched c sched).threads[i]? = some (solo t c.mem (sched.count i)).1 ∧
    ∀ l, visible shared own i l → (runSched c sched).mem l = (solo t c.mem (sched.count i)).2 l :=
  (sim hr c hd sched).2 i t ht

theorem solo_done (r : R) (m : Mem L V) (n : Nat) : (solo (.done r : Thread L V R) m n).1 = .done r := by
  induction n with
  | zero => rfl
  | succ n ih => simp only [solo]; rw [ih]; rfl

theorem solo_add (t : Thread L V R) (m : Mem L V) (a b : Nat) :
    solo t m (a + b) = solo (solo t m a).1 (solo t m a).2 b := by
  induction b with
  | zero => rfl
  | succ b ih => rw [← Nat.add_assoc]; simp only [solo]; rw [ih]

/-- If a call finishes with `r` when run alone (after `n` steps), then in every concurrent execution
that gives it at least `n` steps it has finished with the same `r`; and whenever it has finished in
a concurrent execution, it finished with the result of the solo run. -/
theorem C17_result_deterministic {shared : L → Prop} {own : Nat → L → Prop} (hr : Regions shared own)
    (c : Config L V R) (hd : Disciplined shared own c) (sched : List Nat) (i : Nat) (t : Thread L V R)
    (ht : c.threads[i]? = some t) :
    (∀ n r, (solo t c.mem n).1 = .done r → n ≤ sched.count i →
        (runSched c sched).threads[i]? = some (.done r)) ∧
    (∀ r, (runSched c sched).threads[i]? = some (.done r) →
        (solo t c.mem (sched.count i)).1 = .done r) := by
  obtain ⟨h1, _⟩ := C17_solo_equivalent hr c hd sched i t ht
  refine ⟨fun n r hn hle => ?_, fun r hrr => ?_⟩
  · rw [h1]
    obtain ⟨k, hk⟩ := Nat.exists_eq_add_of_le hle
    rw [hk, solo_add, hn, solo_done]
  · rw [h1] at hrr; exact Option.some.inj hrr

/-- Every access in every execution is by a disciplined thread: reads visible, writes own. -/
theorem trace_disc {shared : L → Prop} {own : Nat → L → Prop} (sched : List Nat) :
    ∀ (c : Config L V R), Disciplined shared own c → ∀ i a, (i, a) ∈ trace c sched →
      (∀ l, a = .rd l → visible shared own i l) ∧ (∀ l, a = .wr l → own i l) := by
  induction sched with
  | nil => intro c _ i a h; cases h
  | cons j s ih =>
    intro c hd i a h
    unfold trace at h
    split at h
    · exact ih _ (disciplined_stepAt hd j) i a h
    · next tj htj =>
      rcases List.mem_cons.mp h with h | h
      · cases h
        have hD := hd j tj htj
        cases hD with
        | done r => exact ⟨fun _ e => (by cases e), fun _ e => (by cases e)⟩
        | read l k hl _ => exact ⟨fun _ e => (by cases e; exact hl), fun _ e => (by cases e)⟩
        | write l v k hl _ => exact ⟨fun _ e => (by cases e), fun _ e => (by cases e; exact hl)⟩
      · exact ih _ (disciplined_stepAt hd j) i a h

/-- No execution contains a data race: two accesses by different threads never conflict. -/
theorem C17_race_free {shared : L → Prop} {own : Nat → L → Prop} (hr : Regions shared own)
    (c : Config L V R) (hd : Disciplined shared own c) (sched : List Nat)
    (i j : Nat) (a b : Access L) (hij : i ≠ j)
    (ha : (i, a) ∈ trace c sched) (hb : (j, b) ∈ trace c sched) : ¬ conflict a b := by
  obtain ⟨ar, aw⟩ := trace_disc sched c hd i a ha
  obtain ⟨br, bw⟩ := trace_disc sched c hd j b hb
  intro hc
  cases a <;> cases b <;> simp only [conflict] at hc
  · next l l' => -- rd / wr
    subst hc
    have hw := bw l rfl
    rcases ar l rfl with hs | ho
    · exact hr.priv j l hw hs
    · exact hr.disj i j l hij ho hw
  · next l l' => -- wr / rd
    subst hc
    have hw := aw l rfl
    rcases br l rfl with hs | ho
    · exact hr.priv i l hw hs
    · exact hr.disj i j l hij hw ho
  · next l l' => -- wr / wr
    subst hc
    exact hr.disj i j l hij (aw l rfl) (bw l rfl)

/-! ### Non-vacuity and necessity of the hypothesis -/

section Examples

/-- location 0 is shared (an argument); location `i+1` belongs to thread `i`. -/
def exShared : Nat → Prop := fun l => l = 0
def exOwn : Nat → Nat → Prop := fun i l => l = i + 1

/-- a "query": read the argument, write a scratch cell, read it back, return the sum. -/
def query (i : Nat) : Thread Nat Nat Nat :=
  .read 0 fun x => .write (i + 1) (x + 10) (.read (i + 1) fun y => .done (x + y))

theorem exRegions : Regions exShared exOwn :=
  ⟨fun i j l hij hi hj => by unfold exOwn at *; omega, fun i l hi hs => by unfold exOwn exShared at *; omega⟩

theorem query_disc (i : Nat) : Disc (visible exShared exOwn i) (exOwn i) (query i) :=
  .read _ _ (Or.inl rfl) fun _ => .write _ _ _ rfl (.read _ _ (Or.inr rfl) fun _ => .done _)

def exConfig : Config Nat Nat Nat := { threads := [query 0, query 1], mem := fun _ => 7 }

theorem exDisciplined : Disciplined exShared exOwn exConfig := by
  intro i t ht
  match i, ht with
  | 0, ht => cases ht; exact query_disc 0
  | 1, ht => cases ht; exact query_disc 1

/-- the hypotheses of the theorems are met by a non-trivial configuration, and the conclusion is
what one expects: both interleaved calls return 24, the argument still holds 7 -/
example : ((runSched exConfig [0, 1, 1, 0, 1, 0, 0, 1]).threads.map Thread.result?, (runSched exConfig [0, 1, 1, 0, 1, 0, 0, 1]).mem 0)
    = ([some 24, some 24], 7) := by decide

/-- A function that writes a *shared* cell (a cached value, a reused scratch buffer): the result of
another call depends on the schedule — the discipline is exactly what the theorems need. -/
def scratchQuery : Thread Nat Nat Nat :=
  .read 0 fun x => .write 5 (x + 1) (.read 5 fun y => .done y)
def clobber : Thread Nat Nat Nat := .write 5 100 (.done 0)
def badConfig : Config Nat Nat Nat := { threads := [scratchQuery, clobber], mem := fun _ => 7 }

example : ((runSched badConfig [0, 0, 0, 1]).threads.map Thread.result?) = [some 8, some 0] := by decide
example : ((runSched badConfig [0, 0, 1, 0]).threads.map Thread.result?) = [some 100, some 0] := by decide
example : ∃ a b, (0, a) ∈ trace badConfig [0, 0, 1, 0] ∧ (1, b) ∈ trace badConfig [0, 0, 1, 0] ∧ conflict a b :=
  ⟨.wr 5, .wr 5, by decide, by decide, rfl⟩

end Examples

end GeomVerif.C17
