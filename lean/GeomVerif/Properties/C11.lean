/-
C11 — point location.  Exact-arithmetic facts (any linearly ordered field) behind the
ray-crossing counter: the crossing test through the sign of a 2x2 determinant is the test
"the exact intersection abscissa is to the right of the point"; a zero determinant on a
straddling edge means the point is on the edge; edges strictly to the left never count;
the entry-permutation stage of Devillers' algorithm preserves sign·determinant.
Not proved (second-pass target): the Euclidean main loop of SignOfDet2x2 and the fold over
all edges; both are decided per explored input by the exact even-odd oracle (exhaustive on
all triangles of the 4x4 grid each run).
-/
import Mathlib.Tactic.Ring
import Mathlib.Tactic.Linarith
import Mathlib.Tactic.FieldSimp
import Mathlib.Algebra.Order.Field.Basic
import GeomVerif.Model.Locate

namespace GeomVerif.Locate

section field
variable {K : Type} [Field K] [LinearOrder K] [IsStrictOrderedRing K]

/-- Exact abscissa where the line through (x1,y1),(x2,y2) meets the x-axis. -/
noncomputable def xInt (x1 y1 x2 y2 : K) : K := (x1 * y2 - x2 * y1) / (y2 - y1)

/-- It is the point of the segment's carrier line with ordinate 0. -/
theorem xInt_on_line (x1 y1 x2 y2 : K) (h : y1 ≠ y2) :
    xInt x1 y1 x2 y2 = x1 + (0 - y1) * (x2 - x1) / (y2 - y1) := by
  have hne : y2 - y1 ≠ 0 := sub_ne_zero.mpr (Ne.symm h)
  unfold xInt; field_simp; ring

/-- **Crossing rule**: with the counter's sign adjustment (`xIntSign = -xIntSign` when y2 < y1),
"adjusted determinant > 0" is exactly "the edge meets the ray strictly to the right of the point". -/
theorem C11_crossing_sign (x1 y1 x2 y2 : K) (h : y1 ≠ y2) :
    0 < xInt x1 y1 x2 y2 ↔ 0 < (if y2 < y1 then -(x1 * y2 - x2 * y1) else x1 * y2 - x2 * y1) := by
  unfold xInt
  rcases lt_or_gt_of_ne h with hlt | hgt
  · -- y1 < y2
    have hpos : 0 < y2 - y1 := sub_pos.mpr hlt
    rw [if_neg (not_lt.mpr (le_of_lt hlt)), div_pos_iff_of_pos_right hpos]
  · have hneg : y2 - y1 < 0 := sub_neg.mpr hgt
    rw [if_pos hgt]
    constructor
    · intro hq
      by_contra hc
      have : 0 ≤ x1 * y2 - x2 * y1 := by linarith [not_lt.mp hc]
      have := div_nonpos_of_nonneg_of_nonpos this (le_of_lt hneg)
      linarith
    · intro hq
      exact div_pos_of_neg_of_neg (by linarith) hneg

/-- **Boundary rule**: on an edge that straddles the ray's line, a zero determinant means the
intersection abscissa is exactly the point's: the point lies on the edge. -/
theorem C11_zero_det_on_edge (x1 y1 x2 y2 : K) (h : y1 ≠ y2) :
    x1 * y2 - x2 * y1 = 0 ↔ xInt x1 y1 x2 y2 = 0 := by
  have hne : y2 - y1 ≠ 0 := sub_ne_zero.mpr (Ne.symm h)
  unfold xInt
  constructor
  · intro h0; rw [h0, zero_div]
  · intro h0; exact (div_eq_zero_iff.mp h0).resolve_right hne

/-- **Left-of-point shortcut**: an edge with both ends strictly left of the point meets the ray's
line strictly to the left, so skipping it loses neither a crossing nor a boundary hit. -/
theorem C11_left_edge_never_counts (x1 y1 x2 y2 : K) (hx1 : x1 < 0) (hx2 : x2 < 0)
    (hs : (0 < y1 ∧ y2 ≤ 0) ∨ (0 < y2 ∧ y1 ≤ 0)) : xInt x1 y1 x2 y2 < 0 := by
  unfold xInt
  rcases hs with ⟨h1, h2⟩ | ⟨h2, h1⟩
  · have hden : y2 - y1 < 0 := by linarith
    have e1 := mul_nonneg (le_of_lt (neg_pos.mpr hx1)) (neg_nonneg.mpr h2)
    have e2 := mul_pos (neg_pos.mpr hx2) h1
    have hnum : 0 < x1 * y2 - x2 * y1 := by nlinarith [e1, e2]
    exact div_neg_of_pos_of_neg hnum hden
  · have hden : 0 < y2 - y1 := by linarith
    have e1 := mul_pos (neg_pos.mpr hx1) h2
    have e2 := mul_nonneg (le_of_lt (neg_pos.mpr hx2)) (neg_nonneg.mpr h1)
    have hnum : x1 * y2 - x2 * y1 < 0 := by nlinarith [e1, e2]
    exact div_neg_of_neg_of_pos hnum hden
end field

section ring
variable {R : Type} [CommRing R]

/-- **Devillers, permutation stage**: each of the eight ways the entries are negated / exchanged so
that 0 < y1 ≤ y2, together with the recorded sign, preserves sign·(x1·y2 − x2·y1). -/
theorem C11_devillers_normalize (x1 y1 x2 y2 : R) :
    (-1 : R) * (x2 * y1 - x1 * y2) = x1 * y2 - x2 * y1 ∧                   -- swap rows, sign −
    (-1 : R) * (x1 * (-y2) - (-x2) * y1) = x1 * y2 - x2 * y1 ∧             -- negate row 2, sign −
    ((-x2) * y1 - x1 * (-y2)) = x1 * y2 - x2 * y1 ∧                        -- (−row2, row1), sign +
    (-1 : R) * ((-x1) * y2 - x2 * (-y1)) = x1 * y2 - x2 * y1 ∧             -- negate row 1, sign −
    (x2 * (-y1) - (-x1) * y2) = x1 * y2 - x2 * y1 ∧                        -- (row2, −row1), sign +
    ((-x1) * (-y2) - (-x2) * (-y1)) = x1 * y2 - x2 * y1 ∧                  -- negate both, sign +
    (-1 : R) * ((-x2) * (-y1) - (-x1) * (-y2)) = x1 * y2 - x2 * y1 := by   -- (−row2, −row1), sign −
  refine ⟨by ring, by ring, by ring, by ring, by ring, by ring, by ring⟩

/-- **Devillers, reduction step**: replacing row 2 by row 2 − k·row 1 (the Euclidean step of the
main loop) leaves the determinant unchanged; replacing it by row 1 − row 2 negates it. -/
theorem C11_devillers_step (x1 y1 x2 y2 k : R) :
    x1 * (y2 - k * y1) - (x2 - k * x1) * y1 = x1 * y2 - x2 * y1 ∧
    x1 * (y1 - y2) - (x1 - x2) * y1 = -(x1 * y2 - x2 * y1) := by
  constructor <;> ring
end ring

/-- Non-vacuity / executable check of the whole routine on exact integers (for positive
operands Lean's `Int` division is the floor the loop takes). -/
def intDet : DetOps Int where
  zero := 0
  add := (· + ·)
  sub := (· - ·)
  mul := (· * ·)
  sqrt := id
  half := (· / 2)
  div := (· / ·)
  one := 1
  lt := fun a b => a < b
  isZero := fun a => a == 0
  floor := id
  neg := fun a => -a

example : signOfDet2x2 intDet 100 7 3 12 5 = -1 ∧ signOfDet2x2 intDet 100 6 4 9 6 = 0 ∧
    signOfDet2x2 intDet 100 (-3) 5 2 7 = -1 := by decide

end GeomVerif.Locate
