/-
C08 — bounds are the tight per-dimension box; overlap tests are closed-interval
arithmetic.  Statements are over any linear order (float64 without NaN is one).
-/
import Mathlib.Order.MinMax
import GeomVerif.Lemmas.Bounds

namespace GeomVerif.C08
open GeomVerif
variable {α : Type}

/-- Order operations of a linear order with chosen +Inf / -Inf elements. -/
def linOps [LinearOrder α] (top bot : α) : OrdOps α :=
  ⟨min, max, fun a b => decide (a < b), top, bot⟩

/-- **Bounds() of a flat geometry is the fold of coordinate-wise min / max** over all of its
coordinates, starting from (+Inf, -Inf), for every layout of positive stride (incl. Layout(n>4)),
every number of coordinates (incl. none: the box stays (+Inf,-Inf) = empty), any order ops. -/
theorem C08_bounds_flat_fold (o : OrdOps α) (l : Layout) (hs : 0 < l.stride)
    (cs : List (List α)) (hall : ∀ c ∈ cs, c.length = l.stride) :
    BGeom.bounds o (.flat l l.stride cs.flatten) =
      .ok ⟨l, cs.foldl (zipPrefix o.min) (List.replicate l.stride o.top),
              cs.foldl (zipPrefix o.max) (List.replicate l.stride o.bot)⟩ := by
  have hlen := flatten_length_of_all cs _ hall
  simp only [BGeom.bounds, Bounds.extendFlatCoords, newBounds, Bounds.extendStride,
    Nat.sub_self, List.replicate_zero, List.append_nil, Nat.sub_zero, List.drop_zero]
  rw [if_neg (by omega)]
  have hn : (cs.flatten.length + l.stride - 1) / l.stride = cs.length := by
    rw [hlen]
    have : cs.length * l.stride + l.stride - 1 = (l.stride - 1) + l.stride * cs.length := by
      rw [Nat.mul_comm]; omega
    rw [this, Nat.add_mul_div_left _ _ hs, Nat.div_eq_of_lt (by omega)]; omega
  rw [hn]
  have := extendLoop_eq o l.stride cs [] (List.replicate l.stride o.top)
    (List.replicate l.stride o.bot) hall (by simp) (by simp)
  rw [List.append_nil] at this
  rw [this]; rfl

section order
variable [LinearOrder α]

theorem zipPrefix_getElem? (f : α → α → α) (acc c : List α) (j : Nat) :
    (zipPrefix f acc c)[j]? =
      match acc[j]?, c[j]? with
      | some a, some w => some (f a w)
      | some a, none => some a
      | none, _ => none := by
  induction c generalizing acc j with
  | nil =>
    have : zipPrefix f acc [] = acc := by cases acc <;> rfl
    rw [this]; cases h : acc[j]? <;> simp
  | cons x xs ih =>
    cases acc with
    | nil => simp [zipPrefix]
    | cons a acc =>
      cases j with
      | zero => simp [zipPrefix]
      | succ j => simp [zipPrefix, ih]

/-- The folded minimum in slot `j` is the greatest lower bound of the start value and the
`j`-th ordinate of every coordinate: *exactly* the minimum, not merely a lower bound. -/
theorem C08_fold_min_is_glb (cs : List (List α)) (mn : List α) (j : Nat) (s : Nat)
    (hall : ∀ c ∈ cs, c.length = s) (hj : j < s) (hmn : mn.length = s) (x : α) :
    (∀ v, (cs.foldl (zipPrefix min) mn)[j]? = some v → x ≤ v) ↔
      (∀ m, mn[j]? = some m → x ≤ m) ∧ ∀ c ∈ cs, ∀ w, c[j]? = some w → x ≤ w := by
  induction cs generalizing mn with
  | nil => simp
  | cons c cs ih =>
    have hc : c.length = s := hall c (by simp)
    have hrest : ∀ c' ∈ cs, c'.length = s := fun c' hc' => hall c' (by simp [hc'])
    have hlen : (zipPrefix min mn c).length = s := by
      rw [zipPrefix_length _ _ _ (by omega)]; exact hmn
    rw [List.foldl_cons, ih _ hrest hlen]
    obtain ⟨m, hm⟩ : ∃ m, mn[j]? = some m := ⟨mn[j]'(by omega), by simp [hmn, hj]⟩
    obtain ⟨w, hw⟩ : ∃ w, c[j]? = some w := ⟨c[j]'(by omega), by simp [hc, hj]⟩
    simp only [zipPrefix_getElem?, hm, hw, Option.some.injEq, forall_eq', le_min_iff,
      List.mem_cons, forall_eq_or_imp]
    constructor
    · rintro ⟨⟨h1, h2⟩, h3⟩; exact ⟨h1, h2, h3⟩
    · rintro ⟨h1, h2, h3⟩; exact ⟨⟨h1, h2⟩, h3⟩

/-- Dual statement for the maximum (least upper bound). -/
theorem C08_fold_max_is_lub (cs : List (List α)) (mx : List α) (j : Nat) (s : Nat)
    (hall : ∀ c ∈ cs, c.length = s) (hj : j < s) (hmx : mx.length = s) (x : α) :
    (∀ v, (cs.foldl (zipPrefix max) mx)[j]? = some v → v ≤ x) ↔
      (∀ m, mx[j]? = some m → m ≤ x) ∧ ∀ c ∈ cs, ∀ w, c[j]? = some w → w ≤ x := by
  induction cs generalizing mx with
  | nil => simp
  | cons c cs ih =>
    have hc : c.length = s := hall c (by simp)
    have hrest : ∀ c' ∈ cs, c'.length = s := fun c' hc' => hall c' (by simp [hc'])
    have hlen : (zipPrefix max mx c).length = s := by
      rw [zipPrefix_length _ _ _ (by omega)]; exact hmx
    rw [List.foldl_cons, ih _ hrest hlen]
    obtain ⟨m, hm⟩ : ∃ m, mx[j]? = some m := ⟨mx[j]'(by omega), by simp [hmx, hj]⟩
    obtain ⟨w, hw⟩ : ∃ w, c[j]? = some w := ⟨c[j]'(by omega), by simp [hc, hj]⟩
    simp only [zipPrefix_getElem?, hm, hw, Option.some.injEq, forall_eq', max_le_iff,
      List.mem_cons, forall_eq_or_imp]
    constructor
    · rintro ⟨⟨h1, h2⟩, h3⟩; exact ⟨h1, h2, h3⟩
    · rintro ⟨h1, h2, h3⟩; exact ⟨⟨h1, h2⟩, h3⟩

/-- **Overlaps = closed-interval arithmetic**: the box/box (and, with `mn2 = mx2 = p`, the
box/point) test returns true exactly when in every dimension some value lies in both closed
intervals. Boxes are lists of per-dimension intervals with `lo ≤ hi`. -/
theorem C08_overlaps_iff [Inhabited α] (top bot : α) (n : Nat) (mn mx mn2 mx2 : List α)
    (h1 : n ≤ mn.length) (h2 : n ≤ mx.length) (h3 : n ≤ mn2.length) (h4 : n ≤ mx2.length)
    (hv : ∀ i, i < n → mn[i]! ≤ mx[i]!) (hv2 : ∀ i, i < n → mn2[i]! ≤ mx2[i]!) :
    overlapsLoop (linOps top bot) n mn mx mn2 mx2 = .ok true ↔
      ∀ i, i < n → ∃ x, mn[i]! ≤ x ∧ x ≤ mx[i]! ∧ mn2[i]! ≤ x ∧ x ≤ mx2[i]! := by
  induction n generalizing mn mx mn2 mx2 with
  | zero => simp [overlapsLoop]
  | succ n ih =>
    match mn, mx, mn2, mx2, h1, h2, h3, h4 with
    | a :: mn, b :: mx, c :: mn2, d :: mx2, h1, h2, h3, h4 =>
      simp only [List.length_cons, Nat.add_le_add_iff_right] at h1 h2 h3 h4
      have hab : a ≤ b := by simpa using hv 0 (by omega)
      have hcd : c ≤ d := by simpa using hv2 0 (by omega)
      have hv' : ∀ i, i < n → mn[i]! ≤ mx[i]! := fun i hi => by
        simpa using hv (i + 1) (by omega)
      have hv2' : ∀ i, i < n → mn2[i]! ≤ mx2[i]! := fun i hi => by
        simpa using hv2 (i + 1) (by omega)
      have ih' := ih mn mx mn2 mx2 h1 h2 h3 h4 hv' hv2'
      simp only [overlapsLoop, linOps, Bool.or_eq_true, decide_eq_true_eq] at ih' ⊢
      by_cases hdis : d < a ∨ b < c
      · rw [if_pos hdis]
        simp only [Outcome.ok.injEq, Bool.false_eq_true, false_iff, not_forall]
        refine ⟨0, by omega, ?_⟩
        rintro ⟨x, hx1, hx2, hx3, hx4⟩
        simp only [List.getElem!_cons_zero] at hx1 hx2 hx3 hx4
        rcases hdis with h | h
        · exact absurd (le_trans hx1 hx4) (not_le.mpr h)
        · exact absurd (le_trans hx3 hx2) (not_le.mpr h)
      · rw [if_neg hdis, ih']
        push_neg at hdis
        constructor
        · intro h i hi
          cases i with
          | zero =>
            refine ⟨max a c, ?_⟩
            simp only [List.getElem!_cons_zero]
            exact ⟨le_max_left _ _, max_le hab hdis.2, le_max_right _ _, max_le hdis.1 hcd⟩
          | succ i => simpa using h i (by omega)
        · intro h i hi
          simpa using h (i + 1) (by omega)

end order

/-- Non-vacuity: a triangle in XYM; bounds keep M in its slot. -/
example : BGeom.bounds (linOps (1000 : Int) (-1000)) (.flat 3 3 [0,0,7, 4,0,9, 0,3,8])
    = .ok ⟨3, [0,0,7], [4,3,9]⟩ := by decide

end GeomVerif.C08
