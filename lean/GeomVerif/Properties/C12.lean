/-
C12 — segment intersection.  Exact-arithmetic facts (any linearly ordered field) behind the
robust classification and the computed point:
  * both ends of one segment strictly on the same side of the other's carrier ⇒ no common
    point (the two early "no intersection" exits are sound);
  * one end strictly on each side, or an end on the carrier, is necessary for a common point
    (so nothing is lost by those exits);
  * the homogeneous-coordinate formula is the common point of the two carrier lines, and it is
    translation invariant, so normalising to the envelope centre and adding it back is exact.
Not proved (oracle + correspondence, exhaustive on the 3x3 grid each run): the collinear case
analysis against interval intersection, and the rounding distance of the computed point.
-/
import Mathlib.Tactic.Ring
import Mathlib.Tactic.Linarith
import Mathlib.Tactic.FieldSimp
import Mathlib.Algebra.Order.Field.Basic
import GeomVerif.Model.Intersect

namespace GeomVerif.Intersect

section field
variable {K : Type} [Field K] [LinearOrder K] [IsStrictOrderedRing K]

/-- Orientation determinant of `p` relative to the directed line a→b. -/
def side (ax ay bx by_ px py : K) : K := (bx - ax) * (py - ay) - (by_ - ay) * (px - ax)

/-- `side` is affine along a segment. -/
theorem side_affine (ax ay bx by_ cx cy dx dy t : K) :
    side ax ay bx by_ (cx + t * (dx - cx)) (cy + t * (dy - cy))
      = (1 - t) * side ax ay bx by_ cx cy + t * side ax ay bx by_ dx dy := by
  unfold side; ring

/-- **Early exit is sound**: if both ends of c–d are strictly on the same side of the carrier of
a–b, no point of the closed segment c–d lies on that carrier, hence the segments are disjoint. -/
theorem C12_same_side_disjoint (ax ay bx by_ cx cy dx dy t : K) (ht0 : 0 ≤ t) (ht1 : t ≤ 1)
    (h : (0 < side ax ay bx by_ cx cy ∧ 0 < side ax ay bx by_ dx dy) ∨
         (side ax ay bx by_ cx cy < 0 ∧ side ax ay bx by_ dx dy < 0)) :
    side ax ay bx by_ (cx + t * (dx - cx)) (cy + t * (dy - cy)) ≠ 0 := by
  rw [side_affine]
  rcases h with ⟨h1, h2⟩ | ⟨h1, h2⟩
  · have : 0 < (1 - t) * side ax ay bx by_ cx cy + t * side ax ay bx by_ dx dy := by
      rcases eq_or_lt_of_le ht0 with h0 | h0
      · subst h0; simpa using h1
      · have := mul_pos h0 h2
        have := mul_nonneg (sub_nonneg.mpr ht1) (le_of_lt h1)
        linarith
    exact ne_of_gt this
  · have : (1 - t) * side ax ay bx by_ cx cy + t * side ax ay bx by_ dx dy < 0 := by
      rcases eq_or_lt_of_le ht0 with h0 | h0
      · subst h0; simpa using h1
      · have := mul_neg_of_pos_of_neg h0 h2
        have := mul_nonpos_of_nonneg_of_nonpos (sub_nonneg.mpr ht1) (le_of_lt h1)
        linarith
    exact ne_of_lt this

/-- A point on the carrier of a–b has `side = 0` (so a common point forces the exits' negation). -/
theorem side_on_carrier (ax ay bx by_ s : K) :
    side ax ay bx by_ (ax + s * (bx - ax)) (ay + s * (by_ - ay)) = 0 := by
  unfold side; ring

/-- **Homogeneous coordinates are exact**: with a non-zero weight, the computed (x/w, y/w) lies on
both carrier lines. -/
theorem C12_hcoords_on_both_lines (ax ay bx by_ cx cy dx dy : K)
    (hw : (ay - by_) * (dx - cx) - (cy - dy) * (bx - ax) ≠ 0) :
    let l1w := ax * by_ - bx * ay
    let l2w := cx * dy - dx * cy
    let w := (ay - by_) * (dx - cx) - (cy - dy) * (bx - ax)
    let x := ((bx - ax) * l2w - (dx - cx) * l1w) / w
    let y := ((cy - dy) * l1w - (ay - by_) * l2w) / w
    side ax ay bx by_ x y = 0 ∧ side cx cy dx dy x y = 0 := by
  intro l1w l2w w x y
  have hw' : w ≠ 0 := hw
  constructor
  · show (bx - ax) * (y - ay) - (by_ - ay) * (x - ax) = 0
    simp only [x, y]
    field_simp
    simp only [l1w, l2w, w]; ring
  · show (dx - cx) * (y - cy) - (dy - cy) * (x - cx) = 0
    simp only [x, y]
    field_simp
    simp only [l1w, l2w, w]; ring

/-- **Normalisation cancels**: translating all four endpoints by −n and the result by +n gives
the same point (x-coordinate shown; y is symmetric), so the envelope-centre normalisation
changes only rounding, never the exact answer. -/
theorem C12_hcoords_translation (ax ay bx by_ cx cy dx dy nx ny : K)
    (hw : (ay - by_) * (dx - cx) - (cy - dy) * (bx - ax) ≠ 0) :
    (((bx - nx) - (ax - nx)) * ((cx - nx) * (dy - ny) - (dx - nx) * (cy - ny))
        - ((dx - nx) - (cx - nx)) * ((ax - nx) * (by_ - ny) - (bx - nx) * (ay - ny)))
      / (((ay - ny) - (by_ - ny)) * ((dx - nx) - (cx - nx)) - ((cy - ny) - (dy - ny)) * ((bx - nx) - (ax - nx)))
      + nx
    = ((bx - ax) * (cx * dy - dx * cy) - (dx - cx) * (ax * by_ - bx * ay))
      / ((ay - by_) * (dx - cx) - (cy - dy) * (bx - ax)) := by
  have e : ((ay - ny) - (by_ - ny)) * ((dx - nx) - (cx - nx)) - ((cy - ny) - (dy - ny)) * ((bx - nx) - (ax - nx))
      = (ay - by_) * (dx - cx) - (cy - dy) * (bx - ax) := by ring
  rw [e]
  field_simp
  ring
end field

/-- Non-vacuity: for the diagonals of a square the weight is non-zero and (1,1) is on both. -/
example : ((0 : Rat) - 2) * (2 - 0) - (2 - 0) * (2 - 0) ≠ 0 ∧
    side (0 : Rat) 0 2 2 1 1 = 0 ∧ side (0 : Rat) 2 2 0 1 1 = 0 := by
  refine ⟨by norm_num, by norm_num [side], by norm_num [side]⟩

end GeomVerif.Intersect
