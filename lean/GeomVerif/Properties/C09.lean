/-
C09 — Length and Area are the exact measures (over any commutative ring: exact
arithmetic), additive over parts, dependent only on X,Y, and total on every
well-formed geometry including empty rings / polygons at any position.
What is NOT proved here: the floating-point rounding bound (decided per explored input
by the rational oracle against the bit-exact float mirror of the same definitions).
-/
import GeomVerif.Lemmas.Measure

namespace GeomVerif.C09T
open GeomVerif
variable {α : Type} [CommRing α] [Inhabited α]

/-- In exact arithmetic the trapezoid sum the code computes is, for a closed ring, the
shoelace sum Σ(xᵢyᵢ₊₁ − xᵢ₊₁yᵢ) = twice the signed area, counter-clockwise positive. -/
theorem C09_trapezoid_is_shoelace (p : α × α) (ps : List (α × α))
    (hclosed : (p :: ps).getLast (by simp) = p) :
    trapSum (p :: ps) = crossSum (p :: ps) := by
  rw [trapSum_eq_crossSum_add, hclosed]; ring

/-- LinearRing.Area ×2 on a ring stored anywhere in a flat array, for every stride ≥ 2
(extra dimensions ignored), every number of vertices: never panics, equals the exact
shoelace sum when the ring is closed. -/
theorem C09_ring_area (sq hf : α → α) (s : Nat) (hs : 2 ≤ s) (c : List α) (cs : List (List α))
    (hall : ∀ c' ∈ c :: cs, c'.length = s)
    (hclosed : ((c :: cs).map xyOf).getLast (by simp) = xyOf c) :
    doubleArea1 (ringArith sq hf) (c :: cs).flatten 0 (c :: cs).flatten.length s
      = .ok (crossSum ((c :: cs).map xyOf)) := by
  have := doubleArea1_eq sq hf s hs [] [] (c :: cs) hall
  simp only [List.nil_append, List.append_nil, List.length_nil, Nat.zero_add] at this
  rw [this, List.map_cons, C09_trapezoid_is_shoelace _ _ (by simpa using hclosed)]

/-- Polygon: Area ×2 is the sum over its rings (additivity), total for empty rings anywhere. -/
theorem C09_polygon_area_additive (sq hf : α → α) (s : Nat) (hs : 2 ≤ s)
    (css : List (List (List α))) (hall : ∀ c ∈ css.flatten, c.length = s) :
    doubleArea2 (ringArith sq hf) css.flatten.flatten s (endsOf 0 css) 0 0
      = .ok ((css.map fun cs => trapSum (cs.map xyOf)).sum) := by
  have := doubleArea2_eq sq hf s hs [] [] css hall 0
  simp only [List.nil_append, List.append_nil, List.length_nil, zero_add] at this
  exact this

/-- MultiPolygon: Area ×2 is the sum over polygons of the sum over rings; in particular it
never panics when some polygons are empty, at any position (defect D1 repaired). -/
theorem C09_multipolygon_area_additive (sq hf : α → α) (s : Nat) (hs : 2 ≤ s)
    (csss : List (List (List (List α)))) (hall : ∀ c ∈ csss.flatten.flatten, c.length = s) :
    doubleArea3 (ringArith sq hf) csss.flatten.flatten.flatten s (endssOf 0 csss) 0 0
      = .ok ((csss.map fun css => (css.map fun cs => trapSum (cs.map xyOf)).sum).sum) := by
  have := doubleArea3_eq sq hf s hs [] [] csss hall 0
  simp only [List.nil_append, List.append_nil, List.length_nil, zero_add] at this
  exact this

/-- LineString / LinearRing length = Σ sqrt(dx²+dy²) over consecutive vertices. -/
theorem C09_line_length (sq hf : α → α) (s : Nat) (hs : 2 ≤ s) (cs : List (List α))
    (hall : ∀ c ∈ cs, c.length = s) :
    length1 (ringArith sq hf) cs.flatten 0 cs.flatten.length s
      = .ok (lenSum sq (cs.map xyOf)) := by
  have := length1_eq sq hf s hs [] [] cs hall
  simp only [List.nil_append, List.append_nil, List.length_nil, Nat.zero_add] at this
  exact this

/-- Polygon perimeter / MultiLineString length is the sum over parts. -/
theorem C09_parts_length_additive (sq hf : α → α) (s : Nat) (hs : 2 ≤ s)
    (css : List (List (List α))) (hall : ∀ c ∈ css.flatten, c.length = s) :
    length2 (ringArith sq hf) css.flatten.flatten s (endsOf 0 css) 0 0
      = .ok ((css.map fun cs => lenSum sq (cs.map xyOf)).sum) := by
  have := length2_eq sq hf s hs [] [] css hall 0
  simp only [List.nil_append, List.append_nil, List.length_nil, zero_add] at this
  exact this

/-- MultiPolygon length is the sum over polygons; total with empty polygons anywhere. -/
theorem C09_multipolygon_length_additive (sq hf : α → α) (s : Nat) (hs : 2 ≤ s)
    (csss : List (List (List (List α)))) (hall : ∀ c ∈ csss.flatten.flatten, c.length = s) :
    length3 (ringArith sq hf) csss.flatten.flatten.flatten s (endssOf 0 csss) 0 0
      = .ok ((csss.map fun css => (css.map fun cs => lenSum sq (cs.map xyOf)).sum).sum) := by
  have := length3_eq sq hf s hs [] [] csss hall 0
  simp only [List.nil_append, List.append_nil, List.length_nil, zero_add] at this
  exact this

/-- Points and lines have zero area, for every content. -/
theorem C09_zero_area (A : Arith α) (s : Nat) (f : List α) (ends : List Nat) :
    (MGeom.point s f).area A = .ok A.zero ∧ (MGeom.lineString s f).area A = .ok A.zero ∧
    (MGeom.multiPoint s f ends).area A = .ok A.zero ∧
    (MGeom.multiLineString s f ends).area A = .ok A.zero := ⟨rfl, rfl, rfl, rfl⟩

/-- Non-vacuity: a CCW unit square in XYM with an empty polygon before and after it. -/
example : doubleArea3 (ringArith (α := Int) id id)
    [0,0,9, 1,0,9, 1,1,9, 0,1,9, 0,0,9] 3 [[], [15], []] 0 0 = .ok 2 := by decide

end GeomVerif.C09T
