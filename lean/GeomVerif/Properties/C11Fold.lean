/-
C11 — the ray-crossing counter over a whole ring equals the even-odd rule, in exact arithmetic.

For every linearly ordered field, every closed ring (first vertex = last vertex) and every point:
given that the determinant-sign routine returns the exact sign on the calls the ring causes
(hypothesis `DetOK` per edge — discharged in Properties/C11Det.lean, where the whole routine
including its Euclidean loop is proved exact), `LocatePointInRing` returns
  boundary  iff the point lies on some edge (collinear and between the end points),
  interior  iff it lies on no edge and an odd number of edges cross the ray to its right,
  exterior  otherwise
— including all the early exits of countSegment: edges entirely to the left, horizontal edges,
vertices level with the point (an end point exactly on the ray's line counts as below it), and
the early return at the first boundary hit.
-/
import GeomVerif.Properties.C11

namespace GeomVerif.Locate

section field
variable {K : Type} [Field K] [LinearOrder K] [IsStrictOrderedRing K]

/-- Exact sign as the integer the routine returns. -/
def sgnInt (d : K) : Int := if 0 < d then 1 else if d < 0 then -1 else 0

/-- The operations behave as the field's (the float run is a different instance). -/
structure Lawful (F : DetOps K) : Prop where
  lt : ∀ a b, F.lt a b = decide (a < b)
  sub : ∀ a b, F.sub a b = a - b

/-! ### The specification: even-odd rule -/

def crossK (a b p : K × K) : K := (b.1 - a.1) * (p.2 - a.2) - (b.2 - a.2) * (p.1 - a.1)

def onSegK (a b p : K × K) : Prop :=
  crossK a b p = 0 ∧ min a.1 b.1 ≤ p.1 ∧ p.1 ≤ max a.1 b.1 ∧ min a.2 b.2 ≤ p.2 ∧ p.2 ≤ max a.2 b.2

def crossesRayK (p a b : K × K) : Prop :=
  ((p.2 < a.2 ∧ b.2 ≤ p.2) ∨ (p.2 < b.2 ∧ a.2 ≤ p.2)) ∧
    p.1 < a.1 + (p.2 - a.2) * (b.1 - a.1) / (b.2 - a.2)

/-! ### One edge -/

/-- What countSegment does, stated with the field's order (segment from `b` to `a`: the code
passes `p1 = b`, `p2 = a` for consecutive ring vertices `a`, `b`). -/
theorem countSegment_eq (F : DetOps K) (hF : Lawful F) (fuel : Nat)
    (px py : K) (c : Counter) (bx by_ ax ay : K)
    (hdet : signOfDet2x2 F fuel (bx - px) (by_ - py) (ax - px) (ay - py)
      = sgnInt ((bx - px) * (ay - py) - (ax - px) * (by_ - py))) :
    countSegment F fuel px py c bx by_ ax ay =
      if bx < px ∧ ax < px then c
      else if px = ax ∧ py = ay then { c with onSegment := true }
      else if by_ = py ∧ ay = py then
        (if min ax bx ≤ px ∧ px ≤ max ax bx then { c with onSegment := true } else c)
      else if (py < by_ ∧ ay ≤ py) ∨ (py < ay ∧ by_ ≤ py) then
        (if (bx - px) * (ay - py) - (ax - px) * (by_ - py) = 0 then { c with onSegment := true }
         else if 0 < (if ay < by_ then -((bx - px) * (ay - py) - (ax - px) * (by_ - py))
                      else (bx - px) * (ay - py) - (ax - px) * (by_ - py))
              then { c with crossings := c.crossings + 1 } else c)
      else c := by
  unfold countSegment feq
  simp only [hF.lt, hF.sub, hdet, Bool.and_eq_true, decide_eq_true_eq, Bool.not_eq_true',
    decide_eq_false_iff_not, not_lt, Bool.or_eq_true]
  by_cases h1 : bx < px ∧ ax < px
  · rw [if_pos h1, if_pos h1]
  · rw [if_neg h1, if_neg h1]
    by_cases h2 : px = ax ∧ py = ay
    · rw [if_pos h2, if_pos ⟨⟨le_of_eq h2.1.symm, le_of_eq h2.1⟩, ⟨le_of_eq h2.2.symm, le_of_eq h2.2⟩⟩]
    · have h2' : ¬ ((ax ≤ px ∧ px ≤ ax) ∧ (ay ≤ py ∧ py ≤ ay)) := by
        rintro ⟨⟨h, h'⟩, ⟨k, k'⟩⟩; exact h2 ⟨le_antisymm h' h, le_antisymm k' k⟩
      rw [if_neg h2, if_neg h2']
      by_cases h3 : by_ = py ∧ ay = py
      · rw [if_pos h3, if_pos ⟨⟨le_of_eq h3.1.symm, le_of_eq h3.1⟩, ⟨le_of_eq h3.2.symm, le_of_eq h3.2⟩⟩]
        by_cases hlt : ax < bx
        · simp only [hlt, if_true, min_eq_left (le_of_lt hlt), max_eq_right (le_of_lt hlt)]
        · have hle : bx ≤ ax := not_lt.mp hlt
          simp only [hlt, if_false, min_eq_right hle, max_eq_left hle]
      · have h3' : ¬ ((py ≤ by_ ∧ by_ ≤ py) ∧ (py ≤ ay ∧ ay ≤ py)) := by
          rintro ⟨⟨h, h'⟩, ⟨k, k'⟩⟩; exact h3 ⟨le_antisymm h' h, le_antisymm k' k⟩
        rw [if_neg h3, if_neg h3']
        by_cases h4 : (py < by_ ∧ ay ≤ py) ∨ (py < ay ∧ by_ ≤ py)
        · rw [if_pos h4, if_pos h4]
          have hs : (ay - py < by_ - py) = (ay < by_) := by
            apply propext; constructor <;> intro h <;> linarith
          simp only [hs]
          set d := (bx - px) * (ay - py) - (ax - px) * (by_ - py) with hd
          by_cases hd0 : d = 0
          · simp [hd0, sgnInt]
          · rw [if_neg hd0]
            rcases lt_or_gt_of_ne hd0 with hneg | hpos
            · have hn : ¬ (0 < d) := not_lt.mpr (le_of_lt hneg)
              by_cases hy : ay < by_
              · simp [sgnInt, hn, hneg, hy]
              · simp [sgnInt, hn, hneg, hy]
            · have hn : ¬ (d < 0) := not_lt.mpr (le_of_lt hpos)
              by_cases hy : ay < by_
              · simp [sgnInt, hpos, hy, hn]
              · simp [sgnInt, hpos, hy]
        · rw [if_neg h4, if_neg h4]

/-- Convexity: a point of the carrier line whose ordinate lies between the end points' ordinates
has its abscissa between theirs. -/
theorem x_between_of_collinear (ax ay bx by_ px py : K)
    (hc : (bx - ax) * (py - ay) - (by_ - ay) * (px - ax) = 0)
    (hy : (ay ≤ py ∧ py ≤ by_) ∨ (by_ ≤ py ∧ py ≤ ay)) (hne : ay ≠ by_) :
    min ax bx ≤ px ∧ px ≤ max ax bx := by
  have hd : by_ - ay ≠ 0 := sub_ne_zero.mpr (Ne.symm hne)
  -- px - ax = t (bx - ax) with t = (py - ay)/(by - ay) in [0,1]
  set t := (py - ay) / (by_ - ay) with ht
  have hpx : px - ax = t * (bx - ax) := by
    rw [ht]; field_simp; linarith
  have ht01 : 0 ≤ t ∧ t ≤ 1 := by
    rcases hy with ⟨h1, h2⟩ | ⟨h1, h2⟩
    · have hpos : 0 < by_ - ay := by
        rcases lt_or_eq_of_le (le_trans h1 h2) with h | h
        · linarith
        · exact absurd h hne
      exact ⟨div_nonneg (by linarith) (le_of_lt hpos), by rw [ht, div_le_one hpos]; linarith⟩
    · have hneg : by_ - ay < 0 := by
        rcases lt_or_eq_of_le (le_trans h1 h2) with h | h
        · linarith
        · exact absurd h.symm hne
      refine ⟨div_nonneg_of_nonpos (by linarith) (le_of_lt hneg), ?_⟩
      rw [ht, div_le_one_of_neg hneg]; linarith
  rcases le_total ax bx with hab | hab
  · rw [min_eq_left hab, max_eq_right hab]
    have h1 : 0 ≤ t * (bx - ax) := mul_nonneg ht01.1 (by linarith)
    have h2 : t * (bx - ax) ≤ 1 * (bx - ax) := mul_le_mul_of_nonneg_right ht01.2 (by linarith)
    constructor <;> linarith
  · rw [min_eq_right hab, max_eq_left hab]
    have h1 : t * (bx - ax) ≤ 0 := mul_nonpos_of_nonneg_of_nonpos ht01.1 (by linarith)
    have h2 : 1 * (bx - ax) ≤ t * (bx - ax) := by
      have := mul_le_mul_of_nonneg_right ht01.2 (show 0 ≤ -(bx - ax) by linarith)
      linarith
    constructor <;> linarith

/-- The determinant of the translated end points is minus the cross product of the spec. -/
theorem det_eq_neg_cross (ax ay bx by_ px py : K) :
    (bx - px) * (ay - py) - (ax - px) * (by_ - py) = -((bx - ax) * (py - ay) - (by_ - ay) * (px - ax)) := by
  ring

variable (F : DetOps K) (hF : Lawful F) (fuel : Nat)

/-- The determinant-sign routine is exact on the one call countSegment makes for the edge `a → b`
(entries: the edge's end points relative to the test point). -/
def DetOK (px py : K) (a b : K × K) : Prop :=
  signOfDet2x2 F fuel (b.1 - px) (b.2 - py) (a.1 - px) (a.2 - py)
    = sgnInt ((b.1 - px) * (a.2 - py) - (a.1 - px) * (b.2 - py))

/-- Boundary flag and crossing increment of one edge, started from the empty counter. -/
def detE (px py : K) (a b : K × K) : Bool := (countSegment F fuel px py {} b.1 b.2 a.1 a.2).onSegment
def incE (px py : K) (a b : K × K) : Nat := (countSegment F fuel px py {} b.1 b.2 a.1 a.2).crossings

include hF in
/-- countSegment adds the edge's increment and ors the edge's boundary flag. -/
theorem countSegment_additive (px py : K) (c : Counter) (a b : K × K) (hdet : DetOK F fuel px py a b) :
    countSegment F fuel px py c b.1 b.2 a.1 a.2 =
      { crossings := c.crossings + incE F fuel px py a b, onSegment := c.onSegment || detE F fuel px py a b } := by
  unfold detE incE
  rw [countSegment_eq F hF fuel _ _ _ _ _ _ _ hdet, countSegment_eq F hF fuel _ _ _ _ _ _ _ hdet]
  obtain ⟨cc, co⟩ := c
  split_ifs <;> simp

include hF in
/-- E1: a boundary hit is real. -/
theorem detE_sound (px py : K) (a b : K × K) (hdet : DetOK F fuel px py a b)
    (h : detE F fuel px py a b = true) :
    onSegK a b (px, py) := by
  unfold detE at h
  rw [countSegment_eq F hF fuel _ _ _ _ _ _ _ hdet] at h
  unfold onSegK crossK
  simp only
  by_cases h1 : b.1 < px ∧ a.1 < px
  · rw [if_pos h1] at h; cases h
  rw [if_neg h1] at h
  by_cases h2 : px = a.1 ∧ py = a.2
  · obtain ⟨e1, e2⟩ := h2
    subst e1; subst e2
    exact ⟨by ring, min_le_left _ _, le_max_left _ _, min_le_left _ _, le_max_left _ _⟩
  rw [if_neg h2] at h
  by_cases h3 : b.2 = py ∧ a.2 = py
  · rw [if_pos h3] at h
    by_cases h3r : min a.1 b.1 ≤ px ∧ px ≤ max a.1 b.1
    · obtain ⟨e1, e2⟩ := h3
      refine ⟨by rw [e1, e2]; ring, h3r.1, h3r.2, ?_, ?_⟩
      · rw [e1, e2]; simp
      · rw [e1, e2]; simp
    · rw [if_neg h3r] at h; cases h
  rw [if_neg h3] at h
  by_cases h4 : (py < b.2 ∧ a.2 ≤ py) ∨ (py < a.2 ∧ b.2 ≤ py)
  · rw [if_pos h4] at h
    by_cases h4d : (b.1 - px) * (a.2 - py) - (a.1 - px) * (b.2 - py) = 0
    · have hc : (b.1 - a.1) * (py - a.2) - (b.2 - a.2) * (px - a.1) = 0 := by
        have := det_eq_neg_cross a.1 a.2 b.1 b.2 px py
        rw [h4d] at this; linarith
      have hne : a.2 ≠ b.2 := by
        intro e
        rcases h4 with ⟨u, v⟩ | ⟨u, v⟩ <;> linarith
      have hy : (a.2 ≤ py ∧ py ≤ b.2) ∨ (b.2 ≤ py ∧ py ≤ a.2) := by
        rcases h4 with ⟨u, v⟩ | ⟨u, v⟩
        · exact Or.inl ⟨v, le_of_lt u⟩
        · exact Or.inr ⟨v, le_of_lt u⟩
      obtain ⟨x1, x2⟩ := x_between_of_collinear a.1 a.2 b.1 b.2 px py hc hy hne
      refine ⟨hc, x1, x2, ?_, ?_⟩
      · rcases hy with ⟨u, v⟩ | ⟨u, v⟩
        · exact le_trans (min_le_left _ _) u
        · exact le_trans (min_le_right _ _) u
      · rcases hy with ⟨u, v⟩ | ⟨u, v⟩
        · exact le_trans v (le_max_right _ _)
        · exact le_trans v (le_max_left _ _)
    · rw [if_neg h4d] at h
      split_ifs at h
  · rw [if_neg h4] at h; cases h

include hF in
/-- E2: the only boundary position an edge does not report itself is its second end point `b`
(reported by the next edge, for which it is the first end point). -/
theorem detE_complete (px py : K) (a b : K × K) (hdet : DetOK F fuel px py a b)
    (h : detE F fuel px py a b = false)
    (hon : onSegK a b (px, py)) : px = b.1 ∧ py = b.2 := by
  unfold detE at h
  rw [countSegment_eq F hF fuel _ _ _ _ _ _ _ hdet] at h
  obtain ⟨hc, hx1, hx2, hy1, hy2⟩ := hon
  unfold crossK at hc
  simp only at hc hx1 hx2 hy1 hy2
  by_cases h1 : b.1 < px ∧ a.1 < px
  · exfalso
    have : max a.1 b.1 < px := max_lt h1.2 h1.1
    linarith
  rw [if_neg h1] at h
  by_cases h2 : px = a.1 ∧ py = a.2
  · rw [if_pos h2] at h; simp at h
  rw [if_neg h2] at h
  by_cases h3 : b.2 = py ∧ a.2 = py
  · rw [if_pos h3, if_pos ⟨hx1, hx2⟩] at h; simp at h
  rw [if_neg h3] at h
  by_cases h4 : (py < b.2 ∧ a.2 ≤ py) ∨ (py < a.2 ∧ b.2 ≤ py)
  · rw [if_pos h4] at h
    have hd0 : (b.1 - px) * (a.2 - py) - (a.1 - px) * (b.2 - py) = 0 := by
      have := det_eq_neg_cross a.1 a.2 b.1 b.2 px py
      rw [hc] at this; rw [this]; ring
    rw [if_pos hd0] at h; simp at h
  · -- neither horizontal through the point nor straddling
    simp only [not_or, not_and, not_le] at h4
    have hbelow : a.2 ≤ py ∧ b.2 ≤ py := by
      by_contra hcon
      rw [not_and_or] at hcon
      rcases hcon with hA | hB
      · have hA' : py < a.2 := not_le.mp hA
        have hb : py < b.2 := h4.2 hA'
        have : py < min a.2 b.2 := lt_min hA' hb
        linarith
      · have hB' : py < b.2 := not_le.mp hB
        have ha : py < a.2 := h4.1 hB'
        have : py < min a.2 b.2 := lt_min ha hB'
        linarith
    rcases le_max_iff.mp hy2 with hA | hB
    · have ea : a.2 = py := le_antisymm hbelow.1 hA
      have hb : b.2 ≠ py := fun e => h3 ⟨e, ea⟩
      have hbl : b.2 < py := lt_of_le_of_ne hbelow.2 hb
      have : (b.2 - a.2) * (px - a.1) = 0 := by
        have : (b.1 - a.1) * (py - a.2) - (b.2 - a.2) * (px - a.1) = -((b.2 - a.2) * (px - a.1)) := by
          rw [ea]; ring
        rw [this] at hc; linarith
      rcases mul_eq_zero.mp this with h0 | h0
      · exfalso; rw [ea] at h0; linarith
      · exact absurd ⟨by linarith, ea.symm⟩ h2
    · have eb : b.2 = py := le_antisymm hbelow.2 hB
      have ea : a.2 ≠ py := fun e => h3 ⟨eb, e⟩
      have hal : a.2 < py := lt_of_le_of_ne hbelow.1 ea
      have : (b.2 - a.2) * (b.1 - px) = 0 := by
        have : (b.1 - a.1) * (py - a.2) - (b.2 - a.2) * (px - a.1) = (b.2 - a.2) * (b.1 - px) := by
          rw [eb]; ring
        rw [← this]; exact hc
      rcases mul_eq_zero.mp this with h0 | h0
      · exfalso; rw [eb] at h0; linarith
      · exact ⟨by linarith, eb.symm⟩

include hF in
/-- E3: on an edge the point is not on, the crossing count goes up exactly when the edge crosses
the ray to the right of the point. -/
theorem incE_spec (px py : K) (a b : K × K) (hdet : DetOK F fuel px py a b)
    (h : detE F fuel px py a b = false) :
    (incE F fuel px py a b = 1 ∧ crossesRayK (px, py) a b) ∨
    (incE F fuel px py a b = 0 ∧ ¬ crossesRayK (px, py) a b) := by
  unfold detE at h
  unfold incE
  rw [countSegment_eq F hF fuel _ _ _ _ _ _ _ hdet] at h ⊢
  unfold crossesRayK
  simp only
  -- the abscissa where the carrier line meets the ray's line lies between the end points'
  have hX : ∀ (hne : a.2 ≠ b.2) (hy : (a.2 ≤ py ∧ py ≤ b.2) ∨ (b.2 ≤ py ∧ py ≤ a.2)),
      a.1 + (py - a.2) * (b.1 - a.1) / (b.2 - a.2) ≤ max a.1 b.1 := by
    intro hne hy
    have hd : b.2 - a.2 ≠ 0 := sub_ne_zero.mpr (Ne.symm hne)
    have hc : (b.1 - a.1) * (py - a.2) - (b.2 - a.2) *
        ((a.1 + (py - a.2) * (b.1 - a.1) / (b.2 - a.2)) - a.1) = 0 := by
      field_simp; ring
    exact (x_between_of_collinear a.1 a.2 b.1 b.2 _ py hc hy hne).2
  by_cases h1 : b.1 < px ∧ a.1 < px
  · rw [if_pos h1]
    right
    refine ⟨rfl, ?_⟩
    rintro ⟨hs, hlt⟩
    have hne : a.2 ≠ b.2 := by intro e; rcases hs with ⟨u, v⟩ | ⟨u, v⟩ <;> linarith
    have hy : (a.2 ≤ py ∧ py ≤ b.2) ∨ (b.2 ≤ py ∧ py ≤ a.2) := by
      rcases hs with ⟨u, v⟩ | ⟨u, v⟩
      · exact Or.inr ⟨v, le_of_lt u⟩
      · exact Or.inl ⟨v, le_of_lt u⟩
    have := hX hne hy
    have hm : max a.1 b.1 < px := max_lt h1.2 h1.1
    linarith
  rw [if_neg h1] at h ⊢
  by_cases h2 : px = a.1 ∧ py = a.2
  · rw [if_pos h2] at h; simp at h
  rw [if_neg h2] at h ⊢
  by_cases h3 : b.2 = py ∧ a.2 = py
  · rw [if_pos h3] at h ⊢
    by_cases h3r : min a.1 b.1 ≤ px ∧ px ≤ max a.1 b.1
    · rw [if_pos h3r] at h; simp at h
    · rw [if_neg h3r]
      right
      refine ⟨rfl, ?_⟩
      rintro ⟨hs, _⟩
      rcases hs with ⟨u, v⟩ | ⟨u, v⟩ <;> linarith [h3.1, h3.2]
  rw [if_neg h3] at h ⊢
  by_cases h4 : (py < b.2 ∧ a.2 ≤ py) ∨ (py < a.2 ∧ b.2 ≤ py)
  · rw [if_pos h4] at h ⊢
    by_cases h4d : (b.1 - px) * (a.2 - py) - (a.1 - px) * (b.2 - py) = 0
    · rw [if_pos h4d] at h; simp at h
    · rw [if_neg h4d]
      have hne : a.2 ≠ b.2 := by intro e; rcases h4 with ⟨u, v⟩ | ⟨u, v⟩ <;> linarith
      have hs : (py < a.2 ∧ b.2 ≤ py) ∨ (py < b.2 ∧ a.2 ≤ py) := h4.symm
      -- the crossing rule in translated coordinates
      have hy12 : b.2 - py ≠ a.2 - py := fun e => hne (by linarith)
      have key := C11_crossing_sign (b.1 - px) (b.2 - py) (a.1 - px) (a.2 - py) hy12
      have hsame : (a.2 - py < b.2 - py) = (a.2 < b.2) := by
        apply propext; constructor <;> intro h' <;> linarith
      simp only [hsame] at key
      have hxint : xInt (b.1 - px) (b.2 - py) (a.1 - px) (a.2 - py)
          = a.1 + (py - a.2) * (b.1 - a.1) / (b.2 - a.2) - px := by
        have hd1 : a.2 - py - (b.2 - py) ≠ 0 := by
          intro e; exact hne (by linarith)
        have hd2 : b.2 - a.2 ≠ 0 := sub_ne_zero.mpr (Ne.symm hne)
        unfold xInt; field_simp; ring
      rw [hxint] at key
      by_cases hadj : 0 < (if a.2 < b.2 then -((b.1 - px) * (a.2 - py) - (a.1 - px) * (b.2 - py))
          else (b.1 - px) * (a.2 - py) - (a.1 - px) * (b.2 - py))
      · rw [if_pos hadj]
        left
        refine ⟨by simp, hs, ?_⟩
        have := key.mpr hadj
        linarith
      · rw [if_neg hadj]
        right
        refine ⟨rfl, ?_⟩
        rintro ⟨_, hlt⟩
        exact hadj (key.mp (by linarith))
  · rw [if_neg h4]
    right
    refine ⟨rfl, ?_⟩
    rintro ⟨hs, _⟩
    exact h4 hs.symm

/-! ### The whole ring -/

def edgesK : List (K × K) → List ((K × K) × (K × K))
  | a :: b :: rest => (a, b) :: edgesK (b :: rest)
  | _ => []

include hF in
/-- The loop over the ring: boundary as soon as some edge reports the point, otherwise the parity
of the accumulated crossings. -/
theorem locateLoop_eq (px py : K) : ∀ (ring : List (K × K)),
    (∀ e ∈ edgesK ring, DetOK F fuel px py e.1 e.2) → ∀ (c : Counter), c.onSegment = false →
    locateLoop F fuel px py c ring =
      if (edgesK ring).any (fun e => detE F fuel px py e.1 e.2) then Loc.boundary
      else if (c.crossings + ((edgesK ring).map fun e => incE F fuel px py e.1 e.2).sum) % 2 = 1
        then Loc.interior else Loc.exterior := by
  intro ring
  induction ring with
  | nil => intro _ c hc; simp [locateLoop, edgesK, Counter.location, hc]
  | cons a rest ih =>
    intro hdet c hc
    cases rest with
    | nil => simp [locateLoop, edgesK, Counter.location, hc]
    | cons b rest' =>
      have hab : DetOK F fuel px py a b := hdet (a, b) (by simp [edgesK])
      have hrest : ∀ e ∈ edgesK (b :: rest'), DetOK F fuel px py e.1 e.2 :=
        fun e he => hdet e (by simp only [edgesK, List.mem_cons]; exact Or.inr he)
      simp only [locateLoop, edgesK, List.any_cons, List.map_cons, List.sum_cons]
      rw [countSegment_additive F hF fuel px py c a b hab]
      simp only [hc, Bool.false_or]
      by_cases hd : detE F fuel px py a b = true
      · simp [hd, Counter.location]
      · have hd' : detE F fuel px py a b = false := by simpa using hd
        simp only [hd', Bool.false_eq_true, if_false, Bool.false_or]
        rw [ih hrest _ rfl]
        simp only [Nat.add_assoc]

/-- The even-odd rule (the specification). -/
def OnBoundary (p : K × K) (ring : List (K × K)) : Prop := ∃ e ∈ edgesK ring, onSegK e.1 e.2 p

open Classical in
noncomputable def crossingCount (p : K × K) (ring : List (K × K)) : Nat :=
  ((edgesK ring).filter fun e => decide (crossesRayK p e.1 e.2)).length

/-- In a closed ring the vertex after an edge is the start of another edge. -/
theorem closed_next (ring : List (K × K)) (hcl : ring.head? = ring.getLast?) :
    ∀ e ∈ edgesK ring, ∃ e' ∈ edgesK ring, e'.1 = e.2 := by
  -- every edge's second vertex is either the first vertex of the following edge or the last
  -- vertex of the ring, which equals the first vertex of the first edge
  have aux : ∀ (l : List (K × K)) (e : (K × K) × (K × K)), e ∈ edgesK l →
      (∃ e' ∈ edgesK l, e'.1 = e.2) ∨ l.getLast? = some e.2 := by
    intro l
    induction l with
    | nil => intro e he; simp [edgesK] at he
    | cons a rest ih =>
      intro e he
      cases rest with
      | nil => simp [edgesK] at he
      | cons b rest' =>
        simp only [edgesK, List.mem_cons] at he
        rcases he with rfl | he
        · cases rest' with
          | nil => right; simp
          | cons c rest'' => left; exact ⟨(b, c), by simp [edgesK], rfl⟩
        · rcases ih e he with ⟨e', he', h⟩ | h
          · left; exact ⟨e', by simp [edgesK, he'], h⟩
          · right; simpa using h
  intro e he
  rcases aux ring e he with h | h
  · exact h
  · -- e.2 is the last vertex = the first vertex = start of the first edge
    cases ring with
    | nil => simp [edgesK] at he
    | cons a rest =>
      cases rest with
      | nil => simp [edgesK] at he
      | cons b rest' =>
        refine ⟨(a, b), by simp [edgesK], ?_⟩
        simp only [List.head?_cons] at hcl
        rw [h] at hcl
        exact Option.some.inj hcl

include hF in
open Classical in
theorem sum_inc_eq_count (px py : K) (es : List ((K × K) × (K × K)))
    (hdet : ∀ e ∈ es, DetOK F fuel px py e.1 e.2)
    (hall : ∀ e ∈ es, detE F fuel px py e.1 e.2 = false) :
    (es.map fun e => incE F fuel px py e.1 e.2).sum
      = (es.filter fun e => decide (crossesRayK (px, py) e.1 e.2)).length := by
  induction es with
  | nil => rfl
  | cons e es ih =>
    have he := hall e (by simp)
    have ih' := ih (fun e' he' => hdet e' (by simp [he'])) (fun e' he' => hall e' (by simp [he']))
    simp only [List.map_cons, List.sum_cons, List.filter_cons]
    rcases incE_spec F hF fuel px py e.1 e.2 (hdet e (by simp)) he with ⟨h1, hc⟩ | ⟨h0, hc⟩
    · simp only [h1, hc, decide_true, if_true, List.length_cons, ih']; omega
    · simp only [h0, hc, decide_false, Bool.false_eq_true, if_false, ih']; omega

include hF in
/-- **C11 — LocatePointInRing is the even-odd rule**, for every closed ring and every point. -/
theorem C11_locate_eq_spec (p : K × K) (ring : List (K × K)) (hcl : ring.head? = ring.getLast?)
    (hdet : ∀ e ∈ edgesK ring, DetOK F fuel p.1 p.2 e.1 e.2) :
    (locate F fuel p.1 p.2 ring = Loc.boundary ↔ OnBoundary p ring) ∧
    (¬ OnBoundary p ring →
      (locate F fuel p.1 p.2 ring = Loc.interior ↔ crossingCount p ring % 2 = 1) ∧
      (locate F fuel p.1 p.2 ring = Loc.exterior ↔ crossingCount p ring % 2 ≠ 1)) := by
  obtain ⟨px, py⟩ := p
  have hloop := locateLoop_eq F hF fuel px py ring hdet {} rfl
  simp only [locate] at hloop ⊢
  -- some edge reports the point iff the point is on some edge
  have hany : ((edgesK ring).any fun e => detE F fuel px py e.1 e.2) = true ↔ OnBoundary (px, py) ring := by
    rw [List.any_eq_true]
    constructor
    · rintro ⟨e, he, hd⟩; exact ⟨e, he, detE_sound F hF fuel px py e.1 e.2 (hdet e he) hd⟩
    · rintro ⟨e, he, hon⟩
      by_cases hd : detE F fuel px py e.1 e.2 = true
      · exact ⟨e, he, hd⟩
      · have hd' : detE F fuel px py e.1 e.2 = false := by simpa using hd
        obtain ⟨e1, e2⟩ := detE_complete F hF fuel px py e.1 e.2 (hdet e he) hd' hon
        obtain ⟨e', he', hstart⟩ := closed_next ring hcl e he
        refine ⟨e', he', ?_⟩
        -- the point is the first end point of e'
        unfold detE
        rw [countSegment_eq F hF fuel _ _ _ _ _ _ _ (hdet e' he')]
        have h1 : ¬ (e'.2.1 < px ∧ e'.1.1 < px) := by
          rintro ⟨_, h⟩; rw [hstart, ← e1] at h; exact lt_irrefl _ h
        rw [if_neg h1, if_pos ⟨by rw [hstart]; exact e1, by rw [hstart]; exact e2⟩]
  constructor
  · rw [hloop, ← hany]
    by_cases h : ((edgesK ring).any fun e => detE F fuel px py e.1 e.2) = true
    · simp [h]
    · simp only [h, Bool.false_eq_true, if_false, iff_false]
      split_ifs <;> simp
  · intro hnb
    have hnone : ((edgesK ring).any fun e => detE F fuel px py e.1 e.2) = false := by
      cases h : (edgesK ring).any fun e => detE F fuel px py e.1 e.2 with
      | false => rfl
      | true => exact absurd (hany.mp h) hnb
    -- with no boundary hit every increment is the indicator of a crossing
    have hsum : ((edgesK ring).map fun e => incE F fuel px py e.1 e.2).sum = crossingCount (px, py) ring := by
      unfold crossingCount
      have hall : ∀ e ∈ edgesK ring, detE F fuel px py e.1 e.2 = false := by
        intro e he
        cases hd : detE F fuel px py e.1 e.2 with
        | false => rfl
        | true =>
          have : ((edgesK ring).any fun e => detE F fuel px py e.1 e.2) = true :=
            List.any_eq_true.mpr ⟨e, he, hd⟩
          rw [hnone] at this; cases this
      exact sum_inc_eq_count F hF fuel px py _ hdet hall
    rw [hloop, hnone]
    simp only [Bool.false_eq_true, if_false, hsum, Nat.zero_add]
    show ((if _ then Loc.interior else Loc.exterior) = Loc.interior ↔ _) ∧ _
    constructor
    · split_ifs with h <;> simp [h]
    · split_ifs with h <;> simp [h]

end field

end GeomVerif.Locate
