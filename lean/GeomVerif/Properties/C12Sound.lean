/-
C12 — the robust intersector's answers are sound and, about emptiness, exact.

For every linearly ordered field, with the orientation index the exact sign (C10) and the
comparison the field's:
  * NoIntersection is never wrong: through the envelope test, both same-side exits and the six-way
    collinear case analysis, the segments then have no common point (`C12_robust_none_sound`);
  * every point reported without computing a crossing — a touching end point in each of the six
    selection branches, and both ends of a collinear overlap — lies on both closed segments
    (`C12_robust_points_sound`);
  * with all arithmetic the field's, a proper crossing is answered with exactly the common point
    of the two carriers: the envelope-centre normalisation cancels, the point passes both envelope
    tests, the central-endpoint fallback is not taken, and the point lies on both segments
    (`C12_robust_proper_sound`);
  * hence NoIntersection ⇔ the segments are disjoint (`C12_robust_none_iff_disjoint`).
Left to the oracle: point-vs-collinear when the overlap is a single point, and the rounding
distance of the float computation.
-/
import Mathlib.Tactic.Ring
import Mathlib.Tactic.Linarith
import Mathlib.Tactic.FieldSimp
import Mathlib.Tactic.Positivity
import Mathlib.Tactic.LinearCombination
import Mathlib.Algebra.Order.Field.Basic
import GeomVerif.Properties.C12

namespace GeomVerif.Intersect
open GeomVerif.Locate

section sound
variable {K : Type} [Field K] [LinearOrder K] [IsStrictOrderedRing K]

/-- Exact sign as the integer the orientation index is. -/
def sgnZ (d : K) : Int := if 0 < d then 1 else if d < 0 then -1 else 0

theorem sgnZ_pos_iff (d : K) : sgnZ d > 0 ↔ 0 < d := by
  unfold sgnZ; split_ifs with h1 h2 <;> simp [h1]
theorem sgnZ_neg_iff (d : K) : sgnZ d < 0 ↔ d < 0 := by
  unfold sgnZ
  split_ifs with h1 h2
  · simp [not_lt.mpr h1.le]
  · simp [h2]
  · simp [h2]
theorem sgnZ_zero_iff (d : K) : sgnZ d = 0 ↔ d = 0 := by
  unfold sgnZ
  split_ifs with h1 h2
  · simp [h1.ne']
  · simp [h2.ne]
  · simp; exact le_antisymm (not_lt.mp h1) (not_lt.mp h2)

/-- `side` on points. -/
def sideP (a b p : P K) : K := side a.1 a.2 b.1 b.2 p.1 p.2

/-- `x` is a point of the closed segment a–b. -/
def OnSeg (a b x : P K) : Prop :=
  ∃ t : K, 0 ≤ t ∧ t ≤ 1 ∧ x.1 = a.1 + t * (b.1 - a.1) ∧ x.2 = a.2 + t * (b.2 - a.2)

/-- Only the comparison has to be the field's for the classification. -/
structure LawfulLt (F : DetOps K) : Prop where
  lt : ∀ a b, F.lt a b = decide (a < b)

variable (F : DetOps K) (hF : LawfulLt F)

include hF in
theorem fmin_eq (a b : K) : fmin F a b = min a b := by
  unfold fmin; simp only [hF.lt, decide_eq_true_eq]
  split_ifs with h
  · exact (min_eq_right h.le).symm
  · exact (min_eq_left (not_lt.mp h)).symm

include hF in
theorem fmax_eq (a b : K) : fmax F a b = max a b := by
  unfold fmax; simp only [hF.lt, decide_eq_true_eq]
  split_ifs with h
  · exact (max_eq_right h.le).symm
  · exact (max_eq_left (not_lt.mp h)).symm

include hF in
theorem fle_iff (a b : K) : fle F a b = true ↔ a ≤ b := by
  unfold fle; simp [hF.lt]

/-- Bounding-box membership. -/
def InBox (p a b : P K) : Prop :=
  min a.1 b.1 ≤ p.1 ∧ p.1 ≤ max a.1 b.1 ∧ min a.2 b.2 ≤ p.2 ∧ p.2 ≤ max a.2 b.2

include hF in
theorem withinBounds_iff (p a b : P K) : withinBounds F p a b = true ↔ InBox p a b := by
  unfold withinBounds InBox
  simp only [Bool.and_eq_true, fle_iff F hF, fmin_eq F hF, fmax_eq F hF]
  tauto

include hF in
theorem peq_iff (a b : P K) : peq F a b = true ↔ a = b := by
  unfold peq feq
  simp only [hF.lt, Bool.and_eq_true, Bool.not_eq_true', decide_eq_false_iff_not, not_lt]
  constructor
  · rintro ⟨⟨h1, h2⟩, h3, h4⟩; exact Prod.ext (le_antisymm h2 h1) (le_antisymm h4 h3)
  · rintro rfl; exact ⟨⟨le_refl _, le_refl _⟩, le_refl _, le_refl _⟩

theorem conv_between (a b t : K) (h0 : 0 ≤ t) (h1 : t ≤ 1) :
    min a b ≤ a + t * (b - a) ∧ a + t * (b - a) ≤ max a b := by
  rcases le_total a b with h | h
  · rw [min_eq_left h, max_eq_right h]
    constructor <;> nlinarith
  · rw [min_eq_right h, max_eq_left h]
    constructor <;> nlinarith

theorem onSeg_inBox (a b x : P K) (h : OnSeg a b x) : InBox x a b := by
  obtain ⟨t, h0, h1, hx, hy⟩ := h
  unfold InBox; rw [hx, hy]
  exact ⟨(conv_between _ _ t h0 h1).1, (conv_between _ _ t h0 h1).2,
    (conv_between _ _ t h0 h1).1, (conv_between _ _ t h0 h1).2⟩

theorem onSeg_side_zero (a b x : P K) (h : OnSeg a b x) : sideP a b x = 0 := by
  obtain ⟨t, _, _, hx, hy⟩ := h
  unfold sideP; rw [hx, hy]; exact side_on_carrier _ _ _ _ _

theorem onSeg_left (a b : P K) : OnSeg a b a := ⟨0, le_refl _, zero_le_one, by ring, by ring⟩
theorem onSeg_right (a b : P K) : OnSeg a b b := ⟨1, zero_le_one, le_refl _, by ring, by ring⟩

include hF in
/-- Envelope rejection is sound. -/
theorem linesOverlap_of_common (a b c d x : P K) (h1 : OnSeg a b x) (h2 : OnSeg c d x) :
    linesOverlap F a b c d = true := by
  obtain ⟨a1, a2, a3, a4⟩ := onSeg_inBox a b x h1
  obtain ⟨c1, c2, c3, c4⟩ := onSeg_inBox c d x h2
  unfold linesOverlap
  simp only [hF.lt, fmin_eq F hF, fmax_eq F hF, Bool.and_eq_true, Bool.not_eq_true',
    Bool.or_eq_false_iff, decide_eq_false_iff_not, not_lt]
  exact ⟨⟨le_trans a1 c2, le_trans c1 a2⟩, ⟨le_trans a3 c4, le_trans c3 a4⟩⟩

/-- Same-side rejection is sound (point form of `C12_same_side_disjoint`). -/
theorem sameSide_no_common (a b c d x : P K) (h1 : OnSeg a b x) (h2 : OnSeg c d x)
    (h : (0 < sideP a b c ∧ 0 < sideP a b d) ∨ (sideP a b c < 0 ∧ sideP a b d < 0)) : False := by
  have hz := onSeg_side_zero a b x h1
  obtain ⟨t, h0, ht1, hx, hy⟩ := h2
  have := C12_same_side_disjoint a.1 a.2 b.1 b.2 c.1 c.2 d.1 d.2 t h0 ht1 h
  apply this
  unfold sideP at hz; rw [hx, hy] at hz; exact hz


/-! ### An end point on the other carrier -/

/-- If `c` lies on the carrier of a–b, `d` does not, and `a`, `b` are not strictly on the same side
of the carrier of c–d, then `c` is a point of the segment a–b. -/
theorem touch_onSeg (a b c d : P K) (hc : sideP a b c = 0) (hd : sideP a b d ≠ 0)
    (hns : ¬ ((0 < sideP c d a ∧ 0 < sideP c d b) ∨ (sideP c d a < 0 ∧ sideP c d b < 0))) :
    OnSeg a b c := by
  obtain ⟨ax, ay⟩ := a; obtain ⟨bx, by_⟩ := b; obtain ⟨cx, cy⟩ := c; obtain ⟨dx, dy⟩ := d
  unfold sideP side at hc hd hns
  simp only at hc hd hns
  unfold OnSeg; simp only
  set sa := (dx - cx) * (ay - cy) - (dy - cy) * (ax - cx) with hsa
  set sb := (dx - cx) * (by_ - cy) - (dy - cy) * (bx - cx) with hsb
  -- sa − sb is (up to sign) the orientation of d, given c on the carrier
  have hdiff : sa - sb = (bx - ax) * (dy - ay) - (by_ - ay) * (dx - ax) := by
    rw [hsa, hsb]; linear_combination (-1 : K) * hc
  have hne : sa - sb ≠ 0 := by rw [hdiff]; exact hd
  push Not at hns
  obtain ⟨hn1, hn2⟩ := hns
  refine ⟨sa / (sa - sb), ?_, ?_, ?_, ?_⟩
  · rcases lt_or_gt_of_ne hne with hlt | hgt
    · -- sa < sb: sa ≤ 0
      apply div_nonneg_of_nonpos _ hlt.le
      by_contra h
      have h' : 0 < sa := not_le.mp h
      have := hn1 h'
      linarith
    · apply div_nonneg _ hgt.le
      by_contra h
      have h' : sa < 0 := not_le.mp h
      have := hn2 h'
      linarith
  · rcases lt_or_gt_of_ne hne with hlt | hgt
    · rw [div_le_one_of_neg hlt]
      by_contra h
      have h' : sb < 0 := by linarith [not_le.mp h]
      by_cases h0 : sa < 0
      · have := hn2 h0; linarith
      · linarith [not_lt.mp h0]
    · rw [div_le_one hgt]
      by_contra h
      have h' : 0 < sb := by linarith [not_le.mp h]
      by_cases h0 : 0 < sa
      · have := hn1 h0; linarith
      · linarith [not_lt.mp h0]
  · have key : (cx - ax) * (sa - sb) = sa * (bx - ax) := by
      rw [hsa, hsb]; linear_combination (dx - cx) * hc
    field_simp
    linear_combination key
  · have key : (cy - ay) * (sa - sb) = sa * (by_ - ay) := by
      rw [hsa, hsb]; linear_combination (dy - cy) * hc
    field_simp
    linear_combination key


/-! ### Collinear segments: everything happens on one parametrised line -/

/-- Point of the line through `a` with direction `r` at parameter `t`. -/
def lineAt (a r : P K) (t : K) : P K := (a.1 + t * r.1, a.2 + t * r.2)

theorem onSeg_of_param (a r : P K) (tc td tp : K)
    (h : (tc ≤ tp ∧ tp ≤ td) ∨ (td ≤ tp ∧ tp ≤ tc)) :
    OnSeg (lineAt a r tc) (lineAt a r td) (lineAt a r tp) := by
  unfold OnSeg lineAt; simp only
  by_cases he : tc = td
  · have : tp = tc := by rcases h with ⟨h1, h2⟩ | ⟨h1, h2⟩ <;> linarith
    exact ⟨0, le_refl _, zero_le_one, by rw [this]; ring, by rw [this]; ring⟩
  · have hne : td - tc ≠ 0 := sub_ne_zero.mpr (Ne.symm he)
    refine ⟨(tp - tc) / (td - tc), ?_, ?_, ?_, ?_⟩
    · rcases h with ⟨h1, h2⟩ | ⟨h1, h2⟩
      · exact div_nonneg (by linarith) (by linarith)
      · exact div_nonneg_of_nonpos (by linarith) (by linarith)
    · rcases h with ⟨h1, h2⟩ | ⟨h1, h2⟩
      · have : 0 < td - tc := lt_of_le_of_ne (by linarith) (Ne.symm hne)
        rw [div_le_one this]; linarith
      · have : td - tc < 0 := lt_of_le_of_ne (by linarith) hne
        rw [div_le_one_of_neg this]; linarith
    · field_simp; ring
    · field_simp; ring

theorem dir_sq_pos (a b : P K) (hab : a ≠ b) :
    0 < (b.1 - a.1) * (b.1 - a.1) + (b.2 - a.2) * (b.2 - a.2) := by
  by_contra h
  have h1 := mul_self_nonneg (b.1 - a.1)
  have h2 := mul_self_nonneg (b.2 - a.2)
  have e1 : (b.1 - a.1) * (b.1 - a.1) = 0 := by linarith [not_lt.mp h]
  have e2 : (b.2 - a.2) * (b.2 - a.2) = 0 := by linarith [not_lt.mp h]
  apply hab
  exact Prod.ext (by linarith [mul_self_eq_zero.mp e1]) (by linarith [mul_self_eq_zero.mp e2])

/-- A point on the carrier of a non-degenerate segment has a parameter along it. -/
theorem param_of_collinear (a b c : P K) (hab : a ≠ b) (hc : sideP a b c = 0) :
    ∃ t : K, c = lineAt a (b.1 - a.1, b.2 - a.2) t := by
  have hrr := dir_sq_pos a b hab
  unfold sideP side at hc
  refine ⟨((c.1 - a.1) * (b.1 - a.1) + (c.2 - a.2) * (b.2 - a.2)) /
      ((b.1 - a.1) * (b.1 - a.1) + (b.2 - a.2) * (b.2 - a.2)), ?_⟩
  have hne := hrr.ne'
  have key1 : ((c.1 - a.1) * (b.1 - a.1) + (c.2 - a.2) * (b.2 - a.2)) * (b.1 - a.1)
      = (c.1 - a.1) * ((b.1 - a.1) * (b.1 - a.1) + (b.2 - a.2) * (b.2 - a.2)) := by
    linear_combination (b.2 - a.2) * hc
  have key2 : ((c.1 - a.1) * (b.1 - a.1) + (c.2 - a.2) * (b.2 - a.2)) * (b.2 - a.2)
      = (c.2 - a.2) * ((b.1 - a.1) * (b.1 - a.1) + (b.2 - a.2) * (b.2 - a.2)) := by
    linear_combination (-(b.1 - a.1)) * hc
  unfold lineAt
  apply Prod.ext
  · simp only
    rw [div_mul_eq_mul_div, key1, mul_div_cancel_right₀ _ hne]; ring
  · simp only
    rw [div_mul_eq_mul_div, key2, mul_div_cancel_right₀ _ hne]; ring

theorem param_inj (a b : P K) (hab : a ≠ b) (t t' : K)
    (h : lineAt a (b.1 - a.1, b.2 - a.2) t = lineAt a (b.1 - a.1, b.2 - a.2) t') : t = t' := by
  have hrr := dir_sq_pos a b hab
  unfold lineAt at h
  simp only [Prod.mk.injEq] at h
  obtain ⟨h1, h2⟩ := h
  have e1 : (t - t') * (b.1 - a.1) = 0 := by linarith
  have e2 : (t - t') * (b.2 - a.2) = 0 := by linarith
  have : (t - t') * ((b.1 - a.1) * (b.1 - a.1) + (b.2 - a.2) * (b.2 - a.2)) = 0 := by
    linear_combination (b.1 - a.1) * e1 + (b.2 - a.2) * e2
  rcases mul_eq_zero.mp this with h | h
  · linarith
  · linarith

theorem onSeg_param (a b x : P K) (h : OnSeg a b x) :
    ∃ t : K, 0 ≤ t ∧ t ≤ 1 ∧ x = lineAt a (b.1 - a.1, b.2 - a.2) t := by
  obtain ⟨t, h0, h1, hx, hy⟩ := h
  exact ⟨t, h0, h1, Prod.ext hx hy⟩

theorem lineAt_zero (a r : P K) : lineAt a r 0 = a := by
  unfold lineAt; simp
theorem lineAt_one (a b : P K) : lineAt a (b.1 - a.1, b.2 - a.2) 1 = b := by
  unfold lineAt; simp

/-- **Collinear case analysis is complete**: two collinear segments (the first non-degenerate) that
share a point satisfy one of the six end-point configurations computeCollinearIntersection
looks for. -/
theorem collinear_combo (a b c d x : P K) (hab : a ≠ b) (hc : sideP a b c = 0)
    (hd : sideP a b d = 0) (h1 : OnSeg a b x) (h2 : OnSeg c d x) :
    (OnSeg c d a ∧ OnSeg c d b) ∨ (OnSeg a b c ∧ OnSeg a b d) ∨ (OnSeg a b c ∧ OnSeg c d a) ∨
    (OnSeg a b c ∧ OnSeg c d b) ∨ (OnSeg a b d ∧ OnSeg c d a) ∨ (OnSeg a b d ∧ OnSeg c d b) := by
  set r : P K := (b.1 - a.1, b.2 - a.2) with hr
  obtain ⟨tc, hc'⟩ := param_of_collinear a b c hab hc
  obtain ⟨td, hd'⟩ := param_of_collinear a b d hab hd
  obtain ⟨tx, hx0, hx1, hx⟩ := onSeg_param a b x h1
  obtain ⟨u, hu0, hu1, hxu1, hxu2⟩ := h2
  -- the parameter of x along a→b is the same convex combination of tc and td
  have hxu : x = lineAt a r (tc + u * (td - tc)) := by
    apply Prod.ext
    · rw [hxu1, hc', hd']; unfold lineAt; simp only; ring
    · rw [hxu2, hc', hd']; unfold lineAt; simp only; ring
  have htx : tx = tc + u * (td - tc) := param_inj a b hab _ _ (by rw [← hx, ← hxu])
  have ha : a = lineAt a r 0 := (lineAt_zero a r).symm
  have hb : b = lineAt a r 1 := (lineAt_one a b).symm
  -- the four membership facts in terms of parameters
  have Ic : (0 ≤ tc ∧ tc ≤ 1) → OnSeg a b c := fun h => by
    have := onSeg_of_param a r 0 1 tc (Or.inl h)
    rwa [← ha, ← hb, ← hc'] at this
  have Id : (0 ≤ td ∧ td ≤ 1) → OnSeg a b d := fun h => by
    have := onSeg_of_param a r 0 1 td (Or.inl h)
    rwa [← ha, ← hb, ← hd'] at this
  have B0 : ((tc ≤ 0 ∧ 0 ≤ td) ∨ (td ≤ 0 ∧ 0 ≤ tc)) → OnSeg c d a := fun h => by
    have := onSeg_of_param a r tc td 0 h
    rwa [← ha, ← hc', ← hd'] at this
  have B1 : ((tc ≤ 1 ∧ 1 ≤ td) ∨ (td ≤ 1 ∧ 1 ≤ tc)) → OnSeg c d b := fun h => by
    have := onSeg_of_param a r tc td 1 h
    rwa [← hb, ← hc', ← hd'] at this
  -- tx lies between tc and td
  have hbt : (tc ≤ tx ∧ tx ≤ td) ∨ (td ≤ tx ∧ tx ≤ tc) := by
    rcases le_total tc td with h | h
    · left; constructor <;> nlinarith
    · right; constructor <;> nlinarith
  by_cases c0 : 0 ≤ tc ∧ tc ≤ 1
  · by_cases d0 : 0 ≤ td ∧ td ≤ 1
    · exact Or.inr (Or.inl ⟨Ic c0, Id d0⟩)
    · rcases lt_or_ge td 0 with h | h
      · exact Or.inr (Or.inr (Or.inl ⟨Ic c0, B0 (Or.inr ⟨h.le, c0.1⟩)⟩))
      · have : 1 < td := by
          by_contra h'; exact d0 ⟨h, not_lt.mp h'⟩
        exact Or.inr (Or.inr (Or.inr (Or.inl ⟨Ic c0, B1 (Or.inl ⟨c0.2, this.le⟩)⟩)))
  · by_cases d0 : 0 ≤ td ∧ td ≤ 1
    · rcases lt_or_ge tc 0 with h | h
      · exact Or.inr (Or.inr (Or.inr (Or.inr (Or.inl ⟨Id d0, B0 (Or.inl ⟨h.le, d0.1⟩)⟩))))
      · have : 1 < tc := by
          by_contra h'; exact c0 ⟨h, not_lt.mp h'⟩
        exact Or.inr (Or.inr (Or.inr (Or.inr (Or.inr ⟨Id d0, B1 (Or.inr ⟨d0.2, this.le⟩)⟩))))
    · -- neither end of c–d is inside a–b: c–d covers a–b
      have hc1 : tc < 0 ∨ 1 < tc := by
        rcases lt_or_ge tc 0 with h | h
        · exact Or.inl h
        · right; by_contra h'; exact c0 ⟨h, not_lt.mp h'⟩
      have hd1 : td < 0 ∨ 1 < td := by
        rcases lt_or_ge td 0 with h | h
        · exact Or.inl h
        · right; by_contra h'; exact d0 ⟨h, not_lt.mp h'⟩
      left
      rcases hc1 with hc1 | hc1 <;> rcases hd1 with hd1 | hd1
      · exfalso; rcases hbt with ⟨h, h'⟩ | ⟨h, h'⟩ <;> linarith
      · exact ⟨B0 (Or.inl ⟨hc1.le, by linarith⟩), B1 (Or.inl ⟨by linarith, hd1.le⟩)⟩
      · exact ⟨B0 (Or.inr ⟨hd1.le, by linarith⟩), B1 (Or.inr ⟨by linarith, hc1.le⟩)⟩
      · exfalso; rcases hbt with ⟨h, h'⟩ | ⟨h, h'⟩ <;> linarith


/-! ### The robust intersector: "no intersection" is sound -/

theorem pointOrCollinear_ne_none (a b : P K) (i1 i2 : Bool) : pointOrCollinear F a b i1 i2 ≠ .none := by
  unfold pointOrCollinear; split_ifs <;> simp

theorem collinearIntersection_ne_none (a b c d : P K)
    (h : (withinBounds F a c d = true ∧ withinBounds F b c d = true) ∨
         (withinBounds F c a b = true ∧ withinBounds F d a b = true) ∨
         (withinBounds F c a b = true ∧ withinBounds F a c d = true) ∨
         (withinBounds F c a b = true ∧ withinBounds F b c d = true) ∨
         (withinBounds F d a b = true ∧ withinBounds F a c d = true) ∨
         (withinBounds F d a b = true ∧ withinBounds F b c d = true)) :
    (collinearIntersection F a b c d).ty ≠ .none := by
  unfold collinearIntersection
  simp only [Bool.and_eq_true]
  split_ifs with h1 h2 h3 h4 h5 h6
  · simp
  · simp
  · exact pointOrCollinear_ne_none F _ _ _ _
  · exact pointOrCollinear_ne_none F _ _ _ _
  · exact pointOrCollinear_ne_none F _ _ _ _
  · exact pointOrCollinear_ne_none F _ _ _ _
  · exfalso
    rcases h with h | h | h | h | h | h
    · exact h1 h
    · exact h2 h
    · exact h3 h
    · exact h4 h
    · exact h5 h
    · exact h6 h

theorem sideP_degenerate (a p : P K) : sideP a a p = 0 := by unfold sideP side; ring

theorem onSeg_degenerate (a x : P K) (h : OnSeg a a x) : x = a := by
  obtain ⟨t, _, _, hx, hy⟩ := h
  exact Prod.ext (by rw [hx]; ring) (by rw [hy]; ring)

variable (orient : P K → P K → P K → Int) (ho : ∀ a b p, orient a b p = sgnZ (sideP a b p))

include hF ho in
/-- **C12 — "no intersection" is never wrong**: whenever the robust intersector answers
NoIntersection, the two closed segments have no point in common — through the envelope test, both
same-side tests and the collinear case analysis. -/
theorem C12_robust_none_sound (bad : K → Bool) (two four : K) (a b c d : P K)
    (h : (robust F orient bad two four a b c d).ty = .none) :
    ∀ x, OnSeg a b x → OnSeg c d x → False := by
  intro x hx1 hx2
  have hov := linesOverlap_of_common F hF a b c d x hx1 hx2
  unfold robust at h
  simp only [hov, Bool.not_true, Bool.false_eq_true, if_false, ho, Bool.or_eq_true,
    Bool.and_eq_true, decide_eq_true_eq, sgnZ_pos_iff, sgnZ_neg_iff, beq_iff_eq, sgnZ_zero_iff] at h
  by_cases s2 : (0 < sideP a b c ∧ 0 < sideP a b d) ∨ (sideP a b c < 0 ∧ sideP a b d < 0)
  · exact sameSide_no_common a b c d x hx1 hx2 s2
  · rw [if_neg s2] at h
    by_cases s1 : (0 < sideP c d a ∧ 0 < sideP c d b) ∨ (sideP c d a < 0 ∧ sideP c d b < 0)
    · exact sameSide_no_common c d a b x hx2 hx1 s1
    · rw [if_neg s1] at h
      by_cases hz : ((sideP a b c = 0 ∧ sideP a b d = 0) ∧ sideP c d a = 0) ∧ sideP c d b = 0
      · rw [if_pos hz] at h
        obtain ⟨⟨⟨z1, z2⟩, z3⟩, z4⟩ := hz
        apply collinearIntersection_ne_none F a b c d _ h
        have wb := fun p q r (hh : OnSeg q r p) => (withinBounds_iff F hF p q r).mpr (onSeg_inBox q r p hh)
        by_cases hab : a = b
        · by_cases hcd : c = d
          · subst hab; subst hcd
            have e1 := onSeg_degenerate a x hx1
            have e2 := onSeg_degenerate c x hx2
            have : a = c := by rw [← e1, ← e2]
            subst this
            exact Or.inl ⟨wb _ _ _ (onSeg_left a a), wb _ _ _ (onSeg_left a a)⟩
          · rcases collinear_combo c d a b x hcd z3 z4 hx2 hx1 with h' | h' | h' | h' | h' | h'
            · exact Or.inr (Or.inl ⟨wb _ _ _ h'.1, wb _ _ _ h'.2⟩)
            · exact Or.inl ⟨wb _ _ _ h'.1, wb _ _ _ h'.2⟩
            · exact Or.inr (Or.inr (Or.inl ⟨wb _ _ _ h'.2, wb _ _ _ h'.1⟩))
            · exact Or.inr (Or.inr (Or.inr (Or.inr (Or.inl ⟨wb _ _ _ h'.2, wb _ _ _ h'.1⟩))))
            · exact Or.inr (Or.inr (Or.inr (Or.inl ⟨wb _ _ _ h'.2, wb _ _ _ h'.1⟩)))
            · exact Or.inr (Or.inr (Or.inr (Or.inr (Or.inr ⟨wb _ _ _ h'.2, wb _ _ _ h'.1⟩))))
        · rcases collinear_combo a b c d x hab z1 z2 hx1 hx2 with h' | h' | h' | h' | h' | h'
          · exact Or.inl ⟨wb _ _ _ h'.1, wb _ _ _ h'.2⟩
          · exact Or.inr (Or.inl ⟨wb _ _ _ h'.1, wb _ _ _ h'.2⟩)
          · exact Or.inr (Or.inr (Or.inl ⟨wb _ _ _ h'.1, wb _ _ _ h'.2⟩))
          · exact Or.inr (Or.inr (Or.inr (Or.inl ⟨wb _ _ _ h'.1, wb _ _ _ h'.2⟩)))
          · exact Or.inr (Or.inr (Or.inr (Or.inr (Or.inl ⟨wb _ _ _ h'.1, wb _ _ _ h'.2⟩))))
          · exact Or.inr (Or.inr (Or.inr (Or.inr (Or.inr ⟨wb _ _ _ h'.1, wb _ _ _ h'.2⟩))))
      · rw [if_neg hz] at h
        split_ifs at h


/-! ### Reported points lie on both segments (end-point and collinear answers) -/

omit F hF orient ho in
theorem sideP_swap (c d p : P K) : sideP d c p = -sideP c d p := by unfold sideP side; ring

omit F hF orient ho in
/-- Both ends of c–d on the carrier of a–b, and a, b not strictly on one side of c–d: then a and b
are on the carrier of c–d too (all four orientations vanish). -/
theorem both_zero_all_zero (a b c d : P K) (hc : sideP a b c = 0) (hd : sideP a b d = 0)
    (hns : ¬ ((0 < sideP c d a ∧ 0 < sideP c d b) ∨ (sideP c d a < 0 ∧ sideP c d b < 0))) :
    sideP c d a = 0 ∧ sideP c d b = 0 := by
  by_cases hab : a = b
  · subst hab
    push Not at hns
    have : sideP c d a = 0 := by
      rcases lt_trichotomy (sideP c d a) 0 with h | h | h
      · have := hns.2 h; linarith
      · exact h
      · have := hns.1 h; linarith
    exact ⟨this, this⟩
  · obtain ⟨tc, hc'⟩ := param_of_collinear a b c hab hc
    obtain ⟨td, hd'⟩ := param_of_collinear a b d hab hd
    rw [hc', hd']
    unfold sideP side lineAt
    constructor <;> (simp only; ring)

omit F hF orient ho in
/-- A point of the carrier inside the bounding box is a point of the segment. -/
theorem inBox_collinear_onSeg (c d p : P K) (hs : sideP c d p = 0) (hb : InBox p c d) :
    OnSeg c d p := by
  by_cases hcd : c = d
  · subst hcd
    obtain ⟨h1, h2, h3, h4⟩ := hb
    simp only [min_self, max_self] at h1 h2 h3 h4
    have : p = c := Prod.ext (le_antisymm h2 h1) (le_antisymm h4 h3)
    rw [this]; exact onSeg_left c c
  · obtain ⟨t, ht⟩ := param_of_collinear c d p hcd hs
    have hp1 : p.1 = c.1 + t * (d.1 - c.1) := by rw [ht]; rfl
    have hp2 : p.2 = c.2 + t * (d.2 - c.2) := by rw [ht]; rfl
    obtain ⟨h1, h2, h3, h4⟩ := hb
    -- one coordinate of the direction is non-zero; the box bound in it bounds t
    have key : ∀ (u v q : K), u ≠ v → q = u + t * (v - u) → min u v ≤ q → q ≤ max u v → 0 ≤ t ∧ t ≤ 1 := by
      intro u v q huv hq hmin hmax
      rcases lt_or_gt_of_ne huv with hlt | hgt
      · rw [min_eq_left hlt.le] at hmin; rw [max_eq_right hlt.le] at hmax
        have hpos : 0 < v - u := by linarith
        constructor
        · by_contra hneg
          have := mul_neg_of_neg_of_pos (not_le.mp hneg) hpos
          linarith
        · by_contra hbig
          have : (1 - t) * (v - u) < 0 := mul_neg_of_neg_of_pos (by linarith [not_le.mp hbig]) hpos
          nlinarith
      · rw [min_eq_right hgt.le] at hmin; rw [max_eq_left hgt.le] at hmax
        have hneg' : v - u < 0 := by linarith
        constructor
        · by_contra hneg
          have := mul_pos_of_neg_of_neg (not_le.mp hneg) hneg'
          linarith
        · by_contra hbig
          have : 0 < (1 - t) * (v - u) := mul_pos_of_neg_of_neg (by linarith [not_le.mp hbig]) hneg'
          nlinarith
    have hne : c.1 ≠ d.1 ∨ c.2 ≠ d.2 := by
      by_contra h
      push Not at h
      exact hcd (Prod.ext h.1 h.2)
    rcases hne with hne | hne
    · obtain ⟨t0, t1⟩ := key c.1 d.1 p.1 hne hp1 h1 h2
      exact ⟨t, t0, t1, hp1, hp2⟩
    · obtain ⟨t0, t1⟩ := key c.2 d.2 p.2 hne hp2 h3 h4
      exact ⟨t, t0, t1, hp1, hp2⟩


include hF in
/-- Every point computeCollinearIntersection reports lies on both segments (all four orientations
zero). -/
theorem collinearIntersection_points (a b c d : P K)
    (z1 : sideP a b c = 0) (z2 : sideP a b d = 0) (z3 : sideP c d a = 0) (z4 : sideP c d b = 0) :
    ∀ p ∈ (collinearIntersection F a b c d).pts, OnSeg a b p ∧ OnSeg c d p := by
  have wb : ∀ p q r, sideP q r p = 0 → withinBounds F p q r = true → OnSeg q r p :=
    fun p q r hs hh => inBox_collinear_onSeg q r p hs ((withinBounds_iff F hF p q r).mp hh)
  unfold collinearIntersection
  simp only [Bool.and_eq_true]
  split_ifs with h1 h2 h3 h4 h5 h6
  · intro p hp
    simp only [List.mem_cons, List.not_mem_nil, or_false] at hp
    rcases hp with rfl | rfl
    · exact ⟨onSeg_left _ _, wb _ _ _ z3 h1.1⟩
    · exact ⟨onSeg_right _ _, wb _ _ _ z4 h1.2⟩
  · intro p hp
    simp only [List.mem_cons, List.not_mem_nil, or_false] at hp
    rcases hp with rfl | rfl
    · exact ⟨wb _ _ _ z1 h2.1, onSeg_left _ _⟩
    · exact ⟨wb _ _ _ z2 h2.2, onSeg_right _ _⟩
  · intro p hp
    simp only [List.mem_cons, List.not_mem_nil, or_false] at hp
    rcases hp with rfl | rfl
    · exact ⟨wb _ _ _ z1 h3.1, onSeg_left _ _⟩
    · exact ⟨onSeg_left _ _, wb _ _ _ z3 h3.2⟩
  · intro p hp
    simp only [List.mem_cons, List.not_mem_nil, or_false] at hp
    rcases hp with rfl | rfl
    · exact ⟨wb _ _ _ z1 h4.1, onSeg_left _ _⟩
    · exact ⟨onSeg_right _ _, wb _ _ _ z4 h4.2⟩
  · intro p hp
    simp only [List.mem_cons, List.not_mem_nil, or_false] at hp
    rcases hp with rfl | rfl
    · exact ⟨wb _ _ _ z2 h5.1, onSeg_right _ _⟩
    · exact ⟨onSeg_left _ _, wb _ _ _ z3 h5.2⟩
  · intro p hp
    simp only [List.mem_cons, List.not_mem_nil, or_false] at hp
    rcases hp with rfl | rfl
    · exact ⟨wb _ _ _ z2 h6.1, onSeg_right _ _⟩
    · exact ⟨onSeg_right _ _, wb _ _ _ z4 h6.2⟩
  · intro p hp; simp at hp

include hF ho in
/-- **C12 — end-point and collinear answers are points of both segments**: when some orientation
vanishes (the intersector does not compute a crossing), every point it reports — the touching end
point, or the end points of the collinear overlap — lies on both closed segments. -/
theorem C12_robust_points_sound (bad : K → Bool) (two four : K) (a b c d : P K)
    (hnp : sideP a b c = 0 ∨ sideP a b d = 0 ∨ sideP c d a = 0 ∨ sideP c d b = 0) :
    ∀ p ∈ (robust F orient bad two four a b c d).pts, OnSeg a b p ∧ OnSeg c d p := by
  unfold robust
  by_cases h0 : linesOverlap F a b c d = true
  swap
  · simp only [h0, Bool.not_false, if_true]; intro p hp; simp at hp
  simp only [h0, Bool.not_true, Bool.false_eq_true, if_false, ho, Bool.or_eq_true, Bool.and_eq_true,
    decide_eq_true_eq, sgnZ_pos_iff, sgnZ_neg_iff, beq_iff_eq, sgnZ_zero_iff]
  by_cases s2 : (0 < sideP a b c ∧ 0 < sideP a b d) ∨ (sideP a b c < 0 ∧ sideP a b d < 0)
  · rw [if_pos s2]; intro p hp; simp at hp
  rw [if_neg s2]
  by_cases s1 : (0 < sideP c d a ∧ 0 < sideP c d b) ∨ (sideP c d a < 0 ∧ sideP c d b < 0)
  · rw [if_pos s1]; intro p hp; simp at hp
  rw [if_neg s1]
  by_cases hz : ((sideP a b c = 0 ∧ sideP a b d = 0) ∧ sideP c d a = 0) ∧ sideP c d b = 0
  · rw [if_pos hz]
    obtain ⟨⟨⟨z1, z2⟩, z3⟩, z4⟩ := hz
    exact collinearIntersection_points F hF a b c d z1 z2 z3 z4
  rw [if_neg hz]
  have hsome : ((sideP a b c = 0 ∨ sideP a b d = 0) ∨ sideP c d a = 0) ∨ sideP c d b = 0 := by
    rcases hnp with h | h | h | h
    · exact Or.inl (Or.inl (Or.inl h))
    · exact Or.inl (Or.inl (Or.inr h))
    · exact Or.inl (Or.inr h)
    · exact Or.inr h
  rw [if_pos hsome]
  intro p hp
  simp only [List.mem_cons, List.not_mem_nil, or_false] at hp
  subst hp
  simp only [peq_iff F hF]
  by_cases e1 : a = c ∨ a = d
  · rw [if_pos e1]
    refine ⟨onSeg_left _ _, ?_⟩
    rcases e1 with e | e
    · rw [e]; exact onSeg_left _ _
    · rw [e]; exact onSeg_right _ _
  rw [if_neg e1]
  by_cases e2 : b = c ∨ b = d
  · rw [if_pos e2]
    refine ⟨onSeg_right _ _, ?_⟩
    rcases e2 with e | e
    · rw [e]; exact onSeg_left _ _
    · rw [e]; exact onSeg_right _ _
  rw [if_neg e2]
  by_cases c1 : sideP a b c = 0
  · -- c on the carrier of a–b
    rw [if_pos c1]
    refine ⟨?_, onSeg_left _ _⟩
    have hd : sideP a b d ≠ 0 := by
      intro hd
      obtain ⟨z3, z4⟩ := both_zero_all_zero a b c d c1 hd s1
      exact hz ⟨⟨⟨c1, hd⟩, z3⟩, z4⟩
    exact touch_onSeg a b c d c1 hd s1
  rw [if_neg c1]
  by_cases c2 : sideP a b d = 0
  · -- d on the carrier of a–b, c is not
    rw [if_pos c2]
    refine ⟨?_, onSeg_right _ _⟩
    apply touch_onSeg a b d c c2 c1
    rw [sideP_swap c d a, sideP_swap c d b]
    intro h; apply s1
    rcases h with ⟨h1, h2⟩ | ⟨h1, h2⟩
    · exact Or.inr ⟨by linarith, by linarith⟩
    · exact Or.inl ⟨by linarith, by linarith⟩
  rw [if_neg c2]
  by_cases c3 : sideP c d a = 0
  · -- a on the carrier of c–d
    rw [if_pos c3]
    refine ⟨onSeg_left _ _, ?_⟩
    have hb : sideP c d b ≠ 0 := by
      intro hb
      obtain ⟨z1, z2⟩ := both_zero_all_zero c d a b c3 hb s2
      exact c1 z1
    exact touch_onSeg c d a b c3 hb s2
  rw [if_neg c3]
  -- b on the carrier of c–d (the only orientation left to vanish)
  refine ⟨onSeg_right _ _, ?_⟩
  have hb : sideP c d b = 0 := by
    rcases hsome with ((h | h) | h) | h
    · exact absurd h c1
    · exact absurd h c2
    · exact absurd h c3
    · exact h
  apply touch_onSeg c d b a hb c3
  rw [sideP_swap a b c, sideP_swap a b d]
  intro h; apply s2
  rcases h with ⟨h1, h2⟩ | ⟨h1, h2⟩
  · exact Or.inr ⟨by linarith, by linarith⟩
  · exact Or.inl ⟨by linarith, by linarith⟩


/-! ### The proper crossing -/

/-- The homogeneous-coordinate intersection of the two carriers, in the field. -/
noncomputable def crossPt (a b c d : P K) : P K :=
  let l1w := a.1 * b.2 - b.1 * a.2
  let l2w := c.1 * d.2 - d.1 * c.2
  let w := (a.2 - b.2) * (d.1 - c.1) - (c.2 - d.2) * (b.1 - a.1)
  (((b.1 - a.1) * l2w - (d.1 - c.1) * l1w) / w, ((c.2 - d.2) * l1w - (a.2 - b.2) * l2w) / w)

omit F hF orient ho in
theorem opp_sides (u v : K) (h : u * v < 0) : u - v ≠ 0 ∧ 0 ≤ u / (u - v) ∧ u / (u - v) ≤ 1 := by
  rcases lt_trichotomy u 0 with hu | hu | hu
  · have hv : 0 < v := by
      by_contra hv
      have := mul_nonneg_of_nonpos_of_nonpos hu.le (not_lt.mp hv)
      linarith
    have hneg : u - v < 0 := by linarith
    refine ⟨hneg.ne, div_nonneg_of_nonpos hu.le hneg.le, ?_⟩
    rw [div_le_one_of_neg hneg]; linarith
  · rw [hu] at h; simp at h
  · have hv : v < 0 := by
      by_contra hv
      have := mul_nonneg hu.le (not_lt.mp hv)
      linarith
    have hpos : 0 < u - v := by linarith
    refine ⟨hpos.ne', div_nonneg hu.le hpos.le, ?_⟩
    rw [div_le_one hpos]; linarith

omit F hF orient ho in
/-- With the end points of each segment strictly on opposite sides of the other's carrier, the
carriers' common point is a point of both closed segments. -/
theorem crossPt_onSeg (a b c d : P K) (h1 : sideP a b c * sideP a b d < 0)
    (h2 : sideP c d a * sideP c d b < 0) :
    OnSeg a b (crossPt a b c d) ∧ OnSeg c d (crossPt a b c d) := by
  obtain ⟨n1, t0, t1⟩ := opp_sides _ _ h2
  obtain ⟨n2, u0, u1⟩ := opp_sides _ _ h1
  obtain ⟨ax, ay⟩ := a; obtain ⟨bx, by_⟩ := b; obtain ⟨cx, cy⟩ := c; obtain ⟨dx, dy⟩ := d
  unfold sideP side at *
  simp only at *
  have hw1 : (ay - by_) * (dx - cx) - (cy - dy) * (bx - ax)
      = ((dx - cx) * (ay - cy) - (dy - cy) * (ax - cx)) - ((dx - cx) * (by_ - cy) - (dy - cy) * (bx - cx)) := by ring
  have hw2 : (ay - by_) * (dx - cx) - (cy - dy) * (bx - ax)
      = -(((bx - ax) * (cy - ay) - (by_ - ay) * (cx - ax)) - ((bx - ax) * (dy - ay) - (by_ - ay) * (dx - ax))) := by ring
  have hw : (ay - by_) * (dx - cx) - (cy - dy) * (bx - ax) ≠ 0 := by rw [hw1]; exact n1
  have hw3 : ((bx - ax) * (cy - ay) - (by_ - ay) * (cx - ax)) - ((bx - ax) * (dy - ay) - (by_ - ay) * (dx - ax))
      = -((ay - by_) * (dx - cx) - (cy - dy) * (bx - ax)) := by ring
  have hnw : -((ay - by_) * (dx - cx) - (cy - dy) * (bx - ax)) ≠ 0 := neg_ne_zero.mpr hw
  constructor
  · refine ⟨_, t0, t1, ?_, ?_⟩
    · unfold crossPt; simp only
      rw [← hw1]
      have key : (bx - ax) * (cx * dy - dx * cy) - (dx - cx) * (ax * by_ - bx * ay)
          = ax * ((ay - by_) * (dx - cx) - (cy - dy) * (bx - ax))
            + ((dx - cx) * (ay - cy) - (dy - cy) * (ax - cx)) * (bx - ax) := by ring
      rw [key, add_div, mul_div_cancel_right₀ _ hw, div_mul_eq_mul_div]
    · unfold crossPt; simp only
      rw [← hw1]
      have key : (cy - dy) * (ax * by_ - bx * ay) - (ay - by_) * (cx * dy - dx * cy)
          = ay * ((ay - by_) * (dx - cx) - (cy - dy) * (bx - ax))
            + ((dx - cx) * (ay - cy) - (dy - cy) * (ax - cx)) * (by_ - ay) := by ring
      rw [key, add_div, mul_div_cancel_right₀ _ hw, div_mul_eq_mul_div]
  · refine ⟨_, u0, u1, ?_, ?_⟩
    · unfold crossPt; simp only
      rw [hw3]
      have key : (bx - ax) * (cx * dy - dx * cy) - (dx - cx) * (ax * by_ - bx * ay)
          = cx * ((ay - by_) * (dx - cx) - (cy - dy) * (bx - ax))
            + (-((bx - ax) * (cy - ay) - (by_ - ay) * (cx - ax))) * (dx - cx) := by ring
      rw [key, add_div, mul_div_cancel_right₀ _ hw, div_mul_eq_mul_div, div_neg]; ring
    · unfold crossPt; simp only
      rw [hw3]
      have key : (cy - dy) * (ax * by_ - bx * ay) - (ay - by_) * (cx * dy - dx * cy)
          = cy * ((ay - by_) * (dx - cx) - (cy - dy) * (bx - ax))
            + (-((bx - ax) * (cy - ay) - (by_ - ay) * (cx - ax))) * (dy - cy) := by ring
      rw [key, add_div, mul_div_cancel_right₀ _ hw, div_mul_eq_mul_div, div_neg]; ring


/-- All the arithmetic is the field's. -/
structure LawfulArith (F : DetOps K) : Prop extends LawfulLt F where
  sub : ∀ a b, F.sub a b = a - b
  add : ∀ a b, F.add a b = a + b
  mul : ∀ a b, F.mul a b = a * b
  div : ∀ a b, F.div a b = a / b

omit F hF orient ho in
/-- The homogeneous-coordinate point does not depend on where the origin is (both ordinates). -/
theorem crossPt_translate (a b c d : P K) (nx ny : K)
    (hw : (a.2 - b.2) * (d.1 - c.1) - (c.2 - d.2) * (b.1 - a.1) ≠ 0) :
    ((crossPt (a.1 - nx, a.2 - ny) (b.1 - nx, b.2 - ny) (c.1 - nx, c.2 - ny) (d.1 - nx, d.2 - ny)).1 + nx,
     (crossPt (a.1 - nx, a.2 - ny) (b.1 - nx, b.2 - ny) (c.1 - nx, c.2 - ny) (d.1 - nx, d.2 - ny)).2 + ny)
      = crossPt a b c d := by
  unfold crossPt
  simp only
  have e : ((a.2 - ny) - (b.2 - ny)) * ((d.1 - nx) - (c.1 - nx)) - ((c.2 - ny) - (d.2 - ny)) * ((b.1 - nx) - (a.1 - nx))
      = (a.2 - b.2) * (d.1 - c.1) - (c.2 - d.2) * (b.1 - a.1) := by ring
  rw [e]
  apply Prod.ext
  · simp only
    rw [div_add' _ _ _ hw]
    congr 1; ring
  · simp only
    rw [div_add' _ _ _ hw]
    congr 1; ring

variable (hA : LawfulArith F)

include hA in
theorem hcoords_eq (a b c d : P K) :
    hcoords F (fun _ => false) a b c d = some (crossPt a b c d) := by
  unfold hcoords crossPt
  simp only [hA.sub, hA.mul, hA.div, Bool.or_self, Bool.false_eq_true, if_false]

include hA in
/-- In exact arithmetic the computed crossing point is the carriers' common point: the envelope-centre
normalisation cancels, the result passes both envelope tests, and the central-endpoint fallback is
never taken. -/
theorem properIntersection_eq (two four : K) (a b c d : P K)
    (h1 : sideP a b c * sideP a b d < 0) (h2 : sideP c d a * sideP c d b < 0) :
    properIntersection F (fun _ => false) two four a b c d = crossPt a b c d := by
  have hL : LawfulLt F := hA.toLawfulLt
  obtain ⟨on1, on2⟩ := crossPt_onSeg a b c d h1 h2
  have hw : (a.2 - b.2) * (d.1 - c.1) - (c.2 - d.2) * (b.1 - a.1) ≠ 0 := by
    obtain ⟨n1, _, _⟩ := opp_sides _ _ h2
    intro h; apply n1
    unfold sideP side; rw [← h]; ring
  unfold properIntersection
  simp only [hcoords_eq F hA, hA.sub, hA.add]
  rw [crossPt_translate a b c d _ _ hw]
  rw [(withinBounds_iff F hL _ _ _).mpr (onSeg_inBox _ _ _ on1),
    (withinBounds_iff F hL _ _ _).mpr (onSeg_inBox _ _ _ on2)]
  simp

include hA ho in
/-- **C12 — the computed crossing**: when the end points of each segment are strictly on opposite
sides of the other's carrier, the intersector answers "point" with the common point of the two
carriers, which lies on both closed segments. -/
theorem C12_robust_proper_sound (two four : K) (a b c d : P K)
    (h1 : sideP a b c * sideP a b d < 0) (h2 : sideP c d a * sideP c d b < 0) :
    (robust F orient (fun _ => false) two four a b c d).ty = .point ∧
    (robust F orient (fun _ => false) two four a b c d).pts = [crossPt a b c d] ∧
    OnSeg a b (crossPt a b c d) ∧ OnSeg c d (crossPt a b c d) := by
  have hL : LawfulLt F := hA.toLawfulLt
  obtain ⟨on1, on2⟩ := crossPt_onSeg a b c d h1 h2
  have hov := linesOverlap_of_common F hL a b c d _ on1 on2
  have nz : ∀ u v : K, u * v < 0 → u ≠ 0 ∧ v ≠ 0 ∧ ¬ ((0 < u ∧ 0 < v) ∨ (u < 0 ∧ v < 0)) := by
    intro u v h
    refine ⟨fun e => by rw [e] at h; simp at h, fun e => by rw [e] at h; simp at h, ?_⟩
    rintro (⟨hu, hv⟩ | ⟨hu, hv⟩)
    · have := mul_pos hu hv; linarith
    · have := mul_pos_of_neg_of_neg hu hv; linarith
  obtain ⟨a1, a2, a3⟩ := nz _ _ h1
  obtain ⟨b1, b2, b3⟩ := nz _ _ h2
  have hp := properIntersection_eq F hA two four a b c d h1 h2
  unfold robust
  simp only [hov, Bool.not_true, Bool.false_eq_true, if_false, ho, Bool.or_eq_true, Bool.and_eq_true,
    decide_eq_true_eq, sgnZ_pos_iff, sgnZ_neg_iff, beq_iff_eq, sgnZ_zero_iff, if_neg a3, if_neg b3,
    a1, a2, b1, b2, and_self, or_self, hp]
  exact ⟨trivial, trivial, on1, on2⟩


omit hF orient ho hA in
theorem collinearIntersection_has_point (a b c d : P K)
    (h : (collinearIntersection F a b c d).ty ≠ .none) :
    ∃ p, p ∈ (collinearIntersection F a b c d).pts := by
  unfold collinearIntersection at h ⊢
  simp only [] at h ⊢
  split_ifs at h ⊢
  all_goals first
    | exact ⟨_, List.mem_cons_self⟩
    | exact absurd rfl h

omit F hF orient ho hA in
theorem ite_chain_has_point (c0 c1 c2 c3 c4 : Prop) [Decidable c0] [Decidable c1] [Decidable c2]
    [Decidable c3] [Decidable c4] (R : Result K) (p q : P K)
    (hR : R.ty ≠ .none → ∃ x, x ∈ R.pts)
    (h : (if c0 then (⟨.none, []⟩ : Result K) else if c1 then ⟨.none, []⟩ else if c2 then ⟨.none, []⟩
      else if c3 then R else if c4 then ⟨.point, [p]⟩ else ⟨.point, [q]⟩).ty ≠ .none) :
    ∃ x, x ∈ (if c0 then (⟨.none, []⟩ : Result K) else if c1 then ⟨.none, []⟩ else if c2 then ⟨.none, []⟩
      else if c3 then R else if c4 then ⟨.point, [p]⟩ else ⟨.point, [q]⟩).pts := by
  split_ifs at h ⊢
  · exact absurd rfl h
  · exact absurd rfl h
  · exact absurd rfl h
  · exact hR h
  · exact ⟨_, List.mem_cons_self⟩
  · exact ⟨_, List.mem_cons_self⟩

omit hF ho hA in
/-- Whenever the answer is not "no intersection", at least one point is reported. -/
theorem robust_has_point (bad : K → Bool) (two four : K) (a b c d : P K)
    (h : (robust F orient bad two four a b c d).ty ≠ .none) :
    ∃ p, p ∈ (robust F orient bad two four a b c d).pts :=
  ite_chain_has_point _ _ _ _ _ _ _ _ (collinearIntersection_has_point F a b c d) h

include hA ho in
/-- **C12 — the classification is exact about emptiness**: in exact arithmetic the robust
intersector answers NoIntersection if and only if the two closed segments have no common point. -/
theorem C12_robust_none_iff_disjoint (two four : K) (a b c d : P K) :
    (robust F orient (fun _ => false) two four a b c d).ty = .none ↔
      ¬ ∃ x, OnSeg a b x ∧ OnSeg c d x := by
  have hL : LawfulLt F := hA.toLawfulLt
  constructor
  · rintro h ⟨x, h1, h2⟩
    exact C12_robust_none_sound F hL orient ho _ two four a b c d h x h1 h2
  · intro hno
    by_contra hne
    obtain ⟨p, hp⟩ := robust_has_point F orient _ two four a b c d hne
    by_cases hnp : sideP a b c = 0 ∨ sideP a b d = 0 ∨ sideP c d a = 0 ∨ sideP c d b = 0
    · exact hno ⟨p, C12_robust_points_sound F hL orient ho _ two four a b c d hnp p hp⟩
    · push Not at hnp
      obtain ⟨n1, n2, n3, n4⟩ := hnp
      -- all four orientations non-zero: either a same-side exit (contradiction) or a proper crossing
      by_cases s2 : sideP a b c * sideP a b d < 0
      · by_cases s1 : sideP c d a * sideP c d b < 0
        · obtain ⟨_, _, on1, on2⟩ := C12_robust_proper_sound F orient ho hA two four a b c d s2 s1
          exact hno ⟨_, on1, on2⟩
        · apply hne
          have hpos : 0 < sideP c d a * sideP c d b :=
            lt_of_le_of_ne (not_lt.mp s1) (Ne.symm (mul_ne_zero n3 n4))
          have hss : (0 < sideP c d a ∧ 0 < sideP c d b) ∨ (sideP c d a < 0 ∧ sideP c d b < 0) := by
            rcases lt_or_gt_of_ne n3 with h | h
            · exact Or.inr ⟨h, by by_contra h'; nlinarith [not_lt.mp h']⟩
            · exact Or.inl ⟨h, by by_contra h'; nlinarith [not_lt.mp h']⟩
          unfold robust
          simp only [ho, Bool.or_eq_true, Bool.and_eq_true, decide_eq_true_eq, sgnZ_pos_iff, sgnZ_neg_iff,
            if_pos hss]
          split_ifs <;> rfl
      · apply hne
        have hpos : 0 < sideP a b c * sideP a b d :=
          lt_of_le_of_ne (not_lt.mp s2) (Ne.symm (mul_ne_zero n1 n2))
        have hss : (0 < sideP a b c ∧ 0 < sideP a b d) ∨ (sideP a b c < 0 ∧ sideP a b d < 0) := by
          rcases lt_or_gt_of_ne n1 with h | h
          · exact Or.inr ⟨h, by by_contra h'; nlinarith [not_lt.mp h']⟩
          · exact Or.inl ⟨h, by by_contra h'; nlinarith [not_lt.mp h']⟩
        unfold robust
        simp only [ho, Bool.or_eq_true, Bool.and_eq_true, decide_eq_true_eq, sgnZ_pos_iff, sgnZ_neg_iff,
          if_pos hss]
        split_ifs <;> rfl

end sound
end GeomVerif.Intersect
