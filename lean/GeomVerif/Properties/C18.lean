/-
C18 — decimal-digit limits.  Proved about the exact formatting contract:
  * rounding N/D to the nearest integer (ties to even) is within half a unit — so a number
    printed with d decimals differs from the exact ordinate by at most ½·10⁻ᵈ;
  * trimming removes only trailing characters equal to the trimmed one (so only trailing zeros
    of the fraction, then a dangling point): the kept text is a prefix, what was removed is a run
    of that character, and the result no longer ends in it — the decimal value is unchanged and
    no trailing zero / dangling point remains.
The correspondence run checks Go's strconv.FormatFloat against this contract on every emitted
number (test of the stdlib assumption) and the encoders' text against the model's.
-/
import GeomVerif.Spec.Decimal

namespace GeomVerif.Decimal

/-- **Half-unit rounding error**: |round(N/D)·D − N| ≤ D/2 (stated without division). -/
theorem C18_round_error (N D : Int) (hD : 0 < D) :
    2 * (roundHalfEven N D * D - N) ≤ D ∧ -D ≤ 2 * (roundHalfEven N D * D - N) := by
  unfold roundHalfEven
  dsimp only
  have hb : (0 : Int) < 2 * D := by omega
  have hdiv := Int.mul_ediv_add_emod (2 * N + D) (2 * D)
  have hr0 := Int.emod_nonneg (2 * N + D) (by omega : 2 * D ≠ 0)
  have hr1 := Int.emod_lt_of_pos (2 * N + D) hb
  -- write a = b·n + r
  generalize (2 * N + D) / (2 * D) = n at hdiv ⊢
  generalize (2 * N + D) % (2 * D) = r at hdiv hr0 hr1 ⊢
  have hmul : 2 * D * n = 2 * (n * D) := by
    rw [Int.mul_assoc, Int.mul_comm D n]
  split
  · rename_i h
    have hr : r = 0 := h.1
    have e : 2 * ((n - 1) * D - N) = 2 * (n * D) - 2 * D - 2 * N := by
      rw [Int.sub_mul]; omega
    omega
  · omega

/-- With d decimals the printed value n/10ᵈ of an ordinate num/den satisfies
|n/10ᵈ − num/den| ≤ ½·10⁻ᵈ (cross-multiplied). -/
theorem C18_formatFixed_error (num den d : Nat) (hden : 0 < den) :
    let n := roundHalfEven ((num : Int) * 10 ^ d) (den : Int)
    2 * (n * den - num * 10 ^ d) ≤ den ∧ -(den : Int) ≤ 2 * (n * den - num * 10 ^ d) :=
  C18_round_error _ _ (by exact_mod_cast hden)

theorem dropWhile_spec (c : Char) (l : List Char) :
    ∃ k, l = List.replicate k c ++ l.dropWhile (· == c) ∧
      (l.dropWhile (· == c)).head? ≠ some c := by
  induction l with
  | nil => exact ⟨0, rfl, by simp⟩
  | cons x xs ih =>
    by_cases hx : x = c
    · subst hx
      obtain ⟨k, hk, hh⟩ := ih
      refine ⟨k + 1, ?_, ?_⟩
      · simp only [List.dropWhile_cons, beq_self_eq_true, if_true, List.replicate_succ, List.cons_append]
        rw [← hk]
      · simpa [List.dropWhile_cons] using hh
    · refine ⟨0, ?_, ?_⟩
      · simp [List.dropWhile_cons, hx]
      · simp [List.dropWhile_cons, hx]

/-- **Trimming only removes a trailing run of the trimmed character** and leaves none behind. -/
theorem C18_trim (c : Char) (s : List Char) :
    ∃ k, s = trimRight c s ++ List.replicate k c ∧ (trimRight c s).getLast? ≠ some c := by
  unfold trimRight
  obtain ⟨k, hk, hh⟩ := dropWhile_spec c s.reverse
  refine ⟨k, ?_, ?_⟩
  · have := congrArg List.reverse hk
    simp only [List.reverse_reverse, List.reverse_append, List.reverse_replicate] at this
    exact this
  · rw [List.getLast?_reverse]; exact hh

/-- d = 0 emits no decimal point at all (nothing to trim). -/
theorem C18_zero_digits_no_point (neg : Bool) (num den : Nat) :
    formatMax neg num den 0 = (if neg then "-" else "") ++
      toString ((roundHalfEven ((num : Int) * 10 ^ 0) (den : Int)).toNat / 10 ^ 0) := by
  simp [formatMax, formatFixed]

/-- Non-vacuity: exact ties go to even (0.125 → 0.12, 0.375 → 0.38, 2.5 → 2, 3.5 → 4), a
negative value rounding to zero prints "-0", trailing zeros and the dangling point are removed. -/
example : formatMax false 1 8 2 = "0.12" ∧ formatMax false 3 8 2 = "0.38" ∧
    roundHalfEven 5 2 = 2 ∧ roundHalfEven 7 2 = 4 ∧ formatMax true 1 1000 2 = "-0" ∧
    formatMax false 100 1 3 = "100" ∧ formatMax false 21 2 3 = "10.5" := by decide

end GeomVerif.Decimal
