/-
C06 — the WKT parser is total and accepts only consistent geometries.

Proved here, for every input / call sequence (no bound on length or nesting):
* `C06_assertions_unreachable`: no sequence of calls into the layout logic that follows the call
  protocol (Model/WktParse.lean `Proto`) reaches any of the `panic(...)` sites of lex.go and
  lex_stack.go or an out-of-range index of the ring-closure loop — 13 assertion sites;
* `C06_lexer_positions`, `C06_error_renderable`: the lexer keeps `lineStart + linePos = offset ≤ len`
  with no newline inside the current line prefix, every syntax error records such a position,
  and `(*SyntaxError).Error` then never slices out of range nor repeats a negative count;
* `C06_point_check_sound`, `C06_line_check_sound`, `C06_ring_check_sound`: what the three validity
  checks let through has 2..4 ordinates matching the layout, at least two points, at least
  four points and equal first/last X, Y (and Z when the layout has Z).

Decided by the correspondence run instead: that the regenerated LALR tables only produce call
sequences following the protocol (checked on the ghost trace of every explored input), never
index a table or the value stack out of range, and terminate within the model's fuel.
-/
import GeomVerif.Lemmas.WktStack
import GeomVerif.Lemmas.WktLex

namespace GeomVerif.C06
open GeomVerif GeomVerif.Wkb GeomVerif.WktParse

/-- **No assertion is reachable.** From a fresh lexer, every protocol-following sequence of
layout calls runs to completion or to a reported syntax error — never to a panic. -/
theorem C06_assertions_unreachable (feq : Ord → Ord → Bool) (evs : List Ev)
    (h : protocolOK {} evs = true) (msg : String) : runEvs feq {} evs ≠ .error msg :=
  runEvs_no_panic feq evs {} {} rel_init h msg

/-- The same from any state reached along the way (the invariant is inductive). -/
theorem C06_assertions_unreachable_from (feq : Ord → Ord → Bool) (p : Proto) (l : Lx)
    (hrel : Rel p l.lyt) (evs : List Ev) (h : protocolOK p evs = true) (msg : String) :
    runEvs feq l evs ≠ .error msg :=
  runEvs_no_panic feq evs p l hrel h msg

/-- One call: no panic, and the stack invariant is re-established whenever parsing goes on. -/
theorem C06_step_invariant (feq : Ord → Ord → Bool) (p p' : Proto) (l : Lx) (h : Rel p l.lyt)
    (e : Ev) (hp : p.step e = some p') : Good (evStep feq l e) (Rel p') :=
  step_good feq h e hp

/-- Non-vacuity: the protocol admits the trace of `GEOMETRYCOLLECTION M (POINT EMPTY, POINT M (1 2 3))`
and that trace runs to the end. -/
example : protocolOK {} [.pushFrame 3, .baseAllowed, .baseEmptyAllowed, .setLayout 3, .nonEmptyAllowed,
    .point [1, 2, 3], .popFrame, .atEnd] = true := by decide
example : (match runEvs (fun a b => a == b) {} [.pushFrame 3, .baseAllowed, .baseEmptyAllowed, .setLayout 3,
    .nonEmptyAllowed, .point [1, 2, 3], .popFrame, .atEnd] with | .ok (some _) => true | _ => false) = true := by
  decide

/-- The lexer's position bookkeeping is an invariant of `Lex` and of error recording. -/
theorem C06_lexer_positions (parseNum : List Char → Option Ord) (w : Input) :
    LexInv w {} ∧
    (∀ l, LexInv w l → LexInv w (lex parseNum w l).1) ∧
    (∀ l a b, LexInv w l → LexInv w (setSyntaxError l a b)) :=
  ⟨⟨posInv_zero w, posInv_zero w, trivial⟩, fun l h => lex_inv parseNum w l h,
   fun l a b h => setSyntaxError_inv w l a b h⟩

/-- **Every recorded syntax error can be rendered.** -/
theorem C06_error_renderable (w : Input) (l : Lx) (h : LexInv w l) (e : SynErr)
    (he : l.lastErr = some (.syn e)) : ∃ bs, render w e = .ok bs := by
  have := h.2.2
  rw [he] at this
  exact render_ok w e this

/-- Non-vacuity of the renderability premise: an error recorded at the start of any text. -/
example (w : Input) : LexInv w (setSyntaxError {} "p" "h") :=
  setSyntaxError_inv w {} _ _ ⟨posInv_zero w, posInv_zero w, trivial⟩

/-- A point passes only with 2, 3 or 4 ordinates. -/
theorem C06_point_check_sound (l l' : Lx) (cl : List Ord) (h : isValidPoint l cl = .ok (l', true)) :
    cl.length = 2 ∨ cl.length = 3 ∨ cl.length = 4 := by
  unfold isValidPoint at h
  split at h
  · simp [pure, Except.pure] at h
  · rename_i h2; exact Or.inl h2
  · rename_i h3; exact Or.inr (Or.inl h3)
  · rename_i h4; exact Or.inr (Or.inr h4)
  · simp [pure, Except.pure] at h

/-- A linestring passes only with at least two points of the current stride. -/
theorem C06_line_check_sound (l l' : Lx) (cl : List Ord) (f : Frame) (rest : List Frame)
    (hs : l.lyt = f :: rest) (h : isValidLineString l cl = .ok (l', true)) :
    2 * Layout.stride f.layout ≤ cl.length := by
  unfold isValidLineString at h
  rw [curLayout_cons hs] at h
  simp only [bind, Except.bind] at h
  split at h
  · simp [pure, Except.pure] at h
  · omega

theorem ringClosedLoop_true (feq : Ord → Ord → Bool) (cl : List Ord) (s : Nat) (is : List Nat)
    (h : ringClosedLoop feq cl s is = .ok true) :
    ∀ i ∈ is, ∃ a b, cl[i]? = some a ∧ cl[cl.length - s + i]? = some b ∧ feq a b = true := by
  induction is with
  | nil => intro i hi; cases hi
  | cons j rest ih =>
    unfold ringClosedLoop at h
    split at h
    · rename_i a b ha hb
      split at h
      · rename_i hfe
        intro i hi
        rcases List.mem_cons.mp hi with rfl | hi
        · refine ⟨a, b, ha, ?_, hfe⟩
          split at hb
          · cases hb
          · exact hb
        · exact ih h i hi
      · simp [pure, Except.pure] at h
    · cases h

/-- A ring passes only with at least four points and first = last in X, Y (and Z if present). -/
theorem C06_ring_check_sound (feq : Ord → Ord → Bool) (l l' : Lx) (cl : List Ord) (f : Frame)
    (rest : List Frame) (hs : l.lyt = f :: rest) (h : isValidPolygonRing feq l cl = .ok (l', true)) :
    4 * Layout.stride f.layout ≤ cl.length ∧
    ∀ i, i < (if (Layout.zIndex f.layout).isSome then 3 else 2) →
      ∃ a b, cl[i]? = some a ∧ cl[cl.length - Layout.stride f.layout + i]? = some b ∧ feq a b = true := by
  unfold isValidPolygonRing at h
  rw [curLayout_cons hs] at h
  simp only [bind, Except.bind] at h
  split at h
  · simp [pure, Except.pure] at h
  · rename_i hlen
    refine ⟨by omega, ?_⟩
    cases hloop : ringClosedLoop feq cl (Layout.stride f.layout)
        (List.range (if (Layout.zIndex f.layout).isSome then 3 else 2)) with
    | error m => rw [hloop] at h; cases h
    | ok b =>
      rw [hloop] at h
      cases b with
      | false => simp [pure, Except.pure] at h
      | true =>
        intro i hi
        exact ringClosedLoop_true feq cl _ _ hloop i (List.mem_range.mpr hi)

end GeomVerif.C06
