/-
C20 — Douglas–Peucker.  Parametric in the distance function and comparison (so the
statements hold of the float run): index-list shape, and the scan picks a maximal
candidate inside the open range.  The threshold / idempotence claims over whole runs are
decided per explored input by the exact rational oracle (second-pass proof target).
-/
import GeomVerif.Model.Rdp

namespace GeomVerif.Rdp
variable {δ : Type}

/-- The returned indexes are strictly increasing and below `size` (they are a filter of
`0..size-1`), for every distance function, comparison, threshold and size. -/
theorem C20_indexes_increasing (D : DistOps δ) (size : Nat) :
    (simplify D size).Pairwise (· < ·) ∧ ∀ i ∈ simplify D size, i < size := by
  unfold simplify
  split
  · exact ⟨List.pairwise_lt_range, fun i hi => List.mem_range.1 hi⟩
  · exact ⟨List.Pairwise.filter _ List.pairwise_lt_range,
      fun i hi => List.mem_range.1 (List.mem_filter.1 hi).1⟩

/-- Fewer than three points: every point is returned. -/
theorem C20_small_all (D : DistOps δ) (size : Nat) (h : size < 3) :
    simplify D size = List.range size := by
  unfold simplify; rw [if_pos h]

theorem setTrue_length (m : List Bool) (i : Nat) : (setTrue m i).length = m.length := by
  simp [setTrue]

theorem setTrue_getD_of_true (m : List Bool) (i j : Nat) (h : m.getD j false = true) :
    (setTrue m i).getD j false = true := by
  unfold setTrue
  simp only [List.getD_eq_getElem?_getD, List.getElem?_set] at h ⊢
  split
  · split <;> simp_all
  · exact h

/-- The worker only ever adds points: an index kept in the mask stays kept. -/
theorem dpLoop_monotone (D : DistOps δ) (fuel : Nat) :
    ∀ (stack : List (Nat × Nat)) (mask : List Bool) (j : Nat), mask.getD j false = true →
      (dpLoop D fuel stack mask).getD j false = true := by
  induction fuel with
  | zero => intro _ mask j h; exact h
  | succ fuel ih =>
    intro stack mask j h
    cases stack with
    | nil => exact h
    | cons p rest =>
      obtain ⟨s, e⟩ := p
      simp only [dpLoop]
      split
      · exact ih _ _ j (setTrue_getD_of_true _ _ _ h)
      · exact ih _ _ j h

/-- The first and the last point are always returned (size ≥ 3; smaller sizes return all). -/
theorem C20_endpoints_kept (D : DistOps δ) (size : Nat) (h : 3 ≤ size) :
    0 ∈ simplify D size ∧ size - 1 ∈ simplify D size := by
  unfold simplify
  rw [if_neg (by omega)]
  have h0 : (setTrue (setTrue (List.replicate size false) 0) (size - 1)).getD 0 false = true := by
    apply setTrue_getD_of_true
    have : 0 < size := by omega
    simp [setTrue, List.getD_eq_getElem?_getD, List.getElem?_set, this]
  have h1 : (setTrue (setTrue (List.replicate size false) 0) (size - 1)).getD (size - 1) false
      = true := by
    have : size - 1 < size := by omega
    simp [setTrue, List.getD_eq_getElem?_getD, List.getElem?_set, this]
  constructor
  · exact List.mem_filter.2 ⟨List.mem_range.2 (by omega), dpLoop_monotone D _ _ _ 0 h0⟩
  · exact List.mem_filter.2 ⟨List.mem_range.2 (by omega), dpLoop_monotone D _ _ _ _ h1⟩

/-- Scan invariant: either nothing exceeded the running maximum yet (the initial pair is
returned unchanged) or the returned index lies in the scanned range and carries the returned
distance. -/
theorem scan_index (D : DistOps δ) (s e : Nat) (cnt : Nat) :
    ∀ (i : Nat) (md : δ) (mi : Nat),
      (scan D s e cnt i md mi = (md, mi)) ∨
      (i ≤ (scan D s e cnt i md mi).2 ∧ (scan D s e cnt i md mi).2 < i + cnt ∧
        (scan D s e cnt i md mi).1 = D.dist s e (scan D s e cnt i md mi).2) := by
  induction cnt with
  | zero => intro i md mi; left; rfl
  | succ cnt ih =>
    intro i md mi
    simp only [scan]
    split
    · right
      rcases ih (i + 1) (D.dist s e i) i with h | ⟨h1, h2, h3⟩
      · rw [h]; exact ⟨Nat.le_refl _, by omega, rfl⟩
      · exact ⟨by omega, by omega, h3⟩
    · rcases ih (i + 1) md mi with h | ⟨h1, h2, h3⟩
      · left; exact h
      · right; exact ⟨by omega, by omega, h3⟩

/-- A split point chosen by the worker lies strictly between the segment ends, provided the
threshold is not below the initial maximum 0 (i.e. threshold² ≥ 0): the mask index written is
always a legitimate interior point. -/
theorem C20_split_inside (D : DistOps δ) (s e : Nat) (h0 : D.gt D.zero D.thr2 = false)
    (hsplit : D.gt (scanSeg D s e).1 D.thr2 = true) :
    s < (scanSeg D s e).2 ∧ (scanSeg D s e).2 < e ∧
      (scanSeg D s e).1 = D.dist s e (scanSeg D s e).2 := by
  unfold scanSeg at *
  rcases scan_index D s e (e - s - 1) (s + 1) D.zero 0 with h | ⟨h1, h2, h3⟩
  · rw [h] at hsplit; simp [h0] at hsplit
  · exact ⟨by omega, by omega, h3⟩

/-- Non-vacuity: an L-shaped line with unit threshold keeps the corner. -/
example : simplify (δ := Int)
    { dist := fun s e k => if (s, e, k) = (0, 2, 1) then 25 else 0, gt := fun a b => a > b,
      zero := 0, thr2 := 1 } 3 = [0, 1, 2] := by decide

end GeomVerif.Rdp
