/-
C19 — "each [fix] within 1/60000 of a degree": the arithmetic of the B record's position fields.
The encoder writes degrees `m / 60000` and thousandths of minutes `m % 60000` of
m = ⌊60000·|x|⌋ (clamped to the format's range), with a hemisphere letter for the sign; the decoder
reads them back as (60000·deg + mmin) / 60000 with that sign.
  * `C19_position_fields_recombine`: the two fields recombine to m exactly, and the minutes field
    has at most five digits (< 60000), for every m;
  * `C19_position_resolution`: in exact arithmetic the value read back differs from x by less than
    1/60000, for every x within the range (|x| ≤ limit degrees), on the side of zero;
  * `C19_position_clamped`: beyond the range the value read back is the limit itself.
The float64 evaluation of 60000·x and of the final quotient is what the mirror reproduces bit for bit.
-/
import Mathlib.Tactic.Ring
import Mathlib.Tactic.Linarith
import Mathlib.Tactic.Positivity
import Mathlib.Algebra.Order.Floor.Ring
import Mathlib.Algebra.Order.Field.Basic
import Mathlib.Data.Rat.Floor

namespace GeomVerif.C19

/-- thousandths of a minute written for |x| (x in degrees), clamped to `limit` degrees -/
def milliMinutes (limit : Nat) (x : ℚ) : Nat :=
  min (limit * 60000) (Int.toNat ⌊60000 * |x|⌋)

/-- what the decoder makes of the two fields (before the hemisphere sign) -/
def recombine (deg mmin : Nat) : ℚ := ((60000 * deg + mmin : Nat) : ℚ) / 60000

theorem C19_position_fields_recombine (m : Nat) :
    60000 * (m / 60000) + m % 60000 = m ∧ m % 60000 < 60000 :=
  ⟨Nat.div_add_mod m 60000, Nat.mod_lt m (by decide)⟩

theorem recombine_fields (m : Nat) : recombine (m / 60000) (m % 60000) = (m : ℚ) / 60000 := by
  unfold recombine; rw [(C19_position_fields_recombine m).1]

theorem C19_position_resolution (limit : Nat) (x : ℚ) (hx : |x| ≤ limit) :
    let m := milliMinutes limit x
    recombine (m / 60000) (m % 60000) ≤ |x| ∧ |x| - recombine (m / 60000) (m % 60000) < 1 / 60000 := by
  intro m
  rw [recombine_fields]
  have hnn : (0 : ℚ) ≤ 60000 * |x| := by positivity
  have hfl : (0 : ℤ) ≤ ⌊60000 * |x|⌋ := Int.floor_nonneg.mpr hnn
  have hle : ⌊60000 * |x|⌋ ≤ (limit * 60000 : ℤ) := by
    have h1 : 60000 * |x| ≤ ((limit * 60000 : ℤ) : ℚ) := by push_cast; nlinarith
    exact_mod_cast (Int.floor_le (60000 * |x|)).trans h1
  have hm : (m : ℤ) = ⌊60000 * |x|⌋ := by
    show ((min (limit * 60000) (Int.toNat ⌊60000 * |x|⌋) : Nat) : ℤ) = _
    have : Int.toNat ⌊60000 * |x|⌋ ≤ limit * 60000 := by
      have := Int.toNat_of_nonneg hfl
      omega
    rw [min_eq_right this, Int.toNat_of_nonneg hfl]
  have hmq : (m : ℚ) = ((⌊60000 * |x|⌋ : ℤ) : ℚ) := by exact_mod_cast hm
  have h1 : ((⌊60000 * |x|⌋ : ℤ) : ℚ) ≤ 60000 * |x| := Int.floor_le _
  have h2 : 60000 * |x| < ((⌊60000 * |x|⌋ : ℤ) : ℚ) + 1 := Int.lt_floor_add_one _
  rw [hmq]
  constructor
  · rw [div_le_iff₀ (by norm_num)]; linarith
  · rw [sub_lt_iff_lt_add, ← sub_lt_iff_lt_add', lt_div_iff₀ (by norm_num)]; nlinarith

theorem C19_position_clamped (limit : Nat) (x : ℚ) (hx : (limit : ℚ) ≤ |x|) :
    let m := milliMinutes limit x
    recombine (m / 60000) (m % 60000) = limit := by
  intro m
  rw [recombine_fields]
  have hge : ((limit * 60000 : ℕ) : ℤ) ≤ ⌊60000 * |x|⌋ := by
    apply Int.le_floor.mpr
    push_cast; nlinarith
  have : m = limit * 60000 := by
    show min (limit * 60000) (Int.toNat ⌊60000 * |x|⌋) = _
    apply min_eq_left
    have h0 : (0 : ℤ) ≤ ⌊60000 * |x|⌋ := le_trans (by positivity) hge
    have := Int.toNat_of_nonneg h0
    omega
  rw [this]; push_cast; field_simp

/-- Non-vacuity: 47.123456° → 2827407 thousandths of a minute → 47° 07.407′, read back within 1/60000. -/
example : milliMinutes 90 (47123456 / 1000000) = 2827407 ∧ 2827407 / 60000 = 47 ∧ 2827407 % 60000 = 7407 := by
  refine ⟨?_, by decide, by decide⟩
  unfold milliMinutes
  have : ⌊(60000 : ℚ) * |47123456 / 1000000|⌋ = 2827407 := by
    rw [Int.floor_eq_iff]; constructor <;> norm_num [abs_of_pos]
  rw [this]; decide

end GeomVerif.C19
