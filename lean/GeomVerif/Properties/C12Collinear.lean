/-
C12 — collinear segments: "a single point, or a collinear overlap exactly when exact arithmetic
says so".  For two non-degenerate segments on one line, in exact arithmetic:
  * computeCollinearIntersection answers PointIntersection exactly when the two closed segments have
    exactly one point in common, and CollinearIntersection exactly when they share two distinct
    points (an overlap of positive length) — `C12_collinear_kind_exact`;
  * (NoIntersection exactly when they share none: `C12_robust_none_iff_disjoint`.)
The proof moves to the parameters of c and d along a→b (`kindP`): the decision chain of the code,
read on those two numbers, returns `.point` only when the segments leave their common end in
opposite directions (`kindP_point`, `unique_at`), and `.collinear` only when two of the four end
points are common and distinct (`kindP_collinear`).
-/
import Mathlib.Tactic.Ring
import Mathlib.Tactic.Linarith
import Mathlib.Tactic.NormNum
import Mathlib.Algebra.Order.Field.Basic
import GeomVerif.Properties.C12Sound

namespace GeomVerif.Intersect
open GeomVerif.Locate

section collinear
variable {K : Type} [Field K] [LinearOrder K] [IsStrictOrderedRing K]

def Btw (x y t : K) : Prop := (x ≤ t ∧ t ≤ y) ∨ (y ≤ t ∧ t ≤ x)
instance (x y t : K) : Decidable (Btw x y t) := by unfold Btw; infer_instance

theorem btw_left (x y : K) : Btw x y x := by
  rcases le_total x y with h | h
  · exact Or.inl ⟨le_refl _, h⟩
  · exact Or.inr ⟨h, le_refl _⟩
theorem btw_right (x y : K) : Btw x y y := by
  rcases le_total x y with h | h
  · exact Or.inl ⟨h, le_refl _⟩
  · exact Or.inr ⟨le_refl _, h⟩

/-- the decision of computeCollinearIntersection in terms of the parameters of c and d along a→b -/
def kindP (tc td : K) : IType :=
  if Btw tc td 0 ∧ Btw tc td 1 then .collinear
  else if (0 ≤ tc ∧ tc ≤ 1) ∧ (0 ≤ td ∧ td ≤ 1) then .collinear
  else if (0 ≤ tc ∧ tc ≤ 1) ∧ Btw tc td 0 then
    (if tc = 0 ∧ ¬ (0 ≤ td ∧ td ≤ 1) ∧ ¬ Btw tc td 1 then .point else .collinear)
  else if (0 ≤ tc ∧ tc ≤ 1) ∧ Btw tc td 1 then
    (if tc = 1 ∧ ¬ (0 ≤ td ∧ td ≤ 1) ∧ ¬ Btw tc td 0 then .point else .collinear)
  else if (0 ≤ td ∧ td ≤ 1) ∧ Btw tc td 0 then
    (if td = 0 ∧ ¬ (0 ≤ tc ∧ tc ≤ 1) ∧ ¬ Btw tc td 1 then .point else .collinear)
  else if (0 ≤ td ∧ td ≤ 1) ∧ Btw tc td 1 then
    (if td = 1 ∧ ¬ (0 ≤ tc ∧ tc ≤ 1) ∧ ¬ Btw tc td 0 then .point else .collinear)
  else .none

/-- t is the parameter of a point common to a–b (parameters 0..1) and c–d (parameters tc..td) -/
def CommonP (tc td t : K) : Prop := (0 ≤ t ∧ t ≤ 1) ∧ Btw tc td t

theorem common0 {tc td : K} (h : Btw tc td 0) : CommonP tc td 0 := ⟨⟨le_refl _, zero_le_one⟩, h⟩
theorem common1 {tc td : K} (h : Btw tc td 1) : CommonP tc td 1 := ⟨⟨zero_le_one, le_refl _⟩, h⟩
theorem commonC {tc td : K} (h : 0 ≤ tc ∧ tc ≤ 1) : CommonP tc td tc := ⟨h, btw_left _ _⟩
theorem commonD {tc td : K} (h : 0 ≤ td ∧ td ≤ 1) : CommonP tc td td := ⟨h, btw_right _ _⟩

theorem kindP_collinear (tc td : K) (hne : tc ≠ td) (h : kindP tc td = .collinear) :
    ∃ t t', t ≠ t' ∧ CommonP tc td t ∧ CommonP tc td t' := by
  unfold kindP at h
  split_ifs at h with h1 h2 h3 h3p h4 h4p h5 h5p h6 h6p
  · exact ⟨0, 1, zero_ne_one, common0 h1.1, common1 h1.2⟩
  · exact ⟨tc, td, hne, commonC h2.1, commonD h2.2⟩
  · -- C ∧ B0, not the point case
    by_cases e : tc = 0
    · have : (0 ≤ td ∧ td ≤ 1) ∨ Btw tc td 1 := by
        by_contra hn
        rw [not_or] at hn
        exact h3p ⟨e, hn.1, hn.2⟩
      rcases this with hD | hB
      · exact ⟨tc, td, hne, commonC h3.1, commonD hD⟩
      · exact ⟨0, 1, zero_ne_one, common0 h3.2, common1 hB⟩
    · exact ⟨0, tc, Ne.symm e, common0 h3.2, commonC h3.1⟩
  · by_cases e : tc = 1
    · have : (0 ≤ td ∧ td ≤ 1) ∨ Btw tc td 0 := by
        by_contra hn
        rw [not_or] at hn
        exact h4p ⟨e, hn.1, hn.2⟩
      rcases this with hD | hB
      · exact ⟨tc, td, hne, commonC h4.1, commonD hD⟩
      · exact ⟨0, 1, zero_ne_one, common0 hB, common1 h4.2⟩
    · exact ⟨1, tc, Ne.symm e, common1 h4.2, commonC h4.1⟩
  · by_cases e : td = 0
    · have : (0 ≤ tc ∧ tc ≤ 1) ∨ Btw tc td 1 := by
        by_contra hn
        rw [not_or] at hn
        exact h5p ⟨e, hn.1, hn.2⟩
      rcases this with hC | hB
      · exact ⟨tc, td, hne, commonC hC, commonD h5.1⟩
      · exact ⟨0, 1, zero_ne_one, common0 h5.2, common1 hB⟩
    · exact ⟨0, td, Ne.symm e, common0 h5.2, commonD h5.1⟩
  · by_cases e : td = 1
    · have : (0 ≤ tc ∧ tc ≤ 1) ∨ Btw tc td 0 := by
        by_contra hn
        rw [not_or] at hn
        exact h6p ⟨e, hn.1, hn.2⟩
      rcases this with hC | hB
      · exact ⟨tc, td, hne, commonC hC, commonD h6.1⟩
      · exact ⟨0, 1, zero_ne_one, common0 hB, common1 h6.2⟩
    · exact ⟨1, td, Ne.symm e, common1 h6.2, commonD h6.1⟩

/-- with c = a (tc = 0), d outside a–b and b outside c–d, the two segments leave a in opposite
directions: the only common parameter is 0 -/
theorem unique_at (tc td e : K) (he : e = 0 ∨ e = 1) (hc : tc = e)
    (hD : ¬ (0 ≤ td ∧ td ≤ 1)) (hB : ¬ Btw tc td (1 - e)) (t : K) (ht : CommonP tc td t) : t = e := by
  obtain ⟨⟨t0, t1⟩, hb⟩ := ht
  subst hc
  unfold Btw at hB hb
  rcases he with rfl | rfl
  · -- tc = 0: td < 0
    have htd : td < 0 := by
      by_contra h
      have h0 : 0 ≤ td := not_lt.mp h
      rcases le_total td 1 with h1 | h1
      · exact hD ⟨h0, h1⟩
      · exact hB (Or.inl ⟨by linarith, by linarith⟩)
    rcases hb with ⟨h, h'⟩ | ⟨h, h'⟩ <;> linarith
  · have htd : 1 < td := by
      by_contra h
      have h1 : td ≤ 1 := not_lt.mp h
      rcases le_total 0 td with h0 | h0
      · exact hD ⟨h0, h1⟩
      · exact hB (Or.inr ⟨by linarith, by linarith⟩)
    rcases hb with ⟨h, h'⟩ | ⟨h, h'⟩ <;> linarith

/-- no branch of the chain applies: no parameter is in both ranges -/
theorem kindP_none (tc td : K) (h : kindP tc td = .none) (t : K) : ¬ CommonP tc td t := by
  rintro ⟨⟨t0, t1⟩, hb⟩
  unfold kindP at h
  split_ifs at h with h1 h2 h3 h3p h4 h4p h5 h5p h6 h6p
  -- all six conditions fail
  unfold Btw at *
  have nC0 : ¬ ((0 ≤ tc ∧ tc ≤ 1) ∧ ((tc ≤ 0 ∧ 0 ≤ td) ∨ (td ≤ 0 ∧ 0 ≤ tc))) := by assumption
  have nC1 : ¬ ((0 ≤ tc ∧ tc ≤ 1) ∧ ((tc ≤ 1 ∧ 1 ≤ td) ∨ (td ≤ 1 ∧ 1 ≤ tc))) := by assumption
  have nD0 : ¬ ((0 ≤ td ∧ td ≤ 1) ∧ ((tc ≤ 0 ∧ 0 ≤ td) ∨ (td ≤ 0 ∧ 0 ≤ tc))) := by assumption
  have nD1 : ¬ ((0 ≤ td ∧ td ≤ 1) ∧ ((tc ≤ 1 ∧ 1 ≤ td) ∨ (td ≤ 1 ∧ 1 ≤ tc))) := by assumption
  rcases hb with ⟨hb1, hb2⟩ | ⟨hb1, hb2⟩
  · -- tc ≤ t ≤ td
    by_cases c0 : 0 ≤ tc
    · exact nC1 ⟨⟨c0, by linarith⟩, by
        rcases le_total 1 td with h | h
        · exact Or.inl ⟨by linarith, h⟩
        · exact absurd ⟨⟨c0, by linarith⟩, ⟨by linarith, h⟩⟩ h2⟩
    · have c0' : tc ≤ 0 := (not_le.mp c0).le
      rcases le_total 1 td with h | h
      · exact h1 ⟨Or.inl ⟨c0', by linarith⟩, Or.inl ⟨by linarith, h⟩⟩
      · exact nD0 ⟨⟨by linarith, h⟩, Or.inl ⟨c0', by linarith⟩⟩
  · by_cases d0 : 0 ≤ td
    · exact nD1 ⟨⟨d0, by linarith⟩, by
        rcases le_total 1 tc with h | h
        · exact Or.inr ⟨by linarith, h⟩
        · exact absurd ⟨⟨by linarith, h⟩, ⟨d0, by linarith⟩⟩ h2⟩
    · have d0' : td ≤ 0 := (not_le.mp d0).le
      rcases le_total 1 tc with h | h
      · exact h1 ⟨Or.inr ⟨d0', by linarith⟩, Or.inr ⟨by linarith, h⟩⟩
      · exact nC0 ⟨⟨by linarith, h⟩, Or.inr ⟨d0', by linarith⟩⟩

theorem btw_symm (x y t : K) : Btw x y t ↔ Btw y x t := by unfold Btw; exact Or.comm

theorem kindP_point (tc td : K) (h : kindP tc td = .point) :
    ∃ t, CommonP tc td t ∧ ∀ t', CommonP tc td t' → t' = t := by
  unfold kindP at h
  split_ifs at h with h1 h2 h3 h3p h4 h4p h5 h5p h6 h6p
  · exact ⟨0, common0 h3.2, fun t' ht' => unique_at tc td 0 (Or.inl rfl) h3p.1 h3p.2.1 (by simpa using h3p.2.2) t' ht'⟩
  · exact ⟨1, common1 h4.2, fun t' ht' => unique_at tc td 1 (Or.inr rfl) h4p.1 h4p.2.1 (by simpa using h4p.2.2) t' ht'⟩
  · refine ⟨0, common0 h5.2, fun t' ht' => ?_⟩
    have ht'' : CommonP td tc t' := ⟨ht'.1, (btw_symm _ _ _).mp ht'.2⟩
    exact unique_at td tc 0 (Or.inl rfl) h5p.1 h5p.2.1 (by simpa [btw_symm td tc] using h5p.2.2) t' ht''
  · refine ⟨1, common1 h6.2, fun t' ht' => ?_⟩
    have ht'' : CommonP td tc t' := ⟨ht'.1, (btw_symm _ _ _).mp ht'.2⟩
    exact unique_at td tc 1 (Or.inr rfl) h6p.1 h6p.2.1 (by simpa [btw_symm td tc] using h6p.2.2) t' ht''


variable (F : DetOps K) (hF : LawfulLt F)

theorem sideP_lineAt (a r : P K) (tp tq tx : K) :
    sideP (lineAt a r tp) (lineAt a r tq) (lineAt a r tx) = 0 := by
  unfold sideP side lineAt; simp only; ring

/-- Along the carrier of a non-degenerate segment, "on the segment p–q" is "between the parameters". -/
theorem onSeg_iff_btw (a b : P K) (hab : a ≠ b) (tp tq tx : K) :
    OnSeg (lineAt a (b.1 - a.1, b.2 - a.2) tp) (lineAt a (b.1 - a.1, b.2 - a.2) tq)
        (lineAt a (b.1 - a.1, b.2 - a.2) tx) ↔ Btw tp tq tx := by
  constructor
  · rintro ⟨u, hu0, hu1, h1, h2⟩
    have hx : lineAt a (b.1 - a.1, b.2 - a.2) tx = lineAt a (b.1 - a.1, b.2 - a.2) (tp + u * (tq - tp)) := by
      apply Prod.ext
      · rw [h1]; unfold lineAt; simp only; ring
      · rw [h2]; unfold lineAt; simp only; ring
    have ht : tx = tp + u * (tq - tp) := param_inj a b hab _ _ hx
    unfold Btw
    rcases le_total tp tq with h | h
    · left; constructor <;> nlinarith
    · right; constructor <;> nlinarith
  · intro h
    exact onSeg_of_param a _ tp tq tx h

include hF in
theorem wb_iff_btw (a b : P K) (hab : a ≠ b) (tp tq tx : K) :
    withinBounds F (lineAt a (b.1 - a.1, b.2 - a.2) tx) (lineAt a (b.1 - a.1, b.2 - a.2) tp)
        (lineAt a (b.1 - a.1, b.2 - a.2) tq) = true ↔ Btw tp tq tx := by
  rw [withinBounds_iff F hF, ← onSeg_iff_btw a b hab]
  constructor
  · exact inBox_collinear_onSeg _ _ _ (sideP_lineAt _ _ _ _ _)
  · exact onSeg_inBox _ _ _

theorem btw01 (t : K) : Btw 0 1 t ↔ (0 ≤ t ∧ t ≤ 1) := by
  unfold Btw
  constructor
  · rintro (h | ⟨h1, h2⟩)
    · exact h
    · exfalso; linarith
  · exact Or.inl

include hF in
/-- The decision chain of computeCollinearIntersection, read on the parameters. -/
theorem collinear_kind_eq (a b : P K) (hab : a ≠ b) (tc td : K) :
    (collinearIntersection F a b (lineAt a (b.1 - a.1, b.2 - a.2) tc)
        (lineAt a (b.1 - a.1, b.2 - a.2) td)).ty = kindP tc td := by
  have wC : withinBounds F (lineAt a (b.1 - a.1, b.2 - a.2) tc) a b = true ↔ (0 ≤ tc ∧ tc ≤ 1) := by
    have := wb_iff_btw F hF a b hab 0 1 tc
    rw [lineAt_zero, lineAt_one, btw01] at this; exact this
  have wD : withinBounds F (lineAt a (b.1 - a.1, b.2 - a.2) td) a b = true ↔ (0 ≤ td ∧ td ≤ 1) := by
    have := wb_iff_btw F hF a b hab 0 1 td
    rw [lineAt_zero, lineAt_one, btw01] at this; exact this
  have w0 : withinBounds F a (lineAt a (b.1 - a.1, b.2 - a.2) tc) (lineAt a (b.1 - a.1, b.2 - a.2) td) = true
      ↔ Btw tc td 0 := by
    have := wb_iff_btw F hF a b hab tc td 0
    rw [lineAt_zero] at this; exact this
  have w1 : withinBounds F b (lineAt a (b.1 - a.1, b.2 - a.2) tc) (lineAt a (b.1 - a.1, b.2 - a.2) td) = true
      ↔ Btw tc td 1 := by
    have := wb_iff_btw F hF a b hab tc td 1
    rw [lineAt_one] at this; exact this
  have pE : ∀ t e : K, peq F (lineAt a (b.1 - a.1, b.2 - a.2) t) (lineAt a (b.1 - a.1, b.2 - a.2) e) = true
      ↔ t = e := by
    intro t e
    rw [peq_iff F hF]
    exact ⟨param_inj a b hab t e, fun h => by rw [h]⟩
  have pa : ∀ t, peq F (lineAt a (b.1 - a.1, b.2 - a.2) t) a = true ↔ t = 0 := by
    intro t
    have := pE t 0
    rw [lineAt_zero] at this; exact this
  have pb : ∀ t, peq F (lineAt a (b.1 - a.1, b.2 - a.2) t) b = true ↔ t = 1 := by
    intro t
    have := pE t 1
    rw [lineAt_one] at this; exact this
  unfold collinearIntersection kindP pointOrCollinear
  simp only [Bool.and_eq_true, Bool.not_eq_true', wC, wD, w0, w1, pa, pb, ← Bool.not_eq_true]
  split_ifs <;> simp_all

/-- The common points of a–b and c–d (c, d at parameters tc, td along a→b) are the points whose
parameter is in both ranges. -/
theorem common_iff (a b : P K) (hab : a ≠ b) (tc td : K) (q : P K) :
    (OnSeg a b q ∧ OnSeg (lineAt a (b.1 - a.1, b.2 - a.2) tc) (lineAt a (b.1 - a.1, b.2 - a.2) td) q) ↔
      ∃ t, q = lineAt a (b.1 - a.1, b.2 - a.2) t ∧ CommonP tc td t := by
  constructor
  · rintro ⟨h1, h2⟩
    obtain ⟨t, t0, t1, rfl⟩ := onSeg_param a b q h1
    exact ⟨t, rfl, ⟨t0, t1⟩, (onSeg_iff_btw a b hab tc td t).mp h2⟩
  · rintro ⟨t, rfl, h01, hb⟩
    refine ⟨?_, (onSeg_iff_btw a b hab tc td t).mpr hb⟩
    have := (onSeg_iff_btw a b hab 0 1 t).mpr ((btw01 t).mpr h01)
    rwa [lineAt_zero, lineAt_one] at this

include hF in
/-- **C12 — collinear segments are classified exactly.** For two non-degenerate segments on one
line, in exact arithmetic: the answer is PointIntersection only if the closed segments have exactly
one common point, and CollinearIntersection only if they have two distinct common points; since
NoIntersection is answered only when they have none, each answer is given exactly when exact
arithmetic says so. -/
theorem C12_collinear_kind_exact (a b c d : P K) (hab : a ≠ b) (hcd : c ≠ d)
    (hc : sideP a b c = 0) (hd : sideP a b d = 0) :
    ((collinearIntersection F a b c d).ty = .point ↔
        ∃ p, (OnSeg a b p ∧ OnSeg c d p) ∧ ∀ q, (OnSeg a b q ∧ OnSeg c d q) → q = p) ∧
    ((collinearIntersection F a b c d).ty = .collinear ↔
        ∃ p q, p ≠ q ∧ (OnSeg a b p ∧ OnSeg c d p) ∧ (OnSeg a b q ∧ OnSeg c d q)) ∧
    ((collinearIntersection F a b c d).ty = .none ↔ ¬ ∃ p, OnSeg a b p ∧ OnSeg c d p) := by
  obtain ⟨tc, rfl⟩ := param_of_collinear a b c hab hc
  obtain ⟨td, rfl⟩ := param_of_collinear a b d hab hd
  have hne : tc ≠ td := fun h => hcd (by rw [h])
  rw [collinear_kind_eq F hF a b hab tc td]
  -- the three implications from the answer to the geometry
  have hP : kindP tc td = .point →
      ∃ p, (OnSeg a b p ∧ OnSeg (lineAt a (b.1 - a.1, b.2 - a.2) tc) (lineAt a (b.1 - a.1, b.2 - a.2) td) p) ∧
        ∀ q, (OnSeg a b q ∧ OnSeg (lineAt a (b.1 - a.1, b.2 - a.2) tc) (lineAt a (b.1 - a.1, b.2 - a.2) td) q) → q = p := by
    intro h
    obtain ⟨t, ht, huniq⟩ := kindP_point tc td h
    refine ⟨lineAt a (b.1 - a.1, b.2 - a.2) t, (common_iff a b hab tc td _).mpr ⟨t, rfl, ht⟩, fun q hq => ?_⟩
    obtain ⟨t', rfl, ht'⟩ := (common_iff a b hab tc td q).mp hq
    rw [huniq t' ht']
  have hC : kindP tc td = .collinear →
      ∃ p q, p ≠ q ∧ (OnSeg a b p ∧ OnSeg (lineAt a (b.1 - a.1, b.2 - a.2) tc) (lineAt a (b.1 - a.1, b.2 - a.2) td) p) ∧
        (OnSeg a b q ∧ OnSeg (lineAt a (b.1 - a.1, b.2 - a.2) tc) (lineAt a (b.1 - a.1, b.2 - a.2) td) q) := by
    intro h
    obtain ⟨t, t', hne', ht, ht'⟩ := kindP_collinear tc td hne h
    exact ⟨lineAt a (b.1 - a.1, b.2 - a.2) t, lineAt a (b.1 - a.1, b.2 - a.2) t',
      fun he => hne' (param_inj a b hab t t' he),
      (common_iff a b hab tc td _).mpr ⟨t, rfl, ht⟩, (common_iff a b hab tc td _).mpr ⟨t', rfl, ht'⟩⟩
  have hN : kindP tc td = .none →
      ¬ ∃ p, OnSeg a b p ∧ OnSeg (lineAt a (b.1 - a.1, b.2 - a.2) tc) (lineAt a (b.1 - a.1, b.2 - a.2) td) p := by
    rintro h ⟨p, hp⟩
    obtain ⟨t, rfl, ht⟩ := (common_iff a b hab tc td p).mp hp
    exact kindP_none tc td h t ht
  -- the three geometric situations exclude one another, and the three answers are all there are
  refine ⟨⟨hP, ?_⟩, ⟨hC, ?_⟩, ⟨hN, ?_⟩⟩
  · rintro ⟨p, hp, huniq⟩
    cases hk : kindP tc td with
    | point => rfl
    | none => exact absurd ⟨p, hp⟩ (hN hk)
    | collinear =>
      obtain ⟨p1, p2, hne12, h1, h2⟩ := hC hk
      exact absurd ((huniq p1 h1).trans (huniq p2 h2).symm) hne12
  · rintro ⟨p1, p2, hne12, h1, h2⟩
    cases hk : kindP tc td with
    | collinear => rfl
    | none => exact absurd ⟨p1, h1⟩ (hN hk)
    | point =>
      obtain ⟨p, _, huniq⟩ := hP hk
      exact absurd ((huniq p1 h1).trans (huniq p2 h2).symm) hne12
  · intro hno
    cases hk : kindP tc td with
    | none => rfl
    | point => obtain ⟨p, hp, _⟩ := hP hk; exact absurd ⟨p, hp⟩ hno
    | collinear => obtain ⟨p, _, _, hp, _⟩ := hC hk; exact absurd ⟨p, hp⟩ hno

variable (orient : P K → P K → P K → Int) (ho : ∀ a b p, orient a b p = sgnZ (sideP a b p))

include hF ho in
/-- On one line the robust intersector's answer is the collinear computation's (the envelope test
only rejects segments without a common point, for which that computation answers NoIntersection
as well). -/
theorem robust_collinear_eq (bad : K → Bool) (two four : K) (a b c d : P K) (hab : a ≠ b) (hcd : c ≠ d)
    (hc : sideP a b c = 0) (hd : sideP a b d = 0) :
    (robust F orient bad two four a b c d).ty = (collinearIntersection F a b c d).ty := by
  have hz := both_zero_all_zero a b c d hc hd (by
    obtain ⟨tc, rfl⟩ := param_of_collinear a b c hab hc
    obtain ⟨td, rfl⟩ := param_of_collinear a b d hab hd
    have e1 : sideP (lineAt a (b.1 - a.1, b.2 - a.2) tc) (lineAt a (b.1 - a.1, b.2 - a.2) td) a = 0 := by
      have := sideP_lineAt a (b.1 - a.1, b.2 - a.2) tc td 0; rwa [lineAt_zero] at this
    have e2 : sideP (lineAt a (b.1 - a.1, b.2 - a.2) tc) (lineAt a (b.1 - a.1, b.2 - a.2) td) b = 0 := by
      have := sideP_lineAt a (b.1 - a.1, b.2 - a.2) tc td 1; rwa [lineAt_one] at this
    rw [e1, e2]; simp)
  unfold robust
  by_cases h0 : linesOverlap F a b c d = true
  · simp only [h0, Bool.not_true, Bool.false_eq_true, if_false, ho, hc, hd, hz.1, hz.2]
    simp [sgnZ]
  · simp only [h0, Bool.not_false, if_true]
    symm
    exact ((C12_collinear_kind_exact F hF a b c d hab hcd hc hd).2.2).mpr
      (fun ⟨p, h1, h2⟩ => h0 (linesOverlap_of_common F hF a b c d p h1 h2))

include hF ho in
/-- **C12 — the robust intersector classifies collinear segments exactly**: for two segments of
non-zero length on one line it answers NoIntersection, PointIntersection or CollinearIntersection
exactly when the closed segments have no common point, exactly one, or two distinct ones (an
overlap of positive length). -/
theorem C12_robust_collinear_exact (bad : K → Bool) (two four : K) (a b c d : P K) (hab : a ≠ b) (hcd : c ≠ d)
    (hc : sideP a b c = 0) (hd : sideP a b d = 0) :
    ((robust F orient bad two four a b c d).ty = .point ↔
        ∃ p, (OnSeg a b p ∧ OnSeg c d p) ∧ ∀ q, (OnSeg a b q ∧ OnSeg c d q) → q = p) ∧
    ((robust F orient bad two four a b c d).ty = .collinear ↔
        ∃ p q, p ≠ q ∧ (OnSeg a b p ∧ OnSeg c d p) ∧ (OnSeg a b q ∧ OnSeg c d q)) ∧
    ((robust F orient bad two four a b c d).ty = .none ↔ ¬ ∃ p, OnSeg a b p ∧ OnSeg c d p) := by
  rw [robust_collinear_eq F hF orient ho bad two four a b c d hab hcd hc hd]
  exact C12_collinear_kind_exact F hF a b c d hab hcd hc hd

/-- Non-vacuity (ℚ, parameters): c–d = [1, 2] against a–b = [0, 1] touches in one point; [1/2, 2]
overlaps; [3/2, 2] is disjoint. -/
example : kindP (1 : ℚ) 2 = .point ∧ kindP (1/2 : ℚ) 2 = .collinear ∧ kindP (3/2 : ℚ) 2 = .none := by
  refine ⟨?_, ?_, ?_⟩ <;> (unfold kindP Btw; norm_num)

end collinear
end GeomVerif.Intersect
