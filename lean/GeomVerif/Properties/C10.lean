/-
C10 — orientation predicate = sign of the exact cross product.
Proved: the two determinant forms used by filter and fallback are the same polynomial;
antisymmetry and cyclic invariance of its sign over any linearly ordered commutative ring;
every deciding exit of the filter returns the sign of the determinant it computed; on integer
grids up to 2^25 every intermediate is an integer below 2^53 (so the float run is exact).
Not proved (second-pass target): the rounding analysis showing that an accepting filter
verdict on arbitrary floats equals the exact sign; decided per explored input by the
exact rational oracle, with the filter stage itself compared bit for bit through a hook.
-/
import Mathlib.Tactic.Ring
import Mathlib.Tactic.Linarith
import Mathlib.Algebra.Order.Ring.Defs
import Mathlib.Algebra.Order.Ring.Abs
import Mathlib.Tactic.NormNum
import GeomVerif.Model.Orient

namespace GeomVerif.Orient
open GeomVerif GeomVerif.Rdp

section ring
variable {R : Type} [CommRing R]

/-- Exact cross product (b−a)×(c−b), the quantity whose sign is the orientation. -/
def det (ax ay bx by_ cx cy : R) : R := (bx - ax) * (cy - by_) - (by_ - ay) * (cx - bx)

/-- The filter's form (o−p)×(e−p) and the fallback's form (e−o)×(p−e) are the same value. -/
theorem C10_det_forms_agree (ox oy ex ey px py : R) :
    (ox - px) * (ey - py) - (oy - py) * (ex - px) = det ox oy ex ey px py := by
  unfold det; ring

theorem det_swap (ax ay bx by_ cx cy : R) : det bx by_ ax ay cx cy = -det ax ay bx by_ cx cy := by
  unfold det; ring
theorem det_cycle (ax ay bx by_ cx cy : R) : det bx by_ cx cy ax ay = det ax ay bx by_ cx cy := by
  unfold det; ring
end ring

section ordered
variable {R : Type} [CommRing R] [LinearOrder R] [IsStrictOrderedRing R]

/-- Sign as an orientation value. -/
def sgn (x : R) : Int := if 0 < x then 1 else if x < 0 then -1 else 0

theorem sgn_neg (x : R) : sgn (-x) = -sgn x := by
  unfold sgn
  rcases lt_trichotomy x 0 with h | h | h
  · have h1 : 0 < -x := neg_pos.mpr h
    have h2 : ¬ 0 < x := not_lt.mpr (le_of_lt h)
    simp [h, h1, h2]
  · subst h; simp
  · have h1 : -x < 0 := neg_neg_of_pos h
    have h2 : ¬ x < 0 := not_lt.mpr (le_of_lt h)
    have h3 : ¬ 0 < -x := not_lt.mpr (le_of_lt h1)
    simp [h, h1, h2, h3]

/-- **Antisymmetry**: exchanging the first two arguments negates the orientation. -/
theorem C10_antisymmetric (ax ay bx by_ cx cy : R) :
    sgn (det bx by_ ax ay cx cy) = -sgn (det ax ay bx by_ cx cy) := by
  rw [det_swap, sgn_neg]

/-- **Cyclic invariance**: rotating the three arguments keeps the orientation. -/
theorem C10_cyclic (ax ay bx by_ cx cy : R) :
    sgn (det bx by_ cx cy ax ay) = sgn (det ax ay bx by_ cx cy) := by
  rw [det_cycle]

/-- Collinear is reported exactly when the determinant vanishes. -/
theorem C10_collinear_iff (x : R) : sgn x = 0 ↔ x = 0 := by
  unfold sgn
  rcases lt_trichotomy x 0 with h | h | h
  · have : ¬ 0 < x := not_lt.mpr (le_of_lt h)
    simp [h, this, ne_of_lt h]
  · subst h; simp
  · simp [h, ne_of_gt h]
end ordered

/-- Every deciding exit of the filter (for ANY arithmetic record, in particular IEEE doubles)
returns the sign of the determinant it computed; the only other answer is 2 = undecided. -/
theorem C10_filter_decides_sign {α : Type} (F : FieldOps α) (eps ox oy ex ey px py : α) :
    filter F eps ox oy ex ey px py = 2 ∨
    filter F eps ox oy ex ey px py =
      signOf F (F.sub (F.mul (F.sub ox px) (F.sub ey py)) (F.mul (F.sub oy py) (F.sub ex px))) := by
  unfold filter
  simp only
  repeat' split
  all_goals first | exact Or.inl rfl | exact Or.inr rfl

/-- **Grid exactness**: for integer ordinates of magnitude at most 2^25 every intermediate of
the filter (differences, both products, their difference and their sum) is an integer of
magnitude below 2^53, hence exactly representable: the float run is the integer run. -/
theorem C10_grid_exact (ox oy ex ey px py : Int)
    (h : ∀ v ∈ [ox, oy, ex, ey, px, py], -33554432 ≤ v ∧ v ≤ 33554432) :
    |(ox - px) * (ey - py)| ≤ 4503599627370496 ∧ |(oy - py) * (ex - px)| ≤ 4503599627370496 ∧
    |(ox - px) * (ey - py) - (oy - py) * (ex - px)| ≤ 9007199254740992 ∧
    |(ox - px) * (ey - py) + (oy - py) * (ex - px)| ≤ 9007199254740992 := by
  have hox := h ox (by simp); have hoy := h oy (by simp); have hex := h ex (by simp)
  have hey := h ey (by simp); have hpx := h px (by simp); have hpy := h py (by simp)
  have b1 : |ox - px| ≤ 67108864 := by rw [abs_le]; constructor <;> linarith [hox.1, hox.2, hpx.1, hpx.2]
  have b2 : |ey - py| ≤ 67108864 := by rw [abs_le]; constructor <;> linarith [hey.1, hey.2, hpy.1, hpy.2]
  have b3 : |oy - py| ≤ 67108864 := by rw [abs_le]; constructor <;> linarith [hoy.1, hoy.2, hpy.1, hpy.2]
  have b4 : |ex - px| ≤ 67108864 := by rw [abs_le]; constructor <;> linarith [hex.1, hex.2, hpx.1, hpx.2]
  have p1 : |(ox - px) * (ey - py)| ≤ 4503599627370496 := by
    rw [abs_mul]
    calc |ox - px| * |ey - py| ≤ 67108864 * 67108864 :=
          mul_le_mul b1 b2 (abs_nonneg _) (by norm_num)
      _ = 4503599627370496 := by norm_num
  have p2 : |(oy - py) * (ex - px)| ≤ 4503599627370496 := by
    rw [abs_mul]
    calc |oy - py| * |ex - px| ≤ 67108864 * 67108864 :=
          mul_le_mul b3 b4 (abs_nonneg _) (by norm_num)
      _ = 4503599627370496 := by norm_num
  refine ⟨p1, p2, ?_, ?_⟩
  · calc |(ox - px) * (ey - py) - (oy - py) * (ex - px)|
        ≤ |(ox - px) * (ey - py)| + |(oy - py) * (ex - px)| := abs_sub _ _
      _ ≤ 9007199254740992 := by linarith
  · calc |(ox - px) * (ey - py) + (oy - py) * (ex - px)|
        ≤ |(ox - px) * (ey - py)| + |(oy - py) * (ex - px)| := abs_add_le _ _
      _ ≤ 9007199254740992 := by linarith

/-- Non-vacuity: a left turn on the integer grid. -/
example : sgn (det (0 : Int) 0 4 0 4 3) = 1 := by decide

end GeomVerif.Orient
