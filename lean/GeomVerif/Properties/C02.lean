/-
C02 — multi-part geometries behave as lists of their parts under any history of
Push / Push(wrong layout) / Reverse / Swap / Clone / part accessor / Num / Coords.
Refinement: the model of the Go code and the list-of-parts specification produce the
same observations for EVERY finite history (induction over the history, invariant
`PolyRep`).
-/
import GeomVerif.Lemmas.Multi

namespace GeomVerif.C02
open GeomVerif
variable {α : Type}

/-- Representation invariant of Polygon / MultiLineString: the flat array is the
concatenation of the parts and the ends are the absolute running lengths. -/
def PolyRep (g : G2 α) (s : Parts (List (List α))) : Prop :=
  g.layout = s.layout ∧ g.stride = s.layout.stride ∧
  g.flat = s.parts.flatten.flatten ∧ g.ends = endsOf 0 s.parts ∧
  (∀ c ∈ s.parts.flatten, c.length = s.layout.stride) ∧ 0 < s.layout.stride

/-- A pushed part is valid when its coordinates have the dimension of its layout. -/
def PolyValid (l : Layout) (cs : List (List α)) : Prop := ∀ c ∈ cs, c.length = l.stride

theorem poly_simulation : Simulation (polyModel (α := α)) polySpec PolyRep PolyValid where
  push := by
    intro a b l p ⟨hl, hst, hf, he, hall, hpos⟩ hv
    simp only [polyModel, polySpec, G2.push, hl]
    by_cases hne : l = b.layout
    · subst hne
      simp only [ne_eq, not_true_eq_false, if_false, OutRel]
      refine ⟨rfl, hst, ?_, ?_, ?_, hpos⟩
      · simp [hf]
      · simp [he, endsOf_append, endsOf, hf]
      · intro c hc
        simp only [List.flatten_append, List.flatten_cons, List.flatten_nil, List.append_nil,
          List.mem_append] at hc
        rcases hc with hc | hc
        · exact hall c hc
        · exact hv c hc
    · simp [hne, OutRel]
  rev := by
    intro a b ⟨hl, hst, hf, he, hall, hpos⟩
    simp only [polyModel, polySpec, G2.reverse]
    have := reverse2_ok [] [] b.parts b.layout.stride hpos hall
    simp only [List.nil_append, List.append_nil, List.length_nil] at this
    rw [hf, he, hst, this]
    simp only [Outcome.bind_ok, OutRel]
    refine ⟨hl, rfl, rfl, ?_, ?_, hpos⟩
    · simp [endsOf_map_reverse]
    · intro c hc; exact hall c ((mem_flatten_map_reverse _ _).1 hc)
  num := by
    intro a b ⟨_, _, _, he, _, _⟩
    simp [polyModel, polySpec, G2.num, he, endsOf_length]
  coords := by
    intro a b ⟨hl, hst, hf, he, hall, hpos⟩
    simp only [polyModel, polySpec, Poly.coords]
    have := inflate2_ok [] [] b.parts b.layout.stride hpos hall
    simp only [List.nil_append, List.append_nil, List.length_nil] at this
    rw [hf, he, hst, this]
  part := by
    intro a b i ⟨hl, hst, hf, he, hall, hpos⟩
    simp only [polyModel, polySpec, G2.part, idx, he, endsOf_getElem?, hl]
    by_cases hi : i < b.parts.length
    · obtain ⟨p, hp⟩ : ∃ p, b.parts[i]? = some p := ⟨b.parts[i], by simp [hi]⟩
      have hsplit := split_at b.parts i p hp
      have htake := take_succ_of_getElem? b.parts i p hp
      have hflat : a.flat = (b.parts.take i).flatten.flatten ++ p.flatten
          ++ (b.parts.drop (i + 1)).flatten.flatten := by
        rw [hf]; conv => lhs; rw [hsplit]
        simp [List.append_assoc]
      have hsl := slice_mid (b.parts.take i).flatten.flatten p.flatten
        (b.parts.drop (i + 1)).flatten.flatten
      rw [← hflat] at hsl
      by_cases h0 : i > 0
      · have h1 : i - 1 < b.parts.length := by omega
        have h2 : i - 1 + 1 = i := by omega
        simp only [h0, h1, h2, hi, if_true, Outcome.bind_ok, htake, Nat.zero_add,
          List.flatten_append, List.flatten_cons, List.flatten_nil, List.append_nil,
          List.length_append, hsl, hp]
      · have : i = 0 := by omega
        subst this
        simp only [h0, hi, if_true, if_false, Outcome.bind_ok, htake, Nat.zero_add,
          List.flatten_append, List.flatten_cons, List.flatten_nil, List.append_nil,
          List.length_append, hp]
        simp only [List.take_zero, List.flatten_nil, List.length_nil, Nat.zero_add] at hsl
        simp only [List.take_zero, List.flatten_nil, List.length_nil, Nat.zero_add, hsl,
          Outcome.bind_ok]
    · have hnone : b.parts[i]? = none := by simp; omega
      rw [hnone]
      simp only [hi, if_false]
      by_cases h0 : i > 0
      · by_cases h1 : i - 1 < b.parts.length
        · simp [h0, h1, bind, Outcome.bind]
        · simp [h0, h1, bind, Outcome.bind]
      · simp [h0, bind, Outcome.bind]

/-- **C02 (Polygon, MultiLineString)**: for every layout with a positive stride and every
finite history of operations whose pushed parts are valid, the Go-code model yields exactly
the observations of the list-of-parts specification: Num = number of successful pushes, the
i-th accessor returns the i-th pushed part (also when parts are empty), Coords is the
concatenation, a wrong-layout Push fails with ErrLayoutMismatch{Got,Want} leaving the
receiver unchanged, Reverse reverses every part and nothing else, Swap exchanges the values. -/
theorem C02_poly_refines (l : Layout) (hl : 0 < l.stride) (ops : List (Op (List (List α))))
    (hv : ∀ op ∈ ops, ValidOp PolyValid op) :
    run (polyModel (α := α)) l ops = run polySpec l ops :=
  run_refines poly_simulation l ops
    ⟨rfl, rfl, rfl, rfl, by simp [polySpec], hl⟩ hv

/-- Corollary: a wrong-layout push leaves the receiver unchanged (next observations equal). -/
theorem C02_push_mismatch_unchanged (g : G2 α) (p : G1 α) (h : p.layout ≠ g.layout) :
    g.push p = .err (.layoutMismatch p.layout g.layout) := by
  simp [G2.push, h]

/-- Non-vacuity: a concrete history with empty parts, a wrong-layout push, reverse and swap. -/
example : run (polyModel (α := Nat)) 1
    [.push 1 [[1,2],[3,4]], .push 1 [], .push 2 [[1,2,3]], .push 1 [[5,6]], .rev, .num, .part 1,
     .part 2, .swap, .num, .swap, .coords]
  = [.push (.ok ()), .push (.ok ()), .push (.err (.layoutMismatch 2 1)), .push (.ok ()), .rev (.ok ()),
     .num 3, .part (.ok ⟨1, 2, [], 0⟩), .part (.ok ⟨1, 2, [5,6], 0⟩), .unit, .num 0, .unit,
     .coords (.ok [[[3,4],[1,2]], [], [[5,6]]])] := by decide

end GeomVerif.C02
