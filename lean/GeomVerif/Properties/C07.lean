/-
C07 — GeoJSON round-trips geometries; decoding is total.

Proved here (all inputs, no size bound):
* `C07_decode_total`, `C07_unmarshal_total`, `C07_feature_total`, `C07_feature_collection_total`:
  the decoders of the model never reach a panic — whatever the JSON value, they return a value
  or an error (the only possible sources, SetCoords, are closed forms by the C01 lemmas);
* `C07_point_roundtrip`, `C07_linestring_roundtrip`, `C07_polygon_roundtrip`,
  `C07_multilinestring_roundtrip`, `C07_multipoint_roundtrip`: reading back the coordinate arrays the encoder writes —
  layout guessed from the first position, then SetCoords — returns exactly the geometry
  SetCoords builds from the original coordinates in the original layout, for every layout
  other than XYM (2, 3, 4 or more ordinates); `C07_xym_comes_back_xyz`; and
  `C07_empty_default_layout`: no coordinates ⇒ default layout.
  These take as hypothesis that each emitted number reads back as the same float64
  (`parse (fmt x) = x`), which the run checks for every emitted number.
-/
import GeomVerif.Model.GeoJson
import GeomVerif.Properties.C01

namespace GeomVerif.C07
open GeomVerif GeomVerif.Wkb GeomVerif.GeoJson GeomVerif.C01

instance : LawfulMonad Outcome := LawfulMonad.mk'
  (id_map := fun x => by cases x <;> rfl)
  (pure_bind := fun _ _ => rfl)
  (bind_assoc := fun x _ _ => by cases x <;> rfl)

def NoPanic {β} (o : Outcome β) : Prop := ∀ m, o ≠ .panic m

theorem noPanic_ok {β} (b : β) : NoPanic (Outcome.ok b) := fun _ h => by cases h
theorem noPanic_err {β} (e : Err) : NoPanic (Outcome.err e : Outcome β) := fun _ h => by cases h

theorem noPanic_bind {β γ} {x : Outcome β} {f : β → Outcome γ} (hx : NoPanic x)
    (hf : ∀ b, NoPanic (f b)) : NoPanic (x >>= f) := by
  cases x with
  | ok b => exact hf b
  | err e => exact noPanic_err e
  | panic m => exact absurd rfl (hx m)

theorem noPanic_mapM {β γ} (f : β → Outcome γ) (hf : ∀ b, NoPanic (f b)) (xs : List β) :
    NoPanic (xs.mapM f) := by
  induction xs with
  | nil => exact noPanic_ok _
  | cons x xs ih =>
    rw [List.mapM_cons]
    exact noPanic_bind (hf x) fun b => noPanic_bind ih fun bs => noPanic_ok _

theorem noPanic_decFloats (parse : Parse) (j : J) : NoPanic (decFloats parse j) := by
  unfold decFloats
  split
  · exact noPanic_ok _
  · refine noPanic_bind (noPanic_mapM _ ?_ _) fun _ => noPanic_ok _
    intro x
    split
    · split
      · exact noPanic_ok _
      · exact noPanic_err _
    · exact noPanic_ok _
    · exact noPanic_err _
  · exact noPanic_err _

theorem noPanic_decCoords1 (parse : Parse) (j : J) : NoPanic (decCoords1 parse j) := by
  unfold decCoords1
  split
  · exact noPanic_ok _
  · exact noPanic_mapM _ (noPanic_decFloats parse) _
  · exact noPanic_err _

theorem noPanic_decCoords2 (parse : Parse) (j : J) : NoPanic (decCoords2 parse j) := by
  unfold decCoords2
  split
  · exact noPanic_ok _
  · exact noPanic_mapM _ (noPanic_decCoords1 parse) _
  · exact noPanic_err _

theorem noPanic_decCoords3 (parse : Parse) (j : J) : NoPanic (decCoords3 parse j) := by
  unfold decCoords3
  split
  · exact noPanic_ok _
  · exact noPanic_mapM _ (noPanic_decCoords2 parse) _
  · exact noPanic_err _

theorem noPanic_guess0 (c : Option (List Ord)) : NoPanic (guess0 c) := by
  unfold guess0; split <;> first | exact noPanic_ok _ | exact noPanic_err _

theorem noPanic_guess1 (dl : Layout) (cs : List (Option (List Ord))) : NoPanic (guess1 dl cs) := by
  unfold guess1; split
  · exact noPanic_ok _
  · exact noPanic_guess0 _

theorem noPanic_guess2 (dl : Layout) (cs : List (List (Option (List Ord)))) : NoPanic (guess2 dl cs) := by
  unfold guess2; split
  · exact noPanic_ok _
  · exact noPanic_guess1 _ _

theorem noPanic_guess3 (dl : Layout) (cs : List (List (List (Option (List Ord))))) : NoPanic (guess3 dl cs) := by
  unfold guess3; split
  · exact noPanic_ok _
  · exact noPanic_guess2 _ _

theorem noPanic_pointSet (l : Layout) (c : List Ord) : NoPanic (Point.setCoords l c) := by
  unfold Point.setCoords deflate0
  split
  · exact noPanic_err _
  · exact noPanic_ok _

theorem noPanic_lineSet (l : Layout) (cs : List (List Ord)) : NoPanic (Line.setCoords l cs) := by
  rw [line_set_eq]; split
  · exact noPanic_err _
  · exact noPanic_ok _

theorem noPanic_polySet (l : Layout) (cs : List (List (List Ord))) : NoPanic (Poly.setCoords l cs) := by
  rw [poly_set_eq]; split
  · exact noPanic_err _
  · exact noPanic_ok _

theorem noPanic_mpolySet (l : Layout) (cs : List (List (List (List Ord)))) :
    NoPanic (MPoly.setCoords l cs) := by
  rw [mpoly_set_eq]; split
  · exact noPanic_err _
  · exact noPanic_ok _

theorem noPanic_mpointSet (l : Layout) (cs : List (Option (List Ord))) :
    NoPanic (MPoint.setCoords l cs) := by
  rw [mpoint_set_eq]; split
  · exact noPanic_err _
  · exact noPanic_ok _

theorem noPanic_gsOf (parse : Parse) (fuel : Nat) (cur : GS) (j : J) : NoPanic (gsOf parse fuel cur j) := by
  unfold gsOf
  split
  · simp only
    split
    · exact noPanic_ok _
    · exact noPanic_err _
  · exact noPanic_err _

/-- **Geometry.Decode is total**: for every decoded Geometry struct it returns a geometry or an
error, never a panic. -/
theorem C07_decode_total (dl : Layout) (parse : Parse) (fuel : Nat) (g : GS) : NoPanic (decode dl parse fuel g) := by
  induction fuel generalizing g with
  | zero => exact noPanic_err _
  | succ fuel ih =>
    unfold decode
    split
    · split
      · exact noPanic_ok _
      · refine noPanic_bind (noPanic_decFloats _ _) fun c => ?_
        split
        · exact noPanic_ok _
        · exact noPanic_bind (noPanic_guess0 _) fun l =>
            noPanic_bind (noPanic_pointSet _ _) fun _ => noPanic_ok _
    · split
      · exact noPanic_ok _
      · exact noPanic_bind (noPanic_decCoords1 _ _) fun cs =>
          noPanic_bind (noPanic_guess1 _ _) fun l =>
            noPanic_bind (noPanic_lineSet _ _) fun _ => noPanic_ok _
    · split
      · exact noPanic_ok _
      · exact noPanic_bind (noPanic_decCoords2 _ _) fun cs =>
          noPanic_bind (noPanic_guess2 _ _) fun l =>
            noPanic_bind (noPanic_polySet _ _) fun _ => noPanic_ok _
    · split
      · exact noPanic_ok _
      · exact noPanic_bind (noPanic_decCoords1 _ _) fun cs =>
          noPanic_bind (noPanic_guess1 _ _) fun l =>
            noPanic_bind (noPanic_mpointSet _ _) fun _ => noPanic_ok _
    · split
      · exact noPanic_ok _
      · exact noPanic_bind (noPanic_decCoords2 _ _) fun cs =>
          noPanic_bind (noPanic_guess2 _ _) fun l =>
            noPanic_bind (noPanic_polySet _ _) fun _ => noPanic_ok _
    · split
      · exact noPanic_ok _
      · exact noPanic_bind (noPanic_decCoords3 _ _) fun cs =>
          noPanic_bind (noPanic_guess3 _ _) fun l =>
            noPanic_bind (noPanic_mpolySet _ _) fun _ => noPanic_ok _
    · refine noPanic_bind ?_ fun subs => noPanic_bind (noPanic_mapM _ (ih) _) fun _ => noPanic_ok _
      split
      · exact noPanic_ok _
      · refine noPanic_mapM _ ?_ _
        intro x
        split
        · exact noPanic_ok _
        · exact noPanic_gsOf _ _ _ _
      · exact noPanic_err _
    · exact noPanic_err _

theorem C07_unmarshal_total (dl : Layout) (parse : Parse) (fuel : Nat) (j : J) : NoPanic (unmarshal dl parse fuel j) := by
  unfold unmarshal
  split
  · exact noPanic_ok _
  · exact noPanic_bind (noPanic_gsOf _ _ _ _) fun g =>
      noPanic_bind (C07_decode_total _ _ _ _) fun _ => noPanic_ok _
  · exact noPanic_err _

theorem noPanic_decodeBBox (bb : List Ord) : NoPanic (decodeBBox bb) := by
  unfold decodeBBox; split <;> first | exact noPanic_ok _ | exact noPanic_err _

macro "np_auto" : tactic => `(tactic|
  repeat (first
    | exact noPanic_ok _
    | exact noPanic_err _
    | exact noPanic_decodeBBox _
    | exact C07_decode_total _ _ _ _
    | refine noPanic_bind ?_ (fun _ => ?_)
    | split))

theorem C07_feature_total (dl : Layout) (parse : Parse) (fmt : Ord → String) (fuel : Nat) (j : J) :
    NoPanic (featureOf dl parse fmt fuel j) := by
  unfold featureOf
  split
  · simp only
    np_auto
  · exact noPanic_err _
  · exact noPanic_err _

theorem C07_feature_collection_total (dl : Layout) (parse : Parse) (fmt : Ord → String) (fuel : Nat) (j : J) :
    NoPanic (featureCollectionOf dl parse fmt fuel j) := by
  unfold featureCollectionOf
  split
  · simp only
    np_auto
  · exact noPanic_err _
  · exact noPanic_err _


/-! ## Round trip of the coordinate arrays -/

/-- The encoder's arrays (json.Marshal of Coords()). -/
def jCoord (fmt : Ord → String) (c : List Ord) : J := .arr (c.map fun x => .num (fmt x))
def jCoords1 (fmt : Ord → String) (cs : List (List Ord)) : J := .arr (cs.map (jCoord fmt))
def jCoords2 (fmt : Ord → String) (x : List (List (List Ord))) : J := .arr (x.map (jCoords1 fmt))
def jCoords3 (fmt : Ord → String) (x : List (List (List (List Ord)))) : J := .arr (x.map (jCoords2 fmt))

/-- The emitted text of `x` reads back as `x` (checked by the run for every emitted number). -/
abbrev Reads (parse : Parse) (fmt : Ord → String) (x : Ord) : Prop := parse (fmt x).toList = some x

theorem mapM_map_ok {α β γ} (f : β → Outcome γ) (e : α → β) (r : α → γ) (xs : List α)
    (h : ∀ x ∈ xs, f (e x) = .ok (r x)) : (xs.map e).mapM f = .ok (xs.map r) := by
  induction xs with
  | nil => rfl
  | cons x xs ih =>
    rw [List.map_cons, List.mapM_cons, h x (List.mem_cons_self ..),
      ih (fun y hy => h y (List.mem_cons_of_mem _ hy))]
    rfl

theorem decFloats_jCoord (parse : Parse) (fmt : Ord → String) (c : List Ord)
    (h : ∀ x ∈ c, Reads parse fmt x) : decFloats parse (jCoord fmt c) = .ok (some c) := by
  unfold decFloats jCoord
  simp only
  rw [mapM_map_ok _ _ id c]
  · simp
  · intro x hx
    simp only [h x hx, id]

theorem decCoords1_j (parse : Parse) (fmt : Ord → String) (cs : List (List Ord))
    (h : ∀ c ∈ cs, ∀ x ∈ c, Reads parse fmt x) :
    decCoords1 parse (jCoords1 fmt cs) = .ok (cs.map some) := by
  unfold decCoords1 jCoords1
  simp only
  exact mapM_map_ok _ _ some cs fun c hc => decFloats_jCoord parse fmt c (h c hc)

theorem decCoords2_j (parse : Parse) (fmt : Ord → String) (css : List (List (List Ord)))
    (h : ∀ cs ∈ css, ∀ c ∈ cs, ∀ x ∈ c, Reads parse fmt x) :
    decCoords2 parse (jCoords2 fmt css) = .ok (css.map (·.map some)) := by
  unfold decCoords2 jCoords2
  simp only
  exact mapM_map_ok _ _ (·.map some) css fun cs hcs => decCoords1_j parse fmt cs (h cs hcs)

theorem decCoords3_j (parse : Parse) (fmt : Ord → String) (x : List (List (List (List Ord))))
    (h : ∀ css ∈ x, ∀ cs ∈ css, ∀ c ∈ cs, ∀ v ∈ c, Reads parse fmt v) :
    decCoords3 parse (jCoords3 fmt x) = .ok (x.map (·.map (·.map some))) := by
  unfold decCoords3 jCoords3
  simp only
  exact mapM_map_ok _ _ (·.map (·.map some)) x fun css hcss => decCoords2_j parse fmt css (h css hcss)

theorem unNil_map_some (cs : List (List Ord)) : unNil (cs.map some) = cs := by
  induction cs with
  | nil => rfl
  | cons c cs ih => simp only [unNil, List.map_cons, Option.getD_some] at ih ⊢; rw [ih]

/-- The layout guessed from a position of `stride l` ordinates is `l` — except for XYM. -/
theorem guess0_of_stride (l : Nat) (hl : 1 ≤ l) (h3 : l ≠ 3) (c : List Ord)
    (hc : c.length = Layout.stride l) : guess0 (some c) = .ok l := by
  unfold guess0
  simp only [Option.getD_some, hc]
  have : l = 1 ∨ l = 2 ∨ l = 4 ∨ 5 ≤ l := by omega
  rcases this with rfl | rfl | rfl | h5
  · rfl
  · rfl
  · rfl
  · obtain ⟨k, rfl⟩ : ∃ k, l = k + 5 := ⟨l - 5, by omega⟩
    simp [Layout.stride]

theorem C07_xym_comes_back_xyz (c : List Ord) (hc : c.length = Layout.stride 3) :
    guess0 (some c) = .ok 2 := by
  unfold guess0
  simp only [Option.getD_some, hc]
  rfl

/-- **LineString / MultiPoint-free round trip.** Any layout but XYM, at least one position, every
position of the layout's stride: decoding the emitted coordinate array gives exactly
`SetCoords` of the original coordinates in the original layout. -/
theorem C07_linestring_roundtrip (dl : Layout) (parse : Parse) (fmt : Ord → String) (fuel : Nat) (l : Nat)
    (hl : 1 ≤ l) (h3 : l ≠ 3) (c0 : List Ord) (rest : List (List Ord))
    (hlen : c0.length = Layout.stride l) (hr : ∀ c ∈ c0 :: rest, ∀ x ∈ c, Reads parse fmt x) (g : GS)
    (ht : g.type = "LineString") (hc : g.coordinates = some (jCoords1 fmt (c0 :: rest))) :
    decode dl parse (fuel + 1) g = (Line.setCoords l (c0 :: rest)).map .lineString := by
  unfold decode
  simp only [ht, hc]
  rw [decCoords1_j parse fmt _ hr]
  simp only [Outcome.bind_ok, List.map_cons, guess1, guess0_of_stride l hl h3 c0 hlen]
  rw [show unNil (some c0 :: rest.map some) = c0 :: rest from unNil_map_some (c0 :: rest)]
  cases Line.setCoords l (c0 :: rest) <;> rfl

theorem C07_point_roundtrip (dl : Layout) (parse : Parse) (fmt : Ord → String) (fuel : Nat) (l : Nat)
    (hl : 1 ≤ l) (h3 : l ≠ 3) (c : List Ord) (hlen : c.length = Layout.stride l)
    (hr : ∀ x ∈ c, Reads parse fmt x) (g : GS)
    (ht : g.type = "Point") (hc : g.coordinates = some (jCoord fmt c)) :
    decode dl parse (fuel + 1) g = (Point.setCoords l c).map .point := by
  have hne : (c.isEmpty) = false := by
    cases c with
    | nil =>
      have : l = 1 ∨ l = 2 ∨ l = 4 ∨ 5 ≤ l := by omega
      rcases this with rfl | rfl | rfl | h5 <;> simp [Layout.stride] at hlen
      obtain ⟨k, rfl⟩ : ∃ k, l = k + 5 := ⟨l - 5, by omega⟩
      simp [Layout.stride] at hlen
    | cons _ _ => rfl
  unfold decode
  simp only [ht, hc]
  rw [decFloats_jCoord parse fmt c hr]
  simp only [Outcome.bind_ok, Option.getD_some, hne, Bool.false_eq_true, if_false,
    guess0_of_stride l hl h3 c hlen]
  cases Point.setCoords l c <;> rfl

/-- **Polygon round trip** (first ring not empty). -/
theorem C07_polygon_roundtrip (dl : Layout) (parse : Parse) (fmt : Ord → String) (fuel : Nat) (l : Nat)
    (hl : 1 ≤ l) (h3 : l ≠ 3) (c0 : List Ord) (ring0 : List (List Ord)) (rest : List (List (List Ord)))
    (hlen : c0.length = Layout.stride l)
    (hr : ∀ cs ∈ (c0 :: ring0) :: rest, ∀ c ∈ cs, ∀ x ∈ c, Reads parse fmt x) (g : GS)
    (ht : g.type = "Polygon") (hc : g.coordinates = some (jCoords2 fmt ((c0 :: ring0) :: rest))) :
    decode dl parse (fuel + 1) g = (Poly.setCoords l ((c0 :: ring0) :: rest)).map .polygon := by
  unfold decode
  simp only [ht, hc]
  rw [decCoords2_j parse fmt _ hr]
  simp only [Outcome.bind_ok, List.map_cons, guess2, guess1, guess0_of_stride l hl h3 c0 hlen]
  have e : (unNil (some c0 :: ring0.map some)) :: rest.map (fun x => unNil (x.map some))
      = (c0 :: ring0) :: rest := by
    rw [show unNil (some c0 :: ring0.map some) = c0 :: ring0 from unNil_map_some (c0 :: ring0)]
    congr 1
    rw [List.map_congr_left (g := id) (fun x _ => unNil_map_some x)]
    simp
  simp only [List.map_map, Function.comp_def] at e ⊢
  rw [e]
  cases Poly.setCoords l ((c0 :: ring0) :: rest) <;> rfl

/-- **MultiLineString round trip** (first line not empty). -/
theorem C07_multilinestring_roundtrip (dl : Layout) (parse : Parse) (fmt : Ord → String) (fuel : Nat) (l : Nat)
    (hl : 1 ≤ l) (h3 : l ≠ 3) (c0 : List Ord) (line0 : List (List Ord)) (rest : List (List (List Ord)))
    (hlen : c0.length = Layout.stride l)
    (hr : ∀ cs ∈ (c0 :: line0) :: rest, ∀ c ∈ cs, ∀ x ∈ c, Reads parse fmt x) (g : GS)
    (ht : g.type = "MultiLineString") (hc : g.coordinates = some (jCoords2 fmt ((c0 :: line0) :: rest))) :
    decode dl parse (fuel + 1) g = (Poly.setCoords l ((c0 :: line0) :: rest)).map .multiLineString := by
  unfold decode
  simp only [ht, hc]
  rw [decCoords2_j parse fmt _ hr]
  simp only [Outcome.bind_ok, List.map_cons, guess2, guess1, guess0_of_stride l hl h3 c0 hlen]
  have e : (unNil (some c0 :: line0.map some)) :: rest.map (fun x => unNil (x.map some))
      = (c0 :: line0) :: rest := by
    rw [show unNil (some c0 :: line0.map some) = c0 :: line0 from unNil_map_some (c0 :: line0)]
    congr 1
    rw [List.map_congr_left (g := id) (fun x _ => unNil_map_some x)]
    simp
  simp only [List.map_map, Function.comp_def] at e ⊢
  rw [e]
  cases Poly.setCoords l ((c0 :: line0) :: rest) <;> rfl

/-- **MultiPolygon round trip** (first ring of the first polygon not empty). -/
theorem C07_multipolygon_roundtrip (dl : Layout) (parse : Parse) (fmt : Ord → String) (fuel : Nat) (l : Nat)
    (hl : 1 ≤ l) (h3 : l ≠ 3) (c0 : List Ord) (ring0 : List (List Ord))
    (poly0 : List (List (List Ord))) (rest : List (List (List (List Ord))))
    (hlen : c0.length = Layout.stride l)
    (hr : ∀ css ∈ ((c0 :: ring0) :: poly0) :: rest, ∀ cs ∈ css, ∀ c ∈ cs, ∀ x ∈ c, Reads parse fmt x)
    (g : GS) (ht : g.type = "MultiPolygon")
    (hc : g.coordinates = some (jCoords3 fmt (((c0 :: ring0) :: poly0) :: rest))) :
    decode dl parse (fuel + 1) g
      = (MPoly.setCoords l (((c0 :: ring0) :: poly0) :: rest)).map .multiPolygon := by
  unfold decode
  simp only [ht, hc]
  rw [decCoords3_j parse fmt _ hr]
  simp only [Outcome.bind_ok, List.map_cons, guess3, guess2, guess1, guess0_of_stride l hl h3 c0 hlen]
  have hun : ∀ css : List (List (List Ord)), (css.map (·.map some)).map unNil = css := by
    intro css
    rw [List.map_map]
    rw [List.map_congr_left (g := id) (fun x _ => by simp [Function.comp, unNil_map_some])]
    simp
  have e : ((unNil (some c0 :: ring0.map some)) :: (poly0.map (·.map some)).map unNil)
        :: (rest.map (·.map (·.map some))).map (·.map unNil)
      = ((c0 :: ring0) :: poly0) :: rest := by
    rw [show unNil (some c0 :: ring0.map some) = c0 :: ring0 from unNil_map_some (c0 :: ring0), hun]
    congr 1
    rw [List.map_map]
    rw [List.map_congr_left (g := id) (fun x _ => by simp only [Function.comp]; exact hun x)]
    simp
  simp only [List.map_map, Function.comp_def] at e ⊢
  rw [e]
  cases MPoly.setCoords l (((c0 :: ring0) :: poly0) :: rest) <;> rfl

/-- **MultiPoint round trip**: members `none` are empty points (written `null`); the first member
must be a position. -/
theorem C07_multipoint_roundtrip (dl : Layout) (parse : Parse) (fmt : Ord → String) (fuel : Nat) (l : Nat)
    (hl : 1 ≤ l) (h3 : l ≠ 3) (c0 : List Ord) (rest : List (Option (List Ord)))
    (hlen : c0.length = Layout.stride l)
    (hr : ∀ x ∈ c0, Reads parse fmt x) (hrr : ∀ c ∈ rest, ∀ y ∈ c, ∀ x ∈ y, Reads parse fmt x) (g : GS)
    (ht : g.type = "MultiPoint")
    (hc : g.coordinates = some (.arr (jCoord fmt c0 :: rest.map fun c => match c with
      | some c => jCoord fmt c | none => .null))) :
    decode dl parse (fuel + 1) g = (MPoint.setCoords l (some c0 :: rest)).map .multiPoint := by
  unfold decode
  simp only [ht, hc]
  have hd : decCoords1 parse (.arr (jCoord fmt c0 :: rest.map fun c => match c with
      | some c => jCoord fmt c | none => .null)) = .ok (some c0 :: rest) := by
    unfold decCoords1
    simp only [List.mapM_cons, decFloats_jCoord parse fmt c0 hr, Outcome.bind_ok]
    rw [mapM_map_ok _ _ id rest]
    · simp
    · intro c hc
      cases c with
      | none => rfl
      | some y => exact decFloats_jCoord parse fmt y (hrr (some y) hc y rfl)
  rw [hd]
  simp only [Outcome.bind_ok, guess1, guess0_of_stride l hl h3 c0 hlen]
  cases MPoint.setCoords l (some c0 :: rest) <;> rfl

/-- No coordinates: the default layout `dl` (geojson.DefaultLayout: XY unless the caller has set it),
whatever the original layout was. -/
theorem C07_empty_default_layout (dl : Layout) (parse : Parse) (fuel : Nat) (g : GS)
    (ht : g.type = "LineString") (hc : g.coordinates = some (.arr [])) :
    decode dl parse (fuel + 1) g = (Line.setCoords dl []).map .lineString := by
  unfold decode
  simp only [ht, hc]
  rfl

/-- The same for the other types whose layout is guessed from the first position: with no position
to look at, the geometry gets `dl`, for every value of it. -/
theorem C07_empty_default_layout_polygon (dl : Layout) (parse : Parse) (fuel : Nat) (g : GS)
    (ht : g.type = "Polygon") (hc : g.coordinates = some (.arr [])) :
    decode dl parse (fuel + 1) g = (Poly.setCoords dl []).map .polygon := by
  unfold decode
  simp only [ht, hc]
  rfl

theorem C07_empty_default_layout_multipoint (dl : Layout) (parse : Parse) (fuel : Nat) (g : GS)
    (ht : g.type = "MultiPoint") (hc : g.coordinates = some (.arr [])) :
    decode dl parse (fuel + 1) g = (MPoint.setCoords dl []).map .multiPoint := by
  unfold decode
  simp only [ht, hc]
  rfl

theorem C07_empty_default_layout_multilinestring (dl : Layout) (parse : Parse) (fuel : Nat) (g : GS)
    (ht : g.type = "MultiLineString") (hc : g.coordinates = some (.arr [])) :
    decode dl parse (fuel + 1) g = (Poly.setCoords dl []).map .multiLineString := by
  unfold decode
  simp only [ht, hc]
  rfl

theorem C07_empty_default_layout_multipolygon (dl : Layout) (parse : Parse) (fuel : Nat) (g : GS)
    (ht : g.type = "MultiPolygon") (hc : g.coordinates = some (.arr [])) :
    decode dl parse (fuel + 1) g = (MPoly.setCoords dl []).map .multiPolygon := by
  unfold decode
  simp only [ht, hc]
  rfl

/-- … and an empty first component (a polygon whose first ring has no position) as well. -/
theorem C07_empty_first_ring_default_layout (dl : Layout) (parse : Parse) (fuel : Nat) (g : GS)
    (ht : g.type = "Polygon") (hc : g.coordinates = some (.arr [.arr []])) :
    decode dl parse (fuel + 1) g = (Poly.setCoords dl [[]]).map .polygon := by
  unfold decode
  simp only [ht, hc]
  rfl

end GeomVerif.C07
