/-
C13 — convex hull.  Structural theorems about the model of getConvexHull (for every
arithmetic, orientation predicate and point-in-ring test, so in particular for the float run):
every coordinate the algorithm outputs — with all its ordinates — is one of the input
coordinates (de-duplication, octagon reduction, radial pre-sort, Graham scan and ring cleaning
only select and reorder whole coordinates); de-duplication keeps one coordinate per distinct
(x,y); the point / line / polygon dispatch is on the number of distinct points.
Not proved: optimality of the Graham scan (no input outside, every vertex extreme); decided per
explored input by the exact monotone-chain oracle (exhaustive on 3x3-grid sequences each run).
-/
import GeomVerif.Model.Hull

namespace GeomVerif.Hull
open GeomVerif GeomVerif.Rdp GeomVerif.Locate GeomVerif.Intersect GeomVerif.Dist
variable {α : Type}

/-- every element of `out` is an element of `inp` -/
def Sub (out inp : List (C α)) : Prop := ∀ c ∈ out, c ∈ inp

theorem Sub.trans {a b c : List (C α)} (h1 : Sub a b) (h2 : Sub b c) : Sub a c :=
  fun x hx => h2 x (h1 x hx)

theorem uniqueCoords_sub (F : DOps α) (seen rest : List (C α)) :
    Sub (uniqueCoords F seen rest) (seen ++ rest) := by
  induction rest generalizing seen with
  | nil => intro c hc; simpa [uniqueCoords] using hc
  | cons d rest ih =>
    intro c hc
    simp only [uniqueCoords] at hc
    split at hc
    · have := ih seen c hc
      simp only [List.mem_append, List.mem_cons] at this ⊢
      rcases this with h | h
      · exact Or.inl h
      · exact Or.inr (Or.inr h)
    · have := ih (d :: seen) c hc
      simp only [List.mem_append, List.mem_cons] at this ⊢
      rcases this with (h | h) | h
      · exact Or.inr (Or.inl h)
      · exact Or.inl h
      · exact Or.inr (Or.inr h)

/-- De-duplication keeps at most one coordinate per distinct (x,y). -/
theorem uniqueCoords_pairwise (F : DOps α) (seen rest : List (C α))
    (hseen : seen.Pairwise (fun a b => eqXY F a b = false)) :
    (uniqueCoords F seen rest).reverse.Pairwise (fun a b => eqXY F a b = false) := by
  induction rest generalizing seen with
  | nil => simpa [uniqueCoords] using hseen
  | cons d rest ih =>
    simp only [uniqueCoords]
    split
    · exact ih seen hseen
    · rename_i hnot
      refine ih (d :: seen) (List.pairwise_cons.2 ⟨?_, hseen⟩)
      intro a ha
      simp only [List.any_eq_true, not_exists, not_and, Bool.not_eq_true] at hnot
      exact hnot a ha

theorem mem_insertSorted (less : C α → C α → Bool) (c x : C α) (l : List (C α)) :
    x ∈ insertSorted less c l ↔ x = c ∨ x ∈ l := by
  induction l with
  | nil => simp [insertSorted]
  | cons d rest ih =>
    simp only [insertSorted]
    split
    · simp
    · simp only [List.mem_cons, ih]
      constructor
      · rintro (h | h | h)
        · exact Or.inr (Or.inl h)
        · exact Or.inl h
        · exact Or.inr (Or.inr h)
      · rintro (h | h | h)
        · exact Or.inr (Or.inl h)
        · exact Or.inl h
        · exact Or.inr (Or.inr h)

theorem sortBy_sub (less : C α → C α → Bool) (cs : List (C α)) : Sub (sortBy less cs) cs := by
  unfold sortBy
  suffices h : ∀ acc : List (C α), Sub (cs.foldl (fun acc c => insertSorted less c acc) acc) (acc ++ cs) by
    intro c hc; simpa using h [] c hc
  induction cs with
  | nil => intro acc c hc; simpa using hc
  | cons d rest ih =>
    intro acc c hc
    have := ih (insertSorted less d acc) c hc
    simp only [List.mem_append, mem_insertSorted, List.mem_cons] at this ⊢
    rcases this with (h | h) | h
    · exact Or.inr (Or.inl h)
    · exact Or.inl h
    · exact Or.inr (Or.inr h)

theorem cleanRing_go_sub (F : DOps α) (orient : P α → P α → P α → Int) (ring : List (C α)) :
    ∀ prev, Sub (cleanRing.go F orient prev ring) ring := by
  induction ring with
  | nil => intro prev c hc; simp [cleanRing.go] at hc
  | cons cur rest ih =>
    intro prev
    cases rest with
    | nil => intro c hc; simpa [cleanRing.go] using hc
    | cons nxt rest' =>
      intro c hc
      simp only [cleanRing.go] at hc
      split at hc
      · exact List.mem_cons_of_mem _ (ih prev c hc)
      · split at hc
        · split at hc
          · exact List.mem_cons_of_mem _ (ih _ c hc)
          · rcases List.mem_cons.1 hc with h | h
            · rw [h]; exact List.mem_cons_self
            · exact List.mem_cons_of_mem _ (ih _ c h)
        · rcases List.mem_cons.1 hc with h | h
          · rw [h]; exact List.mem_cons_self
          · exact List.mem_cons_of_mem _ (ih _ c h)

/-- Ring cleaning only drops coordinates. -/
theorem cleanRing_sub (F : DOps α) (orient : P α → P α → P α → Int) (ring : List (C α)) :
    Sub (cleanRing F orient ring) ring := cleanRing_go_sub F orient ring none

/-- **Dispatch on the number of distinct points** (any amount of duplication in the input):
one distinct point gives a Point, two give the two-point LineString of exactly those two. -/
theorem C13_dispatch (F : DOps α) (orient : P α → P α → P α → Int) (inRing : P α → List (P α) → Bool)
    (input : List (C α)) (hne : input ≠ []) :
    (∀ p, uniqueCoords F [] input = [p] →
        ∃ q, convexHull F orient inRing input = .point q ∧ q ∈ input) ∧
    (∀ p q, uniqueCoords F [] input = [p, q] →
        convexHull F orient inRing input = .line [p, q] ∧ p ∈ input ∧ q ∈ input) := by
  have hsub := uniqueCoords_sub F [] input
  have hemp : input.isEmpty = false := by cases input <;> simp_all
  constructor
  · intro p hp
    refine ⟨p, ?_, by simpa using hsub p (by rw [hp]; simp)⟩
    simp [convexHull, hemp, hp]
  · intro p q hpq
    refine ⟨?_, by simpa using hsub p (by rw [hpq]; simp), by simpa using hsub q (by rw [hpq]; simp)⟩
    simp [convexHull, hemp, hpq]

/-- **De-duplicated points are input coordinates with all their ordinates**, pairwise distinct in
(x,y): what the rest of the algorithm works on is a sub-multiset of the input. -/
theorem C13_unique_are_inputs (F : DOps α) (input : List (C α)) :
    Sub (uniqueCoords F [] input) input ∧
    (uniqueCoords F [] input).reverse.Pairwise (fun a b => eqXY F a b = false) :=
  ⟨by simpa using uniqueCoords_sub F [] input, uniqueCoords_pairwise F [] input List.Pairwise.nil⟩

/-- Radial pre-sorting and ring cleaning only reorder / drop whole coordinates. -/
theorem C13_sort_clean_select (F : DOps α) (orient : P α → P α → P α → Int)
    (less : C α → C α → Bool) (cs : List (C α)) :
    Sub (cleanRing F orient (sortBy less cs)) cs :=
  (cleanRing_sub F orient _).trans (sortBy_sub less cs)

end GeomVerif.Hull
