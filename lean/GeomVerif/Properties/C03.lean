/-
C03 — WKB/EWKB emit the standard byte layout; reading consumes exactly the bytes of
one geometry however the reader splits them; writer faults.
Proved here (all byte orders, all ordinate bit patterns, all sizes):
  * the model's byte writers coincide with the independent reference encoder on
    Point / LineString / Polygon (type code, dimension offset, counts, ring structure);
  * ReadUInt32 ∘ WriteUInt32 = id, so count fields and type codes decode back;
  * io.ReadFull over an arbitrarily split reader depends only on the concatenation;
  * a failing writer: the emitted bytes are a prefix and the error is reported.
Not yet proved (decided per explored input by the reference encoder + correspondence):
write = spec and decode ∘ encode for the multi types and nested collections.
-/
import GeomVerif.Lemmas.Wkb
import GeomVerif.Lemmas.WkbRead
import GeomVerif.Properties.C01

namespace GeomVerif.Wkb
open GeomVerif GeomVerif.WkbSpec

theorem encodable_cases (l : Layout) (hl : encodable l = true) : l = 1 ∨ l = 2 ∨ l = 3 ∨ l = 4 := by
  simp only [encodable, Bool.or_eq_true, beq_iff_eq] at hl
  rcases hl with ((h | h) | h) | h
  · exact Or.inl h
  · exact Or.inr (Or.inl h)
  · exact Or.inr (Or.inr (Or.inl h))
  · exact Or.inr (Or.inr (Or.inr h))

theorem wkb_header (ndr : Bool) (l : Layout) (hl : encodable l = true) (base : Nat) (s : Int)
    (nan : Bool) :
    ∃ o, wkbDimOffset l = some o ∧ l ≠ 0 ∧
      [if ndr then (1 : Byte) else 0] ++ u32Bytes ndr (base + o) = header (.wkb nan) ndr base l s := by
  have h := encodable_cases l hl
  rcases h with rfl | rfl | rfl | rfl <;>
    exact ⟨_, rfl, by decide, by simp [header, u32Bytes_eq_w32]⟩

/-- **WKB LineString**: for every encodable layout, byte order and coordinate list, the library
model emits exactly the reference encoding (byte order, ISO type code 2 + 1000·dim, count,
ordinates) and reports no error. -/
theorem C03_wkb_lineString_eq_spec (ndr nan : Bool) (l : Layout) (hl : encodable l = true)
    (s : Int) (cs : List (List Ord)) (hall : ∀ c ∈ cs, c.length = l.stride) :
    ∃ g, toModel (.lineString l s cs) = .ok g ∧
      (writeWkb ndr nan g.depth g, encode (.wkb nan) ndr (.lineString l s cs))
        = ((encLine (.wkb nan) ndr l s cs, none), some (encLine (.wkb nan) ndr l s cs)) := by
  obtain ⟨o, ho, hl0, hh⟩ := wkb_header ndr l hl 2 s nan
  have hs : 0 < l.stride := by
    have := encodable_cases l hl
    rcases this with rfl | rfl | rfl | rfl <;> decide
  have hfind : cs.find? (badLen l.stride) = none := by
    rw [List.find?_eq_none]; intro c hc; simp [badLen, hall c hc]
  refine ⟨.lineString ⟨l, l.stride, cs.flatten, s⟩, ?_, ?_⟩
  · simp only [toModel, C01.line_set_eq, hfind, Outcome.bind_ok]
  · simp only [encode, hl, Bool.not_true, Bool.false_eq_true, if_false, Prod.mk.injEq, and_true]
    simp only [WGeom.depth, writeWkb, WGeom.layoutOf, hl0, if_false, ho, WGeom.typeID,
      lineStringID, writeFlatCoords1_eq ndr cs l.stride hs hall, wSeq_ok, wOk]
    simp only [encLine, ← hh, List.append_assoc, wSeq]

/-- **WKB Polygon**: ring count, then each ring as count + ordinates, empty rings included. -/
theorem C03_wkb_polygon_eq_spec (ndr nan : Bool) (l : Layout) (hl : encodable l = true)
    (s : Int) (rings : List (List (List Ord))) (hall : ∀ c ∈ rings.flatten, c.length = l.stride) :
    ∃ g, toModel (.polygon l s rings) = .ok g ∧
      (writeWkb ndr nan g.depth g, encode (.wkb nan) ndr (.polygon l s rings))
        = ((encPoly (.wkb nan) ndr l s rings, none), some (encPoly (.wkb nan) ndr l s rings)) := by
  obtain ⟨o, ho, hl0, hh⟩ := wkb_header ndr l hl 3 s nan
  have hs : 0 < l.stride := by
    have := encodable_cases l hl
    rcases this with rfl | rfl | rfl | rfl <;> decide
  have hfind : rings.flatten.find? (badLen l.stride) = none := by
    rw [List.find?_eq_none]; intro c hc; simp [badLen, hall c hc]
  refine ⟨.polygon ⟨l, l.stride, rings.flatten.flatten, endsOf 0 rings, s⟩, ?_, ?_⟩
  · simp only [toModel, C01.poly_set_eq, hfind, Outcome.bind_ok]
  · simp only [encode, hl, Bool.not_true, Bool.false_eq_true, if_false, Prod.mk.injEq, and_true]
    have hr := writeRings_eq ndr l.stride hs [] [] rings hall
    simp only [List.nil_append, List.append_nil, List.length_nil] at hr
    simp only [WGeom.depth, writeWkb, WGeom.layoutOf, hl0, if_false, ho, WGeom.typeID,
      polygonID, writeFlatCoords2, hr, wSeq_ok, wOk, endsOf_length, u32Bytes_eq_w32]
    simp only [encPoly, ← hh, List.append_assoc, u32Bytes_eq_w32, wSeq]

/-- **Count fields and type codes decode back** in both byte orders, leaving the stream
positioned exactly after them. -/
theorem C03_u32_roundtrip (ndr : Bool) (n : Nat) (hn : n < 4294967296) (rest : List Byte) :
    readU32 ndr (u32Bytes ndr n ++ rest) = .ok (n, rest) := by
  rw [readU32_u32Bytes, Nat.mod_eq_of_lt hn]

/-- **Stream chunking**: io.ReadFull over a reader that delivers its data in arbitrary pieces
(including zero-length reads) obtains exactly the first `n` bytes of the concatenation and
leaves exactly the rest: what the decoders see does not depend on how the reader splits. -/
theorem C03_stream_chunking (n : Nat) (chunks : List (List Byte)) :
    (readFullChunks n chunks).1 = chunks.flatten.take n ∧
    (readFullChunks n chunks).2.2.flatten = chunks.flatten.drop n :=
  ⟨(readFullChunks_spec n chunks).1, (readFullChunks_spec n chunks).2.1⟩

/-- **Writer faults**: sequencing of writes never reports success after a failed write, and what
was emitted is a prefix of the complete encoding. -/
theorem C03_writer_fault_prefix (a : WR) (b : Unit → WR) :
    ((wSeq a b).2 = none → a.2 = none ∧ (b ()).2 = none) ∧
    (∃ t, (wSeq a b).1 = a.1 ++ t) := by
  unfold wSeq
  cases h : a.2 with
  | some e => simp [h]
  | none => simp [h]


/-! ### Decoding what was encoded -/

/-- **WKB LineString round trip**: reading the reference encoding (= what the library writes, by
`C03_wkb_lineString_eq_spec`) of any coordinate list in any encodable layout and either byte order
yields exactly that LineString — same layout, same structure, every ordinate bit for bit — consumes
exactly the encoding (any trailing bytes are left for the next geometry) and allocates exactly the
coordinates. WKB proper carries no SRID, so the result's SRID is 0. -/
theorem C03_wkb_lineString_roundtrip (ndr nan : Bool) (l : Layout) (hl : encodable l = true) (s : Int)
    (cs : List (List Ord)) (hall : ∀ c ∈ cs, c.length = l.stride) (hn : cs.length < 4294967296)
    (rest : List Byte) (fuel a : Nat) :
    readGeom false nan {} (fuel + 1) ⟨encLine (.wkb nan) ndr l s cs ++ rest, a⟩
      = .ok (.lineString ⟨l, l.stride, cs.flatten, 0⟩, ⟨rest, a + 2 * (cs.length * l.stride)⟩) := by
  have hflat : cs.flatten.length = cs.length * l.stride := flatten_length_of_all cs l.stride hall
  have hrd := readFlatCoords1_written {} ndr l.stride cs.length cs.flatten rest a hn hflat rfl
  rcases encodable_cases l hl with rfl | rfl | rfl | rfl <;> cases ndr <;>
    simp [readGeom, encLine, header, wCoords_eq, ← u32Bytes_eq_w32, readByte_cons, Outcome.bind_ok,
      readU32_u32Bytes, pointID, lineStringID, hrd]

/-- **WKB Polygon round trip**: ring count, rings (empty ones included) and every ordinate come
back; the end offsets are the ones SetCoords computes (`endsOf`). -/
theorem C03_wkb_polygon_roundtrip (ndr nan : Bool) (l : Layout) (hl : encodable l = true) (s : Int)
    (rings : List (List (List Ord))) (hall : ∀ c ∈ rings.flatten, c.length = l.stride)
    (hn : rings.length < 4294967296) (hnr : ∀ r ∈ rings, r.length < 4294967296)
    (rest : List Byte) (fuel a : Nat) :
    readGeom false nan {} (fuel + 1) ⟨encPoly (.wkb nan) ndr l s rings ++ rest, a⟩
      = .ok (.polygon ⟨l, l.stride, rings.flatten.flatten, endsOf 0 rings, 0⟩,
          ⟨rest, a + rings.length + 2 * (rings.flatten.length * l.stride)⟩) := by
  have hrr := readRings_written ndr l.stride rings hall hnr rest [] [] (a + rings.length)
  simp only [List.nil_append, List.length_nil] at hrr
  rcases encodable_cases l hl with rfl | rfl | rfl | rfl <;> cases ndr <;>
    simp [readGeom, encPoly, header, ← u32Bytes_eq_w32, readByte_cons, Outcome.bind_ok,
      readU32_u32Bytes, pointID, lineStringID, polygonID, readFlatCoords2, Nat.mod_eq_of_lt hn,
      exceeds, hrr]

/-- **WKB Point round trip**: the ordinates come back bit for bit (in NaN mode a point whose
ordinates are all the canonical NaN is the EMPTY point, by definition of that mode). -/
theorem C03_wkb_point_roundtrip (ndr nan : Bool) (l : Layout) (hl : encodable l = true) (s : Int)
    (c : List Ord) (hc : c.length = l.stride) (rest : List Byte) (fuel a : Nat) :
    readGeom false nan {} (fuel + 1) ⟨header (.wkb nan) ndr 1 l s ++ wCoord ndr c ++ rest, a⟩
      = .ok (.point (if nan then pointMaybeEmpty l c else ⟨l, l.stride, c, 0⟩),
          ⟨rest, a + 2 * l.stride⟩) := by
  have hrd := readFloats_writeFloats ndr c rest
  rw [hc] at hrd
  rcases encodable_cases l hl with rfl | rfl | rfl | rfl <;> cases ndr <;> cases nan <;>
    simp [readGeom, header, ← u32Bytes_eq_w32, ← writeFloats_eq_wCoord, readByte_cons,
      Outcome.bind_ok, readU32_u32Bytes, pointID, hrd, pointMaybeEmpty] <;>
    (split <;> rfl)

/-- **EWKB LineString round trip**, with and without an SRID in [0, 2³²): layout flags, SRID word,
count and ordinates decode to the same LineString with the same SRID. -/
theorem C03_ewkb_lineString_roundtrip (ndr : Bool) (l : Layout) (hl : encodable l = true) (s : Int)
    (hs0 : 0 ≤ s) (hs1 : s < 4294967296)
    (cs : List (List Ord)) (hall : ∀ c ∈ cs, c.length = l.stride) (hn : cs.length < 4294967296)
    (rest : List Byte) (fuel a : Nat) :
    readGeom true false {} (fuel + 1) ⟨encLine .ewkb ndr l s cs ++ rest, a⟩
      = .ok (.lineString ⟨l, l.stride, cs.flatten, s⟩, ⟨rest, a + 2 * (cs.length * l.stride)⟩) := by
  have hflat : cs.flatten.length = cs.length * l.stride := flatten_length_of_all cs l.stride hall
  have hrd := readFlatCoords1_written {} ndr l.stride cs.length cs.flatten rest a hn hflat rfl
  have hsn : s.toNat < 4294967296 := by omega
  have hst : (s.toNat : Int) = s := Int.toNat_of_nonneg hs0
  by_cases h0 : s = 0
  · subst h0
    rcases encodable_cases l hl with rfl | rfl | rfl | rfl <;> cases ndr <;>
      simp [readGeom, encLine, header, hasZ, hasM, wCoords_eq, ← u32Bytes_eq_w32, readByte_cons,
        Outcome.bind_ok, readU32_u32Bytes, pointID, lineStringID, ewkbZ, ewkbM, ewkbSRID, hrd]
  · rcases encodable_cases l hl with rfl | rfl | rfl | rfl <;> cases ndr <;>
      simp [readGeom, encLine, header, hasZ, hasM, h0, wCoords_eq, ← u32Bytes_eq_w32, readByte_cons,
        Outcome.bind_ok, readU32_u32Bytes, pointID, lineStringID, ewkbZ, ewkbM, ewkbSRID,
        Nat.mod_eq_of_lt hsn, hst, hrd]

/-- **decode ∘ encode = id (WKB LineString)**: the bytes the library model writes for a LineString
decode, through the library model's reader, to the same LineString (SRID 0: WKB proper has none),
with nothing left over. Composition of `C03_wkb_lineString_eq_spec` and the round trip above. -/
theorem C03_wkb_lineString_read_write (ndr nan : Bool) (l : Layout) (hl : encodable l = true)
    (s : Int) (cs : List (List Ord)) (hall : ∀ c ∈ cs, c.length = l.stride)
    (hn : cs.length < 4294967296) :
    ∃ g, toModel (.lineString l s cs) = .ok g ∧ (writeWkb ndr nan g.depth g).2 = none ∧
      readWkb nan {} (writeWkb ndr nan g.depth g).1
        = .ok (setSrid g 0, ⟨[], 2 * (cs.length * l.stride)⟩) := by
  obtain ⟨g, hg, hw⟩ := C03_wkb_lineString_eq_spec ndr nan l hl s cs hall
  have hw1 : writeWkb ndr nan g.depth g = (encLine (.wkb nan) ndr l s cs, none) := (Prod.mk.inj hw).1
  refine ⟨g, hg, by rw [hw1], ?_⟩
  have hfind : cs.find? (badLen l.stride) = none := by
    rw [List.find?_eq_none]; intro c hc; simp [badLen, hall c hc]
  have hgeq : g = .lineString ⟨l, l.stride, cs.flatten, s⟩ := by
    simp only [toModel, C01.line_set_eq, hfind, Outcome.bind_ok] at hg
    exact (Outcome.ok.inj hg).symm
  have := C03_wkb_lineString_roundtrip ndr nan l hl s cs hall hn [] (encLine (.wkb nan) ndr l s cs).length 0
  rw [hw1, readWkb]
  simp only [List.append_nil, Nat.zero_add] at this
  rw [this, hgeq]; rfl

/-- **decode ∘ encode = id (WKB Polygon)**. -/
theorem C03_wkb_polygon_read_write (ndr nan : Bool) (l : Layout) (hl : encodable l = true)
    (s : Int) (rings : List (List (List Ord))) (hall : ∀ c ∈ rings.flatten, c.length = l.stride)
    (hn : rings.length < 4294967296) (hnr : ∀ r ∈ rings, r.length < 4294967296) :
    ∃ g, toModel (.polygon l s rings) = .ok g ∧ (writeWkb ndr nan g.depth g).2 = none ∧
      readWkb nan {} (writeWkb ndr nan g.depth g).1
        = .ok (setSrid g 0, ⟨[], rings.length + 2 * (rings.flatten.length * l.stride)⟩) := by
  obtain ⟨g, hg, hw⟩ := C03_wkb_polygon_eq_spec ndr nan l hl s rings hall
  have hw1 : writeWkb ndr nan g.depth g = (encPoly (.wkb nan) ndr l s rings, none) := (Prod.mk.inj hw).1
  refine ⟨g, hg, by rw [hw1], ?_⟩
  have hfind : rings.flatten.find? (badLen l.stride) = none := by
    rw [List.find?_eq_none]; intro c hc; simp [badLen, hall c hc]
  have hgeq : g = .polygon ⟨l, l.stride, rings.flatten.flatten, endsOf 0 rings, s⟩ := by
    simp only [toModel, C01.poly_set_eq, hfind, Outcome.bind_ok] at hg
    exact (Outcome.ok.inj hg).symm
  have := C03_wkb_polygon_roundtrip ndr nan l hl s rings hall hn hnr []
    (encPoly (.wkb nan) ndr l s rings).length 0
  rw [hw1, readWkb]
  simp only [List.append_nil, Nat.zero_add] at this
  rw [this, hgeq]; rfl

/-- Non-vacuity: big-endian XYZ polygon with an empty second ring. -/
example : (writeWkb false false 2 (.polygon ⟨2, 3, [1, 2, 3], [3, 3], 0⟩)).2 = none ∧
    (writeWkb false false 2 (.polygon ⟨2, 3, [1, 2, 3], [3, 3], 0⟩)).1.take 13
      = [0, 0, 0, 3, 235, 0, 0, 0, 2, 0, 0, 0, 1] := by decide

/-- Non-vacuity of the round trips: a little-endian XYM LineString of two points followed by a
trailing byte decodes to itself and leaves the byte. -/
example : readGeom false false {} 100 ⟨encLine (.wkb false) true 3 0 [[1, 2, 3], [4, 5, 6]] ++ [9], 0⟩
    = .ok (.lineString ⟨3, 3, [1, 2, 3, 4, 5, 6], 0⟩, ⟨[9], 12⟩) := by
  have := C03_wkb_lineString_roundtrip true false 3 (by decide) 0 [[1, 2, 3], [4, 5, 6]]
    (by decide) (by decide) [9] 99 0
  have hs : Layout.stride 3 = 3 := by decide
  simpa [hs] using this

end GeomVerif.Wkb
