/-
C04 — binary decoders: total (no panic) on every byte string, limit checks precede
allocation, decoded LineStrings / Polygons are well formed.
Proved over the reader model for every input, byte order, stride and limit setting.
Decided per explored input (oracle + correspondence): well-formedness and canonical
re-encoding of the recursive types, the measured allocation of the real decoder.
-/
import GeomVerif.Lemmas.Wkb
import GeomVerif.Spec.WellFormed

namespace GeomVerif.Wkb
open GeomVerif

/-! ### Limit checks come before any allocation -/

/-- A count above the level-1 limit is rejected with ErrGeometryTooLarge{1, n, limit} and the
allocation counter is untouched: nothing proportional to the forged count is reserved. -/
theorem C04_limit1_rejects (lim : Limits) (ndr : Bool) (stride n L : Nat) (rest : List Byte)
    (a : Nat) (hL : lim.l1 = some L) (hn : L < n) (hn32 : n < 4294967296) :
    readFlatCoords1 lim ndr stride ⟨u32Bytes ndr n ++ rest, a⟩ = .err (.tooLarge 1 n L) := by
  unfold readFlatCoords1
  rw [readU32_u32Bytes, Nat.mod_eq_of_lt hn32]
  simp [exceeds, hL, hn]

/-- Same at level 2 (ring / linestring count): rejected before `make([]int, n)`. -/
theorem C04_limit2_rejects (lim : Limits) (ndr : Bool) (stride n L : Nat) (rest : List Byte)
    (a : Nat) (hL : lim.l2 = some L) (hn : L < n) (hn32 : n < 4294967296) :
    readFlatCoords2 lim ndr stride ⟨u32Bytes ndr n ++ rest, a⟩ = .err (.tooLarge 2 n L) := by
  unfold readFlatCoords2
  rw [readU32_u32Bytes, Nat.mod_eq_of_lt hn32]
  simp [exceeds, hL, hn]

/-- With a level-1 limit `L`, one coordinate-array read reserves at most `2·L·stride` elements,
whatever count the input claims and whether or not the data follows. -/
theorem C04_alloc_bound_coords1 (lim : Limits) (ndr : Bool) (stride L : Nat) (s s' : RS)
    (fs : List Ord) (hL : lim.l1 = some L)
    (h : readFlatCoords1 lim ndr stride s = .ok (fs, s')) :
    s'.alloc ≤ s.alloc + 2 * (L * stride) := by
  unfold readFlatCoords1 at h
  cases hr : readU32 ndr s.rest with
  | err e => rw [hr] at h; simp at h
  | panic m => rw [hr] at h; simp at h
  | ok p =>
    obtain ⟨n, rest⟩ := p
    rw [hr] at h
    simp only [Outcome.bind_ok] at h
    by_cases hx : exceeds lim.l1 n = true
    · rw [if_pos hx] at h; cases h
    · rw [if_neg hx] at h
      have hn : n ≤ L := by
        simp only [exceeds, hL, decide_eq_true_eq] at hx; omega
      cases hf : readFloats ndr (n * stride) rest with
      | err e => rw [hf] at h; simp at h
      | panic m => rw [hf] at h; simp at h
      | ok q =>
        rw [hf] at h
        simp only [Outcome.bind_ok, Outcome.ok.injEq, Prod.mk.injEq] at h
        obtain ⟨_, rfl⟩ := h
        simp only
        have : n * stride ≤ L * stride := Nat.mul_le_mul_right _ hn
        omega

/-! ### Decoded values are well formed -/

theorem chunk8_length (n : Nat) (bs : List Byte) : (chunk8 n bs).length = n := by
  induction n generalizing bs with
  | zero => rfl
  | succ n ih => simp [chunk8, ih]

theorem readFloats_length (ndr : Bool) (n : Nat) (bs : List Byte) (fs : List Ord) (rest : List Byte)
    (h : readFloats ndr n bs = .ok (fs, rest)) : fs.length = n := by
  unfold readFloats at h
  cases hr : readFull (8 * n) bs with
  | err e => rw [hr] at h; simp at h
  | panic m => rw [hr] at h; simp at h
  | ok p =>
    rw [hr] at h
    simp only [Outcome.bind_ok, Outcome.ok.injEq, Prod.mk.injEq] at h
    rw [← h.1]; simp [chunk8_length]

theorem readFlatCoords1_length (lim : Limits) (ndr : Bool) (stride : Nat) (s s' : RS)
    (fs : List Ord) (h : readFlatCoords1 lim ndr stride s = .ok (fs, s')) :
    ∃ n, fs.length = n * stride := by
  unfold readFlatCoords1 at h
  cases hr : readU32 ndr s.rest with
  | err e => rw [hr] at h; simp at h
  | panic m => rw [hr] at h; simp at h
  | ok p =>
    obtain ⟨n, rest⟩ := p
    rw [hr] at h
    simp only [Outcome.bind_ok] at h
    by_cases hx : exceeds lim.l1 n = true
    · rw [if_pos hx] at h; cases h
    · rw [if_neg hx] at h
      cases hf : readFloats ndr (n * stride) rest with
      | err e => rw [hf] at h; simp at h
      | panic m => rw [hf] at h; simp at h
      | ok q =>
        obtain ⟨fs', rest'⟩ := q
        rw [hf] at h
        simp only [Outcome.bind_ok, Outcome.ok.injEq, Prod.mk.injEq] at h
        exact ⟨n, by rw [← h.1]; exact readFloats_length ndr _ rest fs' rest' hf⟩

/-- Every decoded LineString holds a whole number of coordinates of its layout. -/
theorem C04_lineString_wellFormed (lim : Limits) (ndr : Bool) (l : Layout) (srid : Int)
    (s s' : RS) (fs : List Ord) (h : readFlatCoords1 lim ndr l.stride s = .ok (fs, s')) :
    (⟨l, l.stride, fs, srid⟩ : G1 Ord).wellFormed = true := by
  obtain ⟨n, hn⟩ := readFlatCoords1_length lim ndr l.stride s s' fs h
  simp only [G1.wellFormed, beq_self_eq_true, Bool.true_and, hn]
  exact aligned_mul _ _

/-- The ring loop keeps: flat a whole number of coordinates, ends aligned, non-decreasing and
finishing at the end of the coordinates. -/
theorem readRings_wellFormed (lim : Limits) (ndr : Bool) (stride : Nat) (k : Nat) :
    ∀ (flat : List Ord) (ends : List Nat) (s : RS) (flat' : List Ord) (ends' : List Nat) (s' : RS)
      (off : Nat),
      aligned stride flat.length = true → endsOK stride ends off flat.length = true →
      (ends = [] → off = flat.length) →
      readRings lim ndr stride k flat ends s = .ok (flat', ends', s') →
      aligned stride flat'.length = true ∧ endsOK stride ends' off flat'.length = true := by
  induction k with
  | zero =>
    intro flat ends s flat' ends' s' off ha he _ h
    simp only [readRings, Outcome.ok.injEq, Prod.mk.injEq] at h
    obtain ⟨rfl, rfl, _⟩ := h
    exact ⟨ha, he⟩
  | succ k ih =>
    intro flat ends s flat' ends' s' off ha he hnil h
    simp only [readRings] at h
    cases hr : readFlatCoords1 lim ndr stride s with
    | err e => rw [hr] at h; simp at h
    | panic m => rw [hr] at h; simp at h
    | ok p =>
      obtain ⟨fs, s1⟩ := p
      rw [hr] at h
      simp only [Outcome.bind_ok] at h
      obtain ⟨n, hn⟩ := readFlatCoords1_length lim ndr stride s s1 fs hr
      have ha' : aligned stride (flat ++ fs).length = true := by
        rw [List.length_append]; exact aligned_add _ _ _ ha (by rw [hn]; exact aligned_mul _ _)
      refine ih (flat ++ fs) (ends ++ [(flat ++ fs).length]) s1 flat' ends' s' off ha' ?_ ?_ h
      · -- appending the new end keeps the chain valid
        clear h ih hr
        induction ends generalizing off with
        | nil =>
          have := hnil rfl
          subst this
          have ha2 := ha'
          rw [List.length_append] at ha2
          simp [endsOK, ha2, List.length_append]
        | cons e es ihe =>
          simp only [endsOK, Bool.and_eq_true, decide_eq_true_eq] at he
          simp only [List.cons_append, endsOK, he.1.1, he.1.2, decide_true, Bool.true_and]
          cases es with
          | nil =>
            simp only [endsOK, beq_iff_eq] at he
            have ha2 := ha'
            rw [List.length_append] at ha2
            simp [endsOK, ha2, he.2, List.length_append]
          | cons e2 es2 => exact ihe e he.2 (by simp)
      · intro hc; simp at hc

/-- Every decoded Polygon is structurally well formed (C01's wording), whatever the input. -/
theorem C04_polygon_wellFormed (lim : Limits) (ndr : Bool) (l : Layout) (srid : Int)
    (s s' : RS) (fs : List Ord) (ends : List Nat)
    (h : readFlatCoords2 lim ndr l.stride s = .ok (fs, ends, s')) :
    (⟨l, l.stride, fs, ends, srid⟩ : G2 Ord).wellFormed = true := by
  unfold readFlatCoords2 at h
  cases hr : readU32 ndr s.rest with
  | err e => rw [hr] at h; simp at h
  | panic m => rw [hr] at h; simp at h
  | ok p =>
    obtain ⟨n, rest⟩ := p
    rw [hr] at h
    simp only [Outcome.bind_ok] at h
    by_cases hx : exceeds lim.l2 n = true
    · rw [if_pos hx] at h; cases h
    · rw [if_neg hx] at h
      have := readRings_wellFormed lim ndr l.stride n [] [] _ fs ends s' 0
        (by simp [aligned]) (by simp [endsOK]) (by simp) h
      simp [G2.wellFormed, this.1, this.2]

end GeomVerif.Wkb

namespace GeomVerif.Wkb
open GeomVerif

/-! ### Totality: no input makes the decoders panic -/

/-- "does not panic" -/
def NP {β : Type} (x : Outcome β) : Prop := x.isPanic = false

theorem np_ok {β} (b : β) : NP (Outcome.ok b) := rfl
theorem np_err {β} (e : Err) : NP (Outcome.err e : Outcome β) := rfl
theorem np_bind {β γ} {x : Outcome β} {f : β → Outcome γ} (hx : NP x) (hf : ∀ b, NP (f b)) :
    NP (x >>= f) := by
  cases x with
  | ok b => exact hf b
  | err e => rfl
  | panic m => exact absurd hx (by simp [NP, Outcome.isPanic])

theorem np_ite {β} {c : Prop} [Decidable c] {a b : Outcome β} (ha : NP a) (hb : NP b) :
    NP (if c then a else b) := by
  split <;> assumption

theorem np_readFull (n : Nat) (bs : List Byte) : NP (readFull n bs) := by
  unfold readFull
  exact np_ite (np_ok _) (np_ite (np_err _) (np_ite (np_err _) (np_ok _)))
theorem np_readByte (bs : List Byte) : NP (readByte bs) :=
  np_bind (np_readFull _ _) fun _ => np_ok _
theorem np_readU32 (ndr : Bool) (bs : List Byte) : NP (readU32 ndr bs) :=
  np_bind (np_readFull _ _) fun _ => np_ok _
theorem np_readFloats (ndr : Bool) (n : Nat) (bs : List Byte) : NP (readFloats ndr n bs) :=
  np_bind (np_readFull _ _) fun _ => np_ok _

theorem np_readFlatCoords1 (lim : Limits) (ndr : Bool) (stride : Nat) (s : RS) :
    NP (readFlatCoords1 lim ndr stride s) := by
  unfold readFlatCoords1
  refine np_bind (np_readU32 _ _) fun p => ?_
  exact np_ite (np_err _) (np_bind (np_readFloats _ _ _) fun _ => np_ok _)

theorem np_readRings (lim : Limits) (ndr : Bool) (stride k : Nat) :
    ∀ (flat : List Ord) (ends : List Nat) (s : RS), NP (readRings lim ndr stride k flat ends s) := by
  induction k with
  | zero => intro _ _ _; exact np_ok _
  | succ k ih =>
    intro flat ends s
    unfold readRings
    exact np_bind (np_readFlatCoords1 _ _ _ _) fun _ => ih _ _ _

theorem np_readFlatCoords2 (lim : Limits) (ndr : Bool) (stride : Nat) (s : RS) :
    NP (readFlatCoords2 lim ndr stride s) := by
  unfold readFlatCoords2
  refine np_bind (np_readU32 _ _) fun p => ?_
  exact np_ite (np_err _) (np_readRings _ _ _ _ _ _ _)

theorem np_mpointPush (g : G2 Ord) (p : G1 Ord) : NP (MPoint.push g p) := by
  unfold MPoint.push; exact np_ite (np_err _) (np_ok _)
theorem np_g2Push (g : G2 Ord) (p : G1 Ord) : NP (g.push p) := by
  unfold G2.push; exact np_ite (np_err _) (np_ok _)
theorem np_g3Push (g : G3 Ord) (p : G2 Ord) : NP (g.push p) := by
  unfold G3.push; exact np_ite (np_err _) (np_ok _)

theorem np_readFold {σ : Type} (rd : RS → Outcome (WGeom × RS)) (step : σ → WGeom → Outcome σ)
    (hrd : ∀ s, NP (rd s)) (hstep : ∀ a g, NP (step a g)) (k : Nat) :
    ∀ (a : σ) (s : RS), NP (readFold rd step k a s) := by
  induction k with
  | zero => intro _ _; exact np_ok _
  | succ k ih =>
    intro a s
    unfold readFold
    exact np_bind (hrd s) fun _ => np_bind (hstep _ _) fun _ => ih _ _

/-- **C04 totality**: for every byte string, both formats, either empty-point mode, every limit
setting and every amount of fuel, the decoder model returns a value or an error — never a panic. -/
theorem C04_total (ewkb nanMode : Bool) (lim : Limits) (fuel : Nat) :
    ∀ s : RS, NP (readGeom ewkb nanMode lim fuel s) := by
  induction fuel with
  | zero => intro s; exact np_err _
  | succ fuel ih =>
    intro s
    unfold readGeom
    refine np_bind (np_readByte _) fun p => ?_
    refine np_bind (np_ite (np_ok _) (np_ite (np_ok _) (np_err _))) fun ndr => ?_
    refine np_bind (np_readU32 _ _) fun q => ?_
    refine np_bind ?_ fun hdr => ?_
    · refine np_ite (np_ite (np_bind (np_readU32 _ _) fun _ => np_ok _) (np_ok _)) ?_
      split <;> first | exact np_ok _ | exact np_err _
    · refine np_ite (np_bind (np_readFloats _ _ _) fun _ => np_ok _) ?_
      refine np_ite (np_bind (np_readFlatCoords1 _ _ _ _) fun _ => np_ok _) ?_
      refine np_ite (np_bind (np_readFlatCoords2 _ _ _ _) fun _ => np_ok _) ?_
      refine np_ite ?_ (np_ite ?_ (np_ite ?_ (np_ite ?_ (np_err _))))
      · refine np_bind (np_readU32 _ _) fun r => np_ite (np_err _) ?_
        refine np_bind (np_readFold _ _ ih ?_ _ _ _) fun _ => np_ok _
        intro a g; split <;> first | exact np_mpointPush _ _ | exact np_err _
      · refine np_bind (np_readU32 _ _) fun r => np_ite (np_err _) ?_
        refine np_bind (np_readFold _ _ ih ?_ _ _ _) fun _ => np_ok _
        intro a g; split <;> first | exact np_g2Push _ _ | exact np_err _
      · refine np_bind (np_readU32 _ _) fun r => np_ite (np_err _) ?_
        refine np_bind (np_readFold _ _ ih ?_ _ _ _) fun _ => np_ok _
        intro a g; split <;> first | exact np_g3Push _ _ | exact np_err _
      · refine np_bind (np_readU32 _ _) fun r => np_ite (np_err _) ?_
        refine np_bind (np_readFold _ _ ih ?_ _ _ _) fun _ => np_ok _
        intro a g; exact np_ok _

/-- Corollary for the public entry points. -/
theorem C04_unmarshal_total (nanMode : Bool) (lim : Limits) (bs : List Byte) :
    NP (readWkb nanMode lim bs) ∧ NP (readEwkb lim bs) :=
  ⟨C04_total false nanMode lim _ _, C04_total true false lim _ _⟩

/-- Non-vacuity: a MultiPoint header claiming 2^32-1 members with a limit of 100 is rejected. -/
example : (match readWkb false ⟨some 100, some 100, some 100⟩ [1, 4, 0, 0, 0, 255, 255, 255, 255] with
    | .err (.tooLarge 1 4294967295 100) => true
    | _ => false) = true := by rfl

end GeomVerif.Wkb
