/-
C16 — Clone returns an equal value that shares no storage: after `clone`, ANY finite
sequence of mutations of either object (ordinate / end writes, in-place reversal or
transformation, appends with Go's in-place-if-capacity semantics, re-allocation,
new rows) is observed exactly as if the two objects were independent values.
Proved over the heap model for every capacity-growth policy `grow`.
-/
import GeomVerif.Lemmas.Heap
import GeomVerif.Model.HeapGeom

namespace GeomVerif.Heap

/-- Two objects in one heap that share no array. -/
structure Sep (h : Heap) (a b : ObjH) : Prop where
  wa : ObjWF h a
  wb : ObjWF h b
  disj : ∀ x ∈ arrays a, x ∉ arrays b

theorem Sep.symm {h : Heap} {a b : ObjH} (s : Sep h a b) : Sep h b a :=
  ⟨s.wb, s.wa, fun x hb ha => s.disj x ha hb⟩

/-- One step on the first object preserves separation, is invisible to the second object,
and is simulated by the value semantics. -/
theorem step_left (grow : Nat → Nat → Nat) {h : Heap} {a b : ObjH} (s : Sep h a b) (op : GOp)
    {h' : Heap} {a' : ObjH} (hs : stepH grow h a op = .ok (h', a')) :
    Sep h' a' b ∧ absObj h' b = absObj h b ∧ stepV (absObj h a) op = .ok (absObj h' a') := by
  have ok := stepH_ok grow h a s.wa op h' a' hs
  refine ⟨⟨ok.wf, s.wb.mono ok.ext, ?_⟩, absObj_frame ok.ext b s.wb (fun x hb ha => s.disj x ha hb),
    ok.sim⟩
  intro x hx hb
  obtain ⟨t, ht, rfl⟩ := mem_arrays.1 hx
  rcases ok.fresh t ht with h1 | h1
  · exact s.disj _ h1 hb
  · obtain ⟨u, hu, hux⟩ := mem_arrays.1 hb
    have := (s.wb.wf u hu).inb
    omega

/-- **C16 frame theorem**: for every history of mutations applied to either of two separated
objects, the heap observations coincide with running the history on two independent values. -/
theorem C16_frame (grow : Nat → Nat → Nat) (ops : List (Bool × GOp)) :
    ∀ (h : Heap) (a b : ObjH), Sep h a b →
      (absObj (runH grow h a b ops).1 (runH grow h a b ops).2.1,
       absObj (runH grow h a b ops).1 (runH grow h a b ops).2.2)
        = runV (absObj h a) (absObj h b) ops := by
  induction ops with
  | nil => intro h a b _; rfl
  | cons sop rest ih =>
    intro h a b s
    obtain ⟨side, op⟩ := sop
    cases side with
    | false =>
      simp only [runH, runV, Bool.false_eq_true, if_false]
      cases hs : stepH grow h a op with
      | ok r =>
        obtain ⟨h', a'⟩ := r
        obtain ⟨s', hb, hv⟩ := step_left grow s op hs
        simp only [hv]
        rw [ih h' a' b s', hb]
      | err e =>
        have := stepH_fail grow h a s.wa op (by rw [hs]; rfl)
        cases hv : stepV (absObj h a) op with
        | ok r => rw [hv] at this; simp [Outcome.isOk] at this
        | err _ => simp only; exact ih h a b s
        | panic _ => simp only; exact ih h a b s
      | panic m =>
        have := stepH_fail grow h a s.wa op (by rw [hs]; rfl)
        cases hv : stepV (absObj h a) op with
        | ok r => rw [hv] at this; simp [Outcome.isOk] at this
        | err _ => simp only; exact ih h a b s
        | panic _ => simp only; exact ih h a b s
    | true =>
      simp only [runH, runV, if_true]
      cases hs : stepH grow h b op with
      | ok r =>
        obtain ⟨h', b'⟩ := r
        obtain ⟨s', ha, hv⟩ := step_left grow s.symm op hs
        simp only [hv]
        rw [ih h' a b' s'.symm, ha]
      | err e =>
        have := stepH_fail grow h b s.wb op (by rw [hs]; rfl)
        cases hv : stepV (absObj h b) op with
        | ok r => rw [hv] at this; simp [Outcome.isOk] at this
        | err _ => simp only; exact ih h a b s
        | panic _ => simp only; exact ih h a b s
      | panic m =>
        have := stepH_fail grow h b s.wb op (by rw [hs]; rfl)
        cases hv : stepV (absObj h b) op with
        | ok r => rw [hv] at this; simp [Outcome.isOk] at this
        | err _ => simp only; exact ih h a b s
        | panic _ => simp only; exact ih h a b s

/-- **C16 clone theorem**: the clone of a well-formed object is equal as a value (scalars, nil-ness
of every slice, every cell), is well formed, lives entirely in arrays that did not exist before, and
is therefore separated from the original — and from every other pre-existing object. -/
theorem C16_clone (h : Heap) (a : ObjH) (wa : ObjWF h a) :
    absObj (clone h a).1 (clone h a).2 = absObj h a ∧ Sep (clone h a).1 a (clone h a).2 ∧
      ∀ x ∈ arrays (clone h a).2, h.length ≤ x := by
  obtain ⟨e, hr, hw, hn, _⟩ := cloneSlices_spec h a.slices h
    ⟨Nat.le_refl _, fun _ _ _ => rfl, fun _ _ => rfl⟩ wa.wf
  have hfresh : ∀ x ∈ arrays (clone h a).2, h.length ≤ x := by
    intro x hx
    obtain ⟨t, ht, rfl⟩ := mem_arrays.1 hx
    exact (hw t ht).2
  refine ⟨?_, ⟨wa.mono e, ⟨fun s hs => (hw s hs).1, hn⟩, ?_⟩, hfresh⟩
  · simp only [absObj, clone, hr]
  · intro x ha hb
    obtain ⟨t, ht, rfl⟩ := mem_arrays.1 ha
    have := (wa.wf t ht).inb
    have := hfresh _ hb
    omega

/-- Clone then any history: both sides behave as independent values (composition). -/
theorem C16_clone_then_mutate (grow : Nat → Nat → Nat) (h : Heap) (a : ObjH) (wa : ObjWF h a)
    (ops : List (Bool × GOp)) :
    let w := runH grow (clone h a).1 a (clone h a).2 ops
    (absObj w.1 w.2.1, absObj w.1 w.2.2) = runV (absObj h a) (absObj h a) ops := by
  obtain ⟨heq, sep, _⟩ := C16_clone h a wa
  have := C16_frame grow ops _ _ _ sep
  simp only [this, heq]
  congr 1
  exact absObj_frame (M := []) (cloneSlices_spec.cloneSlices_spec_aux h a.slices) a wa (by simp)

/-- Separation is an invariant of every history. -/
theorem runH_sep (grow : Nat → Nat → Nat) (ops : List (Bool × GOp)) :
    ∀ (h : Heap) (a b : ObjH), Sep h a b →
      Sep (runH grow h a b ops).1 (runH grow h a b ops).2.1 (runH grow h a b ops).2.2 := by
  induction ops with
  | nil => intro h a b s; exact s
  | cons sop rest ih =>
    intro h a b s
    obtain ⟨side, op⟩ := sop
    cases side with
    | false =>
      simp only [runH, Bool.false_eq_true, if_false]
      cases hs : stepH grow h a op with
      | ok r => obtain ⟨h', a'⟩ := r; exact ih h' a' b (step_left grow s op hs).1
      | err e => exact ih h a b s
      | panic m => exact ih h a b s
    | true =>
      simp only [runH, if_true]
      cases hs : stepH grow h b op with
      | ok r => obtain ⟨h', b'⟩ := r; exact ih h' a b' (step_left grow s.symm op hs).1.symm
      | err e => exact ih h a b s
      | panic m => exact ih h a b s

/-- **Geometry-level corollary**: histories of Push / Reverse / TransformInPlace / SetCoords /
direct writes through FlatCoords(), Ends(), Endss() / Bounds.Set on either of two separated
objects are observed, after every step, exactly as on two independent values. -/
theorem C16_geometry_histories (grow : Nat → Nat → Nat) (k : Kind) (ms : List (Bool × Mut)) :
    ∀ (h : Heap) (a b : ObjH), Sep h a b →
      runMutH grow k h a b ms = runMutV k (absObj h a) (absObj h b) ms := by
  induction ms with
  | nil => intro h a b _; rfl
  | cons sm rest ih =>
    intro h a b s
    obtain ⟨side, m⟩ := sm
    simp only [runMutH, runMutV]
    have hf := C16_frame grow ((compile k (if side = true then absObj h b else absObj h a) m).map
      fun op => (side, op)) h a b s
    have hsep := runH_sep grow ((compile k (if side = true then absObj h b else absObj h a) m).map
      fun op => (side, op)) h a b s
    rw [ih _ _ _ hsep]
    rw [← hf]

/-- Non-vacuity: a polygon-like object [flat, ends] with spare capacity in `flat`
(the configuration in which a shallow copy would be observable through an in-place append). -/
example :
    let h : Heap := [[1, 2, 3, 4, 0, 0], [4]]
    let a : ObjH := ⟨[1, 2, 0], [some ⟨0, 0, 4, 6⟩, some ⟨1, 0, 1, 1⟩]⟩
    let w := runH (fun _ n => 2 * n) (clone h a).1 a (clone h a).2
      [(true, .app 0 [7, 8]), (false, .app 0 [5, 6]), (true, .wr 0 0 9), (false, .wrAll 1 [6])]
    (absObj w.1 w.2.1).slices = [some [1, 2, 3, 4, 5, 6], some [6]] ∧
    (absObj w.1 w.2.2).slices = [some [9, 2, 3, 4, 7, 8], some [4]] := by decide

end GeomVerif.Heap
