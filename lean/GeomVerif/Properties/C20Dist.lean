/-
C20 — the distance Douglas–Peucker compares against the threshold is the distance to the segment.
`distanceFromSegmentSquared` (model: `Rdp.distSegSq`), evaluated in exact arithmetic, returns the
minimum over t ∈ [0,1] of |p − (a + t·(b − a))|²: it is at most the squared distance to every point
of the closed segment a–b and is the squared distance to one of them — for degenerate segments
(a = b) as well.  Together with `C20_threshold` (every omitted index has `dist ≤ thr²` against the
retained indexes around it) this is "every omitted point lies within the threshold distance of the
segment joining the nearest retained points", with `dist` the true point-to-segment distance.
-/
import Mathlib.Tactic.Ring
import Mathlib.Tactic.Linarith
import Mathlib.Tactic.FieldSimp
import Mathlib.Algebra.Order.Field.Basic
import GeomVerif.Properties.C15
import GeomVerif.Model.Rdp

namespace GeomVerif.Rdp
open GeomVerif GeomVerif.Dist

section exact
variable {K : Type} [Field K] [LinearOrder K] [IsStrictOrderedRing K]

/-- the field's own operations -/
def exactOps : FieldOps K where
  zero := 0
  add := (· + ·)
  sub := (· - ·)
  mul := (· * ·)
  sqrt := id
  half := (· / 2)
  div := (· / ·)
  one := 1
  lt := fun a b => decide (a < b)
  isZero := fun a => decide (a = 0)

/-- **distanceFromSegmentSquared is the squared distance to the segment**: no point of the closed
segment is nearer, and the value is attained at some parameter in [0,1]. -/
theorem C20_distSegSq_is_min (ax ay bx by_ px py : K) :
    (∀ t : K, 0 ≤ t → t ≤ 1 → distSegSq exactOps ax ay bx by_ px py ≤ f2 ax ay bx by_ px py t) ∧
    (∃ t0 : K, 0 ≤ t0 ∧ t0 ≤ 1 ∧ distSegSq exactOps ax ay bx by_ px py = f2 ax ay bx by_ px py t0) := by
  unfold distSegSq exactOps
  simp only [Bool.or_eq_true, Bool.not_eq_true', decide_eq_false_iff_not, decide_eq_true_eq]
  by_cases hdeg : bx - ax = 0 ∧ by_ - ay = 0
  · -- a = b: every parameter gives the same point
    have hn : ¬ (¬ (bx - ax = 0) ∨ ¬ (by_ - ay = 0)) := by
      rintro (h | h)
      · exact h hdeg.1
      · exact h hdeg.2
    rw [if_neg hn]
    have hc : ∀ t : K, f2 ax ay bx by_ px py t = (px - ax) * (px - ax) + (py - ay) * (py - ay) := by
      intro t; unfold f2; rw [hdeg.1, hdeg.2]; ring
    exact ⟨fun t _ _ => by rw [hc t], ⟨0, le_refl _, zero_le_one, by rw [hc 0]⟩⟩
  · have hn : ¬ (bx - ax = 0) ∨ ¬ (by_ - ay = 0) := by
      by_contra h
      rw [not_or, not_not, not_not] at h
      exact hdeg h
    rw [if_pos hn]
    have hL : 0 < (bx - ax) * (bx - ax) + (by_ - ay) * (by_ - ay) := by
      have h1 := mul_self_nonneg (bx - ax)
      have h2 := mul_self_nonneg (by_ - ay)
      rcases hn with h | h
      · have : 0 < (bx - ax) * (bx - ax) := lt_of_le_of_ne h1 (Ne.symm (mul_self_ne_zero.mpr h))
        linarith
      · have : 0 < (by_ - ay) * (by_ - ay) := lt_of_le_of_ne h2 (Ne.symm (mul_self_ne_zero.mpr h))
        linarith
    have key := fun t ht0 ht1 => C15_point_segment_2d ax ay bx by_ px py t hL ht0 ht1
    simp only at key
    generalize hr : ((px - ax) * (bx - ax) + (py - ay) * (by_ - ay)) /
      ((bx - ax) * (bx - ax) + (by_ - ay) * (by_ - ay)) = r at key ⊢
    by_cases h1 : 1 < r
    · rw [if_pos h1]
      have e : (px - bx) * (px - bx) + (py - by_) * (py - by_) = f2 ax ay bx by_ px py 1 := by unfold f2; ring
      rw [e]
      exact ⟨fun t ht0 ht1 => (key t ht0 ht1).2.1 h1.le, ⟨1, zero_le_one, le_refl _, rfl⟩⟩
    · rw [if_neg h1]
      by_cases h0 : 0 < r
      · rw [if_pos h0]
        have e : (px - (ax + (bx - ax) * r)) * (px - (ax + (bx - ax) * r)) +
            (py - (ay + (by_ - ay) * r)) * (py - (ay + (by_ - ay) * r)) = f2 ax ay bx by_ px py r := by
          unfold f2; ring
        rw [e]
        have hr1 : r ≤ 1 := not_lt.mp h1
        refine ⟨fun t ht0 ht1 => ?_, ⟨r, h0.le, hr1, rfl⟩⟩
        rcases lt_or_eq_of_le hr1 with hlt | heq
        · exact (key t ht0 ht1).2.2 h0 hlt
        · rw [heq]; exact (key t ht0 ht1).2.1 (by rw [heq])
      · rw [if_neg h0]
        have e : (px - ax) * (px - ax) + (py - ay) * (py - ay) = f2 ax ay bx by_ px py 0 := by unfold f2; ring
        rw [e]
        exact ⟨fun t ht0 ht1 => (key t ht0 ht1).1 (not_lt.mp h0), ⟨0, le_refl _, zero_le_one, rfl⟩⟩

/-- Non-vacuity: the point (1, 2) against the segment (0,0)–(4,0): foot at t = 1/4, squared distance 4;
against the degenerate segment (3,2)–(3,2): squared distance 4 as well. -/
example : distSegSq (exactOps (K := ℚ)) 0 0 4 0 1 2 = 4 ∧ distSegSq (exactOps (K := ℚ)) 3 2 3 2 1 2 = 4 := by
  constructor <;> (unfold distSegSq exactOps; norm_num)

end exact
end GeomVerif.Rdp
