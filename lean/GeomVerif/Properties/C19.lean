/-
C19 — IGC.  Proved over the decoder model:
  * record parsing is total: under the parser-state invariant (35 ≤ bRecordLen; every extension
    window lies inside the B-record length and is non-empty) no index expression of parseB /
    parseH / parseI / parseLine is out of range, for EVERY line; every record preserves the
    invariant (C19_parseLine_preserves); so every document — every line sequence, every byte
    string — is decoded without a panic (C19_document_total, C19_doParse_total: induction over
    the lines);
  * the two-digit year of HFDTE reconstructs every year of 1970..2069;
  * the civil-date ⇄ day-number functions are mutually inverse on every day of 1970-01-01 …
    2069-12-31 (36525 days, by kernel evaluation), which is what makes day / month / year /
    century roll-over in timestamps exact.
Decided per explored input (oracle): the fix round trip to format resolution.
-/
import GeomVerif.Model.Igc
import GeomVerif.Model.Calendar

namespace GeomVerif.Igc
open GeomVerif

def NP {β : Type} (x : Outcome β) : Prop := x.isPanic = false

theorem np_ok {β} (b : β) : NP (Outcome.ok b) := rfl
theorem np_err {β} (e : Err) : NP (Outcome.err e : Outcome β) := rfl
theorem np_bind {β γ} {x : Outcome β} {f : β → Outcome γ} (hx : NP x) (hf : ∀ b, NP (f b)) :
    NP (x >>= f) := by
  cases x with
  | ok b => exact hf b
  | err e => rfl
  | panic m => exact absurd hx (by simp [NP, Outcome.isPanic])
theorem np_ite {β} {c : Prop} [Decidable c] {a b : Outcome β} (ha : NP a) (hb : NP b) :
    NP (if c then a else b) := by split <;> assumption
theorem np_map {β γ} {x : Outcome β} (f : β → γ) (hx : NP x) : NP (x.map f) := by
  cases x <;> simp_all [NP, Outcome.map, Outcome.isPanic]

theorem np_byteAt (s : Bytes) (i : Nat) (h : i < s.length) : NP (byteAt s i) := by
  unfold byteAt
  rw [List.getElem?_eq_getElem h]; rfl

theorem np_decLoop (s : Bytes) (n : Nat) : ∀ (i : Nat) (acc : Int), i + n ≤ s.length →
    NP (decLoop s n i acc) := by
  induction n with
  | zero => intro _ _ _; exact np_ok _
  | succ n ih =>
    intro i acc h
    unfold decLoop
    exact np_bind (np_byteAt s i (by omega)) fun c =>
      np_ite (ih (i + 1) _ (by omega)) (np_err _)

/-- parseDec reads s[start] and the digits of s[start':stop]: safe when start < len and stop ≤ len. -/
theorem np_parseDec (s : Bytes) (start stop : Nat) (h1 : start < s.length) (h2 : stop ≤ s.length) :
    NP (parseDec s start stop) := by
  unfold parseDec
  refine np_bind (np_byteAt s start h1) fun c => ?_
  by_cases hc : c = 45
  · simp only [hc, if_true]
    exact np_bind (np_decLoop s _ _ _ (by omega)) fun _ => np_ok _
  · simp only [hc, if_false]
    exact np_bind (np_decLoop s _ _ _ (by omega)) fun _ => np_ok _

theorem np_parseDecInRange (s : Bytes) (start stop : Nat) (lo hi : Int)
    (h1 : start < s.length) (h2 : stop ≤ s.length) : NP (parseDecInRange s start stop lo hi) := by
  unfold parseDecInRange
  exact np_bind (np_parseDec s start stop h1 h2) fun _ => np_ite (np_err _) (np_ok _)

theorem np_tryE {β : Type} {x : Outcome β} {p : PState} {k : β → Outcome R} (hx : NP x)
    (hk : ∀ b, NP (k b)) : NP (tryE x p k) := by
  cases x with
  | ok b => exact hk b
  | err e => rfl
  | panic m => exact absurd hx (by simp [NP, Outcome.isPanic])

/-- Parser-state invariant: the B-record length never drops below 35 and every configured
extension window is a non-empty range inside it. -/
structure Inv (p : PState) : Prop where
  len : 35 ≤ p.bRecordLen
  tds : p.tdsStart ≠ 0 → p.tdsStart < p.tdsStop ∧ p.tdsStop ≤ p.bRecordLen
  lad : p.ladStart ≠ 0 → p.ladStart < p.ladStop ∧ p.ladStop ≤ p.bRecordLen
  lod : p.lodStart ≠ 0 → p.lodStart < p.lodStop ∧ p.lodStop ≤ p.bRecordLen

theorem inv_init : Inv {} := ⟨by decide, by simp, by simp, by simp⟩

/-- **B records never index out of range** under the invariant, whatever the line contains. -/
theorem C19_parseB_total (p : PState) (line : Bytes) (inv : Inv p) : NP (parseB p line) := by
  unfold parseB
  split
  · exact np_ok _
  · rename_i hlen
    have hl : p.bRecordLen ≤ line.length := by omega
    have h35 := inv.len
    refine np_tryE (np_parseDecInRange _ _ _ _ _ (by omega) (by omega)) fun hour => ?_
    refine np_tryE (np_parseDecInRange _ _ _ _ _ (by omega) (by omega)) fun minute => ?_
    refine np_tryE (np_parseDecInRange _ _ _ _ _ (by omega) (by omega)) fun second => ?_
    refine np_tryE ?_ fun nsec => ?_
    · split
      · rename_i h
        have := inv.tds h
        exact np_map _ (np_parseDecInRange _ _ _ _ _ (by omega) (by omega))
      · exact np_ok _
    refine np_tryE (np_parseDecInRange _ _ _ _ _ (by omega) (by omega)) fun latDeg => ?_
    refine np_tryE (np_parseDecInRange _ _ _ _ _ (by omega) (by omega)) fun latMM => ?_
    refine np_tryE ?_ fun lat1 => ?_
    · dsimp only
      split
      · rename_i h
        have := inv.lad h
        exact np_map _ (np_parseDec _ _ _ (by omega) (by omega))
      · exact np_ok _
    refine np_tryE (np_bind (np_byteAt _ _ (by omega)) fun _ =>
      np_ite (np_ok _) (np_ite (np_ok _) (np_err _))) fun lat => ?_
    refine np_tryE (np_parseDecInRange _ _ _ _ _ (by omega) (by omega)) fun lngDeg => ?_
    refine np_tryE (np_parseDecInRange _ _ _ _ _ (by omega) (by omega)) fun lngMM => ?_
    refine np_tryE ?_ fun lng1 => ?_
    · dsimp only
      split
      · rename_i h
        have := inv.lod h
        exact np_map _ (np_parseDec _ _ _ (by omega) (by omega))
      · exact np_ok _
    refine np_tryE (np_bind (np_byteAt _ _ (by omega)) fun _ =>
      np_ite (np_ok _) (np_ite (np_ok _) (np_err _))) fun lng => ?_
    refine np_tryE (np_parseDec _ _ _ (by omega) (by omega)) fun pa => ?_
    refine np_tryE (np_parseDec _ _ _ (by omega) (by omega)) fun ea => ?_
    exact np_ok _

theorem C19_parseH_total (p : PState) (m : Option HMatch) : NP (parseH p m) := by
  unfold parseH
  cases m with
  | none => exact np_ok _
  | some h =>
    simp only
    split
    · split
      · exact np_ok _
      · rename_i hlen
        refine np_tryE (np_parseDecInRange _ _ _ _ _ (by omega) (by omega)) fun _ => ?_
        refine np_tryE (np_parseDecInRange _ _ _ _ _ (by omega) (by omega)) fun _ => ?_
        refine np_tryE (np_parseDec _ _ _ (by omega) (by omega)) fun _ => np_ok _
    · exact np_ok _

/-- The extension loop of an I record: with `7·(i+n)+3 ≤ len` every read is in range. -/
theorem np_parseIExt (line : Bytes) (n : Nat) : ∀ (i : Nat) (p : PState), 7 * (i + n) + 3 ≤ line.length →
    NP (parseIExt line n i p) := by
  induction n with
  | zero => intro _ _ _; exact np_ok _
  | succ n ih =>
    intro i p h
    unfold parseIExt
    refine np_tryE (np_parseDec _ _ _ (by omega) (by omega)) fun start => ?_
    refine np_tryE (np_parseDec _ _ _ (by omega) (by omega)) fun stop => ?_
    split
    · exact np_ok _
    · have hs : slice3 line (7 * i + 7) = .ok ((line.drop (7 * i + 7)).take 3) := by
        unfold slice3; rw [if_pos (by omega)]
      rw [hs]
      exact ih (i + 1) _ (by omega)

theorem C19_parseI_total (p : PState) (line : Bytes) : NP (parseI p line) := by
  unfold parseI
  split
  · exact np_ok _
  · refine np_tryE (np_parseDec _ _ _ (by omega) (by omega)) fun n => ?_
    split
    · exact np_ok _
    · rename_i h
      apply np_parseIExt
      have : 7 * n + 3 ≤ (line.length : Int) := by omega
      have : (7 * n.toNat : Int) ≤ max (7 * n) 0 := by omega
      omega

/-- **Every record is handled without a panic** under the invariant. -/
theorem C19_parseLine_total (p : PState) (line : Bytes) (hm : Option HMatch) (inv : Inv p)
    (hne : line ≠ []) : NP (parseLine p line hm) := by
  unfold parseLine
  have : byteAt line 0 = .ok (line.head hne) := by
    cases line with
    | nil => exact absurd rfl hne
    | cons b _ => rfl
  rw [this]
  simp only
  split
  · exact C19_parseB_total p line inv
  · split
    · exact C19_parseH_total p hm
    · split
      · exact C19_parseI_total p line
      · exact np_ok _

/-! ### The invariant is preserved by every record, hence every document is decoded safely -/

/-- What a successfully handled record leaves behind satisfies the invariant. -/
def PostInv (x : Outcome R) : Prop := ∀ r, x = .ok r → Inv r.st

theorem postInv_ok {p : PState} {e : Bool} (h : Inv p) : PostInv (.ok ⟨p, e⟩) := by
  intro r hr; cases hr; exact h

theorem postInv_tryE {β : Type} {x : Outcome β} {p : PState} {k : β → Outcome R} (hp : Inv p)
    (hk : ∀ b, PostInv (k b)) : PostInv (tryE x p k) := by
  cases x with
  | ok b => exact hk b
  | err e => exact postInv_ok hp
  | panic m => intro r hr; cases hr

theorem postInv_parseB (p : PState) (line : Bytes) (inv : Inv p) : PostInv (parseB p line) := by
  unfold parseB
  split
  · exact postInv_ok inv
  · refine postInv_tryE inv fun _ => postInv_tryE inv fun _ => postInv_tryE inv fun _ =>
      postInv_tryE inv fun _ => ?_
    have inv' : ∀ d, Inv { p with day := d } := fun d => ⟨inv.len, inv.tds, inv.lad, inv.lod⟩
    simp only
    split
    all_goals
      refine postInv_tryE (inv' _) fun _ => postInv_tryE (inv' _) fun _ => postInv_tryE (inv' _) fun _ =>
        postInv_tryE (inv' _) fun _ => postInv_tryE (inv' _) fun _ => postInv_tryE (inv' _) fun _ =>
        postInv_tryE (inv' _) fun _ => postInv_tryE (inv' _) fun _ => postInv_tryE (inv' _) fun _ =>
        postInv_tryE (inv' _) fun _ => ?_
      exact postInv_ok ⟨inv.len, inv.tds, inv.lad, inv.lod⟩

theorem postInv_parseH (p : PState) (m : Option HMatch) (inv : Inv p) : PostInv (parseH p m) := by
  unfold parseH
  cases m with
  | none => exact postInv_ok inv
  | some h =>
    have inv' : Inv { p with headers := p.headers + 1 } := ⟨inv.len, inv.tds, inv.lad, inv.lod⟩
    simp only
    split
    · split
      · exact postInv_ok inv'
      · refine postInv_tryE inv' fun _ => postInv_tryE inv' fun _ => postInv_tryE inv' fun _ => ?_
        exact postInv_ok ⟨inv.len, inv.tds, inv.lad, inv.lod⟩
    · exact postInv_ok inv'

theorem postInv_parseIExt (line : Bytes) (n : Nat) : ∀ (i : Nat) (p : PState), Inv p →
    PostInv (parseIExt line n i p) := by
  induction n with
  | zero => intro i p inv; exact postInv_ok inv
  | succ n ih =>
    intro i p inv
    unfold parseIExt
    refine postInv_tryE inv fun start => postInv_tryE inv fun stop => ?_
    split
    · exact postInv_ok inv
    · rename_i hcond
      simp only [Bool.or_eq_true, decide_eq_true_eq, not_or, Decidable.not_not, Int.not_lt] at hcond
      obtain ⟨hstart, hstop⟩ := hcond
      split
      · intro r hr; cases hr
      · exact postInv_ok inv
      · apply ih
        have h1 : start.toNat = p.bRecordLen + 1 := by omega
        have h2 : p.bRecordLen + 1 ≤ stop.toNat := by omega
        have hl := inv.len
        split
        · exact ⟨by simp; omega,
            fun h => by have := inv.tds h; simp at *; omega,
            fun _ => by simp; omega,
            fun h => by have := inv.lod h; simp at *; omega⟩
        · split
          · exact ⟨by simp; omega,
              fun h => by have := inv.tds h; simp at *; omega,
              fun h => by have := inv.lad h; simp at *; omega,
              fun _ => by simp; omega⟩
          · split
            · exact ⟨by simp; omega,
                fun _ => by simp; omega,
                fun h => by have := inv.lad h; simp at *; omega,
                fun h => by have := inv.lod h; simp at *; omega⟩
            · exact ⟨by simp; omega,
                fun h => by have := inv.tds h; simp at *; omega,
                fun h => by have := inv.lad h; simp at *; omega,
                fun h => by have := inv.lod h; simp at *; omega⟩

theorem postInv_parseI (p : PState) (line : Bytes) (inv : Inv p) : PostInv (parseI p line) := by
  unfold parseI
  split
  · exact postInv_ok inv
  · refine postInv_tryE inv fun n => ?_
    split
    · exact postInv_ok inv
    · exact postInv_parseIExt line _ 0 p inv

/-- **Every record preserves the invariant.** -/
theorem C19_parseLine_preserves (p : PState) (line : Bytes) (hm : Option HMatch) (inv : Inv p) :
    PostInv (parseLine p line hm) := by
  unfold parseLine
  split
  · intro r hr; cases hr
  · exact postInv_ok inv
  · split
    · exact postInv_parseB p line inv
    · split
      · exact postInv_parseH p hm inv
      · split
        · exact postInv_parseI p line inv
        · exact postInv_ok inv

/-- One line of a document: no panic, and the parser state still satisfies the invariant. -/
theorem docLine_safe (d : Doc) (line : Bytes) (hm : Option HMatch) (inv : Inv d.st) :
    NP (docLine d line hm) ∧ ∀ d', docLine d line hm = .ok d' → Inv d'.st := by
  unfold docLine
  by_cases he : line.isEmpty = true
  · simp only [he, if_true]
    exact ⟨np_ok _, fun d' h => by cases h; exact inv⟩
  · have hne : line ≠ [] := by intro e; rw [e] at he; simp at he
    simp only [he, Bool.false_eq_true, if_false]
    split
    · have hnp := C19_parseLine_total d.st line hm inv hne
      have hpi := C19_parseLine_preserves d.st line hm inv
      cases hpl : parseLine d.st line hm with
      | ok r => exact ⟨np_ok _, fun d' h => by cases h; exact hpi r hpl⟩
      | err e => exact ⟨np_ok _, fun d' h => by cases h; exact inv⟩
      | panic m => rw [hpl] at hnp; exact absurd hnp (by simp [NP, Outcome.isPanic])
    · refine ⟨?_, ?_⟩
      · repeat' split
        all_goals exact np_ok _
      · intro d' h
        repeat' split at h
        all_goals (cases h; exact inv)

/-- **Every document is decoded without a panic**: for every sequence of lines (any bytes, any
forged I records, truncated or over-long B records) and whatever the H expression matches, the
decoder returns; the invariant holds after every line. -/
theorem C19_document_total (hms : Bytes → Option HMatch) (lines : List Bytes) :
    ∀ d : Doc, Inv d.st → NP (lines.foldlM (fun d line => docLine d line (hms line)) d) := by
  induction lines with
  | nil => intro d _; exact np_ok _
  | cons line rest ih =>
    intro d inv
    rw [List.foldlM_cons]
    obtain ⟨h1, h2⟩ := docLine_safe d line (hms line) inv
    cases hd : docLine d line (hms line) with
    | ok d' => exact ih d' (h2 d' hd)
    | err e => rfl
    | panic m => rw [hd] at h1; exact absurd h1 (by simp [NP, Outcome.isPanic])

theorem C19_doParse_total (data : Bytes) (hms : Bytes → Option HMatch) : NP (doParse data hms) :=
  C19_document_total hms _ {} inv_init

/-- **The two-digit year window**: the decoder's rule (yy < 70 → 20yy, else 19yy) inverts the
encoder's `year % 100` on every year 1970..2069. -/
theorem C19_year_window : ∀ y : Fin 100,
    (let year : Int := 1970 + y.val
     let yy := year % 100
     (if yy < 70 then 2000 + yy else 1900 + yy) = year) := by decide

theorem daysFromCivil_ordinary (a b c : Int)
    (h : 1 ≤ a ∧ a ≤ 9999 ∧ 1 ≤ b ∧ b ≤ 12 ∧ 1 ≤ c ∧ c ≤ 31) :
    daysFromCivil a b c = (Calendar.daysSinceEra a.toNat b.toNat c.toNat : Int) - 719468 := by
  unfold daysFromCivil
  rw [if_pos h]

theorem daysFromCivil_window (n y m d : Nat) (hy1 : 1970 ≤ y) (hy2 : y ≤ 2069)
    (hm1 : 1 ≤ m) (hm2 : m ≤ 12) (hd1 : 1 ≤ d) (hd2 : d ≤ 31)
    (hd : Calendar.daysSinceEra y m d = n + 719468) :
    daysFromCivil (y : Int) (m : Int) (d : Int) = n := by
  rw [daysFromCivil_ordinary _ _ _ (by omega)]
  rw [Int.toNat_natCast, Int.toNat_natCast, Int.toNat_natCast]
  omega

theorem civilFromDays_nonneg (n : Nat) :
    civilFromDays (n : Int) = (((Calendar.civilN n).1 : Int), ((Calendar.civilN n).2.1 : Int),
      ((Calendar.civilN n).2.2 : Int)) := by
  simp [civilFromDays]

/-- **Calendar bijection on the whole window**: for each of the 36525 days 1970-01-01 …
2069-12-31 the civil date (y, m, d) the model computes is valid, lies in the window, and the
model's date → day-number function maps it back to the same day number.  (All 36525 cases are
evaluated by the kernel in `Calendar.calendar_window`; the model uses those formulas here.) -/
theorem C19_calendar_window (n : Nat) (h : n < 36525) :
    ∃ y m d : Nat, civilFromDays (n : Int) = ((y : Int), (m : Int), (d : Int)) ∧
      daysFromCivil y m d = n ∧ 1970 ≤ y ∧ y ≤ 2069 ∧ 1 ≤ m ∧ m ≤ 12 ∧ 1 ≤ d ∧ d ≤ 31 := by
  have hn := Calendar.calendar_window n h
  simp only [Calendar.dayOK, Bool.and_eq_true, beq_iff_eq, decide_eq_true_eq] at hn
  obtain ⟨hd, hm1, hm2, hd1, hd2, hy1, hy2⟩ := hn
  exact ⟨_, _, _, civilFromDays_nonneg n,
    daysFromCivil_window n _ _ _ hy1 hy2 hm1 hm2 hd1 hd2 hd, hy1, hy2, hm1, hm2, hd1, hd2⟩

/-- Non-vacuity: the initial parser state satisfies the invariant and a B record of exactly 35
bytes is long enough for it. -/
example : Inv {} ∧ ({} : PState).bRecordLen = 35 := ⟨inv_init, rfl⟩

end GeomVerif.Igc
