/-
C11 — Devillers' SignOfDet2x2 is exact, and with it LocatePointInRing is the even-odd rule with
no hypothesis left about the determinant routine.

In every linearly ordered field with a floor (ℚ in particular), for entries whose first column
lies on a lattice g·ℤ (any finite set of rationals does) and fuel at least the larger lattice
index, the routine — zero tests, the eight-way permutation that makes 0 < y1 ≤ y2, the sign
analysis of the x entries, and the Euclidean main loop with all of its early returns — returns
the sign of x1·y2 − x2·y1.  The loop's invariant: all four entries positive, the determinant of
the current rows is ± the original (the carried sign says which), and the lattice index of x1
strictly decreases from one iteration to the next, which is also why the Go loop (`for {}` with
no bound) terminates.  The model's fuel is therefore never exhausted when it is at least that index.
-/
import Mathlib.Tactic.Ring
import Mathlib.Tactic.NormNum
import Mathlib.Tactic.Linarith
import Mathlib.Tactic.Positivity
import Mathlib.Tactic.FieldSimp
import Mathlib.Algebra.Order.Floor.Ring
import Mathlib.Data.Rat.Floor
import GeomVerif.Properties.C11Fold

namespace GeomVerif.Locate

section dev
variable {K : Type} [Field K] [LinearOrder K] [IsStrictOrderedRing K] [FloorRing K]

structure LawfulDet (F : DetOps K) : Prop where
  lt : ∀ a b, F.lt a b = decide (a < b)
  sub : ∀ a b, F.sub a b = a - b
  add : ∀ a b, F.add a b = a + b
  mul : ∀ a b, F.mul a b = a * b
  div : ∀ a b, F.div a b = a / b
  floor : ∀ a, F.floor a = ((⌊a⌋ : ℤ) : K)
  isZero : ∀ a, F.isZero a = decide (a = 0)
  neg : ∀ a, F.neg a = -a
  zero : F.zero = 0

theorem sgnInt_pos {d : K} (h : 0 < d) (s : Int) : s = s * sgnInt d := by simp [sgnInt, h]
theorem sgnInt_neg {d : K} (h : d < 0) (s : Int) : -s = s * sgnInt d := by
  have : ¬ (0 < d) := not_lt.mpr h.le
  simp [sgnInt, h, this]
theorem sgnInt_zero' {d : K} (h : d = 0) (s : Int) : 0 = s * sgnInt d := by simp [sgnInt, h]

/-- Euclidean reduction of `a` by `b > 0`: the remainder is in `[0, b)`. -/
theorem red_facts (a b : K) (hb : 0 < b) :
    0 ≤ a - (⌊a / b⌋ : K) * b ∧ a - (⌊a / b⌋ : K) * b < b := by
  have h1 : (⌊a / b⌋ : K) ≤ a / b := Int.floor_le _
  have h2 : a / b < (⌊a / b⌋ : K) + 1 := Int.lt_floor_add_one _
  rw [le_div_iff₀ hb] at h1
  rw [div_lt_iff₀ hb] at h2
  constructor <;> linarith


theorem sgnInt_negArg (d : K) : sgnInt (-d) = - sgnInt d := by
  unfold sgnInt
  rcases lt_trichotomy d 0 with h | h | h
  · have h1 : 0 < -d := neg_pos.mpr h
    have h2 : ¬ (0 < d) := not_lt.mpr h.le
    simp [h, h1, h2]
  · simp [h]
  · have h1 : -d < 0 := neg_neg_of_pos h
    have h2 : ¬ (0 < -d) := not_lt.mpr h1.le
    have h3 : ¬ (d < 0) := not_lt.mpr h.le
    simp [h, h1, h2, h3]

theorem cast_lt_of_mul (g : K) (hg : 0 < g) (a b : ℤ) (h : g * (a : K) < g * (b : K)) : a < b := by
  have := lt_of_mul_lt_mul_left h hg.le
  exact_mod_cast this

/-- What the recursive call is assumed to deliver: the exact sign, for entries on the lattice
`g·ℤ` whose first entry is at most `n` lattice steps. -/
def RecOK (g : K) (n : ℤ) (rec : K → K → K → K → Int → Int) : Prop :=
  ∀ (x1 y1 x2 y2 : K) (sign : Int) (m1 m2 : ℤ), x1 = g * m1 → x2 = g * m2 →
    0 < x1 → 0 < y1 → 0 < x2 → 0 < y2 → m1 ≤ n →
    rec x1 y1 x2 y2 sign = sign * sgnInt (x1 * y2 - x2 * y1)

theorem detHalfC_correct (F : DetOps K) (hF : LawfulDet F) (g : K) (n : ℤ)
    (rec : K → K → K → K → Int → Int) (hrec : RecOK g n rec)
    (x1 y1 x2 y2 : K) (sign : Int) (m1 m2 : ℤ) (h1 : x1 = g * m1) (h2 : x2 = g * m2)
    (hx1 : 0 ≤ x1) (hy1 : 0 ≤ y1) (hx2 : 0 < x2) (hy2 : 0 < y2) (hm : m1 ≤ n) :
    detHalfC F rec x1 y1 x2 y2 sign = sign * sgnInt (x1 * y2 - x2 * y1) := by
  unfold detHalfC
  simp only [hF.isZero, decide_eq_true_eq]
  by_cases hy : y1 = 0
  · rw [if_pos hy]
    by_cases hx : x1 = 0
    · rw [if_pos hx]; exact sgnInt_zero' (by rw [hx, hy]; ring) _
    · rw [if_neg hx]
      have : 0 < x1 := lt_of_le_of_ne hx1 (Ne.symm hx)
      exact sgnInt_pos (by rw [hy]; nlinarith) _
  · rw [if_neg hy]
    have hy1' : 0 < y1 := lt_of_le_of_ne hy1 (Ne.symm hy)
    by_cases hx : x1 = 0
    · rw [if_pos hx]; exact sgnInt_neg (by rw [hx]; nlinarith) _
    · rw [if_neg hx]
      have : 0 < x1 := lt_of_le_of_ne hx1 (Ne.symm hx)
      exact hrec x1 y1 x2 y2 sign m1 m2 h1 h2 this hy1' hx2 hy2 hm


theorem detHalfB_correct (F : DetOps K) (hF : LawfulDet F) (g : K) (hg : 0 < g) (n : ℤ)
    (rec : K → K → K → K → Int → Int) (hrec : RecOK g n rec)
    (x1 y1 x2 y2 : K) (sign : Int) (m1 m2 : ℤ) (h1 : x1 = g * m1) (h2 : x2 = g * m2)
    (hx1 : 0 < x1) (hy1 : 0 < y1) (hx2 : 0 ≤ x2) (hy2 : 0 ≤ y2) (hm : m2 ≤ n + 1) :
    detHalfB F rec x1 y1 x2 y2 sign = sign * sgnInt (x1 * y2 - x2 * y1) := by
  unfold detHalfB
  simp only [hF.isZero, hF.lt, hF.sub, hF.add, hF.mul, hF.div, hF.floor, hF.zero, decide_eq_true_eq]
  by_cases hy : y2 = 0
  · rw [if_pos hy]
    by_cases hx : x2 = 0
    · rw [if_pos hx]; exact sgnInt_zero' (by rw [hx, hy]; ring) _
    · rw [if_neg hx]
      have : 0 < x2 := lt_of_le_of_ne hx2 (Ne.symm hx)
      exact sgnInt_neg (by rw [hy]; nlinarith) _
  · rw [if_neg hy]
    have hy2' : 0 < y2 := lt_of_le_of_ne hy2 (Ne.symm hy)
    by_cases hx : x2 = 0
    · rw [if_pos hx]; exact sgnInt_pos (by rw [hx]; nlinarith) _
    · rw [if_neg hx]
      have hx2' : 0 < x2 := lt_of_le_of_ne hx2 (Ne.symm hx)
      obtain ⟨hr0, hr1⟩ := red_facts x1 x2 hx2'
      generalize hk : (⌊x1 / x2⌋ : ℤ) = k at hr0 hr1 ⊢
      -- the reduced row
      have hdet : (x1 - (k : K) * x2) * y2 - x2 * (y1 - (k : K) * y2) = x1 * y2 - x2 * y1 := by ring
      have hlat : x1 - (k : K) * x2 = g * ((m1 - k * m2 : ℤ) : K) := by
        rw [h1, h2]; push_cast; ring
      have hmlt : m1 - k * m2 < m2 := by
        apply cast_lt_of_mul g hg; rw [← hlat, ← h2]; exact hr1
      show (if _ then _ else _) = _
      by_cases c1 : y1 - (k : K) * y2 < 0
      · rw [if_pos c1]; exact sgnInt_pos (by rw [← hdet]; nlinarith) _
      · rw [if_neg c1]
        by_cases c2 : y2 < y1 - (k : K) * y2
        · rw [if_pos c2]; exact sgnInt_neg (by rw [← hdet]; nlinarith) _
        · rw [if_neg c2]
          have c1' := not_lt.mp c1
          have c2' := not_lt.mp c2
          by_cases c3 : x1 - (k : K) * x2 + (x1 - (k : K) * x2) < x2
          · rw [if_pos c3]
            by_cases c4 : y2 < y1 - (k : K) * y2 + (y1 - (k : K) * y2)
            · rw [if_pos c4]; exact sgnInt_neg (by rw [← hdet]; nlinarith) _
            · rw [if_neg c4]
              rw [detHalfC_correct F hF g n rec hrec _ _ x2 y2 sign _ m2 hlat h2 hr0 c1' hx2' hy2' (by omega), hdet]
          · rw [if_neg c3]
            have c3' := not_lt.mp c3
            by_cases c4 : y1 - (k : K) * y2 + (y1 - (k : K) * y2) < y2
            · rw [if_pos c4]; exact sgnInt_pos (by rw [← hdet]; nlinarith) _
            · rw [if_neg c4]
              have hlat2 : x2 - (x1 - (k : K) * x2) = g * ((m2 - (m1 - k * m2) : ℤ) : K) := by
                rw [h1, h2]; push_cast; ring
              have hpos : 0 < x1 - (k : K) * x2 := by linarith
              have hmlt2 : m2 - (m1 - k * m2) < m2 := by
                apply cast_lt_of_mul g hg; rw [← hlat2, ← h2]; linarith
              rw [detHalfC_correct F hF g n rec hrec _ _ x2 y2 (-sign) _ m2 hlat2 h2 (by linarith) (by linarith) hx2' hy2' (by omega)]
              have : (x2 - (x1 - (k : K) * x2)) * y2 - x2 * (y2 - (y1 - (k : K) * y2)) = -(x1 * y2 - x2 * y1) := by ring
              rw [this, sgnInt_negArg]; ring


theorem detStep_correct (F : DetOps K) (hF : LawfulDet F) (g : K) (hg : 0 < g) (n : ℤ)
    (rec : K → K → K → K → Int → Int) (hrec : RecOK g n rec)
    (x1 y1 x2 y2 : K) (sign : Int) (m1 m2 : ℤ) (h1 : x1 = g * m1) (h2 : x2 = g * m2)
    (hx1 : 0 < x1) (hy1 : 0 < y1) (hm : m1 ≤ n + 1) :
    detStep F rec x1 y1 x2 y2 sign = sign * sgnInt (x1 * y2 - x2 * y1) := by
  unfold detStep
  simp only [hF.lt, hF.sub, hF.add, hF.mul, hF.div, hF.floor, hF.zero, decide_eq_true_eq]
  obtain ⟨hr0, hr1⟩ := red_facts x2 x1 hx1
  generalize hk : (⌊x2 / x1⌋ : ℤ) = k at hr0 hr1 ⊢
  have hdet : x1 * (y2 - (k : K) * y1) - (x2 - (k : K) * x1) * y1 = x1 * y2 - x2 * y1 := by ring
  have hlat : x2 - (k : K) * x1 = g * ((m2 - k * m1 : ℤ) : K) := by
    rw [h1, h2]; push_cast; ring
  have hmlt : m2 - k * m1 < m1 := by
    apply cast_lt_of_mul g hg; rw [← hlat, ← h1]; exact hr1
  show (if _ then _ else _) = _
  by_cases c1 : y2 - (k : K) * y1 < 0
  · rw [if_pos c1]; exact sgnInt_neg (by rw [← hdet]; nlinarith) _
  · rw [if_neg c1]
    by_cases c2 : y1 < y2 - (k : K) * y1
    · rw [if_pos c2]; exact sgnInt_pos (by rw [← hdet]; nlinarith) _
    · rw [if_neg c2]
      have c1' := not_lt.mp c1
      have c2' := not_lt.mp c2
      by_cases c3 : x2 - (k : K) * x1 + (x2 - (k : K) * x1) < x1
      · rw [if_pos c3]
        by_cases c4 : y1 < y2 - (k : K) * y1 + (y2 - (k : K) * y1)
        · rw [if_pos c4]; exact sgnInt_pos (by rw [← hdet]; nlinarith) _
        · rw [if_neg c4]
          rw [detHalfB_correct F hF g hg n rec hrec x1 y1 _ _ sign m1 _ h1 hlat hx1 hy1 hr0 c1' (by omega), hdet]
      · rw [if_neg c3]
        have c3' := not_lt.mp c3
        by_cases c4 : y2 - (k : K) * y1 + (y2 - (k : K) * y1) < y1
        · rw [if_pos c4]; exact sgnInt_neg (by rw [← hdet]; nlinarith) _
        · rw [if_neg c4]
          have hlat2 : x1 - (x2 - (k : K) * x1) = g * ((m1 - (m2 - k * m1) : ℤ) : K) := by
            rw [h1, h2]; push_cast; ring
          have hpos : 0 < x2 - (k : K) * x1 := by linarith
          have hmlt2 : m1 - (m2 - k * m1) < m1 := by
            apply cast_lt_of_mul g hg; rw [← hlat2, ← h1]; linarith
          rw [detHalfB_correct F hF g hg n rec hrec x1 y1 _ _ (-sign) m1 _ h1 hlat2 hx1 hy1 (by linarith) (by linarith) (by omega)]
          have : x1 * (y1 - (y2 - (k : K) * y1)) - (x1 - (x2 - (k : K) * x1)) * y1 = -(x1 * y2 - x2 * y1) := by ring
          rw [this, sgnInt_negArg]; ring

/-- The Euclidean loop returns the exact sign of the determinant (times the sign it carries),
for positive entries whose first column lies on a lattice `g·ℤ`, given fuel for the lattice index
of `x1` (which strictly decreases from one iteration to the next). -/
theorem detLoop_correct (F : DetOps K) (hF : LawfulDet F) (g : K) (hg : 0 < g) :
    ∀ fuel : Nat, RecOK g (fuel : ℤ) (detLoop F fuel) := by
  intro fuel
  induction fuel with
  | zero =>
      intro x1 y1 x2 y2 sign m1 m2 h1 _ hx1 _ _ _ hm
      exfalso
      have : (0 : ℤ) < m1 := by
        apply cast_lt_of_mul g hg; rw [← h1]; simpa using hx1
      omega
  | succ fuel ih =>
      intro x1 y1 x2 y2 sign m1 m2 h1 h2 hx1 hy1 _ _ hm
      rw [detLoop]
      exact detStep_correct F hF g hg fuel _ ih x1 y1 x2 y2 sign m1 m2 h1 h2 hx1 hy1 (by push_cast at hm; omega)


/-! ### The stages before the loop -/

theorem detXStage_correct (F : DetOps K) (hF : LawfulDet F) (g : K) (hg : 0 < g) (fuel : Nat)
    (x1 y1 x2 y2 : K) (sign : Int) (m1 m2 : ℤ) (h1 : x1 = g * m1) (h2 : x2 = g * m2)
    (hx1 : x1 ≠ 0) (hx2 : x2 ≠ 0) (hy1 : 0 < y1) (hy : y1 ≤ y2) (hm : |m1| ≤ fuel) :
    detXStage F fuel x1 y1 x2 y2 sign = sign * sgnInt (x1 * y2 - x2 * y1) := by
  have hy2 : 0 < y2 := lt_of_lt_of_le hy1 hy
  unfold detXStage
  simp only [hF.lt, hF.neg, hF.zero, decide_eq_true_eq, Bool.not_eq_true', decide_eq_false_iff_not]
  rcases lt_or_gt_of_ne hx1 with n1 | p1
  · rw [if_neg (not_lt.mpr n1.le)]
    rcases lt_or_gt_of_ne hx2 with n2 | p2
    · rw [if_neg (not_lt.mpr n2.le)]
      by_cases c : x1 < x2
      · rw [if_neg (not_not.mpr c)]
        exact sgnInt_neg (by nlinarith) _
      · rw [if_pos c]
        have c' := not_lt.mp c
        have hl : -x1 = g * ((-m1 : ℤ) : K) := by rw [h1]; push_cast; ring
        have hl2 : -x2 = g * ((-m2 : ℤ) : K) := by rw [h2]; push_cast; ring
        rw [detLoop_correct F hF g hg fuel (-x1) y1 (-x2) y2 (-sign) _ _ hl hl2 (by linarith) hy1
          (by linarith) hy2 (by rw [abs_le] at hm; omega)]
        have : -x1 * y2 - -x2 * y1 = -(x1 * y2 - x2 * y1) := by ring
        rw [this, sgnInt_negArg]; ring
    · rw [if_pos p2]; exact sgnInt_neg (by nlinarith) _
  · rw [if_pos p1]
    rcases lt_or_gt_of_ne hx2 with n2 | p2
    · rw [if_neg (not_lt.mpr n2.le)]; exact sgnInt_pos (by nlinarith) _
    · rw [if_pos p2]
      by_cases c : x2 < x1
      · rw [if_pos c]; exact sgnInt_pos (by nlinarith) _
      · rw [if_neg c]
        exact detLoop_correct F hF g hg fuel x1 y1 x2 y2 sign m1 m2 h1 h2 p1 hy1 p2 hy2
          (by rw [abs_le] at hm; omega)


theorem one_mul_sgn (d : K) : sgnInt d = 1 * sgnInt d := by ring
theorem sgnInt_pos1 {d : K} (h : 0 < d) : (1 : Int) = sgnInt d := by simp [sgnInt, h]
theorem sgnInt_neg1 {d : K} (h : d < 0) : (-1 : Int) = sgnInt d := by
  have : ¬ (0 < d) := not_lt.mpr h.le
  simp [sgnInt, h, this]

/-- **SignOfDet2x2 is exact**: for entries whose first column lies on a lattice `g·ℤ` and enough
fuel for the larger lattice index, the routine returns the sign of `x1·y2 − x2·y1`. -/
theorem C11_signOfDet2x2_exact (F : DetOps K) (hF : LawfulDet F) (g : K) (hg : 0 < g) (fuel : Nat)
    (x1 y1 x2 y2 : K) (m1 m2 : ℤ) (h1 : x1 = g * m1) (h2 : x2 = g * m2)
    (hm1 : |m1| ≤ fuel) (hm2 : |m2| ≤ fuel) :
    signOfDet2x2 F fuel x1 y1 x2 y2 = sgnInt (x1 * y2 - x2 * y1) := by
  unfold signOfDet2x2
  simp only [hF.lt, hF.neg, hF.zero, hF.isZero, decide_eq_true_eq, Bool.not_eq_true',
    decide_eq_false_iff_not, Bool.or_eq_true]
  have hn1 : -x1 = g * ((-m1 : ℤ) : K) := by rw [h1]; push_cast; ring
  have hn2 : -x2 = g * ((-m2 : ℤ) : K) := by rw [h2]; push_cast; ring
  have hm1' : |-m1| ≤ (fuel : ℤ) := by rwa [abs_neg]
  have hm2' : |-m2| ≤ (fuel : ℤ) := by rwa [abs_neg]
  by_cases z1 : x1 = 0 ∨ y2 = 0
  · rw [if_pos z1]
    by_cases z2 : y1 = 0 ∨ x2 = 0
    · rw [if_pos z2]
      have : x1 * y2 - x2 * y1 = 0 := by
        rcases z1 with h | h <;> rcases z2 with h' | h' <;> rw [h, h'] <;> ring
      rw [this]; simp [sgnInt]
    · rw [if_neg z2]
      push Not at z2
      have hd : x1 * y2 - x2 * y1 = -(x2 * y1) := by
        rcases z1 with h | h <;> rw [h] <;> ring
      rw [hd]
      rcases lt_or_gt_of_ne z2.1 with ny | py <;> rcases lt_or_gt_of_ne z2.2 with nx | px
      · rw [if_neg (not_lt.mpr ny.le), if_neg (not_lt.mpr nx.le)]
        exact sgnInt_neg1 (by nlinarith)
      · rw [if_neg (not_lt.mpr ny.le), if_pos px]
        exact sgnInt_pos1 (by nlinarith)
      · rw [if_pos py, if_neg (not_lt.mpr nx.le)]
        exact sgnInt_pos1 (by nlinarith)
      · rw [if_pos py, if_pos px]
        exact sgnInt_neg1 (by nlinarith)
  · rw [if_neg z1]
    push Not at z1
    by_cases z2 : y1 = 0 ∨ x2 = 0
    · rw [if_pos z2]
      have hd : x1 * y2 - x2 * y1 = x1 * y2 := by
        rcases z2 with h | h <;> rw [h] <;> ring
      rw [hd]
      rcases lt_or_gt_of_ne z1.1 with nx | px <;> rcases lt_or_gt_of_ne z1.2 with ny | py
      · rw [if_neg (not_lt.mpr ny.le), if_neg (not_lt.mpr nx.le)]
        exact sgnInt_pos1 (by nlinarith)
      · rw [if_pos py, if_neg (not_lt.mpr nx.le)]
        exact sgnInt_neg1 (by nlinarith)
      · rw [if_neg (not_lt.mpr ny.le), if_pos px]
        exact sgnInt_neg1 (by nlinarith)
      · rw [if_pos py, if_pos px]
        exact sgnInt_pos1 (by nlinarith)
    · rw [if_neg z2]
      push Not at z2
      obtain ⟨x1ne, y2ne⟩ := z1
      obtain ⟨y1ne, x2ne⟩ := z2
      rcases lt_or_gt_of_ne y1ne with ny1 | py1
      · rw [if_neg (not_lt.mpr ny1.le)]
        rcases lt_or_gt_of_ne y2ne with ny2 | py2
        · rw [if_neg (not_lt.mpr ny2.le)]
          by_cases c : y1 < y2
          · rw [if_neg (not_not.mpr c)]
            rw [detXStage_correct F hF g hg fuel (-x2) (-y2) (-x1) (-y1) (-1) _ _ hn2 hn1
              (neg_ne_zero.mpr x2ne) (neg_ne_zero.mpr x1ne) (by linarith) (by linarith) hm2']
            have : -x2 * -y1 - -x1 * -y2 = -(x1 * y2 - x2 * y1) := by ring
            rw [this, sgnInt_negArg]; ring
          · rw [if_pos c]
            rw [detXStage_correct F hF g hg fuel (-x1) (-y1) (-x2) (-y2) 1 _ _ hn1 hn2
              (neg_ne_zero.mpr x1ne) (neg_ne_zero.mpr x2ne) (by linarith) (by linarith [not_lt.mp c]) hm1']
            have : -x1 * -y2 - -x2 * -y1 = x1 * y2 - x2 * y1 := by ring
            rw [this]; ring
        · rw [if_pos py2]
          by_cases c : y2 < -y1
          · rw [if_neg (not_not.mpr c)]
            rw [detXStage_correct F hF g hg fuel x2 y2 (-x1) (-y1) 1 _ _ h2 hn1
              x2ne (neg_ne_zero.mpr x1ne) py2 c.le hm2]
            have : x2 * -y1 - -x1 * y2 = x1 * y2 - x2 * y1 := by ring
            rw [this]; ring
          · rw [if_pos c]
            rw [detXStage_correct F hF g hg fuel (-x1) (-y1) x2 y2 (-1) _ _ hn1 h2
              (neg_ne_zero.mpr x1ne) x2ne (by linarith) (not_lt.mp c) hm1']
            have : -x1 * y2 - x2 * -y1 = -(x1 * y2 - x2 * y1) := by ring
            rw [this, sgnInt_negArg]; ring
      · rw [if_pos py1]
        rcases lt_or_gt_of_ne y2ne with ny2 | py2
        · rw [if_neg (not_lt.mpr ny2.le)]
          by_cases c : -y2 < y1
          · rw [if_neg (not_not.mpr c)]
            rw [detXStage_correct F hF g hg fuel (-x2) (-y2) x1 y1 1 _ _ hn2 h1
              (neg_ne_zero.mpr x2ne) x1ne (by linarith) c.le hm2']
            have : -x2 * y1 - x1 * -y2 = x1 * y2 - x2 * y1 := by ring
            rw [this]; ring
          · rw [if_pos c]
            rw [detXStage_correct F hF g hg fuel x1 y1 (-x2) (-y2) (-1) _ _ h1 hn2
              x1ne (neg_ne_zero.mpr x2ne) py1 (not_lt.mp c) hm1]
            have : x1 * -y2 - -x2 * y1 = -(x1 * y2 - x2 * y1) := by ring
            rw [this, sgnInt_negArg]; ring
        · rw [if_pos py2]
          by_cases c : y2 < y1
          · rw [if_pos c]
            rw [detXStage_correct F hF g hg fuel x2 y2 x1 y1 (-1) _ _ h2 h1 x2ne x1ne py2 c.le hm2]
            have : x2 * y1 - x1 * y2 = -(x1 * y2 - x2 * y1) := by ring
            rw [this, sgnInt_negArg]; ring
          · rw [if_neg c]
            rw [detXStage_correct F hF g hg fuel x1 y1 x2 y2 1 _ _ h1 h2 x1ne x2ne py1 (not_lt.mp c) hm1]
            ring


theorem edgesK_mem (ring : List (K × K)) : ∀ e ∈ edgesK ring, e.1 ∈ ring ∧ e.2 ∈ ring := by
  induction ring with
  | nil => intro e he; simp [edgesK] at he
  | cons a rest ih =>
    cases rest with
    | nil => intro e he; simp [edgesK] at he
    | cons b rest' =>
      intro e he
      simp only [edgesK, List.mem_cons] at he
      rcases he with rfl | he
      · simp
      · obtain ⟨h1, h2⟩ := ih e he
        exact ⟨List.mem_cons_of_mem _ h1, List.mem_cons_of_mem _ h2⟩



/-- **C11 — LocatePointInRing is the even-odd rule, unconditionally** (exact arithmetic): for a
closed ring and a point whose abscissa differences lie on a lattice `g·ℤ` with indices within the
fuel, the result is boundary / interior / exterior exactly as the specification says. -/
theorem C11_locate_exact (F : DetOps K) (hF : LawfulDet F) (g : K) (hg : 0 < g) (fuel : Nat)
    (p : K × K) (ring : List (K × K)) (hcl : ring.head? = ring.getLast?)
    (hlat : ∀ v ∈ ring, ∃ m : ℤ, v.1 - p.1 = g * m ∧ |m| ≤ fuel) :
    (locate F fuel p.1 p.2 ring = Loc.boundary ↔ OnBoundary p ring) ∧
    (¬ OnBoundary p ring →
      (locate F fuel p.1 p.2 ring = Loc.interior ↔ crossingCount p ring % 2 = 1) ∧
      (locate F fuel p.1 p.2 ring = Loc.exterior ↔ crossingCount p ring % 2 ≠ 1)) := by
  apply C11_locate_eq_spec F ⟨hF.lt, hF.sub⟩ fuel p ring hcl
  intro e he
  obtain ⟨h1, h2⟩ := edgesK_mem ring e he
  obtain ⟨ma, ha, hma⟩ := hlat e.1 h1
  obtain ⟨mb, hb, hmb⟩ := hlat e.2 h2
  exact C11_signOfDet2x2_exact F hF g hg fuel _ _ _ _ mb ma hb ha hmb hma

end dev

/-! ### The rationals (every float64 is one) -/

/-- The field operations of ℚ with its floor. -/
def ratDet : DetOps ℚ where
  zero := 0
  add := (· + ·)
  sub := (· - ·)
  mul := (· * ·)
  sqrt := id
  half := (· / 2)
  div := (· / ·)
  one := 1
  lt := fun a b => decide (a < b)
  isZero := fun a => decide (a = 0)
  floor := fun a => ((⌊a⌋ : ℤ) : ℚ)
  neg := fun a => -a

theorem ratDet_lawful : LawfulDet ratDet :=
  ⟨fun _ _ => rfl, fun _ _ => rfl, fun _ _ => rfl, fun _ _ => rfl, fun _ _ => rfl, fun _ => rfl,
   fun _ => rfl, fun _ => rfl, rfl⟩

/-- Finitely many rationals lie on a common lattice `(1/D)·ℤ`, with bounded indices. -/
theorem rat_common_lattice (qs : List ℚ) :
    ∃ (D : ℕ) (B : ℕ), 0 < D ∧ ∀ q ∈ qs, ∃ m : ℤ, q = (1 / (D : ℚ)) * m ∧ |m| ≤ (B : ℤ) := by
  induction qs with
  | nil => exact ⟨1, 0, by norm_num, by simp⟩
  | cons q qs ih =>
    obtain ⟨D, B, hD, h⟩ := ih
    refine ⟨q.den * D, max (B * q.den) (q.num * D).natAbs, Nat.mul_pos q.den_pos hD, ?_⟩
    intro r hr
    have hDq : (D : ℚ) ≠ 0 := by exact_mod_cast hD.ne'
    have hdq : (q.den : ℚ) ≠ 0 := by exact_mod_cast q.den_pos.ne'
    rcases List.mem_cons.mp hr with rfl | hr
    · refine ⟨r.num * D, ?_, ?_⟩
      · push_cast
        have : r = r.num / r.den := (Rat.num_div_den r).symm
        field_simp
        have := Rat.mul_den_eq_num r
        linarith
      · rw [Int.abs_eq_natAbs]; exact_mod_cast le_max_right _ _
    · obtain ⟨m, hm, hb⟩ := h r hr
      refine ⟨m * q.den, ?_, ?_⟩
      · rw [hm]; push_cast; field_simp
      · rw [abs_mul]
        have : |(q.den : ℤ)| = q.den := abs_of_nonneg (by positivity)
        rw [this]
        have h1 : |m| * (q.den : ℤ) ≤ (B : ℤ) * q.den := by
          apply mul_le_mul_of_nonneg_right hb (by positivity)
        have h2 : ((B * q.den : ℕ) : ℤ) ≤ ((max (B * q.den) (q.num * D).natAbs : ℕ) : ℤ) := by
          exact_mod_cast le_max_left _ _
        push_cast at h2 ⊢
        linarith

/-- **C11 over ℚ, no side conditions**: for every closed ring of rational points and every rational
point there is an amount of fuel from which on the model's answer is the specification's — the
determinant routine terminates with the exact sign on every call the ring can cause. -/
theorem C11_locate_exact_rat (p : ℚ × ℚ) (ring : List (ℚ × ℚ)) (hcl : ring.head? = ring.getLast?) :
    ∃ fuel0 : Nat, ∀ fuel ≥ fuel0,
      (locate ratDet fuel p.1 p.2 ring = Loc.boundary ↔ OnBoundary p ring) ∧
      (¬ OnBoundary p ring →
        (locate ratDet fuel p.1 p.2 ring = Loc.interior ↔ crossingCount p ring % 2 = 1) ∧
        (locate ratDet fuel p.1 p.2 ring = Loc.exterior ↔ crossingCount p ring % 2 ≠ 1)) := by
  obtain ⟨D, B, hD, h⟩ := rat_common_lattice (ring.map fun v => v.1 - p.1)
  refine ⟨B, fun fuel hfuel => ?_⟩
  have hg : (0 : ℚ) < 1 / (D : ℚ) := by
    apply div_pos one_pos; exact_mod_cast hD
  apply C11_locate_exact ratDet ratDet_lawful (1 / (D : ℚ)) hg fuel p ring hcl
  intro v hv
  obtain ⟨m, hm, hb⟩ := h (v.1 - p.1) (List.mem_map.mpr ⟨v, hv, rfl⟩)
  exact ⟨m, hm, le_trans hb (by exact_mod_cast hfuel)⟩

/-- Non-vacuity: the hypothesis of the two theorems above is met by the closed unit square, and the
lattice hypothesis of `C11_locate_exact` by the centre of that square with g = 1/2 and fuel 1. -/
example : ([(0,0), (1,0), (1,1), (0,1), (0,0)] : List (ℚ × ℚ)).head?
    = ([(0,0), (1,0), (1,1), (0,1), (0,0)] : List (ℚ × ℚ)).getLast? := by simp

example : ∀ v ∈ ([(0,0), (1,0), (1,1), (0,1), (0,0)] : List (ℚ × ℚ)),
    ∃ m : ℤ, v.1 - ((1/2, 1/2) : ℚ × ℚ).1 = (1/2 : ℚ) * m ∧ |m| ≤ ((1 : ℕ) : ℤ) := by
  intro v hv
  simp only [List.mem_cons, List.not_mem_nil, or_false] at hv
  rcases hv with rfl | rfl | rfl | rfl | rfl
  · exact ⟨-1, by norm_num, by norm_num⟩
  · exact ⟨1, by norm_num, by norm_num⟩
  · exact ⟨1, by norm_num, by norm_num⟩
  · exact ⟨-1, by norm_num, by norm_num⟩
  · exact ⟨-1, by norm_num, by norm_num⟩

end GeomVerif.Locate
