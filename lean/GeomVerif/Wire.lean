/-
Wire codecs between S-expressions and model values (driver side).
-/
import GeomVerif.Basic
import GeomVerif.Model.Flat

namespace GeomVerif.Wire
open GeomVerif

abbrev Dec (β : Type) := Sexp → Option β

def nat : Dec Nat := Sexp.asNat?
def int : Dec Int := Sexp.asInt?
def bits : Dec UInt64 := Sexp.asBits?

def listOf {β} (d : Dec β) : Dec (List β)
  | .list xs => xs.mapM d
  | _ => none

/-- `nil` atom = none, anything else decoded by `d`. -/
def optOf {β} (d : Dec β) : Dec (Option β)
  | .atom "nil" => some none
  | s => (d s).map some

def coord : Dec (List UInt64) := listOf bits
def coords1 : Dec (List (List UInt64)) := listOf coord
def coords2 : Dec (List (List (List UInt64))) := listOf coords1
def coords3 : Dec (List (List (List (List UInt64)))) := listOf coords2
def mcoords : Dec (List (Option (List UInt64))) := listOf (optOf coord)

def encList {β} (e : β → Sexp) (xs : List β) : Sexp := .list (xs.map e)
def encOpt {β} (e : β → Sexp) : Option β → Sexp
  | none => .atom "nil"
  | some x => e x
def encCoord (c : List UInt64) : Sexp := encList bitsAtom c
def encCoords1 := encList encCoord
def encCoords2 := encList encCoords1
def encCoords3 := encList encCoords2
def encMCoords := encList (encOpt encCoord)
def encNats (xs : List Nat) : Sexp := encList Sexp.ofNat xs

def encErr : Err → List Sexp
  | .strideMismatch g w => [.atom "strideMismatch", .ofNat g, .ofNat w]
  | .layoutMismatch g w => [.atom "layoutMismatch", .ofNat g, .ofNat w]
  | .unsupportedLayout l => [.atom "unsupportedLayout", .ofNat l]
  | .unsupportedType => [.atom "unsupportedType"]
  | .unknownByteOrder b => [.atom "unknownByteOrder", .ofNat b]
  | .unknownType t => [.atom "unknownType", .ofNat t]
  | .unexpectedType => [.atom "unexpectedType"]
  | .tooLarge l n lim => [.atom "tooLarge", .ofNat l, .ofNat n, .ofNat lim]
  | .eof => [.atom "eof"]
  | .unexpectedEof => [.atom "unexpectedEof"]
  | .writer => [.atom "writer"]
  | .syntax => [.atom "syntax"]
  | .json => [.atom "json"]
  | .dimTooLow n => [.atom "dimTooLow", .ofNat n]
  | .other _ => [.atom "other"]

def decErr : List Sexp → Option Err
  | [.atom "strideMismatch", g, w] => do pure (.strideMismatch (← nat g) (← nat w))
  | [.atom "layoutMismatch", g, w] => do pure (.layoutMismatch (← nat g) (← nat w))
  | [.atom "unsupportedLayout", l] => do pure (.unsupportedLayout (← nat l))
  | [.atom "unsupportedType"] => some .unsupportedType
  | [.atom "unknownByteOrder", b] => do pure (.unknownByteOrder (← nat b))
  | [.atom "unknownType", t] => do pure (.unknownType (← nat t))
  | [.atom "unexpectedType"] => some .unexpectedType
  | [.atom "tooLarge", l, n, lim] => do pure (.tooLarge (← nat l) (← nat n) (← nat lim))
  | [.atom "eof"] => some .eof
  | [.atom "unexpectedEof"] => some .unexpectedEof
  | [.atom "writer"] => some .writer
  | [.atom "syntax"] => some .syntax
  | [.atom "json"] => some .json
  | [.atom "dimTooLow", n] => do pure (.dimTooLow (← nat n))
  | [.atom "other", .atom s] => some (.other s)
  | [.atom "other"] => some (.other "")
  | _ => none

/-- `(ok v)`, `(err kind args…)`, `(panic)`. -/
def encOutcome {β} (e : β → Sexp) : Outcome β → Sexp
  | .ok b => .list [.atom "ok", e b]
  | .err er => .list (.atom "err" :: encErr er)
  | .panic _ => .list [.atom "panic"]

def decOutcome {β} (d : Dec β) : Dec (Outcome β)
  | .list [.atom "ok", v] => (d v).map .ok
  | .list (.atom "err" :: rest) => (decErr rest).map .err
  | .list (.atom "panic" :: _) => some (.panic "go")
  | _ => none

def encG1 (g : G1 UInt64) : Sexp :=
  .list [.ofNat g.layout, .ofNat g.stride, encCoord g.flat, .ofInt g.srid]
def decG1 : Dec (G1 UInt64)
  | .list [l, s, f, sr] => do
      pure { layout := ← nat l, stride := ← nat s, flat := ← coord f, srid := ← int sr }
  | _ => none
def encG2 (g : G2 UInt64) : Sexp :=
  .list [.ofNat g.layout, .ofNat g.stride, encCoord g.flat, encNats g.ends, .ofInt g.srid]
def decG2 : Dec (G2 UInt64)
  | .list [l, s, f, e, sr] => do
      pure { layout := ← nat l, stride := ← nat s, flat := ← coord f, ends := ← listOf nat e,
             srid := ← int sr }
  | _ => none
def encG3 (g : G3 UInt64) : Sexp :=
  .list [.ofNat g.layout, .ofNat g.stride, encCoord g.flat, encList encNats g.endss, .ofInt g.srid]
def decG3 : Dec (G3 UInt64)
  | .list [l, s, f, e, sr] => do
      pure { layout := ← nat l, stride := ← nat s, flat := ← coord f,
             endss := ← listOf (listOf nat) e, srid := ← int sr }
  | _ => none

def encPair {β γ} (e1 : β → Sexp) (e2 : γ → Sexp) (p : β × γ) : Sexp := .list [e1 p.1, e2 p.2]
def decPair {β γ} (d1 : Dec β) (d2 : Dec γ) : Dec (β × γ)
  | .list [a, b] => do pure (← d1 a, ← d2 b)
  | _ => none

/-- Reply of a handler: the model's output and the oracle's verdict on Go's output. -/
structure Reply where
  model : String
  verdict : String   -- "ok" | "FAIL <why>" | "na"

def verdictOf (b : Bool) (why : String := "property") : String :=
  if b then "ok" else "FAIL " ++ why

end GeomVerif.Wire
